import HexVerif.Cli.Model
/-!
  Lemmas about the argument loops of `Cli/Model.lean`:
  * `…Loop_render`  (soundness)   on the rendering of any valid item list the loop computes the
    declarative reading of that list (the one file, the last `-o`/`--output`, the flags present);
  * `…Loop_done`    (completeness) if the loop runs to the end, the argument list *is* the
    rendering of a valid item list.
  Both by induction over the loop, for all argument lists.
-/
namespace Hex.Cli

theorem lastSome_getD_cons {α : Type} (f : Item → Option α) (i : Item) (is : List Item) (d : α) :
    (lastSome f (i :: is)).getD d = (lastSome f is).getD ((f i).getD d) := by
  simp only [lastSome]
  cases lastSome f is <;> simp

/-- Prepending a valid item to a sentence gives a sentence. -/
theorem sentence_cons (s : Syntax) (it : Item) (hit : it.Valid s) {rest : List String}
    (h : ∃ items, (∀ i ∈ items, i.Valid s) ∧ rest = render items) :
    ∃ items, (∀ i ∈ items, i.Valid s) ∧ it.render ++ rest = render items := by
  obtain ⟨items, hv, rfl⟩ := h
  refine ⟨it :: items, ?_, rfl⟩
  intro i hi
  rcases List.mem_cons.mp hi with rfl | hi
  · exact hit
  · exact hv i hi

/-! ### hexasm -/

def asmOutNames : List String := ["--output", "-o"]

def asmDone (items : List Item) (o : AsmOpts) (fn : Option String) : AsmOpts :=
  { tokensOnly := o.tokensOnly || hasFlag ["--tokens"] items,
    instrsOnly := o.instrsOnly || hasFlag ["--instrs"] items,
    filename := fn,
    outputFilename := (lastSome (optVal asmOutNames) items).getD o.outputFilename }

theorem hexasmLoop_cons (a : String) (rest : List String) (o : AsmOpts) :
    hexasmLoop (a :: rest) o =
    if a = "-h" ∨ a = "--help" then .help
    else if a = "--tokens" then hexasmLoop rest { o with tokensOnly := true }
    else if a = "--instrs" then hexasmLoop rest { o with instrsOnly := true }
    else if a = "--output" ∨ a = "-o" then
      match rest with
      | [] => .exn
      | v :: rest' => hexasmLoop rest' { o with outputFilename := v }
    else if dash a then .exn
    else
      match o.filename with
      | none => hexasmLoop rest { o with filename := some a }
      | some _ => .exn := by
  cases rest <;> rfl

theorem hexasmLoop_render (items : List Item) (hv : ∀ i ∈ items, i.Valid hexasmSyn) (o : AsmOpts) :
    hexasmLoop (render items) o =
      match o.filename.toList ++ files items with
      | [] => .done (asmDone items o none)
      | [f] => .done (asmDone items o (some f))
      | _ => .exn := by
  induction items generalizing o with
  | nil =>
    rcases o with ⟨t, i, fn, out⟩
    cases fn <;> simp [render, hexasmLoop, files, asmDone, hasFlag, lastSome]
  | cons it is ih =>
    have hv' : ∀ i ∈ is, i.Valid hexasmSyn := fun i hi => hv i (List.mem_cons_of_mem _ hi)
    have hit := hv it List.mem_cons_self
    cases it with
    | flag n =>
      simp only [Item.Valid, hexasmSyn, List.mem_cons, List.not_mem_nil, or_false] at hit
      rcases hit with rfl | rfl
      · simp only [render, Item.render, List.cons_append, List.nil_append, hexasmLoop_cons]
        simp only [String.reduceEq, or_self, ↓reduceIte]
        rw [ih hv']
        simp [files, asmDone, hasFlag, lastSome_getD_cons, optVal]
      · simp only [render, Item.render, List.cons_append, List.nil_append, hexasmLoop_cons]
        simp only [String.reduceEq, or_self, ↓reduceIte]
        rw [ih hv']
        simp [files, asmDone, hasFlag, lastSome_getD_cons, optVal]
    | opt n v =>
      simp only [Item.Valid, hexasmSyn, List.mem_cons, List.not_mem_nil, or_false] at hit
      rcases hit with rfl | rfl
      · simp only [render, Item.render, List.cons_append, List.nil_append, hexasmLoop_cons]
        simp only [String.reduceEq, or_self, or_true, true_or, ↓reduceIte]
        rw [ih hv']
        simp [files, asmDone, hasFlag, lastSome_getD_cons, optVal, asmOutNames]
      · simp only [render, Item.render, List.cons_append, List.nil_append, hexasmLoop_cons]
        simp only [String.reduceEq, or_self, or_true, true_or, ↓reduceIte]
        rw [ih hv']
        simp [files, asmDone, hasFlag, lastSome_getD_cons, optVal, asmOutNames]
    | file f =>
      simp only [Item.Valid, hexasmSyn, List.mem_cons, List.not_mem_nil, or_false, not_or,
        forall_const] at hit
      obtain ⟨⟨h1, h2⟩, ⟨h3, h4⟩, ⟨h5, h6⟩, h7⟩ := hit
      simp only [render, Item.render, List.cons_append, List.nil_append, hexasmLoop_cons]
      simp only [h1, h2, h3, h4, h5, h6, h7, or_self, ↓reduceIte, Bool.false_eq_true]
      rcases o with ⟨t, i, fn, out⟩
      cases fn with
      | none =>
        simp only []
        rw [ih hv']
        simp only [Option.toList, List.nil_append, List.cons_append, files]
        cases files is with
        | nil => simp [asmDone, hasFlag, lastSome_getD_cons, optVal]
        | cons g gs => simp
      | some g =>
        simp [files]

theorem hexasmLoop_done (args : List String) (o o' : AsmOpts) (h : hexasmLoop args o = .done o') :
    ∃ items, (∀ i ∈ items, i.Valid hexasmSyn) ∧ args = render items := by
  fun_induction hexasmLoop args o
  · exact ⟨[], by simp, rfl⟩
  · cases h
  · rename_i ih
    exact sentence_cons _ (.flag "--tokens") (by simp [Item.Valid, hexasmSyn]) (ih h)
  · rename_i ih
    exact sentence_cons _ (.flag "--instrs") (by simp [Item.Valid, hexasmSyn]) (ih h)
  · cases h
  · rename_i a _ _ _ _ ho v _ ih
    exact sentence_cons _ (.opt a v) (by rcases ho with rfl | rfl <;> simp [Item.Valid, hexasmSyn]) (ih h)
  · cases h
  · rename_i a _ _ h1 h2 h3 h4 h5 _ ih
    refine sentence_cons _ (.file a) ?_ (ih h)
    simp only [not_or] at h1 h4
    simp [Item.Valid, hexasmSyn, h1, h2, h3, h4, h5]
  · cases h

/-- The reading of a well-formed hexasm command line. -/
structure AsmCmd where
  tokensOnly : Bool
  instrsOnly : Bool
  file : String
  out : String

def AsmCmd.opts (c : AsmCmd) : AsmOpts := ⟨c.tokensOnly, c.instrsOnly, some c.file, c.out⟩

def asmCmdOf (items : List Item) (f : String) : AsmCmd :=
  ⟨hasFlag ["--tokens"] items, hasFlag ["--instrs"] items, f,
   (lastSome (optVal asmOutNames) items).getD "a.out"⟩

/-- `args` is a well-formed hexasm command line and `c` is what it says: options in any order and
    spelling, exactly one file; the output name is the value of the last `-o`/`--output`, else
    `a.out`. -/
def HexasmLine (args : List String) (c : AsmCmd) : Prop :=
  ∃ items f, (∀ i ∈ items, i.Valid hexasmSyn) ∧ args = render items ∧ files items = [f] ∧
    c = asmCmdOf items f

theorem hexasmLoop_of_line {args : List String} {c : AsmCmd} (h : HexasmLine args c) :
    hexasmLoop args {} = .done c.opts := by
  obtain ⟨items, f, hv, rfl, hf, rfl⟩ := h
  rw [hexasmLoop_render items hv]
  simp [hf, asmDone, asmCmdOf, AsmCmd.opts]

theorem line_of_hexasmLoop {args : List String} {o : AsmOpts} {f : String}
    (h : hexasmLoop args {} = .done o) (hf : o.filename = some f) :
    HexasmLine args ⟨o.tokensOnly, o.instrsOnly, f, o.outputFilename⟩ := by
  obtain ⟨items, hv, rfl⟩ := hexasmLoop_done _ _ _ h
  rw [hexasmLoop_render items hv] at h
  simp only [Option.toList, List.nil_append] at h
  split at h
  · cases h; simp [asmDone] at hf
  · rename_i g hg
    cases h
    simp only [asmDone, Option.some.injEq] at hf
    subst hf
    exact ⟨items, g, hv, rfl, hg, by simp [asmDone, asmCmdOf]⟩
  · cases h

theorem HexasmLine.unique {args : List String} {c₁ c₂ : AsmCmd} (h₁ : HexasmLine args c₁)
    (h₂ : HexasmLine args c₂) : c₁ = c₂ := by
  have e := (hexasmLoop_of_line h₁).symm.trans (hexasmLoop_of_line h₂)
  rcases c₁ with ⟨a, b, c, d⟩
  rcases c₂ with ⟨a', b', c', d'⟩
  simp only [AsmCmd.opts, Args.done.injEq, AsmOpts.mk.injEq, Option.some.injEq] at e
  obtain ⟨rfl, rfl, rfl, rfl⟩ := e
  rfl

/-- On a well-formed command line `hexasm` does what the body does for its reading. -/
theorem hexasmMain_of_line (core : AsmCore) {args : List String} {c : AsmCmd} (fs : Fs)
    (h : HexasmLine args c) : hexasmMain core args fs = hexasmBody core c.opts fs := by
  simp only [hexasmMain, hexasmLoop_of_line h]

/-- On anything else it prints the usage text or an error, exits 1 and touches nothing. -/
theorem hexasmMain_not_line (core : AsmCore) {args : List String} (fs : Fs)
    (h : ¬ ∃ c, HexasmLine args c) :
    (hexasmMain core args fs).status = 1 ∧ (hexasmMain core args fs).fs = fs ∧
    ((hexasmMain core args fs).stderr = true ∨ (hexasmMain core args fs).stdout = .usage) := by
  unfold hexasmMain
  split
  · simp
  · simp
  · rename_i o ho
    cases hfn : o.filename with
    | none => simp [hexasmBody, hfn]
    | some f => exact absurd ⟨_, line_of_hexasmLoop ho hfn⟩ h

/-! ### xcmp -/

theorem xcmpActionOf_some {a : String} {act : Action} (h : xcmpActionOf a = some act) :
    a ∈ xcmpSyn.flags := by
  unfold xcmpActionOf at h
  simp only [xcmpSyn, List.mem_cons, List.not_mem_nil, or_false]
  repeat' split at h
  all_goals simp_all

theorem xcmpActionOf_none {a : String} (h : xcmpActionOf a = none) (hm : a ≠ "--memory-info") :
    a ∉ xcmpSyn.flags := by
  unfold xcmpActionOf at h
  simp only [xcmpSyn, List.mem_cons, List.not_mem_nil, or_false]
  repeat' split at h
  all_goals simp_all

theorem xcmpActionOf_of_not_flag {a : String} (h : a ∉ xcmpSyn.flags) : xcmpActionOf a = none := by
  simp only [xcmpSyn, List.mem_cons, List.not_mem_nil, or_false, not_or] at h
  simp [xcmpActionOf, h]

theorem xcmpLoop_cons (a : String) (rest : List String) (o : XcmpOpts) :
    xcmpLoop (a :: rest) o =
    if a = "-h" ∨ a = "--help" then .help
    else match xcmpActionOf a with
    | some act => xcmpLoop rest { o with action := act }
    | none =>
      if a = "--memory-info" then xcmpLoop rest { o with reportMemoryInfo := true }
      else if a = "--output" ∨ a = "-o" then
        match rest with
        | [] => .exn
        | v :: rest' => xcmpLoop rest' { o with outputFilename := v }
      else if dash a then .exn
      else
        match o.inputFilename with
        | none => xcmpLoop rest { o with inputFilename := some a }
        | some _ => .exn := by
  cases rest <;> simp only [xcmpLoop] <;> split <;> (try rfl) <;> split <;> rfl

def xcmpDone (items : List Item) (o : XcmpOpts) (fn : Option String) : XcmpOpts :=
  { action := (lastSome flagAction items).getD o.action,
    inputFilename := fn,
    outputFilename := (lastSome (optVal asmOutNames) items).getD o.outputFilename,
    reportMemoryInfo := o.reportMemoryInfo || hasFlag ["--memory-info"] items }

theorem xcmpLoop_render (items : List Item) (hv : ∀ i ∈ items, i.Valid xcmpSyn) (o : XcmpOpts) :
    xcmpLoop (render items) o =
      match o.inputFilename.toList ++ files items with
      | [] => .done (xcmpDone items o none)
      | [f] => .done (xcmpDone items o (some f))
      | _ => .exn := by
  induction items generalizing o with
  | nil =>
    rcases o with ⟨a, fn, out, m⟩
    cases fn <;> simp [render, xcmpLoop, files, xcmpDone, hasFlag, lastSome]
  | cons it is ih =>
    have hv' : ∀ i ∈ is, i.Valid xcmpSyn := fun i hi => hv i (List.mem_cons_of_mem _ hi)
    have hit := hv it List.mem_cons_self
    cases it with
    | flag n =>
      simp only [Item.Valid, xcmpSyn, List.mem_cons, List.not_mem_nil, or_false] at hit
      rcases hit with rfl | rfl | rfl | rfl | rfl | rfl | rfl | rfl | rfl
      all_goals
        simp only [render, Item.render, List.cons_append, List.nil_append, xcmpLoop_cons]
        simp only [String.reduceEq, or_self, ↓reduceIte, xcmpActionOf]
        rw [ih hv']
        simp [files, xcmpDone, hasFlag, lastSome_getD_cons, optVal, flagAction, xcmpActionOf]
    | opt n v =>
      simp only [Item.Valid, xcmpSyn, List.mem_cons, List.not_mem_nil, or_false] at hit
      rcases hit with rfl | rfl
      all_goals
        simp only [render, Item.render, List.cons_append, List.nil_append, xcmpLoop_cons]
        simp only [String.reduceEq, or_self, or_true, true_or, ↓reduceIte, xcmpActionOf]
        rw [ih hv']
        simp [files, xcmpDone, hasFlag, lastSome_getD_cons, optVal, asmOutNames, flagAction]
    | file f =>
      simp only [Item.Valid, forall_const] at hit
      obtain ⟨hh, hfl, hop, hd⟩ := hit
      have hact := xcmpActionOf_of_not_flag hfl
      simp only [xcmpSyn, List.mem_cons, List.not_mem_nil, or_false, not_or] at hh hfl hop hd
      simp only [render, Item.render, List.cons_append, List.nil_append, xcmpLoop_cons]
      simp only [hh, hact, hfl, hop, hd, or_self, ↓reduceIte, Bool.false_eq_true]
      rcases o with ⟨a, fn, out, m⟩
      cases fn with
      | none =>
        simp only []
        rw [ih hv']
        simp only [Option.toList, List.nil_append, List.cons_append, files]
        cases files is with
        | nil => simp [xcmpDone, hasFlag, lastSome_getD_cons, optVal, flagAction]
        | cons g gs => simp
      | some g =>
        simp [files]

theorem xcmpLoop_done (args : List String) (o o' : XcmpOpts) (h : xcmpLoop args o = .done o') :
    ∃ items, (∀ i ∈ items, i.Valid xcmpSyn) ∧ args = render items := by
  fun_induction xcmpLoop args o
  · exact ⟨[], by simp, rfl⟩
  · cases h
  · rename_i a _ _ _ act hact ih
    exact sentence_cons _ (.flag a) (xcmpActionOf_some hact) (ih h)
  · rename_i ih
    exact sentence_cons _ (.flag "--memory-info") (by simp [Item.Valid, xcmpSyn]) (ih h)
  · cases h
  · rename_i a _ _ _ _ ho v _ ih
    exact sentence_cons _ (.opt a v) (by rcases ho with rfl | rfl <;> simp [Item.Valid, xcmpSyn]) (ih h)
  · cases h
  · rename_i a _ _ h1 h2 h3 h4 h5 _ ih
    refine sentence_cons _ (.file a) ?_ (ih h)
    have := xcmpActionOf_none h2 h3
    simp only [not_or] at h1 h4
    simp only [Item.Valid, forall_const]
    refine ⟨?_, this, ?_, ?_⟩
    · simp [xcmpSyn, h1]
    · simp [xcmpSyn, h4]
    · intro _; simpa using h5
  · cases h

structure XcmpCmd where
  action : Action
  mem : Bool
  file : String
  out : String

def XcmpCmd.opts (c : XcmpCmd) : XcmpOpts := ⟨c.action, some c.file, c.out, c.mem⟩

def xcmpCmdOf (items : List Item) (f : String) : XcmpCmd :=
  ⟨(lastSome flagAction items).getD .binary, hasFlag ["--memory-info"] items, f,
   (lastSome (optVal asmOutNames) items).getD "a.out"⟩

/-- `args` is a well-formed xcmp command line and `c` is what it says (the action is that of
    the last action flag, `EMIT_BINARY` if there is none). -/
def XcmpLine (args : List String) (c : XcmpCmd) : Prop :=
  ∃ items f, (∀ i ∈ items, i.Valid xcmpSyn) ∧ args = render items ∧ files items = [f] ∧
    c = xcmpCmdOf items f

theorem xcmpLoop_of_line {args : List String} {c : XcmpCmd} (h : XcmpLine args c) :
    xcmpLoop args {} = .done c.opts := by
  obtain ⟨items, f, hv, rfl, hf, rfl⟩ := h
  rw [xcmpLoop_render items hv]
  simp [hf, xcmpDone, xcmpCmdOf, XcmpCmd.opts]

theorem line_of_xcmpLoop {args : List String} {o : XcmpOpts} {f : String}
    (h : xcmpLoop args {} = .done o) (hf : o.inputFilename = some f) :
    XcmpLine args ⟨o.action, o.reportMemoryInfo, f, o.outputFilename⟩ := by
  obtain ⟨items, hv, rfl⟩ := xcmpLoop_done _ _ _ h
  rw [xcmpLoop_render items hv] at h
  simp only [Option.toList, List.nil_append] at h
  split at h
  · cases h; simp [xcmpDone] at hf
  · rename_i g hg
    cases h
    simp only [xcmpDone, Option.some.injEq] at hf
    subst hf
    exact ⟨items, g, hv, rfl, hg, by simp [xcmpDone, xcmpCmdOf]⟩
  · cases h

theorem XcmpLine.unique {args : List String} {c₁ c₂ : XcmpCmd} (h₁ : XcmpLine args c₁)
    (h₂ : XcmpLine args c₂) : c₁ = c₂ := by
  have e := (xcmpLoop_of_line h₁).symm.trans (xcmpLoop_of_line h₂)
  rcases c₁ with ⟨a, b, c, d⟩
  rcases c₂ with ⟨a', b', c', d'⟩
  simp only [XcmpCmd.opts, Args.done.injEq, XcmpOpts.mk.injEq, Option.some.injEq] at e
  obtain ⟨rfl, rfl, rfl, rfl⟩ := e
  rfl

theorem xcmpMain_of_line (xc : XcmpCore) {args : List String} {c : XcmpCmd} (fs : Fs)
    (h : XcmpLine args c) : xcmpMain xc args fs = xcmpBody xc c.opts fs := by
  simp only [xcmpMain, xcmpLoop_of_line h]

theorem xcmpMain_not_line (xc : XcmpCore) {args : List String} (fs : Fs)
    (h : ¬ ∃ c, XcmpLine args c) :
    (xcmpMain xc args fs).status = 1 ∧ (xcmpMain xc args fs).fs = fs ∧
    ((xcmpMain xc args fs).stderr = true ∨ (xcmpMain xc args fs).stdout = .usage) := by
  unfold xcmpMain
  split
  · simp
  · simp
  · rename_i o ho
    cases hfn : o.inputFilename with
    | none => simp [xcmpBody, hfn]
    | some f => exact absurd ⟨_, line_of_xcmpLoop ho hfn⟩ h

/-! ### hexsim -/

theorem hexsimLoop_cons (a : String) (rest : List String) (o : SimOpts) :
    hexsimLoop (a :: rest) o =
    if a = "-d" ∨ a = "--dump" then hexsimLoop rest { o with dumpBinary := true }
    else if a = "-t" ∨ a = "--trace" then hexsimLoop rest { o with trace := true }
    else if a = "--max-cycles" then
      match rest with
      | [] => .exn
      | v :: rest' =>
        match stoull v with
        | none => .exn
        | some n => hexsimLoop rest' { o with maxCycles := n }
    else if a = "-h" ∨ a = "--help" then .help
    else
      match o.filename with
      | none => hexsimLoop rest { o with filename := some a }
      | some _ => .exn := by
  cases rest with
  | nil => rfl
  | cons v r =>
    simp only [hexsimLoop]
    split
    · rfl
    · split
      · rfl
      · split
        · cases stoull v <;> rfl
        · rfl

def simDone (items : List Item) (o : SimOpts) (fn : Option String) : SimOpts :=
  { filename := fn,
    dumpBinary := o.dumpBinary || hasFlag ["-d", "--dump"] items,
    trace := o.trace || hasFlag ["-t", "--trace"] items,
    maxCycles := (lastSome cyclesVal items).getD o.maxCycles }

theorem hexsimLoop_render (items : List Item) (hv : ∀ i ∈ items, i.Valid hexsimSyn) (o : SimOpts) :
    hexsimLoop (render items) o =
      if cyclesParse items then
        match o.filename.toList ++ files items with
        | [] => .done (simDone items o none)
        | [f] => .done (simDone items o (some f))
        | _ => .exn
      else .exn := by
  induction items generalizing o with
  | nil =>
    rcases o with ⟨fn, d, t, m⟩
    cases fn <;> simp [render, hexsimLoop, files, simDone, hasFlag, lastSome, cyclesParse]
  | cons it is ih =>
    have hv' : ∀ i ∈ is, i.Valid hexsimSyn := fun i hi => hv i (List.mem_cons_of_mem _ hi)
    have hit := hv it List.mem_cons_self
    cases it with
    | flag n =>
      simp only [Item.Valid, hexsimSyn, List.mem_cons, List.not_mem_nil, or_false] at hit
      rcases hit with rfl | rfl | rfl | rfl
      all_goals
        simp only [render, Item.render, List.cons_append, List.nil_append, hexsimLoop_cons]
        simp only [String.reduceEq, or_self, or_true, true_or, ↓reduceIte]
        rw [ih hv']
        simp [files, simDone, hasFlag, lastSome_getD_cons, cyclesVal, cyclesParse]
    | opt n v =>
      simp only [Item.Valid, hexsimSyn, List.mem_cons, List.not_mem_nil, or_false] at hit
      subst hit
      simp only [render, Item.render, List.cons_append, List.nil_append, hexsimLoop_cons]
      simp only [String.reduceEq, or_self, ↓reduceIte]
      cases hst : stoull v with
      | none => simp [cyclesParse, hst]
      | some k =>
        simp only []
        rw [ih hv']
        simp [files, simDone, hasFlag, lastSome_getD_cons, cyclesVal, cyclesParse, hst]
    | file f =>
      simp only [Item.Valid, hexsimSyn, List.mem_cons, List.not_mem_nil, or_false, not_or] at hit
      obtain ⟨⟨h1, h2⟩, ⟨h3, h4, h5, h6⟩, h7, _⟩ := hit
      simp only [render, Item.render, List.cons_append, List.nil_append, hexsimLoop_cons]
      simp only [h1, h2, h3, h4, h5, h6, h7, or_self, ↓reduceIte]
      rcases o with ⟨fn, d, t, m⟩
      cases fn with
      | none =>
        simp only []
        rw [ih hv']
        simp only [Option.toList, List.nil_append, List.cons_append, files, cyclesParse]
        cases files is with
        | nil => simp [simDone, hasFlag, lastSome_getD_cons, cyclesVal]
        | cons g gs => simp only []; split <;> simp_all
      | some g =>
        simp only [files, cyclesParse, Option.toList, List.cons_append, List.nil_append]
        by_cases hc : cyclesParse is = true <;> simp [hc]

theorem hexsimLoop_done (args : List String) (o o' : SimOpts) (h : hexsimLoop args o = .done o') :
    ∃ items, (∀ i ∈ items, i.Valid hexsimSyn) ∧ args = render items := by
  fun_induction hexsimLoop args o
  · exact ⟨[], by simp, rfl⟩
  · rename_i a _ _ ha ih
    exact sentence_cons _ (.flag a) (by rcases ha with rfl | rfl <;> simp [Item.Valid, hexsimSyn]) (ih h)
  · rename_i a _ _ _ ha ih
    exact sentence_cons _ (.flag a) (by rcases ha with rfl | rfl <;> simp [Item.Valid, hexsimSyn]) (ih h)
  · cases h
  · cases h
  · rename_i v _ _ _ _ _ ih
    exact sentence_cons _ (.opt "--max-cycles" v) (by simp [Item.Valid, hexsimSyn]) (ih h)
  · cases h
  · rename_i a _ _ h1 h2 h3 h4 _ ih
    refine sentence_cons _ (.file a) ?_ (ih h)
    simp only [not_or] at h1 h2 h4
    simp [Item.Valid, hexsimSyn, h1, h2, h3, h4]
  · cases h

structure SimCmd where
  dump : Bool
  trace : Bool
  maxCycles : Nat
  file : String

def SimCmd.opts (c : SimCmd) : SimOpts := ⟨some c.file, c.dump, c.trace, c.maxCycles⟩

def simCmdOf (items : List Item) (f : String) : SimCmd :=
  ⟨hasFlag ["-d", "--dump"] items, hasFlag ["-t", "--trace"] items,
   (lastSome cyclesVal items).getD 0, f⟩

/-- `args` is a well-formed hexsim command line and `c` is what it says: exactly one file, every
    `--max-cycles` value a number (the last one counts). -/
def HexsimLine (args : List String) (c : SimCmd) : Prop :=
  ∃ items f, (∀ i ∈ items, i.Valid hexsimSyn) ∧ args = render items ∧ files items = [f] ∧
    cyclesParse items = true ∧ c = simCmdOf items f

theorem hexsimLoop_of_line {args : List String} {c : SimCmd} (h : HexsimLine args c) :
    hexsimLoop args {} = .done c.opts := by
  obtain ⟨items, f, hv, rfl, hf, hc, rfl⟩ := h
  rw [hexsimLoop_render items hv]
  simp [hf, hc, simDone, simCmdOf, SimCmd.opts]

theorem line_of_hexsimLoop {args : List String} {o : SimOpts} {f : String}
    (h : hexsimLoop args {} = .done o) (hf : o.filename = some f) :
    HexsimLine args ⟨o.dumpBinary, o.trace, o.maxCycles, f⟩ := by
  obtain ⟨items, hv, rfl⟩ := hexsimLoop_done _ _ _ h
  rw [hexsimLoop_render items hv] at h
  simp only [Option.toList, List.nil_append] at h
  split at h
  · rename_i hc
    split at h
    · cases h; simp [simDone] at hf
    · rename_i g hg
      cases h
      simp only [simDone, Option.some.injEq] at hf
      subst hf
      exact ⟨items, g, hv, rfl, hg, hc, by simp [simDone, simCmdOf]⟩
    · cases h
  · cases h

theorem HexsimLine.unique {args : List String} {c₁ c₂ : SimCmd} (h₁ : HexsimLine args c₁)
    (h₂ : HexsimLine args c₂) : c₁ = c₂ := by
  have e := (hexsimLoop_of_line h₁).symm.trans (hexsimLoop_of_line h₂)
  rcases c₁ with ⟨a, b, c, d⟩
  rcases c₂ with ⟨a', b', c', d'⟩
  simp only [SimCmd.opts, Args.done.injEq, SimOpts.mk.injEq, Option.some.injEq] at e
  obtain ⟨rfl, rfl, rfl, rfl⟩ := e
  rfl

theorem hexsimMain_of_line (sim : SimCore) {args : List String} {c : SimCmd} (fs : Fs)
    (h : HexsimLine args c) : hexsimMain sim args fs = hexsimBody sim c.opts fs := by
  simp only [hexsimMain, hexsimLoop_of_line h]

theorem hexsimMain_not_line (sim : SimCore) {args : List String} (fs : Fs)
    (h : ¬ ∃ c, HexsimLine args c) :
    (hexsimMain sim args fs).status = 1 ∧ (hexsimMain sim args fs).fs = fs ∧
    ((hexsimMain sim args fs).stderr = true ∨ (hexsimMain sim args fs).stdout = .usage) := by
  unfold hexsimMain
  split
  · simp
  · simp
  · rename_i o ho
    cases hfn : o.filename with
    | none => simp [hexsimBody, hfn]
    | some f => exact absurd ⟨_, line_of_hexsimLoop ho hfn⟩ h

/-! ### xrun -/

theorem xrunLoop_cons (a : String) (rest : List String) (o : RunOpts) :
    xrunLoop (a :: rest) o =
    if a = "-h" ∨ a = "--help" then .help
    else if a = "-t" ∨ a = "--trace" then xrunLoop rest { o with trace := true }
    else if a = "--max-cycles" then
      match rest with
      | [] => .exn
      | v :: rest' =>
        match stoull v with
        | none => .exn
        | some n => xrunLoop rest' { o with maxCycles := n }
    else if dash a then .exn
    else
      match o.inputFilename with
      | none => xrunLoop rest { o with inputFilename := some a }
      | some _ => .exn := by
  cases rest with
  | nil => rfl
  | cons v r =>
    simp only [xrunLoop]
    split
    · rfl
    · split
      · rfl
      · split
        · cases stoull v <;> rfl
        · rfl

def runDone (items : List Item) (o : RunOpts) (fn : Option String) : RunOpts :=
  { inputFilename := fn,
    trace := o.trace || hasFlag ["-t", "--trace"] items,
    maxCycles := (lastSome cyclesVal items).getD o.maxCycles }

theorem xrunLoop_render (items : List Item) (hv : ∀ i ∈ items, i.Valid xrunSyn) (o : RunOpts) :
    xrunLoop (render items) o =
      if cyclesParse items then
        match o.inputFilename.toList ++ files items with
        | [] => .done (runDone items o none)
        | [f] => .done (runDone items o (some f))
        | _ => .exn
      else .exn := by
  induction items generalizing o with
  | nil =>
    rcases o with ⟨fn, t, m⟩
    cases fn <;> simp [render, xrunLoop, files, runDone, hasFlag, lastSome, cyclesParse]
  | cons it is ih =>
    have hv' : ∀ i ∈ is, i.Valid xrunSyn := fun i hi => hv i (List.mem_cons_of_mem _ hi)
    have hit := hv it List.mem_cons_self
    cases it with
    | flag n =>
      simp only [Item.Valid, xrunSyn, List.mem_cons, List.not_mem_nil, or_false] at hit
      rcases hit with rfl | rfl
      all_goals
        simp only [render, Item.render, List.cons_append, List.nil_append, xrunLoop_cons]
        simp only [String.reduceEq, or_self, or_true, true_or, ↓reduceIte]
        rw [ih hv']
        simp [files, runDone, hasFlag, lastSome_getD_cons, cyclesVal, cyclesParse]
    | opt n v =>
      simp only [Item.Valid, xrunSyn, List.mem_cons, List.not_mem_nil, or_false] at hit
      subst hit
      simp only [render, Item.render, List.cons_append, List.nil_append, xrunLoop_cons]
      simp only [String.reduceEq, or_self, ↓reduceIte]
      cases hst : stoull v with
      | none => simp [cyclesParse, hst]
      | some k =>
        simp only []
        rw [ih hv']
        simp [files, runDone, hasFlag, lastSome_getD_cons, cyclesVal, cyclesParse, hst]
    | file f =>
      simp only [Item.Valid, xrunSyn, List.mem_cons, List.not_mem_nil, or_false, not_or,
        forall_const] at hit
      obtain ⟨⟨h1, h2⟩, ⟨h3, h4⟩, h5, h6⟩ := hit
      simp only [render, Item.render, List.cons_append, List.nil_append, xrunLoop_cons]
      simp only [h1, h2, h3, h4, h5, h6, or_self, ↓reduceIte, Bool.false_eq_true]
      rcases o with ⟨fn, t, m⟩
      cases fn with
      | none =>
        simp only []
        rw [ih hv']
        simp only [Option.toList, List.nil_append, List.cons_append, files, cyclesParse]
        cases files is with
        | nil => simp [runDone, hasFlag, lastSome_getD_cons, cyclesVal]
        | cons g gs => simp only []; split <;> simp_all
      | some g =>
        simp only [files, cyclesParse, Option.toList, List.cons_append, List.nil_append]
        by_cases hc : cyclesParse is = true <;> simp [hc]

theorem xrunLoop_done (args : List String) (o o' : RunOpts) (h : xrunLoop args o = .done o') :
    ∃ items, (∀ i ∈ items, i.Valid xrunSyn) ∧ args = render items := by
  fun_induction xrunLoop args o
  · exact ⟨[], by simp, rfl⟩
  · cases h
  · rename_i a _ _ _ ha ih
    exact sentence_cons _ (.flag a) (by rcases ha with rfl | rfl <;> simp [Item.Valid, xrunSyn]) (ih h)
  · cases h
  · cases h
  · rename_i v _ _ _ _ _ ih
    exact sentence_cons _ (.opt "--max-cycles" v) (by simp [Item.Valid, xrunSyn]) (ih h)
  · cases h
  · rename_i a _ _ h1 h2 h3 h4 _ ih
    refine sentence_cons _ (.file a) ?_ (ih h)
    simp only [not_or] at h1 h2
    simp [Item.Valid, xrunSyn, h1, h2, h3, h4]
  · cases h

structure RunCmd where
  trace : Bool
  maxCycles : Nat
  file : String

def RunCmd.opts (c : RunCmd) : RunOpts := ⟨some c.file, c.trace, c.maxCycles⟩

def runCmdOf (items : List Item) (f : String) : RunCmd :=
  ⟨hasFlag ["-t", "--trace"] items, (lastSome cyclesVal items).getD 0, f⟩

/-- `args` is a well-formed xrun command line and `c` is what it says. -/
def XrunLine (args : List String) (c : RunCmd) : Prop :=
  ∃ items f, (∀ i ∈ items, i.Valid xrunSyn) ∧ args = render items ∧ files items = [f] ∧
    cyclesParse items = true ∧ c = runCmdOf items f

theorem xrunLoop_of_line {args : List String} {c : RunCmd} (h : XrunLine args c) :
    xrunLoop args {} = .done c.opts := by
  obtain ⟨items, f, hv, rfl, hf, hc, rfl⟩ := h
  rw [xrunLoop_render items hv]
  simp [hf, hc, runDone, runCmdOf, RunCmd.opts]

theorem line_of_xrunLoop {args : List String} {o : RunOpts} {f : String}
    (h : xrunLoop args {} = .done o) (hf : o.inputFilename = some f) :
    XrunLine args ⟨o.trace, o.maxCycles, f⟩ := by
  obtain ⟨items, hv, rfl⟩ := xrunLoop_done _ _ _ h
  rw [xrunLoop_render items hv] at h
  simp only [Option.toList, List.nil_append] at h
  split at h
  · rename_i hc
    split at h
    · cases h; simp [runDone] at hf
    · rename_i g hg
      cases h
      simp only [runDone, Option.some.injEq] at hf
      subst hf
      exact ⟨items, g, hv, rfl, hg, hc, by simp [runDone, runCmdOf]⟩
    · cases h
  · cases h

theorem XrunLine.unique {args : List String} {c₁ c₂ : RunCmd} (h₁ : XrunLine args c₁)
    (h₂ : XrunLine args c₂) : c₁ = c₂ := by
  have e := (xrunLoop_of_line h₁).symm.trans (xrunLoop_of_line h₂)
  rcases c₁ with ⟨a, b, c⟩
  rcases c₂ with ⟨a', b', c'⟩
  simp only [RunCmd.opts, Args.done.injEq, RunOpts.mk.injEq, Option.some.injEq] at e
  obtain ⟨rfl, rfl, rfl⟩ := e
  rfl

theorem xrunMain_of_line (xc : XcmpCore) (sim : SimCore) {args : List String} {c : RunCmd} (fs : Fs)
    (h : XrunLine args c) : xrunMain xc sim args fs = xrunBody xc sim c.opts fs := by
  simp only [xrunMain, xrunLoop_of_line h]

/-- xrun without a well-formed command line: exit 1, nothing touched, something printed. -/
theorem xrunMain_not_line (xc : XcmpCore) (sim : SimCore) {args : List String} (fs : Fs)
    (h : ¬ ∃ c, XrunLine args c) :
    (xrunMain xc sim args fs).status = 1 ∧ (xrunMain xc sim args fs).fs = fs ∧
    ((xrunMain xc sim args fs).stderr = true ∨ (xrunMain xc sim args fs).stdout = .usage) := by
  unfold xrunMain
  split
  · simp
  · simp
  · rename_i o ho
    cases hfn : o.inputFilename with
    | none => simp [xrunBody, hfn]
    | some f => exact absurd ⟨_, line_of_xrunLoop ho hfn⟩ h

end Hex.Cli
