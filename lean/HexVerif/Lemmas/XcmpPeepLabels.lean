import HexVerif.Xcmp.Peephole
/-!
  The peephole pass (`OptimiseDirectives`) keeps every label - plain, FUNC and PROC - in place and in
  order: the three windows delete instructions only.  (C15: the symbol table is built from the
  FUNC/PROC labels of the list handed to the assembler; C15h seeded a pass that dropped some.)
-/
namespace Hex.Xcmp
open Hex.Asm (Dir LabelKind)

/-- The labels of a directive list, in order. -/
def labelsOf : List Dir → List (LabelKind × String)
  | [] => []
  | .label k n :: rest => (k, n) :: labelsOf rest
  | _ :: rest => labelsOf rest

theorem labelsOf_of_opc {d : Dir} {o : Nat} (h : dirOpc d = some o) (rest : List Dir) :
    labelsOf (d :: rest) = labelsOf rest := by
  cases d <;> simp [dirOpc] at h <;> rfl

theorem peepholeGo_labels : ∀ (fuel : Nat) (ds : List Dir), ds.length ≤ fuel →
    labelsOf (peepholeGo fuel ds) = labelsOf ds := by
  intro fuel
  induction fuel using Nat.strongRecOn with
  | ind fuel ih =>
    intro ds hlen
    cases fuel with
    | zero =>
      have : ds = [] := List.length_eq_zero_iff.mp (by omega)
      subst this; rfl
    | succ f =>
      cases ds with
      | nil => rfl
      | cons d rest =>
        have hr : rest.length ≤ f := by simp only [List.length_cons] at hlen; omega
        unfold peepholeGo
        by_cases h1 : matchBranchZero (d :: rest) = true
        · rw [if_pos h1]
          cases rest with
          | nil => rfl
          | cons l rest' =>
            simp only
            cases d with
            | ref o n r =>
              cases l with
              | label k n' =>
                have := ih f (Nat.lt_succ_self f) rest' (by simp only [List.length_cons] at hr; omega)
                simp only [labelsOf, this]
              | _ => simp [matchBranchZero] at h1
            | _ => simp [matchBranchZero] at h1
        · rw [if_neg h1]
          by_cases h2 : matchStoreThenLoad (d :: rest) = true
          · rw [if_pos h2]
            cases rest with
            | nil => simp [matchStoreThenLoad] at h2
            | cons d1 rest' =>
              have ho0 : dirOpc d = some 0x2 ∧ dirOpc d1 = some 0x0 := by
                simp only [matchStoreThenLoad, Bool.and_eq_true, decide_eq_true_eq] at h2
                exact ⟨h2.1, h2.2.1⟩
              have := ih f (Nat.lt_succ_self f) rest' (by simp only [List.length_cons] at hr; omega)
              simp only [List.drop_succ_cons, List.drop_zero]
              rw [labelsOf_of_opc ho0.1, this, labelsOf_of_opc ho0.1, labelsOf_of_opc ho0.2]
          · rw [if_neg h2]
            by_cases h3 : matchIndexStoreThenLoad (d :: rest) = true
            · rw [if_pos h3]
              match rest, h3, hr with
              | d1 :: d2 :: d3 :: rest', h3, hr =>
                have ho : dirOpc d = some 0x1 ∧ dirOpc d1 = some 0x8 ∧ dirOpc d2 = some 0x0 ∧ dirOpc d3 = some 0x6 := by
                  simp only [matchIndexStoreThenLoad, Bool.and_eq_true, decide_eq_true_eq] at h3
                  exact ⟨h3.1, h3.2.1, h3.2.2.1, h3.2.2.2.1⟩
                have := ih f (Nat.lt_succ_self f) rest' (by simp only [List.length_cons] at hr; omega)
                simp only [List.take_succ_cons, List.take_zero, List.drop_succ_cons, List.drop_zero, List.cons_append, List.nil_append]
                rw [labelsOf_of_opc ho.1, labelsOf_of_opc ho.2.1, this, labelsOf_of_opc ho.1, labelsOf_of_opc ho.2.1,
                    labelsOf_of_opc ho.2.2.1, labelsOf_of_opc ho.2.2.2]
              | [], h3, _ => simp [matchIndexStoreThenLoad] at h3
              | [_], h3, _ => simp [matchIndexStoreThenLoad] at h3
              | [_, _], h3, _ => simp [matchIndexStoreThenLoad] at h3
            · rw [if_neg h3]
              have := ih f (Nat.lt_succ_self f) rest hr
              cases d <;> simp only [labelsOf, this]

/-- **The peephole pass keeps all labels, in order.** -/
theorem peephole_labels (ds : List Dir) : labelsOf (peephole ds) = labelsOf ds :=
  peepholeGo_labels ds.length ds (Nat.le_refl _)

end Hex.Xcmp
