import HexVerif.Lemmas.XcmpV2
import HexVerif.Lemmas.SimLoadFile
import HexVerif.Lemmas.SimIsa
/-!
  C01 on the simulator model: the FILE the compiler model writes, read by the model of hexsim's
  `load()` and executed by the model of hexsim's `run()` - composition of `v_correct` (C01),
  `loadParts_fileBytes` (loader round trip) and `Sim.run_refines` (C02).
-/
namespace Hex.C01s
open Hex Hex.X Hex.Xcmp Hex.Asm

/-- hexsim's processor after construction and `load()` of the assembler's file: the boot state of
    the ISA on the image, whatever the indeterminate members held. -/
theorem load_fileBytes (j : Sim.Junk) (io : Isa.IOSt) (ds : List Dir) (img : Image) (g : IAm.Good ds img)
    (hn : img.debug.length < 2 ^ 31) (hnul : ∀ e ∈ img.debug, (0 : Byte) ∉ Sim.nameBytes e.1) :
    ∃ p, Sim.load (Sim.Proc.mk' j io) (fileBytes img) = some p ∧ Sim.abs p = Am.boot img ∧ p.io = io ∧
      p.running = true ∧ p.truncateInputs = true ∧ p.maxCycles = 0 ∧
      p.debugInfo = Sim.loadedSymbols img.debug := by
  have hmap : ∀ l : List Dir, (l.map fun d => (d, (⟨0, 0⟩ : Loc))).map (·.1) = l := by
    intro l
    induction l with
    | nil => rfl
    | cons d t ih => rw [List.map_cons, List.map_cons, ih]
  have hs := assemble_size _ img (by rw [hmap]; exact g.hp) (by rw [List.length_map]; exact g.hn) g.hasm
  have hl := Sim.loadParts_fileBytes Mem.zero img hs.1 hs.2 g.hfit hn hnul
  have hload : Sim.load (Sim.Proc.mk' j io) (fileBytes img) =
      some { Sim.Proc.mk' j io with memory := Mem.zero.loadWords (wordsOfBytes img.bytes),
                                     debugInfo := [] ++ Sim.loadedSymbols img.debug } := by
    unfold Sim.load
    show (match Sim.loadParts Mem.zero (fileBytes img) with
          | some (m, tbl) => some { Sim.Proc.mk' j io with memory := m, debugInfo := (Sim.Proc.mk' j io).debugInfo ++ tbl }
          | none => none) = _
    rw [hl]
    rfl
  exact ⟨_, hload, rfl, rfl, rfl, rfl, rfl, by simp⟩

/-- From an observation `exited` of hexsim's `run()` back to its result. -/
theorem obsSim_exited {r : Sim.RunRes} {c : Word} {s : Isa.St} {io : Isa.IOSt} (h : Sim.obsSim r = .exited c s io) :
    ∃ q, r = .returned c q ∧ Sim.abs q = s ∧ q.io = io := by
  cases r with
  | returned c' q => simp only [Sim.obsSim] at h; injection h with h1 h2 h3; subst h1; exact ⟨q, rfl, h2, h3⟩
  | threw m q => simp [Sim.obsSim] at h
  | faulted f q => cases f; simp [Sim.obsSim] at h
  | outOfFuel q => simp [Sim.obsSim] at h

/-- **C01 on hexsim, classes V2 / V3**: the model of hexsim, constructed with any indeterminate
    members, loads the FILE the compiler model writes and runs it to the behaviour the reference
    semantics defines. -/
theorem v_on_hexsim (pk : Bool) (P : X.Program) (st : Stages) (img : Image) (inp : X.Input) (fuel : Nat) (β : X.Behaviour)
    (j : Sim.Junk) (hasm : assembleDirs st.optimised = .ok img) (hchk : vCheck pk P st img = true)
    (hrun : X.run P inp fuel = .defined β)
    (hn : img.debug.length < 2 ^ 31) (hnul : ∀ e ∈ img.debug, (0 : Byte) ∉ Sim.nameBytes e.1) :
    ∃ p n code q, Sim.load (Sim.Proc.mk' j (Isa.IOSt.init inp.stdin inp.files)) (fileBytes img) = some p ∧
      p.debugInfo = Sim.loadedSymbols img.debug ∧
      Sim.run n p = .returned code q ∧ code = β.exit ∧ q.io.log.reverse = β.events ∧
      inp.stdin.length - q.io.stdin.length = β.stdinConsumed := by
  obtain ⟨G, pm, _, _, _, g, _⟩ := v_setup pk P st img inp fuel hasm hchk
  obtain ⟨p, hload, habs, hio, hr, ht, hm, hdbg⟩ := load_fileBytes j (Isa.IOSt.init inp.stdin inp.files) _ img g hn hnul
  obtain ⟨n, code, k, s', io, hisa, e1, e2, e3⟩ := v_correct pk P st img inp fuel β hasm hchk hrun
  have href := Sim.run_refines n p 0 hr ht hm
  rw [habs, hio, hisa] at href
  obtain ⟨q, hq, _, hqio⟩ := obsSim_exited href
  exact ⟨p, n, code, q, hload, hdbg, hq, e1, by rw [hqio]; exact e2, by rw [hqio]; exact e3⟩

theorem v3_on_hexsim (P : X.Program) (inp : X.Input) (fuel : Nat) (β : X.Behaviour) (img : Image) (j : Sim.Junk)
    (hok : v3Ok P = true) (hcomp : compile P = .ok img) (hrun : X.run P inp fuel = .defined β)
    (hn : img.debug.length < 2 ^ 31) (hnul : ∀ e ∈ img.debug, (0 : Byte) ∉ Sim.nameBytes e.1) :
    ∃ p n code q, Sim.load (Sim.Proc.mk' j (Isa.IOSt.init inp.stdin inp.files)) (fileBytes img) = some p ∧
      p.debugInfo = Sim.loadedSymbols img.debug ∧
      Sim.run n p = .returned code q ∧ code = β.exit ∧ q.io.log.reverse = β.events ∧
      inp.stdin.length - q.io.stdin.length = β.stdinConsumed := by
  unfold v3Ok at hok
  split at hok
  · rename_i st hst
    have hc : compile P = assembleDirs st.optimised := by
      unfold compile compileDirs
      rw [hst]
      rfl
    rw [hc] at hcomp
    rw [hcomp] at hok
    exact v_on_hexsim true P st img inp fuel β j hcomp hok hrun hn hnul
  · simp at hok

end Hex.C01s
