import HexVerif.Lemmas.XcmpFront
/-!
  The front-end model does not depend on the value of `Lexer::value` before its first assignment
  (C11): token sequences lexed from different junk values are related by `RItems` (equal except for
  the `value` field of tokens that are not NUMBER), and `emitTokens` and the parser cannot tell
  related sequences apart.
-/
namespace Hex.Xcmp

/-- Two tokens the front end cannot tell apart. -/
def RTok (a b : LTok) : Prop :=
  a.tok = b.tok ∧ a.ident = b.ident ∧ a.str = b.str ∧ a.loc = b.loc ∧ (a.tok = .NUMBER → a.value = b.value)

def RItem : LItem → LItem → Prop
  | .tok a, .tok b => RTok a b
  | .err e, .err f => e = f
  | _, _ => False

inductive RItems : List LItem → List LItem → Prop where
  | nil : RItems [] []
  | cons {a b : LItem} {as bs : List LItem} : RItem a b → RItems as bs → RItems (a :: as) (b :: bs)

theorem RItems.append {a b c d : List LItem} (h1 : RItems a b) (h2 : RItems c d) : RItems (a ++ c) (b ++ d) := by
  induction h1 with
  | nil => exact h2
  | cons h _ ih => exact RItems.cons h ih

/-- Lexer states that agree on everything but `value`. -/
def RLex (a b : LexSt) : Prop := a.ident = b.ident ∧ a.str = b.str ∧ a.line = b.line ∧ a.col = b.col

theorem RTok.refl (a : LTok) : RTok a a := ⟨rfl, rfl, rfl, rfl, fun _ => rfl⟩
theorem RItem.refl : ∀ a : LItem, RItem a a
  | .tok a => RTok.refl a
  | .err _ => rfl

/-- A token that is not NUMBER made from related states. -/
theorem rtok_mk (t : Tok) (s1 s2 : LexSt) (c : Nat) (h : RLex s1 s2) (ht : t ≠ .NUMBER) :
    RItem (mk t s1 c) (mk t s2 c) := by
  obtain ⟨h1, h2, h3, _⟩ := h
  simp only [mk, RItem, RTok, h1, h2, h3, true_and]
  intro hn; exact absurd hn ht

/-- A NUMBER token made from related states that hold the same freshly lexed value. -/
theorem rtok_mk_num (s1 s2 : LexSt) (c : Nat) (h : RLex s1 s2) (hv : s1.value = s2.value) :
    RItem (mk .NUMBER s1 c) (mk .NUMBER s2 c) := by
  obtain ⟨h1, h2, h3, _⟩ := h
  simp only [mk, RItem, RTok, h1, h2, h3, hv, true_and]
  intro _; trivial

end Hex.Xcmp

namespace Hex.Xcmp

/-- Related outcomes of one automaton step. -/
def RStep : Step → Step → Prop
  | .go m1 s1, .go m2 s2 => m1 = m2 ∧ RLex s1 s2
  | .emit t1 m1 s1, .emit t2 m2 s2 => RItem t1 t2 ∧ m1 = m2 ∧ RLex s1 s2
  | .stop e1, .stop e2 => e1 = e2
  | _, _ => False

theorem rlex_adv {s1 s2 : LexSt} (h : RLex s1 s2) :
    RLex { s1 with col := s1.col + 1 } { s2 with col := s2.col + 1 } := by
  obtain ⟨h1, h2, h3, h4⟩ := h; exact ⟨h1, h2, h3, by simp [h4]⟩

theorem rlex_nl {s1 s2 : LexSt} (h : RLex s1 s2) :
    RLex { s1 with line := s1.line + 1, col := 1 } { s2 with line := s2.line + 1, col := 1 } := by
  obtain ⟨h1, h2, h3, h4⟩ := h; exact ⟨h1, h2, by simp [h3], rfl⟩

theorem errAt_eq (k : LexErrKind) {s1 s2 : LexSt} (h : RLex s1 s2) (c1 c2 : Nat) (hc : c1 = c2) :
    errAt k s1 c1 = errAt k s2 c2 := by
  obtain ⟨_, _, h3, _⟩ := h; simp [errAt, h3, hc]

theorem startStep_rel (c : Byte) {s1 s2 : LexSt} (h : RLex s1 s2) : RStep (startStep c s1) (startStep c s2) := by
  have hc : s1.col = s2.col := h.2.2.2
  unfold startStep
  cases startAct c with
  | newline => exact ⟨rfl, rlex_nl h⟩
  | go m => exact ⟨rfl, rlex_adv h⟩
  | emit t ht =>
    refine ⟨?_, rfl, rlex_adv h⟩
    simp only [hc]
    exact rtok_mk t s1 s2 _ h ht
  | bad => exact errAt_eq _ h _ _ hc

set_option linter.unusedSimpArgs false

theorem ite_ne {α} {c : Prop} [Decidable c] {a b x : α} (ha : a ≠ x) (hb : b ≠ x) : (if c then a else b) ≠ x := by
  split <;> assumption
theorem keyword_ne_number (id : List Byte) : keyword id ≠ .NUMBER := by
  unfold keyword
  repeat (first | exact (by decide) | apply ite_ne)

theorem rtok_mk2 {t : Tok} {s1 s2 : LexSt} {c1 c2 : Nat} (h : RLex s1 s2) (ht : t ≠ .NUMBER) (hcc : c1 = c2) :
    RItem (mk t s1 c1) (mk t s2 c2) := by subst hcc; exact rtok_mk t s1 s2 c1 h ht
theorem rtok_num2 {s1 s2 : LexSt} {c1 c2 : Nat} (h : RLex s1 s2) (hv : s1.value = s2.value) (hcc : c1 = c2) :
    RItem (mk .NUMBER s1 c1) (mk .NUMBER s2 c2) := by subst hcc; exact rtok_mk_num s1 s2 c1 h hv

theorem ritems_one {a b : LItem} (h : RItem a b) : RItems [a] [b] := RItems.cons h RItems.nil

theorem step_rel (c : Byte) (m : Mode) {s1 s2 : LexSt} (h : RLex s1 s2) :
    RItems (step c m s1).1 (step c m s2).1 ∧ RStep (step c m s1).2 (step c m s2).2 := by
  have hc : s1.col = s2.col := h.2.2.2
  have hl : s1.line = s2.line := h.2.2.1
  have ha := rlex_adv h
  have hn := rlex_nl h
  cases m with
  | start => exact ⟨RItems.nil, startStep_rel c h⟩
  | comment =>
    simp only [step]
    by_cases h1 : c = 10
    · simp only [h1, if_true]; exact ⟨RItems.nil, rfl, hn⟩
    · by_cases h2 : c = 255
      · rw [if_neg h1, if_pos h2, if_neg h1, if_pos h2]; exact ⟨RItems.nil, startStep_rel _ h⟩
      · rw [if_neg h1, if_neg h2, if_neg h1, if_neg h2]; exact ⟨RItems.nil, rfl, ha⟩
  | ident acc =>
    simp only [step]
    by_cases h1 : (isAlnum c || c = 95) = true
    · simp only [h1, if_true]; exact ⟨RItems.nil, rfl, ha⟩
    · simp only [h1, if_false]
      have h' : RLex { s1 with ident := acc.reverse } { s2 with ident := acc.reverse } := ⟨rfl, h.2.1, hl, hc⟩
      refine ⟨ritems_one ?_, startStep_rel _ h'⟩
      exact rtok_mk2 h' (keyword_ne_number _) (by simp [hc])
  | dec acc =>
    simp only [step]
    by_cases h1 : isDigit c = true
    · simp only [h1, if_true]; exact ⟨RItems.nil, rfl, ha⟩
    · simp only [h1]
      have h' : RLex { s1 with value := strtoulDec acc.reverse } { s2 with value := strtoulDec acc.reverse } := h
      refine ⟨ritems_one ?_, startStep_rel _ h'⟩
      exact rtok_num2 h' rfl (by simp [hc])
  | hex acc =>
    simp only [step]
    by_cases h1 : isAlnum c = true
    · simp only [h1, if_true]; exact ⟨RItems.nil, rfl, ha⟩
    · simp only [h1]
      have h' : RLex { s1 with value := strtoulHex acc.reverse } { s2 with value := strtoulHex acc.reverse } := h
      refine ⟨ritems_one ?_, startStep_rel _ h'⟩
      exact rtok_num2 h' rfl (by simp [hc])
  | lt =>
    simp only [step]
    by_cases h1 : c = 61
    · simp only [h1, if_true]; refine ⟨RItems.nil, ?_, rfl, ha⟩; exact rtok_mk2 h (by decide) (by simp [hc])
    · simp only [h1, if_false]; refine ⟨ritems_one ?_, startStep_rel _ h⟩; exact rtok_mk2 h (by decide) (by simp [hc])
  | gt =>
    simp only [step]
    by_cases h1 : c = 61
    · simp only [h1, if_true]; refine ⟨RItems.nil, ?_, rfl, ha⟩; exact rtok_mk2 h (by decide) (by simp [hc])
    · simp only [h1, if_false]; refine ⟨ritems_one ?_, startStep_rel _ h⟩; exact rtok_mk2 h (by decide) (by simp [hc])
  | tilde =>
    simp only [step]
    by_cases h1 : c = 61
    · simp only [h1, if_true]; refine ⟨RItems.nil, ?_, rfl, ha⟩; exact rtok_mk2 h (by decide) (by simp [hc])
    · simp only [h1, if_false]; refine ⟨ritems_one ?_, startStep_rel _ h⟩; exact rtok_mk2 h (by decide) (by simp [hc])
  | colon =>
    simp only [step]
    by_cases h1 : c = 61
    · simp only [h1, if_true]; refine ⟨RItems.nil, ?_, rfl, ha⟩; exact rtok_mk2 h (by decide) (by simp [hc])
    · simp only [h1, if_false]; exact ⟨RItems.nil, errAt_eq _ h _ _ hc⟩
  | chr0 =>
    simp only [step]
    by_cases h1 : c = 92
    · simp only [h1, if_true]; exact ⟨RItems.nil, rfl, ha⟩
    · simp only [h1, if_false]; exact ⟨RItems.nil, rfl, ha⟩
  | chrEsc =>
    simp only [step]
    cases escape c with
    | some ch => exact ⟨RItems.nil, rfl, ha⟩
    | none => exact ⟨RItems.nil, errAt_eq _ h _ _ hc⟩
  | chrEnd v =>
    simp only [step]
    have h' : RLex { s1 with value := v } { s2 with value := v } := h
    by_cases h1 : c = 39
    · simp only [h1, if_true]
      refine ⟨RItems.nil, ?_, rfl, ?_⟩
      · exact rtok_num2 h' rfl (by simp [hc])
      · exact ⟨h.1, h.2.1, hl, by simp [hc]⟩
    · simp only [h1, if_false]; exact ⟨RItems.nil, errAt_eq _ h' _ _ hc⟩
  | str acc =>
    simp only [step]
    by_cases h1 : c = 34
    · simp only [h1, if_true]
      have h' : RLex { s1 with str := acc.reverse } { s2 with str := acc.reverse } := ⟨h.1, rfl, hl, hc⟩
      refine ⟨RItems.nil, ?_, rfl, ?_⟩
      · exact rtok_mk2 h' (by decide) (by simp [hc])
      · exact ⟨h.1, rfl, hl, by simp [hc]⟩
    · by_cases h2 : c = 255
      · simp only [h1, h2, if_true, if_false]; exact ⟨RItems.nil, errAt_eq _ h _ _ hc⟩
      · by_cases h3 : c = 92
        · simp only [h1, h2, h3, if_true, if_false]; exact ⟨RItems.nil, rfl, ha⟩
        · simp only [h1, h2, h3, if_false]; exact ⟨RItems.nil, rfl, ha⟩
  | strEsc acc =>
    simp only [step]
    cases escape c with
    | some ch => exact ⟨RItems.nil, rfl, ha⟩
    | none => exact ⟨RItems.nil, errAt_eq _ h _ _ hc⟩

end Hex.Xcmp

namespace Hex.Xcmp

theorem atEnd_rel (m : Mode) {s1 s2 : LexSt} (h : RLex s1 s2) : RItems (atEnd m s1) (atEnd m s2) := by
  have hc : s1.col = s2.col := h.2.2.2
  have hl : s1.line = s2.line := h.2.2.1
  cases m with
  | start => exact ritems_one (rtok_mk2 h (by decide) (by simp [hc]))
  | comment => exact ritems_one (rtok_mk2 h (by decide) (by simp [hc]))
  | ident acc =>
    have h' : RLex { s1 with ident := acc.reverse } { s2 with ident := acc.reverse } := ⟨rfl, h.2.1, hl, hc⟩
    exact RItems.cons (rtok_mk2 h' (keyword_ne_number _) hc) (ritems_one (rtok_mk2 h' (by decide) (by simp [hc])))
  | dec acc =>
    have h' : RLex { s1 with value := strtoulDec acc.reverse } { s2 with value := strtoulDec acc.reverse } := h
    exact RItems.cons (rtok_num2 h' rfl hc) (ritems_one (rtok_mk2 h' (by decide) (by simp [hc])))
  | hex acc =>
    have h' : RLex { s1 with value := strtoulHex acc.reverse } { s2 with value := strtoulHex acc.reverse } := h
    exact RItems.cons (rtok_num2 h' rfl hc) (ritems_one (rtok_mk2 h' (by decide) (by simp [hc])))
  | lt => exact RItems.cons (rtok_mk2 h (by decide) hc) (ritems_one (rtok_mk2 h (by decide) (by simp [hc])))
  | gt => exact RItems.cons (rtok_mk2 h (by decide) hc) (ritems_one (rtok_mk2 h (by decide) (by simp [hc])))
  | tilde => exact RItems.cons (rtok_mk2 h (by decide) hc) (ritems_one (rtok_mk2 h (by decide) (by simp [hc])))
  | colon => exact ritems_one (show RItem (.err _) (.err _) from errAt_eq _ h _ _ hc)
  | chr0 => exact ritems_one (show RItem (.err _) (.err _) from errAt_eq _ h _ _ (by simp [hc]))
  | chrEsc => exact ritems_one (show RItem (.err _) (.err _) from errAt_eq _ h _ _ hc)
  | chrEnd v => exact ritems_one (show RItem (.err _) (.err _) from errAt_eq _ h _ _ hc)
  | str acc => exact ritems_one (show RItem (.err _) (.err _) from errAt_eq _ h _ _ hc)
  | strEsc acc => exact ritems_one (show RItem (.err _) (.err _) from errAt_eq _ h _ _ hc)

/-- The token sequences lexed from states that differ only in `value` are indistinguishable. -/
theorem lexGo_rel : ∀ (src : List Byte) (m : Mode) (s1 s2 : LexSt), RLex s1 s2 →
    RItems (lexGo src m s1) (lexGo src m s2) := by
  intro src
  induction src with
  | nil => intro m s1 s2 h; rw [lexGo, lexGo]; exact atEnd_rel m h
  | cons c rest ih =>
    intro m s1 s2 h
    obtain ⟨hpre, hstep⟩ := step_rel c m h
    rw [lexGo, lexGo]
    cases h1 : step c m s1 with
    | mk pre1 st1 =>
      cases h2 : step c m s2 with
      | mk pre2 st2 =>
        rw [h1, h2] at hpre hstep
        simp only at hpre hstep
        cases st1 <;> cases st2 <;> simp only [RStep] at hstep
        · obtain ⟨hm, hs⟩ := hstep; subst hm
          exact RItems.append hpre (ih _ _ _ hs)
        · obtain ⟨ht, hm, hs⟩ := hstep; subst hm
          exact RItems.append hpre (RItems.cons ht (ih _ _ _ hs))
        · subst hstep
          exact RItems.append hpre (ritems_one rfl)

theorem lexAllJ_rel (j1 j2 : Word) (src : List Byte) : RItems (lexAllJ j1 src) (lexAllJ j2 src) :=
  lexGo_rel src .start _ _ ⟨rfl, rfl, rfl, rfl⟩

/-- `emitTokens` cannot tell related sequences apart. -/
theorem tokenLine_rel {a b : LTok} (h : RTok a b) : tokenLine a = tokenLine b := by
  obtain ⟨h1, h2, h3, _, h5⟩ := h
  unfold tokenLine
  rw [← h1]
  cases ht : a.tok <;> simp only [h2, h3]
  · -- NUMBER
    rw [h5 ht]

theorem emitTokens_rel : ∀ (xs ys : List LItem) (acc : List Byte), RItems xs ys → emitTokens xs acc = emitTokens ys acc := by
  intro xs ys acc h
  induction h generalizing acc with
  | nil => rfl
  | @cons a b as bs hab _ ih =>
    cases a with
    | err e =>
      cases b with
      | err f => simp only [RItem] at hab; subst hab; rfl
      | tok _ => simp [RItem] at hab
    | tok ta =>
      cases b with
      | err _ => simp [RItem] at hab
      | tok tb =>
        have hab' : RTok ta tb := hab
        simp only [emitTokens, tokenLine_rel hab', hab'.1]
        split
        · rfl
        · exact ih _

end Hex.Xcmp

namespace Hex.Xcmp
open Hex.X

/-- Parser states the parser cannot tell apart. -/
def RS (a b : PState) : Prop := RTok a.cur b.cur ∧ RItems a.rest b.rest

inductive RRes {α : Type} : Except PErr (α × PState) → Except PErr (α × PState) → Prop where
  | err (e : PErr) : RRes (.error e) (.error e)
  | ok (a : α) (s1 s2 : PState) : RS s1 s2 → RRes (.ok (a, s1)) (.ok (a, s2))

/-- The computation gives the same value or the same error on indistinguishable states, and leaves
    indistinguishable states. -/
structure Indep {α : Type} (m : P α) : Prop where
  h : ∀ s1 s2, RS s1 s2 → RRes (m s1) (m s2)

theorem Indep.pure {α : Type} (a : α) : Indep (pure a : P α) := ⟨fun s1 s2 h => RRes.ok a s1 s2 h⟩

theorem Indep.bind {α β : Type} {m : P α} {f : α → P β} (hm : Indep m) (hf : ∀ a, Indep (f a)) : Indep (m >>= f) := by
  constructor
  intro s1 s2 hs
  change RRes (StateT.bind m f s1) (StateT.bind m f s2)
  unfold StateT.bind
  have := hm.h s1 s2 hs
  cases h1 : m s1 with
  | error e =>
    rw [h1] at this
    cases h2 : m s2 with
    | error e2 => rw [h2] at this; cases this; exact RRes.err e
    | ok p => rw [h2] at this; cases this
  | ok p =>
    rw [h1] at this
    cases h2 : m s2 with
    | error e2 => rw [h2] at this; cases this
    | ok p2 =>
      rw [h2] at this
      cases this with
      | ok a t1 t2 ht => exact (hf a).h t1 t2 ht

theorem Indep.ite {α : Type} {c : Prop} [Decidable c] {a b : P α} (ha : Indep a) (hb : Indep b) :
    Indep (if c then a else b) := by split <;> assumption

theorem Indep.fail {α : Type} (k : DiagKind) (l : Loc) : Indep (fail k l : P α) := ⟨fun _ _ _ => RRes.err _⟩
theorem Indep.outOfFuel {α : Type} : Indep (outOfFuel : P α) := ⟨fun _ _ _ => RRes.err _⟩
theorem Indep.faultP {α : Type} (w : String) : Indep (faultP w : P α) := ⟨fun _ _ _ => RRes.err _⟩

theorem Indep.curTok : Indep curTok := by
  constructor
  intro s1 s2 h
  show RRes (Except.ok (s1.cur.tok, s1)) (Except.ok (s2.cur.tok, s2))
  rw [← h.1.1]; exact RRes.ok _ _ _ h

theorem Indep.curLoc : Indep curLoc := by
  constructor
  intro s1 s2 h
  show RRes (Except.ok (s1.cur.loc, s1)) (Except.ok (s2.cur.loc, s2))
  rw [← h.1.2.2.2.1]; exact RRes.ok _ _ _ h

theorem Indep.getString : Indep getString := by
  constructor
  intro s1 s2 h
  show RRes (Except.ok (s1.cur.str, s1)) (Except.ok (s2.cur.str, s2))
  rw [← h.1.2.2.1]; exact RRes.ok _ _ _ h

theorem Indep.advance : Indep advance := by
  constructor
  intro s1 s2 h
  obtain ⟨hc, hr⟩ := h
  unfold Xcmp.advance
  obtain ⟨c1, r1⟩ := s1
  obtain ⟨c2, r2⟩ := s2
  simp only at hc hr ⊢
  cases hr with
  | nil =>
    refine RRes.ok _ _ _ ⟨⟨rfl, hc.2.1, hc.2.2.1, ?_, fun hn => by cases hn⟩, RItems.nil⟩
    show Loc.mk _ _ = Loc.mk _ _
    rw [hc.2.2.2.1]
  | @cons a b as bs hab hrest =>
    cases a with
    | tok ta =>
      cases b with
      | tok tb => exact RRes.ok _ _ _ ⟨hab, hrest⟩
      | err _ => simp [RItem] at hab
    | err e =>
      cases b with
      | tok _ => simp [RItem] at hab
      | err f => simp only [RItem] at hab; subst hab; exact RRes.err _

theorem Indep.expect (t : Tok) : Indep (expect t) := by
  constructor
  intro s1 s2 h
  unfold Xcmp.expect
  rw [bind_cur, bind_cur, ← h.1.1, ← h.1.2.2.2.1]
  split
  · exact RRes.err _
  · exact Indep.advance.h s1 s2 h

theorem Indep.parseIdentifier : Indep parseIdentifier := by
  constructor
  intro s1 s2 h
  unfold Xcmp.parseIdentifier
  rw [bind_cur, bind_cur, ← h.1.1, ← h.1.2.2.2.1, ← h.1.2.1]
  split
  · exact (Indep.bind Indep.advance fun _ => Indep.pure _).h s1 s2 h
  · exact RRes.err _

end Hex.Xcmp

namespace Hex.Xcmp
open Hex.X

macro "ind_step" : tactic => `(tactic| first
  | exact Indep.pure _
  | exact Indep.advance | exact Indep.curTok | exact Indep.curLoc | exact Indep.getString
  | exact Indep.fail _ _ | exact Indep.outOfFuel | exact Indep.faultP _
  | exact Indep.expect _ | exact Indep.parseIdentifier
  | assumption
  | apply Indep.bind
  | apply Indep.ite
  | split
  | intro _)

/-- `parseElement`: the only reader of `Lexer::value`, and only when the token is a NUMBER. -/
theorem indep_parseElement_succ (n : Nat) (hE : Indep (parseExpr n)) (hA : Indep (parseActuals n))
    (hI : Indep (parseIdentElement n)) : Indep (parseElement (n + 1)) := by
  constructor
  intro s1 s2 h
  have htok : s2.cur.tok = s1.cur.tok := h.1.1.symm
  have hloc : s2.cur.loc = s1.cur.loc := h.1.2.2.2.1.symm
  rw [parseElement, bind_cur, bind_cur, htok, hloc]
  cases ht : s1.cur.tok <;> simp only []
  case NUMBER =>
    have hv : s2.cur.value = s1.cur.value := (h.1.2.2.2.2 ht).symm
    rw [hv]
    have hb : Indep (do
        advance
        let t ← curTok
        if t = .LPAREN then do
          let args ← parseActuals n
          pure (Expr.syscall s1.cur.value.toNat args)
        else pure (Expr.num s1.cur.value) : P Expr) := by
      repeat ind_step
    exact hb.h s1 s2 h
  all_goals
    refine Indep.h ?_ s1 s2 h
    repeat ind_step

theorem indep_expr : ∀ fuel,
    Indep (parseExpr fuel) ∧ Indep (parseElement fuel) ∧ (∀ op t, Indep (parseBinOpRHS fuel op t)) ∧
    Indep (parseExprListTail fuel) ∧ Indep (parseActuals fuel) ∧ Indep (parseIdentElement fuel) := by
  intro fuel
  induction fuel with
  | zero =>
    refine ⟨?_, ?_, ?_, ?_, ?_, ?_⟩
    · rw [parseExpr]; exact Indep.outOfFuel
    · rw [parseElement]; exact Indep.outOfFuel
    · intro op t; rw [parseBinOpRHS]; exact Indep.outOfFuel
    · rw [parseExprListTail]; exact Indep.outOfFuel
    · rw [parseActuals]; exact Indep.outOfFuel
    · rw [parseIdentElement]; exact Indep.outOfFuel
  | succ n ih =>
    obtain ⟨hE, hEl, hR, hT, hA, hI⟩ := ih
    have hR' : ∀ op t, Indep (parseBinOpRHS n op t) := hR
    refine ⟨?_, ?_, ?_, ?_, ?_, ?_⟩
    · rw [parseExpr]
      repeat (first | exact hR' _ _ | ind_step)
    · exact indep_parseElement_succ n hE hA hI
    · intro op t
      rw [parseBinOpRHS]
      repeat (first | exact hR' _ _ | ind_step)
    · rw [parseExprListTail]
      repeat (first | exact hR' _ _ | ind_step)
    · rw [parseActuals]
      repeat (first | exact hR' _ _ | ind_step)
    · rw [parseIdentElement]
      repeat (first | exact hR' _ _ | ind_step)


theorem indep_stmt : ∀ fuel, Indep (parseStatement fuel) ∧ Indep (parseStatementsTail fuel) := by
  intro fuel
  induction fuel with
  | zero =>
    exact ⟨by rw [parseStatement]; exact Indep.outOfFuel, by rw [parseStatementsTail]; exact Indep.outOfFuel⟩
  | succ n ih =>
    obtain ⟨hS, hT⟩ := ih
    obtain ⟨hE, hEl, _, _, _, _⟩ := indep_expr n
    refine ⟨?_, ?_⟩
    · rw [parseStatement]
      repeat ind_step
    · rw [parseStatementsTail]
      repeat ind_step

theorem indep_parseDecl (fuel : Nat) : Indep (parseDecl fuel) := by
  have hE := (indep_expr fuel).1
  unfold parseDecl
  repeat ind_step

theorem indep_parseDecls (b : Bool) : ∀ fuel, Indep (parseDecls b fuel) := by
  intro fuel
  induction fuel with
  | zero => rw [parseDecls]; exact Indep.outOfFuel
  | succ n ih =>
    have hD := indep_parseDecl n
    rw [parseDecls]
    repeat ind_step

theorem indep_parseFormal : Indep parseFormal := by
  unfold parseFormal
  repeat ind_step

theorem indep_parseFormals : ∀ fuel, Indep (parseFormals fuel) := by
  intro fuel
  induction fuel with
  | zero => rw [parseFormals]; exact Indep.outOfFuel
  | succ n ih =>
    have hF := indep_parseFormal
    rw [parseFormals]
    repeat ind_step

theorem indep_parseProcDecl (fuel : Nat) : Indep (parseProcDecl fuel) := by
  have hS := (indep_stmt fuel).1
  have hF := indep_parseFormals fuel
  have hD := indep_parseDecls false fuel
  unfold parseProcDecl
  repeat ind_step

theorem indep_parseProcDecls : ∀ fuel, Indep (parseProcDecls fuel) := by
  intro fuel
  induction fuel with
  | zero => rw [parseProcDecls]; exact Indep.outOfFuel
  | succ n ih =>
    have hP := indep_parseProcDecl n
    rw [parseProcDecls]
    repeat ind_step

theorem indep_parseProgramP (fuel : Nat) : Indep (parseProgramP fuel) := by
  have hD := indep_parseDecls true fuel
  have hP := indep_parseProcDecls fuel
  unfold parseProgramP
  repeat ind_step

/-- The parser cannot tell indistinguishable token sequences apart. -/
theorem parseItems_rel (xs ys : List LItem) (fuel : Nat) (h : RItems xs ys) : parseItems xs fuel = parseItems ys fuel := by
  cases h with
  | nil => rfl
  | @cons a b as bs hab hrest =>
    cases a with
    | err e =>
      cases b with
      | err f => simp only [RItem] at hab; subst hab; rfl
      | tok _ => simp [RItem] at hab
    | tok ta =>
      cases b with
      | err _ => simp [RItem] at hab
      | tok tb =>
        have hrs : RS { cur := ta, rest := as } { cur := tb, rest := bs } := ⟨hab, hrest⟩
        have := (indep_parseProgramP fuel).h _ _ hrs
        simp only [parseItems, StateT.run]
        cases h1 : parseProgramP fuel { cur := ta, rest := as } with
        | error e =>
          rw [h1] at this
          cases h2 : parseProgramP fuel { cur := tb, rest := bs } with
          | error e2 => rw [h2] at this; cases this; rfl
          | ok p => rw [h2] at this; cases this
        | ok p =>
          rw [h1] at this
          cases h2 : parseProgramP fuel { cur := tb, rest := bs } with
          | error e2 => rw [h2] at this; cases this
          | ok p2 => rw [h2] at this; cases this; rfl

/-- The front end does not depend on the junk in `Lexer::value`. -/
theorem parseProgramJ_indep (j1 j2 : Word) (src : List Byte) (fuel : Nat) :
    parseProgramJ j1 src fuel = parseProgramJ j2 src fuel :=
  parseItems_rel _ _ fuel (lexAllJ_rel j1 j2 src)

theorem tokensOutputJ_indep (j1 j2 : Word) (src : List Byte) : tokensOutputJ j1 src = tokensOutputJ j2 src :=
  emitTokens_rel _ _ [] (lexAllJ_rel j1 j2 src)

theorem parseProgram_eq_J (src : List Byte) (fuel : Nat) : parseProgram src fuel = parseProgramJ 0 src fuel := rfl

end Hex.Xcmp
