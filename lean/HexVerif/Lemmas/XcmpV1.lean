import HexVerif.Lemmas.XcmpMainV1
import HexVerif.Lemmas.XcmpPeep
/-!
  Whole-program theorem for the class V1: the procedure context of `main` built from the
  compiler's output, the decidable check `v1Check`, and `v1_correct`.
-/
namespace Hex.C01s
open Hex Hex.X Hex.Xcmp Hex.IAm Hex.Asm

def mainCtx (cg : CGOut) : Xcmp.Ctx :=
  { tbl := cg.tbl, scope := "main", frame := 0, exitLabel := (frameOf cg 0).exitLabel }

/-- Where the variable `n`, seen from `main`, lives. -/
def v1Loc (cg : CGOut) (env : Env) (sp S : Nat) (n : String) : Option Nat :=
  match cg.tbl.lookup "main" n with
  | .ok sym =>
    if sym.type = .var then
      if sym.scope = "" then (labelIdx env.ds sym.globalLabel).map fun j => env.addr j / 4
      else if sym.stackOffset ≤ 0 then some (sp + S - 1 - (-sym.stackOffset).toNat) else none
    else none
  | .error _ => none

def v1K (cg : CGOut) (env : Env) (xc : X.Ctx) (consts : List (Int × String)) (nlocals : Nat) (hi : Nat → Word) : PCtx :=
  { env := env, out := cg, ctx := mainCtx cg, xc := xc, ρ := fun _ => none,
    sp := (spValue cg.globalsOffset).toNat - (frameOf cg 0).size,
    loc := v1Loc cg env ((spValue cg.globalsOffset).toNat - (frameOf cg 0).size) (frameOf cg 0).size,
    consts := consts, nlocals := nlocals,
    hi := hi, gnames := [], dep := 1 }

theorem find?_mem : ∀ (t : SymTab) (k : SymKey) (s : Symbol), t.find? k = some s → (k, s) ∈ t := by
  intro t
  induction t with
  | nil => intro k s h; simp [SymTab.find?] at h
  | cons e rest ih =>
    intro k s h
    obtain ⟨k', s'⟩ := e
    unfold SymTab.find? at h
    by_cases hk : k' = k
    · rw [if_pos hk] at h
      simp only [Option.some.injEq] at h
      subst hk; subst h
      simp
    · rw [if_neg hk] at h
      exact List.mem_cons_of_mem _ (ih k s h)

theorem lookup_name_mem (t : SymTab) (scope n : String) (s : Symbol) (h : t.lookup scope n = .ok s) :
    n ∈ t.map (fun e => e.1.2) := by
  unfold SymTab.lookup at h
  cases h1 : t.find? (scope, n) with
  | some s1 =>
    have := find?_mem t _ _ h1
    exact List.mem_map.mpr ⟨_, this, rfl⟩
  | none =>
    rw [h1] at h
    simp only at h
    split at h
    · cases h2 : t.find? ("", n) with
      | some s2 =>
        have := find?_mem t _ _ h2
        exact List.mem_map.mpr ⟨_, this, rfl⟩
      | none => rw [h2] at h; simp at h
    · simp at h

theorem v1Loc_names (cg : CGOut) (env : Env) (sp S : Nat) (n : String) (a : Nat) (h : v1Loc cg env sp S n = some a) :
    n ∈ cg.tbl.map (fun e => e.1.2) := by
  unfold v1Loc at h
  cases hl : cg.tbl.lookup "main" n with
  | ok sym => exact lookup_name_mem _ _ _ _ hl
  | error e => rw [hl] at h; simp at h

/-! ### The source side at the start of `main` -/

theorem lookup_map_const {α β} (l : List α) (f : α → String) (c : β) (n : String) (x : β)
    (h : (l.map fun d => (f d, c)).lookup n = some x) : x = c := by
  induction l with
  | nil => simp at h
  | cons d rest ih =>
    simp only [List.map_cons, List.lookup_cons] at h
    split at h
    · simpa using h.symm
    · exact ih h

theorem readName_start (P : X.Program) (m : X.Proc) (inp : X.Input) (fuel : Nat) (n : String) (w : Word) :
    X.readName (v1Ctx P m fuel) (v1Start P m inp) n ≠ .ok (.int w) := by
  intro h
  unfold X.readName at h
  cases hl : (v1Start P m inp).locals.lookup n with
  | some b =>
    rw [hl] at h
    have := lookup_map_const _ _ _ _ _ hl
    subst this
    simp at h
  | none =>
    rw [hl] at h
    simp only at h
    cases hg : (v1Ctx P m fuel).genv.lookup n with
    | none => rw [hg] at h; simp at h
    | some g =>
      rw [hg] at h
      cases g with
      | val w' =>
        exfalso
        simp only [v1Ctx, List.lookup_append] at hg
        cases h1 : (P.globals.map fun d => (d.name, GBind.var)).lookup n with
        | some x =>
          rw [h1] at hg
          have := lookup_map_const _ _ _ _ _ h1
          simp only [Option.some_or, Option.some.injEq] at hg
          exact absurd (hg.symm.trans this) (by simp)
        | none =>
          rw [h1] at hg
          simp only [Option.none_or, List.lookup_cons, List.lookup_nil] at hg
          split at hg <;> simp at hg
      | var =>
        simp only at h
        cases hv : (v1Start P m inp).gvars.lookup n with
        | none => rw [hv] at h; simp at h
        | some x =>
          rw [hv] at h
          have := lookup_map_const _ _ _ _ _ hv
          subst this
          simp at h
      | array id => simp at h
      | proc p => simp at h

theorem readName_start_arr (P : X.Program) (m : X.Proc) (inp : X.Input) (fuel : Nat) (n : String) (r : ArrRef) :
    X.readName (v1Ctx P m fuel) (v1Start P m inp) n ≠ .ok (.arr r) := by
  intro h
  unfold X.readName at h
  cases hl : (v1Start P m inp).locals.lookup n with
  | some b =>
    rw [hl] at h
    have := lookup_map_const _ _ _ _ _ hl
    subst this
    simp at h
  | none =>
    rw [hl] at h
    simp only at h
    cases hg : (v1Ctx P m fuel).genv.lookup n with
    | none => rw [hg] at h; simp at h
    | some g =>
      rw [hg] at h
      cases g with
      | val w' => simp at h
      | var =>
        simp only at h
        cases hv : (v1Start P m inp).gvars.lookup n with
        | none => rw [hv] at h; simp at h
        | some x =>
          rw [hv] at h
          have := lookup_map_const _ _ _ _ _ hv
          subst this
          simp at h
      | array id =>
        exfalso
        simp only [v1Ctx, List.lookup_append] at hg
        cases h1 : (P.globals.map fun d => (d.name, GBind.var)).lookup n with
        | some x =>
          rw [h1] at hg
          have := lookup_map_const _ _ _ _ _ h1
          simp only [Option.some_or, Option.some.injEq] at hg
          exact absurd (hg.symm.trans this) (by simp)
        | none =>
          rw [h1] at hg
          simp only [Option.none_or, List.lookup_cons, List.lookup_nil] at hg
          split at hg <;> simp at hg
      | proc p => simp at h

theorem lookup_map_mem {α β} (l : List α) (f : α → String) (g : α → β) (n : String) (x : β)
    (h : (l.map fun d => (f d, g d)).lookup n = some x) : n ∈ l.map f := by
  induction l with
  | nil => simp at h
  | cons d rest ih =>
    simp only [List.map_cons, List.lookup_cons] at h
    split at h
    · rename_i e
      have : n = f d := by simpa using e
      simp [this]
    · exact List.mem_cons_of_mem _ (ih h)

theorem isVar_start (P : X.Program) (m : X.Proc) (inp : X.Input) (fuel : Nat) (n : String)
    (h : IsVar (v1Ctx P m fuel) (v1Start P m inp) n) :
    n ∈ m.locals.map X.Decl.name ++ P.globals.map X.Decl.name := by
  unfold IsVar at h
  rcases h with ⟨o, h⟩ | ⟨_, h⟩
  · exact List.mem_append_left _ (lookup_map_mem _ _ _ _ _ h)
  · simp only [v1Ctx, List.lookup_append] at h
    cases h1 : (P.globals.map fun d => (d.name, GBind.var)).lookup n with
    | some x => exact List.mem_append_right _ (lookup_map_mem _ _ _ _ _ h1)
    | none =>
      rw [h1] at h
      simp only [Option.none_or, List.lookup_cons, List.lookup_nil] at h
      split at h <;> simp at h

/-! ### The decidable check -/

def parsedOkB : List Dir → Bool
  | [] => true
  | d :: rest =>
    (match d with
     | .imm opc v => decide (opc < 12) && decide (-(2:Int)^31 ≤ v) && decide (v < (2:Int)^31)
     | .ref opc _ _ => decide (opc < 12)
     | .opr k => decide (k < 4)
     | _ => true) && parsedOkB rest

theorem parsedOkB_sound : ∀ ds, parsedOkB ds = true → ParsedOk ds := by
  intro ds
  induction ds with
  | nil => intro _; trivial
  | cons d rest ih =>
    intro h
    unfold parsedOkB at h
    simp only [Bool.and_eq_true] at h
    refine ⟨?_, ih h.2⟩
    have h1 := h.1
    cases d with
    | imm opc v =>
      simp only [Bool.and_eq_true, decide_eq_true_eq] at h1
      exact ⟨h1.1.1, h1.1.2, h1.2⟩
    | ref opc l r => simpa using h1
    | opr k => simpa using h1
    | data v => trivial
    | label k n => trivial

/-- The pool word of a constant follows its label and lies above the stack-pointer word. -/
def constDataOk (env : Env) (vl : Int × String) : Bool :=
  match labelIdx env.ds vl.2 with
  | some j => decide (env.ds[j + 1]? = some (.data vl.1)) && decide (2 ≤ env.addr j / 4)
  | none => false

def dummyXc : X.Ctx := { genv := [], impure := [], limit := 0 }
def noHi : Nat → Word := fun _ => 0

/-- The name has a location inside the frame or below the stack. -/
def locBelow (K : PCtx) (n : String) : Bool :=
  match K.loc n with
  | some a => decide (a < K.sp + K.S)
  | none => false

/-- The environment the stage-2/3 triples are run in: the LOWERED list, every directive at the
    address its image has in the layout of the OPTIMISED list (`fakeEnv`, Lemmas/XcmpPeep.lean). -/
def v1Env (st : Stages) (img : Image) : Env := fakeEnv (envOf st.optimised img) st.lowered (peepSt st.lowered)

open V1Pos in
/-- Everything `v1_correct` needs of one compilation, with the body code and final generator
    state given. -/
def v1CheckWith (P : X.Program) (m : X.Proc) (st : Stages) (img : Image) (code : Code) (gs2 : GS) : Bool :=
  let cg := st.cg
  let ds := st.lowered
  let S := (frameOf cg 0).size
  let spvI := spValue cg.globalsOffset
  let body := lowerCode cg code
  let env := v1Env st img
  let K := v1K cg env dummyXc gs2.constMap m.locals.length noHi
  decide (st.optimised = peephole ds) &&
  decide (ds = v1Program spvI cg.data S (frameOf cg 0).exitLabel body) &&
  parsedOkB st.optimised && decide (st.optimised.length < 2 ^ 26) && decide (img.bytes.length ≤ 4 * memWords) &&
  Separated st.optimised &&
  decide (gs2.size ≤ S) &&
  wfsCheck K (iEpi cg.data S body) (cg.tbl.map fun e => e.1.2) &&
  decide (0 ≤ spvI) && decide (S ≤ spvI.toNat) && decide (spvI.toNat + 2 < memWords) && decide (2 ≤ spvI.toNat) &&
  decide (img.bytes.length / 4 ≤ spvI.toNat) &&
  decide (env.addr 1 = 4) && decide (env.addr (iStub cg.data + 3) < 2 ^ 32) &&
  gs2.constMap.all (constDataOk env) &&
  (m.locals.map X.Decl.name ++ P.globals.map X.Decl.name).all (locBelow K) &&
  decide (gs2.strs = [])

/-- The generator state at the start of the body of `main` in a V1 program: one label per global
    and the exit label are taken; the locals occupy the first frame offsets. -/
def v1Gs (P : X.Program) (m : X.Proc) : GS :=
  { labelCount := P.globals.length + 1, offset := m.locals.length, size := m.locals.length }

/-- **The decidable side condition of the whole-program theorem for V1.** -/
def v1Check (P : X.Program) (m : X.Proc) (st : Stages) (img : Image) : Bool :=
  match genStmt (mainCtx st.cg) (optStmt (annotS (fun _ => none) m.body)) (v1Gs P m) with
  | .error _ => false
  | .ok (code, gs2) => v1CheckWith P m st img code gs2

/-! ### The whole-program theorem -/

theorem wfsCheck_xc (cg : CGOut) (env : Env) (xc xc' : X.Ctx) (consts : List (Int × String))
    (nl : Nat) (hi hi' : Nat → Word) (exitJ : Nat) (names : List String) :
    wfsCheck (v1K cg env xc consts nl hi) exitJ names = wfsCheck (v1K cg env xc' consts nl hi') exitJ names := rfl

theorem locBelow_xc (cg : CGOut) (env : Env) (xc xc' : X.Ctx) (consts : List (Int × String))
    (nl : Nat) (hi hi' : Nat → Word) (n : String) :
    locBelow (v1K cg env xc consts nl hi) n = locBelow (v1K cg env xc' consts nl hi') n := rfl

open V1Pos in
/-- The `IAm` run of a V1 program, in any environment whose boot memory holds the DATA words. -/
theorem v1_core (P : X.Program) (m : X.Proc) (inp : X.Input) (fuel : Nat) (β : X.Behaviour)
    (cg : CGOut) (env : Env) (mem0 : Mem) (gs1 : GS) (code : Code) (gs2 : GS)
    (hv : isV1 P = true) (hm : P.procs = [m]) (hrun : X.run P inp fuel = .defined β)
    (hdata : ∀ j v, env.ds[j]? = some (.data v) → env.addr j % 4 = 0 ∧
      mem0.read (env.addr j / 4) = BitVec.ofInt 32 v ∧ env.isCode (env.addr j / 4) = false)
    (hlabel : ∀ j k l, env.ds[j]? = some (.label k l) → env.addr (j + 1) = env.addr j)
    (hgen : genStmt (mainCtx cg) (optStmt (annotS (fun _ => none) m.body)) gs1 = .ok (code, gs2))
    (hnl : m.locals.length ≤ gs1.offset)
    (hshape : env.ds = v1Program (spValue cg.globalsOffset) cg.data (frameOf cg 0).size (frameOf cg 0).exitLabel (lowerCode cg code))
    (hsz : gs2.size ≤ (frameOf cg 0).size)
    (hwfs : wfsCheck (v1K cg env dummyXc gs2.constMap m.locals.length noHi)
              (iEpi cg.data (frameOf cg 0).size (lowerCode cg code)) (cg.tbl.map fun e => e.1.2) = true)
    (h0 : 0 ≤ spValue cg.globalsOffset) (hS : (frameOf cg 0).size ≤ (spValue cg.globalsOffset).toNat)
    (hlt : (spValue cg.globalsOffset).toNat + 2 < memWords) (h2 : 2 ≤ (spValue cg.globalsOffset).toNat)
    (hcs : env.isCode (spValue cg.globalsOffset).toNat = false)
    (hcs2 : env.isCode ((spValue cg.globalsOffset).toNat + 2) = false)
    (ha1 : env.addr 1 = 4) (hlink : env.addr (iStub cg.data + 3) < 2 ^ 32)
    (hcd : ∀ vl ∈ gs2.constMap, constDataOk env vl = true)
    (hlocs : ∀ n ∈ m.locals.map X.Decl.name ++ P.globals.map X.Decl.name,
      locBelow (v1K cg env dummyXc gs2.constMap m.locals.length noHi) n = true)
    (hstrs : gs2.strs = []) :
    ∃ c io code, Steps env (cfg 0 0 0 mem0) (Isa.IOSt.init inp.stdin inp.files) c io ∧ Exit env c io code ∧
      code = β.exit ∧ io.log.reverse = β.events ∧ inp.stdin.length - io.stdin.length = β.stdinConsumed := by
  obtain ⟨f, hfuel, hexec⟩ := run_v1 P m inp fuel β hv hm hrun
  have hnd : (labelNames env.ds).Nodup := by
    unfold wfsCheck at hwfs
    simp only [Bool.and_eq_true, decide_eq_true_eq] at hwfs
    exact hwfs.1.1.1.1.1.1.1.1.1
  have hpos : V1Pos env.ds (spValue cg.globalsOffset) cg.data (frameOf cg 0).size
      (frameOf cg 0).exitLabel (lowerCode cg code) := ⟨hshape⟩
  -- the boot memory
  have hd1 : env.ds[1]? = some (.data (spValue cg.globalsOffset)) := hpos.at_head.get 1 _ rfl
  obtain ⟨_, hm1, hc1⟩ := hdata 1 _ hd1
  rw [ha1] at hm1 hc1
  have hm1' : mem0.read 1 = BitVec.ofNat 32 (spValue cg.globalsOffset).toNat := by
    have h41 : 4 / 4 = 1 := rfl
    rw [h41] at hm1
    rw [hm1, ← W_ofNat, Int.toNat_of_nonneg h0]
  have hc1' : env.isCode 1 = false := hc1
  obtain ⟨a', memP, hstart, hP1, hPlink, hPrest⟩ :=
    v1_startup env _ _ _ _ _ hpos hnd mem0 (spValue cg.globalsOffset).toNat
      (Isa.IOSt.init inp.stdin inp.files) hm1' (by omega) hcs h2 hc1' hS
  -- the procedure context
  have hx := wfsCheck_xc cg env (v1Ctx P m fuel) dummyXc gs2.constMap m.locals.length memP.read noHi
    (iEpi cg.data (frameOf cg 0).size (lowerCode cg code)) (cg.tbl.map fun e => e.1.2)
  have hy := Eq.trans hx hwfs
  have hnames : ∀ n a, (v1K cg env (v1Ctx P m fuel) gs2.constMap m.locals.length memP.read).loc n = some a →
      n ∈ cg.tbl.map (fun e => e.1.2) := by
    intro n a h
    exact v1Loc_names cg _ _ _ n a h
  have wf0 := wfsCheck_sound _ _ _ hnames (PCtx.arrOK_of_none _ (fun _ => rfl)) (PCtx.strOK_of_none _ rfl) hy
  obtain ⟨K, hK⟩ : ∃ K : PCtx, K = v1K cg env (v1Ctx P m fuel) gs2.constMap m.locals.length memP.read :=
    ⟨_, rfl⟩
  have wf : K.WFS (iEpi cg.data (frameOf cg 0).size (lowerCode cg code)) := by rw [hK]; exact wf0
  have hKS : K.S = (frameOf cg 0).size := by rw [hK]; rfl
  have hKsp : K.sp = (spValue cg.globalsOffset).toNat - (frameOf cg 0).size := by rw [hK]; rfl
  have hKenv : K.env = env := by rw [hK]; rfl
  have hKxc : K.xc = v1Ctx P m fuel := by rw [hK]; rfl
  have hKρ : ∀ n, K.ρ n = none := by intro n; rw [hK]; rfl
  have hKhi : K.hi = memP.read := by rw [hK]; rfl
  have hKlow : K.low code = lowerCode cg code := by rw [hK]; rfl
  have hKnl : K.nlocals = m.locals.length := by rw [hK]; rfl
  have hKconsts : K.consts = gs2.constMap := by rw [hK]; rfl
  have hgen' : genStmt K.ctx (optStmt (annotS K.ρ m.body)) gs1 = .ok (code, gs2) := by rw [hK]; exact hgen
  have hlocs' : ∀ n ∈ m.locals.map X.Decl.name ++ P.globals.map X.Decl.name, locBelow K n = true := by
    intro n hn
    rw [hK, locBelow_xc cg env _ dummyXc _ _ _ noHi]
    exact hlocs n hn
  -- the initial representation
  have rep : Rep K (v1Start P m inp) memP := by
    refine ⟨by rw [hKsp]; exact hP1, fun n w h => by rw [hKρ] at h; simp at h, ?_, ?_, ?_, ?_,
      fun n hn => by rw [hK] at hn; simp [v1K] at hn, by rw [hK]; rfl,
      fun n r h => by rw [hKxc] at h; exact absurd h (readName_start_arr P m inp fuel n r),
      fun id cells h => by simp [v1Start] at h,
      fun l bs ws j k h => by rw [hK] at h; simp [v1K] at h⟩
    · intro n w _ h
      rw [hKxc] at h
      exact absurd h (readName_start P m inp fuel n w)
    · intro v l j k hmem hd
      obtain ⟨j', k', hd', _, hlt'⟩ := wf.const_lbl v l hmem
      rw [hKconsts] at hmem
      rw [hKenv] at hd hd' hlt' ⊢
      have hj := labelIdx_of_nodup env.ds j k l hnd hd
      have hj' := labelIdx_of_nodup env.ds j' k' l hnd hd'
      have hjj : j' = j := by rw [hj] at hj'; exact (Option.some.inj hj').symm
      subst hjj
      have hc := hcd (v, l) hmem
      unfold constDataOk at hc
      simp only at hc
      rw [hj] at hc
      simp only [Bool.and_eq_true, decide_eq_true_eq] at hc
      obtain ⟨hdat, hge⟩ := hc
      obtain ⟨_, hval, _⟩ := hdata (j' + 1) v hdat
      rw [hlabel j' k l hd] at hval
      rw [hKsp] at hlt'
      rw [hPrest _ (by omega) (by omega)]
      exact hval
    · intro n hvar
      rw [hKxc] at hvar
      have := hlocs' n (isVar_start P m inp fuel n hvar)
      unfold locBelow at this
      split at this
      · rename_i a ha
        exact ⟨a, ha, by simpa using this⟩
      · simp at this
    · intro a _ _
      rw [hKhi]
  -- the body
  have hbody : okS m.body = true := by
    unfold isV1 at hv
    rw [hm] at hv
    simp only [Bool.and_eq_true] at hv
    exact hv.2
  have hat : At K.env.ds (iBody cg.data (frameOf cg 0).size) (K.low code) := by
    rw [hKenv, hKlow]; exact hpos.at_body
  have hout := (stmt_correct K _ wf f).1 m.body (v1Start P m inp) hbody gs1 code gs2
    (iBody cg.data (frameOf cg 0).size) a' (BitVec.ofNat 32 (spValue cg.globalsOffset).toNat) memP
    hgen' hat rep (by rw [hKS]; exact hsz) (by rw [hKnl]; exact hnl) (fun e he => by
      have : K.items = gs2.items := by rw [hK]; simp [PCtx.items, GS.items, v1K, hstrs]
      rw [this]; exact he)
  have hiEpi : iBody cg.data (frameOf cg 0).size + (lowerCode cg code).length
      = iEpi cg.data (frameOf cg 0).size (lowerCode cg code) := rfl
  rw [hKlow, hiEpi, hKxc] at hout
  have hio : (v1Start P m inp).io = Isa.IOSt.init inp.stdin inp.files := rfl
  rw [hio] at hout
  rcases hexec with ⟨s, hex, hβ1, hβ2, hβ3⟩ | ⟨xcode, s, hex, hβ1, hβ2, hβ3⟩
  · rw [hex] at hout
    obtain ⟨a2, b2, mem2, hsteps, rep2⟩ := hout
    rw [hKenv] at hsteps
    obtain ⟨c, hfin, hexit⟩ := v1_finish env _ _ _ _ _ hpos a2 b2 mem2 K.sp
      (spValue cg.globalsOffset).toNat s.io (by rw [hKsp]; omega) rep2.sp
      (by have := rep2.link wf.toWF
          unfold PCtx.link at this
          rw [hKS, hKsp, show (spValue cg.globalsOffset).toNat - (frameOf cg 0).size + (frameOf cg 0).size
            = (spValue cg.globalsOffset).toNat from by omega, hKhi, hPlink] at this
          exact this)
      hlt hcs2 h2 hc1' hlink
    exact ⟨c, s.io, 0, (hstart.trans hsteps).trans hfin, hexit, hβ1.symm, hβ2.symm, hβ3.symm⟩
  · rw [hex] at hout
    obtain ⟨c, hsteps, hexit⟩ := hout
    rw [hKenv] at hsteps hexit
    exact ⟨c, s.io, xcode, hstart.trans hsteps, hexit, hβ1.symm, hβ2.symm, hβ3.symm⟩

theorem assembleDirs_ok (ds : List Dir) (img : Image) (h : assembleDirs ds = .ok img) :
    assemble (ds.map fun d => (d, (⟨0, 0⟩ : Loc))) = .ok (some img) := by
  unfold assembleDirs withLoc at h
  split at h
  · simp at h
  · simp at h
  · rename_i img' he
    simp only [Except.ok.injEq] at h
    rw [← h]; exact he

/-- **Whole programs of the class V1.**  `st` are the stages of the compilation of `P`, `img` the
    assembled image of its final directive list; under the decidable check `v1Check` every
    defined behaviour of `P` is the behaviour of the ISA on `img`. -/
theorem v1_correct (P : X.Program) (m : X.Proc) (st : Stages) (img : Image) (inp : X.Input) (fuel : Nat)
    (β : X.Behaviour) (hv : isV1 P = true) (hm : P.procs = [m])
    (hasm : assembleDirs st.optimised = .ok img) (hchk : v1Check P m st img = true)
    (hrun : X.run P inp fuel = .defined β) :
    ∃ n code j s' io, Isa.run n (Am.boot img) (Isa.IOSt.init inp.stdin inp.files) = .exited code j s' io ∧
      code = β.exit ∧ io.log.reverse = β.events ∧ inp.stdin.length - io.stdin.length = β.stdinConsumed := by
  unfold v1Check at hchk
  split at hchk
  · simp at hchk
  · rename_i code gs2 hgen
    unfold v1CheckWith at hchk
    simp only [Bool.and_eq_true, decide_eq_true_eq, List.all_eq_true] at hchk
    obtain ⟨⟨⟨⟨⟨⟨⟨⟨⟨⟨⟨⟨⟨⟨⟨⟨⟨c1, c2⟩, c3⟩, c4⟩, c5⟩, c6⟩, c7⟩, c8⟩, c9⟩, c10⟩, c11⟩, c12⟩, c13⟩, c14⟩, c15⟩, c16⟩, c17⟩, c18⟩ := hchk
    have g : Good st.optimised img :=
      ⟨parsedOkB_sound _ c3, c4, assembleDirs_ok _ _ hasm, c5, c6⟩
    have F := facts_of_good st.optimised img g
    have hp : Peep st.lowered st.optimised (peepSt st.lowered) := by rw [c1]; exact peephole_peep _
    have hbeyond : ∀ w, img.bytes.length / 4 ≤ w → (v1Env st img).isCode w = false :=
      fun w hw => isCode_beyond st.optimised img F F.len4 w hw
    obtain ⟨c, io, code', hsteps, hexit, e1, e2, e3⟩ :=
      v1_core P m inp fuel β st.cg (v1Env st img) (Am.boot img).mem (v1Gs P m) code gs2 hv hm hrun
        (fun j v hd => by
          have := boot_data st.optimised img g F _ v (data_get hp j v hd)
          exact ⟨this.1, this.2.2.1, this.2.2.2⟩)
        (fun j k l hd => by
          obtain ⟨hd', hphi⟩ := label_get hp j k l hd
          show (envOf st.optimised img).addr (phi (peepSt st.lowered) (j + 1)) = (envOf st.optimised img).addr (phi (peepSt st.lowered) j)
          rw [hphi]
          exact label_facts st.optimised img.resolved.lens img.resolved.vals 0 _ k l hd')
        hgen (Nat.le_refl _) c2 c7 c8 c9 c10 c11 c12 (hbeyond _ c13) (hbeyond _ (by omega)) c14 c15 c16 c17 c18
    have hnd : (labelNames st.lowered).Nodup := by
      unfold wfsCheck at c8
      simp only [Bool.and_eq_true, decide_eq_true_eq] at c8
      exact c8.1.1.1.1.1.1.1.1.1
    obtain ⟨c', hsteps', hexit'⟩ := peep_run (env' := envOf st.optimised img) hp hnd _ _ c io code' hsteps hexit
    obtain ⟨n, j, s', hr⟩ := IAm_refines_Isa g _ c' io code' hsteps' hexit'
    exact ⟨n, code', j, s', io, hr, e1, e2, e3⟩

/-- **The class V1 with its side conditions, as one decidable predicate of the source program**:
    one procedure `main` without formals, only `var` declarations, a body of the stage-3 fragment,
    and the compilation passes `v1Check`. -/
def v1Ok (P : X.Program) : Bool :=
  match P.procs, stages P with
  | [m], .ok st =>
    match assembleDirs st.optimised with
    | .ok img => isV1 P && v1Check P m st img
    | .error _ => false
  | _, _ => false

theorem v1_whole (P : X.Program) (inp : X.Input) (fuel : Nat) (β : X.Behaviour) (img : Image)
    (hok : v1Ok P = true) (hcomp : compile P = .ok img) (hrun : X.run P inp fuel = .defined β) :
    ∃ n code j s' io, Isa.run n (Am.boot img) (Isa.IOSt.init inp.stdin inp.files) = .exited code j s' io ∧
      code = β.exit ∧ io.log.reverse = β.events ∧ inp.stdin.length - io.stdin.length = β.stdinConsumed := by
  unfold v1Ok at hok
  split at hok
  · rename_i m st hm hst
    have hc : compile P = assembleDirs st.optimised := by
      unfold compile compileDirs
      rw [hst]
      rfl
    rw [hc] at hcomp
    rw [hcomp] at hok
    simp only [Bool.and_eq_true] at hok
    exact v1_correct P m st img inp fuel β hok.1 hm hcomp hok.2 hrun
  · simp at hok

end Hex.C01s
