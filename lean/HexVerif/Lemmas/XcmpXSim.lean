import HexVerif.X.Sem
/-!
  The reference semantics does not depend on the step counter or the call log, except through the
  step budget: an evaluation that succeeds with `k` ticks succeeds, with the same result, from any
  state that agrees on variables, arrays, bindings, I/O and depth and still has `k` ticks left.
  (Needed to reorder the evaluation of operands: xcmp evaluates the right operand first when it
  needs areg.)
-/
namespace Hex.C01s
open Hex Hex.X

/-- States the semantics cannot tell apart (up to the step budget). -/
def Sim (a b : X.St) : Prop :=
  a.gvars = b.gvars ∧ a.arrays = b.arrays ∧ a.locals = b.locals ∧ a.io = b.io ∧ a.depth = b.depth

theorem Sim.refl (a : X.St) : Sim a a := ⟨rfl, rfl, rfl, rfl, rfl⟩
theorem Sim.symm {a b : X.St} (h : Sim a b) : Sim b a := ⟨h.1.symm, h.2.1.symm, h.2.2.1.symm, h.2.2.2.1.symm, h.2.2.2.2.symm⟩
theorem Sim.trans {a b c : X.St} (h1 : Sim a b) (h2 : Sim b c) : Sim a c :=
  ⟨h1.1.trans h2.1, h1.2.1.trans h2.2.1, h1.2.2.1.trans h2.2.2.1, h1.2.2.2.1.trans h2.2.2.2.1, h1.2.2.2.2.trans h2.2.2.2.2⟩

theorem shift_a1 (a b c d l : Nat) (h1 : a ≤ b) (h2 : b ≤ c) (h : d + (c - a) ≤ l) : d + (b - a) ≤ l := by omega
theorem shift_a2 (a b c d e l : Nat) (h1 : a ≤ b) (h2 : b ≤ c) (h : d + (c - a) ≤ l) (he : e = d + (b - a)) :
    e + (c - b) ≤ l := by omega
theorem shift_a3 (a b c d e f : Nat) (h1 : a ≤ b) (h2 : b ≤ c) (he : e = d + (b - a)) (hf : f = e + (c - b)) :
    f = d + (c - a) := by omega

/-- A computation of the semantics that is insensitive to `Sim` and to shifting the step counter
    within the budget `lim`. -/
def Shift {α : Type} (lim : Nat) (F : X.St → Res α) : Prop :=
  ∀ σ1 σ2, Sim σ1 σ2 →
    (∀ a s1, F σ1 = .ok a s1 → σ1.steps ≤ s1.steps ∧ (σ1.steps ≤ lim → s1.steps ≤ lim) ∧
        (σ2.steps + (s1.steps - σ1.steps) ≤ lim →
          ∃ s2, F σ2 = .ok a s2 ∧ Sim s1 s2 ∧ s2.steps = σ2.steps + (s1.steps - σ1.steps))) ∧
    (∀ c s1, F σ1 = .exit c s1 → σ1.steps ≤ s1.steps ∧ (σ1.steps ≤ lim → s1.steps ≤ lim) ∧
        (σ2.steps + (s1.steps - σ1.steps) ≤ lim →
          ∃ s2, F σ2 = .exit c s2 ∧ Sim s1 s2 ∧ s2.steps = σ2.steps + (s1.steps - σ1.steps)))

theorem Shift.undef {α : Type} (lim : Nat) (w : String) : Shift lim (fun _ => (Res.undef w : Res α)) :=
  fun _ _ _ => ⟨fun _ _ h => by simp at h, fun _ _ h => by simp at h⟩

theorem Shift.ok {α : Type} (lim : Nat) (a : α) : Shift lim (fun s => Res.ok a s) := by
  intro σ1 σ2 hs
  refine ⟨fun a' s1 h => ?_, fun _ _ h => by simp at h⟩
  simp only [Res.ok.injEq] at h
  obtain ⟨rfl, rfl⟩ := h
  exact ⟨Nat.le_refl _, fun h => h, fun _ => ⟨σ2, rfl, hs, by omega⟩⟩

theorem Shift.exit {α : Type} (lim : Nat) (c : Word) : Shift lim (fun s => (Res.exit c s : Res α)) := by
  intro σ1 σ2 hs
  refine ⟨fun _ _ h => by simp at h, fun c' s1 h => ?_⟩
  simp only [Res.exit.injEq] at h
  obtain ⟨rfl, rfl⟩ := h
  exact ⟨Nat.le_refl _, fun h => h, fun _ => ⟨σ2, rfl, hs, by omega⟩⟩

theorem Shift.bind {α β : Type} {lim : Nat} {F : X.St → Res α} {f : α → X.St → Res β}
    (hF : Shift lim F) (hf : ∀ a, Shift lim (f a)) : Shift lim (fun s => (F s).bind f) := by
  intro σ1 σ2 hs
  obtain ⟨hFo, hFe⟩ := hF σ1 σ2 hs
  constructor
  · intro b t1 h
    dsimp only at h
    cases hr : F σ1 with
    | undef w => rw [hr] at h; simp [Res.bind] at h
    | exit c s => rw [hr] at h; simp [Res.bind] at h
    | ok a s1 =>
      rw [hr] at h
      simp only [Res.bind] at h
      obtain ⟨hm1, hbd1, hk1⟩ := hFo a s1 hr
      have hm2 := ((hf a s1 s1 (Sim.refl _)).1 b t1 h).1
      have hbd2 := ((hf a s1 s1 (Sim.refl _)).1 b t1 h).2.1
      refine ⟨Nat.le_trans hm1 hm2, fun hl => hbd2 (hbd1 hl), fun hb => ?_⟩
      have hb1 : σ2.steps + (s1.steps - σ1.steps) ≤ lim := shift_a1 _ _ _ _ _ hm1 hm2 hb
      obtain ⟨s2, e2, hs2, hst2⟩ := hk1 hb1
      obtain ⟨_, _, hk2⟩ := (hf a s1 s2 hs2).1 b t1 h
      have hb2 : s2.steps + (t1.steps - s1.steps) ≤ lim := shift_a2 _ _ _ _ _ _ hm1 hm2 hb hst2
      obtain ⟨t2, e3, hs3, hst3⟩ := hk2 hb2
      have hfin : t2.steps = σ2.steps + (t1.steps - σ1.steps) := shift_a3 _ _ _ _ _ _ hm1 hm2 hst2 hst3
      exact ⟨t2, by simp only [e2, Res.bind]; exact e3, hs3, hfin⟩
  · intro c t1 h
    dsimp only at h
    cases hr : F σ1 with
    | undef w => rw [hr] at h; simp [Res.bind] at h
    | exit c' s =>
      rw [hr] at h
      simp only [Res.bind, Res.exit.injEq] at h
      obtain ⟨rfl, rfl⟩ := h
      obtain ⟨hm1, hbd1, hk1⟩ := hFe c' s hr
      refine ⟨hm1, hbd1, fun hb => ?_⟩
      obtain ⟨s2, e2, hs2, hst2⟩ := hk1 hb
      exact ⟨s2, by simp only [e2, Res.bind], hs2, hst2⟩
    | ok a s1 =>
      rw [hr] at h
      simp only [Res.bind] at h
      obtain ⟨hm1, hbd1, hk1⟩ := hFo a s1 hr
      have hm2 := ((hf a s1 s1 (Sim.refl _)).2 c t1 h).1
      have hbd2 := ((hf a s1 s1 (Sim.refl _)).2 c t1 h).2.1
      refine ⟨Nat.le_trans hm1 hm2, fun hl => hbd2 (hbd1 hl), fun hb => ?_⟩
      have hb1 : σ2.steps + (s1.steps - σ1.steps) ≤ lim := shift_a1 _ _ _ _ _ hm1 hm2 hb
      obtain ⟨s2, e2, hs2, hst2⟩ := hk1 hb1
      obtain ⟨_, _, hk2⟩ := (hf a s1 s2 hs2).2 c t1 h
      have hb2 : s2.steps + (t1.steps - s1.steps) ≤ lim := shift_a2 _ _ _ _ _ _ hm1 hm2 hb hst2
      obtain ⟨t2, e3, hs3, hst3⟩ := hk2 hb2
      have hfin : t2.steps = σ2.steps + (t1.steps - σ1.steps) := shift_a3 _ _ _ _ _ _ hm1 hm2 hst2 hst3
      exact ⟨t2, by simp only [e2, Res.bind]; exact e3, hs3, hfin⟩

/-- A pure check or read of the state that `Sim` cannot influence. -/
theorem Shift.liftE {α : Type} {lim : Nat} {g : X.St → Except String α} (hg : ∀ s s', Sim s s' → g s = g s') :
    Shift lim (fun s => liftE (g s) s) := by
  intro σ1 σ2 hs
  have he := hg σ1 σ2 hs
  constructor
  · intro a s1 h
    dsimp only at h
    unfold X.liftE at h
    cases hr : g σ1 with
    | error w => rw [hr] at h; simp at h
    | ok a' =>
      rw [hr] at h
      simp only [Res.ok.injEq] at h
      obtain ⟨rfl, rfl⟩ := h
      refine ⟨Nat.le_refl _, fun h => h, fun _ => ⟨σ2, ?_, hs, by omega⟩⟩
      dsimp only
      unfold X.liftE
      rw [← he, hr]
  · intro c s1 h
    dsimp only at h
    unfold X.liftE at h
    cases hr : g σ1 <;> rw [hr] at h <;> simp at h

/-- A state update that commutes with `Sim` and leaves the step counter alone. -/
theorem Shift.update {lim : Nat} {g : X.St → Except String X.St}
    (hg : ∀ s s', Sim s s' → (∃ w, g s = .error w ∧ g s' = .error w) ∨
      (∃ t t', g s = .ok t ∧ g s' = .ok t' ∧ Sim t t' ∧ t.steps = s.steps ∧ t'.steps = s'.steps)) {α : Type} (a : α) :
    Shift lim (fun s => match g s with | .ok t => Res.ok a t | .error w => Res.undef w) := by
  intro σ1 σ2 hs
  rcases hg σ1 σ2 hs with ⟨w, h1, h2⟩ | ⟨t, t', h1, h2, hst, e1, e2⟩
  · constructor
    · intro a' s1 h; dsimp only at h; rw [h1] at h; simp at h
    · intro c s1 h; dsimp only at h; rw [h1] at h; simp at h
  · constructor
    · intro a' s1 h
      dsimp only at h
      rw [h1] at h
      simp only [Res.ok.injEq] at h
      obtain ⟨rfl, rfl⟩ := h
      exact ⟨by omega, fun hl => by omega, fun _ => ⟨t', by dsimp only; rw [h2], hst, by omega⟩⟩
    · intro c s1 h; dsimp only at h; rw [h1] at h; simp at h

theorem Shift.ite {α : Type} {lim : Nat} {c : X.St → Bool} {A B : X.St → Res α} (hc : ∀ s s', Sim s s' → c s = c s')
    (hA : Shift lim A) (hB : Shift lim B) : Shift lim (fun s => if c s then A s else B s) := by
  intro σ1 σ2 hs
  have := hc σ1 σ2 hs
  simp only
  rw [← this]
  cases c σ1
  · simpa using hB σ1 σ2 hs
  · simpa using hA σ1 σ2 hs

/-- One tick of the step budget `lim`, then `F`. -/
theorem Shift.tick {α : Type} {xc : X.Ctx} {F : X.St → Res α} (w : String) (hF : Shift xc.limit F) :
    Shift xc.limit (fun s0 => match X.tick xc s0 with | none => Res.undef w | some st => F st) := by
  intro σ1 σ2 hs
  have key : ∀ (st1 : X.St), X.tick xc σ1 = some st1 →
      st1.steps = σ1.steps + 1 ∧ (σ2.steps + 1 ≤ xc.limit → ∃ st2, X.tick xc σ2 = some st2 ∧ Sim st1 st2 ∧ st2.steps = σ2.steps + 1) := by
    intro st1 ht
    unfold X.tick at ht ⊢
    split at ht
    · simp at ht
    · simp only [Option.some.injEq] at ht
      subst ht
      refine ⟨rfl, fun hb => ?_⟩
      rw [if_neg (by omega)]
      exact ⟨_, rfl, hs, rfl⟩
  constructor
  · intro a s1 h
    dsimp only at h
    cases ht : X.tick xc σ1 with
    | none => rw [ht] at h; simp at h
    | some st1 =>
      rw [ht] at h
      simp only at h
      obtain ⟨e1, k1⟩ := key st1 ht
      have hm := ((hF st1 st1 (Sim.refl _)).1 a s1 h).1
      have hbd := ((hF st1 st1 (Sim.refl _)).1 a s1 h).2.1
      have hlt1 : st1.steps ≤ xc.limit := by
        unfold X.tick at ht
        split at ht
        · simp at ht
        · simp only [Option.some.injEq] at ht; subst ht; simp only; omega
      refine ⟨Nat.le_trans (by rw [e1]; exact Nat.le_succ _) hm, fun _ => hbd hlt1, fun hb => ?_⟩
      have hle : σ1.steps ≤ st1.steps := by rw [e1]; exact Nat.le_succ _
      have hb1 : σ2.steps + 1 ≤ xc.limit := by
        have := shift_a1 _ _ _ _ _ hle hm hb
        rw [e1, Nat.add_sub_cancel_left] at this
        exact this
      obtain ⟨st2, ht2, hs2, e2⟩ := k1 hb1
      obtain ⟨_, _, hk⟩ := (hF st1 st2 hs2).1 a s1 h
      have e2' : st2.steps = σ2.steps + (st1.steps - σ1.steps) := by rw [e2, e1, Nat.add_sub_cancel_left]
      have hb2 : st2.steps + (s1.steps - st1.steps) ≤ xc.limit := shift_a2 _ _ _ _ _ _ hle hm hb e2'
      obtain ⟨s2, e3, hs3, e4⟩ := hk hb2
      have hfin : s2.steps = σ2.steps + (s1.steps - σ1.steps) := shift_a3 _ _ _ _ _ _ hle hm e2' e4
      exact ⟨s2, by simp only [ht2]; exact e3, hs3, hfin⟩
  · intro c s1 h
    dsimp only at h
    cases ht : X.tick xc σ1 with
    | none => rw [ht] at h; simp at h
    | some st1 =>
      rw [ht] at h
      simp only at h
      obtain ⟨e1, k1⟩ := key st1 ht
      have hm := ((hF st1 st1 (Sim.refl _)).2 c s1 h).1
      have hbd := ((hF st1 st1 (Sim.refl _)).2 c s1 h).2.1
      have hlt1 : st1.steps ≤ xc.limit := by
        unfold X.tick at ht
        split at ht
        · simp at ht
        · simp only [Option.some.injEq] at ht; subst ht; simp only; omega
      refine ⟨Nat.le_trans (by rw [e1]; exact Nat.le_succ _) hm, fun _ => hbd hlt1, fun hb => ?_⟩
      have hle : σ1.steps ≤ st1.steps := by rw [e1]; exact Nat.le_succ _
      have hb1 : σ2.steps + 1 ≤ xc.limit := by
        have := shift_a1 _ _ _ _ _ hle hm hb
        rw [e1, Nat.add_sub_cancel_left] at this
        exact this
      obtain ⟨st2, ht2, hs2, e2⟩ := k1 hb1
      obtain ⟨_, _, hk⟩ := (hF st1 st2 hs2).2 c s1 h
      have e2' : st2.steps = σ2.steps + (st1.steps - σ1.steps) := by rw [e2, e1, Nat.add_sub_cancel_left]
      have hb2 : st2.steps + (s1.steps - st1.steps) ≤ xc.limit := shift_a2 _ _ _ _ _ _ hle hm hb e2'
      obtain ⟨s2, e3, hs3, e4⟩ := hk hb2
      have hfin : s2.steps = σ2.steps + (s1.steps - σ1.steps) := shift_a3 _ _ _ _ _ _ hle hm e2' e4
      exact ⟨s2, by simp only [ht2]; exact e3, hs3, hfin⟩

/-! ### What `Sim` cannot influence -/

theorem readName_sim (xc : X.Ctx) (n : String) (s s' : X.St) (h : Sim s s') : X.readName xc s n = X.readName xc s' n := by
  unfold X.readName; rw [h.2.2.1, h.1]

theorem arrayOf_sim (xc : X.Ctx) (n : String) (s s' : X.St) (h : Sim s s') : X.arrayOf xc s n = X.arrayOf xc s' n := by
  unfold X.arrayOf; rw [readName_sim xc n s s' h]

theorem arrGet_sim (r : ArrRef) (i : Word) (s s' : X.St) (h : Sim s s') : X.arrGet s r i = X.arrGet s' r i := by
  unfold X.arrGet; rw [h.2.1]

theorem orderOk_sim (xc : X.Ctx) (es : List X.Expr) (s s' : X.St) (h : Sim s s') : X.orderOk xc s es = X.orderOk xc s' es := by
  have h1 : X.isImpureCallee xc s = X.isImpureCallee xc s' := by
    funext f; unfold X.isImpureCallee; rw [h.2.2.1]
  have h2 : X.isValName xc s = X.isValName xc s' := by
    funext n; unfold X.isValName; rw [h.2.2.1]
  unfold X.orderOk
  rw [h1, h2]

theorem resolveCallee_sim (xc : X.Ctx) (f : String) (s s' : X.St) (h : Sim s s') :
    X.resolveCallee xc s f = X.resolveCallee xc s' f := by
  unfold X.resolveCallee; rw [h.2.2.1]

theorem Shift.asInt {lim : Nat} {F : X.St → Res Val} (what : String) (hF : Shift lim F) :
    Shift lim (fun s => X.asInt what (F s)) := by
  unfold X.asInt
  refine hF.bind (fun v => ?_)
  cases v with
  | int w => exact Shift.ok lim w
  | arr r => exact Shift.undef lim _

theorem Shift.asBool {lim : Nat} {F : X.St → Res Val} (what : String) (hF : Shift lim F) :
    Shift lim (fun s => X.asBool what (F s)) := by
  unfold X.asBool
  refine (Shift.asInt what hF).bind (fun w => ?_)
  by_cases hb : X.isBool w = true
  · simp only [hb, if_true]; exact Shift.ok lim w
  · simp only [hb]; exact Shift.undef lim _

/-- The three system calls. -/
theorem Shift.doSyscall (lim : Nat) (id : Word) (vs : List Val) : Shift lim (X.doSyscall id vs) := by
  intro σ1 σ2 hs
  unfold X.doSyscall
  by_cases h0 : id = 0
  · simp only [h0, if_true]
    split
    · exact Shift.exit lim _ σ1 σ2 hs
    · exact Shift.undef lim _ σ1 σ2 hs
  · simp only [h0, if_false]
    by_cases h1 : id = 1
    · simp only [h1, if_true]
      split
      · constructor
        · intro a s1 h
          simp only [Res.ok.injEq] at h
          obtain ⟨rfl, rfl⟩ := h
          refine ⟨Nat.le_refl _, fun h => h, fun _ => ⟨_, rfl, ?_, by simp⟩⟩
          exact ⟨hs.1, hs.2.1, hs.2.2.1, by simp only; rw [hs.2.2.2.1], hs.2.2.2.2⟩
        · intro c s1 h; simp at h
      · exact Shift.undef lim _ σ1 σ2 hs
    · simp only [h1, if_false]
      by_cases h2 : id = 2
      · simp only [h2, if_true]
        split
        · constructor
          · intro a s1 h
            simp only [Res.ok.injEq] at h
            obtain ⟨rfl, rfl⟩ := h
            refine ⟨Nat.le_refl _, fun h => h, fun _ => ⟨_, by rw [hs.2.2.2.1], ?_, by simp⟩⟩
            exact ⟨hs.1, hs.2.1, hs.2.2.1, by simp only; rw [hs.2.2.2.1], hs.2.2.2.2⟩
          · intro c s1 h; simp at h
        · exact Shift.undef lim _ σ1 σ2 hs
      · simp only [h2, if_false]
        exact Shift.undef lim _ σ1 σ2 hs

/-! ### The interpreter -/

section
variable (xc : X.Ctx) (f : Nat)
variable (ihE : ∀ e, Shift xc.limit (X.eval f xc e))
variable (ihA : ∀ es, Shift xc.limit (X.evalArgs f xc es))
variable (ihC : ∀ p vs, Shift xc.limit (X.callUser f xc p vs))

include ihE ihA ihC in
theorem shift_eval_succ : ∀ e, Shift xc.limit (X.eval (f + 1) xc e) := by
  intro e
  have hsys : ∀ (args : List X.Expr), Shift xc.limit (fun st =>
      (X.evalArgs f xc args st).bind fun vs s =>
        (X.doSyscall 2 vs s).bind fun r s' =>
          match r with
          | some w => Res.ok (Val.int w) s'
          | none => Res.undef "system call has no value") := by
    intro args
    refine (ihA args).bind (fun vs => (Shift.doSyscall _ 2 vs).bind (fun r => ?_))
    cases r with
    | some w => exact Shift.ok _ _
    | none => exact Shift.undef _ _
  cases e with
  | num v =>
    have : X.eval (f + 1) xc (.num v) = fun st0 => match X.tick xc st0 with
        | none => .undef "out of fuel (run length)" | some st => Res.ok (.int v) st := by
      funext st0; (conv => lhs; unfold X.eval); cases X.tick xc st0 <;> rfl
    rw [this]; exact Shift.tick _ (Shift.ok _ _)
  | bool b =>
    have : X.eval (f + 1) xc (.bool b) = fun st0 => match X.tick xc st0 with
        | none => .undef "out of fuel (run length)" | some st => Res.ok (.int (X.b2w b)) st := by
      funext st0; (conv => lhs; unfold X.eval); cases X.tick xc st0 <;> rfl
    rw [this]; exact Shift.tick _ (Shift.ok _ _)
  | str bs =>
    have : X.eval (f + 1) xc (.str bs) = fun st0 => match X.tick xc st0 with
        | none => .undef "out of fuel (run length)"
        | some st => (X.liftE (X.packString bs) st).bind fun ws s => .ok (.arr (.lit ws)) s := by
      funext st0; (conv => lhs; unfold X.eval); cases X.tick xc st0 <;> rfl
    rw [this]
    exact Shift.tick _ ((Shift.liftE (g := fun _ => X.packString bs) (fun _ _ _ => rfl)).bind (fun ws => Shift.ok _ _))
  | name n =>
    have : X.eval (f + 1) xc (.name n) = fun st0 => match X.tick xc st0 with
        | none => .undef "out of fuel (run length)" | some st => X.liftE (X.readName xc st n) st := by
      funext st0; (conv => lhs; unfold X.eval); cases X.tick xc st0 <;> rfl
    rw [this]
    exact Shift.tick _ (Shift.liftE (fun s s' h => readName_sim xc n s s' h))
  | sub n i =>
    have : X.eval (f + 1) xc (.sub n i) = fun st0 => match X.tick xc st0 with
        | none => .undef "out of fuel (run length)"
        | some st => (X.asInt "subscript" (X.eval f xc i st)).bind fun iv s =>
            X.liftE (do let r ← X.arrayOf xc s n; let w ← X.arrGet s r iv; pure (Val.int w)) s := by
      funext st0; (conv => lhs; unfold X.eval); cases X.tick xc st0 <;> rfl
    rw [this]
    refine Shift.tick _ ((Shift.asInt _ (ihE i)).bind (fun iv => Shift.liftE (fun s s' h => ?_)))
    rw [arrayOf_sim xc n s s' h]
    cases X.arrayOf xc s' n with
    | error w => rfl
    | ok r => simp only [bind, Except.bind]; rw [arrGet_sim r iv s s' h]
  | un op a =>
    cases op with
    | neg =>
      have : X.eval (f + 1) xc (.un .neg a) = fun st0 => match X.tick xc st0 with
          | none => .undef "out of fuel (run length)"
          | some st => (X.asInt "operand of -" (X.eval f xc a st)).bind fun w s => X.liftE ((X.neg w).map Val.int) s := by
        funext st0; (conv => lhs; unfold X.eval); cases X.tick xc st0 <;> rfl
      rw [this]
      exact Shift.tick _ ((Shift.asInt _ (ihE a)).bind (fun w => Shift.liftE (g := fun _ => (X.neg w).map Val.int) (fun _ _ _ => rfl)))
    | not =>
      have : X.eval (f + 1) xc (.un .not a) = fun st0 => match X.tick xc st0 with
          | none => .undef "out of fuel (run length)"
          | some st => (X.asBool "operand of ~" (X.eval f xc a st)).bind fun w s => .ok (.int (X.b2w (w == 0))) s := by
        funext st0; (conv => lhs; unfold X.eval); cases X.tick xc st0 <;> rfl
      rw [this]
      exact Shift.tick _ ((Shift.asBool _ (ihE a)).bind (fun w => Shift.ok _ _))
  | bin op l r =>
    have hgen : ∀ op, Shift xc.limit (fun st =>
        if !X.orderOk xc st [l, r] then (Res.undef "evaluation order of operands matters (impure call)" : Res Val)
        else (X.asInt "operand" (X.eval f xc l st)).bind fun a s =>
          (X.asInt "operand" (X.eval f xc r s)).bind fun b s' => X.liftE ((X.arith op a b).map Val.int) s') := by
      intro op
      refine Shift.ite (c := fun st => !X.orderOk xc st [l, r]) (fun s s' h => by rw [orderOk_sim xc _ s s' h])
        (Shift.undef _ _) ?_
      exact (Shift.asInt _ (ihE l)).bind (fun a => (Shift.asInt _ (ihE r)).bind (fun b =>
        Shift.liftE (g := fun _ => (X.arith op a b).map Val.int) (fun _ _ _ => rfl)))
    have hop : ∀ op, op ≠ BinOp.and → op ≠ BinOp.or → X.eval (f + 1) xc (.bin op l r) = fun st0 => match X.tick xc st0 with
        | none => .undef "out of fuel (run length)"
        | some st =>
          if !X.orderOk xc st [l, r] then (Res.undef "evaluation order of operands matters (impure call)" : Res Val)
          else (X.asInt "operand" (X.eval f xc l st)).bind fun a s =>
            (X.asInt "operand" (X.eval f xc r s)).bind fun b s' => X.liftE ((X.arith op a b).map Val.int) s' := by
      intro op h1 h2
      funext st0
      conv => lhs; unfold X.eval
      cases X.tick xc st0 <;> cases op <;> first | rfl | exact absurd rfl h1 | exact absurd rfl h2
    cases op with
    | and =>
      have : X.eval (f + 1) xc (.bin .and l r) = fun st0 => match X.tick xc st0 with
          | none => .undef "out of fuel (run length)"
          | some st => (X.asBool "operand of and" (X.eval f xc l st)).bind fun a s =>
              if a == 0 then .ok (.int 0) s
              else (X.asBool "operand of and" (X.eval f xc r s)).bind fun b s' => .ok (.int b) s' := by
        funext st0; (conv => lhs; unfold X.eval); cases X.tick xc st0 <;> rfl
      rw [this]
      refine Shift.tick _ ((Shift.asBool _ (ihE l)).bind (fun a => ?_))
      by_cases ha : (a == 0) = true
      · simp only [ha, if_true]; exact Shift.ok _ _
      · simp only [ha]; exact (Shift.asBool _ (ihE r)).bind (fun b => Shift.ok _ _)
    | or =>
      have : X.eval (f + 1) xc (.bin .or l r) = fun st0 => match X.tick xc st0 with
          | none => .undef "out of fuel (run length)"
          | some st => (X.asBool "operand of or" (X.eval f xc l st)).bind fun a s =>
              if a == 1 then .ok (.int 1) s
              else (X.asBool "operand of or" (X.eval f xc r s)).bind fun b s' => .ok (.int b) s' := by
        funext st0; (conv => lhs; unfold X.eval); cases X.tick xc st0 <;> rfl
      rw [this]
      refine Shift.tick _ ((Shift.asBool _ (ihE l)).bind (fun a => ?_))
      by_cases ha : (a == 1) = true
      · simp only [ha, if_true]; exact Shift.ok _ _
      · simp only [ha]; exact (Shift.asBool _ (ihE r)).bind (fun b => Shift.ok _ _)
    | plus => rw [hop .plus (by intro h; cases h) (by intro h; cases h)]; exact Shift.tick _ (hgen .plus)
    | minus => rw [hop .minus (by intro h; cases h) (by intro h; cases h)]; exact Shift.tick _ (hgen .minus)
    | eq => rw [hop .eq (by intro h; cases h) (by intro h; cases h)]; exact Shift.tick _ (hgen .eq)
    | ne => rw [hop .ne (by intro h; cases h) (by intro h; cases h)]; exact Shift.tick _ (hgen .ne)
    | ls => rw [hop .ls (by intro h; cases h) (by intro h; cases h)]; exact Shift.tick _ (hgen .ls)
    | le => rw [hop .le (by intro h; cases h) (by intro h; cases h)]; exact Shift.tick _ (hgen .le)
    | gr => rw [hop .gr (by intro h; cases h) (by intro h; cases h)]; exact Shift.tick _ (hgen .gr)
    | ge => rw [hop .ge (by intro h; cases h) (by intro h; cases h)]; exact Shift.tick _ (hgen .ge)
  | syscall id args =>
    have : X.eval (f + 1) xc (.syscall id args) = fun st0 => match X.tick xc st0 with
        | none => .undef "out of fuel (run length)"
        | some st =>
          if id != 2 then .undef "value of system call 0/1 (or invalid system call) used as an operand"
          else if !X.orderOk xc st args then .undef "evaluation order of actuals matters (impure call)"
          else (X.evalArgs f xc args st).bind fun vs s =>
            (X.doSyscall 2 vs s).bind fun r s' =>
              match r with
              | some w => .ok (.int w) s'
              | none => .undef "system call has no value" := by
      funext st0; (conv => lhs; unfold X.eval); cases X.tick xc st0 <;> rfl
    rw [this]
    refine Shift.tick _ ?_
    by_cases hid : (id != 2) = true
    · simp only [hid, if_true]; exact Shift.undef _ _
    · simp only [hid]
      exact Shift.ite (c := fun st => !X.orderOk xc st args) (fun s s' h => by rw [orderOk_sim xc _ s s' h])
        (Shift.undef _ _) (hsys args)
  | call g args =>
    have : X.eval (f + 1) xc (.call g args) = fun st0 => match X.tick xc st0 with
        | none => .undef "out of fuel (run length)"
        | some st =>
          if !X.orderOk xc st args then .undef "evaluation order of actuals matters (impure call)"
          else
            match X.resolveCallee xc st g with
            | .bad why => .undef why
            | .sys id =>
              if id != 2 then .undef "value of system call 0/1 (or invalid system call) used as an operand"
              else
                (X.evalArgs f xc args st).bind fun vs s =>
                  (X.doSyscall 2 vs s).bind fun r s' =>
                    match r with
                    | some w => .ok (.int w) s'
                    | none => .undef "system call has no value"
            | .user p =>
              if !p.isFunc then .undef s!"value of procedure {g} used as an operand"
              else
                (X.evalArgs f xc args st).bind fun vs s =>
                  (X.callUser f xc p vs s).bind fun r s' =>
                    match r with
                    | some w => .ok (.int w) s'
                    | none => .undef "function produced no value" := by
      funext st0; (conv => lhs; unfold X.eval); cases X.tick xc st0 <;> rfl
    rw [this]
    refine Shift.tick _ (Shift.ite (c := fun st => !X.orderOk xc st args) (fun s s' h => by rw [orderOk_sim xc _ s s' h])
      (Shift.undef _ _) ?_)
    intro σ1 σ2 hs
    simp only
    rw [← resolveCallee_sim xc g σ1 σ2 hs]
    cases X.resolveCallee xc σ1 g with
    | bad why => exact Shift.undef _ _ σ1 σ2 hs
    | sys id =>
      simp only
      by_cases hid : (id != 2) = true
      · simp only [hid, if_true]; exact Shift.undef _ _ σ1 σ2 hs
      · simp only [hid]; exact hsys args σ1 σ2 hs
    | user p =>
      simp only
      by_cases hf : (!p.isFunc) = true
      · simp only [hf, if_true]; exact Shift.undef _ _ σ1 σ2 hs
      · simp only [hf]
        refine ((ihA args).bind (fun vs => (ihC p vs).bind (fun r => ?_))) σ1 σ2 hs
        cases r with
        | some w => exact Shift.ok _ _
        | none => exact Shift.undef _ _

end

section
variable (xc : X.Ctx) (f : Nat)
variable (ihE : ∀ e, Shift xc.limit (X.eval f xc e))
variable (ihA : ∀ es, Shift xc.limit (X.evalArgs f xc es))
variable (ihC : ∀ p vs, Shift xc.limit (X.callUser f xc p vs))
variable (ihS : ∀ s, Shift xc.limit (X.exec f xc s))
variable (ihL : ∀ ss, Shift xc.limit (X.execSeq f xc ss))

include ihE ihA in
theorem shift_evalArgs_succ : ∀ es, Shift xc.limit (X.evalArgs (f + 1) xc es) := by
  intro es
  cases es with
  | nil =>
    have : X.evalArgs (f + 1) xc [] = fun st => Res.ok [] st := by
      funext st; conv => lhs; unfold X.evalArgs
    rw [this]; exact Shift.ok _ _
  | cons e es =>
    have : X.evalArgs (f + 1) xc (e :: es) = fun st =>
        (X.eval f xc e st).bind fun v s => (X.evalArgs f xc es s).bind fun vs s' => .ok (v :: vs) s' := by
      funext st; conv => lhs; unfold X.evalArgs
    rw [this]
    exact (ihE e).bind (fun v => (ihA es).bind (fun vs => Shift.ok _ _))

include ihS in
theorem shift_callUser_succ : ∀ p vs, Shift xc.limit (X.callUser (f + 1) xc p vs) := by
  intro p vs σ1 σ2 hs
  have hd : σ1.depth = σ2.depth := hs.2.2.2.2
  have hcu : ∀ σ, X.callUser (f + 1) xc p vs σ =
      if σ.depth ≥ X.maxDepth then .undef "stack budget exceeded (call depth)"
      else
        match X.bindFormals p.formals vs with
        | .error w => .undef w
        | .ok fb =>
          match X.bindLocals ((X.globalVals xc.genv).filter fun kv => !(fb.map (·.1)).contains kv.1) p.locals with
          | .error w => .undef w
          | .ok lb =>
            (X.exec f xc p.body { σ with locals := fb ++ lb, depth := σ.depth + 1, calls := p.name :: σ.calls }).bind fun fl s =>
              match fl, p.isFunc with
              | .normal, false => .ok none { s with locals := σ.locals, depth := σ.depth }
              | .ret w, true => .ok (some w) { s with locals := σ.locals, depth := σ.depth }
              | .normal, true => .undef s!"function {p.name} finished without return"
              | .ret _, false => .undef s!"return in procedure {p.name}" := by
    intro σ; conv => lhs; unfold X.callUser
    rfl
  rw [hcu σ1, hcu σ2, ← hd]
  by_cases hdep : σ1.depth ≥ X.maxDepth
  · simp only [hdep, if_true]; exact Shift.undef _ _ σ1 σ2 hs
  simp only [hdep, if_false]
  cases X.bindFormals p.formals vs with
  | error w => exact Shift.undef _ _ σ1 σ2 hs
  | ok fb =>
    simp only
    cases X.bindLocals ((X.globalVals xc.genv).filter fun kv => !(fb.map (·.1)).contains kv.1) p.locals with
    | error w => exact Shift.undef _ _ σ1 σ2 hs
    | ok lb =>
      simp only
      have hs1 : Sim { σ1 with locals := fb ++ lb, depth := σ1.depth + 1, calls := p.name :: σ1.calls }
          { σ2 with locals := fb ++ lb, depth := σ1.depth + 1, calls := p.name :: σ2.calls } :=
        ⟨hs.1, hs.2.1, rfl, hs.2.2.2.1, rfl⟩
      obtain ⟨hbo, hbe⟩ := ihS p.body _ _ hs1
      constructor
      · intro r t1 h
        cases hx : X.exec f xc p.body { σ1 with locals := fb ++ lb, depth := σ1.depth + 1, calls := p.name :: σ1.calls } with
        | undef w => rw [hx] at h; simp [Res.bind] at h
        | exit c s => rw [hx] at h; simp [Res.bind] at h
        | ok fl s1 =>
          rw [hx] at h
          simp only [Res.bind] at h
          obtain ⟨hm, hbd, hk⟩ := hbo fl s1 hx
          have hfin : ∀ (t : X.St), (r, t1) = (r, t) → True := fun _ _ => trivial
          -- the four combinations of flow and kind
          cases fl with
          | normal =>
            cases hf : p.isFunc with
            | true => rw [hf] at h; simp at h
            | false =>
              rw [hf] at h
              simp only [Res.ok.injEq] at h
              obtain ⟨rfl, rfl⟩ := h
              refine ⟨hm, hbd, fun hb => ?_⟩
              obtain ⟨s2, e2, hs2, hst2⟩ := hk hb
              refine ⟨{ s2 with locals := σ2.locals, depth := σ1.depth }, ?_, ?_, hst2⟩
              · rw [e2]; simp only [Res.bind, hf]
              · exact ⟨hs2.1, hs2.2.1, hs.2.2.1, hs2.2.2.2.1, rfl⟩
          | ret w =>
            cases hf : p.isFunc with
            | false => rw [hf] at h; simp at h
            | true =>
              rw [hf] at h
              simp only [Res.ok.injEq] at h
              obtain ⟨rfl, rfl⟩ := h
              refine ⟨hm, hbd, fun hb => ?_⟩
              obtain ⟨s2, e2, hs2, hst2⟩ := hk hb
              refine ⟨{ s2 with locals := σ2.locals, depth := σ1.depth }, ?_, ?_, hst2⟩
              · rw [e2]; simp only [Res.bind, hf]
              · exact ⟨hs2.1, hs2.2.1, hs.2.2.1, hs2.2.2.2.1, rfl⟩
      · intro c t1 h
        cases hx : X.exec f xc p.body { σ1 with locals := fb ++ lb, depth := σ1.depth + 1, calls := p.name :: σ1.calls } with
        | undef w => rw [hx] at h; simp [Res.bind] at h
        | ok fl s1 =>
          rw [hx] at h
          simp only [Res.bind] at h
          cases fl <;> cases hf : p.isFunc <;> rw [hf] at h <;> simp at h
        | exit c' s =>
          rw [hx] at h
          simp only [Res.bind, Res.exit.injEq] at h
          obtain ⟨rfl, rfl⟩ := h
          obtain ⟨hm, hbd, hk⟩ := hbe c' s hx
          refine ⟨hm, hbd, fun hb => ?_⟩
          obtain ⟨s2, e2, hs2, hst2⟩ := hk hb
          exact ⟨s2, by rw [e2]; simp only [Res.bind], hs2, hst2⟩

end

theorem writeName_sim (xc : X.Ctx) (n : String) (w : Word) (s s' : X.St) (h : Sim s s') :
    (∃ e, X.writeName xc s n w = .error e ∧ X.writeName xc s' n w = .error e) ∨
    (∃ t t', X.writeName xc s n w = .ok t ∧ X.writeName xc s' n w = .ok t' ∧ Sim t t' ∧ t.steps = s.steps ∧ t'.steps = s'.steps) := by
  unfold X.writeName
  rw [← h.2.2.1]
  cases s.locals.lookup n with
  | some b =>
    cases b with
    | var o =>
      refine Or.inr ⟨_, _, rfl, rfl, ?_, rfl, rfl⟩
      exact ⟨h.1, h.2.1, rfl, h.2.2.2.1, h.2.2.2.2⟩
    | val v => exact Or.inl ⟨_, rfl, rfl⟩
    | valF v => exact Or.inl ⟨_, rfl, rfl⟩
    | arrF r => exact Or.inl ⟨_, rfl, rfl⟩
  | none =>
    simp only
    cases xc.genv.lookup n with
    | none => exact Or.inl ⟨_, rfl, rfl⟩
    | some g =>
      cases g with
      | var =>
        refine Or.inr ⟨_, _, rfl, rfl, ?_, rfl, rfl⟩
        exact ⟨by simp only; rw [h.1], h.2.1, rfl, h.2.2.2.1, h.2.2.2.2⟩
      | val v => exact Or.inl ⟨_, rfl, rfl⟩
      | array id => exact Or.inl ⟨_, rfl, rfl⟩
      | proc p => exact Or.inl ⟨_, rfl, rfl⟩

theorem arrSet_sim (r : ArrRef) (i v : Word) (s s' : X.St) (h : Sim s s') :
    (∃ e, X.arrSet s r i v = .error e ∧ X.arrSet s' r i v = .error e) ∨
    (∃ t t', X.arrSet s r i v = .ok t ∧ X.arrSet s' r i v = .ok t' ∧ Sim t t' ∧ t.steps = s.steps ∧ t'.steps = s'.steps) := by
  unfold X.arrSet
  rw [← h.2.1]
  cases r with
  | lit ws => exact Or.inl ⟨_, rfl, rfl⟩
  | glob id =>
    simp only
    cases s.arrays[id]? with
    | none => exact Or.inl ⟨_, rfl, rfl⟩
    | some cells =>
      simp only
      split
      · refine Or.inr ⟨_, _, rfl, rfl, ?_, rfl, rfl⟩
        exact ⟨h.1, rfl, h.2.2.1, h.2.2.2.1, h.2.2.2.2⟩
      · exact Or.inl ⟨_, rfl, rfl⟩

section
variable (xc : X.Ctx) (f : Nat)
variable (ihE : ∀ e, Shift xc.limit (X.eval f xc e))
variable (ihA : ∀ es, Shift xc.limit (X.evalArgs f xc es))
variable (ihC : ∀ p vs, Shift xc.limit (X.callUser f xc p vs))
variable (ihS : ∀ s, Shift xc.limit (X.exec f xc s))
variable (ihL : ∀ ss, Shift xc.limit (X.execSeq f xc ss))

include ihS ihL in
theorem shift_execSeq_succ : ∀ ss, Shift xc.limit (X.execSeq (f + 1) xc ss) := by
  intro ss
  cases ss with
  | nil =>
    have : X.execSeq (f + 1) xc [] = fun st => Res.ok .normal st := by
      funext st; conv => lhs; unfold X.execSeq
    rw [this]; exact Shift.ok _ _
  | cons s ss =>
    have : X.execSeq (f + 1) xc (s :: ss) = fun st =>
        (X.exec f xc s st).bind fun fl s' =>
          match fl with
          | .ret w => if ss.isEmpty then .ok (.ret w) s' else .undef "return is not the final process of its function"
          | .normal => X.execSeq f xc ss s' := by
      funext st; conv => lhs; unfold X.execSeq
      cases X.exec f xc s st with
      | undef w => rfl
      | exit c s' => rfl
      | ok fl s' => cases fl <;> rfl
    rw [this]
    refine (ihS s).bind (fun fl => ?_)
    cases fl with
    | normal => exact ihL ss
    | ret w =>
      simp only
      by_cases he : ss.isEmpty = true
      · simp only [he, if_true]; exact Shift.ok _ _
      · simp only [he]; exact Shift.undef _ _

include ihE ihA ihC ihS ihL in
theorem shift_exec_succ : ∀ s, Shift xc.limit (X.exec (f + 1) xc s) := by
  intro s
  cases s with
  | skip =>
    have : X.exec (f + 1) xc .skip = fun st0 => match X.tick xc st0 with
        | none => .undef "out of fuel (run length)" | some st => Res.ok .normal st := by
      funext st0; (conv => lhs; unfold X.exec); cases X.tick xc st0 <;> rfl
    rw [this]; exact Shift.tick _ (Shift.ok _ _)
  | stop =>
    have : X.exec (f + 1) xc .stop = fun st0 => match X.tick xc st0 with
        | none => .undef "out of fuel (run length)" | some st => Res.exit 0 st := by
      funext st0; (conv => lhs; unfold X.exec); cases X.tick xc st0 <;> rfl
    rw [this]; exact Shift.tick _ (Shift.exit _ _)
  | ret e =>
    have : X.exec (f + 1) xc (.ret e) = fun st0 => match X.tick xc st0 with
        | none => .undef "out of fuel (run length)"
        | some st => (X.asInt "returned value" (X.eval f xc e st)).bind fun w s => .ok (.ret w) s := by
      funext st0; (conv => lhs; unfold X.exec); cases X.tick xc st0 <;> rfl
    rw [this]; exact Shift.tick _ ((Shift.asInt _ (ihE e)).bind (fun w => Shift.ok _ _))
  | ite c t e =>
    have : X.exec (f + 1) xc (.ite c t e) = fun st0 => match X.tick xc st0 with
        | none => .undef "out of fuel (run length)"
        | some st => (X.asBool "condition of if" (X.eval f xc c st)).bind fun w s =>
            if w == 1 then X.exec f xc t s else X.exec f xc e s := by
      funext st0; (conv => lhs; unfold X.exec); cases X.tick xc st0 <;> rfl
    rw [this]
    refine Shift.tick _ ((Shift.asBool _ (ihE c)).bind (fun w => ?_))
    by_cases hw : (w == 1) = true
    · simp only [hw, if_true]; exact ihS t
    · simp only [hw]; exact ihS e
  | «while» c b =>
    have : X.exec (f + 1) xc (.while c b) = fun st0 => match X.tick xc st0 with
        | none => .undef "out of fuel (run length)"
        | some st => (X.asBool "condition of while" (X.eval f xc c st)).bind fun w s =>
            if w == 0 then .ok .normal s
            else (X.exec f xc b s).bind fun fl s' =>
              match fl with
              | .ret _ => .undef "return inside a loop is not the final process of its function"
              | .normal => X.exec f xc (.while c b) s' := by
      funext st0; (conv => lhs; unfold X.exec)
      cases X.tick xc st0 with
      | none => rfl
      | some st =>
        simp only
        cases X.asBool "condition of while" (X.eval f xc c st) with
        | undef w => rfl
        | exit cd s => rfl
        | ok w s =>
          simp only [Res.bind]
          by_cases hw : (w == 0) = true
          · simp only [hw, if_true]
          · simp only [hw]
            cases X.exec f xc b s with
            | undef w => rfl
            | exit cd s' => rfl
            | ok fl s' => cases fl <;> rfl
    rw [this]
    refine Shift.tick _ ((Shift.asBool _ (ihE c)).bind (fun w => ?_))
    by_cases hw : (w == 0) = true
    · simp only [hw, if_true]; exact Shift.ok _ _
    · simp only [hw]
      refine (ihS b).bind (fun fl => ?_)
      cases fl with
      | normal => exact ihS (.while c b)
      | ret w => exact Shift.undef _ _
  | seq ss =>
    have : X.exec (f + 1) xc (.seq ss) = fun st0 => match X.tick xc st0 with
        | none => .undef "out of fuel (run length)" | some st => X.execSeq f xc ss st := by
      funext st0; (conv => lhs; unfold X.exec); cases X.tick xc st0 <;> rfl
    rw [this]; exact Shift.tick _ (ihL ss)
  | assign n e =>
    have : X.exec (f + 1) xc (.assign n e) = fun st0 => match X.tick xc st0 with
        | none => .undef "out of fuel (run length)"
        | some st => (X.asInt "assigned value" (X.eval f xc e st)).bind fun w s =>
            match X.writeName xc s n w with
            | .ok t => Res.ok .normal t
            | .error er => Res.undef er := by
      funext st0; (conv => lhs; unfold X.exec)
      cases X.tick xc st0 with
      | none => rfl
      | some st =>
        simp only
        congr
        funext w s
        cases X.writeName xc s n w <;> rfl
    rw [this]
    exact Shift.tick _ ((Shift.asInt _ (ihE e)).bind (fun w =>
      Shift.update (g := fun s => X.writeName xc s n w) (fun s s' h => writeName_sim xc n w s s' h) _))
  | assignSub n i e =>
    have : X.exec (f + 1) xc (.assignSub n i e) = fun st0 => match X.tick xc st0 with
        | none => .undef "out of fuel (run length)"
        | some st =>
          if !X.orderOk xc st [i, e] then .undef "evaluation order of subscript and value matters (impure call)"
          else
            (X.asInt "subscript" (X.eval f xc i st)).bind fun iv s =>
              (X.asInt "assigned value" (X.eval f xc e s)).bind fun w s' =>
                match (do let r ← X.arrayOf xc s' n; X.arrSet s' r iv w) with
                | .ok s'' => .ok .normal s''
                | .error why => .undef why := by
      funext st0; (conv => lhs; unfold X.exec); cases X.tick xc st0 <;> rfl
    rw [this]
    refine Shift.tick _ (Shift.ite (c := fun st => !X.orderOk xc st [i, e]) (fun s s' h => by rw [orderOk_sim xc _ s s' h])
      (Shift.undef _ _) ?_)
    refine (Shift.asInt _ (ihE i)).bind (fun iv => (Shift.asInt _ (ihE e)).bind (fun w => ?_))
    refine Shift.update (g := fun s' => do let r ← X.arrayOf xc s' n; X.arrSet s' r iv w) (fun s s' h => ?_) _
    rw [arrayOf_sim xc n s s' h]
    cases X.arrayOf xc s' n with
    | error er => exact Or.inl ⟨_, rfl, rfl⟩
    | ok r => simp only [bind, Except.bind]; exact arrSet_sim r iv w s s' h
  | syscall id args =>
    have : X.exec (f + 1) xc (.syscall id args) = fun st0 => match X.tick xc st0 with
        | none => .undef "out of fuel (run length)"
        | some st =>
          if !X.orderOk xc st args then .undef "evaluation order of actuals matters (impure call)"
          else (X.evalArgs f xc args st).bind fun vs s =>
            (X.doSyscall (BitVec.ofNat 32 id) vs s).bind fun _ s' => .ok .normal s' := by
      funext st0; (conv => lhs; unfold X.exec); cases X.tick xc st0 <;> rfl
    rw [this]
    exact Shift.tick _ (Shift.ite (c := fun st => !X.orderOk xc st args) (fun s s' h => by rw [orderOk_sim xc _ s s' h])
      (Shift.undef _ _) ((ihA args).bind (fun vs => (Shift.doSyscall _ _ vs).bind (fun _ => Shift.ok _ _))))
  | call g args =>
    have : X.exec (f + 1) xc (.call g args) = fun st0 => match X.tick xc st0 with
        | none => .undef "out of fuel (run length)"
        | some st =>
          if !X.orderOk xc st args then .undef "evaluation order of actuals matters (impure call)"
          else
            match X.resolveCallee xc st g with
            | .bad why => .undef why
            | .sys id =>
              (X.evalArgs f xc args st).bind fun vs s =>
                (X.doSyscall id vs s).bind fun _ s' => .ok .normal s'
            | .user p =>
              if p.isFunc then .undef s!"function {g} used as a statement"
              else
                (X.evalArgs f xc args st).bind fun vs s =>
                  (X.callUser f xc p vs s).bind fun _ s' => .ok .normal s' := by
      funext st0; (conv => lhs; unfold X.exec); cases X.tick xc st0 <;> rfl
    rw [this]
    refine Shift.tick _ (Shift.ite (c := fun st => !X.orderOk xc st args) (fun s s' h => by rw [orderOk_sim xc _ s s' h])
      (Shift.undef _ _) ?_)
    intro σ1 σ2 hs
    simp only
    rw [← resolveCallee_sim xc g σ1 σ2 hs]
    cases X.resolveCallee xc σ1 g with
    | bad why => exact Shift.undef _ _ σ1 σ2 hs
    | sys id =>
      exact ((ihA args).bind (fun vs => (Shift.doSyscall _ id vs).bind (fun _ => Shift.ok _ _))) σ1 σ2 hs
    | user p =>
      simp only
      by_cases hf : p.isFunc = true
      · simp only [hf, if_true]; exact Shift.undef _ _ σ1 σ2 hs
      · simp only [hf]
        exact ((ihA args).bind (fun vs => (ihC p vs).bind (fun _ => Shift.ok _ _))) σ1 σ2 hs

end

/-- **The shift lemma** for the whole interpreter. -/
theorem shift_all (xc : X.Ctx) : ∀ fuel,
    (∀ e, Shift xc.limit (X.eval fuel xc e)) ∧ (∀ es, Shift xc.limit (X.evalArgs fuel xc es)) ∧
    (∀ p vs, Shift xc.limit (X.callUser fuel xc p vs)) ∧ (∀ s, Shift xc.limit (X.exec fuel xc s)) ∧
    (∀ ss, Shift xc.limit (X.execSeq fuel xc ss)) := by
  intro fuel
  induction fuel with
  | zero =>
    refine ⟨fun e => ?_, fun es => ?_, fun p vs => ?_, fun s => ?_, fun ss => ?_⟩
    · have : X.eval 0 xc e = fun _ => Res.undef "out of fuel" := by funext st; unfold X.eval; rfl
      rw [this]; exact Shift.undef _ _
    · have : X.evalArgs 0 xc es = fun _ => Res.undef "out of fuel" := by funext st; unfold X.evalArgs; rfl
      rw [this]; exact Shift.undef _ _
    · have : X.callUser 0 xc p vs = fun _ => Res.undef "out of fuel" := by funext st; unfold X.callUser; rfl
      rw [this]; exact Shift.undef _ _
    · have : X.exec 0 xc s = fun _ => Res.undef "out of fuel" := by funext st; unfold X.exec; rfl
      rw [this]; exact Shift.undef _ _
    · have : X.execSeq 0 xc ss = fun _ => Res.undef "out of fuel" := by funext st; unfold X.execSeq; rfl
      rw [this]; exact Shift.undef _ _
  | succ f ih =>
    obtain ⟨ihE, ihA, ihC, ihS, ihL⟩ := ih
    exact ⟨shift_eval_succ xc f ihE ihA ihC, shift_evalArgs_succ xc f ihE ihA, shift_callUser_succ xc f ihS,
      shift_exec_succ xc f ihE ihA ihC ihS ihL, shift_execSeq_succ xc f ihS ihL⟩

end Hex.C01s
