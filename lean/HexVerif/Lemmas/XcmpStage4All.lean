import HexVerif.Lemmas.XcmpIExpr
/-!
  Stage (4), the induction on the fuel: statement triples of every procedure in every activation,
  and the specification of every callee.
-/
namespace Hex.C01s
open Hex Hex.X Hex.Xcmp Hex.IAm Hex.Asm

/-! ### The induction -/

def StmtLSpec (G : GCtx) (fuel : Nat) : Prop :=
  ∀ pi ∈ G.procs, ∀ sp dep hi, G.lo ≤ sp → sp + G.S pi + pi.po + pi.p.formals.length ≤ G.spv + 1 → G.spv ≤ sp + dep * G.smax →
    ∀ ss σ, okS5L G.pk G.pnames G.xc.impure G.rho (G.isLoc pi) ss = true →
      ExecSL (KOf G pi sp dep hi) (G.iEpi pi) (optStmts (annotSL G.rho ss)) σ (X.execSeq fuel G.xc ss σ)

theorem callSpec_zero (G : GCtx) : CallSpec G 0 := by
  intro pi _ ws st lnk b mem spc k kind n _ _ _ _ _ _ _ _
  rw [callUser_zero]; trivial

/-- **Stage (4).**  For every fuel: the statement triples of every procedure in every activation
    within the stack budget, and the specification of every callee. -/
theorem all_correct {G : GCtx} (ok : G.OK) : ∀ fuel, StmtSpec G fuel ∧ StmtLSpec G fuel ∧ CallSpec G fuel := by
  intro fuel
  induction fuel using Nat.strongRecOn with
  | _ fuel ih =>
    cases fuel with
    | zero =>
      refine ⟨?_, ?_, callSpec_zero G⟩
      · intro pi _ sp dep hi _ _ _ s σ _ gs code gs' i a b mem _ _ _ _ _ _
        unfold X.exec; trivial
      · intro pi _ sp dep hi _ _ _ ss σ _ gs code gs' i a b mem _ _ _ _ _ _
        unfold X.execSeq; trivial
    | succ F =>
      obtain ⟨ihS, ihL, ihC⟩ := ih F (Nat.lt_succ_self _)
      have hcsF : ∀ k, k < F → CallSpec G k := fun k hk => (ih k (Nat.lt_succ_of_lt hk)).2.2
      have hcsF1 : ∀ k, k < F + 1 → CallSpec G k := fun k hk => (ih k hk).2.2
      refine ⟨?_, ?_, callee_correct ok F ihS⟩
      · intro pi hpi sp dep hi hlo hspv hstack s σ hok
        have wf := ok.wfs pi hpi sp dep hi hlo hspv
        have ihS' := ihS pi hpi sp dep hi hlo hspv hstack
        cases s with
        | skip => exact execS_skip _ _ wf _ σ
        | stop => exact execS_stop _ _ wf _ σ
        | ret e =>
          simp only [okS5, rhs5, Bool.or_eq_true, Bool.and_eq_true] at hok
          have : optStmt (annotS G.rho (.ret e)) = .ret (optExpr (annotate G.rho e)) := by
            simp [annotS, optStmt]
          rw [this]
          rcases hok with ((hpure | hcall) | ⟨hpk, hpp⟩) | hip
          rotate_left 3
          · apply execS_retE (KOf G pi sp dep hi) _ wf F e _ σ
            intro st _
            exact (expr_ip_correct ok hpi sp dep hi hlo hspv hstack F hcsF e F (Nat.le_refl _) st hip).toE
          rotate_left 2
          · apply execS_retE (KOf G pi sp dep hi) _ wf F e _ σ
            intro st _
            exact execE_pp ok (ok.pure_ok hpk) hpi sp dep hi hlo hspv hstack F hcsF e hpp st
          · exact execS_ret (KOf G pi sp dep hi) _ wf _ e σ hpure
          · obtain ⟨g, args, rfl, hg, hargs⟩ := callE5_inv _ _ _ _ _ hcall
            apply execS_retE (KOf G pi sp dep hi) _ wf F (.call g args) _ σ
            intro st _ gs code gs' i a b mem hgen hat hr hsz hnl hci
            exact exec_callExpr ok F hcsF hpi sp dep hi hlo hspv hstack g args hg
              (argsOK_5 ok hpi sp dep hi hlo hspv hstack F hcsF args hargs) st gs code gs' i a b mem
              hgen hat hr hsz hnl hci
        | assign n e =>
          simp only [okS5, rhs5, Bool.or_eq_true, Bool.and_eq_true] at hok
          have : optStmt (annotS G.rho (.assign n e)) = .assign n (optExpr (annotate G.rho e)) := by
            simp [annotS, optStmt]
          rw [this]
          rcases hok with ((hpure | hcall) | ⟨hpk, hpp⟩) | hip
          rotate_left 3
          · apply execS_assignE (KOf G pi sp dep hi) _ wf F n e _ σ
            intro st _
            exact (expr_ip_correct ok hpi sp dep hi hlo hspv hstack F hcsF e F (Nat.le_refl _) st hip).toE
          rotate_left 2
          · apply execS_assignE (KOf G pi sp dep hi) _ wf F n e _ σ
            intro st _
            exact execE_pp ok (ok.pure_ok hpk) hpi sp dep hi hlo hspv hstack F hcsF e hpp st
          · exact execS_assign (KOf G pi sp dep hi) _ wf _ n e σ hpure
          · obtain ⟨g, args, rfl, hg, hargs⟩ := callE5_inv _ _ _ _ _ hcall
            apply execS_assignE (KOf G pi sp dep hi) _ wf F n (.call g args) _ σ
            intro st _ gs code gs' i a b mem hgen hat hr hsz hnl hci
            exact exec_callExpr ok F hcsF hpi sp dep hi hlo hspv hstack g args hg
              (argsOK_5 ok hpi sp dep hi hlo hspv hstack F hcsF args hargs) st gs code gs' i a b mem
              hgen hat hr hsz hnl hci
        | ite c t e =>
          simp only [okS5, Bool.and_eq_true] at hok
          exact execS_ite (KOf G pi sp dep hi) _ wf F c t e σ (condOK_5 ok hpi sp dep hi hlo hspv hstack F hcsF c hok.1.1) (fun s => ihS' t s hok.1.2) (fun s => ihS' e s hok.2)
        | «while» c b =>
          simp only [okS5, Bool.and_eq_true] at hok
          exact execS_while (KOf G pi sp dep hi) _ wf F c b σ (condOK_5 ok hpi sp dep hi hlo hspv hstack F hcsF c hok.1) (fun s => ihS' b s hok.2)
            (fun s => ihS' (.while c b) s (by simp [okS5, hok.1, hok.2]))
        | seq ss =>
          simp only [okS5] at hok
          intro gs code gs' i a b mem hg hat hr hsz hnl hci
          rw [optStmt_seq, genStmt_seq] at hg
          cases ht : X.tick G.xc σ with
          | none => unfold X.exec; rw [ht]; trivial
          | some st =>
            rw [exec_seq F G.xc ss σ st ht]
            have hs := tick_same _ _ _ ht
            have := ihL pi hpi sp dep hi hlo hspv hstack ss st hok gs code gs' i a b mem hg hat (hr.same hs) hsz hnl hci
            rw [hs.2.2.2.1] at this
            exact this
        | syscall id args =>
          simp only [okS5, sysArgs5, Bool.and_eq_true, Bool.or_eq_true, decide_eq_true_eq, List.all_eq_true] at hok
          rcases hok.2 with (hp | ⟨hpk, hpp⟩) | hone
          · exact execS_syscall (KOf G pi sp dep hi) _ wf _ id args σ hok.1 hp
          · exact execS_syscall_phase (KOf G pi sp dep hi) _ wf (F + 1) id args σ hok.1
              (fun f hf => actPhase_pp (KOf G pi sp dep hi) wf.toWF G.pnames (ok.pure_ok hpk)
                (fun g hg => ok.pnames_mem g (by simpa using hg)) (fun st mem hr => noLoc_of_rep hr) 2 f
                (fun k hk => callLeaf_of_spec ok (ok.pure_ok hpk) hpi sp dep hi hlo hspv hstack k (fun j hj => hcsF1 j (by omega)))
                args hpp)
          · exact execS_syscall_phase (KOf G pi sp dep hi) _ wf (F + 1) id args σ hok.1
              (fun f hf => sysPhase_5 ok hpi sp dep hi hlo hspv hstack (F + 1) hcsF1 args hone f (by omega))
        | assignSub n i e =>
          simp only [okS5, Bool.and_eq_true, Bool.or_eq_true] at hok
          have : optStmt (annotS G.rho (.assignSub n i e))
              = .assignSub n (optExpr (annotate G.rho i)) (optExpr (annotate G.rho e)) := by
            simp [annotS, optStmt]
          rw [this]
          have hC : ∀ c, cond5 G.pk G.pnames G.xc.impure G.rho c = true → CondOK (KOf G pi sp dep hi) F c :=
            fun c hc => condOK_5 ok hpi sp dep hi hlo hspv hstack F hcsF c hc
          have hps : ∀ g, G.pnames.contains g = true → ∃ p, G.xc.genv.lookup g = some (.proc p) :=
            fun g hg => ok.pnames_mem g (by simpa using hg)
          have hpp5 : ∀ c, (pureE c = true ∨ (G.pk = true ∧ ppE G.pnames G.xc.impure c = true)) →
              cond5 G.pk G.pnames G.xc.impure G.rho c = true ∧
              ∀ (st : X.St) (mem : Mem) (cd : Word) (s : X.St), Rep (KOf G pi sp dep hi) st mem → X.eval F G.xc c st ≠ .exit cd s := by
            intro c hc
            refine ⟨by simp only [cond5, Bool.or_eq_true, Bool.and_eq_true]; exact Or.inl hc, ?_⟩
            rcases hc with hp | ⟨hpk, hpp⟩
            · exact fun st _ cd s _ => eval_pure_no_exit G.xc F c st cd s hp
            · exact fun st _ cd s hr => eval_pp_noexit G.xc G.pnames hps (ok.pure_ok hpk) F c st cd s hpp (noLoc_of_rep hr)
          have hip5 : ∀ c, ipE5 G.pk G.pnames G.xc.impure G.rho c = true → cond5 G.pk G.pnames G.xc.impure G.rho c = true :=
            fun c hc => by simp only [cond5, Bool.or_eq_true, Bool.and_eq_true]; exact Or.inr hc
          have hcl5 : ∀ c, isConstL G.rho c = true → cond5 G.pk G.pnames G.xc.impure G.rho c = true ∧
              ∀ (st : X.St) (mem : Mem) (cd : Word) (s : X.St), Rep (KOf G pi sp dep hi) st mem → X.eval F G.xc c st ≠ .exit cd s :=
            fun c hc => hpp5 c (Or.inl (constL_pure G.rho c hc))
          rcases hok with (⟨h1, h2⟩ | ⟨h1, h2⟩) | ⟨⟨h1, h2⟩, h3⟩
          · exact execS_assignSubG (KOf G pi sp dep hi) _ wf F n i e σ (hC i (hpp5 i h1).1) (hC e (hpp5 e h2).1)
              (fun st mem cd s hr hx => absurd hx ((hpp5 e h2).2 st mem cd s hr))
          · exact execS_assignSubG (KOf G pi sp dep hi) _ wf F n i e σ (hC i (hip5 i h1)) (hC e (hcl5 e h2).1)
              (fun st mem cd s hr hx => absurd hx ((hcl5 e h2).2 st mem cd s hr))
          · refine execS_assignSubG (KOf G pi sp dep hi) _ wf F n i e σ (hC i (hcl5 i h1).1) (hC e (hip5 e h2)) ?_
            intro st mem cd s _ _
            unfold GCtx.isLoc at h3
            obtain ⟨ad0, had0⟩ := Option.isSome_iff_exists.mp h3
            rcases G.locOf_cases pi G.lo n ad0 had0 with ⟨_, _, _, hall⟩ | ⟨_, c, _, _, _, _, hall⟩
            · exact ⟨ad0, hall sp⟩
            · exact ⟨sp + c, hall sp⟩
        | call g args =>
          simp only [okS5, sysArgs5, Bool.and_eq_true, List.all_eq_true, Bool.or_eq_true, List.contains_iff_mem] at hok
          rcases hok with ⟨hps, hargs⟩ | ⟨hvs, hargs⟩
          · exact execS_callStmt ok (F + 1) hcsF1 hpi sp dep hi hlo hspv hstack g args hps
              (argsOK_5 ok hpi sp dep hi hlo hspv hstack (F + 1) hcsF1 args hargs) σ
          · unfold valSys at hvs
            cases hr : G.rho g with
            | none => rw [hr] at hvs; simp at hvs
            | some w =>
              rw [hr] at hvs
              simp only [decide_eq_true_eq] at hvs
              rcases hargs with (hp | ⟨hpk, hpp⟩) | hone
              · exact execS_valcall (KOf G pi sp dep hi) _ wf _ g args σ w hr hvs hp
              · exact execS_valcall_of (KOf G pi sp dep hi) _ wf _ g args σ w hr hvs
                  (execS_syscall_phase (KOf G pi sp dep hi) _ wf (F + 1) w.toNat args σ hvs
                    (fun f hf => actPhase_pp (KOf G pi sp dep hi) wf.toWF G.pnames (ok.pure_ok hpk)
                      (fun g hg => ok.pnames_mem g (by simpa using hg)) (fun st mem hr => noLoc_of_rep hr) 2 f
                      (fun k hk => callLeaf_of_spec ok (ok.pure_ok hpk) hpi sp dep hi hlo hspv hstack k (fun j hj => hcsF1 j (by omega)))
                      args hpp))
              · exact execS_valcall_of (KOf G pi sp dep hi) _ wf _ g args σ w hr hvs
                  (execS_syscall_phase (KOf G pi sp dep hi) _ wf (F + 1) w.toNat args σ hvs
                    (fun f hf => sysPhase_5 ok hpi sp dep hi hlo hspv hstack (F + 1) hcsF1 args hone f (by omega)))
      · intro pi hpi sp dep hi hlo hspv hstack ss σ hok
        have ihS' := ihS pi hpi sp dep hi hlo hspv hstack
        have ihL' := ihL pi hpi sp dep hi hlo hspv hstack
        cases ss with
        | nil =>
          intro gs code gs' i a b mem hg hat hr hsz hnl hci
          simp only [annotSL, optStmts] at hg
          rw [genStmts_nil] at hg
          simp only [Except.ok.injEq, Prod.mk.injEq] at hg
          rw [← hg.1, execSeq_nil]
          exact ⟨a, b, mem, Steps.refl _ _, hr⟩
        | cons s rest =>
          simp only [okS5L, Bool.and_eq_true] at hok
          intro gs code gs' i a b mem hg hat hr hsz hnl hci
          rw [optStmts_cons] at hg
          obtain ⟨c, gs1, cs, h1, h2, hcode⟩ := genStmts_cons_inv _ _ _ _ _ _ hg
          subst hcode
          have e2 : Eff gs1 gs' := by
            have := genStmt_eff (KOf G pi sp dep hi).ctx (.seq (optStmts (annotSL G.rho rest))) gs1 cs gs'
              (by rw [genStmt_seq]; exact h2)
            exact this
          have e1 := genStmt_eff _ _ _ _ _ h1
          simp only [low_append] at hat ⊢
          rw [execSeq_cons]
          have hS := ihS' s σ hok.1 gs c gs1 i a b mem h1 hat.left hr (by have := e2.2.1; omega) hnl (hci.of_eff e2)
          cases hx : X.exec F G.xc s σ with
          | undef w => trivial
          | exit cd s' =>
            rw [hx] at hS
            exact hS
          | ok fl s' =>
            cases fl with
            | ret w =>
              rw [hx] at hS
              simp only
              split
              · exact hS
              · trivial
            | normal =>
              rw [hx] at hS
              simp only
              obtain ⟨a', b', mem', st1, rep1⟩ := hS
              have hL := ihL' rest s' hok.2 gs1 cs gs' (i + ((KOf G pi sp dep hi).low c).length) a' b' mem' h2 hat.right rep1 hsz
                (by have := e1.1; omega) hci
              simp only [List.length_append, ← Nat.add_assoc]
              exact hL.pre st1

end Hex.C01s
