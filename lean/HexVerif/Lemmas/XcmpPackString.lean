import HexVerif.Xcmp.CodeGen
import HexVerif.X.Sem
/-!
  The packing loop of `genString` (xcmp.hpp 2530-2543, model `Xcmp.packGo` / `Xcmp.packString`:
  a running byte position, an accumulator word, a flush every fourth position and at the last
  character) produces exactly the words the reference semantics gives a string literal
  (`X.packString`: the length byte followed by the characters, four bytes per word, little endian,
  zero filled) - for EVERY byte string of fewer than 256 bytes, bytes above 0x7f included.
-/
namespace Hex.Xcmp

/-- The accumulator after the bytes `pre` (fewer than four) of the current word. -/
def partialWord : List Byte → Word
  | [] => 0
  | [a] => wordOfBytes a 0 0 0
  | [a, b] => wordOfBytes a b 0 0
  | a :: b :: c :: _ => wordOfBytes a b c 0

theorem or_b0 (c : Byte) : (BitVec.setWidth 32 c : Word) = wordOfBytes c 0#8 0#8 0#8 := by
  unfold wordOfBytes; simp
@[simp] theorem or_b1 (a c : Byte) : wordOfBytes a 0#8 0#8 0#8 ||| (BitVec.setWidth 32 c : Word) <<< 8 = wordOfBytes a c 0#8 0#8 := by
  unfold wordOfBytes; simp
@[simp] theorem or_b2 (a b c : Byte) : wordOfBytes a b 0#8 0#8 ||| (BitVec.setWidth 32 c : Word) <<< 16 = wordOfBytes a b c 0#8 := by
  unfold wordOfBytes; simp
@[simp] theorem or_b3 (a b c d : Byte) : wordOfBytes a b c 0#8 ||| (BitVec.setWidth 32 d : Word) <<< 24 = wordOfBytes a b c d := by
  unfold wordOfBytes; simp

/-- The loop, started inside a word: `pre` are the bytes of the current word seen so far, `idx + 1`
    is the position of the next character in `length byte :: characters`. -/
theorem packGo_spec (n : Nat) : ∀ (rest pre : List Byte) (idx : Nat),
    pre.length < 4 → (idx + 1) % 4 = pre.length → idx + rest.length = n → rest ≠ [] →
    packGo n rest idx (partialWord pre) = wordsOfBytes (pre ++ rest) := by
  intro rest
  induction rest with
  | nil => intro pre idx _ _ _ h; exact absurd rfl h
  | cons c t ih =>
    intro pre idx hp hpos hn _
    unfold packGo
    simp only [hpos]
    by_cases ht : t = []
    · -- last character: flush
      subst ht
      have hlast : idx = n - 1 := by simp at hn; omega
      simp only [hlast, or_true, if_true]
      match pre, hp with
      | [], _ => simp [partialWord, packGo, wordsOfBytes, or_b0]
      | [a], _ => simp [partialWord, packGo, wordsOfBytes]
      | [a, b], _ => simp [partialWord, packGo, wordsOfBytes]
      | [a, b, d], _ => simp [partialWord, packGo, wordsOfBytes]
    · have hnl : ¬ idx = n - 1 := by
        have : t.length > 0 := List.length_pos_iff.mpr ht
        simp only [List.length_cons] at hn
        omega
      match pre, hp, hpos with
      | [], _, hpos =>
        have h3 : ¬ ((0 : Nat) = 3) := by decide
        simp only [List.length_nil, h3, hnl, or_self, if_false, partialWord]
        have e0 : (0 : Word) ||| (BitVec.zeroExtend 32 c : Word) <<< (0 * 8) = wordOfBytes c 0 0 0 := by
          simp [or_b0]
        rw [e0]
        have := ih [c] (idx + 1) (by simp) (by simp only [List.length_nil] at hpos; simp; omega)
          (by simp only [List.length_cons] at hn; omega) ht
        simpa [partialWord] using this
      | [a], _, hpos =>
        have h3 : ¬ ((1 : Nat) = 3) := by decide
        simp only [List.length_cons, List.length_nil, Nat.zero_add, h3, hnl, or_self, if_false, partialWord]
        have := ih [a, c] (idx + 1) (by simp) (by simp only [List.length_cons, List.length_nil] at hpos; simp; omega)
          (by simp only [List.length_cons] at hn; omega) ht
        simpa [partialWord] using this
      | [a, b], _, hpos =>
        have h3 : ¬ ((2 : Nat) = 3) := by decide
        simp only [List.length_cons, List.length_nil, Nat.zero_add, h3, hnl, or_self, if_false, partialWord]
        have := ih [a, b, c] (idx + 1) (by simp) (by simp only [List.length_cons, List.length_nil] at hpos; simp; omega)
          (by simp only [List.length_cons] at hn; omega) ht
        simpa [partialWord] using this
      | [a, b, d], _, hpos =>
        simp only [List.length_cons, List.length_nil, Nat.zero_add, true_or, if_true, partialWord]
        have := ih [] (idx + 1) (by simp) (by simp only [List.length_cons, List.length_nil] at hpos; simp; omega)
          (by simp only [List.length_cons] at hn; omega) ht
        simp only [partialWord, List.nil_append] at this
        rw [this]
        simp [wordsOfBytes]

theorem first_word (n : Nat) : (BitVec.ofNat 32 (n % 256) : Word) = wordOfBytes (BitVec.ofNat 8 n) 0#8 0#8 0#8 := by
  rw [← or_b0]
  apply BitVec.eq_of_toNat_eq
  simp only [BitVec.toNat_ofNat, BitVec.toNat_setWidth]

/-- **The packing loop of `genString` computes the packed value of the reference semantics**, for
    every string of fewer than 256 bytes. -/
theorem packString_eq (bytes : List Byte) (h : bytes.length < 256) :
    X.packString bytes = .ok (packString bytes) := by
  unfold X.packString packString
  rw [if_neg (by omega)]
  congr 1
  cases hb : bytes with
  | nil => simp [wordsOfBytes]; unfold wordOfBytes; simp
  | cons c t =>
    simp only [List.isEmpty_cons, if_false, Bool.false_eq_true]
    have := packGo_spec (c :: t).length (c :: t) [BitVec.ofNat 8 (c :: t).length] 0 (by simp) (by simp) (by simp) (by simp)
    simp only [partialWord, List.cons_append, List.nil_append] at this
    rw [first_word]
    exact this.symm

end Hex.Xcmp
