import HexVerif.Sim.Model
import HexVerif.Asm.CodeGen
import HexVerif.Lemmas.XcmpLayout
/-!
  The loader of the simulator model reads back what the assembler model writes.

  `Sim.loadParts` (hexsim.hpp `load()`: length word, program words, string table, symbol table)
  applied to `Asm.fileBytes img` (hexasm.hpp `emitBin`: length word, image, `emitDebugInfo`) yields
  the image words in memory and the symbol table `img.debug`, name for name and offset for offset.
  This is the joint between the assembler-side theorems (C05, C15(a), C01: about `img`) and the
  simulator-side ones (C02, C12, C15(b,c): about a `Proc` after `load`).
-/
namespace Hex.Sim
open Hex.Asm

theorem le32_le32bytes (n : Nat) (rest : List Byte) : le32 (le32bytes n ++ rest) = BitVec.ofNat 32 n := by
  unfold le32bytes le32
  simp only [List.cons_append, List.nil_append]
  exact Hex.IAm.wordOfBytes_bytes _

theorem le32bytes_length (n : Nat) : (le32bytes n).length = 4 := rfl

theorem drop4_le32bytes (n : Nat) (rest : List Byte) : (le32bytes n ++ rest).drop 4 = rest := by
  unfold le32bytes; rfl

/-- The bytes `emitDebugInfo` writes for a name. -/
def nameBytes (s : String) : List Byte := s.toUTF8.toList.map fun b => BitVec.ofNat 8 b.toNat

/-- The string `load()` builds from those bytes. -/
def decodeName (bs : List Byte) : String := String.ofList (bs.map fun c => Char.ofNat c.toNat)

theorem readCStr_spec : ∀ (bs more : List Byte) (acc : List Char), (0 : Byte) ∉ bs →
    readCStr (bs ++ 0 :: more) acc = (String.ofList (acc.reverse ++ bs.map fun c => Char.ofNat c.toNat), more)
  | [], more, acc, _ => by simp [readCStr]
  | c :: t, more, acc, h => by
    have hc : c ≠ 0 := fun e => h (by simp [e])
    have ht : (0 : Byte) ∉ t := fun e => h (List.mem_cons_of_mem _ e)
    simp only [List.cons_append, readCStr, hc, if_false]
    rw [readCStr_spec t more _ ht]
    simp

theorem readStrings_spec : ∀ (ns : List (List Byte)) (more : List Byte) (acc : List String),
    (∀ n ∈ ns, (0 : Byte) ∉ n) →
    readStrings ns.length ((ns.flatMap fun n => n ++ [0]) ++ more) acc = (acc.reverse ++ ns.map decodeName, more)
  | [], more, acc, _ => by simp [readStrings]
  | n :: t, more, acc, h => by
    simp only [List.length_cons, readStrings, List.flatMap_cons, List.append_assoc, List.singleton_append]
    have e1 : n ++ (0 :: List.flatMap (fun n => n ++ [0]) t ++ more) = n ++ 0 :: (List.flatMap (fun n => n ++ [0]) t ++ more) := by simp
    rw [e1, readCStr_spec n _ [] (h n (List.mem_cons_self ..))]
    simp only
    rw [readStrings_spec t more _ (fun x hx => h x (List.mem_cons_of_mem _ hx))]
    simp [decodeName]

/-- The symbol records: string index `k, k+1, ..` and byte offset of each entry. -/
def symRecords : Nat → List (String × Nat) → List Byte
  | _, [] => []
  | k, e :: t => le32bytes k ++ le32bytes e.2 ++ symRecords (k + 1) t

theorem readSymbols_spec (f : String × Nat → String) :
    ∀ (es : List (String × Nat)) (k : Nat) (pre : List String) (more : List Byte) (acc : List (String × Word)),
    pre.length = k → k + es.length < 2 ^ 32 →
    readSymbols es.length (symRecords k es ++ more) (pre ++ es.map f) acc
      = some (acc.reverse ++ es.map fun e => (f e, BitVec.ofNat 32 e.2))
  | [], _, _, _, acc, _, _ => by simp [readSymbols]
  | e :: t, k, pre, more, acc, hk, hlt => by
    simp only [List.length_cons, readSymbols, symRecords, List.append_assoc]
    rw [le32_le32bytes, drop4_le32bytes, le32_le32bytes]
    have hkn : (BitVec.ofNat 32 k).toNat = k := by
      simp only [BitVec.toNat_ofNat]
      apply Nat.mod_eq_of_lt
      simp only [List.length_cons] at hlt
      omega
    rw [hkn]
    have hget : (pre ++ (e :: t).map f)[k]? = some (f e) := by
      rw [List.getElem?_append_right (by omega)]
      simp [hk]
    rw [hget]
    simp only
    have hd8 : (le32bytes k ++ (le32bytes e.2 ++ (symRecords (k + 1) t ++ more))).drop 8 = symRecords (k + 1) t ++ more := by
      unfold le32bytes; rfl
    rw [hd8]
    have hpre : pre ++ (e :: t).map f = (pre ++ [f e]) ++ t.map f := by simp
    rw [hpre]
    rw [readSymbols_spec f t (k + 1) (pre ++ [f e]) more _ (by simp [hk]) (by simp only [List.length_cons] at hlt; omega)]
    simp

theorem symRecords_eq : ∀ (es : List (String × Nat)) (k : Nat),
    ((List.range' k es.length).zip es).flatMap (fun (x : Nat × (String × Nat)) => le32bytes x.1 ++ le32bytes x.2.2) = symRecords k es
  | [], _ => by simp [symRecords]
  | e :: t, k => by
    simp only [List.length_cons, List.range'_succ, List.zip_cons_cons, List.flatMap_cons, symRecords]
    rw [symRecords_eq t (k + 1)]

theorem symRecords_length : ∀ (es : List (String × Nat)) (k : Nat), (symRecords k es).length = 8 * es.length
  | [], _ => rfl
  | e :: t, k => by
    simp only [symRecords, List.length_append, le32bytes_length, symRecords_length t (k + 1), List.length_cons]
    omega

/-- `debugBytes` in the shape the reader consumes. -/
theorem debugBytes_shape (dbg : List (String × Nat)) :
    debugBytes dbg = le32bytes dbg.length ++ (((dbg.map fun e => nameBytes e.1).flatMap fun n => n ++ [0]) ++
      (le32bytes dbg.length ++ symRecords 0 dbg)) := by
  unfold debugBytes
  simp only [List.append_assoc]
  congr 1
  congr 1
  · rw [List.flatMap_map]; rfl
  · congr 1
    rw [List.range_eq_range', ← symRecords_eq dbg 0]

/-- What `load()` makes of the assembler's symbol table. -/
def loadedSymbols (dbg : List (String × Nat)) : List (String × Word) :=
  dbg.map fun e => (decodeName (nameBytes e.1), BitVec.ofNat 32 e.2)

/-- **The loader reads back the assembler's file**: memory = the image words over `mem0`, symbol
    table = `img.debug`.  Side conditions (all decidable facts of `img`): the size word is the
    image length, a whole number of words that fits the memory; no name contains a NUL byte. -/
theorem loadParts_fileBytes (mem0 : Mem) (img : Image)
    (hsz : img.sizeBytes = img.bytes.length) (h4 : img.bytes.length % 4 = 0)
    (hfit : img.bytes.length ≤ 4 * memWords) (hn : img.debug.length < 2 ^ 31)
    (hnul : ∀ e ∈ img.debug, (0 : Byte) ∉ nameBytes e.1) :
    loadParts mem0 (fileBytes img) = some (mem0.loadWords (wordsOfBytes img.bytes), loadedSymbols img.debug) := by
  have hD : (debugBytes img.debug).length ≥ 8 + img.debug.length := by
    rw [debugBytes_shape]
    simp only [List.length_append, le32bytes_length, symRecords_length]
    omega
  have hflen : (fileBytes img).length = 4 + img.bytes.length + (debugBytes img.debug).length := by
    unfold fileBytes; simp only [List.length_append, le32bytes_length]
  have hhead : le32 (fileBytes img) = BitVec.ofNat 32 (img.bytes.length / 4) := by
    unfold fileBytes; rw [hsz, List.append_assoc, le32_le32bytes]
  have hmw : memWords = 200000 := rfl
  have hps : (BitVec.ofNat 32 (img.bytes.length / 4)).toNat * 4 = img.bytes.length := by
    simp only [BitVec.toNat_ofNat]
    rw [Nat.mod_eq_of_lt (by omega)]
    omega
  have hbody : (fileBytes img).drop 4 = img.bytes ++ debugBytes img.debug := by
    unfold fileBytes; rw [List.append_assoc, drop4_le32bytes]
  have hlen32 : (BitVec.ofNat 32 img.debug.length).toNat = img.debug.length := by
    simp only [BitVec.toNat_ofNat]; exact Nat.mod_eq_of_lt (by omega)
  unfold loadParts
  rw [if_neg (by omega)]
  simp only [hhead, hps, hbody]
  rw [if_neg (by omega)]
  rw [List.take_left' rfl, List.drop_left' rfl]
  rw [if_pos (by omega)]
  rw [if_neg (by omega)]
  have hshape := debugBytes_shape img.debug
  rw [hshape, le32_le32bytes, hlen32, drop4_le32bytes]
  rw [← hshape]
  rw [if_neg (by omega)]
  have hrs := readStrings_spec (img.debug.map fun e => nameBytes e.1)
    (le32bytes img.debug.length ++ symRecords 0 img.debug) []
    (by intro n hn'; obtain ⟨e, he, rfl⟩ := List.mem_map.mp hn'; exact hnul e he)
  rw [List.length_map] at hrs
  rw [hrs]
  simp only [List.reverse_nil, List.nil_append]
  rw [le32_le32bytes, hlen32, drop4_le32bytes]
  rw [if_neg (by simp only [List.length_append, le32bytes_length, symRecords_length]; omega)]
  have hsym := readSymbols_spec (fun e => decodeName (nameBytes e.1)) img.debug 0 [] [] [] rfl (by omega)
  simp only [List.append_nil, List.nil_append, List.reverse_nil] at hsym
  have hm : (List.map decodeName (List.map (fun e => nameBytes e.1) img.debug))
      = List.map (fun e => decodeName (nameBytes e.1)) img.debug := by rw [List.map_map]; rfl
  rw [hm, hsym]
  rfl

end Hex.Sim
