import HexVerif.Lemmas.XcmpStage3
/-!
  A concrete procedure context that satisfies `PCtx.WFS`, a source state and a memory with `Rep`,
  and a statement of the stage-3 fragment whose generated code sits in the context's program:
  the hypotheses of `C01_stage2_partial` / `C01_stage3_partial` are jointly satisfiable, and the
  theorem's conclusion is a non-trivial run (`g := g + 1` on a global variable).
-/
namespace Hex.C01s.Witness
open Hex Hex.X Hex.Xcmp Hex.IAm Hex.Asm Hex.C01s

def sym : Symbol :=
  { type := .var, node := .gdecl 0, isValDecl := false, scope := "", name := "g", globalLabel := "_lab0" }

def tbl : SymTab := [(("", "g"), sym)]

/-- The lowered code of `g := g + 1`, the procedure's exit label, and the global's data word. -/
def ds : List Dir :=
  [.ref 0x0 "_lab0" false, .imm 0x4 1, .opr 1, .ref 0x2 "_lab0" false,
   .label .plain "_lab9", .label .plain "_lab0", .data 0]

def K : PCtx :=
  { env := { ds := ds, addr := fun _ => 8, isCode := fun _ => false },
    out := { instrs := [], data := [], tbl := tbl, frames := [{ size := 0, exitLabel := "_lab9" }], globalsOffset := 0 },
    ctx := { tbl := tbl, scope := "main", frame := 0, exitLabel := "_lab9" },
    xc := { genv := [("g", .var)], impure := [], limit := 1000 },
    ρ := fun _ => none,
    sp := 100,
    loc := fun n => if n = "g" then some 2 else none,
    consts := [],
    nlocals := 0,
    hi := fun _ => 0,
    gnames := [],
    dep := 0 }

theorem lookup_g (n : String) (s : Symbol) (h : tbl.lookup "main" n = .ok s) : n = "g" ∧ s = sym := by
  unfold SymTab.lookup tbl at h
  have h1 : SymTab.find? [(("", "g"), sym)] ("main", n) = none := by
    unfold SymTab.find?
    have : ¬ (("", "g") : SymKey) = ("main", n) := by
      intro e; have := congrArg Prod.fst e; simp at this
    rw [if_neg this]; rfl
  rw [h1] at h
  simp only [ne_eq, String.reduceEq, not_false_eq_true, if_true] at h
  unfold SymTab.find? at h
  by_cases hn : (("", "g") : SymKey) = ("", n)
  · rw [if_pos hn] at h
    simp only [Except.ok.injEq] at h
    have := congrArg Prod.snd hn
    simp only at this
    exact ⟨this.symm, h.symm⟩
  · rw [if_neg hn] at h
    simp [SymTab.find?] at h

theorem S_zero : K.S = 0 := rfl

theorem wf : K.WFS 4 where
  nodup := by decide
  var_global := by
    intro n s a h _ hloc
    obtain ⟨hn, hs⟩ := lookup_g n s h
    subst hn; subst hs
    simp only [K, if_true, Option.some.injEq] at hloc
    subst hloc
    exact ⟨5, .plain, rfl, rfl, rfl⟩
  var_local := by
    intro n s a h hsc _
    obtain ⟨_, hs⟩ := lookup_g n s h
    subst hs
    exact absurd rfl hsc
  const_lbl := by intro v l h; simp [K] at h
  slot_ok := by intro k hk; rw [S_zero] at hk; omega
  sp_ge := by decide
  sp_le := by rw [S_zero]; decide
  loc_sep := by
    intro n a h
    simp only [K] at h
    split at h
    · simp only [Option.some.injEq] at h; subst h; left; decide
    · simp at h
  loc_ok := by
    intro n a h
    simp only [K] at h
    split at h
    · simp only [Option.some.injEq] at h; subst h; exact ⟨by decide, by decide, rfl⟩
    · simp at h
  loc_inj := by
    intro n m a h1 h2
    simp only [K] at h1 h2
    split at h1
    · split at h2
      · rename_i e1 e2; rw [e1, e2]
      · simp at h2
    · simp at h1
  const_sep := by intro v l j k n a h; simp [K] at h
  loc_ne_link := by
    intro n a h
    simp only [K] at h
    split at h
    · simp only [Option.some.injEq] at h; subst h; rw [S_zero]; decide
    · simp at h
  exit_lbl := ⟨.plain, rfl⟩
  stop_ok := ⟨by decide, rfl⟩
  arr_hi := (K.arrOK_of_none (fun _ => rfl)).arr_hi
  arr_disj := (K.arrOK_of_none (fun _ => rfl)).arr_disj
  arr_code := (K.arrOK_of_none (fun _ => rfl)).arr_code
  loc_na := (K.arrOK_of_none (fun _ => rfl)).loc_na
  str := K.strOK_of_none rfl

def σ : X.St :=
  { gvars := [("g", some 5)], arrays := #[], locals := [], io := Isa.IOSt.init [], calls := [], steps := 0, depth := 0 }

def mem : Mem := (Mem.zero.write 1 100).write 2 5

theorem rep : Rep K σ mem where
  sp := by
    unfold mem
    rw [Mem.read_write_other _ _ _ _ (by decide), Mem.read_write_same _ _ _ (by decide)]
    rfl
  vals := by intro n w h; simp [K] at h
  vars := by
    intro n w _ h
    by_cases hn : n = "g"
    · subst hn
      have : X.readName K.xc σ "g" = .ok (.int 5) := by
        unfold X.readName; rfl
      rw [this] at h
      simp only [Except.ok.injEq, Val.int.injEq] at h
      subst h
      refine ⟨2, by simp [K], by decide, ?_⟩
      unfold mem
      exact Mem.read_write_same _ _ _ (by decide)
    · exfalso
      unfold X.readName at h
      have h1 : σ.locals.lookup n = none := rfl
      rw [h1] at h
      have h2 : K.xc.genv.lookup n = none := by
        simp only [K, List.lookup]
        have : (n == "g") = false := by simpa using hn
        rw [this]
      rw [h2] at h
      simp at h
  consts := by intro v l j k h; simp [K] at h
  locs := by
    intro n hv
    unfold IsVar at hv
    rcases hv with ⟨o, h⟩ | ⟨_, h⟩
    · simp [σ] at h
    · by_cases hn : n = "g"
      · subst hn; exact ⟨2, by simp [K], by decide⟩
      · exfalso
        simp only [K, List.lookup] at h
        have : (n == "g") = false := by simpa using hn
        rw [this] at h
        simp at h
  above := by
    intro a ha _
    have : 100 ≤ a := by rw [S_zero] at ha; exact ha
    unfold mem
    rw [Mem.read_write_other _ _ _ _ (by omega), Mem.read_write_other _ _ _ _ (by omega)]
    exact Mem.read_zero _
  gvis := by intro n hn; simp [K] at hn
  depth := rfl
  aptr := by
    intro n r h
    exfalso
    unfold X.readName at h
    have h1 : σ.locals.lookup n = none := rfl
    rw [h1] at h
    by_cases hn : n = "g"
    · subst hn; simp [K, σ] at h
    · have h2 : K.xc.genv.lookup n = none := by
        simp only [K, List.lookup]
        have : (n == "g") = false := by simpa using hn
        rw [this]
      rw [h2] at h
      simp at h
  acells := by intro id cells h; simp [σ] at h
  strs := by intro l bs ws j k h; simp [K] at h

/-- `g := g + 1`. -/
def stmt : X.Stmt := .assign "g" (.bin .plus (.name "g") (.num 1))

theorem stmt_ok : okS stmt = true := by decide

def code : Code := [lLDAM "_lab0", iLDBC 1, iADD, lSTAM "_lab0"]

theorem gen_ok : genStmt K.ctx (optStmt (annotS K.ρ stmt)) {} = .ok (code, {}) := by
  rfl

theorem code_at : At K.env.ds 0 (K.low code) :=
  ⟨[], [.label .plain "_lab9", .label .plain "_lab0", .data 0], rfl, rfl⟩

/-- The source-level result: `g` becomes 6. -/
def σ' : X.St := { σ with gvars := [("g", some 6)], steps := 4 }

theorem exec_ok : X.exec 10 K.xc stmt σ = .ok .normal σ' := by rfl

/-- The conclusion of stage 3 on this instance: the four instructions run, and the memory
    represents the state in which `g = 6`. -/
theorem run : ∃ a' b' mem', Steps K.env (cfg 0 0 0 mem) σ.io (cfg 4 a' b' mem') σ'.io ∧ Rep K σ' mem' := by
  have h := (stmt_correct K 4 wf 10).1 stmt σ stmt_ok {} code {} 0 0 0 mem gen_ok code_at rep
    (Nat.zero_le _) (Nat.le_refl _) (fun e he => by simp [GS.items] at he)
  rw [exec_ok] at h
  exact h

end Hex.C01s.Witness
