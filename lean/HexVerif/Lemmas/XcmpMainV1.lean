import HexVerif.Lemmas.XcmpCheck
import HexVerif.Lemmas.XcmpRunV1
import HexVerif.Lemmas.XcmpLayout
/-!
  Whole-program theorem for the class V1 (global variables, a single procedure `main`, local
  variables, a stage-3 body), machine side: the start-up stub, the prologue and epilogue of
  `main`, and the exit stub, executed by `IAm` on the lowered directive list.
-/
namespace Hex.C01s
open Hex Hex.X Hex.Xcmp Hex.IAm Hex.Asm

/-- The stack-pointer adjustment of prologue (`delta = -size`) and epilogue (`delta = size`):
    `LDAC delta; OPR ADD; STAM 1` when the frame is not empty. -/
def spAdjust (nonempty : Bool) (delta : Int) : List Dir :=
  if nonempty then [.imm 0x3 delta, .opr 1, .imm 0x2 1] else []

theorem exec_spAdjust (env : Env) (nonempty : Bool) (delta : Int) (x y : Nat) (i : Nat) (a : Word) (mem : Mem) (io : Isa.IOSt)
    (hat : At env.ds i (spAdjust nonempty delta)) (hy : (y : Int) = (x : Int) + delta)
    (hne : nonempty = false → y = x) (h1 : mem.read 1 = BitVec.ofNat 32 x) (hc : env.isCode 1 = false) :
    ∃ a' mem', Steps env (cfg i a (BitVec.ofNat 32 x) mem) io
        (cfg (i + (spAdjust nonempty delta).length) a' (BitVec.ofNat 32 x) mem') io ∧
      mem'.read 1 = BitVec.ofNat 32 y ∧ ∀ w, w ≠ 1 → mem'.read w = mem.read w := by
  cases nonempty with
  | false =>
    have := hne rfl
    subst this
    exact ⟨a, mem, by simpa [spAdjust] using Steps.refl _ _, h1, fun _ _ => rfl⟩
  | true =>
    simp only [spAdjust, if_true] at hat ⊢
    have h0 := hat.get 0 _ rfl
    have h1' := hat.get 1 _ rfl
    have h2 := hat.get 2 _ rfl
    have s0 := Step.ldac (env := env) (cfg i a (BitVec.ofNat 32 x) mem) io delta (by simpa using h0)
    have s1 := Step.add (env := env) (cfg (i + 1) (IAm.W delta) (BitVec.ofNat 32 x) mem) io h1'
    have hval : IAm.W delta + BitVec.ofNat 32 x = BitVec.ofNat 32 y := by
      unfold IAm.W
      rw [show BitVec.ofNat 32 x = BitVec.ofInt 32 (x : Int) from (BitVec.ofInt_natCast 32 x).symm,
        ← BitVec.ofInt_add, show delta + (x : Int) = (y : Int) by omega]
      exact BitVec.ofInt_natCast 32 y
    have hst : IAm.store env mem (IAm.W 1) (IAm.W delta + BitVec.ofNat 32 x) = some (mem.write 1 (BitVec.ofNat 32 y)) := by
      rw [hval]
      have : IAm.W 1 = BitVec.ofNat 32 1 := by decide
      rw [this]
      exact store_ofNat env mem 1 _ (by unfold memWords; omega) hc
    have s2 := Step.stam (env := env) (cfg (i + 1 + 1) (IAm.W delta + BitVec.ofNat 32 x) (BitVec.ofNat 32 x) mem) io 1 _ h2 hst
    refine ⟨_, mem.write 1 (BitVec.ofNat 32 y), Steps.step _ _ _ _ _ _ s0 (Steps.step _ _ _ _ _ _ s1 (Steps.one s2)),
      Mem.read_write_same _ _ _ (by unfold memWords; omega), fun w hw => Mem.read_write_other _ _ _ _ (Ne.symm hw)⟩

/-- Shape of the lowered program of a V1 compilation. -/
def v1Stub : List Dir :=
  [.label .plain "_start", .ref 0x5 "_exit" true, .ref 0x9 "main" true, .label .plain "_exit",
   .imm 0x1 1, .imm 0x3 0, .imm 0x8 2, .opr 3]

def v1Prologue (S : Nat) : List Dir :=
  [.label .proc "main", .imm 0x1 1, .imm 0x8 0] ++ spAdjust (decide (S > 0)) (-(S : Int))

def v1Epilogue (S : Nat) (xl : String) : List Dir :=
  [.label .plain xl, .imm 0x1 1] ++ spAdjust (decide (S > 0)) (S : Int) ++ [.imm 0x7 (S : Int), .opr 0]

def v1Program (spv : Int) (data : List Dir) (S : Nat) (xl : String) (body : List Dir) : List Dir :=
  [.ref 0x9 "_start" true, .data spv] ++ data ++ v1Stub ++ v1Prologue S ++ body ++ v1Epilogue S xl

theorem lowerPrologue_proc (S : Nat) : lowerPrologue .proc "main" S = v1Prologue S := by
  unfold lowerPrologue v1Prologue spAdjust
  by_cases h : S > 0 <;> simp [h, SP_OFFSET]

theorem lowerEpilogue_proc (S : Nat) (xl : String) : lowerEpilogue .proc ⟨S, xl⟩ = v1Epilogue S xl := by
  unfold lowerEpilogue v1Epilogue spAdjust
  by_cases h : S > 0 <;> simp [h, SP_OFFSET]

/-- Positions in a V1 program. -/
structure V1Pos (ds : List Dir) (spv : Int) (data : List Dir) (S : Nat) (xl : String) (body : List Dir) : Prop where
  shape : ds = v1Program spv data S xl body

namespace V1Pos
variable {ds : List Dir} {spv : Int} {data : List Dir} {S : Nat} {xl : String} {body : List Dir}

def iStub (data : List Dir) : Nat := 2 + data.length
def iPro (data : List Dir) : Nat := 2 + data.length + 8
def iBody (data : List Dir) (S : Nat) : Nat := 2 + data.length + 8 + (v1Prologue S).length
def iEpi (data : List Dir) (S : Nat) (body : List Dir) : Nat := 2 + data.length + 8 + (v1Prologue S).length + body.length

theorem at_head (h : V1Pos ds spv data S xl body) : At ds 0 [.ref 0x9 "_start" true, .data spv] :=
  ⟨[], data ++ v1Stub ++ v1Prologue S ++ body ++ v1Epilogue S xl, by rw [h.shape]; simp [v1Program], rfl⟩

theorem at_stub (h : V1Pos ds spv data S xl body) : At ds (iStub data) v1Stub :=
  ⟨[.ref 0x9 "_start" true, .data spv] ++ data, v1Prologue S ++ body ++ v1Epilogue S xl,
   by rw [h.shape]; simp [v1Program], by simp [iStub]; omega⟩

theorem at_pro (h : V1Pos ds spv data S xl body) : At ds (iPro data) (v1Prologue S) :=
  ⟨[.ref 0x9 "_start" true, .data spv] ++ data ++ v1Stub, body ++ v1Epilogue S xl,
   by rw [h.shape]; simp [v1Program], by simp [iPro, v1Stub]; omega⟩

theorem at_body (h : V1Pos ds spv data S xl body) : At ds (iBody data S) body :=
  ⟨[.ref 0x9 "_start" true, .data spv] ++ data ++ v1Stub ++ v1Prologue S, v1Epilogue S xl,
   by rw [h.shape]; simp [v1Program], by simp [iBody, v1Stub]; omega⟩

theorem at_epi (h : V1Pos ds spv data S xl body) : At ds (iEpi data S body) (v1Epilogue S xl) :=
  ⟨[.ref 0x9 "_start" true, .data spv] ++ data ++ v1Stub ++ v1Prologue S ++ body, [],
   by rw [h.shape]; simp [v1Program], by simp [iEpi, v1Stub]; omega⟩

end V1Pos

open V1Pos in
/-- **Start-up**: from the boot configuration through the stub and the prologue of `main` to the
    first directive of its body. -/
theorem v1_startup (env : Env) (spv : Int) (data : List Dir) (S : Nat) (xl : String) (body : List Dir)
    (hpos : V1Pos env.ds spv data S xl body) (hnd : (labelNames env.ds).Nodup)
    (mem0 : Mem) (spvN : Nat) (io : Isa.IOSt)
    (hm1 : mem0.read 1 = BitVec.ofNat 32 spvN) (hlt : spvN < memWords) (hc : env.isCode spvN = false)
    (h2 : 2 ≤ spvN) (hc1 : env.isCode 1 = false) (hS : S ≤ spvN) :
    ∃ a' mem', Steps env (cfg 0 0 0 mem0) io (cfg (iBody data S) a' (BitVec.ofNat 32 spvN) mem') io ∧
      mem'.read 1 = BitVec.ofNat 32 (spvN - S) ∧
      mem'.read spvN = BitVec.ofNat 32 (env.addr (iStub data + 3)) ∧
      ∀ w, w ≠ 1 → w ≠ spvN → mem'.read w = mem0.read w := by
  have hh := hpos.at_head
  have hs := hpos.at_stub
  have hp := hpos.at_pro
  have d0 := hh.get 0 _ rfl
  have t0 := hs.get 0 _ rfl
  have t1 := hs.get 1 _ rfl
  have t2 := hs.get 2 _ rfl
  have t3 := hs.get 3 _ rfl
  have p0 := hp.left.get 0 _ rfl
  have p1 := hp.left.get 1 _ rfl
  have p2 := hp.left.get 2 _ rfl
  simp only [Nat.add_zero] at d0 t0 p0
  have lStart := labelIdx_of_nodup _ _ _ _ hnd t0
  have lExit := labelIdx_of_nodup _ _ _ _ hnd t3
  have lMain := labelIdx_of_nodup _ _ _ _ hnd p0
  have s0 := Step.br (env := env) (cfg 0 0 0 mem0) io "_start" (iStub data) (by simpa using d0) lStart
  have s1 := Step.label (env := env) (cfg (iStub data) 0 0 mem0) io _ _ t0
  have s2 := Step.ldapL (env := env) (cfg (iStub data + 1) 0 0 mem0) io "_exit" (iStub data + 3) t1 lExit
  have s3 := Step.br (env := env) (cfg (iStub data + 1 + 1) (BitVec.ofNat 32 (env.addr (iStub data + 3))) 0 mem0) io "main"
    (iPro data) t2 lMain
  have s4 := Step.label (env := env) (cfg (iPro data) (BitVec.ofNat 32 (env.addr (iStub data + 3))) 0 mem0) io _ _ p0
  have s5 := Step.ldbm (env := env) (cfg (iPro data + 1) (BitVec.ofNat 32 (env.addr (iStub data + 3))) 0 mem0) io 1 _ p1 (ld_one mem0)
  have hadr : mem0.read 1 + IAm.W 0 = BitVec.ofNat 32 spvN := by
    rw [hm1]; have := ofNat_add_W spvN 0; simpa using this
  have hst : IAm.store env mem0 (mem0.read 1 + IAm.W 0) (BitVec.ofNat 32 (env.addr (iStub data + 3)))
      = some (mem0.write spvN (BitVec.ofNat 32 (env.addr (iStub data + 3)))) := by
    rw [hadr]; exact store_ofNat _ _ _ _ hlt hc
  have hne1 : (mem0.read 1 + IAm.W 0).toNat ≠ 1 := by rw [hadr]; exact ofNat_toNat_ne_one _ h2 hlt
  have s6 := Step.stai (env := env) (cfg (iPro data + 1 + 1) (BitVec.ofNat 32 (env.addr (iStub data + 3))) (mem0.read 1) mem0)
    io 0 _ p2 hst hne1
  have hm1' : (mem0.write spvN (BitVec.ofNat 32 (env.addr (iStub data + 3)))).read 1 = BitVec.ofNat 32 spvN := by
    rw [Mem.read_write_other _ _ _ _ (by omega)]; exact hm1
  obtain ⟨a', mem', st7, r1, rest⟩ := exec_spAdjust env (decide (S > 0)) (-(S : Int)) spvN (spvN - S) (iPro data + 1 + 1 + 1)
    (BitVec.ofNat 32 (env.addr (iStub data + 3))) _ io (by simpa [Nat.add_assoc] using hp.right) (by omega)
    (by intro h; simp at h; omega) hm1' hc1
  refine ⟨a', mem', ?_, r1, ?_, ?_⟩
  · rw [hm1] at s6
    have hidx : iPro data + 1 + 1 + 1 + (spAdjust (decide (S > 0)) (-(S : Int))).length = iBody data S := by
      simp [iBody, iPro, v1Prologue]; omega
    rw [hidx] at st7
    simp only at s0 s1 s2 s3 s4 s5 s6
    rw [hm1] at s5
    exact Steps.step _ _ _ _ _ _ s0 (Steps.step _ _ _ _ _ _ s1 (Steps.step _ _ _ _ _ _ s2 (Steps.step _ _ _ _ _ _ s3
      (Steps.step _ _ _ _ _ _ s4 (Steps.step _ _ _ _ _ _ s5 (Steps.step _ _ _ _ _ _ s6 st7))))))
  · rw [rest spvN (by omega), Mem.read_write_same _ _ _ hlt]
  · intro w hw1 hw2
    rw [rest w hw1, Mem.read_write_other _ _ _ _ (Ne.symm hw2)]

open V1Pos in
/-- **Return from `main`**: from the exit label of `main` through its epilogue, the return to the
    stub and the terminating system call with exit value 0. -/
theorem v1_finish (env : Env) (spv : Int) (data : List Dir) (S : Nat) (xl : String) (body : List Dir)
    (hpos : V1Pos env.ds spv data S xl body) (a b : Word) (mem : Mem) (sp spvN : Nat) (io : Isa.IOSt)
    (hsp : sp + S = spvN) (hm1 : mem.read 1 = BitVec.ofNat 32 sp)
    (hlink : mem.read spvN = BitVec.ofNat 32 (env.addr (iStub data + 3)))
    (hlt : spvN + 2 < memWords) (hc : env.isCode (spvN + 2) = false) (h2 : 2 ≤ spvN) (hc1 : env.isCode 1 = false)
    (haddr : env.addr (iStub data + 3) < 2 ^ 32) :
    ∃ c, Steps env (cfg (iEpi data S body) a b mem) io c io ∧ Exit env c io 0 := by
  have hs := hpos.at_stub
  have he := hpos.at_epi
  unfold v1Epilogue at he
  have e0 := he.left.left.get 0 _ rfl
  have e1 := he.left.left.get 1 _ rfl
  have eL := he.right.get 0 _ rfl
  have eB := he.right.get 1 _ rfl
  have t3 := hs.get 3 _ rfl
  have t4 := hs.get 4 _ rfl
  have t5 := hs.get 5 _ rfl
  have t6 := hs.get 6 _ rfl
  have t7 := hs.get 7 _ rfl
  simp only [Nat.add_zero, List.length_append, List.length_cons, List.length_nil] at e0 e1 eL eB
  have s0 := Step.label (env := env) (cfg (iEpi data S body) a b mem) io _ _ e0
  have s1 := Step.ldbm (env := env) (cfg (iEpi data S body + 1) a b mem) io 1 _ e1 (ld_one mem)
  rw [hm1] at s1
  obtain ⟨a', mem', st2, r1, rest⟩ := exec_spAdjust env (decide (S > 0)) (S : Int) sp spvN (iEpi data S body + 1 + 1)
    a mem io (by simpa [Nat.add_assoc] using he.left.right) (by omega) (by intro h; simp at h; omega) hm1 hc1
  have hld : Isa.ld mem' (BitVec.ofNat 32 sp + IAm.W (S : Int)) = some (BitVec.ofNat 32 (env.addr (iStub data + 3))) := by
    rw [ofNat_add_W, hsp, ld_ofNat _ _ (by omega), rest spvN (by omega), hlink]
  have s3 := Step.ldbi (env := env)
    (cfg (iEpi data S body + 1 + 1 + (spAdjust (decide (S > 0)) (S : Int)).length) a' (BitVec.ofNat 32 sp) mem') io _ _
    (by simpa [Nat.add_assoc] using eL) hld
  have hk : env.addr (iStub data + 3) = (BitVec.ofNat 32 (env.addr (iStub data + 3))).toNat := by
    simp only [BitVec.toNat_ofNat]; omega
  have s4 := Step.brb (env := env)
    (cfg (iEpi data S body + 1 + 1 + (spAdjust (decide (S > 0)) (S : Int)).length + 1) a'
      (BitVec.ofNat 32 (env.addr (iStub data + 3))) mem') io (iStub data + 3) _ _
    (by simpa [Nat.add_assoc] using eB) t3 hk
  -- the exit stub
  have s5 := Step.label (env := env) (cfg (iStub data + 3) a' (BitVec.ofNat 32 (env.addr (iStub data + 3))) mem') io _ _ t3
  have s6 := Step.ldbm (env := env) (cfg (iStub data + 3 + 1) a' (BitVec.ofNat 32 (env.addr (iStub data + 3))) mem') io 1 _ t4
    (ld_one mem')
  rw [r1] at s6
  have s7 := Step.ldac (env := env) (cfg (iStub data + 3 + 1 + 1) a' (BitVec.ofNat 32 spvN) mem') io 0 t5
  have hadr : BitVec.ofNat 32 spvN + IAm.W 2 = BitVec.ofNat 32 (spvN + 2) := ofNat_add_W spvN 2
  have hst : IAm.store env mem' (BitVec.ofNat 32 spvN + IAm.W 2) (IAm.W 0) = some (mem'.write (spvN + 2) (IAm.W 0)) := by
    rw [hadr]; exact store_ofNat _ _ _ _ hlt hc
  have hne1 : (BitVec.ofNat 32 spvN + IAm.W 2).toNat ≠ 1 := by
    rw [hadr]; exact ofNat_toNat_ne_one _ (by omega) hlt
  have s8 := Step.stai (env := env) (cfg (iStub data + 3 + 1 + 1 + 1) (IAm.W 0) (BitVec.ofNat 32 spvN) mem') io 2 _ t6 hst hne1
  refine ⟨cfg (iStub data + 3 + 1 + 1 + 1 + 1) (IAm.W 0) (BitVec.ofNat 32 spvN) (mem'.write (spvN + 2) (IAm.W 0)), ?_, ?_⟩
  · exact Steps.step _ _ _ _ _ _ s0 (Steps.step _ _ _ _ _ _ s1 (st2.trans (Steps.step _ _ _ _ _ _ s3
      (Steps.step _ _ _ _ _ _ s4 (Steps.step _ _ _ _ _ _ s5 (Steps.step _ _ _ _ _ _ s6
        (Steps.step _ _ _ _ _ _ s7 (Steps.one s8))))))))
  · apply Exit.svcExit
    · simpa using t7
    · exact W_zero
    · show Isa.ld _ ((mem'.write (spvN + 2) (IAm.W 0)).read 1 + 2) = some 0
      rw [Mem.read_write_other _ _ _ _ (by omega), r1]
      have : (BitVec.ofNat 32 spvN + 2 : Word) = BitVec.ofNat 32 (spvN + 2) := by
        have := ofNat_add_W spvN 2
        rw [← this]; rfl
      rw [this, ld_ofNat _ _ hlt, Mem.read_write_same _ _ _ hlt, W_zero]

end Hex.C01s
