import HexVerif.Lemmas.XcmpV2
import HexVerif.Lemmas.XcmpC08
import HexVerif.Lemmas.IsaAccess
/-!
  C08 for the classes V2 / V3: what the run constructed by `v_correct` does to the memory, and
  which words it touches.
-/
namespace Hex.C01s
open Hex Hex.X Hex.Xcmp Hex.IAm Hex.Asm

theorem v_c08 (pk : Bool) (P : X.Program) (st : Stages) (img : Image) (inp : X.Input) (fuel : Nat) (β : X.Behaviour)
    (hasm : assembleDirs st.optimised = .ok img) (hchk : vCheck pk P st img = true)
    (hrun : X.run P inp fuel = .defined β) :
    ∃ n code j s' io, Isa.run n (Am.boot img) (Isa.IOSt.init inp.stdin inp.files) = .exited code j s' io ∧
      code = β.exit ∧ io.log.reverse = β.events ∧
      Isa.AllIn (Isa.runAccesses n (Am.boot img) (Isa.IOSt.init inp.stdin inp.files)) ∧
      (∀ w, s'.mem.read w ≠ (Am.boot img).mem.read w → w < memWords ∧ (envOf st.optimised img).isCode w = false) ∧
      (β.returned = true → ∃ a' b' mem',
        Steps (v1Env st img) (cfg 0 0 0 (Am.boot img).mem) (Isa.IOSt.init inp.stdin inp.files)
          (cfg (2 + st.cg.data.length + 3) a' b' mem') io ∧
        mem'.read 1 = BitVec.ofNat 32 (spValue st.cg.globalsOffset).toNat) := by
  obtain ⟨G, pm, ok, hGenv, hGxc, g, hp, hgv, hpm, hname, cmain, hpmm, hhead, hstub, hg0, hm1', hGspv⟩ :=
    v_setup pk P st img inp fuel hasm hchk
  obtain ⟨m, hfind, hcases⟩ := run_v2 P inp fuel β hgv hrun
  have hcore := v2_core G ok fuel (Am.boot img).mem (v2St0 P inp) rfl pm hpm hname cmain
    (spValue st.cg.globalsOffset) (2 + st.cg.data.length) hhead hstub hg0 hm1'
  rw [hpmm m hfind, hGxc] at hcore
  have hio : (v2St0 P inp).io = Isa.IOSt.init inp.stdin inp.files := rfl
  rw [hio] at hcore
  have hnd' : (labelNames st.lowered).Nodup := by
    have := ok.nodup
    rw [hGenv] at this
    exact this
  have hboot : bootCfg img = cfg 0 0 0 (Am.boot img).mem := rfl
  rcases hcases with ⟨r, s, hx, e1, e2, e3, e4⟩ | ⟨code, s, hx, e1, e2, e3, e4⟩
  · rw [hx] at hcore
    obtain ⟨c, hsteps, hexit, a', b', mem', hs1, hsp, _⟩ := hcore
    rw [hGenv] at hsteps hexit hs1
    obtain ⟨c', hsteps', hexit'⟩ := peep_run (env' := envOf st.optimised img) hp hnd' _ _ c s.io 0 hsteps hexit
    obtain ⟨n, j, s', hr, hmem⟩ := IAm_refines_Isa_mem g _ c' s.io 0 (by rw [hboot]; exact hsteps') hexit'
    refine ⟨n, 0, j, s', s.io, hr, e1.symm, e2.symm, Isa.run_exited_inrange _ _ _ _ _ _ _ _ hr, ?_, fun _ => ⟨a', b', mem', hs1, by rw [hsp, hGspv]⟩⟩
    intro w hw
    rw [hmem] at hw
    exact steps_changed _ _ _ _ _ hsteps' w hw
  · rw [hx] at hcore
    obtain ⟨c, hsteps, hexit⟩ := hcore
    rw [hGenv] at hsteps hexit
    obtain ⟨c', hsteps', hexit'⟩ := peep_run (env' := envOf st.optimised img) hp hnd' _ _ c s.io code hsteps hexit
    obtain ⟨n, j, s', hr, hmem⟩ := IAm_refines_Isa_mem g _ c' s.io code (by rw [hboot]; exact hsteps') hexit'
    refine ⟨n, code, j, s', s.io, hr, e1.symm, e2.symm, Isa.run_exited_inrange _ _ _ _ _ _ _ _ hr, ?_, fun h => by rw [e4] at h; simp at h⟩
    intro w hw
    rw [hmem] at hw
    exact steps_changed _ _ _ _ _ hsteps' w hw

end Hex.C01s
