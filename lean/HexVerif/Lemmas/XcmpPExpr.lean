import HexVerif.Lemmas.XcmpExpr
import HexVerif.Lemmas.XcmpXPure
/-!
  Expressions with calls of PURE functions in operand positions (class `ppE`).

  xcmp evaluates the right operand of a binary operator first when it needs areg, the reference
  semantics the left one.  For callees outside `ctx.impure` the order cannot be observed: the
  evaluation of an operand leaves the state `Sim`-equal (`Lemmas/XcmpXPure.lean`), and `Rep` does
  not look at the step counter or the call log.  So every operand is given its triple `ExecAt`
  with respect to ONE source state, and the operator shapes of `Lemmas/XcmpExpr.lean` apply
  unchanged; the call itself is a leaf (`CallLeaf`), provided by stage (4).
-/
namespace Hex.C01s
open Hex Hex.X Hex.Xcmp Hex.IAm Hex.Asm

/-- Operators over literals, names and calls of procedures `ps` outside `imp`, with call-free
    actuals. -/
def ppE (ps imp : List String) : X.Expr → Bool
  | .num _ | .bool _ | .name _ | .str _ => true
  | .un _ e => ppE ps imp e
  | .bin _ l r => ppE ps imp l && ppE ps imp r
  | .call g args => ps.contains g && !imp.contains g && args.all pureE
  | .sub _ i => pureE i
  | _ => false

theorem pure_pp (ps imp : List String) : (e : X.Expr) → pureE e = true → ppE ps imp e = true
  | .num _, _ => rfl
  | .bool _, _ => rfl
  | .name _, _ => rfl
  | .un _ x, h => by simp only [pureE] at h; simp only [ppE]; exact pure_pp ps imp x h
  | .bin _ l r, h => by
    simp only [pureE, Bool.and_eq_true] at h
    simp only [ppE, Bool.and_eq_true]
    exact ⟨pure_pp ps imp l h.1, pure_pp ps imp r h.2⟩
  | .str _, _ => rfl
  | .sub _ i, h => by simp only [pureE] at h; simp only [ppE]; exact h
  | .call _ _, h => by simp [pureE] at h
  | .syscall _ _, h => by simp [pureE] at h

/-- A constant-annotated tree contains no call. -/
theorem annot_const_pure (ρ : String → Option Word) (ps imp : List String) :
    (e : X.Expr) → (c : CInt) → ppE ps imp e = true → (annotate ρ e).const = some c → pureE e = true
  | .num _, _, _, _ => rfl
  | .bool _, _, _, _ => rfl
  | .name _, _, _, _ => rfl
  | .un _ x, _, hp, hc => by
    simp only [annotate, AExpr.const_un] at hc
    simp only [ppE] at hp
    cases hx : (annotate ρ x).const with
    | none => rw [hx] at hc; simp at hc
    | some cx => simp only [pureE]; exact annot_const_pure ρ ps imp x cx hp hx
  | .bin _ l r, _, hp, hc => by
    simp only [annotate, AExpr.const_bin] at hc
    simp only [ppE, Bool.and_eq_true] at hp
    cases hl : (annotate ρ l).const with
    | none => rw [hl] at hc; simp at hc
    | some cl =>
      cases hr : (annotate ρ r).const with
      | none => rw [hl, hr] at hc; simp at hc
      | some cr =>
        simp only [pureE, Bool.and_eq_true]
        exact ⟨annot_const_pure ρ ps imp l cl hp.1 hl, annot_const_pure ρ ps imp r cr hp.2 hr⟩
  | .str _, _, _, _ => rfl
  | .sub _ _, _, _, hc => by simp [annotate] at hc
  | .call _ _, _, _, hc => by simp [annotate] at hc
  | .syscall _ _, _, hp, _ => by simp [ppE] at hp

theorem pp_const_pure (ρ : String → Option Word) (ps imp : List String) (e : X.Expr) (c : CInt)
    (hp : ppE ps imp e = true) (hc : (optExpr (annotate ρ e)).const = some c) : pureE e = true :=
  annot_const_pure ρ ps imp e c hp (opt_const ρ e c hc).1

/-- An operand that does not need areg is call-free. -/
theorem pp_simple_pure (ρ : String → Option Word) (ps imp : List String) (e : X.Expr)
    (hp : ppE ps imp e = true) (h : needsAReg (optExpr (annotate ρ e)) = false) : pureE e = true := by
  rcases simple_cases_gen _ h with ⟨n, hn⟩ | ⟨bs, hb⟩ | ⟨c, hc⟩
  · cases e <;> simp [annotate] at hn
    rfl
  · cases e <;> simp [annotate, ppE] at hb hp
    rfl
  · exact pp_const_pure ρ ps imp e c hp hc

/-! ### `Sim` and the representation -/

theorem Sim.ofSame {σ σ' : X.St} (h : SameVars σ σ') : Sim σ σ' :=
  ⟨h.1.symm, h.2.2.1.symm, h.2.1.symm, h.2.2.2.1.symm, h.2.2.2.2.2.symm⟩

theorem Rep.sim {K : PCtx} {σ σ' : X.St} {mem : Mem} (h : Rep K σ mem) (hs : Sim σ σ') : Rep K σ' mem :=
  ⟨h.sp, fun n w hn => by have := h.vals n w hn; unfold ValBound at this ⊢; rw [← hs.2.2.1]; exact this,
   fun n w hn hr => h.vars n w hn (by rw [readName_sim K.xc n σ σ' hs]; exact hr), h.consts,
   fun n hv => h.locs n (by unfold IsVar at hv ⊢; rw [hs.2.2.1]; exact hv), h.above,
   fun n hn => by rw [← hs.2.2.1]; exact h.gvis n hn, by rw [← hs.2.2.2.2]; exact h.depth,
   fun n r hr => h.aptr n r (by rw [readName_sim K.xc n σ σ' hs]; exact hr),
   fun id cells hc => h.acells id cells (by rw [hs.2.1]; exact hc), h.strs⟩

theorem ExecAt.sim {t : Bool} {K : PCtx} {e' : AExpr} {v : Word} {σ σ' : X.St} (h : ExecAt t K e' v σ) (hs : Sim σ σ') :
    ExecAt t K e' v σ' := by
  intro gs code gs' i a b mem hg hat hr hsz hnl hci
  obtain ⟨b', mem', st, rep, frm⟩ := h gs code gs' i a b mem hg hat (hr.sim hs.symm) hsz hnl hci
  exact ⟨b', mem', by rw [← hs.2.2.2.1]; exact st, rep.sim hs, frm⟩

theorem ExecT.sim_right {t : Bool} {K : PCtx} {e' : AExpr} {v : Word} {σ σ' σ2 : X.St} (h : ExecT t K e' v σ σ')
    (hs : Sim σ' σ2) : ExecT t K e' v σ σ2 := by
  intro gs code gs' i a b mem hg hat hr hsz hnl hci
  obtain ⟨b', mem', st, rep, frm⟩ := h gs code gs' i a b mem hg hat hr hsz hnl hci
  exact ⟨b', mem', by rw [← hs.2.2.2.1]; exact st, rep.sim hs, frm⟩

theorem ExecP.sim {t : Bool} {K : PCtx} {e' : AExpr} {P : Word → Prop} {σ σ' : X.St} (h : ExecP t K e' P σ) (hs : Sim σ σ') :
    ExecP t K e' P σ' := by
  intro gs code gs' i a b mem hg hat hr hsz hnl hci
  obtain ⟨v, b', mem', hP, st, rep, frm⟩ := h gs code gs' i a b mem hg hat (hr.sim hs.symm) hsz hnl hci
  exact ⟨v, b', mem', hP, by rw [← hs.2.2.2.1]; exact st, rep.sim hs, frm⟩

theorem ExecB.sim {K : PCtx} {e' : AExpr} {v : Word} {σ σ' : X.St} (h : ExecB K e' v σ) (hs : Sim σ σ') :
    ExecB K e' v σ' := by
  intro gs code gs' i a b mem io hg hat hr hci
  exact h gs code gs' i a b mem io hg hat (hr.sim hs.symm) hci

theorem Opnd.sim {t : Bool} {K : PCtx} {E : AExpr} {v : Word} {σ σ' : X.St} (h : Opnd t K E v σ) (hs : Sim σ σ') :
    Opnd t K E v σ' :=
  ⟨h.a.sim hs, fun hn => (h.b hn).sim hs, fun hz m hr => h.z hz m (hr.sim hs.symm)⟩

/-! ### Purity of the class -/

/-- No name of `ps` is hidden by a local binding. -/
def NoLoc (ps : List String) (σ : X.St) : Prop := ∀ g, ps.contains g = true → σ.locals.lookup g = none

theorem NoLoc.sim {ps : List String} {σ σ' : X.St} (h : NoLoc ps σ) (hs : Sim σ σ') : NoLoc ps σ' :=
  fun g hg => by rw [← hs.2.2.1]; exact h g hg

mutual
theorem impE_pure (imp : String → Bool) : (e : X.Expr) → pureE e = true → X.impE imp e = false
  | .num _, _ => by simp [X.impE]
  | .bool _, _ => by simp [X.impE]
  | .name _, _ => by simp [X.impE]
  | .un _ x, h => by simp only [pureE] at h; simp only [X.impE]; exact impE_pure imp x h
  | .bin _ l r, h => by
    simp only [pureE, Bool.and_eq_true] at h
    simp only [X.impE, Bool.or_eq_false_iff]
    exact ⟨impE_pure imp l h.1, impE_pure imp r h.2⟩
  | .str _, _ => by simp [X.impE]
  | .sub _ i, h => by simp only [pureE] at h; simp only [X.impE]; exact impE_pure imp i h
  | .call _ _, h => by simp [pureE] at h
  | .syscall _ _, h => by simp [pureE] at h
end

theorem impL_pure (imp : String → Bool) : (es : List X.Expr) → (∀ e ∈ es, pureE e = true) → X.impL imp es = false
  | [], _ => by simp [X.impL]
  | e :: es, h => by
    simp only [X.impL, Bool.or_eq_false_iff]
    exact ⟨impE_pure imp e (h e (by simp)), impL_pure imp es (fun x hx => h x (by simp [hx]))⟩

section
variable (xc : X.Ctx) (ps : List String)
variable (hps : ∀ g, ps.contains g = true → ∃ p, xc.genv.lookup g = some (.proc p))
include hps

theorem pp_imp (L : List String) (hL : ∀ g, ps.contains g = true → L.contains g = false) :
    (e : X.Expr) → ppE ps xc.impure e = true → X.impE (imp0 xc L) e = false
  | .num _, _ => by simp [X.impE]
  | .bool _, _ => by simp [X.impE]
  | .name _, _ => by simp [X.impE]
  | .un _ x, h => by simp only [ppE] at h; simp only [X.impE]; exact pp_imp L hL x h
  | .bin _ l r, h => by
    simp only [ppE, Bool.and_eq_true] at h
    simp only [X.impE, Bool.or_eq_false_iff]
    exact ⟨pp_imp L hL l h.1, pp_imp L hL r h.2⟩
  | .str _, _ => by simp [X.impE]
  | .sub _ i, h => by simp only [ppE] at h; simp only [X.impE]; exact impE_pure _ i h
  | .syscall _ _, h => by simp [ppE] at h
  | .call g args, h => by
    simp only [ppE, Bool.and_eq_true, Bool.not_eq_true', List.all_eq_true] at h
    obtain ⟨⟨hg, hi⟩, ha⟩ := h
    simp only [X.impE, Bool.or_eq_false_iff]
    refine ⟨?_, impL_pure _ args ha⟩
    obtain ⟨p, hp⟩ := hps g hg
    unfold imp0
    rw [hL g hg, hp]
    simpa using hi

/-- Evaluating an expression of the class changes nothing but the step counter and the call log. -/
theorem eval_pp_sim (pk : PureOk xc) (fuel : Nat) (e : X.Expr) (σ : X.St) (v : Val) (σ' : X.St)
    (hp : ppE ps xc.impure e = true) (hn : NoLoc ps σ) (hev : X.eval fuel xc e σ = .ok v σ') : Sim σ σ' := by
  have hL : ∀ g, ps.contains g = true → (keys σ.locals).contains g = false := by
    intro g hg
    rw [← lookup_isSome_keys, hn g hg]
    rfl
  exact (((pure_all xc pk fuel).1 (keys σ.locals) e (pp_imp xc ps hps _ hL e hp)) σ rfl).1 v σ' hev

/-- ... and does not stop the program. -/
theorem eval_pp_noexit (pk : PureOk xc) (fuel : Nat) (e : X.Expr) (σ : X.St) (cd : Word) (σ' : X.St)
    (hp : ppE ps xc.impure e = true) (hn : NoLoc ps σ) : X.eval fuel xc e σ ≠ .exit cd σ' := by
  have hL : ∀ g, ps.contains g = true → (keys σ.locals).contains g = false := by
    intro g hg
    rw [← lookup_isSome_keys, hn g hg]
    rfl
  exact (((pure_all xc pk fuel).1 (keys σ.locals) e (pp_imp xc ps hps _ hL e hp)) σ rfl).2 cd σ'

theorem ppL_imp (L : List String) (hL : ∀ g, ps.contains g = true → L.contains g = false) :
    (es : List X.Expr) → (∀ e ∈ es, ppE ps xc.impure e = true) → X.impL (imp0 xc L) es = false
  | [], _ => by simp [X.impL]
  | e :: es, h => by
    simp only [X.impL, Bool.or_eq_false_iff]
    exact ⟨pp_imp xc ps hps L hL e (h e (by simp)), ppL_imp L hL es (fun x hx => h x (by simp [hx]))⟩

/-- The actuals of the class: no effect but on the step counter and the call log, no exit. -/
theorem evalArgs_pp (pk : PureOk xc) (fuel : Nat) (es : List X.Expr) (σ : X.St)
    (hp : ∀ e ∈ es, ppE ps xc.impure e = true) (hn : NoLoc ps σ) :
    (∀ vs σ', X.evalArgs fuel xc es σ = .ok vs σ' → Sim σ σ') ∧ (∀ cd σ', X.evalArgs fuel xc es σ ≠ .exit cd σ') := by
  have hL : ∀ g, ps.contains g = true → (keys σ.locals).contains g = false := by
    intro g hg
    rw [← lookup_isSome_keys, hn g hg]
    rfl
  exact ((pure_all xc pk fuel).2.1 (keys σ.locals) es (ppL_imp xc ps hps _ hL es hp)) σ rfl

end

/-! ### The expression theorem -/

/-- The triple of a call of a pure function with call-free actuals (provided by stage (4)). -/
def CallLeaf (K : PCtx) (ps : List String) (F : Nat) : Prop :=
  ∀ (g : String) (args : List X.Expr) (σ : X.St) (v : Word) (σ' : X.St),
    ps.contains g = true → K.xc.impure.contains g = false → (∀ a ∈ args, pureE a = true) → NoLoc ps σ →
    X.eval F K.xc (.call g args) σ = .ok (.int v) σ' →
    ExecAt false K (optExpr (annotate K.ρ (.call g args))) v σ

theorem opnd_pp (K : PCtx) (wf : K.WF) (ps imp : List String) (e : X.Expr) (fuel : Nat) (σ0 σ1 : X.St) (v : Word)
    (hp : ppE ps imp e = true) (hev : X.eval fuel K.xc e σ0 = .ok (.int v) σ1)
    (ha : ExecAt false K (optExpr (annotate K.ρ e)) v σ0) : Opnd false K (optExpr (annotate K.ρ e)) v σ0 :=
  ⟨ha, fun hn => execB_simple K wf e fuel σ0 σ1 v (pp_simple_pure K.ρ ps imp e hp hn) hev hn,
   fun hz m hr => by
    have hc : (optExpr (annotate K.ρ e)).const = some 0 := by
      unfold AExpr.isConstZero at hz; simpa using hz
    exact zero_of_constZero K e fuel σ0 σ1 v m (pp_const_pure K.ρ ps imp e 0 hp hc) hr hev hz⟩

/-- **Expressions with pure calls in operands.** -/
theorem expr_pp_correct (K : PCtx) (wf : K.WF) (ps : List String) (pk : PureOk K.xc)
    (hps : ∀ g, ps.contains g = true → ∃ p, K.xc.genv.lookup g = some (.proc p)) :
    ∀ (fuel : Nat), (∀ k, k ≤ fuel → CallLeaf K ps k) →
      ∀ (e : X.Expr) (σ : X.St) (v : Word) (σ' : X.St), ppE ps K.xc.impure e = true → NoLoc ps σ →
        X.eval fuel K.xc e σ = .ok (.int v) σ' → ExecAt false K (optExpr (annotate K.ρ e)) v σ := by
  intro fuel
  induction fuel with
  | zero => intro _ e σ v σ' _ _ h; unfold X.eval at h; simp at h
  | succ fuel ih =>
    intro hleaf e σ v σ' hpp hnl hev
    have ih' := ih (fun k hk => hleaf k (Nat.le_succ_of_le hk))
    by_cases hp : pureE e = true
    · exact (expr_pure_correct K wf (fuel + 1) e σ v σ' hp hev).weaken
    have hcn : (annotate K.ρ e).const = none := by
      cases h : (annotate K.ρ e).const with
      | none => rfl
      | some c => exact absurd (annot_const_pure K.ρ ps _ e c hpp h) hp
    cases e with
    | num x => exact absurd rfl hp
    | bool b => exact absurd rfl hp
    | name n => exact absurd rfl hp
    | str bs => exact absurd rfl hp
    | sub n i => simp only [ppE] at hpp; exact absurd (by simpa [pureE] using hpp) hp
    | syscall id args => simp [ppE] at hpp
    | call g args =>
      simp only [ppE, Bool.and_eq_true, Bool.not_eq_true', List.all_eq_true] at hpp
      exact hleaf (fuel + 1) (Nat.le_refl _) g args σ v σ' hpp.1.1 hpp.1.2 hpp.2 hnl hev
    | un op x =>
      simp only [ppE] at hpp
      have hc := hcn
      simp only [annotate, AExpr.const_un] at hc
      simp only [annotate]
      rw [optExpr_un, hc]
      simp only [Option.isNone_none, true_and, Option.isSome_none, Bool.false_eq_true, if_false]
      cases op with
      | neg =>
        simp only [if_true]
        obtain ⟨st, w, h1, h2, h3⟩ := eval_neg _ _ _ _ _ _ hev
        simp only [Val.int.injEq] at h3
        subst h3
        have hs : Sim st σ := (Sim.ofSame (tick_same _ _ _ h1)).symm
        have hO := (opnd_pp K wf ps _ x fuel st σ' w hpp h2 (ih' x st w σ' hpp (hnl.sim hs.symm) h2)).sim hs
        exact shape_minus K wf _ _ 0 w σ (execA_zero K wf σ) (fun _ => hO.a) hO.b
      | not =>
        simp only [reduceCtorEq, if_false]
        obtain ⟨st, w, h1, h2, _, h3⟩ := eval_not _ _ _ _ _ _ hev
        simp only [Val.int.injEq] at h3
        have hs : Sim st σ := (Sim.ofSame (tick_same _ _ _ h1)).symm
        have hA := (ih' x st w σ' hpp (hnl.sim hs.symm) h2).sim hs
        have := shape_not K wf _ w σ hA
        have hv : rtIsZero w = v := by
          rw [h3]; unfold rtIsZero X.b2w
          by_cases hz : w = 0 <;> simp [hz]
        rw [← hv]; exact this
    | bin op l r =>
      simp only [ppE, Bool.and_eq_true] at hpp
      have hc := hcn
      simp only [annotate, AExpr.const_bin] at hc
      simp only [annotate]
      rw [optExpr_bin, hc]
      simp only [Option.isSome_none, Bool.false_eq_true, if_false]
      by_cases hop : isArith op = true
      · obtain ⟨st, a, s1, b, w, h1, h2, h3, h4, h5⟩ := eval_arith _ _ _ _ _ _ _ _ hop hev
        simp only [Val.int.injEq] at h5
        subst h5
        have hs0 : Sim st σ := (Sim.ofSame (tick_same _ _ _ h1)).symm
        have hn0 := hnl.sim hs0.symm
        have hs01 := eval_pp_sim K.xc ps hps pk fuel l st _ s1 hpp.1 hn0 h2
        have hs1 : Sim s1 σ := hs01.symm.trans hs0
        have hn1 := hn0.sim hs01
        have hrt := arith_rt op a b v hop h4
        have hL := (opnd_pp K wf ps _ l fuel st s1 a hpp.1 h2 (ih' l st a s1 hpp.1 hn0 h2)).sim hs0
        have hR := (opnd_pp K wf ps _ r fuel s1 σ' b hpp.2 h3 (ih' r s1 b σ' hpp.2 hn1 h3)).sim hs1
        rw [← hrt]
        exact shape_arith K wf op _ _ a b σ hL hR hop
      · cases op <;> simp only [isArith, not_true_eq_false] at hop
        · -- and
          simp only [rewriteBin]
          obtain ⟨st, a, s1, h1, h2, hba, h4⟩ := eval_and _ _ _ _ _ _ _ hev
          have hs0 : Sim st σ := (Sim.ofSame (tick_same _ _ _ h1)).symm
          have hn0 := hnl.sim hs0.symm
          have hs01 := eval_pp_sim K.xc ps hps pk fuel l st _ s1 hpp.1 hn0 h2
          have hs1 : Sim s1 σ := hs01.symm.trans hs0
          have hn1 := hn0.sim hs01
          have hA := (ih' l st a s1 hpp.1 hn0 h2).sim hs0
          rcases h4 with ⟨ha0, hvv, _⟩ | ⟨ha0, b, h5, _, hvv⟩
          · simp only [Val.int.injEq] at hvv
            have := shape_and K wf _ (optExpr (annotate K.ρ r)) a 0 σ hA (fun h => absurd ha0 h)
            rw [if_pos ha0, ha0] at this
            rw [hvv]; exact this
          · simp only [Val.int.injEq] at hvv
            have hB := (ih' r s1 b σ' hpp.2 hn1 h5).sim hs1
            have := shape_and K wf _ _ a b σ hA (fun _ => hB)
            rw [if_neg ha0] at this
            rw [hvv]; exact this
        · -- or
          simp only [rewriteBin]
          obtain ⟨st, a, s1, h1, h2, hba, h4⟩ := eval_or _ _ _ _ _ _ _ hev
          have hs0 : Sim st σ := (Sim.ofSame (tick_same _ _ _ h1)).symm
          have hn0 := hnl.sim hs0.symm
          have hs01 := eval_pp_sim K.xc ps hps pk fuel l st _ s1 hpp.1 hn0 h2
          have hs1 : Sim s1 σ := hs01.symm.trans hs0
          have hn1 := hn0.sim hs01
          have hA := (ih' l st a s1 hpp.1 hn0 h2).sim hs0
          rcases h4 with ⟨ha1, hvv, _⟩ | ⟨ha1, b, h5, _, hvv⟩
          · simp only [Val.int.injEq] at hvv
            have hne : a ≠ 0 := by rw [ha1]; decide
            have := shape_or K wf _ (optExpr (annotate K.ρ r)) a 0 σ hA (fun h => absurd h hne)
            rw [if_neg hne, ha1] at this
            rw [hvv]; exact this
          · simp only [Val.int.injEq] at hvv
            have ha0 : a = 0 := by rcases isBool_cases a hba with h0 | h0 <;> simp_all
            have hB := (ih' r s1 b σ' hpp.2 hn1 h5).sim hs1
            have := shape_or K wf _ _ a b σ hA (fun _ => hB)
            rw [if_pos ha0] at this
            rw [hvv]; exact this

end Hex.C01s
