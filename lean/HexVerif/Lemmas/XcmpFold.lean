import HexVerif.Xcmp.ConstFold
/-! Lemmas relating xcmp's constant folding to the value of its generated code (used by
    `Properties/C07.lean`). -/
namespace Hex.Xcmp
open Hex.X (BinOp UnOp)

theorem toInt_eq_iff (a b : Word) : a.toInt = b.toInt ↔ a = b :=
  ⟨fun h => BitVec.eq_of_toInt_eq h, fun h => by rw [h]⟩

theorem sub_eq_zero_iff (a b : Word) : a - b = 0 ↔ a = b := by
  constructor
  · intro h; bv_omega
  · intro h; subst h; simp

theorem rtEq_spec (a b : Word) : rtEq a b = b2w (a.toInt == b.toInt) := by
  unfold rtEq rtIsZero b2w
  by_cases h : a = b
  · subst h
    have h1 : a - a = 0 := (sub_eq_zero_iff a a).mpr rfl
    rw [if_pos h1]
    simp
  · have h1 : ¬ (a - b = 0) := fun h0 => h ((sub_eq_zero_iff a b).mp h0)
    have h2 : (a.toInt == b.toInt) = false := by
      apply beq_false_of_ne
      exact fun h0 => h ((toInt_eq_iff a b).mp h0)
    rw [if_neg h1, h2]
    rfl

theorem rtLs_spec (a b : Word) (h : DiffFits a b) : rtLs a b = b2w (decide (a.toInt < b.toInt)) := by
  unfold rtLs rtIsNeg b2w
  have hm : (a - b).msb = decide ((a - b).toInt < 0) := by
    rw [BitVec.msb_eq_toInt]
  have hs : (a - b).toInt = a.toInt - b.toInt := by
    rw [BitVec.toInt_sub]
    unfold DiffFits at h
    apply Int.bmod_eq_of_le <;> omega
  rw [hm, hs]
  by_cases hlt : a.toInt < b.toInt
  · have h1 : decide (a.toInt - b.toInt < 0) = true := by
      apply decide_eq_true; omega
    rw [h1, decide_eq_true hlt]
  · have h1 : decide (a.toInt - b.toInt < 0) = false := by
      apply decide_eq_false; omega
    rw [h1, decide_eq_false hlt]

/-- Outside `DiffFits` the sign of the wrapped difference is the opposite of the mathematical order. -/
theorem rtLs_flips (a b : Word) (h : ¬ DiffFits a b) : rtLs a b = b2w (decide (¬ a.toInt < b.toInt)) := by
  unfold rtLs rtIsNeg b2w
  have hm : (a - b).msb = decide ((a - b).toInt < 0) := by
    rw [BitVec.msb_eq_toInt]
  have ha := BitVec.toInt_lt (x := a)
  have ha' := BitVec.le_toInt (x := a)
  have hb := BitVec.toInt_lt (x := b)
  have hb' := BitVec.le_toInt (x := b)
  unfold DiffFits at h
  rw [hm, BitVec.toInt_sub]
  by_cases hlt : a.toInt < b.toInt
  · -- difference < -2^31: wraps to positive
    have hd : a.toInt - b.toInt < -2147483648 := by omega
    have : (a.toInt - b.toInt).bmod (2 ^ 32) = a.toInt - b.toInt + 4294967296 := by
      rw [Int.bmod_def]; omega
    rw [this]
    have h1 : decide (a.toInt - b.toInt + 4294967296 < 0) = false := by apply decide_eq_false; omega
    have h2 : decide (¬ a.toInt < b.toInt) = false := by apply decide_eq_false; omega
    rw [h1, h2]
  · have hd : a.toInt - b.toInt > 2147483647 := by omega
    have : (a.toInt - b.toInt).bmod (2 ^ 32) = a.toInt - b.toInt - 4294967296 := by
      rw [Int.bmod_def]; omega
    rw [this]
    have h1 : decide (a.toInt - b.toInt - 4294967296 < 0) = true := by apply decide_eq_true; omega
    have h2 : decide (¬ a.toInt < b.toInt) = true := by apply decide_eq_true; omega
    rw [h1, h2]

/-- `<`: folding and generated code agree exactly on the pairs whose difference is representable. -/
theorem foldLs_eq_rtLs_iff (a b : Word) : foldBin .ls a b = rtBin .ls a b ↔ DiffFits a b := by
  constructor
  · intro h
    by_cases hd : DiffFits a b
    · exact hd
    · exfalso
      simp only [foldBin, rtBin, rtLs_flips a b hd] at h
      by_cases hlt : a.toInt < b.toInt
      · rw [decide_eq_true hlt, decide_eq_false (fun hn => hn hlt)] at h
        revert h; decide
      · rw [decide_eq_false hlt, decide_eq_true hlt] at h
        revert h; decide
  · intro hd
    simp only [foldBin, rtBin, rtLs_spec a b hd]

/-- Monadic operators: folding and generated code agree for every operand. -/
theorem foldUn_eq_rtUn (op : UnOp) (a : Word) : foldUn op a = rtUn op a := by
  cases op <;> simp [foldUn, rtUn, rtIsZero]

theorem isZero_b2w (c : Bool) : rtIsZero (b2w c) = b2w (!c) := by
  cases c <;> decide

/-- C07 for the diadic operators, all operand pairs, with the region of finding D23 excluded. -/
theorem foldBin_eq_rtBin (op : BinOp) (a b : Word)
    (hbool : logical op = true → IsBool a ∧ IsBool b)
    (hdiff : ordering op = true → DiffFits a b ∧ DiffFits b a) :
    foldBin op a b = rtBin op a b := by
  cases op
  case plus => rfl
  case minus => rfl
  case eq => simp only [foldBin, rtBin, rtEq_spec]
  case ne =>
    simp only [foldBin, rtBin, rtEq_spec, isZero_b2w, bne]
  case ls =>
    have h := (hdiff rfl).1
    simp only [foldBin, rtBin, rtLs_spec a b h]
  case ge =>
    have h := (hdiff rfl).1
    simp only [foldBin, rtBin, rtLs_spec a b h, isZero_b2w]
    by_cases hlt : a.toInt < b.toInt
    · have h1 : ¬ (a.toInt ≥ b.toInt) := by omega
      rw [decide_eq_true hlt, decide_eq_false h1]; rfl
    · have h1 : a.toInt ≥ b.toInt := by omega
      rw [decide_eq_false hlt, decide_eq_true h1]; rfl
  case gr =>
    have h := (hdiff rfl).2
    simp only [foldBin, rtBin, rtLs_spec b a h, gt_iff_lt]
  case le =>
    have h := (hdiff rfl).2
    simp only [foldBin, rtBin, rtLs_spec b a h, isZero_b2w]
    by_cases hlt : b.toInt < a.toInt
    · have h1 : ¬ (a.toInt ≤ b.toInt) := by omega
      rw [decide_eq_true hlt, decide_eq_false h1]; rfl
    · have h1 : a.toInt ≤ b.toInt := by omega
      rw [decide_eq_false hlt, decide_eq_true h1]; rfl
  case and =>
    obtain ⟨_, hb⟩ := hbool rfl
    simp only [foldBin, rtBin]
    by_cases ha0 : a = 0
    · rw [if_pos ha0, if_pos ha0, ha0]
    · rw [if_neg ha0, if_neg ha0]
      rcases hb with hb | hb <;> rw [hb] <;> decide
  case or =>
    obtain ⟨ha, hb⟩ := hbool rfl
    simp only [foldBin, rtBin]
    rcases ha with ha | ha <;> rcases hb with hb | hb <;> rw [ha, hb] <;> decide

/-- A constant sub-tree evaluates at run time to its folded value. -/
theorem runVal_of_const (ρ : Nat → Word) :
    ∀ (e : CExpr) (c : Word), constVal e = some c → FoldSafe e → runVal ρ e = c := by
  intro e
  induction e with
  | num v => intro c h _; simpa [constVal, runVal] using h
  | leaf i => intro c h _; simp [constVal] at h
  | un op e ih =>
    intro c h hs
    simp only [constVal, Option.map_eq_some_iff] at h
    obtain ⟨a, ha, hc⟩ := h
    obtain ⟨hse, _⟩ := hs
    simp only [runVal, ih a ha hse, ← foldUn_eq_rtUn, hc]
  | bin op l r ihl ihr =>
    intro c h hs
    obtain ⟨hsl, hsr, hside⟩ := hs
    simp only [constVal] at h
    cases hl : constVal l with
    | none => simp [hl] at h
    | some a =>
      cases hr : constVal r with
      | none => simp [hl, hr] at h
      | some b =>
        simp only [hl, hr, Option.some.injEq] at h
        simp only [hl, hr] at hside
        simp only [runVal, ihl a hl hsl, ihr b hr hsr]
        rw [← h]
        symm
        apply foldBin_eq_rtBin
        · intro hlog; cases op <;> simp_all [logical]
        · intro hord; cases op <;> simp_all [ordering]

/-- The code generated after folding and rewriting computes the all-run-time value. -/
theorem codeVal_eq_runVal (ρ : Nat → Word) (e : CExpr) (hs : FoldSafe e) : codeVal ρ e = runVal ρ e := by
  induction e with
  | num v => rfl
  | leaf i => rfl
  | un op e ih =>
    have hse : FoldSafe e := hs.1
    simp only [codeVal]
    cases hc : constVal (.un op e) with
    | none => simp only [runVal, ih hse]
    | some c => simp only [runVal_of_const ρ (.un op e) c hc hs]
  | bin op l r ihl ihr =>
    have hsl : FoldSafe l := hs.1
    have hsr : FoldSafe r := hs.2.1
    simp only [codeVal]
    cases hl : constVal l with
    | none => simp only [runVal, ihl hsl, ihr hsr]
    | some a =>
      cases hr : constVal r with
      | none => simp only [runVal, ihl hsl, ihr hsr]
      | some b =>
        simp only []
        by_cases hrw : rewritten op = true
        · simp only [hrw, if_true, runVal, runVal_of_const ρ l a hl hsl, runVal_of_const ρ r b hr hsr]
        · have hc : constVal (.bin op l r) = some (foldBin op a b) := by simp [constVal, hl, hr]
          simp only [hrw]
          rw [runVal_of_const ρ (.bin op l r) _ hc hs]
          simp

end Hex.Xcmp
