import HexVerif.Lemmas.XcmpStage4Callee
import HexVerif.Lemmas.XcmpActualsP
/-!
  Stage (4), the caller: the code of `genFuncCall` / `genProcCall` with call-free actuals, given
  the specification of the callee.
-/
namespace Hex.C01s
open Hex Hex.X Hex.Xcmp Hex.IAm Hex.Asm

theorem callUser_zero (ctx : X.Ctx) (p : X.Proc) (vs : List Val) (st : X.St) :
    X.callUser 0 ctx p vs st = .undef "out of fuel" := by
  unfold X.callUser; rfl

/-- A call leaves the caller's bindings and depth as they were. -/
theorem callUser_frame (fuel : Nat) (ctx : X.Ctx) (p : X.Proc) (vs : List Val) (st : X.St) (res : Option Word) (s' : X.St)
    (h : X.callUser fuel ctx p vs st = .ok res s') : s'.locals = st.locals ∧ s'.depth = st.depth := by
  cases fuel with
  | zero => rw [callUser_zero] at h; simp at h
  | succ f =>
    rw [callUser_succ] at h
    split at h
    · simp at h
    · split at h
      · simp at h
      · dsimp only at h
        split at h
        · simp at h
        · rename_i _ fb _ _ lb _
          cases hx : X.exec f ctx p.body
              { st with locals := fb ++ lb, depth := st.depth + 1, calls := p.name :: st.calls } with
          | undef w => rw [hx] at h; simp [Res.bind] at h
          | exit c s => rw [hx] at h; simp [Res.bind] at h
          | ok fl s =>
            rw [hx] at h
            simp only [Res.bind] at h
            split at h <;> simp at h
            · exact ⟨by rw [← h.2], by rw [← h.2]⟩
            · exact ⟨by rw [← h.2], by rw [← h.2]⟩

/-- After the callee has returned, the caller's memory represents the state of the reference
    semantics again: its own frame is as it was (from slot `q` on), the globals are the callee's. -/
theorem rep_return {G : GCtx} (ok : G.OK) {pi : PInfo} (hpi : pi ∈ G.procs) (sp dep : Nat) (hi : Nat → Word)
    (hlo : G.lo ≤ sp) (hspv : sp + G.S pi + pi.po + pi.p.formals.length ≤ G.spv + 1) {s s' : X.St} {mem1 mem2 : Mem}
    (rep : Rep (KOf G pi sp dep hi) s mem1) (hg : GRep G s' mem2)
    (hloc : s'.locals = s.locals) (hdep : s'.depth = s.depth) (h1 : mem2.read 1 = BitVec.ofNat 32 sp) (q : Nat)
    (hkeep : ∀ x, sp + q ≤ x → ¬ G.inArr x → mem2.read x = mem1.read x) (hq : pi.p.locals.length + q ≤ G.S pi) :
    Rep (KOf G pi sp dep hi) s' mem2 := by
  have wf := ok.wfs pi hpi sp dep hi hlo hspv
  exact {
    sp := h1
    vals := by
      intro n w h
      have := rep.vals n w h
      unfold ValBound at this ⊢
      rw [hloc]
      exact this
    vars := by
      intro n w hρ hr
      change X.readName G.xc s' n = .ok (.int w) at hr
      cases hl : s'.locals.lookup n with
      | some b =>
        have hl0 : s.locals.lookup n = some b := by rw [← hloc]; exact hl
        have hr0 : X.readName G.xc s n = .ok (.int w) := by
          unfold X.readName at hr ⊢
          rw [hl] at hr
          rw [hl0]
          cases b with
          | var o => cases o <;> exact hr
          | _ => exact hr
        obtain ⟨a, ha, hlt, hv⟩ := rep.vars n w hρ hr0
        refine ⟨a, ha, hlt, ?_⟩
        have hge : sp + q ≤ a := by
          rcases wf.loc_sep n a ha with hlow | hhigh
          · have hng := ok.low_global pi hpi sp n a hlo ha hlow
            have := rep.gvis n (List.mem_append_left _ hng)
            rw [hl0] at this
            simp at this
          · have : sp + G.S pi ≤ a + pi.p.locals.length := hhigh
            omega
        rw [hkeep a hge (wf.loc_na n a ha)]
        exact hv
      | none =>
        unfold X.readName at hr
        rw [hl] at hr
        simp only at hr
        cases hgv : G.xc.genv.lookup n with
        | none => rw [hgv] at hr; simp at hr
        | some g =>
          rw [hgv] at hr
          cases g with
          | val w' => have := (ok.rho_ok n w').mp hgv; rw [show G.rho n = none from hρ] at this; simp at this
          | array id => simp at hr
          | proc q => simp at hr
          | var =>
            simp only at hr
            have hn : n ∈ G.gnames := ok.genv_vars n hgv
            cases hgl : s'.gvars.lookup n with
            | none => rw [hgl] at hr; simp at hr
            | some o =>
              rw [hgl] at hr
              cases o with
              | none => simp at hr
              | some w' =>
                simp only [Except.ok.injEq, Val.int.injEq] at hr
                subst hr
                obtain ⟨a, ha, hm⟩ := hg.gvars n w' hgv hgl
                have hlt := ok.gloc_lo n hn a ha
                have htop := ok.top
                refine ⟨a, ?_, by unfold memWords at *; omega, hm⟩
                show G.locOf pi sp n = _
                rw [ok.gloc_ok pi hpi _ n hn]; exact ha
    consts := hg.consts
    locs := by
      intro n hv
      apply rep.locs n
      unfold IsVar at hv ⊢
      rw [← hloc]
      exact hv
    above := by
      intro a ha hna
      have : sp + G.S pi ≤ a := ha
      rw [hkeep a (by omega) hna]
      exact rep.above a ha hna
    gvis := by
      intro n hn
      rw [hloc]
      exact rep.gvis n hn
    depth := by rw [hdep]; exact rep.depth
    aptr := by
      intro n r hr
      change X.readName G.xc s' n = .ok (.arr r) at hr
      cases hl : s'.locals.lookup n with
      | some b =>
        have hl0 : s.locals.lookup n = some b := by rw [← hloc]; exact hl
        have hr0 : X.readName G.xc s n = .ok (.arr r) := by
          unfold X.readName at hr ⊢
          rw [hl] at hr
          rw [hl0]
          cases b with
          | var o => cases o <;> exact hr
          | _ => exact hr
        obtain ⟨a, ha, hlt, hv⟩ := rep.aptr n r hr0
        refine ⟨a, ha, hlt, ?_⟩
        have hge : sp + q ≤ a := by
          rcases wf.loc_sep n a ha with hlow | hhigh
          · have hng := ok.low_global pi hpi sp n a hlo ha hlow
            have := rep.gvis n (List.mem_append_left _ hng)
            rw [hl0] at this
            simp at this
          · have : sp + G.S pi ≤ a + pi.p.locals.length := hhigh
            omega
        rw [hkeep a hge (wf.loc_na n a ha)]
        exact hv
      | none =>
        unfold X.readName at hr
        rw [hl] at hr
        simp only at hr
        cases hgv : G.xc.genv.lookup n with
        | none => rw [hgv] at hr; simp at hr
        | some g =>
          rw [hgv] at hr
          cases g with
          | val w' => simp at hr
          | proc q => simp at hr
          | var =>
            exfalso
            simp only at hr
            cases hgl : s'.gvars.lookup n with
            | none => rw [hgl] at hr; simp at hr
            | some o => rw [hgl] at hr; cases o <;> simp at hr
          | array id =>
            simp only [Except.ok.injEq, Val.arr.injEq] at hr
            have hn := ok.genv_arrs n id hgv
            obtain ⟨a, ha, hm⟩ := hg.aptr n id hgv
            have hlt := ok.gloc_lo n hn a ha
            have htop := ok.top
            subst hr
            refine ⟨a, ?_, by unfold memWords at *; omega, hm⟩
            show G.locOf pi sp n = _
            rw [ok.gloc_ok pi hpi _ n hn]; exact ha
    acells := hg.acells
    strs := hg.strs }

def PInfo.callKind (pj : PInfo) : CallKind := if pj.p.isFunc then .func pj.p.name else .proc pj.p.name

theorem callKind_po (pj : PInfo) : pj.callKind.paramOffset = pj.po := by
  unfold PInfo.callKind PInfo.po
  split <;> rfl

theorem toNat_ofNat_lt (n : Nat) (h : n < 2 ^ 32) : (BitVec.ofNat 32 n).toNat = n := by
  simp only [BitVec.toNat_ofNat]; omega

/-- **The branch and link of a user call**, with the actuals already in the outgoing area. -/
theorem exec_calltail {G : GCtx} (ok : G.OK) (fuel : Nat) (hcs : CallSpec G fuel) {pi : PInfo} (hpi : pi ∈ G.procs)
    {pj : PInfo} (hpj : pj ∈ G.procs) (sp dep : Nat) (hi : Nat → Word) (hlo : G.lo ≤ sp) (hspv : sp + G.S pi + pi.po + pi.p.formals.length ≤ G.spv + 1)
    (hstack : G.spv ≤ sp + dep * G.smax) (s : X.St) (ws : List Val)
    (lc off j : Nat) (a1 b1 : Word) (mem1 : Mem)
    (hat2 : At G.env.ds j (lowerCode G.cg (callTail pj.callKind lc)))
    (rep1s : Rep (KOf G pi sp dep hi) s mem1)
    (hvals : ∀ k (hk : k < ws.length), G.VRep ws[k] (mem1.read (sp + pj.po + k)))
    (hroom : pj.po + ws.length ≤ G.S pi) (hq : pi.p.locals.length + pj.po ≤ G.S pi) (hoff : pj.po + off ≤ G.S pi) :
    match X.callUser fuel G.xc pj.p ws s with
    | .ok res s' => ∃ a' b' mem', Steps G.env (cfg j a1 b1 mem1) s.io
          (cfg (j + (lowerCode G.cg (callTail pj.callKind lc)).length) a' b' mem') s'.io ∧
        Rep (KOf G pi sp dep hi) s' mem' ∧ (pj.p.isFunc = true → ∀ w, res = some w → a' = w) ∧
        FrmC (KOf G pi sp dep hi) off (G.S pi) mem1 mem'
    | .exit cd s' => ∃ c, Steps G.env (cfg j a1 b1 mem1) s.io c s'.io ∧ Exit G.env c s'.io cd
    | .undef _ => True := by
  have wf := ok.wfs pi hpi sp dep hi hlo hspv
  have hfrm : ∀ (q : Nat) (mem1 mem2 : Mem), q + off ≤ G.S pi → (∀ x, sp + q ≤ x → ¬ G.inArr x → mem2.read x = mem1.read x) →
      FrmC (KOf G pi sp dep hi) off (G.S pi) mem1 mem2 := by
    intro q mem1 mem2 hq hk a hsp hna hne
    have hsp' : sp ≤ a := hsp
    by_cases ha : sp + q ≤ a
    · exact hk a ha hna
    · exfalso
      apply hne (G.S pi - 1 - (a - sp)) (by omega) (by omega)
      show a = sp + G.S pi - 1 - (G.S pi - 1 - (a - sp))
      omega
  have grep := Rep.toG ok hpi rep1s
  have hdep : s.depth = dep := rep1s.depth
  have hpo := po_pos pj
  -- the branch and link
  have hproL := (ok.at_pro pj hpj).head
  have lPro := labelIdx_of_nodup _ _ _ _ ok.nodup hproL
  cases hf : pj.p.isFunc with
  | true =>
    have hk : pj.callKind = .func pj.p.name := by unfold PInfo.callKind; rw [hf]; rfl
    have hpo2 : pj.po = 2 := by unfold PInfo.po; rw [hf]; rfl
    rw [hk] at hat2 ⊢
    have htail : lowerCode G.cg (callTail (.func pj.p.name) lc)
        = [.ref 0x5 (lab lc) true, .ref 0x9 pj.p.name true, .label .plain (lab lc),
           .imm 0x0 1, .imm 0x6 1] := rfl
    rw [htail] at hat2 ⊢
    have t0 := hat2.get 0 _ rfl
    have t1 := hat2.get 1 _ rfl
    have t2 := hat2.get 2 _ rfl
    have t3 := hat2.get 3 _ rfl
    have t4 := hat2.get 4 _ rfl
    simp only [Nat.add_zero] at t0
    have lLnk := labelIdx_of_nodup _ _ _ _ ok.nodup t2
    have haddr := ok.addr_lt _ _ _ t2
    have sLdap := Step.ldapL (env := G.env) (cfg (j) a1 b1 mem1) s.io _ _ t0 lLnk
    have sBr := Step.br (env := G.env)
      (cfg (j + 1) (BitVec.ofNat 32 (G.env.addr (j + 2))) b1 mem1)
      s.io _ _ t1 lPro
    have hspec := hcs pj hpj ws s (BitVec.ofNat 32 (G.env.addr (j + 2))) b1 mem1 sp
      (j + 2) .plain _ grep rep1s.sp
      (fun j hj => hvals j hj)
      (by rw [hdep]; exact hstack) (by omega) hlo t2 (toNat_ofNat_lt _ haddr).symm
    cases hx : X.callUser fuel G.xc pj.p ws s with
    | undef w => trivial
    | exit cd s' =>
      rw [hx] at hspec
      obtain ⟨c, hs, he⟩ := hspec
      exact ⟨c, Steps.step _ _ _ _ _ _ sLdap (Steps.step _ _ _ _ _ _ sBr hs), he⟩
    | ok res s' =>
      rw [hx] at hspec
      obtain ⟨a2, b2, mem2, hs, grep2, h21, hkeep, hres, _⟩ := hspec
      obtain ⟨hl', hd'⟩ := callUser_frame _ _ _ _ _ _ _ hx
      have rep2 := rep_return ok hpi sp dep hi hlo hspv rep1s grep2 hl' hd' h21 2
        (fun x hx hna => hkeep x (by omega) (by omega) hna) (by omega)
      have sLab := Step.label (env := G.env) (cfg (j + 2) a2 b2 mem2) s'.io _ _ t2
      have sLdam := Step.ldam (env := G.env) (cfg (j + 2 + 1) a2 b2 mem2) s'.io 1 _ t3 (ld_one mem2)
      have hs1lt : sp + 1 < memWords := by have := ok.top; unfold memWords at *; omega
      have l3 : Isa.ld mem2 (mem2.read 1 + IAm.W 1) = some (mem2.read (sp + 1)) := by
        rw [h21, W_one]
        have := ofNat_add_W sp 1
        rw [show IAm.W ((1 : Nat) : Int) = 1 from W_one] at this
        rw [this, ld_ofNat _ _ hs1lt]
      have sLdai := Step.ldai (env := G.env) (cfg (j + 2 + 1 + 1) (mem2.read 1) b2 mem2) s'.io 1 _ t4 l3
      refine ⟨mem2.read (sp + 1), b2, mem2, ?_, rep2, fun _ w hw => hres w hw,
        hfrm 2 mem1 mem2 (by omega) (fun x hx hna => hkeep x (by omega) (by omega) hna)⟩
      have : j + [Dir.ref 0x5 (lab lc) true, .ref 0x9 pj.p.name true,
          .label .plain (lab lc), .imm 0x0 1, .imm 0x6 1].length
          = j + 2 + 1 + 1 + 1 := by simp
      rw [this]
      exact Steps.step _ _ _ _ _ _ sLdap (Steps.step _ _ _ _ _ _ sBr (hs.trans
        (Steps.step _ _ _ _ _ _ sLab (Steps.step _ _ _ _ _ _ sLdam (Steps.one sLdai)))))
  | false =>
    have hk : pj.callKind = .proc pj.p.name := by unfold PInfo.callKind; rw [hf]; rfl
    have hpo1 : pj.po = 1 := by unfold PInfo.po; rw [hf]; rfl
    rw [hk] at hat2 ⊢
    have htail : lowerCode G.cg (callTail (.proc pj.p.name) lc)
        = [.ref 0x5 (lab lc) true, .ref 0x9 pj.p.name true, .label .plain (lab lc)] := rfl
    rw [htail] at hat2 ⊢
    have t0 := hat2.get 0 _ rfl
    have t1 := hat2.get 1 _ rfl
    have t2 := hat2.get 2 _ rfl
    simp only [Nat.add_zero] at t0
    have lLnk := labelIdx_of_nodup _ _ _ _ ok.nodup t2
    have haddr := ok.addr_lt _ _ _ t2
    have sLdap := Step.ldapL (env := G.env) (cfg (j) a1 b1 mem1) s.io _ _ t0 lLnk
    have sBr := Step.br (env := G.env)
      (cfg (j + 1) (BitVec.ofNat 32 (G.env.addr (j + 2))) b1 mem1)
      s.io _ _ t1 lPro
    have hspec := hcs pj hpj ws s (BitVec.ofNat 32 (G.env.addr (j + 2))) b1 mem1 sp
      (j + 2) .plain _ grep rep1s.sp
      (fun j hj => hvals j hj)
      (by rw [hdep]; exact hstack) (by omega) hlo t2 (toNat_ofNat_lt _ haddr).symm
    cases hx : X.callUser fuel G.xc pj.p ws s with
    | undef w => trivial
    | exit cd s' =>
      rw [hx] at hspec
      obtain ⟨c, hs, he⟩ := hspec
      exact ⟨c, Steps.step _ _ _ _ _ _ sLdap (Steps.step _ _ _ _ _ _ sBr hs), he⟩
    | ok res s' =>
      rw [hx] at hspec
      obtain ⟨a2, b2, mem2, hs, grep2, h21, hkeep, _, hsame⟩ := hspec
      obtain ⟨hl', hd'⟩ := callUser_frame _ _ _ _ _ _ _ hx
      have rep2 := rep_return ok hpi sp dep hi hlo hspv rep1s grep2 hl' hd' h21 1
        (fun x hx hna => by
          by_cases h1 : x = sp + 1
          · subst h1; exact hsame hf
          · exact hkeep x (by omega) h1 hna) (by omega)
      have sLab := Step.label (env := G.env) (cfg (j + 2) a2 b2 mem2) s'.io _ _ t2
      refine ⟨a2, b2, mem2, ?_, rep2, fun h => by simp at h,
        hfrm 1 mem1 mem2 (by omega) (fun x hx hna => by
          by_cases h1 : x = sp + 1
          · subst h1; exact hsame hf
          · exact hkeep x (by omega) h1 hna)⟩
      have : j + [Dir.ref 0x5 (lab lc) true, .ref 0x9 pj.p.name true,
          .label .plain (lab lc)].length
          = j + 2 + 1 := by simp
      rw [this]
      exact Steps.step _ _ _ _ _ _ sLdap (Steps.step _ _ _ _ _ _ sBr (hs.trans (Steps.one sLab)))


/-- **A user call with call-free actuals**, as a statement or as the whole right-hand side: the
    code of `genFuncCall` / `genProcCall`, given the specification of callees. -/
theorem exec_usercall {G : GCtx} (ok : G.OK) (fuel : Nat) (hcs : CallSpec G fuel) {pi : PInfo} (hpi : pi ∈ G.procs)
    {pj : PInfo} (hpj : pj ∈ G.procs) (sp dep : Nat) (hi : Nat → Word) (hlo : G.lo ≤ sp) (hspv : sp + G.S pi + pi.po + pi.p.formals.length ≤ G.spv + 1)
    (hstack : G.spv ≤ sp + dep * G.smax)
    (es : List X.Expr) (fuel' : Nat) (st s : X.St) (ws : List Val) (hp : ∀ e ∈ es, pureE e = true)
    (hev : X.evalArgs fuel' G.xc es st = .ok ws s)
    (gs : GS) (code : Code) (gs' : GS) (i : Nat) (a b : Word) (mem : Mem)
    (hg : callSeq pj.callKind (optArgsOf G.rho es).length (countCalls (optArgsOf G.rho es))
            (genCallActuals (G.ctxOf pi) (optArgsOf G.rho es))
            (fun p sv => loadActuals (G.ctxOf pi) (optArgsOf G.rho es) p sv) gs = .ok (code, gs'))
    (hat : At G.env.ds i (lowerCode G.cg code)) (hr : Rep (KOf G pi sp dep hi) st mem)
    (hsz : gs'.size ≤ G.S pi) (hnl : pi.p.locals.length ≤ gs.offset) (hci : ConstsIn (KOf G pi sp dep hi) gs') :
    match X.callUser fuel G.xc pj.p ws s with
    | .ok res s' => ∃ a' b' mem', Steps G.env (cfg i a b mem) st.io (cfg (i + (lowerCode G.cg code).length) a' b' mem') s'.io ∧
        Rep (KOf G pi sp dep hi) s' mem' ∧ (pj.p.isFunc = true → ∀ w, res = some w → a' = w) ∧
        FrmC (KOf G pi sp dep hi) gs.offset (G.S pi) mem mem'
    | .exit cd s' => ∃ c, Steps G.env (cfg i a b mem) st.io c s'.io ∧ Exit G.env c s'.io cd
    | .undef _ => True := by
  have wf := ok.wfs pi hpi sp dep hi hlo hspv
  have hfrm : ∀ (q : Nat) (mem1 mem2 : Mem), q + gs.offset ≤ G.S pi → (∀ x, sp + q ≤ x → ¬ G.inArr x → mem2.read x = mem1.read x) →
      FrmC (KOf G pi sp dep hi) gs.offset (G.S pi) mem1 mem2 := by
    intro q mem1 mem2 hq hk a hsp hna hne
    have hsp' : sp ≤ a := hsp
    by_cases ha : sp + q ≤ a
    · exact hk a ha hna
    · exfalso
      apply hne (G.S pi - 1 - (a - sp)) (by omega) (by omega)
      show a = sp + G.S pi - 1 - (G.S pi - 1 - (a - sp))
      omega
  obtain ⟨c1, gs1, c2, gs2, h1, h2, hcode, hgs'⟩ := callSeq_inv _ _ _ _ _ _ _ _ hg
  obtain ⟨hnc, hcnt⟩ := genCallActuals_noCall (G.ctxOf pi) (optArgsOf G.rho es) { gs with size := gs.offset }
    (optArgsOf_noCall _ es hp)
  rw [hnc] at h1
  simp only [Except.ok.injEq, Prod.mk.injEq] at h1
  obtain ⟨hc1, hgs1⟩ := h1
  subst hc1; subst hgs1
  rw [hcnt, callKind_po] at h2
  simp only [bumpN] at h2
  have hlen : (optArgsOf G.rho es).length = es.length := by simp [optArgsOf]
  subst hgs'
  simp only [callKind_po, hlen] at hsz hci
  subst hcode
  simp only [List.nil_append, lowerCode_append] at hat ⊢
  have e2 := loadActuals_eff _ _ _ _ _ _ _ h2
  have ho : gs.offset ≤ gs2.size := e2.2.1
  have hb : gs2.size + (es.length + pj.po) ≤ G.S pi := Nat.le_trans (Nat.le_max_right _ _) hsz
  have hwl : ws.length = es.length := by
    have := evalArgs_length G.xc es fuel' st s _ hev
    simpa using this
  have hs2 := evalArgs_pure G.xc es fuel' st s _ hp hev
  have hpo := po_pos pj
  obtain ⟨a1, b1, mem1, st1, rep1, hvals, _, frm1⟩ := exec_loadActualsV (KOf G pi sp dep hi) wf.toWF es fuel' st s ws hp hev
    pj.po gs.offset _ c2 gs2 i a b mem st.io rfl h2 hat.left hr (by show gs2.size + (pj.po + es.length) ≤ G.S pi; omega) hnl
    (Nat.le_refl _) (fun x hx => hci x hx)
  have rep1s : Rep (KOf G pi sp dep hi) s mem1 := rep1.same hs2
  have grep := Rep.toG ok hpi rep1s
  have hdep : s.depth = dep := rep1s.depth
  -- the branch and link
  have hat2 : At G.env.ds (i + (lowerCode G.cg c2).length) (lowerCode G.cg (callTail pj.callKind gs2.labelCount)) := hat.right
  have hio : s.io = st.io := hs2.2.2.2.1
  have hct := exec_calltail ok fuel hcs hpi hpj sp dep hi hlo hspv hstack s ws gs2.labelCount gs.offset
    (i + (lowerCode G.cg c2).length) a1 b1 mem1 hat2 rep1s (fun k hk => hvals k hk) (by omega) (by omega) (by omega)
  cases hx : X.callUser fuel G.xc pj.p ws s with
  | undef w => trivial
  | exit cd s' =>
    rw [hx] at hct
    obtain ⟨c, hs, he⟩ := hct
    rw [hio] at hs
    exact ⟨c, st1.trans hs, he⟩
  | ok res s' =>
    rw [hx] at hct
    obtain ⟨a', b', mem', hs, rep', hres, frm2⟩ := hct
    rw [hio] at hs
    refine ⟨a', b', mem', ?_, rep', hres, frm1.trans frm2⟩
    rw [List.length_append, ← Nat.add_assoc]
    exact st1.trans hs

theorem noLoc_of_rep {G : GCtx} {pi : PInfo} {sp dep : Nat} {hi : Nat → Word} {σ : X.St} {mem : Mem}
    (rep : Rep (KOf G pi sp dep hi) σ mem) : NoLoc G.pnames σ := by
  intro g hg
  exact rep.gvis g (List.mem_append_right _ (by simpa using hg))

/-- **A user call whose actuals may contain calls of pure functions.** -/
theorem exec_usercallP {G : GCtx} (ok : G.OK) (pk : PureOk G.xc) (fuel : Nat) (hcs : CallSpec G fuel) {pi : PInfo} (hpi : pi ∈ G.procs)
    {pj : PInfo} (hpj : pj ∈ G.procs) (sp dep : Nat) (hi : Nat → Word) (hlo : G.lo ≤ sp) (hspv : sp + G.S pi + pi.po + pi.p.formals.length ≤ G.spv + 1)
    (hstack : G.spv ≤ sp + dep * G.smax)
    (es : List X.Expr) (fuel' : Nat) (hleaf : ∀ k, k ≤ fuel' → CallLeaf (KOf G pi sp dep hi) G.pnames k)
    (st s : X.St) (ws : List Val) (hp : ∀ e ∈ es, ppE G.pnames G.xc.impure e = true)
    (hev : X.evalArgs fuel' G.xc es st = .ok ws s)
    (gs : GS) (code : Code) (gs' : GS) (i : Nat) (a b : Word) (mem : Mem)
    (hg : callSeq pj.callKind (optArgsOf G.rho es).length (countCalls (optArgsOf G.rho es))
            (genCallActuals (G.ctxOf pi) (optArgsOf G.rho es))
            (fun p sv => loadActuals (G.ctxOf pi) (optArgsOf G.rho es) p sv) gs = .ok (code, gs'))
    (hat : At G.env.ds i (lowerCode G.cg code)) (hr : Rep (KOf G pi sp dep hi) st mem)
    (hsz : gs'.size ≤ G.S pi) (hnl : pi.p.locals.length ≤ gs.offset) (hci : ConstsIn (KOf G pi sp dep hi) gs') :
    match X.callUser fuel G.xc pj.p ws s with
    | .ok res s' => ∃ a' b' mem', Steps G.env (cfg i a b mem) st.io (cfg (i + (lowerCode G.cg code).length) a' b' mem') s'.io ∧
        Rep (KOf G pi sp dep hi) s' mem' ∧ (pj.p.isFunc = true → ∀ w, res = some w → a' = w) ∧
        FrmC (KOf G pi sp dep hi) gs.offset (G.S pi) mem mem'
    | .exit cd s' => ∃ c, Steps G.env (cfg i a b mem) st.io c s'.io ∧ Exit G.env c s'.io cd
    | .undef _ => True := by
  have wf := ok.wfs pi hpi sp dep hi hlo hspv
  have hps : ∀ g, G.pnames.contains g = true → ∃ p, G.xc.genv.lookup g = some (.proc p) :=
    fun g hg => ok.pnames_mem g (by simpa using hg)
  obtain ⟨hsim, hlenv, hsave, hload⟩ := ppArgs_specs (KOf G pi sp dep hi) wf.toWF G.pnames pk hps es fuel' hleaf st st s ws
    hp (Sim.refl _) (noLoc_of_rep hr) hev
  obtain ⟨c1, gs1, c2, gs2, h1, h2, hcode, hgs'⟩ := callSeq_inv _ _ _ _ _ _ _ _ hg
  have hlen : (optArgsOf G.rho es).length = es.length := by simp [optArgsOf]
  have hlenW : (optArgsOf G.rho es).length = (ws.map (KOf G pi sp dep hi).VRep).length := by simp [optArgsOf, hlenv]
  obtain ⟨f1o, f1s, f1c, f1os⟩ := genCallActuals_facts _ _ _ _ _ h1
  simp only at f1o f1s f1c f1os
  obtain ⟨b1o, b1s, _, b1p, b1c⟩ := bumpN_facts (countCalls (optArgsOf G.rho es)) { gs1 with offset := gs.offset }
  simp only at b1o b1s b1p b1c
  rw [callKind_po] at h2
  obtain ⟨e2o, e2s, _, e2c⟩ := loadActuals_eff _ _ _ _ _ _ _ h2
  subst hgs'
  simp only [callKind_po, hlen] at hsz hci
  subst hcode
  simp only [lowerCode_append, List.append_assoc] at hat ⊢
  have hpo := po_pos pj
  have hb : gs2.size + (es.length + pj.po) ≤ G.S pi := Nat.le_trans (Nat.le_max_right _ _) hsz
  have hci2 : ConstsIn (KOf G pi sp dep hi) gs2 := hci
  have hcib : ConstsIn (KOf G pi sp dep hi) (bumpN (countCalls (optArgsOf G.rho es)) { gs1 with offset := gs.offset }) :=
    fun x hx => hci2 x (e2c x hx)
  have hci1 : ConstsIn (KOf G pi sp dep hi) gs1 := fun x hx => hcib x (by rw [b1c]; exact hx)
  -- the actuals with calls are parked
  obtain ⟨a1, b1, mem1, st1, rep1, hsv, _, _, _, frm1⟩ := exec_saveItems (KOf G pi sp dep hi) wf.toWF st _ _ hlenW hsave
    { gs with size := gs.offset } c1 gs1 i a b mem h1 hat.left hr (by show gs1.size ≤ G.S pi; omega) hnl
    (f1os (Nat.le_refl _)) hci1
  -- all actuals into their parameter slots
  have hboff : gs.offset ≤ (bumpN (countCalls (optArgsOf G.rho es)) { gs1 with offset := gs.offset }).size := by
    by_cases hn : 0 < countCalls (optArgsOf G.rho es)
    · have := b1p hn; omega
    · omega
  obtain ⟨a2, b2, mem2, st2, rep2, hvals, _, frm2⟩ := exec_loadItems (KOf G pi sp dep hi) wf.toWF st _ _ hlenW hload
    pj.po gs.offset _ c2 gs2 (i + (lowerCode G.cg c1).length) a1 b1 mem1 h2 hat.right.left rep1 hsv
    (by rw [b1o]; exact Nat.le_refl _) (by show gs2.size + (pj.po + (optArgsOf G.rho es).length) ≤ G.S pi; rw [hlen]; omega)
    (by rw [b1o]; show pi.p.locals.length ≤ gs.offset + _; omega)
    (by rw [b1o]; by_cases hn : 0 < countCalls (optArgsOf G.rho es)
        · exact b1p hn
        · omega) hci2
  -- the call
  have rep2s : Rep (KOf G pi sp dep hi) s mem2 := rep2.sim hsim
  have hio : s.io = st.io := hsim.2.2.2.1.symm
  have hwl : ws.length = es.length := hlenv.symm
  have hct := exec_calltail ok fuel hcs hpi hpj sp dep hi hlo hspv hstack s ws gs2.labelCount gs.offset
    (i + (lowerCode G.cg c1).length + (lowerCode G.cg c2).length) a2 b2 mem2
    (by have := hat.right.right; simpa [Nat.add_assoc] using this) rep2s
    (fun k hk => by
      have := hvals k (by simpa using hk)
      simp only [List.getElem_map] at this
      exact this)
    (by omega) (by omega) (by omega)
  have frm12 : FrmC (KOf G pi sp dep hi) gs.offset (G.S pi) mem mem2 :=
    frm1.trans (frm2.mono (by rw [b1o]; omega) (Nat.le_refl _))
  cases hx : X.callUser fuel G.xc pj.p ws s with
  | undef w => trivial
  | exit cd s' =>
    rw [hx] at hct
    obtain ⟨c, hs, he⟩ := hct
    rw [hio] at hs
    exact ⟨c, st1.trans (st2.trans hs), he⟩
  | ok res s' =>
    rw [hx] at hct
    obtain ⟨a', b', mem', hs, rep', hres, frm3⟩ := hct
    rw [hio] at hs
    refine ⟨a', b', mem', ?_, rep', hres, frm12.trans frm3⟩
    simp only [List.length_append, ← Nat.add_assoc]
    exact st1.trans (st2.trans hs)

/-- What a call needs of its actuals (the actuals and the callee both run with fuel `f`): the
    code of the whole calling sequence does what evaluating the actuals and calling does. -/
structure ArgsOK (G : GCtx) (pi : PInfo) (sp dep : Nat) (hi : Nat → Word) (f : Nat) (args : List X.Expr) : Prop where
  call : (∀ k, k ≤ f → CallSpec G k) → ∀ pj, pj ∈ G.procs → ∀ (st : X.St) (gs : GS) (code : Code) (gs' : GS) (i : Nat)
      (a b : Word) (mem : Mem),
    callSeq pj.callKind (optArgsOf G.rho args).length (countCalls (optArgsOf G.rho args))
      (genCallActuals (G.ctxOf pi) (optArgsOf G.rho args))
      (fun p sv => loadActuals (G.ctxOf pi) (optArgsOf G.rho args) p sv) gs = .ok (code, gs') →
    At G.env.ds i (lowerCode G.cg code) → Rep (KOf G pi sp dep hi) st mem →
    gs'.size ≤ G.S pi → pi.p.locals.length ≤ gs.offset → ConstsIn (KOf G pi sp dep hi) gs' →
    match X.evalArgs f G.xc args st with
    | .ok vs s =>
      (match X.callUser f G.xc pj.p vs s with
       | .ok res s' => ∃ a' b' mem', Steps G.env (cfg i a b mem) st.io (cfg (i + (lowerCode G.cg code).length) a' b' mem') s'.io ∧
           Rep (KOf G pi sp dep hi) s' mem' ∧ (pj.p.isFunc = true → ∀ w, res = some w → a' = w) ∧
           FrmC (KOf G pi sp dep hi) gs.offset (G.S pi) mem mem'
       | .exit cd s' => ∃ c, Steps G.env (cfg i a b mem) st.io c s'.io ∧ Exit G.env c s'.io cd
       | .undef _ => True)
    | .exit cd s => ∃ c, Steps G.env (cfg i a b mem) st.io c s.io ∧ Exit G.env c s.io cd
    | .undef _ => True

section
variable {G : GCtx} (ok : G.OK) {pi : PInfo} (hpi : pi ∈ G.procs) (sp dep : Nat) (hi : Nat → Word)
    (hlo : G.lo ≤ sp) (hspv : sp + G.S pi + pi.po + pi.p.formals.length ≤ G.spv + 1) (hstack : G.spv ≤ sp + dep * G.smax)
include ok hpi hlo hspv hstack

theorem argsOK_pure (f : Nat) (args : List X.Expr) (hp : ∀ e ∈ args, pureE e = true) : ArgsOK G pi sp dep hi f args := by
  refine ⟨fun hcs pj hpj st gs code gs' i a b mem hg hat hr hsz hnl hci => ?_⟩
  cases hev : X.evalArgs f G.xc args st with
  | undef w => trivial
  | exit c s => exact absurd hev (evalArgs_pure_no_exit G.xc args f st c s hp)
  | ok vs s =>
    simp only
    have h := exec_usercall ok f (hcs f (Nat.le_refl _)) hpi hpj sp dep hi hlo hspv hstack args f st s vs hp hev gs code gs' i a b mem
      hg hat hr hsz hnl hci
    cases hx : X.callUser f G.xc pj.p vs s with
    | undef w => trivial
    | exit cd s' => rw [hx] at h; exact h
    | ok res s' => rw [hx] at h; exact h

theorem argsOK_pp (pk : PureOk G.xc) (f : Nat) (hleaf : ∀ k, k ≤ f → CallLeaf (KOf G pi sp dep hi) G.pnames k)
    (args : List X.Expr) (hp : ∀ e ∈ args, ppE G.pnames G.xc.impure e = true) : ArgsOK G pi sp dep hi f args := by
  have hps : ∀ g, G.pnames.contains g = true → ∃ p, G.xc.genv.lookup g = some (.proc p) :=
    fun g hg => ok.pnames_mem g (by simpa using hg)
  refine ⟨fun hcs pj hpj st gs code gs' i a b mem hg hat hr hsz hnl hci => ?_⟩
  cases hev : X.evalArgs f G.xc args st with
  | undef w => trivial
  | exit c s => exact absurd hev ((evalArgs_pp G.xc G.pnames hps pk f args st hp (noLoc_of_rep hr)).2 c s)
  | ok vs s =>
    simp only
    have h := exec_usercallP ok pk f (hcs f (Nat.le_refl _)) hpi hpj sp dep hi hlo hspv hstack args f hleaf st s vs hp hev gs code gs' i a b mem
      hg hat hr hsz hnl hci
    cases hx : X.callUser f G.xc pj.p vs s with
    | undef w => trivial
    | exit cd s' => rw [hx] at h; exact h
    | ok res s' => rw [hx] at h; exact h

end

end Hex.C01s
