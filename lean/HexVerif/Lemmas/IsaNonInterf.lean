import HexVerif.Isa.Spec
/-
  Non-interference for the ISA: a run that reads only the words it was given or has written
  itself does not depend on the rest of the initial memory.  Used by C06/C13 (the RTL's memory
  outside the image holds power-on junk, hexsim's holds zeros).
-/
namespace Hex.Isa
open Hex

/-- Two memories agree on the word set `W`. -/
def AgreeOn (W : Nat → Prop) (m₁ m₂ : Mem) : Prop := ∀ i, W i → m₁.read i = m₂.read i

/-- Word addresses whose CONTENT `dispatch s io opc` depends on (`s.o` already holds the operand). -/
def dReads (s : St) (opc : Nat) : List Nat :=
  let sp := s.mem.read 1
  match opc with
  | 0x0 => [s.o.toNat]
  | 0x1 => [s.o.toNat]
  | 0x6 => [(s.a + s.o).toNat]
  | 0x7 => [(s.b + s.o).toNat]
  | 0xD =>
    if s.o = 3 then
      (if s.a = 0 then [1, (sp + 2).toNat]
       else if s.a = 1 then [1, (sp + 2).toNat, (sp + 3).toNat]
       else if s.a = 2 then [1, (sp + 2).toNat]
       else [])
    else []
  | _ => []

/-- The word `dispatch s io opc` writes, if any. -/
def dWrites (s : St) (opc : Nat) : List Nat :=
  let sp := s.mem.read 1
  match opc with
  | 0x2 => [s.o.toNat]
  | 0x8 => [(s.b + s.o).toNat]
  | 0xD => if s.o = 3 ∧ s.a = 2 then [(sp + 1).toNat] else []
  | _ => []

/-- The state `dispatch` is entered with. -/
def afterFetch (s : St) (inst : Byte) : St :=
  { s with pc := s.pc + 1, o := s.o ||| (inst &&& 0xF).zeroExtend 32 }

/-- Word addresses whose content one step from `s` depends on: the word holding the fetched
    byte, the operand of a load, the system-call slots. -/
def stepReads (s : St) : List Nat :=
  match fetch s.mem s.pc with
  | none => []
  | some inst => (s.pc >>> 2).toNat :: dReads (afterFetch s inst) (inst >>> 4).toNat

/-- The word one step writes, if any. -/
def stepWrites (s : St) : List Nat :=
  match fetch s.mem s.pc with
  | none => []
  | some inst => dWrites (afterFetch s inst) (inst >>> 4).toNat

def SameRegs (s₁ s₂ : St) : Prop := s₁.pc = s₂.pc ∧ s₁.a = s₂.a ∧ s₁.b = s₂.b ∧ s₁.o = s₂.o

/-- Outcomes related up to memory outside `W'`. -/
def OutcomeAgree (W' : Nat → Prop) : Outcome → Outcome → Prop
  | .running s₁ io₁, .running s₂ io₂ => SameRegs s₁ s₂ ∧ AgreeOn W' s₁.mem s₂.mem ∧ io₁ = io₂
  | .exited c₁ s₁ io₁, .exited c₂ s₂ io₂ => c₁ = c₂ ∧ SameRegs s₁ s₂ ∧ AgreeOn W' s₁.mem s₂.mem ∧ io₁ = io₂
  | .undef w₁, .undef w₂ => w₁ = w₂
  | _, _ => False

theorem agree_write (W : Nat → Prop) (m₁ m₂ : Mem) (i : Nat) (v : Word) (h : AgreeOn W m₁ m₂) (hi : i < memWords) :
    AgreeOn (fun j => W j ∨ j = i) (m₁.write i v) (m₂.write i v) := by
  intro j hj
  rw [Mem.read_write _ _ _ _ hi, Mem.read_write _ _ _ _ hi]
  by_cases hij : i = j
  · simp [hij]
  · simp only [hij, if_false]
    rcases hj with hj | hj
    · exact h j hj
    · exact absurd hj.symm hij

theorem OutcomeAgree.running_intro {W' : Nat → Prop} {s₁ s₂ : St} {io₁ io₂ : IOSt}
    (a : SameRegs s₁ s₂) (b : AgreeOn W' s₁.mem s₂.mem) (c : io₁ = io₂) :
    OutcomeAgree W' (.running s₁ io₁) (.running s₂ io₂) := ⟨a, b, c⟩

theorem OutcomeAgree.exited_intro {W' : Nat → Prop} {s₁ s₂ : St} {io₁ io₂ : IOSt} {c₁ c₂ : Word} (e : c₁ = c₂)
    (a : SameRegs s₁ s₂) (b : AgreeOn W' s₁.mem s₂.mem) (c : io₁ = io₂) :
    OutcomeAgree W' (.exited c₁ s₁ io₁) (.exited c₂ s₂ io₂) := ⟨e, a, b, c⟩

theorem agree_weaken {W W' : Nat → Prop} {m₁ m₂ : Mem} (h : AgreeOn W m₁ m₂) (hw : ∀ i, W' i → W i) :
    AgreeOn W' m₁ m₂ := fun i hi => h i (hw i hi)

theorem ld_agree (W : Nat → Prop) (m₁ m₂ : Mem) (i : Word) (h : AgreeOn W m₁ m₂) (hi : W i.toNat) :
    ld m₁ i = ld m₂ i := by
  unfold ld; split
  · rw [h _ hi]
  · rfl

theorem svc_agree (W : Nat → Prop) (s₁ s₂ : St) (io : IOSt) (hr : SameRegs s₁ s₂)
    (hm : AgreeOn W s₁.mem s₂.mem) (ho : s₁.o = 3) (hreads : ∀ i ∈ dReads s₁ 0xD, W i) :
    OutcomeAgree (fun j => W j ∨ j ∈ dWrites s₁ 0xD) (svc s₁ io) (svc s₂ io) := by
  rcases s₁ with ⟨pc₁, a₁, b₁, o₁, m₁⟩
  rcases s₂ with ⟨pc₂, a₂, b₂, o₂, m₂⟩
  obtain ⟨rfl, rfl, rfl, rfl⟩ := hr
  simp only at ho hm
  subst ho
  simp only [dReads, dWrites, BitVec.ofNat_eq_ofNat, if_true, true_and] at hreads ⊢
  unfold svc
  simp only [BitVec.ofNat_eq_ofNat]
  by_cases h0 : a₁ = 0#32
  · subst h0
    simp only [if_true, List.mem_cons, List.mem_nil_iff, or_false, forall_eq_or_imp, forall_eq] at hreads
    have hsp : m₁.read 1 = m₂.read 1 := hm 1 hreads.1
    rw [← hsp, ← ld_agree W m₁ m₂ _ hm hreads.2]
    cases ld m₁ (m₁.read 1 + 2#32) with
    | none => simp [OutcomeAgree]
    | some c =>
      exact OutcomeAgree.exited_intro rfl ⟨rfl, rfl, rfl, rfl⟩ (agree_weaken hm (by intro i hi; simpa using hi)) rfl
  · simp only [h0, if_false] at hreads ⊢
    by_cases h1 : a₁ = 1#32
    · subst h1
      simp only [if_true, List.mem_cons, List.mem_nil_iff, or_false, forall_eq_or_imp, forall_eq] at hreads
      have hsp : m₁.read 1 = m₂.read 1 := hm 1 hreads.1
      rw [← hsp, ← ld_agree W m₁ m₂ _ hm hreads.2.1, ← ld_agree W m₁ m₂ _ hm hreads.2.2]
      cases ld m₁ (m₁.read 1 + 2#32) with
      | none => simp [OutcomeAgree]
      | some v =>
        cases ld m₁ (m₁.read 1 + 3#32) with
        | none => simp [OutcomeAgree]
        | some str =>
          exact OutcomeAgree.running_intro ⟨rfl, rfl, rfl, rfl⟩ (agree_weaken hm (by intro i hi; simpa using hi)) rfl
    · simp only [h1, if_false] at hreads ⊢
      by_cases h2 : a₁ = 2#32
      · subst h2
        simp only [if_true, List.mem_cons, List.mem_nil_iff, or_false, forall_eq_or_imp, forall_eq] at hreads
        have hsp : m₁.read 1 = m₂.read 1 := hm 1 hreads.1
        rw [← hsp, ← ld_agree W m₁ m₂ _ hm hreads.2]
        cases ld m₁ (m₁.read 1 + 2#32) with
        | none => simp [OutcomeAgree]
        | some str =>
          simp only []
          unfold stw
          by_cases hin : (m₁.read 1 + 1#32).toNat < memWords
          · simp only [hin, if_true]
            have := agree_write W m₁ m₂ _ (simin io str).1 hm hin
            exact OutcomeAgree.running_intro ⟨rfl, rfl, rfl, rfl⟩ (agree_weaken this (by intro i hi; simpa using hi)) rfl
          · simp only [hin, if_false, OutcomeAgree, if_true]
      · simp [h2, OutcomeAgree]

theorem dispatch_agree (W : Nat → Prop) (s₁ s₂ : St) (io : IOSt) (opc : Nat) (hr : SameRegs s₁ s₂)
    (hm : AgreeOn W s₁.mem s₂.mem) (hreads : ∀ i ∈ dReads s₁ opc, W i) :
    OutcomeAgree (fun j => W j ∨ j ∈ dWrites s₁ opc) (dispatch s₁ io opc) (dispatch s₂ io opc) := by
  have hsvc := svc_agree W s₁ s₂ io hr hm
  rcases s₁ with ⟨pc₁, a₁, b₁, o₁, m₁⟩
  rcases s₂ with ⟨pc₂, a₂, b₂, o₂, m₂⟩
  obtain ⟨rfl, rfl, rfl, rfl⟩ := hr
  simp only at hm hsvc
  have keep : ∀ {W' : Nat → Prop}, (∀ i, W' i → W i) → AgreeOn W' m₁ m₂ := fun h => agree_weaken hm h
  unfold dispatch
  simp only [BitVec.ofNat_eq_ofNat]
  split
  case h_1 =>
    simp only [dReads, List.mem_cons, List.mem_nil_iff, or_false, forall_eq] at hreads
    rw [← ld_agree W m₁ m₂ _ hm hreads]
    cases ld m₁ o₁ with
    | none => simp [OutcomeAgree]
    | some v => exact OutcomeAgree.running_intro ⟨rfl, rfl, rfl, rfl⟩ (keep (by intro i hi; simpa [dWrites] using hi)) rfl
  case h_2 =>
    simp only [dReads, List.mem_cons, List.mem_nil_iff, or_false, forall_eq] at hreads
    rw [← ld_agree W m₁ m₂ _ hm hreads]
    cases ld m₁ o₁ with
    | none => simp [OutcomeAgree]
    | some v => exact OutcomeAgree.running_intro ⟨rfl, rfl, rfl, rfl⟩ (keep (by intro i hi; simpa [dWrites] using hi)) rfl
  case h_3 =>
    unfold stw
    by_cases hin : o₁.toNat < memWords
    · simp only [hin, if_true]
      have := agree_write W m₁ m₂ _ a₁ hm hin
      exact OutcomeAgree.running_intro ⟨rfl, rfl, rfl, rfl⟩ (agree_weaken this (by intro i hi; simpa [dWrites] using hi)) rfl
    · simp only [hin, if_false, OutcomeAgree]
  case h_7 =>
    simp only [dReads, List.mem_cons, List.mem_nil_iff, or_false, forall_eq] at hreads
    rw [← ld_agree W m₁ m₂ _ hm hreads]
    cases ld m₁ (a₁ + o₁) with
    | none => simp [OutcomeAgree]
    | some v => exact OutcomeAgree.running_intro ⟨rfl, rfl, rfl, rfl⟩ (keep (by intro i hi; simpa [dWrites] using hi)) rfl
  case h_8 =>
    simp only [dReads, List.mem_cons, List.mem_nil_iff, or_false, forall_eq] at hreads
    rw [← ld_agree W m₁ m₂ _ hm hreads]
    cases ld m₁ (b₁ + o₁) with
    | none => simp [OutcomeAgree]
    | some v => exact OutcomeAgree.running_intro ⟨rfl, rfl, rfl, rfl⟩ (keep (by intro i hi; simpa [dWrites] using hi)) rfl
  case h_9 =>
    unfold stw
    by_cases hin : (b₁ + o₁).toNat < memWords
    · simp only [hin, if_true]
      have := agree_write W m₁ m₂ _ a₁ hm hin
      exact OutcomeAgree.running_intro ⟨rfl, rfl, rfl, rfl⟩ (agree_weaken this (by intro i hi; simpa [dWrites] using hi)) rfl
    · simp only [hin, if_false, OutcomeAgree]
  case h_15 =>
    by_cases h0 : o₁ = 0#32
    · simp only [h0, if_true]
      exact OutcomeAgree.running_intro ⟨rfl, rfl, rfl, rfl⟩ (keep (by intro i hi; simpa [dWrites, h0] using hi)) rfl
    by_cases h1 : o₁ = 1#32
    · simp only [h1, BitVec.reduceEq, if_false, if_true]
      exact OutcomeAgree.running_intro ⟨rfl, rfl, rfl, rfl⟩ (keep (by intro i hi; simpa [dWrites, h1] using hi)) rfl
    by_cases h2 : o₁ = 2#32
    · simp only [h2, BitVec.reduceEq, if_false, if_true]
      exact OutcomeAgree.running_intro ⟨rfl, rfl, rfl, rfl⟩ (keep (by intro i hi; simpa [dWrites, h2] using hi)) rfl
    by_cases h3 : o₁ = 3#32
    · simp only [h0, h1, h2, if_false]
      rw [if_pos h3, if_pos h3]
      exact hsvc h3 hreads
    · simp only [h0, h1, h2, h3, if_false, OutcomeAgree]
  all_goals first
    | exact OutcomeAgree.running_intro ⟨rfl, rfl, rfl, rfl⟩ (keep (by intro i hi; simpa [dWrites] using hi)) rfl
    | simp [OutcomeAgree]

theorem step_agree (W : Nat → Prop) (s₁ s₂ : St) (io : IOSt) (hr : SameRegs s₁ s₂)
    (hm : AgreeOn W s₁.mem s₂.mem) (hreads : ∀ i ∈ stepReads s₁, W i) :
    OutcomeAgree (fun j => W j ∨ j ∈ stepWrites s₁) (step s₁ io) (step s₂ io) := by
  have hpc : s₂.pc = s₁.pc := hr.1.symm
  unfold step stepReads stepWrites at *
  unfold fetch at *
  rw [hpc]
  by_cases hin : (s₁.pc >>> 2).toNat < memWords
  · simp only [hin, if_true] at hreads ⊢
    have hw : W (s₁.pc >>> 2).toNat := hreads _ (by simp)
    rw [← hm _ hw]
    apply dispatch_agree
    · exact ⟨rfl, hr.2.1, hr.2.2.1, by simp [afterFetch, hr.2.2.2]⟩
    · exact hm
    · intro i hi; exact hreads i (List.mem_cons_of_mem _ hi)
  · simp only [hin, if_false, OutcomeAgree]

/-- Along the run from `s`, every step reads only words in the accumulated set (initially `W`,
    growing by the words written). -/
def ReadsOnly : (Nat → Prop) → Nat → St → IOSt → Prop
  | _, 0, _, _ => True
  | W, n + 1, s, io =>
    (∀ i ∈ stepReads s, W i) ∧
    (match step s io with
     | .running s' io' => ReadsOnly (fun j => W j ∨ j ∈ stepWrites s) n s' io'
     | _ => True)

/-- Observations of two runs agree. -/
def RunAgree : RunResult → RunResult → Prop
  | .exited c₁ n₁ s₁ io₁, .exited c₂ n₂ s₂ io₂ => c₁ = c₂ ∧ n₁ = n₂ ∧ SameRegs s₁ s₂ ∧ io₁ = io₂
  | .undef w₁ n₁, .undef w₂ n₂ => w₁ = w₂ ∧ n₁ = n₂
  | .outOfFuel s₁ io₁, .outOfFuel s₂ io₂ => SameRegs s₁ s₂ ∧ io₁ = io₂
  | _, _ => False

/-- **Non-interference.** A run that reads only the words it was given or has written itself
    does not depend on the rest of the initial memory. -/
theorem run_agree : ∀ (n : Nat) (W : Nat → Prop) (s₁ s₂ : St) (io : IOSt) (k : Nat),
    SameRegs s₁ s₂ → AgreeOn W s₁.mem s₂.mem → ReadsOnly W n s₁ io →
    RunAgree (run n s₁ io k) (run n s₂ io k) := by
  intro n
  induction n with
  | zero => intro W s₁ s₂ io k hr _ _; exact ⟨hr, rfl⟩
  | succ n ih =>
    intro W s₁ s₂ io k hr hm hro
    obtain ⟨hreads, hrest⟩ := hro
    have hs := step_agree W s₁ s₂ io hr hm hreads
    simp only [run]
    cases h1 : step s₁ io with
    | running s₁' io₁' =>
      cases h2 : step s₂ io with
      | running s₂' io₂' =>
        rw [h1, h2] at hs
        obtain ⟨a, b, c⟩ := hs
        subst c
        rw [h1] at hrest
        exact ih _ s₁' s₂' io₁' (k + 1) a b hrest
      | exited c s io' => rw [h1, h2] at hs; exact hs.elim
      | undef w => rw [h1, h2] at hs; exact hs.elim
    | exited c₁ s₁' io₁' =>
      cases h2 : step s₂ io with
      | running s io' => rw [h1, h2] at hs; exact hs.elim
      | exited c₂ s₂' io₂' =>
        rw [h1, h2] at hs
        obtain ⟨e, a, _, c⟩ := hs
        exact ⟨e, rfl, a, c⟩
      | undef w => rw [h1, h2] at hs; exact hs.elim
    | undef w₁ =>
      cases h2 : step s₂ io with
      | running s io' => rw [h1, h2] at hs; exact hs.elim
      | exited c s io' => rw [h1, h2] at hs; exact hs.elim
      | undef w₂ => rw [h1, h2] at hs; exact ⟨hs, rfl⟩
end Hex.Isa
