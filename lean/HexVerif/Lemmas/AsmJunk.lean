import HexVerif.Asm.CodeGen
/-!
  hexasm's lexer model (`Asm/Lexer.lean`) with an explicit junk content for `Lexer::value`, the member
  the C++ constructor leaves uninitialised: the token sequences lexed from different junk values agree
  in everything but the `value` field of tokens that are not NUMBER, `Asm.parseProgram` cannot tell
  such sequences apart (it reads `value` only in `parseInteger`, under `tok = NUMBER`), hence the whole
  assembler model `Asm.run` does not depend on the junk (C11).
-/
namespace Hex.Asm

def tokenizeJ (junk : Nat) (src : List Byte) : List LTok := lexGo src .start { value := junk }

def RTokA (a b : LTok) : Prop :=
  a.tok = b.tok ∧ a.ident = b.ident ∧ a.loc = b.loc ∧ (a.tok = .NUMBER → a.value = b.value)

inductive RToks : List LTok → List LTok → Prop where
  | nil : RToks [] []
  | cons {a b : LTok} {as bs : List LTok} : RTokA a b → RToks as bs → RToks (a :: as) (b :: bs)

theorem RToks.append {a b c d : List LTok} (h1 : RToks a b) (h2 : RToks c d) : RToks (a ++ c) (b ++ d) := by
  induction h1 with
  | nil => exact h2
  | cons h _ ih => exact RToks.cons h ih

def RLexA (a b : LexSt) : Prop := a.ident = b.ident ∧ a.line = b.line ∧ a.col = b.col

theorem mk_rel {t : Tok} {s1 s2 : LexSt} {c1 c2 : Nat} (h : RLexA s1 s2) (ht : t ≠ .NUMBER) (hc : c1 = c2) :
    RTokA (mk t s1 c1) (mk t s2 c2) := by
  subst hc
  obtain ⟨h1, h2, _⟩ := h
  exact ⟨rfl, h1, by simp [mk, h2], fun hn => absurd hn ht⟩

theorem flush_rel (m : Mode) {s1 s2 : LexSt} (h : RLexA s1 s2) :
    RToks (flush m s1).1 (flush m s2).1 ∧ RLexA (flush m s1).2 (flush m s2).2 := by
  obtain ⟨h1, h2, h3⟩ := h
  cases m with
  | start => exact ⟨RToks.nil, h1, h2, h3⟩
  | comment => exact ⟨RToks.nil, h1, h2, h3⟩
  | ident acc =>
    simp only [flush]
    refine ⟨RToks.cons ⟨rfl, rfl, by simp [h2, h3], ?_⟩ RToks.nil, rfl, h2, h3⟩
    intro hk
    exfalso
    revert hk
    unfold keyword
    split <;> simp
  | number acc =>
    simp only [flush]
    exact ⟨RToks.cons ⟨rfl, h1, by simp [h2, h3], fun _ => rfl⟩ RToks.nil, h1, h2, h3⟩

end Hex.Asm

namespace Hex.Asm

theorem lexGo_relA : ∀ (src : List Byte) (m : Mode) (s1 s2 : LexSt), RLexA s1 s2 →
    RToks (lexGo src m s1) (lexGo src m s2) := by
  intro src
  induction src with
  | nil =>
    intro m s1 s2 h
    obtain ⟨hf, hs⟩ := flush_rel m h
    simp only [lexGo]
    exact RToks.append hf (RToks.cons (mk_rel hs (by decide) hs.2.2) RToks.nil)
  | cons c rest ih =>
    intro m s1 s2 h
    -- the dispatch on the look-ahead, for any related pair of states
    have hstart : ∀ t1 t2 : LexSt, RLexA t1 t2 →
        RToks
          (if isSpace c then
            if c = 10 then lexGo rest .start { t1 with line := t1.line + 1, col := 1 }
            else lexGo rest .start { t1 with col := t1.col + 1 }
          else if c = 35 then lexGo rest .comment { t1 with col := t1.col + 1 }
          else if isAlpha c then lexGo rest (.ident [c]) { t1 with col := t1.col + 1 }
          else if isDigit c then lexGo rest (.number [c]) { t1 with col := t1.col + 1 }
          else if c = 45 then mk .MINUS t1 (t1.col + 1) :: lexGo rest .start { t1 with col := t1.col + 1 }
          else if c = 255 then [mk .END_OF_FILE t1 t1.col]
          else mk .NONE t1 (t1.col + 1) :: lexGo rest .start { t1 with col := t1.col + 1 })
          (if isSpace c then
            if c = 10 then lexGo rest .start { t2 with line := t2.line + 1, col := 1 }
            else lexGo rest .start { t2 with col := t2.col + 1 }
          else if c = 35 then lexGo rest .comment { t2 with col := t2.col + 1 }
          else if isAlpha c then lexGo rest (.ident [c]) { t2 with col := t2.col + 1 }
          else if isDigit c then lexGo rest (.number [c]) { t2 with col := t2.col + 1 }
          else if c = 45 then mk .MINUS t2 (t2.col + 1) :: lexGo rest .start { t2 with col := t2.col + 1 }
          else if c = 255 then [mk .END_OF_FILE t2 t2.col]
          else mk .NONE t2 (t2.col + 1) :: lexGo rest .start { t2 with col := t2.col + 1 }) := by
      intro t1 t2 ht
      obtain ⟨h1, h2, h3⟩ := ht
      have hadv : RLexA { t1 with col := t1.col + 1 } { t2 with col := t2.col + 1 } := ⟨h1, h2, by simp [h3]⟩
      have hnl : RLexA { t1 with line := t1.line + 1, col := 1 } { t2 with line := t2.line + 1, col := 1 } := ⟨h1, by simp [h2], rfl⟩
      split
      · split
        · exact ih _ _ _ hnl
        · exact ih _ _ _ hadv
      · split
        · exact ih _ _ _ hadv
        · split
          · exact ih _ _ _ hadv
          · split
            · exact ih _ _ _ hadv
            · split
              · exact RToks.cons (mk_rel ⟨h1, h2, h3⟩ (by decide) (by simp [h3])) (ih _ _ _ hadv)
              · split
                · exact RToks.cons (mk_rel ⟨h1, h2, h3⟩ (by decide) h3) RToks.nil
                · exact RToks.cons (mk_rel ⟨h1, h2, h3⟩ (by decide) (by simp [h3])) (ih _ _ _ hadv)
    obtain ⟨h1, h2, h3⟩ := h
    have hadv : RLexA { s1 with col := s1.col + 1 } { s2 with col := s2.col + 1 } := ⟨h1, h2, by simp [h3]⟩
    have hnl : RLexA { s1 with line := s1.line + 1, col := 1 } { s2 with line := s2.line + 1, col := 1 } := ⟨h1, by simp [h2], rfl⟩
    cases m with
    | start => simp only [lexGo]; exact hstart s1 s2 ⟨h1, h2, h3⟩
    | comment =>
      simp only [lexGo]
      split
      · exact ih _ _ _ hnl
      · split
        · exact RToks.cons (mk_rel ⟨h1, h2, h3⟩ (by decide) h3) RToks.nil
        · exact ih _ _ _ hadv
    | ident acc =>
      by_cases hd : (isAlnum c || c = 95) = true
      · simp only [lexGo, hd, if_true]; exact ih _ _ _ hadv
      · obtain ⟨hf, hs⟩ := flush_rel (.ident acc) ⟨h1, h2, h3⟩
        have hst := hstart _ _ hs
        simp only [lexGo, hd, flush] at hf hst ⊢
        exact RToks.append hf hst
    | number acc =>
      by_cases hd : isDigit c = true
      · simp only [lexGo, hd, if_true]; exact ih _ _ _ hadv
      · obtain ⟨hf, hs⟩ := flush_rel (.number acc) ⟨h1, h2, h3⟩
        have hst := hstart _ _ hs
        simp only [lexGo, hd, flush] at hf hst ⊢
        exact RToks.append hf hst

end Hex.Asm

namespace Hex.Asm

theorem tokenizeJ_rel (j1 j2 : Nat) (src : List Byte) : RToks (tokenizeJ j1 src) (tokenizeJ j2 src) :=
  lexGo_relA src .start _ _ ⟨rfl, rfl, rfl⟩

theorem tokenize_eq_J (src : List Byte) : tokenize src = tokenizeJ 0 src := rfl

end Hex.Asm

namespace Hex.Asm
set_option linter.unusedVariables false
set_option linter.unusedSimpArgs false

def erase (t : LTok) : LTok := if t.tok = .NUMBER then t else { t with value := 0 }

@[simp] theorem erase_tok (t : LTok) : (erase t).tok = t.tok := by unfold erase; split <;> rfl
@[simp] theorem erase_ident (t : LTok) : (erase t).ident = t.ident := by unfold erase; split <;> rfl
@[simp] theorem erase_loc (t : LTok) : (erase t).loc = t.loc := by unfold erase; split <;> rfl
theorem erase_value (t : LTok) (h : t.tok = .NUMBER) : (erase t).value = t.value := by unfold erase; simp [h]

theorem parseInteger_erase (n : LTok) (rest : List LTok) :
    parseInteger (erase n) (rest.map erase) =
      match parseInteger n rest with
      | .ok (v, r) => .ok (v, r.map erase)
      | .error e => .error e := by
  unfold parseInteger
  simp only [erase_tok]
  split
  · cases rest with
    | nil => simp
    | cons m r =>
      simp only [List.map_cons, erase_tok, erase_loc]
      split
      · rename_i hm; simp [erase_value m hm]
      · simp
  · split
    · rename_i hn; simp [erase_value n hn]
    · simp

/-- The continuation shape shared by the DATA and the immediate-operand cases. -/
theorem cont_erase (n : LTok) (rest' : List LTok) (f : I32 → Dir) (loc : Loc)
    (ih : ∀ r : List LTok, r.length ≤ rest'.length → parseProgram (r.map erase) = parseProgram r) :
    (match h : parseInteger (erase n) (rest'.map erase) with
      | .ok (v, rest'') =>
        match parseProgram rest'' with
        | .ok ds => Except.ok ((f v, loc) :: ds)
        | .error e => .error e
      | .error e => .error e) =
    (match h : parseInteger n rest' with
      | .ok (v, rest'') =>
        match parseProgram rest'' with
        | .ok ds => Except.ok ((f v, loc) :: ds)
        | .error e => .error e
      | .error e => .error e) := by
  have hpe := parseInteger_erase n rest'
  cases hpi : parseInteger n rest' with
  | error e0 =>
    have hpe' : parseInteger (erase n) (rest'.map erase) = .error e0 := by rw [hpe, hpi]
    split
    · rename_i v r'' h1; rw [hpe'] at h1; cases h1
    · rename_i e h1
      rw [hpe'] at h1; injection h1 with h1; subst h1
      rfl
  | ok p =>
    obtain ⟨v0, r0⟩ := p
    have hpe' : parseInteger (erase n) (rest'.map erase) = .ok (v0, r0.map erase) := by rw [hpe, hpi]
    have hlen := parseInteger_length hpi
    split
    · rename_i v r'' h1
      rw [hpe'] at h1
      simp only [Except.ok.injEq, Prod.mk.injEq] at h1
      obtain ⟨hv, hr⟩ := h1
      subst hv; subst hr
      rw [ih r0 hlen]
    · rename_i e h1; rw [hpe'] at h1; cases h1

theorem parseProgram_erase : ∀ (k : Nat) (xs : List LTok), xs.length ≤ k → parseProgram (xs.map erase) = parseProgram xs := by
  intro k
  induction k with
  | zero =>
    intro xs h
    cases xs with
    | nil => rfl
    | cons _ _ => simp at h
  | succ k ih =>
    intro xs hlen
    cases xs with
    | nil => rfl
    | cons t rest =>
      have hrest : rest.length ≤ k := by simp at hlen; omega
      rw [List.map_cons, parseProgram.eq_def (erase t :: _), parseProgram.eq_def (t :: rest)]
      simp only [erase_tok, erase_loc, erase_ident]
      cases ht : t.tok <;> simp only []
      case DATA =>
        cases rest with
        | nil => rfl
        | cons n rest' =>
          simp only [List.map_cons, erase_loc]
          exact cont_erase n rest' Dir.data t.loc (fun r hr => ih r (by simp at hrest; omega))
      case IDENTIFIER => rw [ih rest hrest]
      case FUNC =>
        cases rest with
        | nil => rfl
        | cons n rest' =>
          simp only [List.map_cons, erase_ident]
          rw [ih rest' (by simp at hrest; omega)]
      case PROC =>
        cases rest with
        | nil => rfl
        | cons n rest' =>
          simp only [List.map_cons, erase_ident]
          rw [ih rest' (by simp at hrest; omega)]
      case OPR =>
        cases rest with
        | nil => rfl
        | cons n rest' =>
          simp only [List.map_cons, erase_tok]
          rw [ih rest' (by simp at hrest; omega)]
      all_goals
        simp only [Tok.opc]
        try rfl
      all_goals
        cases rest with
        | nil => rfl
        | cons n rest' =>
          simp only [List.map_cons, erase_tok, erase_ident, erase_loc]
          split
          · rw [ih rest' (by simp at hrest; omega)]
          · exact cont_erase n rest' _ t.loc (fun r hr => ih r (by simp at hrest; omega))


theorem erase_of_rel {a b : LTok} (h : RTokA a b) : erase a = erase b := by
  obtain ⟨h1, h2, h3, h4⟩ := h
  cases a with
  | mk ta ia va la =>
    cases b with
    | mk tb ib vb lb =>
      simp only at h1 h2 h3 h4
      subst h1; subst h2; subst h3
      unfold erase
      by_cases hn : ta = .NUMBER
      · simp only [hn, if_true]; rw [h4 hn]
      · simp only [hn, if_false]

theorem map_erase_of_rel {xs ys : List LTok} (h : RToks xs ys) : xs.map erase = ys.map erase := by
  induction h with
  | nil => rfl
  | cons hab _ ih => simp only [List.map_cons, erase_of_rel hab, ih]

/-- The parser cannot tell indistinguishable token sequences apart. -/
theorem parseProgram_rel {xs ys : List LTok} (h : RToks xs ys) : parseProgram xs = parseProgram ys := by
  rw [← parseProgram_erase xs.length xs (Nat.le_refl _), ← parseProgram_erase ys.length ys (Nat.le_refl _),
    map_erase_of_rel h]

/-- `Asm.run` with an explicit junk content of `Lexer::value`. -/
def runJ (junk : Nat) (src : List Byte) : Outcome :=
  match parseProgram (tokenizeJ junk src) with
  | .error e => .diag e
  | .ok p =>
    match assemble p with
    | .error e => .diag e
    | .ok none => .fuel
    | .ok (some img) => .ok img p

theorem run_eq_runJ (src : List Byte) : run src = runJ 0 src := rfl

/-- The whole assembler model does not depend on the junk. -/
theorem runJ_indep (j1 j2 : Nat) (src : List Byte) : runJ j1 src = runJ j2 src := by
  unfold runJ
  rw [parseProgram_rel (tokenizeJ_rel j1 j2 src)]

end Hex.Asm
