import HexVerif.Asm.Parser
/-!
  hexasm's lexer model (`Asm/Lexer.lean`) with an explicit junk content for `Lexer::value`, the member
  the C++ constructor leaves uninitialised: the token sequences lexed from different junk values agree
  in everything but the `value` field of tokens that are not NUMBER (C11).  (`Asm.parseProgram` reads
  `value` only in `parseInteger`, under `tok = NUMBER`; lifting this lemma through the parser is the
  remaining obligation for hexasm.)
-/
namespace Hex.Asm

def tokenizeJ (junk : Nat) (src : List Byte) : List LTok := lexGo src .start { value := junk }

def RTokA (a b : LTok) : Prop :=
  a.tok = b.tok ∧ a.ident = b.ident ∧ a.loc = b.loc ∧ (a.tok = .NUMBER → a.value = b.value)

inductive RToks : List LTok → List LTok → Prop where
  | nil : RToks [] []
  | cons {a b : LTok} {as bs : List LTok} : RTokA a b → RToks as bs → RToks (a :: as) (b :: bs)

theorem RToks.append {a b c d : List LTok} (h1 : RToks a b) (h2 : RToks c d) : RToks (a ++ c) (b ++ d) := by
  induction h1 with
  | nil => exact h2
  | cons h _ ih => exact RToks.cons h ih

def RLexA (a b : LexSt) : Prop := a.ident = b.ident ∧ a.line = b.line ∧ a.col = b.col

theorem mk_rel {t : Tok} {s1 s2 : LexSt} {c1 c2 : Nat} (h : RLexA s1 s2) (ht : t ≠ .NUMBER) (hc : c1 = c2) :
    RTokA (mk t s1 c1) (mk t s2 c2) := by
  subst hc
  obtain ⟨h1, h2, _⟩ := h
  exact ⟨rfl, h1, by simp [mk, h2], fun hn => absurd hn ht⟩

theorem flush_rel (m : Mode) {s1 s2 : LexSt} (h : RLexA s1 s2) :
    RToks (flush m s1).1 (flush m s2).1 ∧ RLexA (flush m s1).2 (flush m s2).2 := by
  obtain ⟨h1, h2, h3⟩ := h
  cases m with
  | start => exact ⟨RToks.nil, h1, h2, h3⟩
  | comment => exact ⟨RToks.nil, h1, h2, h3⟩
  | ident acc =>
    simp only [flush]
    refine ⟨RToks.cons ⟨rfl, rfl, by simp [h2, h3], ?_⟩ RToks.nil, rfl, h2, h3⟩
    intro hk
    exfalso
    revert hk
    unfold keyword
    split <;> simp
  | number acc =>
    simp only [flush]
    exact ⟨RToks.cons ⟨rfl, h1, by simp [h2, h3], fun _ => rfl⟩ RToks.nil, h1, h2, h3⟩

end Hex.Asm

namespace Hex.Asm

theorem lexGo_relA : ∀ (src : List Byte) (m : Mode) (s1 s2 : LexSt), RLexA s1 s2 →
    RToks (lexGo src m s1) (lexGo src m s2) := by
  intro src
  induction src with
  | nil =>
    intro m s1 s2 h
    obtain ⟨hf, hs⟩ := flush_rel m h
    simp only [lexGo]
    exact RToks.append hf (RToks.cons (mk_rel hs (by decide) hs.2.2) RToks.nil)
  | cons c rest ih =>
    intro m s1 s2 h
    -- the dispatch on the look-ahead, for any related pair of states
    have hstart : ∀ t1 t2 : LexSt, RLexA t1 t2 →
        RToks
          (if isSpace c then
            if c = 10 then lexGo rest .start { t1 with line := t1.line + 1, col := 1 }
            else lexGo rest .start { t1 with col := t1.col + 1 }
          else if c = 35 then lexGo rest .comment { t1 with col := t1.col + 1 }
          else if isAlpha c then lexGo rest (.ident [c]) { t1 with col := t1.col + 1 }
          else if isDigit c then lexGo rest (.number [c]) { t1 with col := t1.col + 1 }
          else if c = 45 then mk .MINUS t1 (t1.col + 1) :: lexGo rest .start { t1 with col := t1.col + 1 }
          else if c = 255 then [mk .END_OF_FILE t1 t1.col]
          else mk .NONE t1 (t1.col + 1) :: lexGo rest .start { t1 with col := t1.col + 1 })
          (if isSpace c then
            if c = 10 then lexGo rest .start { t2 with line := t2.line + 1, col := 1 }
            else lexGo rest .start { t2 with col := t2.col + 1 }
          else if c = 35 then lexGo rest .comment { t2 with col := t2.col + 1 }
          else if isAlpha c then lexGo rest (.ident [c]) { t2 with col := t2.col + 1 }
          else if isDigit c then lexGo rest (.number [c]) { t2 with col := t2.col + 1 }
          else if c = 45 then mk .MINUS t2 (t2.col + 1) :: lexGo rest .start { t2 with col := t2.col + 1 }
          else if c = 255 then [mk .END_OF_FILE t2 t2.col]
          else mk .NONE t2 (t2.col + 1) :: lexGo rest .start { t2 with col := t2.col + 1 }) := by
      intro t1 t2 ht
      obtain ⟨h1, h2, h3⟩ := ht
      have hadv : RLexA { t1 with col := t1.col + 1 } { t2 with col := t2.col + 1 } := ⟨h1, h2, by simp [h3]⟩
      have hnl : RLexA { t1 with line := t1.line + 1, col := 1 } { t2 with line := t2.line + 1, col := 1 } := ⟨h1, by simp [h2], rfl⟩
      split
      · split
        · exact ih _ _ _ hnl
        · exact ih _ _ _ hadv
      · split
        · exact ih _ _ _ hadv
        · split
          · exact ih _ _ _ hadv
          · split
            · exact ih _ _ _ hadv
            · split
              · exact RToks.cons (mk_rel ⟨h1, h2, h3⟩ (by decide) (by simp [h3])) (ih _ _ _ hadv)
              · split
                · exact RToks.cons (mk_rel ⟨h1, h2, h3⟩ (by decide) h3) RToks.nil
                · exact RToks.cons (mk_rel ⟨h1, h2, h3⟩ (by decide) (by simp [h3])) (ih _ _ _ hadv)
    obtain ⟨h1, h2, h3⟩ := h
    have hadv : RLexA { s1 with col := s1.col + 1 } { s2 with col := s2.col + 1 } := ⟨h1, h2, by simp [h3]⟩
    have hnl : RLexA { s1 with line := s1.line + 1, col := 1 } { s2 with line := s2.line + 1, col := 1 } := ⟨h1, by simp [h2], rfl⟩
    cases m with
    | start => simp only [lexGo]; exact hstart s1 s2 ⟨h1, h2, h3⟩
    | comment =>
      simp only [lexGo]
      split
      · exact ih _ _ _ hnl
      · split
        · exact RToks.cons (mk_rel ⟨h1, h2, h3⟩ (by decide) h3) RToks.nil
        · exact ih _ _ _ hadv
    | ident acc =>
      by_cases hd : (isAlnum c || c = 95) = true
      · simp only [lexGo, hd, if_true]; exact ih _ _ _ hadv
      · obtain ⟨hf, hs⟩ := flush_rel (.ident acc) ⟨h1, h2, h3⟩
        have hst := hstart _ _ hs
        simp only [lexGo, hd, flush] at hf hst ⊢
        exact RToks.append hf hst
    | number acc =>
      by_cases hd : isDigit c = true
      · simp only [lexGo, hd, if_true]; exact ih _ _ _ hadv
      · obtain ⟨hf, hs⟩ := flush_rel (.number acc) ⟨h1, h2, h3⟩
        have hst := hstart _ _ hs
        simp only [lexGo, hd, flush] at hf hst ⊢
        exact RToks.append hf hst

end Hex.Asm

namespace Hex.Asm

theorem tokenizeJ_rel (j1 j2 : Nat) (src : List Byte) : RToks (tokenizeJ j1 src) (tokenizeJ j2 src) :=
  lexGo_relA src .start _ _ ⟨rfl, rfl, rfl⟩

theorem tokenize_eq_J (src : List Byte) : tokenize src = tokenizeJ 0 src := rfl

end Hex.Asm
