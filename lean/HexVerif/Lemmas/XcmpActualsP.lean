import HexVerif.Lemmas.XcmpActualsC
import HexVerif.Lemmas.XcmpPExpr
/-!
  Actuals with calls of PURE functions: the specifications `SaveSpec` / `LoadSpec` of
  `Lemmas/XcmpActualsC.lean`, all relative to the state before the first actual, from the
  evaluation of the actuals in the reference semantics.
-/
namespace Hex.C01s
open Hex Hex.X Hex.Xcmp Hex.IAm Hex.Asm

theorem containsCall_rewriteBin (op : BinOp) (L R : AExpr) :
    containsCall (rewriteBin op L R none) = (containsCall L || containsCall R) := by
  cases op <;> simp [rewriteBin, containsCall, Bool.or_comm]

/-- An expression of the class that is not call-free still contains its call after `ConstProp`
    and `OptimiseExpr`. -/
theorem pp_containsCall (ρ : String → Option Word) (ps imp : List String) :
    (e : X.Expr) → ppE ps imp e = true → pureE e = false → containsCall (optExpr (annotate ρ e)) = true
  | .num _, _, h => by simp [pureE] at h
  | .bool _, _, h => by simp [pureE] at h
  | .name _, _, h => by simp [pureE] at h
  | .str _, hp, _ => by simp [ppE] at hp
  | .syscall _ _, hp, _ => by simp [ppE] at hp
  | .sub _ i, hp, h => by simp only [ppE] at hp; simp only [pureE] at h; rw [hp] at h; simp at h
  | .call g args, _, _ => by
    have : optExpr (annotate ρ (.call g args)) = .call (-1) g (optArgs (annotateL ρ args)) := by
      simp only [annotate]
      conv => lhs; unfold optExpr
    rw [this]
    rfl
  | .un op x, hp, h => by
    have hcn : (annotate ρ (.un op x)).const = none := by
      cases hh : (annotate ρ (.un op x)).const with
      | none => rfl
      | some c => rw [annot_const_pure ρ ps imp _ c hp hh] at h; simp at h
    simp only [ppE] at hp
    simp only [pureE] at h
    have ih := pp_containsCall ρ ps imp x hp h
    simp only [annotate, AExpr.const_un] at hcn
    simp only [annotate]
    rw [optExpr_un, hcn]
    simp only [Option.isNone_none, true_and, Option.isSome_none, Bool.false_eq_true, if_false]
    cases op <;> simp [containsCall, ih]
  | .bin op l r, hp, h => by
    have hcn : (annotate ρ (.bin op l r)).const = none := by
      cases hh : (annotate ρ (.bin op l r)).const with
      | none => rfl
      | some c => rw [annot_const_pure ρ ps imp _ c hp hh] at h; simp at h
    simp only [ppE, Bool.and_eq_true] at hp
    simp only [pureE, Bool.and_eq_false_iff] at h
    simp only [annotate, AExpr.const_bin] at hcn
    simp only [annotate]
    rw [optExpr_bin, hcn]
    simp only [Option.isSome_none, Bool.false_eq_true, if_false]
    rw [containsCall_rewriteBin]
    rcases h with h | h
    · rw [pp_containsCall ρ ps imp l hp.1 h]; rfl
    · rw [pp_containsCall ρ ps imp r hp.2 h]; simp

/-- A value of an expression of the class that is not call-free is an integer. -/
theorem pp_nonpure_int (xc : X.Ctx) (ps imp : List String) (fuel : Nat) (e : X.Expr) (σ σ' : X.St) (r : ArrRef)
    (hp : ppE ps imp e = true) (h : X.eval fuel xc e σ = .ok (.arr r) σ') : pureE e = true := by
  cases fuel with
  | zero => unfold X.eval at h; simp at h
  | succ f =>
    cases e with
    | num x => rfl
    | bool b => rfl
    | name n => rfl
    | str bs => simp [ppE] at hp
    | syscall id args => simp [ppE] at hp
    | sub n i => simp only [ppE] at hp; simp only [pureE]; exact hp
    | call g args =>
      exfalso
      unfold X.eval at h
      cases ht : X.tick xc σ with
      | none => rw [ht] at h; simp at h
      | some st =>
        rw [ht] at h
        simp only at h
        split at h
        · simp at h
        · split at h
          · simp at h
          · split at h
            · simp at h
            · obtain ⟨vs, s1, _, h2⟩ := bind_ok_inv _ _ _ _ h
              obtain ⟨r', s2, _, h4⟩ := bind_ok_inv _ _ _ _ h2
              split at h4 <;> simp at h4
          · split at h
            · simp at h
            · obtain ⟨vs, s1, _, h2⟩ := bind_ok_inv _ _ _ _ h
              obtain ⟨r', s2, _, h4⟩ := bind_ok_inv _ _ _ _ h2
              split at h4 <;> simp at h4
    | un op x =>
      exfalso
      cases op with
      | neg => obtain ⟨_, _, _, _, h3⟩ := eval_neg _ _ _ _ _ _ h; simp at h3
      | not => obtain ⟨_, _, _, _, _, h3⟩ := eval_not _ _ _ _ _ _ h; simp at h3
    | bin op l r' =>
      exfalso
      by_cases hop : isArith op = true
      · obtain ⟨_, _, _, _, _, _, _, _, _, h5⟩ := eval_arith _ _ _ _ _ _ _ _ hop h; simp at h5
      · cases op <;> simp only [isArith, not_true_eq_false] at hop
        · obtain ⟨_, _, _, _, _, _, h4⟩ := eval_and _ _ _ _ _ _ _ h
          rcases h4 with ⟨_, hv, _⟩ | ⟨_, _, _, _, hv⟩ <;> simp at hv
        · obtain ⟨_, _, _, _, _, _, h4⟩ := eval_or _ _ _ _ _ _ _ h
          rcases h4 with ⟨_, hv, _⟩ | ⟨_, _, _, _, hv⟩ <;> simp at hv

section
variable (K : PCtx) (wf : K.WF) (ps : List String) (pk : PureOk K.xc)
variable (hps : ∀ g, ps.contains g = true → ∃ p, K.xc.genv.lookup g = some (.proc p))
include wf pk hps

/-- One actual of the class: its code leaves the word of its value in areg. -/
theorem pp_actual (fuel : Nat) (hleaf : ∀ k, k ≤ fuel → CallLeaf K ps k) (e : X.Expr) (σ : X.St) (v : Val) (σ' : X.St)
    (hp : ppE ps K.xc.impure e = true) (hn : NoLoc ps σ) (hev : X.eval fuel K.xc e σ = .ok v σ') :
    ExecAt false K (optExpr (annotate K.ρ e)) (wordOf K.abase v) σ ∧
    (containsCall (optExpr (annotate K.ρ e)) = false → ExecAt true K (optExpr (annotate K.ρ e)) (wordOf K.abase v) σ) := by
  by_cases hpu : pureE e = true
  · have h := expr_pure_val K wf fuel e σ v σ' hpu hev
    exact ⟨h.weaken, fun _ => h⟩
  · have hpf : pureE e = false := by simpa using hpu
    refine ⟨?_, fun hc => ?_⟩
    · cases v with
      | int w => exact expr_pp_correct K wf ps pk hps fuel hleaf e σ w σ' hp hn hev
      | arr r => exact absurd (pp_nonpure_int K.xc ps _ fuel e σ σ' r hp hev) hpu
    · rw [pp_containsCall K.ρ ps _ e hp hpf] at hc
      simp at hc

/-- **The actuals of the class**, relative to the state before the first one. -/
theorem ppArgs_specs : ∀ (es : List X.Expr) (fuel : Nat) (hleaf : ∀ k, k ≤ fuel → CallLeaf K ps k) (st0 st s : X.St)
    (vs : List Val) (mem : Mem),
    (∀ e ∈ es, ppE ps K.xc.impure e = true) → Sim st0 st → NoLoc ps st → Rep K st mem →
    X.evalArgs fuel K.xc es st = .ok vs s →
    Sim st s ∧ es.length = vs.length ∧ (∀ v ∈ vs, okV v = true) ∧
    SaveSpec K st0 (optArgsOf K.ρ es) (vs.map (wordOf K.abase)) ∧
    LoadSpec K st0 (optArgsOf K.ρ es) (vs.map (wordOf K.abase)) := by
  intro es
  induction es with
  | nil =>
    intro fuel _ st0 st s vs mem _ _ _ _ hev
    cases fuel with
    | zero => rw [evalArgs_zero] at hev; simp at hev
    | succ f =>
      rw [evalArgs_nil] at hev
      simp only [Res.ok.injEq] at hev
      rw [← hev.1, ← hev.2]
      exact ⟨Sim.refl _, rfl, fun v hv => by simp at hv, trivial, trivial⟩
  | cons e rest ih =>
    intro fuel hleaf st0 st s vs mem hp hs0 hn hr hev
    cases fuel with
    | zero => rw [evalArgs_zero] at hev; simp at hev
    | succ f =>
      obtain ⟨v0, s1, vs', h1, h2, hvs⟩ := evalArgs_cons_inv _ _ _ _ _ _ _ hev
      subst hvs
      have hpe := hp e (by simp)
      have hleaf' : ∀ k, k ≤ f → CallLeaf K ps k := fun k hk => hleaf k (Nat.le_succ_of_le hk)
      have hs1 := eval_pp_sim K.xc ps hps pk f e st v0 s1 hpe hn h1
      obtain ⟨hA, hB⟩ := pp_actual K wf ps pk hps f hleaf' e st v0 s1 hpe hn h1
      obtain ⟨hsr, hlen, hokv, hsave, hload⟩ := ih f hleaf' st0 s1 s vs' mem (fun x hx => hp x (by simp [hx]))
        (hs0.trans hs1) (hn.sim hs1) (hr.sim hs1) h2
      have hokv0 : okV v0 = true := by
        cases v0 with
        | int w => rfl
        | arr r =>
          have hpu := pp_nonpure_int K.xc ps _ f e st s1 r hpe h1
          exact eval_pure_okV K f e st _ s1 mem hpu hr h1
      refine ⟨hs1.trans hsr, by simp [hlen], ?_, ?_, ?_⟩
      · intro x hx
        rcases List.mem_cons.mp hx with rfl | hx
        · exact hokv0
        · exact hokv x hx
      · simp only [optArgsOf, List.map_cons, SaveSpec]
        exact ⟨fun _ => hA.sim hs0.symm, hsave⟩
      · simp only [optArgsOf, List.map_cons, LoadSpec]
        exact ⟨fun hc => (hB hc).sim hs0.symm, hload⟩

end

end Hex.C01s
