import HexVerif.Lemmas.XcmpActualsC
import HexVerif.Lemmas.XcmpPExpr
/-!
  Actuals with calls of PURE functions: the specifications `SaveSpec` / `LoadSpec` of
  `Lemmas/XcmpActualsC.lean`, all relative to the state before the first actual, from the
  evaluation of the actuals in the reference semantics.
-/
namespace Hex.C01s
open Hex Hex.X Hex.Xcmp Hex.IAm Hex.Asm

theorem containsCall_rewriteBin (op : BinOp) (L R : AExpr) :
    containsCall (rewriteBin op L R none) = (containsCall L || containsCall R) := by
  cases op <;> simp [rewriteBin, containsCall, Bool.or_comm]

/-- An expression of the class that is not call-free still contains its call after `ConstProp`
    and `OptimiseExpr`. -/
theorem pp_containsCall (ρ : String → Option Word) (ps imp : List String) :
    (e : X.Expr) → ppE ps imp e = true → pureE e = false → containsCall (optExpr (annotate ρ e)) = true
  | .num _, _, h => by simp [pureE] at h
  | .bool _, _, h => by simp [pureE] at h
  | .name _, _, h => by simp [pureE] at h
  | .str _, _, h => by simp [pureE] at h
  | .syscall _ _, hp, _ => by simp [ppE] at hp
  | .sub _ i, hp, h => by simp only [ppE] at hp; simp only [pureE] at h; rw [hp] at h; simp at h
  | .call g args, _, _ => by
    have : optExpr (annotate ρ (.call g args)) = .call (sysOf ρ g) g (optArgs (annotateL ρ args)) := by
      simp only [annotate]
      conv => lhs; unfold optExpr
    rw [this]
    rfl
  | .un op x, hp, h => by
    have hcn : (annotate ρ (.un op x)).const = none := by
      cases hh : (annotate ρ (.un op x)).const with
      | none => rfl
      | some c => rw [annot_const_pure ρ ps imp _ c hp hh] at h; simp at h
    simp only [ppE] at hp
    simp only [pureE] at h
    have ih := pp_containsCall ρ ps imp x hp h
    simp only [annotate, AExpr.const_un] at hcn
    simp only [annotate]
    rw [optExpr_un, hcn]
    simp only [Option.isNone_none, true_and, Option.isSome_none, Bool.false_eq_true, if_false]
    cases op <;> simp [containsCall, ih]
  | .bin op l r, hp, h => by
    have hcn : (annotate ρ (.bin op l r)).const = none := by
      cases hh : (annotate ρ (.bin op l r)).const with
      | none => rfl
      | some c => rw [annot_const_pure ρ ps imp _ c hp hh] at h; simp at h
    simp only [ppE, Bool.and_eq_true] at hp
    simp only [pureE, Bool.and_eq_false_iff] at h
    simp only [annotate, AExpr.const_bin] at hcn
    simp only [annotate]
    rw [optExpr_bin, hcn]
    simp only [Option.isSome_none, Bool.false_eq_true, if_false]
    rw [containsCall_rewriteBin]
    rcases h with h | h
    · rw [pp_containsCall ρ ps imp l hp.1 h]; rfl
    · rw [pp_containsCall ρ ps imp r hp.2 h]; simp

/-- The value of a call is an integer. -/
theorem eval_call_int (xc : X.Ctx) (fuel : Nat) (g : String) (args : List X.Expr) (σ σ' : X.St) (r : ArrRef)
    (h : X.eval fuel xc (.call g args) σ = .ok (.arr r) σ') : False := by
  cases fuel with
  | zero => unfold X.eval at h; simp at h
  | succ f =>
    unfold X.eval at h
    cases ht : X.tick xc σ with
    | none => rw [ht] at h; simp at h
    | some st =>
      rw [ht] at h
      simp only at h
      split at h
      · simp at h
      · split at h
        · simp at h
        · split at h
          · simp at h
          · obtain ⟨vs, s1, _, h2⟩ := bind_ok_inv _ _ _ _ h
            obtain ⟨r', s2, _, h4⟩ := bind_ok_inv _ _ _ _ h2
            split at h4 <;> simp at h4
        · split at h
          · simp at h
          · obtain ⟨vs, s1, _, h2⟩ := bind_ok_inv _ _ _ _ h
            obtain ⟨r', s2, _, h4⟩ := bind_ok_inv _ _ _ _ h2
            split at h4 <;> simp at h4

/-- A value of an expression of the class that is not call-free is an integer. -/
theorem pp_nonpure_int (xc : X.Ctx) (ps imp : List String) (fuel : Nat) (e : X.Expr) (σ σ' : X.St) (r : ArrRef)
    (hp : ppE ps imp e = true) (h : X.eval fuel xc e σ = .ok (.arr r) σ') : pureE e = true := by
  cases fuel with
  | zero => unfold X.eval at h; simp at h
  | succ f =>
    cases e with
    | num x => rfl
    | bool b => rfl
    | name n => rfl
    | str bs => rfl
    | syscall id args => simp [ppE] at hp
    | sub n i => simp only [ppE] at hp; simp only [pureE]; exact hp
    | call g args =>
      exfalso
      unfold X.eval at h
      cases ht : X.tick xc σ with
      | none => rw [ht] at h; simp at h
      | some st =>
        rw [ht] at h
        simp only at h
        split at h
        · simp at h
        · split at h
          · simp at h
          · split at h
            · simp at h
            · obtain ⟨vs, s1, _, h2⟩ := bind_ok_inv _ _ _ _ h
              obtain ⟨r', s2, _, h4⟩ := bind_ok_inv _ _ _ _ h2
              split at h4 <;> simp at h4
          · split at h
            · simp at h
            · obtain ⟨vs, s1, _, h2⟩ := bind_ok_inv _ _ _ _ h
              obtain ⟨r', s2, _, h4⟩ := bind_ok_inv _ _ _ _ h2
              split at h4 <;> simp at h4
    | un op x =>
      exfalso
      cases op with
      | neg => obtain ⟨_, _, _, _, h3⟩ := eval_neg _ _ _ _ _ _ h; simp at h3
      | not => obtain ⟨_, _, _, _, _, h3⟩ := eval_not _ _ _ _ _ _ h; simp at h3
    | bin op l r' =>
      exfalso
      by_cases hop : isArith op = true
      · obtain ⟨_, _, _, _, _, _, _, _, _, h5⟩ := eval_arith _ _ _ _ _ _ _ _ hop h; simp at h5
      · cases op <;> simp only [isArith, not_true_eq_false] at hop
        · obtain ⟨_, _, _, _, _, _, h4⟩ := eval_and _ _ _ _ _ _ _ h
          rcases h4 with ⟨_, hv, _⟩ | ⟨_, _, _, _, hv⟩ <;> simp at hv
        · obtain ⟨_, _, _, _, _, _, h4⟩ := eval_or _ _ _ _ _ _ _ h
          rcases h4 with ⟨_, hv, _⟩ | ⟨_, _, _, _, hv⟩ <;> simp at hv

section
variable (K : PCtx) (wf : K.WF) (ps : List String) (pk : PureOk K.xc)
variable (hps : ∀ g, ps.contains g = true → ∃ p, K.xc.genv.lookup g = some (.proc p))
include wf pk hps

/-- One actual of the class: its code leaves the word of its value in areg. -/
theorem pp_actual (fuel : Nat) (hleaf : ∀ k, k ≤ fuel → CallLeaf K ps k) (e : X.Expr) (σ : X.St) (v : Val) (σ' : X.St)
    (hp : ppE ps K.xc.impure e = true) (hn : NoLoc ps σ) (hev : X.eval fuel K.xc e σ = .ok v σ') :
    ExecP false K (optExpr (annotate K.ρ e)) (K.VRep v) σ ∧
    (containsCall (optExpr (annotate K.ρ e)) = false → ExecP true K (optExpr (annotate K.ρ e)) (K.VRep v) σ) := by
  by_cases hpu : pureE e = true
  · have h := expr_pure_val K wf fuel e σ v σ' hpu hev
    exact ⟨h.weaken, fun _ => h⟩
  · have hpf : pureE e = false := by simpa using hpu
    refine ⟨?_, fun hc => ?_⟩
    · cases v with
      | int w => exact (expr_pp_correct K wf ps pk hps fuel hleaf e σ w σ' hp hn hev).toP rfl
      | arr r => exact absurd (pp_nonpure_int K.xc ps _ fuel e σ σ' r hp hev) hpu
    · rw [pp_containsCall K.ρ ps _ e hp hpf] at hc
      simp at hc

/-- **The actuals of the class**, relative to the state before the first one. -/
theorem ppArgs_specs : ∀ (es : List X.Expr) (fuel : Nat) (hleaf : ∀ k, k ≤ fuel → CallLeaf K ps k) (st0 st s : X.St)
    (vs : List Val),
    (∀ e ∈ es, ppE ps K.xc.impure e = true) → Sim st0 st → NoLoc ps st →
    X.evalArgs fuel K.xc es st = .ok vs s →
    Sim st s ∧ es.length = vs.length ∧
    SaveSpec K st0 (optArgsOf K.ρ es) (vs.map K.VRep) ∧
    LoadSpec K st0 (optArgsOf K.ρ es) (vs.map K.VRep) := by
  intro es
  induction es with
  | nil =>
    intro fuel _ st0 st s vs _ _ _ hev
    cases fuel with
    | zero => rw [evalArgs_zero] at hev; simp at hev
    | succ f =>
      rw [evalArgs_nil] at hev
      simp only [Res.ok.injEq] at hev
      rw [← hev.1, ← hev.2]
      exact ⟨Sim.refl _, rfl, trivial, trivial⟩
  | cons e rest ih =>
    intro fuel hleaf st0 st s vs hp hs0 hn hev
    cases fuel with
    | zero => rw [evalArgs_zero] at hev; simp at hev
    | succ f =>
      obtain ⟨v0, s1, vs', h1, h2, hvs⟩ := evalArgs_cons_inv _ _ _ _ _ _ _ hev
      subst hvs
      have hpe := hp e (by simp)
      have hleaf' : ∀ k, k ≤ f → CallLeaf K ps k := fun k hk => hleaf k (Nat.le_succ_of_le hk)
      have hs1 := eval_pp_sim K.xc ps hps pk f e st v0 s1 hpe hn h1
      obtain ⟨hA, hB⟩ := pp_actual K wf ps pk hps f hleaf' e st v0 s1 hpe hn h1
      obtain ⟨hsr, hlen, hsave, hload⟩ := ih f hleaf' st0 s1 s vs' (fun x hx => hp x (by simp [hx]))
        (hs0.trans hs1) (hn.sim hs1) h2
      refine ⟨hs1.trans hsr, by simp [hlen], ?_, ?_⟩
      · simp only [optArgsOf, List.map_cons, SaveSpec]
        exact ⟨fun _ => hA.sim hs0.symm, hsave⟩
      · simp only [optArgsOf, List.map_cons, LoadSpec]
        exact ⟨fun hc => (hB hc).sim hs0.symm, hload⟩

end

/-! ### Constant actuals (literals and names of constants): their code does not look at the state -/

/-- The operators whose constant-annotated node `OptimiseExpr` keeps as it is (the others are
    rewritten to `~` / `<` / `=` even when they are constant). -/
def keptOp : BinOp → Bool
  | .plus | .minus | .eq | .ls | .and | .or => true
  | _ => false

/-- Constants: literals, names of constants, and the operators `ConstProp` folds over them (so
    `-1`, `k + 1`), except the relational operators that `OptimiseExpr` rewrites. -/
def isConstL (ρ : String → Option Word) : X.Expr → Bool
  | .num _ | .bool _ => true
  | .name n => (ρ n).isSome
  | .un _ e => isConstL ρ e
  | .bin op l r => keptOp op && isConstL ρ l && isConstL ρ r
  | _ => false

theorem constL_pure (ρ : String → Option Word) : (e : X.Expr) → isConstL ρ e = true → pureE e = true
  | .num _, _ => rfl
  | .bool _, _ => rfl
  | .name _, _ => rfl
  | .un _ x, h => by simp only [isConstL] at h; simp only [pureE]; exact constL_pure ρ x h
  | .bin _ l r, h => by
    simp only [isConstL, Bool.and_eq_true] at h
    simp only [pureE, Bool.and_eq_true]
    exact ⟨constL_pure ρ l h.1.2, constL_pure ρ r h.2⟩
  | .str _, h => by simp [isConstL] at h
  | .sub _ _, h => by simp [isConstL] at h
  | .call _ _, h => by simp [isConstL] at h
  | .syscall _ _, h => by simp [isConstL] at h

theorem constL_const (ρ : String → Option Word) : (e : X.Expr) → isConstL ρ e = true →
    (∃ c, (annotate ρ e).const = some c) ∧ optExpr (annotate ρ e) = annotate ρ e
  | .num x, _ => ⟨⟨x, rfl⟩, by simp [annotate, optExpr]⟩
  | .bool b, _ => ⟨⟨_, rfl⟩, by simp [annotate, optExpr]⟩
  | .name n, h => by
    simp only [isConstL] at h
    obtain ⟨c, hc⟩ := Option.isSome_iff_exists.mp h
    exact ⟨⟨c, by simp [annotate, hc]⟩, by simp [annotate, optExpr]⟩
  | .un op x, h => by
    simp only [isConstL] at h
    obtain ⟨⟨c, hc⟩, _⟩ := constL_const ρ x h
    refine ⟨⟨foldUn op c, by simp [annotate, hc]⟩, ?_⟩
    simp only [annotate, hc, Option.map_some]
    rw [optExpr_un]
    simp
  | .bin op l r, h => by
    simp only [isConstL, Bool.and_eq_true] at h
    obtain ⟨⟨cl, hcl⟩, _⟩ := constL_const ρ l h.1.2
    obtain ⟨⟨cr, hcr⟩, _⟩ := constL_const ρ r h.2
    refine ⟨⟨foldBin op cl cr, by simp [annotate, hcl, hcr]⟩, ?_⟩
    simp only [annotate, hcl, hcr]
    rw [optExpr_bin]
    simp only [Option.isSome_some, if_true]
    have hk := h.1.1
    cases op <;> simp [keptOp] at hk <;> rfl
  | .str _, h => by simp [isConstL] at h
  | .sub _ _, h => by simp [isConstL] at h
  | .call _ _, h => by simp [isConstL] at h
  | .syscall _ _, h => by simp [isConstL] at h

/-- The triple of a constant actual holds relative to ANY source state. -/
theorem execA_constL (K : PCtx) (wf : K.WF) (e : X.Expr) (hc : isConstL K.ρ e = true) (fuel : Nat) (σ0 σ1 : X.St) (v : Val)
    (hv : ValsOk K.ρ K.xc σ0) (hev : X.eval fuel K.xc e σ0 = .ok v σ1) (σ : X.St) :
    ∃ w, v = .int w ∧ ExecAt true K (optExpr (annotate K.ρ e)) w σ := by
  have hp := constL_pure K.ρ e hc
  obtain ⟨⟨c, hcc⟩, hopt⟩ := constL_const K.ρ e hc
  have hint : ∃ w, v = .int w := by
    cases v with
    | int w => exact ⟨w, rfl⟩
    | arr r =>
      exfalso
      rcases eval_pure_arr K.xc fuel _ σ0 σ1 r hp hev with ⟨n, rfl, ht, hrd⟩ | ⟨bs, ws, rfl, _⟩
      rotate_left
      · simp [isConstL] at hc
      simp only [isConstL] at hc
      obtain ⟨c', hc'⟩ := Option.isSome_iff_exists.mp hc
      have := (hv.same (tick_same _ _ _ ht)) n c' hc'
      rw [hrd] at this
      simp at this
  obtain ⟨w, rfl⟩ := hint
  have hw := annot_sound K.ρ K.xc fuel e σ0 w σ1 c hp hv hev hcc
  subst hw
  refine ⟨w, rfl, ?_⟩
  intro gs code gs' i a b mem hg hat hr hsz hnl hci
  rw [hopt, genExpr_annot_const _ _ _ _ _ hcc] at hg
  have st := exec_genConst K wf .A w gs gs' code σ i a b mem σ.io hg hat hr hci
  exact ⟨b, mem, st, hr, FrmC.refl _ _ _ _⟩

theorem savedOk_noCall (K : PCtx) (mem : Mem) : ∀ (args : List AExpr) (ws : List (Word → Prop)) (sv : Nat),
    (∀ a ∈ args, containsCall a = false) → SavedOk K mem args ws sv := by
  intro args
  induction args with
  | nil => intro ws sv _; cases ws <;> trivial
  | cons a rest ih =>
    intro ws sv h
    cases ws with
    | nil => trivial
    | cons w ws' =>
      unfold SavedOk
      rw [if_neg (by rw [h a (by simp)]; simp)]
      exact ih ws' sv (fun x hx => h x (by simp [hx]))

/-- **Constant actuals**: their values, and their code triples relative to any state. -/
theorem constLs_specs (K : PCtx) (wf : K.WF) : ∀ (post : List X.Expr) (f : Nat) (s1 s : X.St) (vs : List Val),
    (∀ e ∈ post, isConstL K.ρ e = true) → ValsOk K.ρ K.xc s1 → X.evalArgs f K.xc post s1 = .ok vs s →
    SameVars s1 s ∧ post.length = vs.length ∧
    ∀ σ, LoadSpec K σ (optArgsOf K.ρ post) (vs.map K.VRep) := by
  intro post
  induction post with
  | nil =>
    intro f s1 s vs _ _ hev
    cases f with
    | zero => rw [evalArgs_zero] at hev; simp at hev
    | succ f =>
      rw [evalArgs_nil] at hev
      simp only [Res.ok.injEq] at hev
      rw [← hev.1, ← hev.2]
      exact ⟨SameVars.refl _, rfl, fun _ => trivial⟩
  | cons e rest ih =>
    intro f s1 s vs hc hv hev
    cases f with
    | zero => rw [evalArgs_zero] at hev; simp at hev
    | succ f =>
      obtain ⟨v0, s2, vs', h1, h2, hvs⟩ := evalArgs_cons_inv _ _ _ _ _ _ _ hev
      subst hvs
      have hce := hc e (by simp)
      have hs12 := eval_pure K.xc _ _ _ _ _ (constL_pure K.ρ e hce) h1
      obtain ⟨hsr, hlen, hspec⟩ := ih f s2 s vs' (fun x hx => hc x (by simp [hx])) (hv.same hs12) h2
      refine ⟨hs12.trans hsr, by simp [hlen], fun σ => ?_⟩
      · obtain ⟨w, hw, hA⟩ := execA_constL K wf e hce f s1 s2 v0 hv h1 σ
        simp only [optArgsOf, List.map_cons, LoadSpec]
        refine ⟨fun _ => by rw [hw]; exact hA.toP rfl, hspec σ⟩

end Hex.C01s
