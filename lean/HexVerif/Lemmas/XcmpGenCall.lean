import HexVerif.Lemmas.XcmpGen
/-!
  Inversion lemmas for subscripts and calls, and the effect of every expression generator on
  the frame accounting (`genExpr_eff`).
-/
namespace Hex.Xcmp
open Hex.X (BinOp UnOp)

theorem genExpr_sub_inv (ctx : Ctx) (n : String) (i : AExpr) (reg : Reg) (gs gs' : GS) (code : Code)
    (h : genExpr ctx (.sub n i) reg gs = .ok (code, gs')) :
    ∃ sym, ctx.tbl.lookup ctx.scope n = .ok sym ∧
      ((∃ v, i.const = some v ∧ code = genVar .A sym ++ [iLDAI v.toInt] ∧ gs' = gs) ∨
       (i.const = none ∧ ∃ ci, genExpr ctx i .A gs = .ok (ci, gs') ∧ code = ci ++ genVar .B sym ++ [iADD, iLDAI 0])) := by
  unfold genExpr at h
  msimp at h
  cases hl : ctx.tbl.lookup ctx.scope n with
  | error e => rw [hl] at h; simp at h
  | ok sym =>
    rw [hl] at h
    simp only at h
    refine ⟨sym, rfl, ?_⟩
    cases hc : i.const with
    | some v =>
      rw [hc] at h
      simp only [StateT.pure, pure, Except.pure, Except.ok.injEq, Prod.mk.injEq] at h
      exact Or.inl ⟨v, rfl, h.1.symm, h.2.symm⟩
    | none =>
      rw [hc] at h
      simp only at h
      obtain ⟨ci, gs1, hi, h⟩ := bind_ok (genExpr ctx i .A) _ _ _ h
      simp only [StateT.pure, pure, Except.pure, Except.ok.injEq, Prod.mk.injEq] at h
      obtain ⟨h1, h2⟩ := h
      subst h2
      exact Or.inr ⟨rfl, ci, hi, h1.symm⟩

/-- `n` times `incOffset 1`. -/
def bumpN : Nat → GS → GS
  | 0, gs => gs
  | n + 1, gs => bumpN n { gs with offset := gs.offset + 1, size := max gs.size (gs.offset + 1) }

theorem incOffsetN_run : ∀ (n : Nat) (gs : GS), incOffsetN n gs = .ok ((), bumpN n gs) := by
  intro n
  induction n with
  | zero => intro gs; rfl
  | succ n ih =>
    intro gs
    unfold incOffsetN
    simp only [bind, StateT.bind, Except.bind, incOffset, modify, modifyGet, MonadStateOf.modifyGet, StateT.modifyGet,
      pure, Except.pure]
    rw [ih]
    rfl

theorem bumpN_facts : ∀ (n : Nat) (gs : GS), (bumpN n gs).offset = gs.offset + n ∧ gs.size ≤ (bumpN n gs).size ∧
    (bumpN n gs).labelCount = gs.labelCount ∧ (0 < n → gs.offset + n ≤ (bumpN n gs).size) ∧
    (bumpN n gs).items = gs.items := by
  intro n
  induction n with
  | zero => intro gs; simp [bumpN]
  | succ n ih =>
    intro gs
    unfold bumpN
    obtain ⟨h1, h2, h3, h4, h5⟩ := ih { gs with offset := gs.offset + 1, size := max gs.size (gs.offset + 1) }
    simp only at h1 h2 h3 h4 h5
    refine ⟨by omega, by omega, h3, fun _ => ?_, h5⟩
    by_cases hn : 0 < n
    · have := h4 hn; omega
    · have : n = 0 := by omega
      subst this
      simp only [bumpN] at h2 ⊢
      omega

/-- The instructions that follow the loading of the actuals. -/
def callTail (kind : CallKind) (labelCount : Nat) : Code :=
  match kind with
  | .sys id => [iLDAC id, iSVC, iLDAM SP_OFFSET, iLDAI 1]
  | .func name => [lLDAP (lab labelCount), lBR name, iLabel (lab labelCount), iLDAM SP_OFFSET, iLDAI 1]
  | .proc name => [lLDAP (lab labelCount), lBR name, iLabel (lab labelCount)]

def CallKind.labels : CallKind → Nat
  | .sys _ => 0
  | _ => 1

theorem callSeq_inv (kind : CallKind) (nargs ncalls : Nat) (actuals : M Code) (load : Nat → Nat → M Code)
    (gs gs' : GS) (code : Code) (h : callSeq kind nargs ncalls actuals load gs = .ok (code, gs')) :
    ∃ c1 gs1 c2 gs2, actuals { gs with size := gs.offset } = .ok (c1, gs1) ∧
      load kind.paramOffset gs.offset (bumpN ncalls { gs1 with offset := gs.offset }) = .ok (c2, gs2) ∧
      code = c1 ++ c2 ++ callTail kind gs2.labelCount ∧
      gs' = { gs2 with offset := gs.offset,
                       size := max (max gs.size gs2.size) (gs2.size + (nargs + kind.paramOffset)),
                       labelCount := gs2.labelCount + kind.labels } := by
  unfold callSeq at h
  obtain ⟨stackOffset, g0, h0, h⟩ := bind_ok _ _ _ _ h
  simp only [getOffset, bind, StateT.bind, get, getThe, MonadStateOf.get, StateT.get, pure, StateT.pure, Except.pure,
    Except.bind, Except.ok.injEq, Prod.mk.injEq] at h0
  obtain ⟨hso, hg0⟩ := h0
  subst hso; subst hg0
  obtain ⟨frameSize, g0, h0, h⟩ := bind_ok _ _ _ _ h
  simp only [getSize, bind, StateT.bind, get, getThe, MonadStateOf.get, StateT.get, pure, StateT.pure, Except.pure,
    Except.bind, Except.ok.injEq, Prod.mk.injEq] at h0
  obtain ⟨hfs, hg0⟩ := h0
  subst hfs; subst hg0
  obtain ⟨_, g1, h1, h⟩ := bind_ok _ _ _ _ h
  simp only [setSize, modify, modifyGet, MonadStateOf.modifyGet, StateT.modifyGet, pure, Except.pure,
    Except.ok.injEq, Prod.mk.injEq] at h1
  obtain ⟨_, hg1⟩ := h1
  subst hg1
  obtain ⟨c1, gs1, ha, h⟩ := bind_ok _ _ _ _ h
  obtain ⟨_, g2, h2, h⟩ := bind_ok _ _ _ _ h
  simp only [setOffset, modify, modifyGet, MonadStateOf.modifyGet, StateT.modifyGet, pure, Except.pure,
    Except.ok.injEq, Prod.mk.injEq] at h2
  obtain ⟨_, hg2⟩ := h2
  subst hg2
  obtain ⟨savedOffset, g3, h3, h⟩ := bind_ok _ _ _ _ h
  simp only [getOffset, bind, StateT.bind, get, getThe, MonadStateOf.get, StateT.get, pure, StateT.pure, Except.pure,
    Except.bind, Except.ok.injEq, Prod.mk.injEq] at h3
  obtain ⟨hso, hg3⟩ := h3
  subst hso; subst hg3
  obtain ⟨_, g4, h4, h⟩ := bind_ok _ _ _ _ h
  rw [incOffsetN_run] at h4
  simp only [Except.ok.injEq, Prod.mk.injEq] at h4
  obtain ⟨_, hg4⟩ := h4
  subst hg4
  obtain ⟨c2, gs2, hl, h⟩ := bind_ok _ _ _ _ h
  refine ⟨c1, gs1, c2, gs2, ha, hl, ?_⟩
  obtain ⟨deepest, g5, h5, h⟩ := bind_ok _ _ _ _ h
  simp only [getSize, bind, StateT.bind, get, getThe, MonadStateOf.get, StateT.get, pure, StateT.pure, Except.pure,
    Except.bind, Except.ok.injEq, Prod.mk.injEq] at h5
  obtain ⟨hd, hg5⟩ := h5
  subst hd; subst hg5
  obtain ⟨_, g6, h6, h⟩ := bind_ok _ _ _ _ h
  simp only [setSize, modify, modifyGet, MonadStateOf.modifyGet, StateT.modifyGet, pure, Except.pure,
    Except.ok.injEq, Prod.mk.injEq] at h6
  obtain ⟨_, hg6⟩ := h6
  subst hg6
  obtain ⟨_, g7, h7, h⟩ := bind_ok _ _ _ _ h
  simp only [setOffset, modify, modifyGet, MonadStateOf.modifyGet, StateT.modifyGet, pure, Except.pure,
    Except.ok.injEq, Prod.mk.injEq] at h7
  obtain ⟨_, hg7⟩ := h7
  subst hg7
  obtain ⟨_, g8, h8, h⟩ := bind_ok _ _ _ _ h
  simp only [incOffset, modify, modifyGet, MonadStateOf.modifyGet, StateT.modifyGet, pure, Except.pure,
    Except.ok.injEq, Prod.mk.injEq] at h8
  obtain ⟨_, hg8⟩ := h8
  subst hg8
  obtain ⟨c3, g9, h9, h⟩ := bind_ok _ _ _ _ h
  obtain ⟨_, g10, h10, h⟩ := bind_ok _ _ _ _ h
  simp only [setOffset, modify, modifyGet, MonadStateOf.modifyGet, StateT.modifyGet, pure, Except.pure,
    Except.ok.injEq, Prod.mk.injEq] at h10
  obtain ⟨_, hg10⟩ := h10
  subst hg10
  simp only [pure, StateT.pure, Except.pure, Except.ok.injEq, Prod.mk.injEq] at h
  obtain ⟨hc, hg⟩ := h
  subst hc; subst hg
  cases kind with
  | sys id =>
    simp only [callTailM, pure, StateT.pure, Except.pure, Except.ok.injEq, Prod.mk.injEq] at h9
    obtain ⟨hc3, hg9⟩ := h9
    subst hc3; subst hg9
    exact ⟨rfl, by simp [CallKind.labels]⟩
  | func name =>
    simp only [callTailM] at h9
    msimp at h9
    simp only [StateT.pure, pure, Except.pure, Except.ok.injEq, Prod.mk.injEq] at h9
    obtain ⟨hc3, hg9⟩ := h9
    subst hc3; subst hg9
    exact ⟨rfl, by simp [CallKind.labels]⟩
  | proc name =>
    simp only [callTailM] at h9
    msimp at h9
    simp only [StateT.pure, pure, Except.pure, Except.ok.injEq, Prod.mk.injEq] at h9
    obtain ⟨hc3, hg9⟩ := h9
    subst hc3; subst hg9
    exact ⟨rfl, by simp [CallKind.labels]⟩

theorem genCallActuals_nil (ctx : Ctx) (gs : GS) : genCallActuals ctx [] gs = .ok ([], gs) := by
  unfold genCallActuals; rfl

theorem genCallActuals_cons_inv (ctx : Ctx) (arg : AExpr) (rest : List AExpr) (gs gs' : GS) (code : Code)
    (h : genCallActuals ctx (arg :: rest) gs = .ok (code, gs')) :
    (containsCall arg = true ∧ ∃ c gs1 cs, genExpr ctx arg .A gs = .ok (c, gs1) ∧
        genCallActuals ctx rest { gs1 with offset := gs1.offset + 1, size := max gs1.size (gs1.offset + 1) } = .ok (cs, gs') ∧
        code = c ++ [iLDBM SP_OFFSET, .fb .stai ctx.frame (-(gs1.offset : Int))] ++ cs) ∨
    (containsCall arg = false ∧ genCallActuals ctx rest gs = .ok (code, gs')) := by
  unfold genCallActuals at h
  cases hc : containsCall arg with
  | true =>
    left
    simp only [hc, if_true] at h
    obtain ⟨c, gs1, he, h⟩ := bind_ok _ _ _ _ h
    obtain ⟨off, g1, h1, h⟩ := bind_ok _ _ _ _ h
    simp only [getOffset, bind, StateT.bind, get, getThe, MonadStateOf.get, StateT.get, pure, StateT.pure, Except.pure,
      Except.bind, Except.ok.injEq, Prod.mk.injEq] at h1
    obtain ⟨ho, hg1⟩ := h1
    subst ho; subst hg1
    obtain ⟨_, g2, h2, h⟩ := bind_ok _ _ _ _ h
    simp only [incOffset, modify, modifyGet, MonadStateOf.modifyGet, StateT.modifyGet, pure, Except.pure,
      Except.ok.injEq, Prod.mk.injEq] at h2
    obtain ⟨_, hg2⟩ := h2
    subst hg2
    obtain ⟨cs, gs2, hr, h⟩ := bind_ok _ _ _ _ h
    simp only [pure, StateT.pure, Except.pure, Except.ok.injEq, Prod.mk.injEq] at h
    obtain ⟨hc', hg⟩ := h
    subst hg
    exact ⟨rfl, c, gs1, cs, he, hr, hc'.symm⟩
  | false =>
    right
    simp only [hc, Bool.false_eq_true, if_false] at h
    exact ⟨rfl, h⟩

theorem loadActuals_nil (ctx : Ctx) (p s : Nat) (gs : GS) : loadActuals ctx [] p s gs = .ok ([], gs) := by
  unfold loadActuals; rfl

theorem loadActuals_cons_inv (ctx : Ctx) (arg : AExpr) (rest : List AExpr) (p s : Nat) (gs gs' : GS) (code : Code)
    (h : loadActuals ctx (arg :: rest) p s gs = .ok (code, gs')) :
    (containsCall arg = true ∧ ∃ cs, loadActuals ctx rest (p + 1) (s + 1) gs = .ok (cs, gs') ∧
        code = [iLDAM SP_OFFSET, .fb .ldai ctx.frame (-(s : Int)), iLDBM SP_OFFSET, iSTAI p] ++ cs) ∨
    (containsCall arg = false ∧ ∃ c gs1 cs, genExpr ctx arg .A gs = .ok (c, gs1) ∧
        loadActuals ctx rest (p + 1) s gs1 = .ok (cs, gs') ∧ code = c ++ [iLDBM SP_OFFSET, iSTAI p] ++ cs) := by
  unfold loadActuals at h
  cases hc : containsCall arg with
  | true =>
    left
    simp only [hc, if_true] at h
    obtain ⟨cs, gs2, hr, h⟩ := bind_ok _ _ _ _ h
    simp only [pure, StateT.pure, Except.pure, Except.ok.injEq, Prod.mk.injEq] at h
    obtain ⟨hc', hg⟩ := h
    subst hg
    exact ⟨rfl, cs, hr, hc'.symm⟩
  | false =>
    right
    simp only [hc, Bool.false_eq_true, if_false] at h
    obtain ⟨c, gs1, he, h⟩ := bind_ok _ _ _ _ h
    obtain ⟨cs, gs2, hr, h⟩ := bind_ok _ _ _ _ h
    simp only [pure, StateT.pure, Except.pure, Except.ok.injEq, Prod.mk.injEq] at h
    obtain ⟨hc', hg⟩ := h
    subst hg
    exact ⟨rfl, c, gs1, cs, he, hr, hc'.symm⟩

theorem exprCallKind_inv (ctx : Ctx) (sys : Int) (f : String) (gs gs' : GS) (kind : CallKind)
    (h : exprCallKind ctx sys f gs = .ok (kind, gs')) :
    gs' = gs ∧ ((sys ≠ -1 ∧ kind = .sys sys) ∨
      (sys = -1 ∧ ∃ sym, ctx.tbl.lookup ctx.scope f = .ok sym ∧
        kind = if sym.type = .func then .func f else .proc f)) := by
  unfold exprCallKind at h
  by_cases hs : sys ≠ -1
  · rw [if_pos hs] at h
    simp only [pure, StateT.pure, Except.pure, Except.ok.injEq, Prod.mk.injEq] at h
    exact ⟨h.2.symm, Or.inl ⟨hs, h.1.symm⟩⟩
  · rw [if_neg hs] at h
    msimp at h
    cases hl : ctx.tbl.lookup ctx.scope f with
    | error e => rw [hl] at h; simp at h
    | ok sym =>
      rw [hl] at h
      simp only [StateT.pure, pure, Except.pure, Except.ok.injEq, Prod.mk.injEq] at h
      exact ⟨h.2.symm, Or.inr ⟨by omega, sym, rfl, h.1.symm⟩⟩

theorem genExpr_call_inv (ctx : Ctx) (sys : Int) (f : String) (args : List AExpr) (reg : Reg) (gs gs' : GS) (code : Code)
    (h : genExpr ctx (.call sys f args) reg gs = .ok (code, gs')) :
    ∃ kind, exprCallKind ctx sys f gs = .ok (kind, gs) ∧
      callSeq kind args.length (countCalls args) (genCallActuals ctx args) (fun p s => loadActuals ctx args p s) gs
        = .ok (code, gs') := by
  unfold genExpr at h
  obtain ⟨kind, gs1, h1, h2⟩ := bind_ok _ _ _ _ h
  have := (exprCallKind_inv _ _ _ _ _ _ h1).1
  subst this
  exact ⟨kind, h1, h2⟩

/-! ### Effect on the frame accounting -/

/-- Generators preserve the frame offset and only grow the frame size and the label counter. -/
def Eff (gs gs' : GS) : Prop :=
  gs'.offset = gs.offset ∧ gs.size ≤ gs'.size ∧ gs.labelCount ≤ gs'.labelCount ∧
  (∀ e ∈ gs.items, e ∈ gs'.items)

theorem Eff.refl (gs : GS) : Eff gs gs := ⟨rfl, Nat.le_refl _, Nat.le_refl _, fun _ h => h⟩

theorem Eff.trans {a b c : GS} (h1 : Eff a b) (h2 : Eff b c) : Eff a c :=
  ⟨by rw [h2.1, h1.1], Nat.le_trans h1.2.1 h2.2.1, Nat.le_trans h1.2.2.1 h2.2.2.1,
   fun e he => h2.2.2.2 e (h1.2.2.2 e he)⟩

theorem genConst_eff (reg : Reg) (v : CInt) (gs gs' : GS) (code : Code) (h : genConst reg v gs = .ok (code, gs')) :
    Eff gs gs' := by
  obtain ⟨h1, h2, h3, h4⟩ := genConst_inv reg v gs gs' code h
  refine ⟨h1, by omega, by omega, ?_⟩
  by_cases hs : v.toInt > -65536 ∧ v.toInt < 65536
  · rw [genConst_small reg v gs hs] at h
    simp only [Except.ok.injEq, Prod.mk.injEq] at h
    rw [← h.2]; exact fun _ he => he
  · unfold genConst at h
    rw [if_neg hs] at h
    obtain ⟨label, gs1, hp, hr⟩ := bind_ok _ _ _ _ h
    simp only [pure, StateT.pure, Except.pure, Except.ok.injEq, Prod.mk.injEq] at hr
    rw [← hr.2]
    exact items_mono (genConstPool_inv _ _ _ _ hp).2.2.2.2 (fun e he => by rw [genConstPool_strs _ _ _ _ hp]; exact he)

theorem genExpr_neg (ctx : Ctx) (e : AExpr) (reg : Reg) (gs : GS) :
    genExpr ctx (.un .neg e none) reg gs = .ok ([], gs) := by
  unfold genExpr; rfl

theorem genOperands_eff (ctx : Ctx) (l r : AExpr)
    (ihl : ∀ gs code gs', genExpr ctx l .A gs = .ok (code, gs') → Eff gs gs')
    (ihra : ∀ gs code gs', genExpr ctx r .A gs = .ok (code, gs') → Eff gs gs')
    (ihrb : ∀ gs code gs', genExpr ctx r .B gs = .ok (code, gs') → Eff gs gs')
    (gs gs' : GS) (code : Code) (h : genOperands ctx l r gs = .ok (code, gs')) : Eff gs gs' := by
  unfold genOperands at h
  obtain ⟨hA, hB⟩ := binopOperands_inv _ _ _ _ _ _ _ _ h
  cases hn : needsAReg r with
  | true =>
    obtain ⟨cr, gs1, cl, gs2, h1, h2, _, h4⟩ := hA hn
    obtain ⟨a1, a2, a3, a4⟩ := ihra _ _ _ h1
    obtain ⟨b1, b2, b3, b4⟩ := ihl _ _ _ h2
    subst h4
    simp only at b1 b2 b3 b4
    exact ⟨rfl, by simp only; omega, by simp only; omega, fun e he => b4 e (a4 e he)⟩
  | false =>
    obtain ⟨cl, gs1, cr, h1, h2, _⟩ := hB hn
    exact (ihl _ _ _ h1).trans (ihrb _ _ _ h2)

theorem eqOperand_eff (ctx : Ctx) (l r : AExpr) (lz rz : Bool)
    (ihl : ∀ gs code gs', genExpr ctx l .A gs = .ok (code, gs') → Eff gs gs')
    (ihra : ∀ gs code gs', genExpr ctx r .A gs = .ok (code, gs') → Eff gs gs')
    (ihrb : ∀ gs code gs', genExpr ctx r .B gs = .ok (code, gs') → Eff gs gs')
    (gs gs' : GS) (code : Code)
    (h : eqOperand lz rz (genExpr ctx l .A) (genExpr ctx r .A) (genOperands ctx l r) gs = .ok (code, gs')) :
    Eff gs gs' := by
  rcases eqOperand_inv _ _ _ _ _ _ _ _ h with ⟨_, h1⟩ | ⟨_, _, h1⟩ | ⟨_, _, c, h1, _⟩
  · exact ihra _ _ _ h1
  · exact ihl _ _ _ h1
  · exact genOperands_eff ctx l r ihl ihra ihrb _ _ _ h1

/-- **Frame accounting of expressions**: generating an expression leaves `Frame::offset` where it
    was; `Frame::size` and the label counter only grow. -/
theorem genExpr_eff (ctx : Ctx) (e : AExpr) (reg : Reg) :
    ∀ (gs : GS) (code : Code) (gs' : GS), genExpr ctx e reg gs = .ok (code, gs') → Eff gs gs' := by
  apply genExpr.induct
    (motive_1 := fun e reg => ∀ (gs : GS) (code : Code) (gs' : GS), genExpr ctx e reg gs = .ok (code, gs') → Eff gs gs')
    (motive_2 := fun args p s => ∀ (gs : GS) (code : Code) (gs' : GS), loadActuals ctx args p s gs = .ok (code, gs') → Eff gs gs')
    (motive_3 := fun args => ∀ (gs : GS) (code : Code) (gs' : GS), genCallActuals ctx args gs = .ok (code, gs') →
        gs'.offset = gs.offset + countCalls args ∧ gs.size ≤ gs'.size ∧ gs.labelCount ≤ gs'.labelCount ∧
        (∀ e ∈ gs.items, e ∈ gs'.items))
  -- num, bool, str, name
  · intro v c reg gs code gs' h; rw [genExpr_num] at h; exact genConst_eff _ _ _ _ _ h
  · intro b c reg gs code gs' h; rw [genExpr_bool] at h; exact genConst_eff _ _ _ _ _ h
  · intro bs reg gs code gs' h; rw [genExpr_str] at h
    obtain ⟨h1, h2, h3, h4⟩ := genString_inv _ _ _ _ _ h; exact ⟨h1, by omega, by omega, (genString_items _ _ _ _ _ h).1⟩
  · intro n reg v gs code gs' h; rw [genExpr_name_const] at h; exact genConst_eff _ _ _ _ _ h
  · intro n reg gs code gs' h
    obtain ⟨_, _, _, h3⟩ := genExpr_name_inv _ _ _ _ _ _ h; subst h3; exact Eff.refl _
  -- sub
  · intro n i x ih gs code gs' h
    obtain ⟨sym, _, hc⟩ := genExpr_sub_inv _ _ _ _ _ _ _ h
    rcases hc with ⟨v, _, _, h3⟩ | ⟨_, ci, h2, _⟩
    · subst h3; exact Eff.refl _
    · exact ih _ _ _ h2
  -- call
  · intro sys f args x ih3 ih2 gs code gs' h
    obtain ⟨kind, _, hs⟩ := genExpr_call_inv _ _ _ _ _ _ _ _ h
    obtain ⟨c1, gs1, c2, gs2, h1, h2, _, h4⟩ := callSeq_inv _ _ _ _ _ _ _ _ hs
    obtain ⟨a1, a2, a3, a4⟩ := ih3 _ _ _ h1
    obtain ⟨b1, b2, b3, _, b5⟩ := bumpN_facts (countCalls args) { gs1 with offset := gs.offset }
    obtain ⟨c1', c2', c3', c4'⟩ := ih2 _ _ _ _ _ h2
    subst h4
    simp only at a1 a2 a3 a4 b1 b2 b3 b5 c1' c2' c3' c4'
    refine ⟨rfl, ?_, ?_, ?_⟩
    · simp only; omega
    · simp only; omega
    · intro e he
      apply c4'
      rw [b5]
      exact a4 e he
  -- un const, not, neg
  · intro op e reg v gs code gs' h; rw [genExpr_un_const] at h; exact genConst_eff _ _ _ _ _ h
  · intro e reg ih gs code gs' h
    obtain ⟨ce, h1, _⟩ := genExpr_not_inv _ _ _ _ _ _ h
    obtain ⟨a1, a2, a3, a4⟩ := ih _ _ _ h1
    exact ⟨a1, a2, by simp only at a3; omega, a4⟩
  · intro e reg gs code gs' h
    rw [genExpr_neg] at h
    simp only [Except.ok.injEq, Prod.mk.injEq] at h
    rw [← h.2]; exact Eff.refl _
  -- bin const
  · intro op l r reg v gs code gs' h; rw [genExpr_bin_const] at h; exact genConst_eff _ _ _ _ _ h
  -- plus, minus
  · intro l r reg ihl ihra ihrb gs code gs' h
    obtain ⟨c, h1, _⟩ := genExpr_plus_inv _ _ _ _ _ _ _ h
    exact genOperands_eff ctx l r ihl ihra ihrb _ _ _ h1
  · intro l r reg ihl ihra ihrb gs code gs' h
    obtain ⟨c, h1, _⟩ := genExpr_minus_inv _ _ _ _ _ _ _ h
    exact genOperands_eff ctx l r ihl ihra ihrb _ _ _ h1
  -- and, or
  · intro l r reg ihl ihr gs code gs' h
    obtain ⟨cl, gs1, cr, h1, h2, _⟩ := genExpr_and_inv _ _ _ _ _ _ _ h
    obtain ⟨a1, a2, a3, a4⟩ := ihl _ _ _ h1
    obtain ⟨b1, b2, b3, b4⟩ := ihr _ _ _ h2
    simp only at a1 a2 a3 a4
    exact ⟨by omega, by omega, by omega, fun e he => b4 e (a4 e he)⟩
  · intro l r reg ihl ihr gs code gs' h
    obtain ⟨cl, gs1, cr, h1, h2, _⟩ := genExpr_or_inv _ _ _ _ _ _ _ h
    obtain ⟨a1, a2, a3, a4⟩ := ihl _ _ _ h1
    obtain ⟨b1, b2, b3, b4⟩ := ihr _ _ _ h2
    simp only at a1 a2 a3 a4
    exact ⟨by omega, by omega, by omega, fun e he => b4 e (a4 e he)⟩
  -- eq, ls
  · intro l r reg ihl ihra ihrb gs code gs' h
    obtain ⟨c, gs1, h1, h2, _⟩ := genExpr_eq_inv _ _ _ _ _ _ _ h
    obtain ⟨a1, a2, a3, a4⟩ := eqOperand_eff ctx l r _ _ ihl ihra ihrb _ _ _ h1
    subst h2
    exact ⟨a1, a2, by simp only; omega, a4⟩
  · intro l r reg ihl ihra ihrb gs code gs' h
    obtain ⟨c, gs1, h1, h2, _⟩ := genExpr_ls_inv _ _ _ _ _ _ _ h
    obtain ⟨a1, a2, a3, a4⟩ := eqOperand_eff ctx l r _ _ ihl ihra ihrb _ _ _ h1
    subst h2
    exact ⟨a1, a2, by simp only; omega, a4⟩
  -- other operators: nothing generated
  · intro op l r reg h1 h2 h3 h4 h5 h6 gs code gs' h
    unfold genExpr at h
    cases op <;> first | (exact absurd rfl h1) | (exact absurd rfl h2) | (exact absurd rfl h3) | (exact absurd rfl h4)
                       | (exact absurd rfl h5) | (exact absurd rfl h6)
                       | (simp only [pure, StateT.pure, Except.pure, Except.ok.injEq, Prod.mk.injEq] at h
                          rw [← h.2]; exact Eff.refl _)
  -- loadActuals
  · intro p s gs code gs' h
    rw [loadActuals_nil] at h
    simp only [Except.ok.injEq, Prod.mk.injEq] at h
    rw [← h.2]; exact Eff.refl _
  · intro arg rest p s hc ih gs code gs' h
    rcases loadActuals_cons_inv _ _ _ _ _ _ _ _ h with ⟨_, cs, h1, _⟩ | ⟨hc', _⟩
    · exact ih _ _ _ h1
    · rw [hc'] at hc; simp at hc
  · intro arg rest p s hc ih1 ih gs code gs' h
    rcases loadActuals_cons_inv _ _ _ _ _ _ _ _ h with ⟨hc', _⟩ | ⟨_, c, gs1, cs, h1, h2, _⟩
    · exact absurd hc' hc
    · exact (ih1 _ _ _ h1).trans (ih _ _ _ h2)
  -- genCallActuals
  · intro gs code gs' h
    rw [genCallActuals_nil] at h
    simp only [Except.ok.injEq, Prod.mk.injEq] at h
    rw [← h.2]; simp [countCalls]
  · intro a as hc ih1 ih gs code gs' h
    rcases genCallActuals_cons_inv _ _ _ _ _ _ h with ⟨_, c, gs1, cs, h1, h2, _⟩ | ⟨hc', _⟩
    · obtain ⟨a1, a2, a3, a4⟩ := ih1 _ _ _ h1
      obtain ⟨b1, b2, b3, b4⟩ := ih _ _ _ h2
      simp only at b1 b2 b3 b4
      simp only [countCalls, hc, if_true]
      exact ⟨by omega, by omega, by omega, fun e he => b4 e (a4 e he)⟩
    · rw [hc'] at hc; simp at hc
  · intro a as hc ih gs code gs' h
    rcases genCallActuals_cons_inv _ _ _ _ _ _ h with ⟨hc', _⟩ | ⟨_, h1⟩
    · exact absurd hc' hc
    · obtain ⟨b1, b2, b3, b4⟩ := ih _ _ _ h1
      simp only [countCalls, hc, Bool.false_eq_true, if_false]
      exact ⟨by omega, b2, b3, b4⟩

end Hex.Xcmp
