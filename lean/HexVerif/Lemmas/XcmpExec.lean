import HexVerif.Am.Indexed
import HexVerif.Lemmas.XcmpGenCall
/-!
  Infrastructure for the source-level stages of C01: code located in a directive list (`At`),
  label resolution under unique label names, lowering of code fragments, and word arithmetic
  for frame slots.
-/
namespace Hex.C01s
open Hex Hex.Asm Hex.IAm Hex.Xcmp

/-! ### Code at a position -/

/-- The directive list `c` occurs in `ds` starting at index `i`. -/
def At (ds : List Dir) (i : Nat) (c : List Dir) : Prop :=
  ∃ pre post, ds = pre ++ c ++ post ∧ pre.length = i

theorem At.head {ds : List Dir} {i : Nat} {d : Dir} {c : List Dir} (h : At ds i (d :: c)) : ds[i]? = some d := by
  obtain ⟨pre, post, rfl, rfl⟩ := h
  simp

theorem At.tail {ds : List Dir} {i : Nat} {d : Dir} {c : List Dir} (h : At ds i (d :: c)) : At ds (i + 1) c := by
  obtain ⟨pre, post, rfl, rfl⟩ := h
  exact ⟨pre ++ [d], post, by simp, by simp⟩

theorem At.left {ds : List Dir} {i : Nat} {c1 c2 : List Dir} (h : At ds i (c1 ++ c2)) : At ds i c1 := by
  obtain ⟨pre, post, rfl, rfl⟩ := h
  exact ⟨pre, c2 ++ post, by simp, rfl⟩

theorem At.right {ds : List Dir} {i : Nat} {c1 c2 : List Dir} (h : At ds i (c1 ++ c2)) :
    At ds (i + c1.length) c2 := by
  obtain ⟨pre, post, rfl, rfl⟩ := h
  exact ⟨pre ++ c1, post, by simp, by simp⟩


theorem At.nil (ds : List Dir) (i : Nat) (h : i ≤ ds.length) : At ds i [] :=
  ⟨ds.take i, ds.drop i, by simp, by simp [h]⟩

theorem At.le {ds : List Dir} {i : Nat} {c : List Dir} (h : At ds i c) : i + c.length ≤ ds.length := by
  obtain ⟨pre, post, rfl, rfl⟩ := h
  simp

theorem At.get {ds : List Dir} {i : Nat} {c : List Dir} (h : At ds i c) (k : Nat) (d : Dir) (hk : c[k]? = some d) :
    ds[i + k]? = some d := by
  obtain ⟨pre, post, rfl, rfl⟩ := h
  rw [List.append_assoc, List.getElem?_append_right (by omega)]
  simp only [Nat.add_sub_cancel_left]
  rw [List.getElem?_append_left]
  · exact hk
  · exact (List.getElem?_eq_some_iff.mp hk).1

/-! ### Labels -/

def labelNames : List Dir → List String
  | [] => []
  | .label _ n :: rest => n :: labelNames rest
  | _ :: rest => labelNames rest

theorem labelIdxFrom_none : ∀ (ds : List Dir) (k : Nat) (name : String), name ∉ labelNames ds →
    labelIdxFrom ds k name = none := by
  intro ds
  induction ds with
  | nil => intros; rfl
  | cons d rest ih =>
    intro k name h
    unfold labelIdxFrom
    cases d with
    | label kind n =>
      simp only [labelNames, List.mem_cons, not_or] at h
      rw [ih (k + 1) name h.2]
      simp only
      rw [if_neg (fun e => h.1 e.symm)]
    | data v => simp only [labelNames] at h; rw [ih (k + 1) name h]
    | imm o v => simp only [labelNames] at h; rw [ih (k + 1) name h]
    | ref o n r => simp only [labelNames] at h; rw [ih (k + 1) name h]
    | opr o => simp only [labelNames] at h; rw [ih (k + 1) name h]

theorem labelIdxFrom_nodup : ∀ (ds : List Dir) (k j : Nat) (kind : LabelKind) (name : String),
    (labelNames ds).Nodup → ds[j]? = some (.label kind name) → labelIdxFrom ds k name = some (k + j) := by
  intro ds
  induction ds with
  | nil => intro k j kind name _ h; simp at h
  | cons d rest ih =>
    intro k j kind name hn hd
    unfold labelIdxFrom
    cases j with
    | zero =>
      simp only [List.getElem?_cons_zero, Option.some.injEq] at hd
      subst hd
      simp only [labelNames, List.nodup_cons] at hn
      rw [labelIdxFrom_none rest (k + 1) name hn.1]
      simp
    | succ j' =>
      simp only [List.getElem?_cons_succ] at hd
      have hn' : (labelNames rest).Nodup := by
        cases d <;> simp only [labelNames, List.nodup_cons] at hn <;> first | exact hn.2 | exact hn
      rw [ih (k + 1) j' kind name hn' hd]
      simp only
      congr 1; omega

/-- Under unique label names a label resolves to the index of its directive. -/
theorem labelIdx_of_nodup (ds : List Dir) (j : Nat) (kind : LabelKind) (name : String)
    (hn : (labelNames ds).Nodup) (hd : ds[j]? = some (.label kind name)) : labelIdx ds name = some j := by
  unfold labelIdx
  rw [labelIdxFrom_nodup ds 0 j kind name hn hd]
  simp

/-! ### Lowering of fragments -/

theorem lowerCode_append (out : CGOut) (c1 c2 : Code) :
    lowerCode out (c1 ++ c2) = lowerCode out c1 ++ lowerCode out c2 := by
  induction c1 with
  | nil => rfl
  | cons d rest ih => simp [lowerCode, ih]

theorem lowerCode_cons (out : CGOut) (d : IDir) (c : Code) :
    lowerCode out (d :: c) = lowerOne out d ++ lowerCode out c := rfl

theorem lowerCode_nil (out : CGOut) : lowerCode out [] = [] := rfl

@[simp] theorem lowerOne_dir (out : CGOut) (d : Dir) : lowerOne out (.dir d) = [d] := rfl

@[simp] theorem lowerOne_fb (out : CGOut) (k : FbKind) (fr : Nat) (off : Int) :
    lowerOne out (.fb k fr off) = [.imm (fbOpc k) (((frameOf out fr).size : Int) - 1 + off)] := rfl

/-! ### Word arithmetic -/

theorem W_toInt (v : Word) : IAm.W v.toInt = v := by
  unfold IAm.W
  exact BitVec.ofInt_toInt

theorem W_ofNat (n : Nat) : IAm.W (n : Int) = BitVec.ofNat 32 n := by
  unfold IAm.W
  simp [BitVec.ofInt_natCast]

/-- Address of the frame slot with frame-base offset `off` (≤ 0: own slot; > 0: caller's). -/
theorem slot_addr (sp S : Nat) (off : Int) (a : Nat) (h : (a : Int) = (sp : Int) + (S : Int) - 1 + off) :
    BitVec.ofNat 32 sp + IAm.W ((S : Int) - 1 + off) = BitVec.ofNat 32 a := by
  unfold IAm.W
  rw [show BitVec.ofNat 32 sp = BitVec.ofInt 32 (sp : Int) from (BitVec.ofInt_natCast 32 sp).symm]
  rw [← BitVec.ofInt_add]
  rw [show (sp : Int) + ((S : Int) - 1 + off) = (a : Int) by omega]
  exact BitVec.ofInt_natCast 32 a

end Hex.C01s
