import HexVerif.Lemmas.XcmpMainV1
/-!
  Stage (4), machine side of a user call: the entry sequence (`PROLOGUE`) and the two exit
  sequences (`EPILOGUE` of a function / of a procedure) of `LowerDirectives`, in any environment.
-/
namespace Hex.C01s
open Hex Hex.X Hex.Xcmp Hex.IAm Hex.Asm

def proDirs (k : LabelKind) (name : String) (S : Nat) : List Dir :=
  [.label k name, .imm 0x1 1, .imm 0x8 0] ++ spAdjust (decide (S > 0)) (-(S : Int))

def epiFuncDirs (xl : String) (S : Nat) : List Dir :=
  [.label .plain xl, .imm 0x1 1, .imm 0x8 ((S : Int) + 1)] ++ spAdjust (decide (S > 0)) (S : Int) ++ [.imm 0x7 (S : Int), .opr 0]

def epiProcDirs (xl : String) (S : Nat) : List Dir :=
  [.label .plain xl, .imm 0x1 1] ++ spAdjust (decide (S > 0)) (S : Int) ++ [.imm 0x7 (S : Int), .opr 0]

theorem lowerPrologue_func (name : String) (S : Nat) : lowerPrologue .func name S = proDirs .func name S := by
  unfold lowerPrologue proDirs spAdjust
  by_cases h : S > 0 <;> simp [h, SP_OFFSET]

theorem lowerPrologue_proc' (name : String) (S : Nat) : lowerPrologue .proc name S = proDirs .proc name S := by
  unfold lowerPrologue proDirs spAdjust
  by_cases h : S > 0 <;> simp [h, SP_OFFSET]

theorem lowerEpilogue_func (S : Nat) (xl : String) : lowerEpilogue .func ⟨S, xl⟩ = epiFuncDirs xl S := by
  unfold lowerEpilogue epiFuncDirs spAdjust
  by_cases h : S > 0 <;> simp [h, SP_OFFSET]

theorem lowerEpilogue_proc' (S : Nat) (xl : String) : lowerEpilogue .proc ⟨S, xl⟩ = epiProcDirs xl S := by
  unfold lowerEpilogue epiProcDirs spAdjust
  by_cases h : S > 0 <;> simp [h, SP_OFFSET]

/-- **Entry**: the link address in areg is stored at the caller's `sp[0]`, the stack pointer is
    lowered by the frame size. -/
theorem exec_prologue (env : Env) (k : LabelKind) (name : String) (S : Nat) (i : Nat)
    (hat : At env.ds i (proDirs k name S)) (lnk b : Word) (mem : Mem) (sp : Nat) (io : Isa.IOSt)
    (hm1 : mem.read 1 = BitVec.ofNat 32 sp) (hlt : sp < memWords) (hc : env.isCode sp = false) (h2 : 2 ≤ sp)
    (hc1 : env.isCode 1 = false) (hS : S ≤ sp) :
    ∃ a' mem', Steps env (cfg i lnk b mem) io (cfg (i + (proDirs k name S).length) a' (BitVec.ofNat 32 sp) mem') io ∧
      mem'.read 1 = BitVec.ofNat 32 (sp - S) ∧ mem'.read sp = lnk ∧
      ∀ w, w ≠ 1 → w ≠ sp → mem'.read w = mem.read w := by
  unfold proDirs at hat ⊢
  have p0 := hat.left.get 0 _ rfl
  have p1 := hat.left.get 1 _ rfl
  have p2 := hat.left.get 2 _ rfl
  simp only [Nat.add_zero] at p0
  have s4 := Step.label (env := env) (cfg i lnk b mem) io _ _ p0
  have s5 := Step.ldbm (env := env) (cfg (i + 1) lnk b mem) io 1 _ p1 (ld_one mem)
  have hadr : mem.read 1 + IAm.W 0 = BitVec.ofNat 32 sp := by
    rw [hm1]; have := ofNat_add_W sp 0; simpa using this
  have hst : IAm.store env mem (mem.read 1 + IAm.W 0) lnk = some (mem.write sp lnk) := by
    rw [hadr]; exact store_ofNat _ _ _ _ hlt hc
  have hne1 : (mem.read 1 + IAm.W 0).toNat ≠ 1 := by rw [hadr]; exact ofNat_toNat_ne_one _ h2 hlt
  have s6 := Step.stai (env := env) (cfg (i + 2) lnk (mem.read 1) mem) io 0 _ p2 hst hne1
  have hm1' : (mem.write sp lnk).read 1 = BitVec.ofNat 32 sp := by
    rw [Mem.read_write_other _ _ _ _ (by omega)]; exact hm1
  obtain ⟨a', mem', st7, r1, rest⟩ := exec_spAdjust env (decide (S > 0)) (-(S : Int)) sp (sp - S) (i + 3)
    lnk _ io (by simpa using hat.right) (by omega) (by intro h; simp at h; omega) hm1' hc1
  refine ⟨a', mem', ?_, r1, ?_, ?_⟩
  · rw [hm1] at s6 s5
    have hidx : i + 3 + (spAdjust (decide (S > 0)) (-(S : Int))).length
        = i + ([Dir.label k name, .imm 0x1 1, .imm 0x8 0] ++ spAdjust (decide (S > 0)) (-(S : Int))).length := by
      simp; omega
    rw [hidx] at st7
    simp only at s4 s5 s6
    exact Steps.step _ _ _ _ _ _ s4 (Steps.step _ _ _ _ _ _ s5 (Steps.step _ _ _ _ _ _ s6 st7))
  · rw [rest sp (by omega), Mem.read_write_same _ _ _ hlt]
  · intro w hw1 hw2
    rw [rest w hw1, Mem.read_write_other _ _ _ _ (Ne.symm hw2)]

/-- **Exit of a procedure**: the stack pointer is restored and control returns to the link label. -/
theorem exec_epilogue_proc (env : Env) (xl : String) (S : Nat) (i : Nat) (hat : At env.ds i (epiProcDirs xl S))
    (a b : Word) (mem : Mem) (sp' : Nat) (io : Isa.IOSt)
    (hm1 : mem.read 1 = BitVec.ofNat 32 sp') (h2 : 2 ≤ sp') (hlt : sp' + S < memWords) (hc1 : env.isCode 1 = false)
    (k : Nat) (kind : LabelKind) (n : String) (hk : env.ds[k]? = some (.label kind n))
    (hlink : env.addr k = (mem.read (sp' + S)).toNat) :
    ∃ a' b' mem', Steps env (cfg i a b mem) io (cfg k a' b' mem') io ∧
      mem'.read 1 = BitVec.ofNat 32 (sp' + S) ∧ ∀ w, w ≠ 1 → mem'.read w = mem.read w := by
  unfold epiProcDirs at hat
  have e0 := hat.left.left.get 0 _ rfl
  have e1 := hat.left.left.get 1 _ rfl
  have eL := hat.right.get 0 _ rfl
  have eB := hat.right.get 1 _ rfl
  simp only [Nat.add_zero, List.length_append, List.length_cons, List.length_nil] at e0 e1 eL eB
  have s0 := Step.label (env := env) (cfg i a b mem) io _ _ e0
  have s1 := Step.ldbm (env := env) (cfg (i + 1) a b mem) io 1 _ e1 (ld_one mem)
  rw [hm1] at s1
  obtain ⟨a', mem', st2, r1, rest⟩ := exec_spAdjust env (decide (S > 0)) (S : Int) sp' (sp' + S) (i + 2)
    a mem io (by simpa using hat.left.right) (by omega) (by intro h; simp at h; omega) hm1 hc1
  have hld : Isa.ld mem' (BitVec.ofNat 32 sp' + IAm.W (S : Int)) = some (mem.read (sp' + S)) := by
    rw [ofNat_add_W, ld_ofNat _ _ hlt, rest (sp' + S) (by omega)]
  have s3 := Step.ldbi (env := env)
    (cfg (i + 2 + (spAdjust (decide (S > 0)) (S : Int)).length) a' (BitVec.ofNat 32 sp') mem') io _ _
    (by simpa [Nat.add_assoc] using eL) hld
  have s4 := Step.brb (env := env)
    (cfg (i + 2 + (spAdjust (decide (S > 0)) (S : Int)).length + 1) a' (mem.read (sp' + S)) mem') io k _ _
    (by simpa [Nat.add_assoc] using eB) hk hlink
  exact ⟨a', _, mem', Steps.step _ _ _ _ _ _ s0 (Steps.step _ _ _ _ _ _ s1 (st2.trans (Steps.step _ _ _ _ _ _ s3 (Steps.one s4)))),
    r1, rest⟩

/-- **Exit of a function**: the value in areg is stored at the caller's `sp[1]`, the stack pointer
    is restored and control returns to the link label. -/
theorem exec_epilogue_func (env : Env) (xl : String) (S : Nat) (i : Nat) (hat : At env.ds i (epiFuncDirs xl S))
    (w b : Word) (mem : Mem) (sp' : Nat) (io : Isa.IOSt)
    (hm1 : mem.read 1 = BitVec.ofNat 32 sp') (h2 : 2 ≤ sp') (hlt : sp' + S + 1 < memWords)
    (hc : env.isCode (sp' + S + 1) = false) (hc1 : env.isCode 1 = false)
    (k : Nat) (kind : LabelKind) (n : String) (hk : env.ds[k]? = some (.label kind n))
    (hlink : env.addr k = (mem.read (sp' + S)).toNat) :
    ∃ a' b' mem', Steps env (cfg i w b mem) io (cfg k a' b' mem') io ∧
      mem'.read 1 = BitVec.ofNat 32 (sp' + S) ∧ mem'.read (sp' + S + 1) = w ∧
      ∀ x, x ≠ 1 → x ≠ sp' + S + 1 → mem'.read x = mem.read x := by
  unfold epiFuncDirs at hat
  have e0 := hat.left.left.get 0 _ rfl
  have e1 := hat.left.left.get 1 _ rfl
  have e2 := hat.left.left.get 2 _ rfl
  have eL := hat.right.get 0 _ rfl
  have eB := hat.right.get 1 _ rfl
  simp only [Nat.add_zero, List.length_append, List.length_cons, List.length_nil] at e0 e1 e2 eL eB
  have s0 := Step.label (env := env) (cfg i w b mem) io _ _ e0
  have s1 := Step.ldbm (env := env) (cfg (i + 1) w b mem) io 1 _ e1 (ld_one mem)
  rw [hm1] at s1
  have hadr : BitVec.ofNat 32 sp' + IAm.W ((S : Int) + 1) = BitVec.ofNat 32 (sp' + S + 1) := by
    have := ofNat_add_W sp' (S + 1)
    rw [show ((S + 1 : Nat) : Int) = (S : Int) + 1 by omega] at this
    rw [this, Nat.add_assoc]
  have hst : IAm.store env mem (BitVec.ofNat 32 sp' + IAm.W ((S : Int) + 1)) w = some (mem.write (sp' + S + 1) w) := by
    rw [hadr]; exact store_ofNat _ _ _ _ hlt hc
  have hne1 : (BitVec.ofNat 32 sp' + IAm.W ((S : Int) + 1)).toNat ≠ 1 := by
    rw [hadr]; exact ofNat_toNat_ne_one _ (by omega) hlt
  have s2 := Step.stai (env := env) (cfg (i + 2) w (BitVec.ofNat 32 sp') mem) io _ _ e2 hst hne1
  have hm1' : (mem.write (sp' + S + 1) w).read 1 = BitVec.ofNat 32 sp' := by
    rw [Mem.read_write_other _ _ _ _ (by omega)]; exact hm1
  obtain ⟨a', mem', st2, r1, rest⟩ := exec_spAdjust env (decide (S > 0)) (S : Int) sp' (sp' + S) (i + 3)
    w (mem.write (sp' + S + 1) w) io (by simpa using hat.left.right) (by omega) (by intro h; simp at h; omega) hm1' hc1
  have hld : Isa.ld mem' (BitVec.ofNat 32 sp' + IAm.W (S : Int)) = some (mem.read (sp' + S)) := by
    rw [ofNat_add_W, ld_ofNat _ _ (by omega), rest (sp' + S) (by omega), Mem.read_write_other _ _ _ _ (by omega)]
  have s3 := Step.ldbi (env := env)
    (cfg (i + 3 + (spAdjust (decide (S > 0)) (S : Int)).length) a' (BitVec.ofNat 32 sp') mem') io _ _
    (by simpa [Nat.add_assoc] using eL) hld
  have s4 := Step.brb (env := env)
    (cfg (i + 3 + (spAdjust (decide (S > 0)) (S : Int)).length + 1) a' (mem.read (sp' + S)) mem') io k _ _
    (by simpa [Nat.add_assoc] using eB) hk hlink
  refine ⟨a', _, mem', Steps.step _ _ _ _ _ _ s0 (Steps.step _ _ _ _ _ _ s1 (Steps.step _ _ _ _ _ _ s2
    (st2.trans (Steps.step _ _ _ _ _ _ s3 (Steps.one s4))))), r1, ?_, ?_⟩
  · rw [rest _ (by omega), Mem.read_write_same _ _ _ hlt]
  · intro x hx1 hx2
    rw [rest x hx1, Mem.read_write_other _ _ _ _ (Ne.symm hx2)]

end Hex.C01s
