import HexVerif.Lemmas.XcmpStage4Caller
/-!
  Stage (4): statements with user calls; the induction on the fuel of the reference semantics
  over all procedures (`all_correct`).
-/
namespace Hex.C01s
open Hex Hex.X Hex.Xcmp Hex.IAm Hex.Asm

/-- A name of the program's procedures resolves to its procedure from any activation. -/
theorem resolve_user {G : GCtx} (ok : G.OK) {pi : PInfo} {sp dep : Nat} {hi : Nat → Word} {σ : X.St} {mem : Mem}
    (rep : Rep (KOf G pi sp dep hi) σ mem) (g : String) (hg : g ∈ G.pnames) :
    ∃ pj ∈ G.procs, X.resolveCallee G.xc σ g = .user pj.p ∧ pj.p.name = g := by
  have hl : σ.locals.lookup g = none := rep.gvis g (List.mem_append_right _ hg)
  obtain ⟨p, hp⟩ := ok.pnames_mem g hg
  obtain ⟨pj, hpj, hpp, hn⟩ := ok.resolve g p hp
  refine ⟨pj, hpj, ?_, by rw [hpp]; exact hn⟩
  unfold X.resolveCallee
  rw [hl, hp, hpp]

/-- The name of a procedure is not the name of a constant: a call of it is a user call. -/
theorem GCtx.OK.sysOf_pname {G : GCtx} (ok : G.OK) (g : String) (hg : g ∈ G.pnames) : sysOf G.rho g = -1 := by
  unfold sysOf
  cases h : G.rho g with
  | none => rfl
  | some w =>
    obtain ⟨p, hp⟩ := ok.pnames_mem g hg
    have := (ok.rho_ok g w).mpr h
    rw [hp] at this
    simp at this

theorem optExpr_call (sys : Int) (f : String) (args : List AExpr) :
    optExpr (.call sys f args) = .call sys f (optArgs args) := by
  conv => lhs; unfold optExpr

theorem annot_call (ρ : String → Option Word) (g : String) (args : List X.Expr) :
    optExpr (annotate ρ (.call g args)) = .call (sysOf ρ g) g (optArgsOf ρ args) := by
  simp only [annotate, optExpr_call, annotateL_map, optArgs_map]

theorem eval_call_user (f : Nat) (xc : X.Ctx) (g : String) (args : List X.Expr) (σ st : X.St) (p : X.Proc)
    (ht : X.tick xc σ = some st) (hres : X.resolveCallee xc st g = .user p) (hf : p.isFunc = true) :
    X.eval (f + 1) xc (.call g args) σ =
      if !X.orderOk xc st args then .undef "evaluation order of actuals matters (impure call)"
      else (X.evalArgs f xc args st).bind fun vs s =>
        (X.callUser f xc p vs s).bind fun r s' =>
          match r with
          | some w => .ok (.int w) s'
          | none => .undef "function produced no value" := by
  unfold X.eval
  rw [ht]
  simp only [hres, hf]
  rfl

theorem eval_call_proc (f : Nat) (xc : X.Ctx) (g : String) (args : List X.Expr) (σ st : X.St) (p : X.Proc)
    (ht : X.tick xc σ = some st) (hres : X.resolveCallee xc st g = .user p) (hf : p.isFunc = false) :
    ∃ w, X.eval (f + 1) xc (.call g args) σ = .undef w := by
  unfold X.eval
  rw [ht]
  simp only [hres, hf]
  by_cases ho : X.orderOk xc st args = true
  · exact ⟨toString "value of procedure " ++ toString g ++ toString " used as an operand", by simp [ho]⟩
  · exact ⟨"evaluation order of actuals matters (impure call)", by simp [ho]⟩

/-- **A function call as a whole expression**, with the frame condition (for its use as an operand). -/
theorem exec_callExprF {G : GCtx} (ok : G.OK) (fuel : Nat) (hcs : ∀ k, k < fuel → CallSpec G k)
    {pi : PInfo} (hpi : pi ∈ G.procs) (sp dep : Nat) (hi : Nat → Word) (hlo : G.lo ≤ sp) (hspv : sp + G.S pi + pi.po + pi.p.formals.length ≤ G.spv + 1)
    (hstack : G.spv ≤ sp + dep * G.smax) (g : String) (args : List X.Expr) (hg : g ∈ G.pnames)
    (hA : ∀ f, f < fuel → ArgsOK G pi sp dep hi f args) (σ : X.St)
    (gs : GS) (code : Code) (gs' : GS) (i : Nat) (a b : Word) (mem : Mem)
    (hgen : genExpr (G.ctxOf pi) (optExpr (annotate G.rho (.call g args))) .A gs = .ok (code, gs'))
    (hat : At G.env.ds i (lowerCode G.cg code)) (hr : Rep (KOf G pi sp dep hi) σ mem)
    (hsz : gs'.size ≤ G.S pi) (hnl : pi.p.locals.length ≤ gs.offset) (hci : ConstsIn (KOf G pi sp dep hi) gs') :
    match X.eval fuel G.xc (.call g args) σ with
    | .ok (.int w) σ' => ∃ b' mem', Steps G.env (cfg i a b mem) σ.io (cfg (i + (lowerCode G.cg code).length) w b' mem') σ'.io ∧
        Rep (KOf G pi sp dep hi) σ' mem' ∧ FrmC (KOf G pi sp dep hi) gs.offset (G.S pi) mem mem'
    | .ok (.arr _) _ => True
    | .exit cd σ' => ∃ c, Steps G.env (cfg i a b mem) σ.io c σ'.io ∧ Exit G.env c σ'.io cd
    | .undef _ => True := by
  cases fuel with
  | zero => unfold X.eval; trivial
  | succ f =>
    cases ht : X.tick G.xc σ with
    | none => unfold X.eval; rw [ht]; trivial
    | some st =>
      have hs := tick_same _ _ _ ht
      have hrs : Rep (KOf G pi sp dep hi) st mem := hr.same hs
      obtain ⟨pj, hpj, hres, hname⟩ := resolve_user ok hrs g hg
      cases hf : pj.p.isFunc with
      | false =>
        obtain ⟨w, hw⟩ := eval_call_proc f G.xc g args σ st pj.p ht hres hf
        rw [hw]; trivial
      | true =>
        rw [eval_call_user f G.xc g args σ st pj.p ht hres hf]
        by_cases ho : (!X.orderOk G.xc st args) = true
        · rw [if_pos ho]; trivial
        · rw [if_neg ho]
          rw [annot_call] at hgen
          obtain ⟨kind, hk, hseq⟩ := genExpr_call_inv _ _ _ _ _ _ _ _ hgen
          obtain ⟨_, hk'⟩ := exprCallKind_inv _ _ _ _ _ _ hk
          rcases hk' with ⟨hne, _⟩ | ⟨_, sym, hsym, hkind⟩
          · exact absurd (ok.sysOf_pname g hg) hne
          obtain ⟨sym', hsym', hty⟩ := ok.callee_sym pi hpi pj hpj
          rw [hname] at hsym'
          have : sym = sym' := by
            have h1 : (G.ctxOf pi).tbl.lookup (G.ctxOf pi).scope g = .ok sym := hsym
            have h2 : (G.ctxOf pi).tbl.lookup (G.ctxOf pi).scope g = .ok sym' := hsym'
            rw [h1] at h2
            exact Except.ok.inj h2
          subst this
          have hkk : kind = pj.callKind := by
            rw [hkind, if_pos (hty.mpr hf)]
            unfold PInfo.callKind
            rw [hf, hname]
            rfl
          rw [hkk] at hseq
          have hcall := (hA f (Nat.lt_succ_self _)).call (fun k hk => hcs k (Nat.lt_succ_of_le hk)) pj hpj st
            gs code gs' i a b mem hseq hat hrs hsz hnl hci
          cases hev : X.evalArgs f G.xc args st with
          | undef w => simp only [Res.bind]
          | exit c s =>
            rw [hev] at hcall
            simp only [Res.bind]
            obtain ⟨c', hst, hex⟩ := hcall
            rw [hs.2.2.2.1] at hst
            exact ⟨c', hst, hex⟩
          | ok vs s =>
            rw [hev] at hcall
            simp only [Res.bind] at hcall ⊢
            cases hcu : X.callUser f G.xc pj.p vs s with
            | undef w => trivial
            | exit cd s' =>
              simp only
              rw [hcu] at hcall
              obtain ⟨c, hst, hex⟩ := hcall
              rw [hs.2.2.2.1] at hst
              exact ⟨c, hst, hex⟩
            | ok r s' =>
              simp only
              cases r with
              | none => trivial
              | some w =>
                simp only
                rw [hcu] at hcall
                obtain ⟨a', b', mem', hst, rep', hres', frm'⟩ := hcall
                have := hres' hf w rfl
                subst this
                rw [hs.2.2.2.1] at hst
                exact ⟨b', mem', hst, rep', frm'⟩

/-- **A function call as a whole expression.** -/
theorem exec_callExpr {G : GCtx} (ok : G.OK) (fuel : Nat) (hcs : ∀ k, k < fuel → CallSpec G k)
    {pi : PInfo} (hpi : pi ∈ G.procs) (sp dep : Nat) (hi : Nat → Word) (hlo : G.lo ≤ sp) (hspv : sp + G.S pi + pi.po + pi.p.formals.length ≤ G.spv + 1)
    (hstack : G.spv ≤ sp + dep * G.smax) (g : String) (args : List X.Expr) (hg : g ∈ G.pnames)
    (hA : ∀ f, f < fuel → ArgsOK G pi sp dep hi f args) (σ : X.St)
    (gs : GS) (code : Code) (gs' : GS) (i : Nat) (a b : Word) (mem : Mem)
    (hgen : genExpr (G.ctxOf pi) (optExpr (annotate G.rho (.call g args))) .A gs = .ok (code, gs'))
    (hat : At G.env.ds i (lowerCode G.cg code)) (hr : Rep (KOf G pi sp dep hi) σ mem)
    (hsz : gs'.size ≤ G.S pi) (hnl : pi.p.locals.length ≤ gs.offset) (hci : ConstsIn (KOf G pi sp dep hi) gs') :
    match X.eval fuel G.xc (.call g args) σ with
    | .ok (.int w) σ' => ∃ b' mem', Steps G.env (cfg i a b mem) σ.io (cfg (i + (lowerCode G.cg code).length) w b' mem') σ'.io ∧
        Rep (KOf G pi sp dep hi) σ' mem'
    | .ok (.arr _) _ => True
    | .exit cd σ' => ∃ c, Steps G.env (cfg i a b mem) σ.io c σ'.io ∧ Exit G.env c σ'.io cd
    | .undef _ => True := by
  have h := exec_callExprF ok fuel hcs hpi sp dep hi hlo hspv hstack g args hg hA σ gs code gs' i a b mem hgen hat hr hsz hnl hci
  cases hev : X.eval fuel G.xc (.call g args) σ with
  | undef w => trivial
  | exit cd s => rw [hev] at h; exact h
  | ok v s =>
    rw [hev] at h
    cases v with
    | arr r => trivial
    | int w => obtain ⟨b', mem', h1, h2, _⟩ := h; exact ⟨b', mem', h1, h2⟩

/-! ### Statements over an effectful right-hand side -/

/-- What the machine does for an expression whose evaluation has the result `r`. -/
def OutE (K : PCtx) (c0 : Cfg) (io0 : Isa.IOSt) (r : Res Val) (jEnd : Nat) : Prop :=
  match r with
  | .ok (.int w) σ' => ∃ b' mem', Steps K.env c0 io0 (cfg jEnd w b' mem') σ'.io ∧ Rep K σ' mem'
  | .ok (.arr _) _ => True
  | .exit cd σ' => ∃ c, Steps K.env c0 io0 c σ'.io ∧ Exit K.env c σ'.io cd
  | .undef _ => True

/-- The triple of expression code (value into areg), for any outcome of the evaluation. -/
def ExecE (K : PCtx) (e' : AExpr) (st : X.St) (r : Res Val) : Prop :=
  ∀ (gs : GS) (code : Code) (gs' : GS) (i : Nat) (a b : Word) (mem : Mem),
    genExpr K.ctx e' .A gs = .ok (code, gs') → At K.env.ds i (K.low code) → Rep K st mem →
    gs'.size ≤ K.S → K.nlocals ≤ gs.offset → ConstsIn K gs' →
    OutE K (cfg i a b mem) st.io r (i + (K.low code).length)

/-! ### Calls of pure functions in operands -/

/-- The call of a pure function, as an operand: the state it leaves differs from the one before
    in the step counter and the call log only. -/
theorem callLeaf_of_spec {G : GCtx} (ok : G.OK) (pk : PureOk G.xc) {pi : PInfo} (hpi : pi ∈ G.procs) (sp dep : Nat)
    (hi : Nat → Word) (hlo : G.lo ≤ sp) (hspv : sp + G.S pi + pi.po + pi.p.formals.length ≤ G.spv + 1)
    (hstack : G.spv ≤ sp + dep * G.smax) (F : Nat) (hcs : ∀ k, k < F → CallSpec G k) :
    CallLeaf (KOf G pi sp dep hi) G.pnames F := by
  intro g args σ v σ' hg himp hargs hnl hev
  have hgm : g ∈ G.pnames := by simpa using hg
  change X.eval F G.xc (.call g args) σ = _ at hev
  cases F with
  | zero => unfold X.eval at hev; simp at hev
  | succ f =>
    cases ht : X.tick G.xc σ with
    | none => unfold X.eval at hev; rw [ht] at hev; simp at hev
    | some st =>
      have hs := tick_same _ _ _ ht
      have hl : st.locals.lookup g = none := by rw [hs.2.1]; exact hnl g hg
      obtain ⟨p, hp⟩ := ok.pnames_mem g hgm
      obtain ⟨pj, hpj, hpp, hname0⟩ := ok.resolve g p hp
      have hname : pj.p.name = g := by rw [hpp]; exact hname0
      have hres : X.resolveCallee G.xc st g = .user pj.p := by
        unfold X.resolveCallee
        rw [hl, hp, hpp]
      cases hf : pj.p.isFunc with
      | false =>
        obtain ⟨w, hw⟩ := eval_call_proc f G.xc g args σ st pj.p ht hres hf
        rw [hw] at hev; cases hev
      | true =>
        rw [eval_call_user f G.xc g args σ st pj.p ht hres hf] at hev
        by_cases ho : (!X.orderOk G.xc st args) = true
        · rw [if_pos ho] at hev; cases hev
        rw [if_neg ho] at hev
        cases hea : X.evalArgs f G.xc args st with
        | undef w => rw [hea] at hev; simp [Res.bind] at hev
        | exit c s => rw [hea] at hev; simp [Res.bind] at hev
        | ok vs s =>
          rw [hea] at hev
          simp only [Res.bind] at hev
          cases hcu : X.callUser f G.xc pj.p vs s with
          | undef w => rw [hcu] at hev; simp at hev
          | exit cd s' => rw [hcu] at hev; simp at hev
          | ok r s' =>
            rw [hcu] at hev
            simp only at hev
            cases r with
            | none => simp at hev
            | some w =>
              simp only [Res.ok.injEq, Val.int.injEq] at hev
              obtain ⟨hw, hs'⟩ := hev
              subst hw; subst hs'
              have hsA := evalArgs_pure G.xc args f st s _ hargs hea
              have hlk : G.xc.genv.lookup g = some (.proc pj.p) := by rw [hp, hpp]
              have hsC : Sim s s' := ((pure_all G.xc pk f).2.2.1 (keys s.locals) g pj.p _ hlk himp s rfl).1 _ _ hcu
              have hsim : Sim s' σ := hsC.symm.trans ((Sim.ofSame hsA).symm.trans (Sim.ofSame hs).symm)
              intro gs code gs' i a b mem hgen hat hr hsz hnl' hci
              rw [annot_call] at hgen
              obtain ⟨kind, hk, hseq⟩ := genExpr_call_inv _ _ _ _ _ _ _ _ hgen
              obtain ⟨_, hk'⟩ := exprCallKind_inv _ _ _ _ _ _ hk
              rcases hk' with ⟨hne, _⟩ | ⟨_, sym, hsym, hkind⟩
              · exact absurd (ok.sysOf_pname g hgm) hne
              obtain ⟨sym', hsym', hty⟩ := ok.callee_sym pi hpi pj hpj
              rw [hname] at hsym'
              have : sym = sym' := by
                have h1 : (G.ctxOf pi).tbl.lookup (G.ctxOf pi).scope g = .ok sym := hsym
                have h2 : (G.ctxOf pi).tbl.lookup (G.ctxOf pi).scope g = .ok sym' := hsym'
                rw [h1] at h2
                exact Except.ok.inj h2
              subst this
              have hkk : kind = pj.callKind := by
                rw [hkind, if_pos (hty.mpr hf)]
                unfold PInfo.callKind
                rw [hf, hname]
                rfl
              rw [hkk] at hseq
              have hrs : Rep (KOf G pi sp dep hi) st mem := hr.same hs
              have := exec_usercall ok f (hcs f (Nat.lt_succ_self _)) hpi hpj sp dep hi hlo hspv hstack args f st s vs hargs hea
                gs code gs' i a b mem hseq hat hrs hsz hnl' hci
              rw [hcu] at this
              obtain ⟨a', b', mem', hst, rep', hres', frm⟩ := this
              have := hres' hf w rfl
              subst this
              refine ⟨b', mem', ?_, rep'.sim hsim, frm⟩
              rw [hs.2.2.2.1, hsim.2.2.2.1] at hst
              exact hst

section
variable {G : GCtx} (ok : G.OK) (pk : PureOk G.xc) {pi : PInfo} (hpi : pi ∈ G.procs) (sp dep : Nat)
    (hi : Nat → Word) (hlo : G.lo ≤ sp) (hspv : sp + G.S pi + pi.po + pi.p.formals.length ≤ G.spv + 1)
    (hstack : G.spv ≤ sp + dep * G.smax) (F : Nat) (hcs : ∀ k, k < F → CallSpec G k)
include ok pk hpi hlo hspv hstack hcs

/-- A condition with calls of pure functions. -/
theorem condOK_pp (c : X.Expr) (hpp : ppE G.pnames G.xc.impure c = true) : CondOK (KOf G pi sp dep hi) F c := by
  have wf := ok.wfs pi hpi sp dep hi hlo hspv
  have hps : ∀ g, G.pnames.contains g = true → ∃ p, G.xc.genv.lookup g = some (.proc p) :=
    fun g hg => ok.pnames_mem g (by simpa using hg)
  have hleaf : ∀ k, k ≤ F → CallLeaf (KOf G pi sp dep hi) G.pnames k :=
    fun k hk => callLeaf_of_spec ok pk hpi sp dep hi hlo hspv hstack k (fun j hj => hcs j (by omega))
  refine ⟨?_, ?_, ?_, ?_⟩
  · intro st mem w s hr hev
    exact (expr_pp_correct (KOf G pi sp dep hi) wf.toWF G.pnames pk hps F hleaf c st w s hpp (noLoc_of_rep hr) hev :
      ExecAt false _ _ w st).sim_right (eval_pp_sim G.xc G.pnames hps pk F c st _ s hpp (noLoc_of_rep hr) hev)
  · intro st mem cd s hr hev
    exact absurd hev (eval_pp_noexit G.xc G.pnames hps pk F c st cd s hpp (noLoc_of_rep hr))
  · intro _ st mem v s hr hev
    have hsim := eval_pp_sim G.xc G.pnames hps pk F c st v s hpp (noLoc_of_rep hr) hev
    exact ⟨hsim.2.2.2.1.symm, fun m hm => hm.sim hsim⟩
  · intro _ st mem cd s hr
    exact eval_pp_noexit G.xc G.pnames hps pk F c st cd s hpp (noLoc_of_rep hr)

/-- A right-hand side with calls of pure functions. -/
theorem execE_pp (e : X.Expr) (hpp : ppE G.pnames G.xc.impure e = true) (st : X.St) :
    ExecE (KOf G pi sp dep hi) (optExpr (annotate G.rho e)) st (X.eval F G.xc e st) := by
  intro gs code gs' i a b mem hgen hat hr hsz hnl hci
  have hC := condOK_pp ok pk hpi sp dep hi hlo hspv hstack F hcs e hpp
  unfold OutE
  cases hev : X.eval F G.xc e st with
  | undef w => trivial
  | exit cd s =>
    obtain ⟨c', st', he⟩ := hC.exit st mem cd s hr hev gs code gs' i a b mem hgen hat hr hsz hnl hci
    exact ⟨c', st', he⟩
  | ok v s =>
    cases v with
    | arr r => trivial
    | int w =>
      obtain ⟨b', mem', st1, rep1, _⟩ := hC.exec st mem w s hr hev gs code gs' i a b mem hgen hat hr hsz hnl hci
      exact ⟨b', mem', st1, rep1⟩

end

theorem exec_assign_eq (f : Nat) (xc : X.Ctx) (n : String) (e : X.Expr) (σ st : X.St) (ht : X.tick xc σ = some st) :
    X.exec (f + 1) xc (.assign n e) σ =
      (asInt "assigned value" (X.eval f xc e st)).bind fun w s =>
        (liftE ((X.writeName xc s n w).map fun s' => (Flow.normal, s')) s).bind fun p _ => .ok p.1 p.2 := by
  unfold X.exec; rw [ht]

section
variable (K : PCtx) (exitJ : Nat) (wf : K.WFS exitJ)
include wf

theorem execS_assignE (f : Nat) (n : String) (e : X.Expr) (e' : AExpr) (σ : X.St)
    (hE : ∀ st, X.tick K.xc σ = some st → ExecE K e' st (X.eval f K.xc e st)) :
    ExecS K exitJ (.assign n e') σ (X.exec (f + 1) K.xc (.assign n e) σ) := by
  intro gs code gs' i a b mem hg hat hr hsz hnl hci
  cases ht : X.tick K.xc σ with
  | none => unfold X.exec; rw [ht]; trivial
  | some st =>
    have hs := tick_same _ _ _ ht
    rw [exec_assign_eq f K.xc n e σ st ht]
    obtain ⟨c, sym, h1, hl, hcode⟩ := genStmt_assign_inv _ _ _ _ _ _ hg
    subst hcode
    simp only [low_append] at hat ⊢
    have hA := hE st ht gs c gs' i a b mem h1 hat.left (hr.same hs) hsz hnl hci
    rw [hs.2.2.2.1] at hA
    cases hev : X.eval f K.xc e st with
    | undef w => simp only [asInt, Res.bind]; trivial
    | exit cd s =>
      rw [hev] at hA
      simp only [asInt, Res.bind]
      exact hA
    | ok v s =>
      rw [hev] at hA
      cases v with
      | arr r => simp only [asInt, Res.bind]; trivial
      | int w =>
        simp only [asInt, Res.bind]
        obtain ⟨b', mem', st1, rep1⟩ := hA
        cases hw : X.writeName K.xc s n w with
        | error er => simp only [liftE, Except.map]; trivial
        | ok σ' =>
          simp only [liftE, Except.map]
          have hρ : K.ρ n = none := by
            cases hρ : K.ρ n with
            | none => rfl
            | some cv =>
              have hv := rep1.vals n cv hρ
              unfold ValBound at hv
              rcases writeName_cases K.xc s σ' n w hw with ⟨o, hl', _⟩ | ⟨hl', hg', _⟩
              · rcases hv with hv | ⟨hv, _⟩ <;> rw [hl'] at hv <;> simp at hv
              · rcases hv with hv | ⟨_, hv⟩
                · rw [hl'] at hv; simp at hv
                · rw [hg'] at hv; simp at hv
          have hloc : ∃ ad, K.loc n = some ad := by
            suffices h : IsVar K.xc s n by obtain ⟨ad, h1, _⟩ := rep1.locs n h; exact ⟨ad, h1⟩
            unfold IsVar
            rcases writeName_cases K.xc s σ' n w hw with ⟨o, hl', _⟩ | ⟨hl', hg', _⟩
            · exact Or.inl ⟨o, hl'⟩
            · exact Or.inr ⟨hl', hg'⟩
          obtain ⟨ad, hloc⟩ := hloc
          obtain ⟨b2, st2⟩ := exec_assignTail K exitJ wf n sym (i + (K.low c).length) w b' mem' s.io s ad hl hat.right rep1 hloc
          refine ⟨w, b2, mem'.write ad w, ?_, rep1.assign wf hw hloc⟩
          rw [writeName_io K.xc s σ' n w hw]
          simp only [List.length_append, ← Nat.add_assoc]
          exact st1.trans st2

theorem execS_retE (f : Nat) (e : X.Expr) (e' : AExpr) (σ : X.St)
    (hE : ∀ st, X.tick K.xc σ = some st → ExecE K e' st (X.eval f K.xc e st)) :
    ExecS K exitJ (.ret e') σ (X.exec (f + 1) K.xc (.ret e) σ) := by
  intro gs code gs' i a b mem hg hat hr hsz hnl hci
  cases ht : X.tick K.xc σ with
  | none => unfold X.exec; rw [ht]; trivial
  | some st =>
    have hs := tick_same _ _ _ ht
    rw [exec_ret f K.xc e σ st ht]
    obtain ⟨c, h1, hcode⟩ := genStmt_ret_inv _ _ _ _ _ hg
    subst hcode
    simp only [low_append] at hat ⊢
    have hA := hE st ht gs c gs' i a b mem h1 hat.left (hr.same hs) hsz hnl hci
    rw [hs.2.2.2.1] at hA
    cases hev : X.eval f K.xc e st with
    | undef w => simp only [asInt, Res.bind]; trivial
    | exit cd s =>
      rw [hev] at hA
      simp only [asInt, Res.bind]
      exact hA
    | ok v s =>
      rw [hev] at hA
      cases v with
      | arr r => simp only [asInt, Res.bind]; trivial
      | int w =>
        simp only [asInt, Res.bind]
        obtain ⟨b', mem', st1, rep1⟩ := hA
        obtain ⟨k, hk⟩ := wf.exit_lbl
        have hbr : K.low [lBR K.ctx.exitLabel] = [.ref 0x9 K.ctx.exitLabel true] := rfl
        rw [hbr] at hat
        have st2 := step_br K wf.toWF (i + (K.low c).length) exitJ k _ hat.right.head hk w b' mem' s.io
        exact ⟨b', mem', st1.trans st2, rep1⟩

end

/-! ### The call statement -/

theorem exec_call_user (f : Nat) (xc : X.Ctx) (g : String) (args : List X.Expr) (σ st : X.St) (p : X.Proc)
    (ht : X.tick xc σ = some st) (hres : X.resolveCallee xc st g = .user p) (hf : p.isFunc = false) :
    X.exec (f + 1) xc (.call g args) σ =
      if !X.orderOk xc st args then .undef "evaluation order of actuals matters (impure call)"
      else (X.evalArgs f xc args st).bind fun vs s =>
        (X.callUser f xc p vs s).bind fun _ s' => .ok .normal s' := by
  unfold X.exec
  rw [ht]
  simp only [hres, hf]
  rfl

theorem exec_call_func (f : Nat) (xc : X.Ctx) (g : String) (args : List X.Expr) (σ st : X.St) (p : X.Proc)
    (ht : X.tick xc σ = some st) (hres : X.resolveCallee xc st g = .user p) (hf : p.isFunc = true) :
    ∃ w, X.exec (f + 1) xc (.call g args) σ = .undef w := by
  unfold X.exec
  rw [ht]
  simp only [hres, hf]
  by_cases ho : X.orderOk xc st args = true
  · exact ⟨toString "function " ++ toString g ++ toString " used as a statement", by simp [ho]⟩
  · exact ⟨"evaluation order of actuals matters (impure call)", by simp [ho]⟩

theorem execS_callStmt {G : GCtx} (ok : G.OK) (fuel : Nat) (hcs : ∀ k, k < fuel → CallSpec G k)
    {pi : PInfo} (hpi : pi ∈ G.procs) (sp dep : Nat) (hi : Nat → Word) (hlo : G.lo ≤ sp) (hspv : sp + G.S pi + pi.po + pi.p.formals.length ≤ G.spv + 1)
    (hstack : G.spv ≤ sp + dep * G.smax) (g : String) (args : List X.Expr) (hg : g ∈ G.pnames)
    (hA : ∀ f, f < fuel → ArgsOK G pi sp dep hi f args) (σ : X.St) :
    ExecS (KOf G pi sp dep hi) (G.iEpi pi) (optStmt (annotS G.rho (.call g args))) σ
      (X.exec fuel G.xc (.call g args) σ) := by
  intro gs code gs' i a b mem hgen hat hr hsz hnl hci
  have hrg : G.rho g = none := by
    obtain ⟨p, hp⟩ := ok.pnames_mem g hg
    exact ok.rho_none g (fun w => by rw [hp]; simp)
  have hopt : optStmt (annotS G.rho (.call g args)) = .call (-1) g (optArgsOf G.rho args) := by
    simp only [annotS, optStmt, optArgs_map, sysOf, hrg]
  rw [hopt, genStmt_call_eq] at hgen
  rw [if_neg (by decide)] at hgen
  cases fuel with
  | zero => unfold X.exec; trivial
  | succ f =>
    cases ht : X.tick G.xc σ with
    | none => unfold X.exec; rw [ht]; trivial
    | some st =>
      have hs := tick_same _ _ _ ht
      have hrs : Rep (KOf G pi sp dep hi) st mem := hr.same hs
      obtain ⟨pj, hpj, hres, hname⟩ := resolve_user ok hrs g hg
      cases hf : pj.p.isFunc with
      | true =>
        obtain ⟨w, hw⟩ := exec_call_func f G.xc g args σ st pj.p ht hres hf
        rw [hw]; trivial
      | false =>
        rw [exec_call_user f G.xc g args σ st pj.p ht hres hf]
        by_cases ho : (!X.orderOk G.xc st args) = true
        · rw [if_pos ho]; trivial
        · rw [if_neg ho]
          have hkk : CallKind.proc g = pj.callKind := by
            unfold PInfo.callKind
            rw [hf, hname]
            rfl
          rw [hkk] at hgen
          have hcall := (hA f (Nat.lt_succ_self _)).call (fun k hk => hcs k (Nat.lt_succ_of_le hk)) pj hpj st
            gs code gs' i a b mem hgen hat hrs hsz hnl hci
          cases hev : X.evalArgs f G.xc args st with
          | undef w => simp only [Res.bind]; trivial
          | exit c s =>
            rw [hev] at hcall
            simp only [Res.bind]
            obtain ⟨c', hst, hex⟩ := hcall
            rw [hs.2.2.2.1] at hst
            exact ⟨c', hst, hex⟩
          | ok vs s =>
            rw [hev] at hcall
            simp only [Res.bind] at hcall ⊢
            cases hcu : X.callUser f G.xc pj.p vs s with
            | undef w => trivial
            | exit cd s' =>
              simp only
              rw [hcu] at hcall
              obtain ⟨c, hst, hex⟩ := hcall
              rw [hs.2.2.2.1] at hst
              exact ⟨c, hst, hex⟩
            | ok r s' =>
              simp only
              rw [hcu] at hcall
              obtain ⟨a', b', mem', hst, rep', _⟩ := hcall
              rw [hs.2.2.2.1] at hst
              exact ⟨a', b', mem', hst, rep'⟩

theorem evalArgs_cons_eq (fuel : Nat) (xc : X.Ctx) (e : X.Expr) (es : List X.Expr) (st : X.St) :
    X.evalArgs (fuel + 1) xc (e :: es) st =
      (X.eval fuel xc e st).bind fun v s => (X.evalArgs fuel xc es s).bind fun vs s' => .ok (v :: vs) s' := by
  conv => lhs; unfold X.evalArgs

/-- **A call as the first actual, all other actuals constants**: the callee of the inner call
    may have any effect; the constants do not look at the state. -/
theorem argsOK_first {G : GCtx} (ok : G.OK) {pi : PInfo} (hpi : pi ∈ G.procs) (sp dep : Nat)
    (hi : Nat → Word) (hlo : G.lo ≤ sp) (hspv : sp + G.S pi + pi.po + pi.p.formals.length ≤ G.spv + 1)
    (hstack : G.spv ≤ sp + dep * G.smax) (F : Nat) (hcs : ∀ k, k < F → CallSpec G k)
    (g : String) (args' post : List X.Expr) (hg : g ∈ G.pnames) (hp' : ∀ e ∈ args', pureE e = true)
    (hpost : ∀ e ∈ post, isConstL G.rho e = true) :
    ∀ f, f < F → ArgsOK G pi sp dep hi f (.call g args' :: post) := by
  intro f hf
  refine ⟨fun hcs' pj hpj st gs code gs' i a b mem hgen hat hr hsz hnl hci => ?_⟩
  have wf := ok.wfs pi hpi sp dep hi hlo hspv
  cases f with
  | zero => rw [evalArgs_zero]; trivial
  | succ f0 =>
  rw [evalArgs_cons_eq]
  -- the shape of the code
  obtain ⟨c1, gs1, c2, gs2, h1, h2, hcode, hgs'⟩ := callSeq_inv _ _ _ _ _ _ _ _ hgen
  have hargs : optArgsOf G.rho (.call g args' :: post) = optExpr (annotate G.rho (.call g args')) :: optArgsOf G.rho post := by
    simp [optArgsOf]
  have hcc : containsCall (optExpr (annotate G.rho (.call g args'))) = true := by rw [annot_call]; rfl
  have hpostnc : ∀ x ∈ optArgsOf G.rho post, containsCall x = false :=
    optArgsOf_noCall G.rho post (fun e he => constL_pure G.rho e (hpost e he))
  have hcnt : countCalls (optArgsOf G.rho (.call g args' :: post)) = 1 := by
    rw [hargs]
    simp only [countCalls, hcc, if_true]
    rw [(genCallActuals_noCall (G.ctxOf pi) _ gs hpostnc).2]
  have hlen : (optArgsOf G.rho (.call g args' :: post)).length = post.length + 1 := by simp [optArgsOf]
  rw [hcnt] at h2
  rw [hargs] at h1
  obtain ⟨cc, g1, cs, hgc, hgrest, hc1⟩ : ∃ cc g1 cs,
      genExpr (G.ctxOf pi) (optExpr (annotate G.rho (.call g args'))) .A { gs with size := gs.offset } = .ok (cc, g1) ∧
      genCallActuals (G.ctxOf pi) (optArgsOf G.rho post)
        { g1 with offset := g1.offset + 1, size := max g1.size (g1.offset + 1) } = .ok (cs, gs1) ∧
      c1 = cc ++ [iLDBM SP_OFFSET, IDir.fb FbKind.stai (G.ctxOf pi).frame (-(g1.offset : Int))] ++ cs := by
    rcases genCallActuals_cons_inv _ _ _ _ _ _ h1 with ⟨_, cc, g1, cs, h⟩ | ⟨hn, _⟩
    · exact ⟨cc, g1, cs, h⟩
    · rw [hcc] at hn; simp at hn
  obtain ⟨hcs0, _⟩ := genCallActuals_noCall (G.ctxOf pi) (optArgsOf G.rho post)
    { g1 with offset := g1.offset + 1, size := max g1.size (g1.offset + 1) } hpostnc
  rw [hcs0] at hgrest
  simp only [Except.ok.injEq, Prod.mk.injEq] at hgrest
  obtain ⟨hcse, hgs1⟩ := hgrest
  subst hcse
  obtain ⟨e1o, e1s, _, e1c⟩ := genExpr_eff _ _ _ _ _ _ hgc
  simp only at e1o e1s e1c
  rw [callKind_po] at h2
  simp only [bumpN] at h2
  obtain ⟨e2o, e2s, _, e2c⟩ := loadActuals_eff _ _ _ _ _ _ _ h2
  rw [← hgs1] at e2o e2s e2c
  simp only at e2o e2s e2c
  subst hgs'
  simp only [callKind_po, hlen] at hsz hci
  subst hcode; subst hc1
  simp only [lowerCode_append, List.append_assoc, List.append_nil] at hat ⊢
  have hpo := po_pos pj
  have hb : gs2.size + (post.length + 1 + pj.po) ≤ G.S pi := Nat.le_trans (Nat.le_max_right _ _) hsz
  have hci2 : ConstsIn (KOf G pi sp dep hi) gs2 := hci
  have hcig1 : ConstsIn (KOf G pi sp dep hi) g1 := fun x hx => hci2 x (e2c x hx)
  have hl2 : lowerCode G.cg [iLDBM SP_OFFSET, IDir.fb FbKind.stai (G.ctxOf pi).frame (-(g1.offset : Int))]
      = [.imm 0x1 1, .imm 0x8 ((G.S pi : Int) - 1 + -(g1.offset : Int))] := rfl
  rw [hl2] at hat ⊢
  -- the inner call
  have hE := exec_callExprF ok f0 (fun k hk => hcs k (by omega)) hpi sp dep hi hlo hspv hstack g args' hg
    (fun f' _ => argsOK_pure ok hpi sp dep hi hlo hspv hstack f' args' hp') st { gs with size := gs.offset } cc g1 i a b mem hgc
    hat.left hr (by omega) hnl hcig1
  cases heval : X.eval f0 G.xc (.call g args') st with
  | undef w => simp only [Res.bind]
  | exit cd s1 =>
    rw [heval] at hE
    simp only [Res.bind]
    exact hE
  | ok v s1 =>
    rw [heval] at hE
    simp only [Res.bind]
    cases v with
    | arr r => exact (eval_call_int G.xc f0 g args' st s1 r heval).elim
    | int w =>
    simp only at hE
    obtain ⟨b1, mem1, st1, rep1, frmE⟩ := hE
    -- park the value
    have hoff : g1.offset < G.S pi := by omega
    have hld := hat.right.left.get 0 _ rfl
    have hst := hat.right.left.get 1 _ rfl
    simp only [Nat.add_zero] at hld hst
    have sA := Step.ldbm (env := G.env) (cfg (i + (lowerCode G.cg cc).length) w b1 mem1) s1.io 1 _ hld (ld_one mem1)
    have hslot : (((KOf G pi sp dep hi).slot g1.offset : Nat) : Int) = (sp : Int) + (G.S pi : Int) - 1 + (-(g1.offset : Int)) := by
      show ((sp + G.S pi - 1 - g1.offset : Nat) : Int) = _
      omega
    have hadr := slot_addr sp (G.S pi) (-(g1.offset : Int)) ((KOf G pi sp dep hi).slot g1.offset) hslot
    obtain ⟨hsl1, hsl2⟩ := wf.slot_ok g1.offset hoff
    have hsto : IAm.store G.env mem1 (mem1.read 1 + IAm.W ((G.S pi : Int) - 1 + -(g1.offset : Int))) w
        = some (mem1.write ((KOf G pi sp dep hi).slot g1.offset) w) := by
      rw [rep1.sp]
      show IAm.store G.env mem1 (BitVec.ofNat 32 sp + _) w = _
      rw [hadr]; exact store_ofNat _ _ _ _ hsl1 hsl2
    have hne1 : (mem1.read 1 + IAm.W ((G.S pi : Int) - 1 + -(g1.offset : Int))).toNat ≠ 1 := by
      rw [rep1.sp]
      show (BitVec.ofNat 32 sp + _).toNat ≠ 1
      rw [hadr]
      exact ofNat_toNat_ne_one _ (by have := wf.sp_ge; show 2 ≤ sp + G.S pi - 1 - g1.offset; have : 2 ≤ sp := wf.sp_ge; omega) hsl1
    have sB := Step.stai (env := G.env) (cfg (i + (lowerCode G.cg cc).length + 1) w (mem1.read 1) mem1) s1.io _ _ hst hsto hne1
    have frm2 : Frm (KOf G pi sp dep hi) g1.offset (g1.offset + 1) mem1 (mem1.write ((KOf G pi sp dep hi).slot g1.offset) w) := by
      intro ad had
      rw [Mem.read_write_other]
      exact fun e => had g1.offset (Nat.le_refl _) (by omega) e.symm
    have rep2 := rep1.frame wf.toWF frm2 (by show pi.p.locals.length ≤ g1.offset; omega) (by show g1.offset + 1 ≤ G.S pi; omega)
    -- the constants
    cases hpe : X.evalArgs f0 G.xc post s1 with
    | undef w' => simp only [Res.bind]
    | exit c s => exact absurd hpe (evalArgs_pure_no_exit G.xc post f0 s1 c s (fun e he => constL_pure G.rho e (hpost e he)))
    | ok vs s =>
      simp only [Res.bind]
      obtain ⟨hss, hlv, hspec⟩ := constLs_specs (KOf G pi sp dep hi) wf.toWF post f0 s1 s vs hpost rep2.valsOk hpe
      have hload : LoadSpec (KOf G pi sp dep hi) s1 (optArgsOf G.rho (.call g args' :: post))
          ((Val.int w :: vs).map (KOf G pi sp dep hi).VRep) := by
        rw [hargs]
        simp only [List.map_cons, LoadSpec]
        exact ⟨fun h => by rw [hcc] at h; simp at h, hspec s1⟩
      have hsv : SavedOk (KOf G pi sp dep hi) (mem1.write ((KOf G pi sp dep hi).slot g1.offset) w)
          (optArgsOf G.rho (.call g args' :: post)) ((Val.int w :: vs).map (KOf G pi sp dep hi).VRep) gs.offset := by
        rw [hargs]
        simp only [List.map_cons]
        unfold SavedOk
        rw [if_pos hcc]
        refine ⟨?_, savedOk_noCall _ _ _ _ _ hpostnc⟩
        rw [← e1o]
        exact (Mem.read_write_same _ _ _ hsl1 : _ = w)
      have hlenW : (optArgsOf G.rho (.call g args' :: post)).length = ((Val.int w :: vs).map (KOf G pi sp dep hi).VRep).length := by
        simp [optArgsOf, hlv]
      obtain ⟨a3, b3, mem3, st3, rep3, hvals, _, frm3⟩ := exec_loadItems (KOf G pi sp dep hi) wf.toWF s1 _ _ hlenW hload
        pj.po gs.offset _ c2 gs2 (i + (lowerCode G.cg cc).length + 1 + 1) w (mem1.read 1)
        (mem1.write ((KOf G pi sp dep hi).slot g1.offset) w) h2
        (by have := hat.right.right.left; show At G.env.ds _ (lowerCode G.cg c2); simpa [Nat.add_assoc] using this) rep2 hsv
        (by rw [hcnt]; exact Nat.le_refl _)
        (by show gs2.size + (pj.po + (optArgsOf G.rho (.call g args' :: post)).length) ≤ G.S pi; rw [hlen]; omega)
        (by show pi.p.locals.length ≤ gs.offset + 1; omega)
        (by simp only; omega) hci2
      have rep3s : Rep (KOf G pi sp dep hi) s mem3 := rep3.same hss
      have hio : s.io = s1.io := hss.2.2.2.1
      have hct := exec_calltail ok (f0 + 1) (hcs' (f0 + 1) (Nat.le_refl _)) hpi hpj sp dep hi hlo hspv hstack s (Val.int w :: vs)
        gs2.labelCount gs.offset
        (i + (lowerCode G.cg cc).length + 1 + 1 + (lowerCode G.cg c2).length) a3 b3 mem3
        (by have := hat.right.right.right; simpa [Nat.add_assoc] using this) rep3s
        (fun k hk => by
          have := hvals k (by simpa using hk)
          simp only [List.getElem_map] at this
          exact this)
        (by simp only [List.length_cons]; omega) (by omega) (by omega)
      have hpre : Steps G.env (cfg i a b mem) st.io
          (cfg (i + (lowerCode G.cg cc).length + 1 + 1 + (lowerCode G.cg c2).length) a3 b3 mem3) s1.io :=
        st1.trans (Steps.step _ _ _ _ _ _ sA (Steps.step _ _ _ _ _ _ sB st3))
      cases hx : X.callUser (f0 + 1) G.xc pj.p (Val.int w :: vs) s with
      | undef w' => trivial
      | exit cd s' =>
        rw [hx] at hct
        obtain ⟨c, hs, he⟩ := hct
        rw [hio] at hs
        exact ⟨c, hpre.trans hs, he⟩
      | ok res s' =>
        rw [hx] at hct
        obtain ⟨a', b', mem', hs, rep', hres, frm4⟩ := hct
        rw [hio] at hs
        refine ⟨a', b', mem', ?_, rep', hres,
          ((frmE.trans (frm2.toC.mono (by omega) (by show g1.offset + 1 ≤ G.S pi; omega))).trans
            (frm3.mono (by simp only; omega) (Nat.le_refl _))).trans frm4⟩
        have : i + ((lowerCode G.cg cc).length + ([Dir.imm 1 1, Dir.imm 8 ((G.S pi : Int) - 1 + -(g1.offset : Int))].length +
            ((lowerCode G.cg c2).length + (lowerCode G.cg (callTail pj.callKind gs2.labelCount)).length)))
            = i + (lowerCode G.cg cc).length + 1 + 1 + (lowerCode G.cg c2).length + (lowerCode G.cg (callTail pj.callKind gs2.labelCount)).length := by
          simp only [List.length_cons, List.length_nil]; omega
        simp only [List.length_append]
        rw [this]
        exact hpre.trans hs

theorem callE_inv (ps : List String) (e : X.Expr) (h : callE ps e = true) :
    ∃ g args, e = .call g args ∧ g ∈ ps ∧ ∀ a ∈ args, pureE a = true := by
  cases e <;> simp [callE] at h
  rename_i g args
  exact ⟨g, args, rfl, h.1, h.2⟩

theorem callE5_inv (pk : Bool) (ps imp : List String) (ρ : String → Option Word) (e : X.Expr) (h : callE5 pk ps imp ρ e = true) :
    ∃ g args, e = .call g args ∧ g ∈ ps ∧ argsOk5 pk ps imp ρ args = true := by
  cases e <;> simp [callE5] at h
  rename_i g args
  exact ⟨g, args, rfl, h.1, h.2⟩

end Hex.C01s
