import HexVerif.Xcmp.Compile
/-!
  Inversion lemmas for the code generator model (`Xcmp/CodeGen.lean`): what a successful run of
  each generator case returned, in terms of the runs of its parts; and the effect of the
  generators on the frame accounting (`offset` is preserved, `size` and the label counter grow).
-/
namespace Hex.Xcmp
open Hex.X (BinOp UnOp)

/-- Unfold the state/exception monad of the generators in a hypothesis. -/
macro "msimp" " at " h:ident : tactic =>
  `(tactic| simp only [bind, StateT.bind, Except.bind, getOffset, get, getThe, MonadStateOf.get, StateT.get, pure,
      StateT.pure, Except.pure, incOffset, decOffset, modify, modifyGet, MonadStateOf.modifyGet, StateT.modifyGet,
      setOffset, getLabel, set, StateT.set, MonadStateOf.set, liftM, monadLift, MonadLift.monadLift, StateT.lift,
      Except.map, Functor.map, StateT.map, addData] at $h:ident)

def lab (n : Nat) : String := "_lab" ++ toString n

/-- Sequencing in `M`. -/
theorem bind_ok {α β} (x : M α) (f : α → M β) (gs : GS) (r : β × GS) (h : (x >>= f) gs = .ok r) :
    ∃ a gs1, x gs = .ok (a, gs1) ∧ f a gs1 = .ok r := by
  simp only [bind, StateT.bind, Except.bind] at h
  cases hx : x gs with
  | error e => rw [hx] at h; simp at h
  | ok v => rw [hx] at h; exact ⟨v.1, v.2, rfl, h⟩

/-! ### The pool: constants and string literals generated so far -/

inductive PoolItem where
  | const (v : Int) (l : String)
  | str (l : String) (bs : List Byte)

/-- Everything the generator has put into the data pool: constants with their labels, string
    literals with theirs. -/
def GS.items (gs : GS) : List PoolItem :=
  (gs.constMap.map fun e => PoolItem.const e.1 e.2) ++ (gs.strs.map fun e => PoolItem.str e.1 e.2)

theorem const_mem_items (gs : GS) (v : Int) (l : String) : PoolItem.const v l ∈ gs.items ↔ (v, l) ∈ gs.constMap := by
  simp [GS.items]

theorem str_mem_items (gs : GS) (l : String) (bs : List Byte) : PoolItem.str l bs ∈ gs.items ↔ (l, bs) ∈ gs.strs := by
  simp [GS.items]

theorem items_mono {gs gs' : GS} (h1 : ∀ e ∈ gs.constMap, e ∈ gs'.constMap) (h2 : ∀ e ∈ gs.strs, e ∈ gs'.strs) :
    ∀ x ∈ gs.items, x ∈ gs'.items := by
  intro x hx
  cases x with
  | const v l => rw [const_mem_items] at hx ⊢; exact h1 _ hx
  | str l bs => rw [str_mem_items] at hx ⊢; exact h2 _ hx

/-! ### Leaves -/

def constCode (reg : Reg) (v : Int) : Code :=
  match reg with
  | .A => [iLDAC v]
  | .B => [iLDBC v]

def poolCode (reg : Reg) (label : String) : Code :=
  match reg with
  | .A => [lLDAM label]
  | .B => [lLDBM label]

theorem genConst_small (reg : Reg) (v : CInt) (gs : GS) (h : v.toInt > -65536 ∧ v.toInt < 65536) :
    genConst reg v gs = .ok (constCode reg v.toInt, gs) := by
  unfold genConst
  rw [if_pos h]
  rfl

/-- What `genConstPool` does to the state: nothing but possibly one more pool entry. -/
theorem genConstPool_inv (value : Int) (gs gs' : GS) (label : String) (h : genConstPool value gs = .ok (label, gs')) :
    (value, label) ∈ gs'.constMap ∧ gs'.offset = gs.offset ∧ gs'.size = gs.size ∧ gs'.labelCount = gs.labelCount ∧
    (∀ e ∈ gs.constMap, e ∈ gs'.constMap) := by
  unfold genConstPool at h
  msimp at h
  cases hf : gs.constMap.find? (fun e => e.1 = value) with
  | some e =>
    rw [hf] at h
    simp only [StateT.pure, pure, Except.pure, Except.ok.injEq, Prod.mk.injEq] at h
    have hm := List.mem_of_find?_eq_some hf
    have hp := List.find?_some hf
    simp only [decide_eq_true_eq] at hp
    rw [← h.1, ← h.2]
    refine ⟨?_, rfl, rfl, rfl, fun e he => he⟩
    rw [← hp]; exact hm
  | none =>
    rw [hf] at h
    simp only [StateT.pure, StateT.bind, StateT.set, pure, Except.pure, Except.bind, bind, Except.ok.injEq, Prod.mk.injEq] at h
    rw [← h.1, ← h.2]
    refine ⟨by simp, rfl, rfl, rfl, fun e he => by simp [he]⟩

theorem genConstPool_strs (value : Int) (gs gs' : GS) (label : String) (h : genConstPool value gs = .ok (label, gs')) :
    gs'.strs = gs.strs := by
  unfold genConstPool at h
  msimp at h
  cases hf : gs.constMap.find? (fun e => e.1 = value) with
  | some e =>
    rw [hf] at h
    simp only [StateT.pure, pure, Except.pure, Except.ok.injEq, Prod.mk.injEq] at h
    rw [← h.2]
  | none =>
    rw [hf] at h
    simp only [StateT.pure, StateT.bind, StateT.set, pure, Except.pure, Except.bind, bind, Except.ok.injEq, Prod.mk.injEq] at h
    rw [← h.2]

theorem genConst_inv (reg : Reg) (v : CInt) (gs gs' : GS) (code : Code) (h : genConst reg v gs = .ok (code, gs')) :
    gs'.offset = gs.offset ∧ gs'.size = gs.size ∧ gs'.labelCount = gs.labelCount ∧
    ((v.toInt > -65536 ∧ v.toInt < 65536 ∧ gs' = gs ∧ code = constCode reg v.toInt) ∨
     (¬ (v.toInt > -65536 ∧ v.toInt < 65536) ∧ ∃ label, (v.toInt, label) ∈ gs'.constMap ∧
        code = poolCode reg label)) := by
  by_cases hs : v.toInt > -65536 ∧ v.toInt < 65536
  · rw [genConst_small reg v gs hs] at h
    simp only [Except.ok.injEq, Prod.mk.injEq] at h
    obtain ⟨h1, h2⟩ := h
    subst h2
    exact ⟨rfl, rfl, rfl, Or.inl ⟨hs.1, hs.2, rfl, h1.symm⟩⟩
  · unfold genConst at h
    rw [if_neg hs] at h
    obtain ⟨label, gs1, hp, hr⟩ := bind_ok _ _ _ _ h
    obtain ⟨h1, h2, h3, h4, _⟩ := genConstPool_inv _ _ _ _ hp
    simp only [pure, StateT.pure, Except.pure, Except.ok.injEq, Prod.mk.injEq] at hr
    obtain ⟨hc, hg⟩ := hr
    subst hg
    exact ⟨h2, h3, h4, Or.inr ⟨hs, label, h1, hc.symm⟩⟩

theorem genString_inv (reg : Reg) (bs : List Byte) (gs gs' : GS) (code : Code) (h : genString reg bs gs = .ok (code, gs')) :
    gs'.offset = gs.offset ∧ gs'.size = gs.size ∧ gs'.labelCount = gs.labelCount ∧ gs'.constMap = gs.constMap := by
  unfold genString at h
  msimp at h
  cases reg <;> simp only [StateT.pure, pure, Except.pure, Except.ok.injEq, Prod.mk.injEq] at h <;>
    (rw [← h.2]; exact ⟨rfl, rfl, rfl, rfl⟩)

def strCode (reg : Reg) (label : String) : Code :=
  match reg with
  | .A => [lLDAC label]
  | .B => [lLDBC label]

/-- The literal is in the pool afterwards, under the label the code refers to. -/
theorem genString_items (reg : Reg) (bs : List Byte) (gs gs' : GS) (code : Code) (h : genString reg bs gs = .ok (code, gs')) :
    (∀ x ∈ gs.items, x ∈ gs'.items) ∧
    PoolItem.str ("_string" ++ toString gs.stringCount) bs ∈ gs'.items ∧
    code = strCode reg ("_string" ++ toString gs.stringCount) := by
  cases reg with
  | A =>
    unfold genString at h
    msimp at h
    simp only [StateT.pure, pure, Except.pure, Except.ok.injEq, Prod.mk.injEq] at h
    rw [← h.2, ← h.1]
    refine ⟨items_mono (fun _ he => he) (fun e he => by simp [he]), ?_, rfl⟩
    rw [str_mem_items]; simp
  | B =>
    unfold genString at h
    msimp at h
    simp only [StateT.pure, pure, Except.pure, Except.ok.injEq, Prod.mk.injEq] at h
    rw [← h.2, ← h.1]
    refine ⟨items_mono (fun _ he => he) (fun e he => by simp [he]), ?_, rfl⟩
    rw [str_mem_items]; simp

theorem genExpr_num (ctx : Ctx) (v : Word) (c : Option CInt) (reg : Reg) :
    genExpr ctx (.num v c) reg = genConst reg v := by unfold genExpr; rfl
theorem genExpr_bool (ctx : Ctx) (b : Bool) (c : Option CInt) (reg : Reg) :
    genExpr ctx (.bool b c) reg = genConst reg (b2w b) := by unfold genExpr; rfl
theorem genExpr_str (ctx : Ctx) (bs : List Byte) (reg : Reg) :
    genExpr ctx (.str bs) reg = genString reg bs := by unfold genExpr; rfl
theorem genExpr_name_const (ctx : Ctx) (n : String) (v : CInt) (reg : Reg) :
    genExpr ctx (.name n (some v)) reg = genConst reg v := by unfold genExpr; rfl
theorem genExpr_un_const (ctx : Ctx) (op : UnOp) (e : AExpr) (v : CInt) (reg : Reg) :
    genExpr ctx (.un op e (some v)) reg = genConst reg v := by unfold genExpr; rfl
theorem genExpr_bin_const (ctx : Ctx) (op : BinOp) (l r : AExpr) (v : CInt) (reg : Reg) :
    genExpr ctx (.bin op l r (some v)) reg = genConst reg v := by unfold genExpr; rfl

theorem genExpr_name_inv (ctx : Ctx) (n : String) (reg : Reg) (gs gs' : GS) (code : Code)
    (h : genExpr ctx (.name n none) reg gs = .ok (code, gs')) :
    ∃ sym, ctx.tbl.lookup ctx.scope n = .ok sym ∧ code = genVar reg sym ∧ gs' = gs := by
  unfold genExpr at h
  msimp at h
  cases hl : ctx.tbl.lookup ctx.scope n with
  | error e => rw [hl] at h; simp at h
  | ok sym =>
    rw [hl] at h
    simp only [Except.ok.injEq, Prod.mk.injEq] at h
    exact ⟨sym, rfl, h.1.symm, h.2.symm⟩

/-! ### Operators -/

theorem binopOperands_inv (ctx : Ctx) (b : Bool) (genL genRA genRB : M Code) (gs gs' : GS) (code : Code)
    (h : binopOperands ctx b genL genRA genRB gs = .ok (code, gs')) :
    (b = true → ∃ cr gs1 cl gs2, genRA gs = .ok (cr, gs1) ∧
        genL { gs1 with offset := gs1.offset + 1, size := max gs1.size (gs1.offset + 1) } = .ok (cl, gs2) ∧
        code = cr ++ [iLDBM SP_OFFSET, .fb .stai ctx.frame (-(gs1.offset : Int))] ++ cl ++
               [iLDBM SP_OFFSET, .fb .ldbi ctx.frame (-(gs1.offset : Int))] ∧
        gs' = { gs2 with offset := gs.offset }) ∧
    (b = false → ∃ cl gs1 cr, genL gs = .ok (cl, gs1) ∧ genRB gs1 = .ok (cr, gs') ∧ code = cl ++ cr) := by
  unfold binopOperands at h
  constructor
  · intro hb
    subst hb
    simp only [if_true] at h
    msimp at h
    cases hra : genRA gs with
    | error e => rw [hra] at h; simp at h
    | ok v =>
      obtain ⟨cr, gs1⟩ := v
      rw [hra] at h
      simp only at h
      cases hl : genL { gs1 with offset := gs1.offset + 1, size := max gs1.size (gs1.offset + 1) } with
      | error e => rw [hl] at h; simp at h
      | ok v =>
        obtain ⟨cl, gs2⟩ := v
        rw [hl] at h
        simp only [Except.ok.injEq, Prod.mk.injEq] at h
        exact ⟨cr, gs1, cl, gs2, rfl, hl, h.1.symm, h.2.symm⟩
  · intro hb
    subst hb
    simp only [Bool.false_eq_true, if_false] at h
    msimp at h
    cases hl : genL gs with
    | error e => rw [hl] at h; simp at h
    | ok v =>
      obtain ⟨cl, gs1⟩ := v
      rw [hl] at h
      simp only at h
      cases hr : genRB gs1 with
      | error e => rw [hr] at h; simp at h
      | ok v =>
        obtain ⟨cr, gs2⟩ := v
        rw [hr] at h
        simp only [Except.ok.injEq, Prod.mk.injEq] at h
        obtain ⟨h1, h2⟩ := h
        subst h2
        exact ⟨cl, gs1, cr, rfl, hr, h1.symm⟩

/-- The operand part shared by `+ - = <`. -/
def genOperands (ctx : Ctx) (l r : AExpr) : M Code :=
  binopOperands ctx (needsAReg r) (genExpr ctx l .A) (genExpr ctx r .A) (genExpr ctx r .B)

theorem genExpr_plus_inv (ctx : Ctx) (l r : AExpr) (reg : Reg) (gs gs' : GS) (code : Code)
    (h : genExpr ctx (.bin .plus l r none) reg gs = .ok (code, gs')) :
    ∃ c, genOperands ctx l r gs = .ok (c, gs') ∧ code = c ++ [iADD] := by
  unfold genExpr at h
  obtain ⟨c, gs1, h1, h2⟩ := bind_ok _ _ _ _ h
  simp only [pure, StateT.pure, Except.pure, Except.ok.injEq, Prod.mk.injEq] at h2
  obtain ⟨hc, hg⟩ := h2
  subst hg
  exact ⟨c, h1, hc.symm⟩

theorem genExpr_minus_inv (ctx : Ctx) (l r : AExpr) (reg : Reg) (gs gs' : GS) (code : Code)
    (h : genExpr ctx (.bin .minus l r none) reg gs = .ok (code, gs')) :
    ∃ c, genOperands ctx l r gs = .ok (c, gs') ∧ code = c ++ [iSUB] := by
  unfold genExpr at h
  obtain ⟨c, gs1, h1, h2⟩ := bind_ok _ _ _ _ h
  simp only [pure, StateT.pure, Except.pure, Except.ok.injEq, Prod.mk.injEq] at h2
  obtain ⟨hc, hg⟩ := h2
  subst hg
  exact ⟨c, h1, hc.symm⟩

theorem genExpr_not_inv (ctx : Ctx) (e : AExpr) (reg : Reg) (gs gs' : GS) (code : Code)
    (h : genExpr ctx (.un .not e none) reg gs = .ok (code, gs')) :
    ∃ ce, genExpr ctx e .A { gs with labelCount := gs.labelCount + 2 } = .ok (ce, gs') ∧
      code = ce ++ selectTail lBRZ (lab gs.labelCount) (lab (gs.labelCount + 1)) := by
  unfold genExpr at h
  msimp at h
  cases he : genExpr ctx e .A { gs with labelCount := gs.labelCount + 1 + 1 } with
  | error e => rw [he] at h; simp at h
  | ok v =>
    obtain ⟨ce, gs1⟩ := v
    rw [he] at h
    simp only [Except.ok.injEq, Prod.mk.injEq] at h
    obtain ⟨h1, h2⟩ := h
    subst h2
    exact ⟨ce, rfl, h1.symm⟩

theorem genExpr_and_inv (ctx : Ctx) (l r : AExpr) (reg : Reg) (gs gs' : GS) (code : Code)
    (h : genExpr ctx (.bin .and l r none) reg gs = .ok (code, gs')) :
    ∃ cl gs1 cr, genExpr ctx l .A { gs with labelCount := gs.labelCount + 1 } = .ok (cl, gs1) ∧
      genExpr ctx r .A gs1 = .ok (cr, gs') ∧
      code = cl ++ [lBRZ (lab gs.labelCount)] ++ cr ++ [iLabel (lab gs.labelCount)] := by
  unfold genExpr at h
  msimp at h
  cases hl : genExpr ctx l .A { gs with labelCount := gs.labelCount + 1 } with
  | error e => rw [hl] at h; simp at h
  | ok v =>
    obtain ⟨cl, gs1⟩ := v
    rw [hl] at h
    simp only at h
    cases hr : genExpr ctx r .A gs1 with
    | error e => rw [hr] at h; simp at h
    | ok v =>
      obtain ⟨cr, gs2⟩ := v
      rw [hr] at h
      simp only [Except.ok.injEq, Prod.mk.injEq] at h
      obtain ⟨h1, h2⟩ := h
      subst h2
      exact ⟨cl, gs1, cr, rfl, hr, h1.symm⟩

theorem genExpr_or_inv (ctx : Ctx) (l r : AExpr) (reg : Reg) (gs gs' : GS) (code : Code)
    (h : genExpr ctx (.bin .or l r none) reg gs = .ok (code, gs')) :
    ∃ cl gs1 cr, genExpr ctx l .A { gs with labelCount := gs.labelCount + 2 } = .ok (cl, gs1) ∧
      genExpr ctx r .A gs1 = .ok (cr, gs') ∧
      code = cl ++ [lBRZ (lab gs.labelCount), lBR (lab (gs.labelCount + 1)), iLabel (lab gs.labelCount)] ++ cr ++
             [iLabel (lab (gs.labelCount + 1))] := by
  unfold genExpr at h
  msimp at h
  cases hl : genExpr ctx l .A { gs with labelCount := gs.labelCount + 1 + 1 } with
  | error e => rw [hl] at h; simp at h
  | ok v =>
    obtain ⟨cl, gs1⟩ := v
    rw [hl] at h
    simp only at h
    cases hr : genExpr ctx r .A gs1 with
    | error e => rw [hr] at h; simp at h
    | ok v =>
      obtain ⟨cr, gs2⟩ := v
      rw [hr] at h
      simp only [Except.ok.injEq, Prod.mk.injEq] at h
      obtain ⟨h1, h2⟩ := h
      subst h2
      exact ⟨cl, gs1, cr, rfl, hr, h1.symm⟩

theorem genExpr_eq_inv (ctx : Ctx) (l r : AExpr) (reg : Reg) (gs gs' : GS) (code : Code)
    (h : genExpr ctx (.bin .eq l r none) reg gs = .ok (code, gs')) :
    ∃ c gs1, eqOperand l.isConstZero r.isConstZero (genExpr ctx l .A) (genExpr ctx r .A) (genOperands ctx l r) gs
        = .ok (c, gs1) ∧ gs' = { gs1 with labelCount := gs1.labelCount + 2 } ∧
      code = c ++ selectTail lBRZ (lab gs1.labelCount) (lab (gs1.labelCount + 1)) := by
  unfold genExpr at h
  obtain ⟨c, gs1, h1, h2⟩ := bind_ok _ _ _ _ h
  msimp at h2
  simp only [Except.ok.injEq, Prod.mk.injEq] at h2
  exact ⟨c, gs1, h1, h2.2.symm, h2.1.symm⟩

theorem genExpr_ls_inv (ctx : Ctx) (l r : AExpr) (reg : Reg) (gs gs' : GS) (code : Code)
    (h : genExpr ctx (.bin .ls l r none) reg gs = .ok (code, gs')) :
    ∃ c gs1, eqOperand false r.isConstZero (genExpr ctx l .A) (genExpr ctx r .A) (genOperands ctx l r) gs
        = .ok (c, gs1) ∧ gs' = { gs1 with labelCount := gs1.labelCount + 2 } ∧
      code = c ++ selectTail lBRN (lab gs1.labelCount) (lab (gs1.labelCount + 1)) := by
  unfold genExpr at h
  obtain ⟨c, gs1, h1, h2⟩ := bind_ok _ _ _ _ h
  msimp at h2
  simp only [Except.ok.injEq, Prod.mk.injEq] at h2
  exact ⟨c, gs1, h1, h2.2.symm, h2.1.symm⟩

theorem eqOperand_inv (lz rz : Bool) (genL genR genOps : M Code) (gs gs' : GS) (code : Code)
    (h : eqOperand lz rz genL genR genOps gs = .ok (code, gs')) :
    (lz = true ∧ genR gs = .ok (code, gs')) ∨
    (lz = false ∧ rz = true ∧ genL gs = .ok (code, gs')) ∨
    (lz = false ∧ rz = false ∧ ∃ c, genOps gs = .ok (c, gs') ∧ code = c ++ [iSUB]) := by
  unfold eqOperand at h
  cases lz with
  | true => left; exact ⟨rfl, by simpa using h⟩
  | false =>
    right
    cases rz with
    | true => left; exact ⟨rfl, rfl, by simpa using h⟩
    | false =>
      right
      simp only [Bool.false_eq_true, if_false] at h
      obtain ⟨c, gs1, h1, h2⟩ := bind_ok _ _ _ _ h
      simp only [pure, StateT.pure, Except.pure, Except.ok.injEq, Prod.mk.injEq] at h2
      obtain ⟨hc, hg⟩ := h2
      subst hg
      exact ⟨rfl, rfl, c, h1, hc.symm⟩

end Hex.Xcmp
