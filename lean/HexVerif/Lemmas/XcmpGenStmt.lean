import HexVerif.Lemmas.XcmpGenCall
/-!
  Inversion lemmas for the statement generator (`genStmt`, `genStmts`) and its effect on the
  frame accounting.
-/
namespace Hex.Xcmp
open Hex.X (BinOp UnOp)

theorem genStmt_skip (ctx : Ctx) (gs : GS) : genStmt ctx .skip gs = .ok ([], gs) := by
  unfold genStmt; rfl

theorem genStmt_stop (ctx : Ctx) (gs : GS) : genStmt ctx .stop gs = .ok (exitSeq, gs) := by
  unfold genStmt; rfl

theorem genStmt_ret_inv (ctx : Ctx) (e : AExpr) (gs gs' : GS) (code : Code)
    (h : genStmt ctx (.ret e) gs = .ok (code, gs')) :
    ∃ c, genExpr ctx e .A gs = .ok (c, gs') ∧ code = c ++ [lBR ctx.exitLabel] := by
  unfold genStmt at h
  obtain ⟨c, gs1, h1, h2⟩ := bind_ok _ _ _ _ h
  simp only [pure, StateT.pure, Except.pure, Except.ok.injEq, Prod.mk.injEq] at h2
  obtain ⟨hc, hg⟩ := h2
  subst hg
  exact ⟨c, h1, hc.symm⟩

theorem genStmt_seq (ctx : Ctx) (ss : List AStmt) : genStmt ctx (.seq ss) = genStmts ctx ss := by
  unfold genStmt; rfl

theorem genStmts_nil (ctx : Ctx) (gs : GS) : genStmts ctx [] gs = .ok ([], gs) := by
  unfold genStmts; rfl

theorem genStmts_cons_inv (ctx : Ctx) (s : AStmt) (ss : List AStmt) (gs gs' : GS) (code : Code)
    (h : genStmts ctx (s :: ss) gs = .ok (code, gs')) :
    ∃ c gs1 cs, genStmt ctx s gs = .ok (c, gs1) ∧ genStmts ctx ss gs1 = .ok (cs, gs') ∧ code = c ++ cs := by
  unfold genStmts at h
  obtain ⟨c, gs1, h1, h⟩ := bind_ok _ _ _ _ h
  obtain ⟨cs, gs2, h2, h⟩ := bind_ok _ _ _ _ h
  simp only [pure, StateT.pure, Except.pure, Except.ok.injEq, Prod.mk.injEq] at h
  obtain ⟨hc, hg⟩ := h
  subst hg
  exact ⟨c, gs1, cs, h1, h2, hc.symm⟩

theorem genStmt_while_inv (ctx : Ctx) (cond : AExpr) (body : AStmt) (gs gs' : GS) (code : Code)
    (h : genStmt ctx (.while cond body) gs = .ok (code, gs')) :
    ∃ cc gs1 cb, genExpr ctx cond .A { gs with labelCount := gs.labelCount + 2 } = .ok (cc, gs1) ∧
      genStmt ctx body gs1 = .ok (cb, gs') ∧
      code = [iLabel (lab gs.labelCount)] ++ cc ++ [lBRZ (lab (gs.labelCount + 1))] ++ cb ++
             [lBR (lab gs.labelCount), iLabel (lab (gs.labelCount + 1))] := by
  unfold genStmt at h
  obtain ⟨l1, g1, h1, h⟩ := bind_ok _ _ _ _ h
  obtain ⟨l2, g2, h2, h⟩ := bind_ok _ _ _ _ h
  simp only [getLabel, modifyGet, MonadStateOf.modifyGet, StateT.modifyGet, pure, Except.pure, Except.ok.injEq,
    Prod.mk.injEq] at h1 h2
  obtain ⟨hl1, hg1⟩ := h1
  subst hl1; subst hg1
  obtain ⟨hl2, hg2⟩ := h2
  subst hl2; subst hg2
  obtain ⟨cc, gs1, h3, h⟩ := bind_ok _ _ _ _ h
  obtain ⟨cb, gs2, h4, h⟩ := bind_ok _ _ _ _ h
  simp only [pure, StateT.pure, Except.pure, Except.ok.injEq, Prod.mk.injEq] at h
  obtain ⟨hc, hg⟩ := h
  subst hg
  exact ⟨cc, gs1, cb, h3, h4, hc.symm⟩

/-- The four shapes of `if`. -/
theorem genStmt_ite_inv (ctx : Ctx) (cond : AExpr) (t e : AStmt) (gs gs' : GS) (code : Code)
    (h : genStmt ctx (.ite cond t e) gs = .ok (code, gs')) :
    (t.isSkip = true ∧ e.isSkip = true ∧
      ((containsCall cond = true ∧ genExpr ctx cond .A gs = .ok (code, gs')) ∨
       (containsCall cond = false ∧ code = [] ∧ gs' = gs))) ∨
    (t.isSkip = false ∧ e.isSkip = true ∧ ∃ cc gs1 ct,
      genExpr ctx cond .A { gs with labelCount := gs.labelCount + 1 } = .ok (cc, gs1) ∧
      genStmt ctx t gs1 = .ok (ct, gs') ∧
      code = cc ++ [lBRZ (lab gs.labelCount)] ++ ct ++ [iLabel (lab gs.labelCount)]) ∨
    (t.isSkip = true ∧ e.isSkip = false ∧ ∃ cc gs1 ce,
      genExpr ctx cond .A { gs with labelCount := gs.labelCount + 2 } = .ok (cc, gs1) ∧
      genStmt ctx e gs1 = .ok (ce, gs') ∧
      code = cc ++ [lBRZ (lab gs.labelCount), lBR (lab (gs.labelCount + 1)), iLabel (lab gs.labelCount)] ++ ce ++
             [iLabel (lab (gs.labelCount + 1))]) ∨
    (t.isSkip = false ∧ e.isSkip = false ∧ ∃ cc gs1 ct gs2 ce,
      genExpr ctx cond .A { gs with labelCount := gs.labelCount + 2 } = .ok (cc, gs1) ∧
      genStmt ctx t gs1 = .ok (ct, gs2) ∧ genStmt ctx e gs2 = .ok (ce, gs') ∧
      code = cc ++ [lBRZ (lab gs.labelCount)] ++ ct ++ [lBR (lab (gs.labelCount + 1)), iLabel (lab gs.labelCount)] ++
             ce ++ [iLabel (lab (gs.labelCount + 1))]) := by
  unfold genStmt at h
  cases hts : t.isSkip <;> cases hes : e.isSkip <;>
    simp only [hts, hes, Bool.false_eq_true, and_self, and_false, false_and, if_false, if_true, true_and] at h
  · -- neither is skip
    right; right; right
    obtain ⟨l1, g1, h1, h⟩ := bind_ok _ _ _ _ h
    obtain ⟨l2, g2, h2, h⟩ := bind_ok _ _ _ _ h
    simp only [getLabel, modifyGet, MonadStateOf.modifyGet, StateT.modifyGet, pure, Except.pure, Except.ok.injEq,
      Prod.mk.injEq] at h1 h2
    obtain ⟨hl1, hg1⟩ := h1
    subst hl1; subst hg1
    obtain ⟨hl2, hg2⟩ := h2
    subst hl2; subst hg2
    obtain ⟨cc, gs1, h3, h⟩ := bind_ok _ _ _ _ h
    obtain ⟨ct, gs2, h4, h⟩ := bind_ok _ _ _ _ h
    obtain ⟨ce, gs3, h5, h⟩ := bind_ok _ _ _ _ h
    simp only [pure, StateT.pure, Except.pure, Except.ok.injEq, Prod.mk.injEq] at h
    obtain ⟨hc, hg⟩ := h
    subst hg
    exact ⟨rfl, rfl, cc, gs1, ct, gs2, ce, h3, h4, h5, hc.symm⟩
  · -- else is skip
    right; left
    obtain ⟨l1, g1, h1, h⟩ := bind_ok _ _ _ _ h
    simp only [getLabel, modifyGet, MonadStateOf.modifyGet, StateT.modifyGet, pure, Except.pure, Except.ok.injEq,
      Prod.mk.injEq] at h1
    obtain ⟨hl1, hg1⟩ := h1
    subst hl1; subst hg1
    obtain ⟨cc, gs1, h3, h⟩ := bind_ok _ _ _ _ h
    obtain ⟨ct, gs2, h4, h⟩ := bind_ok _ _ _ _ h
    simp only [pure, StateT.pure, Except.pure, Except.ok.injEq, Prod.mk.injEq] at h
    obtain ⟨hc, hg⟩ := h
    subst hg
    exact ⟨rfl, rfl, cc, gs1, ct, h3, h4, hc.symm⟩
  · -- then is skip
    right; right; left
    obtain ⟨l1, g1, h1, h⟩ := bind_ok _ _ _ _ h
    obtain ⟨l2, g2, h2, h⟩ := bind_ok _ _ _ _ h
    simp only [getLabel, modifyGet, MonadStateOf.modifyGet, StateT.modifyGet, pure, Except.pure, Except.ok.injEq,
      Prod.mk.injEq] at h1 h2
    obtain ⟨hl1, hg1⟩ := h1
    subst hl1; subst hg1
    obtain ⟨hl2, hg2⟩ := h2
    subst hl2; subst hg2
    obtain ⟨cc, gs1, h3, h⟩ := bind_ok _ _ _ _ h
    obtain ⟨ce, gs2, h4, h⟩ := bind_ok _ _ _ _ h
    simp only [pure, StateT.pure, Except.pure, Except.ok.injEq, Prod.mk.injEq] at h
    obtain ⟨hc, hg⟩ := h
    subst hg
    exact ⟨rfl, rfl, cc, gs1, ce, h3, h4, hc.symm⟩
  · -- both skip
    left
    refine ⟨rfl, rfl, ?_⟩
    cases hcc : containsCall cond
    · simp only [hcc, Bool.false_eq_true, if_false, pure, StateT.pure, Except.pure, Except.ok.injEq, Prod.mk.injEq] at h
      exact Or.inr ⟨rfl, h.1.symm, h.2.symm⟩
    · simp only [hcc, if_true] at h
      exact Or.inl ⟨rfl, h⟩

/-- The store of an assignment to a variable. -/
def assignTail (ctx : Ctx) (sym : Symbol) : Code :=
  if sym.scope = "" then [lSTAM sym.globalLabel]
  else [iLDBM SP_OFFSET, .fb .stai ctx.frame sym.stackOffset]

theorem genStmt_assign_inv (ctx : Ctx) (n : String) (e : AExpr) (gs gs' : GS) (code : Code)
    (h : genStmt ctx (.assign n e) gs = .ok (code, gs')) :
    ∃ c sym, genExpr ctx e .A gs = .ok (c, gs') ∧ ctx.tbl.lookup ctx.scope n = .ok sym ∧
      code = c ++ assignTail ctx sym := by
  unfold genStmt at h
  obtain ⟨c, gs1, h1, h⟩ := bind_ok _ _ _ _ h
  obtain ⟨sym, gs2, h2, h⟩ := bind_ok _ _ _ _ h
  msimp at h2
  cases hl : ctx.tbl.lookup ctx.scope n with
  | error e => rw [hl] at h2; simp at h2
  | ok sym' =>
    rw [hl] at h2
    simp only [Except.ok.injEq, Prod.mk.injEq] at h2
    obtain ⟨hs, hg⟩ := h2
    subst hs; subst hg
    unfold assignTail
    by_cases hsc : sym'.scope = ""
    · simp only [hsc, if_true, pure, StateT.pure, Except.pure, Except.ok.injEq, Prod.mk.injEq] at h ⊢
      rw [← h.2]
      exact ⟨c, sym', h1, rfl, by simp only [hsc, if_true]; exact h.1.symm⟩
    · simp only [hsc, if_false, pure, StateT.pure, Except.pure, Except.ok.injEq, Prod.mk.injEq] at h ⊢
      rw [← h.2]
      exact ⟨c, sym', h1, rfl, by simp only [hsc, if_false]; exact h.1.symm⟩

theorem genStmt_call_eq (ctx : Ctx) (sys : Int) (f : String) (args : List AExpr) :
    genStmt ctx (.call sys f args) =
      callSeq (if sys ≠ -1 then CallKind.sys sys else CallKind.proc f) args.length (countCalls args)
        (genCallActuals ctx args) (fun p s => loadActuals ctx args p s) := by
  unfold genStmt; rfl

theorem genStmt_assignSub_inv (ctx : Ctx) (n : String) (i e : AExpr) (gs gs' : GS) (code : Code)
    (h : genStmt ctx (.assignSub n i e) gs = .ok (code, gs')) :
    ∃ ci gs1 sym ce gs2, genExpr ctx i .A gs = .ok (ci, gs1) ∧ ctx.tbl.lookup ctx.scope n = .ok sym ∧
      genExpr ctx e .A { gs1 with offset := gs1.offset + 1, size := max gs1.size (gs1.offset + 1) } = .ok (ce, gs2) ∧
      gs' = { gs2 with offset := gs2.offset - 1 } ∧
      code = ci ++ genVar .B sym ++ [iADD, iLDBM SP_OFFSET, .fb .stai ctx.frame (-(gs1.offset : Int))] ++ ce ++
             [iLDBM SP_OFFSET, .fb .ldbi ctx.frame (-(gs1.offset : Int)), iSTAI 0] := by
  unfold genStmt at h
  obtain ⟨ci, gs1, h1, h⟩ := bind_ok _ _ _ _ h
  obtain ⟨sym, g2, h2, h⟩ := bind_ok _ _ _ _ h
  msimp at h2
  cases hl : ctx.tbl.lookup ctx.scope n with
  | error e => rw [hl] at h2; simp at h2
  | ok sym' =>
    rw [hl] at h2
    simp only [Except.ok.injEq, Prod.mk.injEq] at h2
    obtain ⟨hs, hg⟩ := h2
    subst hs; subst hg
    obtain ⟨so, g3, h3, h⟩ := bind_ok _ _ _ _ h
    simp only [getOffset, bind, StateT.bind, get, getThe, MonadStateOf.get, StateT.get, pure, StateT.pure, Except.pure,
      Except.bind, Except.ok.injEq, Prod.mk.injEq] at h3
    obtain ⟨hso, hg3⟩ := h3
    subst hso; subst hg3
    obtain ⟨_, g4, h4, h⟩ := bind_ok _ _ _ _ h
    simp only [incOffset, modify, modifyGet, MonadStateOf.modifyGet, StateT.modifyGet, pure, Except.pure,
      Except.ok.injEq, Prod.mk.injEq] at h4
    obtain ⟨_, hg4⟩ := h4
    subst hg4
    obtain ⟨ce, gs2, h5, h⟩ := bind_ok _ _ _ _ h
    obtain ⟨_, g6, h6, h⟩ := bind_ok _ _ _ _ h
    simp only [decOffset, modify, modifyGet, MonadStateOf.modifyGet, StateT.modifyGet, pure, Except.pure,
      Except.ok.injEq, Prod.mk.injEq] at h6
    obtain ⟨_, hg6⟩ := h6
    subst hg6
    simp only [pure, StateT.pure, Except.pure, Except.ok.injEq, Prod.mk.injEq] at h
    exact ⟨ci, gs1, sym', ce, gs2, h1, rfl, h5, h.2.symm, h.1.symm⟩

/-! ### Effect on the frame accounting -/

theorem loadActuals_eff (ctx : Ctx) : ∀ (args : List AExpr) (p s : Nat) (gs : GS) (code : Code) (gs' : GS),
    loadActuals ctx args p s gs = .ok (code, gs') → Eff gs gs' := by
  intro args
  induction args with
  | nil =>
    intro p s gs code gs' h
    rw [loadActuals_nil] at h
    simp only [Except.ok.injEq, Prod.mk.injEq] at h
    rw [← h.2]; exact Eff.refl _
  | cons a rest ih =>
    intro p s gs code gs' h
    rcases loadActuals_cons_inv _ _ _ _ _ _ _ _ h with ⟨_, cs, h1, _⟩ | ⟨_, c, gs1, cs, h1, h2, _⟩
    · exact ih _ _ _ _ _ h1
    · exact (genExpr_eff ctx a .A _ _ _ h1).trans (ih _ _ _ _ _ h2)

theorem genCallActuals_eff (ctx : Ctx) : ∀ (args : List AExpr) (gs : GS) (code : Code) (gs' : GS),
    genCallActuals ctx args gs = .ok (code, gs') →
    gs'.offset = gs.offset + countCalls args ∧ gs.size ≤ gs'.size ∧ gs.labelCount ≤ gs'.labelCount ∧
      (∀ e ∈ gs.items, e ∈ gs'.items) := by
  intro args
  induction args with
  | nil =>
    intro gs code gs' h
    rw [genCallActuals_nil] at h
    simp only [Except.ok.injEq, Prod.mk.injEq] at h
    rw [← h.2]; simp [countCalls]
  | cons a rest ih =>
    intro gs code gs' h
    rcases genCallActuals_cons_inv _ _ _ _ _ _ h with ⟨hc, c, gs1, cs, h1, h2, _⟩ | ⟨hc, h1⟩
    · obtain ⟨a1, a2, a3, a4⟩ := genExpr_eff ctx a .A _ _ _ h1
      obtain ⟨b1, b2, b3, b4⟩ := ih _ _ _ h2
      simp only at b1 b2 b3 b4
      simp only [countCalls, hc, if_true]
      exact ⟨by omega, by omega, by omega, fun e he => b4 e (a4 e he)⟩
    · obtain ⟨b1, b2, b3, b4⟩ := ih _ _ _ h1
      simp only [countCalls, hc, Bool.false_eq_true, if_false]
      exact ⟨by omega, b2, b3, b4⟩

theorem callSeq_eff (ctx : Ctx) (kind : CallKind) (args : List AExpr) (gs gs' : GS) (code : Code)
    (h : callSeq kind args.length (countCalls args) (genCallActuals ctx args) (fun p s => loadActuals ctx args p s) gs
          = .ok (code, gs')) : Eff gs gs' := by
  obtain ⟨c1, gs1, c2, gs2, h1, h2, _, h4⟩ := callSeq_inv _ _ _ _ _ _ _ _ h
  obtain ⟨a1, a2, a3, a4⟩ := genCallActuals_eff ctx args _ _ _ h1
  obtain ⟨b1, b2, b3, _, b5⟩ := bumpN_facts (countCalls args) { gs1 with offset := gs.offset }
  obtain ⟨c1', c2', c3', c4'⟩ := loadActuals_eff ctx args _ _ _ _ _ h2
  subst h4
  simp only at a1 a2 a3 a4 b1 b2 b3 b5 c1' c2' c3' c4'
  refine ⟨rfl, ?_, ?_, ?_⟩
  · simp only; omega
  · simp only; omega
  · intro e he
    apply c4'
    rw [b5]
    exact a4 e he

/-- **Frame accounting of statements.** -/
theorem genStmt_eff (ctx : Ctx) (s : AStmt) :
    ∀ (gs : GS) (code : Code) (gs' : GS), genStmt ctx s gs = .ok (code, gs') → Eff gs gs' := by
  apply genStmt.induct
    (motive_1 := fun s => ∀ (gs : GS) (code : Code) (gs' : GS), genStmt ctx s gs = .ok (code, gs') → Eff gs gs')
    (motive_2 := fun ss => ∀ (gs : GS) (code : Code) (gs' : GS), genStmts ctx ss gs = .ok (code, gs') → Eff gs gs')
  · intro gs code gs' h
    rw [genStmt_skip] at h
    simp only [Except.ok.injEq, Prod.mk.injEq] at h
    rw [← h.2]; exact Eff.refl _
  · intro gs code gs' h
    rw [genStmt_stop] at h
    simp only [Except.ok.injEq, Prod.mk.injEq] at h
    rw [← h.2]; exact Eff.refl _
  · intro e gs code gs' h
    obtain ⟨c, h1, _⟩ := genStmt_ret_inv _ _ _ _ _ h
    exact genExpr_eff ctx e .A _ _ _ h1
  -- if: the five paths through the four shapes
  · intro cond t e hs hc gs code gs' h
    rcases genStmt_ite_inv _ _ _ _ _ _ _ h with ⟨_, _, h1⟩ | ⟨h1, _⟩ | ⟨_, h1, _⟩ | ⟨h1, _⟩
    · rcases h1 with ⟨_, h2⟩ | ⟨_, _, h2⟩
      · exact genExpr_eff ctx cond .A _ _ _ h2
      · subst h2; exact Eff.refl _
    · rw [hs.1] at h1; simp at h1
    · rw [hs.2] at h1; simp at h1
    · rw [hs.1] at h1; simp at h1
  · intro cond t e hs hc gs code gs' h
    rcases genStmt_ite_inv _ _ _ _ _ _ _ h with ⟨_, _, h1⟩ | ⟨h1, _⟩ | ⟨_, h1, _⟩ | ⟨h1, _⟩
    · rcases h1 with ⟨_, h2⟩ | ⟨_, _, h2⟩
      · exact genExpr_eff ctx cond .A _ _ _ h2
      · subst h2; exact Eff.refl _
    · rw [hs.1] at h1; simp at h1
    · rw [hs.2] at h1; simp at h1
    · rw [hs.1] at h1; simp at h1
  · intro cond t e hs hes iht gs code gs' h
    rcases genStmt_ite_inv _ _ _ _ _ _ _ h with ⟨h0, h1, _⟩ | ⟨_, _, cc, gs1, ct, h2, h3, _⟩ | ⟨_, h1, _⟩ | ⟨_, h1, _⟩
    · exact absurd ⟨h0, h1⟩ hs
    · obtain ⟨a1, a2, a3, a4⟩ := genExpr_eff ctx cond .A _ _ _ h2
      obtain ⟨b1, b2, b3, b4⟩ := iht _ _ _ h3
      simp only at a1 a2 a3 a4
      exact ⟨by omega, by omega, by omega, fun x hx => b4 x (a4 x hx)⟩
    · rw [hes] at h1; simp at h1
    · rw [hes] at h1; simp at h1
  · intro cond t e hs hes hts ihe gs code gs' h
    rcases genStmt_ite_inv _ _ _ _ _ _ _ h with ⟨_, h1, _⟩ | ⟨_, h1, _⟩ | ⟨_, _, cc, gs1, ce, h2, h3, _⟩ | ⟨h1, _⟩
    · exact absurd h1 hes
    · exact absurd h1 hes
    · obtain ⟨a1, a2, a3, a4⟩ := genExpr_eff ctx cond .A _ _ _ h2
      obtain ⟨b1, b2, b3, b4⟩ := ihe _ _ _ h3
      simp only at a1 a2 a3 a4
      exact ⟨by omega, by omega, by omega, fun x hx => b4 x (a4 x hx)⟩
    · rw [hts] at h1; simp at h1
  · intro cond t e hs hes hts iht ihe gs code gs' h
    rcases genStmt_ite_inv _ _ _ _ _ _ _ h with ⟨h1, _⟩ | ⟨_, h1, _⟩ | ⟨h1, _⟩ | ⟨_, _, cc, gs1, ct, gs2, ce, h2, h3, h4, _⟩
    · exact absurd h1 hts
    · exact absurd h1 hes
    · exact absurd h1 hts
    · obtain ⟨a1, a2, a3, a4⟩ := genExpr_eff ctx cond .A _ _ _ h2
      obtain ⟨b1, b2, b3, b4⟩ := iht _ _ _ h3
      obtain ⟨c1, c2, c3, c4⟩ := ihe _ _ _ h4
      simp only at a1 a2 a3 a4
      exact ⟨by omega, by omega, by omega, fun x hx => c4 x (b4 x (a4 x hx))⟩
  -- while
  · intro cond body ihb gs code gs' h
    obtain ⟨cc, gs1, cb, h1, h2, _⟩ := genStmt_while_inv _ _ _ _ _ _ h
    obtain ⟨a1, a2, a3, a4⟩ := genExpr_eff ctx cond .A _ _ _ h1
    obtain ⟨b1, b2, b3, b4⟩ := ihb _ _ _ h2
    simp only at a1 a2 a3 a4
    exact ⟨by omega, by omega, by omega, fun x hx => b4 x (a4 x hx)⟩
  -- seq
  · intro ss ih gs code gs' h
    rw [genStmt_seq] at h
    exact ih _ _ _ h
  -- assign
  · intro n e gs code gs' h
    obtain ⟨c, sym, h1, _, _⟩ := genStmt_assign_inv _ _ _ _ _ _ h
    exact genExpr_eff ctx e .A _ _ _ h1
  -- assignSub
  · intro n i e gs code gs' h
    obtain ⟨ci, gs1, sym, ce, gs2, h1, _, h3, h4, _⟩ := genStmt_assignSub_inv _ _ _ _ _ _ _ h
    obtain ⟨a1, a2, a3, a4⟩ := genExpr_eff ctx i .A _ _ _ h1
    obtain ⟨b1, b2, b3, b4⟩ := genExpr_eff ctx e .A _ _ _ h3
    simp only at b1 b2 b3 b4
    subst h4
    exact ⟨by simp only; omega, by simp only; omega, by simp only; omega, fun x hx => b4 x (a4 x hx)⟩
  -- call
  · intro sys f args gs code gs' h
    rw [genStmt_call_eq] at h
    exact callSeq_eff ctx _ args _ _ _ h
  -- genStmts
  · intro gs code gs' h
    rw [genStmts_nil] at h
    simp only [Except.ok.injEq, Prod.mk.injEq] at h
    rw [← h.2]; exact Eff.refl _
  · intro s ss ih1 ih2 gs code gs' h
    obtain ⟨c, gs1, cs, h1, h2, _⟩ := genStmts_cons_inv _ _ _ _ _ _ h
    exact (ih1 _ _ _ h1).trans (ih2 _ _ _ h2)

end Hex.Xcmp
