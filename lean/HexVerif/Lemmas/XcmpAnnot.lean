import HexVerif.X.Sem
import HexVerif.Lemmas.XcmpExec
/-!
  The constant annotation as a function (`annotate`), its agreement with the reference semantics
  (a folded value is the value `X.eval` delivers whenever that is defined), and purity of
  call-free expressions in `X.Sem`.
-/
namespace Hex.C01s
open Hex Hex.X Hex.Xcmp

/-- Expressions of stage (2): literals (numbers, truth values, strings), names, subscripts, monadic and
    diadic operators. -/
def pureE : X.Expr → Bool
  | .num _ | .bool _ | .name _ | .str _ => true
  | .un _ e => pureE e
  | .bin _ l r => pureE l && pureE r
  | .sub _ i => pureE i
  | _ => false

/-- The system-call id `ConstProp` finds for a called name (`-1`: none, a user call). -/
def sysOf (ρ : String → Option Word) (f : String) : Int :=
  match ρ f with
  | some w => w.toInt
  | none => -1

mutual
/-- `ConstProp` on an expression, given the constant each name denotes (`lookupVal`); a call through
    the name of a constant is the system call with that number. -/
def annotate (ρ : String → Option Word) : X.Expr → AExpr
  | .num v => .num v (some v)
  | .bool b => .bool b (some (Xcmp.b2w b))
  | .name n => .name n (ρ n)
  | .un op e => .un op (annotate ρ e) ((annotate ρ e).const.map (foldUn op))
  | .bin op l r =>
    .bin op (annotate ρ l) (annotate ρ r)
      (match (annotate ρ l).const, (annotate ρ r).const with
       | some a, some b => some (foldBin op a b)
       | _, _ => none)
  | .str bs => .str bs
  | .sub n i => .sub n (annotate ρ i)
  | .call f args => .call (sysOf ρ f) f (annotateL ρ args)
  | .syscall id args => .call (sysIdOfNat id) "" (annotateL ρ args)
def annotateL (ρ : String → Option Word) : List X.Expr → List AExpr
  | [] => []
  | e :: es => annotate ρ e :: annotateL ρ es
end

theorem annotateL_map (ρ : String → Option Word) : ∀ (es : List X.Expr), annotateL ρ es = es.map (annotate ρ)
  | [] => by simp [annotateL]
  | e :: es => by simp [annotateL, annotateL_map ρ es]

/-- Code generation for a constant-annotated tree is `genConst` of its value. -/
theorem genExpr_annot_const (ctx : Xcmp.Ctx) (ρ : String → Option Word) (e : X.Expr) (c : CInt) (reg : Reg)
    (h : (annotate ρ e).const = some c) : genExpr ctx (annotate ρ e) reg = genConst reg c := by
  cases e with
  | num v => simp only [annotate, AExpr.const_num, Option.some.injEq] at h; subst h; simp [annotate, genExpr_num]
  | bool b => simp only [annotate, AExpr.const_bool, Option.some.injEq] at h; subst h; simp [annotate, genExpr_bool]
  | name n => simp only [annotate, AExpr.const_name] at h; simp only [annotate, h, genExpr_name_const]
  | un op e => simp only [annotate, AExpr.const_un] at h; simp only [annotate, h, genExpr_un_const]
  | bin op l r => simp only [annotate, AExpr.const_bin] at h; simp only [annotate, h, genExpr_bin_const]
  | str bs => simp [annotate] at h
  | sub n i => simp [annotate] at h
  | call f args => simp [annotate] at h
  | syscall id args => simp [annotate] at h

/-! ### Purity of call-free expressions -/

/-- The part of the state that names denote. -/
def SameVars (σ σ' : X.St) : Prop :=
  σ'.gvars = σ.gvars ∧ σ'.locals = σ.locals ∧ σ'.arrays = σ.arrays ∧ σ'.io = σ.io ∧ σ'.calls = σ.calls ∧
  σ'.depth = σ.depth

theorem SameVars.refl (σ : X.St) : SameVars σ σ := ⟨rfl, rfl, rfl, rfl, rfl, rfl⟩

theorem SameVars.trans {a b c : X.St} (h1 : SameVars a b) (h2 : SameVars b c) : SameVars a c := by
  obtain ⟨a1, a2, a3, a4, a5, a6⟩ := h1
  obtain ⟨b1, b2, b3, b4, b5, b6⟩ := h2
  exact ⟨by rw [b1, a1], by rw [b2, a2], by rw [b3, a3], by rw [b4, a4], by rw [b5, a5], by rw [b6, a6]⟩

theorem SameVars.symm {a b : X.St} (h : SameVars a b) : SameVars b a := by
  obtain ⟨a1, a2, a3, a4, a5, a6⟩ := h
  exact ⟨a1.symm, a2.symm, a3.symm, a4.symm, a5.symm, a6.symm⟩

theorem tick_same (xc : X.Ctx) (σ st : X.St) (h : X.tick xc σ = some st) : SameVars σ st := by
  unfold X.tick at h
  split at h
  · simp at h
  · simp only [Option.some.injEq] at h; subst h; exact ⟨rfl, rfl, rfl, rfl, rfl, rfl⟩

theorem readName_same (xc : X.Ctx) (σ σ' : X.St) (n : String) (h : SameVars σ σ') :
    X.readName xc σ' n = X.readName xc σ n := by
  unfold X.readName
  rw [h.1, h.2.1]

/-- `asInt` succeeded: the value was an integer. -/
theorem asInt_ok (what : String) (r : Res Val) (w : Word) (s : X.St) (h : asInt what r = .ok w s) :
    r = .ok (.int w) s := by
  unfold asInt Res.bind at h
  cases r with
  | ok v s' =>
    cases v with
    | int w' => simp only [Res.ok.injEq] at h; rw [h.1, h.2]
    | arr r => simp at h
  | exit c s' => simp at h
  | undef why => simp at h

theorem asBool_ok (what : String) (r : Res Val) (w : Word) (s : X.St) (h : asBool what r = .ok w s) :
    r = .ok (.int w) s ∧ X.isBool w = true := by
  unfold asBool Res.bind at h
  cases ha : asInt what r with
  | ok w' s' =>
    rw [ha] at h
    simp only at h
    by_cases hb : X.isBool w' = true
    · rw [if_pos hb] at h
      simp only [Res.ok.injEq] at h
      rw [← h.1, ← h.2]
      exact ⟨asInt_ok _ _ _ _ ha, hb⟩
    · rw [if_neg hb] at h; simp at h
  | exit c s' => rw [ha] at h; simp at h
  | undef why => rw [ha] at h; simp at h

theorem liftE_ok {α} (e : Except String α) (st : X.St) (a : α) (s : X.St) (h : liftE e st = .ok a s) :
    e = .ok a ∧ s = st := by
  unfold liftE at h
  cases e with
  | ok a' => simp only [Res.ok.injEq] at h; rw [h.1, h.2]; exact ⟨rfl, rfl⟩
  | error w => simp at h

theorem bind_ok_inv {α β} (r : Res α) (f : α → X.St → Res β) (b : β) (s : X.St) (h : r.bind f = .ok b s) :
    ∃ a s1, r = .ok a s1 ∧ f a s1 = .ok b s := by
  unfold Res.bind at h
  cases r with
  | ok a s1 => exact ⟨a, s1, rfl, h⟩
  | exit c s1 => simp at h
  | undef w => simp at h

/-- What a successful evaluation of each pure construct consists of. -/
theorem eval_num (fuel : Nat) (xc : X.Ctx) (v : Word) (σ : X.St) (r : Val) (σ' : X.St)
    (h : X.eval (fuel + 1) xc (.num v) σ = .ok r σ') : r = .int v ∧ X.tick xc σ = some σ' := by
  unfold X.eval at h
  cases ht : X.tick xc σ with
  | none => rw [ht] at h; simp at h
  | some st => rw [ht] at h; simp only [Res.ok.injEq] at h; rw [← h.1, ← h.2]; exact ⟨rfl, rfl⟩

theorem eval_bool (fuel : Nat) (xc : X.Ctx) (b : Bool) (σ : X.St) (r : Val) (σ' : X.St)
    (h : X.eval (fuel + 1) xc (.bool b) σ = .ok r σ') : r = .int (X.b2w b) ∧ X.tick xc σ = some σ' := by
  unfold X.eval at h
  cases ht : X.tick xc σ with
  | none => rw [ht] at h; simp at h
  | some st => rw [ht] at h; simp only [Res.ok.injEq] at h; rw [← h.1, ← h.2]; exact ⟨rfl, rfl⟩

theorem eval_name (fuel : Nat) (xc : X.Ctx) (n : String) (σ : X.St) (r : Val) (σ' : X.St)
    (h : X.eval (fuel + 1) xc (.name n) σ = .ok r σ') : X.tick xc σ = some σ' ∧ X.readName xc σ' n = .ok r := by
  unfold X.eval at h
  cases ht : X.tick xc σ with
  | none => rw [ht] at h; simp at h
  | some st =>
    rw [ht] at h
    simp only at h
    obtain ⟨h1, h2⟩ := liftE_ok _ _ _ _ h
    subst h2
    exact ⟨rfl, h1⟩

/-- A string literal: its packed words. -/
theorem eval_str (fuel : Nat) (xc : X.Ctx) (bs : List Byte) (σ : X.St) (r : Val) (σ' : X.St)
    (h : X.eval (fuel + 1) xc (.str bs) σ = .ok r σ') :
    ∃ ws, X.tick xc σ = some σ' ∧ X.packString bs = .ok ws ∧ r = .arr (.lit ws) := by
  unfold X.eval at h
  cases ht : X.tick xc σ with
  | none => rw [ht] at h; simp at h
  | some st =>
    rw [ht] at h
    simp only at h
    cases hp : X.packString bs with
    | error e => rw [hp] at h; simp [X.liftE, Res.bind] at h
    | ok ws =>
      rw [hp] at h
      simp only [X.liftE, Res.bind, Res.ok.injEq] at h
      exact ⟨ws, by rw [← h.2], rfl, h.1.symm⟩

/-- A subscript: the index, then the array the name denotes, then the element. -/
theorem eval_sub (fuel : Nat) (xc : X.Ctx) (n : String) (i : X.Expr) (σ : X.St) (r : Val) (σ' : X.St)
    (h : X.eval (fuel + 1) xc (.sub n i) σ = .ok r σ') :
    ∃ st iv ar w, X.tick xc σ = some st ∧ X.eval fuel xc i st = .ok (.int iv) σ' ∧
      X.arrayOf xc σ' n = .ok ar ∧ X.arrGet σ' ar iv = .ok w ∧ r = .int w := by
  unfold X.eval at h
  cases ht : X.tick xc σ with
  | none => rw [ht] at h; simp at h
  | some st =>
    rw [ht] at h
    simp only at h
    obtain ⟨iv, s1, h1, h2⟩ := bind_ok_inv _ _ _ _ h
    obtain ⟨h3, h4⟩ := liftE_ok _ _ _ _ h2
    subst h4
    cases ha : X.arrayOf xc σ' n with
    | error w => rw [ha] at h3; simp [bind, Except.bind] at h3
    | ok ar =>
      rw [ha] at h3
      simp only [bind, Except.bind] at h3
      cases hg : X.arrGet σ' ar iv with
      | error w => rw [hg] at h3; simp [bind, Except.bind] at h3
      | ok w =>
        rw [hg] at h3
        simp only [bind, Except.bind, pure, Except.pure, Except.ok.injEq] at h3
        exact ⟨st, iv, ar, w, rfl, asInt_ok _ _ _ _ h1, rfl, hg, h3.symm⟩

theorem eval_neg (fuel : Nat) (xc : X.Ctx) (a : X.Expr) (σ : X.St) (r : Val) (σ' : X.St)
    (h : X.eval (fuel + 1) xc (.un .neg a) σ = .ok r σ') :
    ∃ st w, X.tick xc σ = some st ∧ X.eval fuel xc a st = .ok (.int w) σ' ∧ r = .int (0 - w) := by
  unfold X.eval at h
  cases ht : X.tick xc σ with
  | none => rw [ht] at h; simp at h
  | some st =>
    rw [ht] at h
    simp only at h
    obtain ⟨w, s1, h1, h2⟩ := bind_ok_inv _ _ _ _ h
    obtain ⟨h3, h4⟩ := liftE_ok _ _ _ _ h2
    subst h4
    refine ⟨st, w, rfl, asInt_ok _ _ _ _ h1, ?_⟩
    unfold X.neg at h3
    split at h3
    · simp only [Except.map, Except.ok.injEq] at h3
      exact h3.symm
    · simp [Except.map] at h3

theorem eval_not (fuel : Nat) (xc : X.Ctx) (a : X.Expr) (σ : X.St) (r : Val) (σ' : X.St)
    (h : X.eval (fuel + 1) xc (.un .not a) σ = .ok r σ') :
    ∃ st w, X.tick xc σ = some st ∧ X.eval fuel xc a st = .ok (.int w) σ' ∧ X.isBool w = true ∧
      r = .int (X.b2w (w == 0)) := by
  unfold X.eval at h
  cases ht : X.tick xc σ with
  | none => rw [ht] at h; simp at h
  | some st =>
    rw [ht] at h
    simp only at h
    obtain ⟨w, s1, h1, h2⟩ := bind_ok_inv _ _ _ _ h
    simp only [Res.ok.injEq] at h2
    obtain ⟨h3, h4⟩ := asBool_ok _ _ _ _ h1
    rw [← h2.2]
    exact ⟨st, w, rfl, h3, h4, h2.1.symm⟩

theorem eval_and (fuel : Nat) (xc : X.Ctx) (l r : X.Expr) (σ : X.St) (v : Val) (σ' : X.St)
    (h : X.eval (fuel + 1) xc (.bin .and l r) σ = .ok v σ') :
    ∃ st a s1, X.tick xc σ = some st ∧ X.eval fuel xc l st = .ok (.int a) s1 ∧ X.isBool a = true ∧
      ((a = 0 ∧ v = .int 0 ∧ σ' = s1) ∨
       (a ≠ 0 ∧ ∃ b, X.eval fuel xc r s1 = .ok (.int b) σ' ∧ X.isBool b = true ∧ v = .int b)) := by
  unfold X.eval at h
  cases ht : X.tick xc σ with
  | none => rw [ht] at h; simp at h
  | some st =>
    rw [ht] at h
    simp only at h
    obtain ⟨a, s1, h1, h2⟩ := bind_ok_inv _ _ _ _ h
    obtain ⟨h3, h4⟩ := asBool_ok _ _ _ _ h1
    refine ⟨st, a, s1, rfl, h3, h4, ?_⟩
    by_cases ha : a = 0
    · subst ha
      simp only [BEq.rfl, if_true, Res.ok.injEq] at h2
      exact Or.inl ⟨rfl, h2.1.symm, h2.2.symm⟩
    · have : (a == 0) = false := by simpa using ha
      rw [this] at h2
      simp only [Bool.false_eq_true, if_false] at h2
      obtain ⟨b, s2, h5, h6⟩ := bind_ok_inv _ _ _ _ h2
      simp only [Res.ok.injEq] at h6
      obtain ⟨h7, h8⟩ := asBool_ok _ _ _ _ h5
      rw [← h6.2]
      exact Or.inr ⟨ha, b, h7, h8, h6.1.symm⟩

theorem eval_or (fuel : Nat) (xc : X.Ctx) (l r : X.Expr) (σ : X.St) (v : Val) (σ' : X.St)
    (h : X.eval (fuel + 1) xc (.bin .or l r) σ = .ok v σ') :
    ∃ st a s1, X.tick xc σ = some st ∧ X.eval fuel xc l st = .ok (.int a) s1 ∧ X.isBool a = true ∧
      ((a = 1 ∧ v = .int 1 ∧ σ' = s1) ∨
       (a ≠ 1 ∧ ∃ b, X.eval fuel xc r s1 = .ok (.int b) σ' ∧ X.isBool b = true ∧ v = .int b)) := by
  unfold X.eval at h
  cases ht : X.tick xc σ with
  | none => rw [ht] at h; simp at h
  | some st =>
    rw [ht] at h
    simp only at h
    obtain ⟨a, s1, h1, h2⟩ := bind_ok_inv _ _ _ _ h
    obtain ⟨h3, h4⟩ := asBool_ok _ _ _ _ h1
    refine ⟨st, a, s1, rfl, h3, h4, ?_⟩
    by_cases ha : a = 1
    · subst ha
      simp only [BEq.rfl, if_true, Res.ok.injEq] at h2
      exact Or.inl ⟨rfl, h2.1.symm, h2.2.symm⟩
    · have : (a == 1) = false := by simpa using ha
      rw [this] at h2
      simp only [Bool.false_eq_true, if_false] at h2
      obtain ⟨b, s2, h5, h6⟩ := bind_ok_inv _ _ _ _ h2
      simp only [Res.ok.injEq] at h6
      obtain ⟨h7, h8⟩ := asBool_ok _ _ _ _ h5
      rw [← h6.2]
      exact Or.inr ⟨ha, b, h7, h8, h6.1.symm⟩

/-- The arithmetic and relational operators. -/
def isArith : BinOp → Bool
  | .and | .or => false
  | _ => true

theorem eval_arith (fuel : Nat) (xc : X.Ctx) (op : BinOp) (l r : X.Expr) (σ : X.St) (v : Val) (σ' : X.St)
    (hop : isArith op = true) (h : X.eval (fuel + 1) xc (.bin op l r) σ = .ok v σ') :
    ∃ st a s1 b w, X.tick xc σ = some st ∧ X.eval fuel xc l st = .ok (.int a) s1 ∧
      X.eval fuel xc r s1 = .ok (.int b) σ' ∧ X.arith op a b = .ok w ∧ v = .int w := by
  unfold X.eval at h
  cases ht : X.tick xc σ with
  | none => rw [ht] at h; simp at h
  | some st =>
    rw [ht] at h
    cases op <;> simp only [isArith, Bool.false_eq_true] at hop <;> simp only at h <;>
    ( split at h
      · simp at h
      · obtain ⟨a, s1, h1, h2⟩ := bind_ok_inv _ _ _ _ h
        obtain ⟨b, s2, h3, h4⟩ := bind_ok_inv _ _ _ _ h2
        obtain ⟨h5, h6⟩ := liftE_ok _ _ _ _ h4
        subst h6
        cases har : X.arith _ a b with
        | error e => rw [har] at h5; simp [Except.map] at h5
        | ok w =>
          rw [har] at h5
          simp only [Except.map, Except.ok.injEq] at h5
          exact ⟨st, a, s1, b, w, rfl, asInt_ok _ _ _ _ h1, asInt_ok _ _ _ _ h3, har, h5.symm⟩ )

/-- Call-free expressions do not change what names denote. -/
theorem eval_pure (xc : X.Ctx) : ∀ (fuel : Nat) (e : X.Expr) (σ : X.St) (v : Val) (σ' : X.St),
    pureE e = true → X.eval fuel xc e σ = .ok v σ' → SameVars σ σ' := by
  intro fuel
  induction fuel with
  | zero => intro e σ v σ' _ h; unfold X.eval at h; simp at h
  | succ fuel ih =>
    intro e σ v σ' hp h
    cases e with
    | num x => exact tick_same _ _ _ (eval_num _ _ _ _ _ _ h).2
    | bool b => exact tick_same _ _ _ (eval_bool _ _ _ _ _ _ h).2
    | name n => exact tick_same _ _ _ (eval_name _ _ _ _ _ _ h).1
    | un op a =>
      simp only [pureE] at hp
      cases op with
      | neg =>
        obtain ⟨st, w, h1, h2, h3⟩ := eval_neg _ _ _ _ _ _ h
        exact (tick_same _ _ _ h1).trans (ih _ _ _ _ hp h2)
      | not =>
        obtain ⟨st, w, h1, h2, _, h3⟩ := eval_not _ _ _ _ _ _ h
        exact (tick_same _ _ _ h1).trans (ih _ _ _ _ hp h2)
    | bin op l r =>
      simp only [pureE, Bool.and_eq_true] at hp
      by_cases hop : isArith op = true
      · obtain ⟨st, a, s1, b, w, h1, h2, h3, _, h5⟩ := eval_arith _ _ _ _ _ _ _ _ hop h
        exact ((tick_same _ _ _ h1).trans (ih _ _ _ _ hp.1 h2)).trans (ih _ _ _ _ hp.2 h3)
      · cases op <;> simp only [isArith, not_true_eq_false] at hop
        · obtain ⟨st, a, s1, h1, h2, _, h4⟩ := eval_and _ _ _ _ _ _ _ h
          rcases h4 with ⟨_, hv, hs⟩ | ⟨_, b, h5, _, hv⟩
          · subst hs; exact (tick_same _ _ _ h1).trans (ih _ _ _ _ hp.1 h2)
          · exact ((tick_same _ _ _ h1).trans (ih _ _ _ _ hp.1 h2)).trans (ih _ _ _ _ hp.2 h5)
        · obtain ⟨st, a, s1, h1, h2, _, h4⟩ := eval_or _ _ _ _ _ _ _ h
          rcases h4 with ⟨_, hv, hs⟩ | ⟨_, b, h5, _, hv⟩
          · subst hs; exact (tick_same _ _ _ h1).trans (ih _ _ _ _ hp.1 h2)
          · exact ((tick_same _ _ _ h1).trans (ih _ _ _ _ hp.1 h2)).trans (ih _ _ _ _ hp.2 h5)
    | str bs => obtain ⟨_, h1, _⟩ := eval_str _ _ _ _ _ _ h; exact tick_same _ _ _ h1
    | sub n i =>
      simp only [pureE] at hp
      obtain ⟨st, iv, ar, w, h1, h2, _⟩ := eval_sub _ _ _ _ _ _ _ h
      exact (tick_same _ _ _ h1).trans (ih _ _ _ _ hp h2)
    | call f args => simp [pureE] at hp
    | syscall id args => simp [pureE] at hp

/-! ### Folding agrees with the reference semantics where that is defined -/

theorem b2w_eq (b : Bool) : Xcmp.b2w b = X.b2w b := rfl

theorem arith_fold (op : BinOp) (a b w : Word) (h : X.arith op a b = .ok w) : foldBin op a b = w := by
  unfold X.arith at h
  cases op <;> simp only at h
  · split at h <;> simp only [Except.ok.injEq, reduceCtorEq] at h; exact h
  · split at h <;> simp only [Except.ok.injEq, reduceCtorEq] at h; exact h
  all_goals first
    | (split at h <;> simp only [Except.ok.injEq, reduceCtorEq] at h; simp only [foldBin, b2w_eq]; exact h)
    | simp at h

/-- The names the annotation treats as constants really denote those constants. -/
def ValsOk (ρ : String → Option Word) (xc : X.Ctx) (σ : X.St) : Prop :=
  ∀ n w, ρ n = some w → X.readName xc σ n = .ok (.int w)

theorem ValsOk.same {ρ : String → Option Word} {xc : X.Ctx} {σ σ' : X.St} (h : ValsOk ρ xc σ) (hs : SameVars σ σ') :
    ValsOk ρ xc σ' := by
  intro n w hn
  rw [readName_same xc σ σ' n hs]
  exact h n w hn

theorem isBool_cases (w : Word) (h : X.isBool w = true) : w = 0 ∨ w = 1 := by
  unfold X.isBool at h
  simpa using h

/-- **A folded constant is the value the reference semantics gives** (when it gives one). -/
theorem annot_sound (ρ : String → Option Word) (xc : X.Ctx) : ∀ (fuel : Nat) (e : X.Expr) (σ : X.St) (v : Word) (σ' : X.St) (c : CInt),
    pureE e = true → ValsOk ρ xc σ → X.eval fuel xc e σ = .ok (.int v) σ' → (annotate ρ e).const = some c → v = c := by
  intro fuel
  induction fuel with
  | zero => intro e σ v σ' c _ _ h; unfold X.eval at h; simp at h
  | succ fuel ih =>
    intro e σ v σ' c hp hv h hc
    cases e with
    | num x =>
      obtain ⟨h1, _⟩ := eval_num _ _ _ _ _ _ h
      simp only [annotate, AExpr.const_num, Option.some.injEq] at hc
      simp only [Val.int.injEq] at h1
      rw [h1, hc]
    | bool b =>
      obtain ⟨h1, _⟩ := eval_bool _ _ _ _ _ _ h
      simp only [annotate, AExpr.const_bool, Option.some.injEq] at hc
      simp only [Val.int.injEq] at h1
      rw [h1, ← hc, b2w_eq]
    | name n =>
      obtain ⟨h1, h2⟩ := eval_name _ _ _ _ _ _ h
      simp only [annotate, AExpr.const_name] at hc
      have := (hv.same (tick_same _ _ _ h1)) n c hc
      rw [h2] at this
      simp only [Except.ok.injEq, Val.int.injEq] at this
      exact this
    | un op a =>
      simp only [pureE] at hp
      simp only [annotate, AExpr.const_un] at hc
      cases hca : (annotate ρ a).const with
      | none => rw [hca] at hc; simp at hc
      | some c1 =>
        rw [hca] at hc
        simp only [Option.map_some, Option.some.injEq] at hc
        cases op with
        | neg =>
          obtain ⟨st, w, h1, h2, h3⟩ := eval_neg _ _ _ _ _ _ h
          have := ih a st w σ' c1 hp (hv.same (tick_same _ _ _ h1)) h2 hca
          simp only [Val.int.injEq] at h3
          rw [h3, this, ← hc]; rfl
        | not =>
          obtain ⟨st, w, h1, h2, _, h3⟩ := eval_not _ _ _ _ _ _ h
          have := ih a st w σ' c1 hp (hv.same (tick_same _ _ _ h1)) h2 hca
          simp only [Val.int.injEq] at h3
          rw [h3, this, ← hc]
          simp only [foldUn, X.b2w]
          by_cases hz : c1 = 0 <;> simp [hz]
    | bin op l r =>
      simp only [pureE, Bool.and_eq_true] at hp
      simp only [annotate, AExpr.const_bin] at hc
      cases hcl : (annotate ρ l).const with
      | none => rw [hcl] at hc; simp at hc
      | some cl =>
        cases hcr : (annotate ρ r).const with
        | none => rw [hcl, hcr] at hc; simp at hc
        | some cr =>
          rw [hcl, hcr] at hc
          simp only [Option.some.injEq] at hc
          by_cases hop : isArith op = true
          · obtain ⟨st, a, s1, b, w, h1, h2, h3, h4, h5⟩ := eval_arith _ _ _ _ _ _ _ _ hop h
            have hs1 := tick_same _ _ _ h1
            have ea := ih l st a s1 cl hp.1 (hv.same hs1) h2 hcl
            have eb := ih r s1 b σ' cr hp.2 (hv.same (hs1.trans (eval_pure xc _ _ _ _ _ hp.1 h2))) h3 hcr
            simp only [Val.int.injEq] at h5
            rw [h5, ← hc, ← ea, ← eb]
            exact (arith_fold op a b w h4).symm
          · cases op <;> simp only [isArith, not_true_eq_false] at hop
            · obtain ⟨st, a, s1, h1, h2, hba, h4⟩ := eval_and _ _ _ _ _ _ _ h
              have hs1 := tick_same _ _ _ h1
              have ea := ih l st a s1 cl hp.1 (hv.same hs1) h2 hcl
              rcases h4 with ⟨ha0, hvv, _⟩ | ⟨ha0, b, h5, hbb, hvv⟩
              · simp only [Val.int.injEq] at hvv
                rw [hvv, ← hc, ← ea, ha0]; simp [foldBin]
              · have eb := ih r s1 b σ' cr hp.2 (hv.same (hs1.trans (eval_pure xc _ _ _ _ _ hp.1 h2))) h5 hcr
                simp only [Val.int.injEq] at hvv
                rw [hvv, ← hc, ← ea, ← eb]
                simp only [foldBin, if_neg ha0]
                rcases isBool_cases b hbb with hb | hb <;> simp [hb]
            · obtain ⟨st, a, s1, h1, h2, hba, h4⟩ := eval_or _ _ _ _ _ _ _ h
              have hs1 := tick_same _ _ _ h1
              have ea := ih l st a s1 cl hp.1 (hv.same hs1) h2 hcl
              rcases h4 with ⟨ha1, hvv, _⟩ | ⟨ha1, b, h5, hbb, hvv⟩
              · simp only [Val.int.injEq] at hvv
                rw [hvv, ← hc, ← ea, ha1]; simp [foldBin]
              · have eb := ih r s1 b σ' cr hp.2 (hv.same (hs1.trans (eval_pure xc _ _ _ _ _ hp.1 h2))) h5 hcr
                simp only [Val.int.injEq] at hvv
                have ha0 : a = 0 := by rcases isBool_cases a hba with h0 | h0 <;> simp_all
                rw [hvv, ← hc, ← ea, ← eb, ha0]
                simp only [foldBin]
                rcases isBool_cases b hbb with hb | hb <;> simp [hb]
    | str bs => simp [annotate] at hc
    | sub n i => simp [annotate] at hc
    | call f args => simp [pureE] at hp
    | syscall id args => simp [pureE] at hp

end Hex.C01s
