import HexVerif.Lemmas.XcmpIAm
/-!
  Layout facts for the whole-program theorem: words beyond the image hold no code; the word of
  a DATA directive holds its value when the image is loaded at boot and holds no code.
-/
namespace Hex.IAm
open Hex Hex.Isa Hex.Asm Hex.Am

/-- No instruction byte lies at or beyond the end of the image. -/
theorem isCode_beyond (ds : List Dir) (img : Image) (F : Facts ds img) (hlen : img.bytes.length % 4 = 0)
    (w : Nat) (hw : img.bytes.length / 4 ≤ w) : (envOf ds img).isCode w = false := by
  simp only [envOf, isCodeWord]
  rw [Bool.eq_false_iff]
  intro h
  rw [List.any_eq_true] at h
  obtain ⟨e, he, hc⟩ := h
  have hb := F.bound e (by unfold ofImage; exact he)
  have hp := F.pos e (by unfold ofImage; exact he)
  simp only [decide_eq_true_eq] at hc
  have : (e.start + e.size - 1) / 4 < img.bytes.length / 4 := by omega
  omega

/-! ### Packing words -/

theorem byteOfWord_bit (w : Word) (k r : Nat) (hr : r < 8) : (byteOfWord w k)[r] = w.getLsbD (k * 8 + r) := by
  unfold byteOfWord
  simp [hr]

theorem word_ext_bytes (w w' : Word) (h : ∀ k, k < 4 → byteOfWord w k = byteOfWord w' k) : w = w' := by
  apply BitVec.eq_of_getLsbD_eq
  intro i hi
  have hk : i / 8 < 4 := by omega
  have hr : i % 8 < 8 := by omega
  have e1 := byteOfWord_bit w (i / 8) (i % 8) hr
  have e2 := byteOfWord_bit w' (i / 8) (i % 8) hr
  rw [h (i / 8) hk] at e1
  rw [e1] at e2
  have : i / 8 * 8 + i % 8 = i := by omega
  rw [this] at e2
  exact e2

theorem wordOfBytes_bytes (w : Word) :
    wordOfBytes (byteOfWord w 0) (byteOfWord w 1) (byteOfWord w 2) (byteOfWord w 3) = w := by
  apply word_ext_bytes
  intro k hk
  have : k = 0 ∨ k = 1 ∨ k = 2 ∨ k = 3 := by omega
  rcases this with rfl | rfl | rfl | rfl
  · exact byte0 _ _ _ _
  · exact byte1 _ _ _ _
  · exact byte2 _ _ _ _
  · exact byte3 _ _ _ _

/-! ### DATA words -/

theorem expected_start_ge : ∀ (ds : List Dir) (lens : List Nat) (vals : List I32) (pos : Nat) (j : Nat) (f : Found),
    (expected ds lens vals pos)[j]? = some f → pos ≤ f.start := by
  intro ds
  induction ds with
  | nil => intro lens vals pos j f h; simp [expected] at h
  | cons d rest ih =>
    intro lens vals pos j f h
    rw [expected_cons] at h
    have hnp : pos ≤ nextPos d lens pos := by
      cases d <;> simp [nextPos] <;> (try have := align4_ge pos) <;> omega
    cases j with
    | zero =>
      simp only [List.getElem?_cons_zero, Option.some.injEq] at h
      subst h
      cases d <;> simp only [headFound] <;> (try split) <;> (try have := align4_ge pos) <;> omega
    | succ j' =>
      simp only [List.getElem?_cons_succ] at h
      have := ih _ _ _ j' f h
      omega

/-- A DATA word lies clear of every instruction. -/
theorem data_clear : ∀ (ds : List Dir) (lens : List Nat) (vals : List I32) (pos : Nat) (j : Nat) (v : I32) (f : Found),
    AllOk ds lens vals → ds[j]? = some (.data v) → (expected ds lens vals pos)[j]? = some f →
    f.start % 4 = 0 ∧
    ∀ e ∈ entries ds (expected ds lens vals pos), e.start + e.size ≤ f.start ∨ f.start + 4 ≤ e.start := by
  intro ds
  induction ds with
  | nil => intro lens vals pos j v f _ h; simp at h
  | cons d0 rest ih =>
    intro lens vals pos j v f hok hd hf
    obtain ⟨hd0, hrest⟩ := hok
    rw [expected_cons] at hf ⊢
    cases j with
    | zero =>
      simp only [List.getElem?_cons_zero, Option.some.injEq] at hd hf
      subst hd; subst hf
      refine ⟨align4_mod pos, ?_⟩
      intro e he
      simp only [entries, isInstr, Bool.false_eq_true, if_false] at he
      right
      have := entries_start_ge rest _ _ _ e he
      simpa [headFound, nextPos] using this
    | succ j' =>
      simp only [List.getElem?_cons_succ] at hd hf
      obtain ⟨h4, hcl⟩ := ih lens.tail vals.tail (nextPos d0 lens pos) j' v f hrest hd hf
      refine ⟨h4, ?_⟩
      intro e he
      unfold entries at he
      by_cases hi0 : isInstr d0 = true
      · rw [if_pos hi0] at he
        simp only [List.mem_cons] at he
        rcases he with rfl | he
        · left
          obtain ⟨_, h2, h3⟩ := head_facts d0 rest lens vals pos hd0 hi0
          have := expected_start_ge rest _ _ _ j' f hf
          simp only
          omega
        · exact hcl e he
      · rw [if_neg hi0] at he
        exact hcl e he

/-- Where the walk found a DATA word, the image holds its four bytes. -/
theorem walk_data_at : ∀ (dirs : List Dir) (bs : List Byte) (pos : Nat) (fs : List Found) (tail : List Byte) (e : Nat),
    walk dirs bs pos = some (fs, tail, e) →
    ∀ (j : Nat) (v : I32) (f : Found), dirs[j]? = some (Dir.data v) → fs[j]? = some f →
      ∃ k, f.start = pos + k ∧ k + 4 ≤ bs.length ∧ (bs.drop k).take 4 = dataBytes v := by
  intro dirs
  induction dirs with
  | nil => intro bs pos fs tail e _ j v f h; simp at h
  | cons d rest ih =>
    intro bs pos fs tail e h j v f hd hf
    cases d with
    | label kind name =>
      unfold walk at h
      simp only at h
      cases hw : walk rest bs pos with
      | none => rw [hw] at h; simp at h
      | some r =>
        obtain ⟨fs', tail', e'⟩ := r
        rw [hw] at h
        simp only [Option.some.injEq, Prod.mk.injEq] at h
        obtain ⟨h1, _, _⟩ := h
        subst h1
        cases j with
        | zero => simp at hd
        | succ j' =>
          simp only [List.getElem?_cons_succ] at hd hf
          exact ih bs pos fs' tail' e' hw j' v f hd hf
    | data v0 =>
      unfold walk at h
      simp only at h
      split at h
      · rename_i hc
        cases hw : walk rest (bs.drop (align4 pos - pos + 4)) (pos + (align4 pos - pos) + 4) with
        | none => rw [hw] at h; simp at h
        | some r =>
          obtain ⟨fs', tail', e'⟩ := r
          rw [hw] at h
          simp only [Option.some.injEq, Prod.mk.injEq] at h
          obtain ⟨h1, _, _⟩ := h
          subst h1
          cases j with
          | zero =>
            simp only [List.getElem?_cons_zero, Option.some.injEq] at hd hf
            have hv : v0 = v := by injection hd
            subst hv; subst hf
            exact ⟨align4 pos - pos, rfl, by omega, hc.2.1⟩
          | succ j' =>
            simp only [List.getElem?_cons_succ] at hd hf
            obtain ⟨k, hk1, hk2, hk3⟩ := ih _ _ fs' tail' e' hw j' v f hd hf
            refine ⟨align4 pos - pos + 4 + k, by omega, ?_, ?_⟩
            · simp only [List.length_drop] at hk2; omega
            · rw [List.drop_drop] at hk3; exact hk3
      · simp at h
    | imm opc v0 =>
      unfold walk at h
      simp only at h
      cases hdec : decodeInstr bs with
      | none => rw [hdec] at h; simp at h
      | some r =>
        obtain ⟨opc', o, n, bs1⟩ := r
        rw [hdec] at h
        simp only at h
        split at h
        · cases hw : walk rest bs1 (pos + n) with
          | none => rw [hw] at h; simp at h
          | some r =>
            obtain ⟨fs', tail', e'⟩ := r
            rw [hw] at h
            simp only [Option.some.injEq, Prod.mk.injEq] at h
            obtain ⟨h1, _, _⟩ := h
            subst h1
            obtain ⟨hn, hb1, _⟩ := decodeInstr_take bs opc' o n bs1 hdec
            subst hb1
            cases j with
            | zero => simp at hd
            | succ j' =>
              simp only [List.getElem?_cons_succ] at hd hf
              obtain ⟨k, hk1, hk2, hk3⟩ := ih _ _ fs' tail' e' hw j' v f hd hf
              refine ⟨n + k, by omega, ?_, ?_⟩
              · simp only [List.length_drop] at hk2; omega
              · rw [List.drop_drop] at hk3; exact hk3
        · simp at h
    | ref opc name rel =>
      unfold walk at h
      simp only at h
      cases hdec : decodeInstr bs with
      | none => rw [hdec] at h; simp at h
      | some r =>
        obtain ⟨opc', o, n, bs1⟩ := r
        rw [hdec] at h
        simp only at h
        split at h
        · cases hw : walk rest bs1 (pos + n) with
          | none => rw [hw] at h; simp at h
          | some r =>
            obtain ⟨fs', tail', e'⟩ := r
            rw [hw] at h
            simp only [Option.some.injEq, Prod.mk.injEq] at h
            obtain ⟨h1, _, _⟩ := h
            subst h1
            obtain ⟨hn, hb1, _⟩ := decodeInstr_take bs opc' o n bs1 hdec
            subst hb1
            cases j with
            | zero => simp at hd
            | succ j' =>
              simp only [List.getElem?_cons_succ] at hd hf
              obtain ⟨k, hk1, hk2, hk3⟩ := ih _ _ fs' tail' e' hw j' v f hd hf
              refine ⟨n + k, by omega, ?_, ?_⟩
              · simp only [List.length_drop] at hk2; omega
              · rw [List.drop_drop] at hk3; exact hk3
        · simp at h
    | opr k0 =>
      unfold walk at h
      simp only at h
      cases bs with
      | nil => simp at h
      | cons b bs1 =>
        simp only at h
        split at h
        · cases hw : walk rest bs1 (pos + 1) with
          | none => rw [hw] at h; simp at h
          | some r =>
            obtain ⟨fs', tail', e'⟩ := r
            rw [hw] at h
            simp only [Option.some.injEq, Prod.mk.injEq] at h
            obtain ⟨h1, _, _⟩ := h
            subst h1
            cases j with
            | zero => simp at hd
            | succ j' =>
              simp only [List.getElem?_cons_succ] at hd hf
              obtain ⟨k, hk1, hk2, hk3⟩ := ih _ _ fs' tail' e' hw j' v f hd hf
              refine ⟨1 + k, by omega, by simp; omega, ?_⟩
              have : (b :: bs1).drop (1 + k) = bs1.drop k := by rw [Nat.add_comm]; simp
              rw [this]; exact hk3
        · simp at h

/-- **A DATA word at boot**: word-aligned, inside the image, holding its value, and not code. -/
theorem boot_data (ds : List Dir) (img : Image) (g : Good ds img) (F : Facts ds img) (j : Nat) (v : I32)
    (hd : ds[j]? = some (.data v)) :
    (envOf ds img).addr j % 4 = 0 ∧ (envOf ds img).addr j + 4 ≤ img.bytes.length ∧
    (Am.boot img).mem.read ((envOf ds img).addr j / 4) = BitVec.ofInt 32 v ∧
    (envOf ds img).isCode ((envOf ds img).addr j / 4) = false := by
  obtain ⟨tail, e, hwalk⟩ := F.hwalk
  have hlenfs := expected_length ds img.resolved.lens img.resolved.vals 0
  have hj : j < ds.length := (List.getElem?_eq_some_iff.mp hd).1
  obtain ⟨f, hf⟩ : ∃ f, (expected ds img.resolved.lens img.resolved.vals 0)[j]? = some f := by
    rw [List.getElem?_eq_getElem (by omega)]; exact ⟨_, rfl⟩
  have haddr : (envOf ds img).addr j = f.start := addr_of_found j f hf
  obtain ⟨k, hk1, hk2, hk3⟩ := walk_data_at ds img.bytes 0 _ _ _ hwalk j v f hd hf
  obtain ⟨h4, hclear⟩ := data_clear ds _ _ 0 j v f F.allOk hd hf
  have hk : f.start = k := by omega
  rw [hk] at h4 hclear
  rw [haddr, hk]
  have hfit := g.hfit
  refine ⟨h4, hk2, ?_, ?_⟩
  · -- the word in memory
    unfold Am.boot Isa.boot
    simp only
    have hwl := wordsOfBytes_length img.bytes
    rw [loadWords_read _ (by rw [hwl]; omega) _ (by rw [hwl]; omega)]
    apply word_ext_bytes
    intro r hr
    have hb := wordsOfBytes_byte img.bytes (k + r) (by omega)
    have e1 : (k + r) / 4 = k / 4 := by omega
    have e2 : (k + r) % 4 = r := by omega
    rw [e1, e2] at hb
    rw [hb]
    have hget : img.bytes[k + r]'(by omega) = (dataBytes v)[r]'(by simp [dataBytes]; omega) := by
      have : ((img.bytes.drop k).take 4)[r]? = (dataBytes v)[r]? := by rw [hk3]
      rw [List.getElem?_take_of_lt (by omega), List.getElem?_drop] at this
      rw [List.getElem?_eq_getElem (by omega), List.getElem?_eq_getElem (by simp [dataBytes]; omega)] at this
      simpa using this
    rw [hget]
    have : r = 0 ∨ r = 1 ∨ r = 2 ∨ r = 3 := by omega
    rcases this with rfl | rfl | rfl | rfl <;> simp [dataBytes]
  · simp only [envOf, isCodeWord]
    rw [Bool.eq_false_iff]
    intro h
    rw [List.any_eq_true] at h
    obtain ⟨en, hen, hc⟩ := h
    have hp := F.pos en (by unfold ofImage; exact hen)
    simp only [decide_eq_true_eq] at hc
    rcases hclear en hen with h1 | h1
    · have : (en.start + en.size - 1) / 4 < k / 4 := by omega
      omega
    · have : k / 4 < en.start / 4 := by omega
      omega

end Hex.IAm
