import HexVerif.Lemmas.XcmpCall
import HexVerif.Lemmas.XcmpStage3
import HexVerif.Lemmas.XcmpPExpr
import HexVerif.Lemmas.XcmpActualsP
/-!
  Stage (4), definitions: the program context `GCtx` (every procedure with its code position and
  generation facts), the procedure context `KOf` of an activation as a function of its stack
  pointer, the scope-independent representation `GRep` of the global state, the facts `GCtx.OK`
  the whole-program check has to establish, and the specification `CallSpec` of a callee.

  Class: `val` formals, `var` declarations, no local or formal named like a global; user calls in
  the positions `p(args)`, `v := f(args)`, `return f(args)` with call-free actuals.
-/
namespace Hex.C01s
open Hex Hex.X Hex.Xcmp Hex.IAm Hex.Asm

/-- A call of one of the procedures `ps` with call-free actuals. -/
def callE (ps : List String) : X.Expr → Bool
  | .call f args => ps.contains f && args.all pureE
  | _ => false

mutual
/-- The statements of stage (4). -/
def okS4 (ps : List String) : X.Stmt → Bool
  | .skip | .stop => true
  | .ret e => pureE e || callE ps e
  | .ite c t e => pureE c && okS4 ps t && okS4 ps e
  | .while c b => pureE c && okS4 ps b
  | .seq ss => okS4L ps ss
  | .assign _ e => pureE e || callE ps e
  | .syscall id args => decide (id < 3) && args.all pureE
  | .call f args => ps.contains f && args.all pureE
  | .assignSub _ i e => pureE i && pureE e
def okS4L (ps : List String) : List X.Stmt → Bool
  | [] => true
  | s :: ss => okS4 ps s && okS4L ps ss
end

/-- Expressions with one call (`callOk` decides which calls) under monadic operators and under
    arithmetic / relational operators whose other operand is a constant. -/
def ipE (ρ : String → Option Word) (callOk : X.Expr → Bool) : X.Expr → Bool
  | .un _ e => ipE ρ callOk e
  | .bin op l r => isArith op && ((isConstL ρ l && ipE ρ callOk r) || (ipE ρ callOk l && isConstL ρ r))
  | .call g args => callOk (.call g args)
  | .syscall id args => callOk (.syscall id args)
  | _ => false

/-- `2(args)`, or a call through a constant whose value is 2, with call-free actuals. -/
def sysE (ρ : String → Option Word) : X.Expr → Bool
  | .syscall id args => decide (id = 2) && args.all pureE
  | .call g args => decide (ρ g = some 2) && args.all pureE
  | _ => false

mutual
/-- The class of expressions with ONE path of calls of any callee: a call of a user function
    (`ps`) whose actuals are call-free, or (class v3, `pk`) have calls of pure functions only, or are
    constants except one that is again of this class; system call 2 with call-free actuals; monadic
    operators, and arithmetic / relational operators whose other operand is a constant, over it. -/
def ipE5 (pk : Bool) (ps imp : List String) (ρ : String → Option Word) : X.Expr → Bool
  | .un _ e => ipE5 pk ps imp ρ e
  | .bin op l r => isArith op && ((isConstL ρ l && ipE5 pk ps imp ρ r) || (ipE5 pk ps imp ρ l && isConstL ρ r))
  | .call g args =>
    (ps.contains g && (args.all pureE || (pk && args.all (ppE ps imp)) || oneImp5 pk ps imp ρ args)) ||
    (decide (ρ g = some 2) && args.all pureE)
  | .syscall id args => decide (id = 2) && args.all pureE
  | _ => false
/-- Exactly one actual is of the class `ipE5`, all the others are constants. -/
def oneImp5 (pk : Bool) (ps imp : List String) (ρ : String → Option Word) : List X.Expr → Bool
  | [] => false
  | a :: as => (ipE5 pk ps imp ρ a && as.all (isConstL ρ)) || (isConstL ρ a && oneImp5 pk ps imp ρ as)
end

/-- The actuals of a call: call-free; or (class v3) with calls of pure functions; or constants
    except one actual of the class `ipE5`. -/
def argsOk5 (pk : Bool) (ps imp : List String) (ρ : String → Option Word) (args : List X.Expr) : Bool :=
  args.all pureE || (pk && args.all (ppE ps imp)) || oneImp5 pk ps imp ρ args

/-- A call of one of the procedures `ps` with such actuals. -/
def callE5 (pk : Bool) (ps imp : List String) (ρ : String → Option Word) : X.Expr → Bool
  | .call f args => ps.contains f && argsOk5 pk ps imp ρ args
  | _ => false

theorem callE_callE5 (pk : Bool) (ps imp : List String) (ρ : String → Option Word) (e : X.Expr) (h : callE ps e = true) :
    callE5 pk ps imp ρ e = true := by
  cases e <;> simp [callE] at h
  simp only [callE5, argsOk5, Bool.and_eq_true, Bool.or_eq_true, List.all_eq_true, List.contains_iff_mem]
  exact ⟨h.1, Or.inl (Or.inl h.2)⟩

/-- A right-hand side: call-free, one call, (class v3, `pk`) operators over calls of pure
    functions, or an expression of the class `ipE5`. -/
def rhs5 (pk : Bool) (ps imp : List String) (ρ : String → Option Word) (e : X.Expr) : Bool :=
  pureE e || callE5 pk ps imp ρ e || (pk && ppE ps imp e) || ipE5 pk ps imp ρ e

/-- A condition: call-free, (class v3) operators over calls of pure functions, or an expression of
    the class `ipE5`. -/
def cond5 (pk : Bool) (ps imp : List String) (ρ : String → Option Word) (e : X.Expr) : Bool :=
  pureE e || (pk && ppE ps imp e) || ipE5 pk ps imp ρ e

/-- The actuals of a system call: call-free, (class v3) with calls of pure functions, or constants
    except one actual of the class `ipE5`. -/
def sysArgs5 (pk : Bool) (ps imp : List String) (ρ : String → Option Word) (args : List X.Expr) : Bool :=
  args.all pureE || (pk && args.all (ppE ps imp)) || oneImp5 pk ps imp ρ args

/-- A name the constants `ρ` make a system-call number. -/
def valSys (ρ : String → Option Word) (f : String) : Bool :=
  match ρ f with
  | some w => decide (w.toNat < 3)
  | none => false

mutual
/-- The statements of stage (4), with calls of pure functions in operands if `pk`; `ρ` are the
    global constants (a call through a constant is a system call). -/
def okS5 (pk : Bool) (ps imp : List String) (ρ : String → Option Word) (loc : String → Bool) : X.Stmt → Bool
  | .skip | .stop => true
  | .ret e => rhs5 pk ps imp ρ e
  | .ite c t e => cond5 pk ps imp ρ c && okS5 pk ps imp ρ loc t && okS5 pk ps imp ρ loc e
  | .while c b => cond5 pk ps imp ρ c && okS5 pk ps imp ρ loc b
  | .seq ss => okS5L pk ps imp ρ loc ss
  | .assign _ e => rhs5 pk ps imp ρ e
  | .syscall id args => decide (id < 3) && sysArgs5 pk ps imp ρ args
  | .call f args => (ps.contains f && argsOk5 pk ps imp ρ args) || (valSys ρ f && sysArgs5 pk ps imp ρ args)
  | .assignSub n i e =>
    ((pureE i || (pk && ppE ps imp i)) && (pureE e || (pk && ppE ps imp e))) ||
    (ipE5 pk ps imp ρ i && isConstL ρ e) || (isConstL ρ i && ipE5 pk ps imp ρ e && loc n)
def okS5L (pk : Bool) (ps imp : List String) (ρ : String → Option Word) (loc : String → Bool) : List X.Stmt → Bool
  | [] => true
  | s :: ss => okS5 pk ps imp ρ loc s && okS5L pk ps imp ρ loc ss
end

mutual
theorem okS4_okS5 (pk : Bool) (ps imp : List String) (ρ : String → Option Word) (loc : String → Bool) : (s : X.Stmt) → okS4 ps s = true → okS5 pk ps imp ρ loc s = true
  | .skip, _ => rfl
  | .stop, _ => rfl
  | .ret e, h => by
    simp only [okS4, Bool.or_eq_true] at h
    simp only [okS5, rhs5, Bool.or_eq_true]
    exact Or.inl (Or.inl (h.imp id (callE_callE5 pk ps imp ρ e)))
  | .assign _ e, h => by
    simp only [okS4, Bool.or_eq_true] at h
    simp only [okS5, rhs5, Bool.or_eq_true]
    exact Or.inl (Or.inl (h.imp id (callE_callE5 pk ps imp ρ e)))
  | .ite c t e, h => by
    simp only [okS4, Bool.and_eq_true] at h
    simp only [okS5, cond5, Bool.and_eq_true, Bool.or_eq_true]
    exact ⟨⟨Or.inl (Or.inl h.1.1), okS4_okS5 pk ps imp ρ loc t h.1.2⟩, okS4_okS5 pk ps imp ρ loc e h.2⟩
  | .while c b, h => by
    simp only [okS4, Bool.and_eq_true] at h
    simp only [okS5, cond5, Bool.and_eq_true, Bool.or_eq_true]
    exact ⟨Or.inl (Or.inl h.1), okS4_okS5 pk ps imp ρ loc b h.2⟩
  | .seq ss, h => by
    simp only [okS4] at h
    simp only [okS5]
    exact okS4L_okS5L pk ps imp ρ loc ss h
  | .syscall _ _, h => by
    simp only [okS4, Bool.and_eq_true] at h
    simp only [okS5, sysArgs5, Bool.and_eq_true, Bool.or_eq_true]
    exact ⟨h.1, Or.inl (Or.inl h.2)⟩
  | .call _ _, h => by
    simp only [okS4, Bool.and_eq_true] at h
    simp only [okS5, argsOk5, Bool.and_eq_true, Bool.or_eq_true]
    exact Or.inl ⟨h.1, Or.inl (Or.inl h.2)⟩
  | .assignSub _ _ _, h => by
    simp only [okS4, Bool.and_eq_true] at h
    simp only [okS5, Bool.and_eq_true, Bool.or_eq_true]
    exact Or.inl (Or.inl ⟨Or.inl h.1, Or.inl h.2⟩)
theorem okS4L_okS5L (pk : Bool) (ps imp : List String) (ρ : String → Option Word) (loc : String → Bool) : (ss : List X.Stmt) → okS4L ps ss = true → okS5L pk ps imp ρ loc ss = true
  | [], _ => rfl
  | s :: ss, h => by
    simp only [okS4L, Bool.and_eq_true] at h
    simp only [okS5L, Bool.and_eq_true]
    exact ⟨okS4_okS5 pk ps imp ρ loc s h.1, okS4L_okS5L pk ps imp ρ loc ss h.2⟩
end

/-- `val` and `array` formals. -/
def isVAFormal : X.Formal → Bool
  | .val _ => true
  | .array _ => true
  | _ => false

/-- One procedure of the program: source, frame index, position of its prologue, and the
    generation of its body. -/
structure PInfo where
  p : X.Proc
  idx : Nat
  iPro : Nat
  code : Code
  gs1 : GS
  gs2 : GS

def PInfo.po (pi : PInfo) : Nat := if pi.p.isFunc then FB_PARAM_OFFSET_FUNC else FB_PARAM_OFFSET_PROC
def PInfo.kind (pi : PInfo) : LabelKind := if pi.p.isFunc then .func else .proc

structure GCtx where
  env : Env
  cg : CGOut
  xc : X.Ctx
  consts : List (Int × String)
  procs : List PInfo
  gnames : List String                 -- the global variables
  pnames : List String                 -- the procedure names
  gloc : String → Option Nat           -- their word addresses
  spv : Nat                            -- initial stack pointer
  smax : Nat                           -- largest frame
  lo : Nat                             -- lowest stack pointer of any activation
  pk : Bool := false                   -- class v3: calls of pure functions in operands
  abase : Nat → Nat := fun _ => 0      -- word address of the global array with the given id
  asize : Nat → Nat := fun _ => 0      -- its length
  rho : String → Option Word := fun _ => none   -- the global `val` constants
  strs : List (String × List Byte) := []          -- the string literals, with their labels

def GCtx.S (G : GCtx) (pi : PInfo) : Nat := (frameOf G.cg pi.idx).size
def GCtx.xl (G : GCtx) (pi : PInfo) : String := (frameOf G.cg pi.idx).exitLabel
def GCtx.iBody (G : GCtx) (pi : PInfo) : Nat := pi.iPro + (proDirs pi.kind pi.p.name (G.S pi)).length
def GCtx.iEpi (G : GCtx) (pi : PInfo) : Nat := G.iBody pi + (lowerCode G.cg pi.code).length
def GCtx.epi (G : GCtx) (pi : PInfo) : List Dir :=
  if pi.p.isFunc then epiFuncDirs (G.xl pi) (G.S pi) else epiProcDirs (G.xl pi) (G.S pi)
def GCtx.ctxOf (G : GCtx) (pi : PInfo) : Xcmp.Ctx :=
  { tbl := G.cg.tbl, scope := pi.p.name, frame := pi.idx, exitLabel := G.xl pi }

def located (sym : Symbol) : Bool := sym.type = .var || sym.type = .array || (sym.type = .val && !sym.isValDecl)

/-- Where the name `n`, seen from procedure `pi` running with stack pointer `sp`, lives: the word
    of its label (globals), or `sp` plus a constant (formals and locals). -/
def GCtx.locOf (G : GCtx) (pi : PInfo) (sp : Nat) (n : String) : Option Nat :=
  match G.cg.tbl.lookup pi.p.name n with
  | .ok sym =>
    if located sym then
      if sym.scope = "" then (labelIdx G.env.ds sym.globalLabel).map fun j => G.env.addr j / 4
      else if 0 ≤ (G.S pi : Int) - 1 + sym.stackOffset then some (sp + ((G.S pi : Int) - 1 + sym.stackOffset).toNat)
      else none
    else none
  | .error _ => none

/-- The two kinds of location. -/
theorem GCtx.locOf_cases (G : GCtx) (pi : PInfo) (sp : Nat) (n : String) (a : Nat) (h : G.locOf pi sp n = some a) :
    (∃ sym, G.cg.tbl.lookup pi.p.name n = .ok sym ∧ sym.scope = "" ∧ ∀ sp', G.locOf pi sp' n = some a) ∨
    (∃ sym, ∃ c : Nat, G.cg.tbl.lookup pi.p.name n = .ok sym ∧ sym.scope ≠ "" ∧
      (c : Int) = (G.S pi : Int) - 1 + sym.stackOffset ∧ a = sp + c ∧ ∀ sp', G.locOf pi sp' n = some (sp' + c)) := by
  unfold GCtx.locOf at h
  cases hl : G.cg.tbl.lookup pi.p.name n with
  | error e => rw [hl] at h; simp at h
  | ok sym =>
    rw [hl] at h
    simp only at h
    by_cases hloc : located sym = true
    · rw [if_pos hloc] at h
      by_cases hs : sym.scope = ""
      · rw [if_pos hs] at h
        refine Or.inl ⟨sym, rfl, hs, fun sp' => ?_⟩
        unfold GCtx.locOf
        rw [hl]
        simp only [hloc, hs, if_true]
        exact h
      · rw [if_neg hs] at h
        by_cases hc : 0 ≤ (G.S pi : Int) - 1 + sym.stackOffset
        · rw [if_pos hc] at h
          simp only [Option.some.injEq] at h
          refine Or.inr ⟨sym, ((G.S pi : Int) - 1 + sym.stackOffset).toNat, rfl, hs, Int.toNat_of_nonneg hc, h.symm, fun sp' => ?_⟩
          unfold GCtx.locOf
          rw [hl]
          simp only [hloc, hs, if_true, if_false, hc]
        · rw [if_neg hc] at h; simp at h
    · rw [if_neg hloc] at h; simp at h

/-- The name has a place (a variable, an array, a formal) in the procedure. -/
def GCtx.isLoc (G : GCtx) (pi : PInfo) (n : String) : Bool := (G.locOf pi G.lo n).isSome

/-- The context of an activation of `pi` with stack pointer `sp` at nesting depth `dep`. -/
def KOf (G : GCtx) (pi : PInfo) (sp dep : Nat) (hi : Nat → Word) : PCtx :=
  { env := G.env, out := G.cg, ctx := G.ctxOf pi, xc := G.xc, ρ := G.rho, sp := sp,
    loc := G.locOf pi sp, consts := G.consts, nlocals := pi.p.locals.length, hi := hi,
    gnames := G.gnames ++ G.pnames, dep := dep, abase := G.abase, asize := G.asize, strs := G.strs }

/-- The word that stands for a value (`VRepOf`), in the program context. -/
abbrev GCtx.VRep (G : GCtx) : Val → Word → Prop := VRepOf G.env G.abase G.strs

/-- The pool of the whole program. -/
def GCtx.items (G : GCtx) : List PoolItem :=
  (G.consts.map fun e => PoolItem.const e.1 e.2) ++ (G.strs.map fun e => PoolItem.str e.1 e.2)

/-- The same program context without its arrays (for facts that do not depend on them). -/
def GCtx.noArr (G : GCtx) : GCtx := { G with asize := fun _ => 0, strs := [] }

theorem KOf_S (G : GCtx) (pi : PInfo) (sp dep : Nat) (hi : Nat → Word) : (KOf G pi sp dep hi).S = G.S pi := rfl

/-- The word `a` is an element of a global array. -/
def GCtx.inArr (G : GCtx) (a : Nat) : Prop := ∃ id, G.abase id ≤ a ∧ a < G.abase id + G.asize id

/-- The global state in memory, independently of any scope. -/
structure GRep (G : GCtx) (σ : X.St) (mem : Mem) : Prop where
  gvars : ∀ n w, G.xc.genv.lookup n = some .var → σ.gvars.lookup n = some (some w) → ∃ a, G.gloc n = some a ∧ mem.read a = w
  aptr : ∀ n id, G.xc.genv.lookup n = some (.array id) →
    ∃ a, G.gloc n = some a ∧ mem.read a = BitVec.ofNat 32 (G.abase id)
  acells : ∀ id cells, σ.arrays[id]? = some cells → cells.size = G.asize id ∧
    ∀ idx w, cells[idx]? = some (some w) → mem.read (G.abase id + idx) = w
  consts : ∀ v l j k, (v, l) ∈ G.consts → G.env.ds[j]? = some (.label k l) → mem.read (G.env.addr j / 4) = IAm.W v
  strs : ∀ l bs ws j k, (l, bs) ∈ G.strs → X.packString bs = .ok ws → G.env.ds[j]? = some (.label k l) →
    ∀ idx (h : idx < ws.length), mem.read (G.env.addr j / 4 + idx) = ws[idx]

def PInfo.lnames (pi : PInfo) : List String := pi.p.formals.map X.Formal.name ++ pi.p.locals.map X.Decl.name

/-- What the whole-program check establishes. -/
structure GCtx.OK (G : GCtx) : Prop where
  wfs : ∀ pi ∈ G.procs, ∀ sp dep hi, G.lo ≤ sp → sp + G.S pi + pi.po + pi.p.formals.length ≤ G.spv + 1 → (KOf G pi sp dep hi).WFS (G.iEpi pi)
  nodup : (labelNames G.env.ds).Nodup
  at_pro : ∀ pi ∈ G.procs, At G.env.ds pi.iPro (proDirs pi.kind pi.p.name (G.S pi))
  at_body : ∀ pi ∈ G.procs, At G.env.ds (G.iBody pi) (lowerCode G.cg pi.code)
  at_epi : ∀ pi ∈ G.procs, At G.env.ds (G.iEpi pi) (G.epi pi)
  gen : ∀ pi ∈ G.procs, genStmt (G.ctxOf pi) (optStmt (annotS G.rho pi.p.body)) pi.gs1 = .ok (pi.code, pi.gs2)
  size_ok : ∀ pi ∈ G.procs, pi.gs2.size ≤ G.S pi
  nl_ok : ∀ pi ∈ G.procs, pi.p.locals.length ≤ pi.gs1.offset
  consts_ok : ∀ pi ∈ G.procs, ∀ x ∈ pi.gs2.items, x ∈ G.items
  smax_ok : ∀ pi ∈ G.procs, G.S pi ≤ G.smax
  body_ok : ∀ pi ∈ G.procs, okS5 G.pk G.pnames G.xc.impure G.rho (G.isLoc pi) pi.p.body = true
  pure_ok : G.pk = true → PureOk G.xc
  formals_ok : ∀ pi ∈ G.procs, pi.p.formals.all isVAFormal = true
  locals_var : ∀ pi ∈ G.procs, pi.p.locals.all isVarDecl = true
  resolve : ∀ f p, G.xc.genv.lookup f = some (.proc p) → ∃ pi ∈ G.procs, pi.p = p ∧ p.name = f
  callee_sym : ∀ pi ∈ G.procs, ∀ pj ∈ G.procs, ∃ sym, G.cg.tbl.lookup pi.p.name pj.p.name = .ok sym ∧
    (sym.type = .func ↔ pj.p.isFunc = true)
  genv_vars : ∀ n, G.xc.genv.lookup n = some .var → n ∈ G.gnames
  genv_arrs : ∀ n id, G.xc.genv.lookup n = some (.array id) → n ∈ G.gnames
  gnames_genv : ∀ n ∈ G.gnames, G.xc.genv.lookup n = some .var ∨ ∃ id, G.xc.genv.lookup n = some (.array id)
  rho_ok : ∀ n w, G.xc.genv.lookup n = some (.val w) ↔ G.rho n = some w
  pnames_ok : ∀ f p, G.xc.genv.lookup f = some (.proc p) → f ∈ G.pnames
  pnames_mem : ∀ f ∈ G.pnames, ∃ p, G.xc.genv.lookup f = some (.proc p)
  low_global : ∀ pi ∈ G.procs, ∀ sp n a, G.lo ≤ sp → G.locOf pi sp n = some a → a < sp → n ∈ G.gnames
  gloc_ok : ∀ pi ∈ G.procs, ∀ sp, ∀ n ∈ G.gnames, G.locOf pi sp n = G.gloc n
  gloc_lo : ∀ n ∈ G.gnames, ∀ a, G.gloc n = some a → a < G.lo
  formal_loc : ∀ pi ∈ G.procs, ∀ sp k f, pi.p.formals[k]? = some f →
    G.locOf pi sp f.name = some (sp + G.S pi + pi.po + k)
  local_loc : ∀ pi ∈ G.procs, ∀ sp k d, pi.p.locals[k]? = some d →
    k < G.S pi ∧ G.locOf pi sp d.name = some (sp + G.S pi - 1 - k)
  noshadow : ∀ pi ∈ G.procs, ∀ n ∈ pi.lnames, G.xc.genv.lookup n = none
  gloc_ge : ∀ n ∈ G.gnames, ∀ a, G.gloc n = some a → 2 ≤ a
  gloc_some : ∀ n ∈ G.gnames, ∃ a, G.gloc n = some a
  const_ge : ∀ v l j k, (v, l) ∈ G.consts → G.env.ds[j]? = some (.label k l) → 2 ≤ G.env.addr j / 4
  const_data : ∀ v l j k, (v, l) ∈ G.consts → G.env.ds[j]? = some (.label k l) → G.env.ds[j + 1]? = some (.data v)
  code_lo : ∀ w, G.lo ≤ w → G.env.isCode w = false
  code_1 : G.env.isCode 1 = false
  top : G.spv + 2 < memWords
  lo_ge : 2 ≤ G.lo
  lo_def : G.lo + X.maxDepth * G.smax ≤ G.spv
  addr_lt : ∀ j k n, G.env.ds[j]? = some (.label k n) → G.env.addr j < 2 ^ 32
  const_lo : ∀ v l j k, (v, l) ∈ G.consts → G.env.ds[j]? = some (.label k l) → G.env.addr j / 4 < G.lo
  arr_hi : ∀ id, G.asize id ≠ 0 → G.spv + 2 < G.abase id ∧ G.abase id + G.asize id ≤ memWords
  str_ok : ∀ l bs ws, (l, bs) ∈ G.strs → X.packString bs = .ok ws →
    ∃ j k, G.env.ds[j]? = some (.label k l) ∧ G.env.addr j % 4 = 0 ∧ 2 ≤ G.env.addr j / 4 ∧
      G.env.addr j / 4 + ws.length ≤ G.lo
  arr_disj : ∀ id1 id2, id1 ≠ id2 → G.asize id1 ≠ 0 → G.asize id2 ≠ 0 →
    G.abase id1 + G.asize id1 ≤ G.abase id2 ∨ G.abase id2 + G.asize id2 ≤ G.abase id1

/-- **Specification of a callee**, independent of the caller: entered at its prologue with the
    link address in areg, the caller's stack pointer `spc` in word 1 and the actuals in the
    caller's outgoing slots, it returns to the link label with word 1 restored, the caller's
    frame intact except `spc[0]` (link) and `spc[1]` (the value of a function), and the global
    state of the reference semantics in memory; or it terminates the program. -/
def CallSpec (G : GCtx) (fuel : Nat) : Prop :=
  ∀ pi ∈ G.procs, ∀ (vs : List Val) (st : X.St) (lnk b : Word) (mem : Mem) (spc : Nat) (k : Nat) (kind : LabelKind) (n : String),
    GRep G st mem → mem.read 1 = BitVec.ofNat 32 spc →
    (∀ j (hj : j < vs.length), G.VRep vs[j] (mem.read (spc + pi.po + j))) →
    G.spv ≤ spc + st.depth * G.smax → spc + pi.po + vs.length ≤ G.spv + 1 → G.lo ≤ spc →
    G.env.ds[k]? = some (.label kind n) → G.env.addr k = lnk.toNat →
    match X.callUser fuel G.xc pi.p vs st with
    | .ok res s' => ∃ a' b' mem', Steps G.env (cfg pi.iPro lnk b mem) st.io (cfg k a' b' mem') s'.io ∧
        GRep G s' mem' ∧ mem'.read 1 = BitVec.ofNat 32 spc ∧
        (∀ x, spc < x → x ≠ spc + 1 → ¬ G.inArr x → mem'.read x = mem.read x) ∧
        (∀ w, res = some w → mem'.read (spc + 1) = w) ∧
        (pi.p.isFunc = false → mem'.read (spc + 1) = mem.read (spc + 1))
    | .exit code s' => ∃ c, Steps G.env (cfg pi.iPro lnk b mem) st.io c s'.io ∧ Exit G.env c s'.io code
    | .undef _ => True

end Hex.C01s
