import HexVerif.Am.Machine
/-!
  Stage (1) of C01: the abstract machine `Am` is refined by the ISA on the bytes.

  * `chain_steps`: a prefix chain in memory that decodes (by `Asm.decodeChain`, the ISA's own
    PFIX/NFIX rules) to `(opc, operand)` is executed by `size` ISA steps exactly like one
    `dispatch` of `opc` with the full operand.
  * `step_refines`: one `Am` step = `size` ISA steps.
  * `run_refines`: whole runs, by induction.
-/
namespace Hex.Am
open Hex Hex.Isa

/-- `n` ISA steps (stopping early at exit/undefined). -/
def stepN : Nat → St → IOSt → Outcome
  | 0, s, io => .running s io
  | n + 1, s, io =>
    match Isa.step s io with
    | .running s' io' => stepN n s' io'
    | out => out

theorem stepN_one (s : St) (io : IOSt) : stepN 1 s io = Isa.step s io := by
  unfold stepN
  cases h : Isa.step s io <;> simp [stepN]

theorem step_of_fetch (s : St) (io : IOSt) (b : Byte) (h : Isa.fetch s.mem s.pc = some b) :
    Isa.step s io =
      Isa.dispatch { s with pc := s.pc + 1, o := s.o ||| (b &&& 0xF).zeroExtend 32 } io (b >>> 4).toNat := by
  unfold Isa.step
  rw [h]

theorem dispatch_pfix (s : St) (io : IOSt) : Isa.dispatch s io 0xE = .running { s with o := s.o <<< 4 } io := rfl
theorem dispatch_nfix (s : St) (io : IOSt) :
    Isa.dispatch s io 0xF = .running { s with o := 0xFFFFFF00 ||| (s.o <<< 4) } io := rfl

theorem ofNat_succ (pc : Word) (n : Nat) : pc + 1 + BitVec.ofNat 32 n = pc + BitVec.ofNat 32 (n + 1) := by
  rw [BitVec.add_assoc]
  congr 1
  rw [BitVec.add_comm]
  simp [BitVec.ofNat_add]

/-- **Prefix chain = one dispatch.** -/
theorem chain_steps : ∀ (bs : List Byte) (fuel : Nat) (n : Nat) (s : St) (io : IOSt) (opc : Nat) (operand : Word),
    fetchList s.mem s.pc bs.length = some bs →
    Asm.decodeChain fuel s.o n bs = some (opc, operand, n + bs.length, []) →
    stepN bs.length s io
      = Isa.dispatch { s with pc := s.pc + BitVec.ofNat 32 bs.length, o := operand } io opc := by
  intro bs
  induction bs with
  | nil => intro fuel n s io opc operand _ h; simp [Asm.decodeChain] at h
  | cons b rest ih =>
    intro fuel n s io opc operand hf hd
    simp only [List.length_cons, fetchList] at hf
    cases hb : Isa.fetch s.mem s.pc with
    | none => rw [hb] at hf; simp at hf
    | some b' =>
      rw [hb] at hf
      cases hr : fetchList s.mem (s.pc + 1) rest.length with
      | none => rw [hr] at hf; simp at hf
      | some rest' =>
        rw [hr] at hf
        simp only [Option.some.injEq, List.cons.injEq] at hf
        obtain ⟨hbb, hrr⟩ := hf
        subst hbb; subst hrr
        simp only [List.length_cons]
        unfold stepN
        rw [step_of_fetch s io b' hb]
        unfold Asm.decodeChain at hd
        simp only at hd
        by_cases hE : (b' >>> 4).toNat = 0xE
        · rw [if_pos hE] at hd
          cases fuel with
          | zero => simp at hd
          | succ f =>
            simp only at hd
            rw [hE, dispatch_pfix]
            simp only
            have := ih f (n + 1) { s with pc := s.pc + 1, o := (s.o ||| (b' &&& 0xF).zeroExtend 32) <<< 4 } io opc operand
              (by simpa using hr) (by simpa [Nat.add_assoc, Nat.add_comm 1] using hd)
            rw [this]
            simp only [ofNat_succ]
        · rw [if_neg hE] at hd
          by_cases hF : (b' >>> 4).toNat = 0xF
          · rw [if_pos hF] at hd
            cases fuel with
            | zero => simp at hd
            | succ f =>
              simp only at hd
              rw [hF, dispatch_nfix]
              simp only
              have := ih f (n + 1) { s with pc := s.pc + 1, o := 0xFFFFFF00 ||| ((s.o ||| (b' &&& 0xF).zeroExtend 32) <<< 4) } io opc operand
                (by simpa using hr) (by simpa [Nat.add_assoc, Nat.add_comm 1] using hd)
              rw [this]
              simp only [ofNat_succ]
          · rw [if_neg hF] at hd
            simp only [Option.some.injEq, Prod.mk.injEq] at hd
            obtain ⟨h1, h2, h3, h4⟩ := hd
            subst h4
            subst h1; subst h2
            simp only [List.length_nil, Nat.zero_add]
            have h01 : (1 : Word) = BitVec.ofNat 32 1 := rfl
            rw [← h01]
            cases hdis : Isa.dispatch { s with pc := s.pc + 1, o := s.o ||| (b' &&& 0xF).zeroExtend 32 } io (b' >>> 4).toNat <;> simp [stepN]

/-- The opcode a chain delivers is not a prefix. -/
theorem decodeChain_opc : ∀ (bs : List Byte) (fuel : Nat) (o : Word) (n : Nat) (r : Nat × Word × Nat × List Byte),
    Asm.decodeChain fuel o n bs = some r → r.1 ≠ 0xE ∧ r.1 ≠ 0xF := by
  intro bs
  induction bs with
  | nil => intro fuel o n r h; simp [Asm.decodeChain] at h
  | cons b rest ih =>
    intro fuel o n r h
    unfold Asm.decodeChain at h
    simp only at h
    by_cases hE : (b >>> 4).toNat = 0xE
    · rw [if_pos hE] at h
      cases fuel with
      | zero => simp at h
      | succ f => exact ih f _ _ r h
    · rw [if_neg hE] at h
      by_cases hF : (b >>> 4).toNat = 0xF
      · rw [if_pos hF] at h
        cases fuel with
        | zero => simp at h
        | succ f => exact ih f _ _ r h
      · rw [if_neg hF] at h
        simp only [Option.some.injEq] at h
        subst h
        exact ⟨hE, hF⟩

theorem svc_o (s : St) (io : IOSt) (s' : St) (io' : IOSt) (h : Isa.svc s io = .running s' io') : s'.o = 0 := by
  unfold Isa.svc at h
  dsimp only at h
  split at h
  · split at h <;> simp at h
  · split at h
    · split at h
      · simp only [Outcome.running.injEq] at h; rw [← h.1]
      · simp at h
    · split at h
      · split at h
        · split at h
          · simp only [Outcome.running.injEq] at h; rw [← h.1]
          · simp at h
        · simp at h
      · simp at h

/-- After any instruction proper the operand register is clear. -/
theorem dispatch_o (s : St) (io : IOSt) (opc : Nat) (s' : St) (io' : IOSt)
    (hE : opc ≠ 0xE) (hF : opc ≠ 0xF) (h : Isa.dispatch s io opc = .running s' io') : s'.o = 0 := by
  unfold Isa.dispatch at h
  dsimp only at h
  split at h
  case h_13 => exact absurd rfl hE
  case h_14 => exact absurd rfl hF
  case h_15 =>
    split at h
    · simp only [Outcome.running.injEq] at h; rw [← h.1]
    · split at h
      · simp only [Outcome.running.injEq] at h; rw [← h.1]
      · split at h
        · simp only [Outcome.running.injEq] at h; rw [← h.1]
        · split at h
          · exact svc_o _ _ _ _ h
          · simp at h
  all_goals first
    | (simp only [Outcome.running.injEq] at h; rw [← h.1])
    | (split at h <;> first | (simp only [Outcome.running.injEq] at h; rw [← h.1]) | simp at h)
    | simp at h

theorem loaded_instrAt (P : Prog) (mem : Mem) (pc : Nat) (e : Entry)
    (hl : loaded P mem = true) (h : instrAt P pc = some e) : decodesAt mem e = true ∧ e.start = pc := by
  unfold instrAt at h
  have hm := List.mem_of_find?_eq_some h
  have hp := List.find?_some h
  unfold loaded at hl
  rw [List.all_eq_true] at hl
  exact ⟨hl e hm, by simpa using hp⟩

/-- **One `Am` step is `size` ISA steps** (from a clear operand register, with the program
    intact in memory), and it re-establishes both conditions. -/
theorem step_refines (P : Prog) (s : St) (io : IOSt) (out : Outcome)
    (hl : loaded P s.mem = true) (ho : s.o = 0) (h : step P s io = .ok out) :
    ∃ n, 0 < n ∧ stepN n s io = out ∧
      (∀ s' io', out = .running s' io' → loaded P s'.mem = true ∧ s'.o = 0) := by
  unfold step at h
  cases hi : instrAt P s.pc.toNat with
  | none => rw [hi] at h; simp at h
  | some e =>
    rw [hi] at h
    simp only at h
    obtain ⟨hdec, hstart⟩ := loaded_instrAt P s.mem _ e hl hi
    unfold decodesAt at hdec
    cases hfl : fetchList s.mem (BitVec.ofNat 32 e.start) e.size with
    | none => rw [hfl] at hdec; simp at hdec
    | some bs =>
      rw [hfl] at hdec
      simp only [beq_iff_eq] at hdec
      have hpc : BitVec.ofNat 32 e.start = s.pc := by rw [hstart]; simp
      rw [hpc] at hfl
      -- the chain consumed exactly bs.length = e.size bytes
      have hlen : bs.length = e.size := by
        clear hdec h
        generalize s.pc = pc at hfl
        generalize e.size = n at hfl
        induction n generalizing pc bs with
        | zero => simp [fetchList] at hfl; subst hfl; rfl
        | succ k ih =>
          simp only [fetchList] at hfl
          cases h1 : Isa.fetch s.mem pc with
          | none => rw [h1] at hfl; simp at hfl
          | some b =>
            rw [h1] at hfl
            cases h2 : fetchList s.mem (pc + 1) k with
            | none => rw [h2] at hfl; simp at hfl
            | some r =>
              rw [h2] at hfl
              simp only [Option.some.injEq] at hfl
              subst hfl
              simp [ih _ _ h2]
      have hopc := decodeChain_opc bs 8 0 0 _ hdec
      simp only at hopc
      have hchain := chain_steps bs 8 0 s io e.opc e.operand (by rw [hlen]; exact hfl)
        (by rw [ho]; unfold Asm.decodeInstr at hdec; rw [hdec, hlen]; simp)
      rw [hlen] at hchain
      have hpos : 0 < e.size := by
        rw [← hlen]
        cases bs with
        | nil => simp [Asm.decodeInstr, Asm.decodeChain] at hdec
        | cons _ _ => simp
      refine ⟨e.size, hpos, ?_⟩
      cases hd : Isa.dispatch { s with pc := s.pc + BitVec.ofNat 32 e.size, o := e.operand } io e.opc with
      | running s' io' =>
        rw [hd] at h hchain
        simp only at h
        by_cases hl' : loaded P s'.mem = true
        · rw [if_pos hl'] at h
          simp only [Except.ok.injEq] at h
          subst h
          refine ⟨hchain, ?_⟩
          intro s'' io'' heq
          simp only [Outcome.running.injEq] at heq
          obtain ⟨h1, _⟩ := heq
          subst h1
          exact ⟨hl', dispatch_o _ _ _ _ _ hopc.1 hopc.2 hd⟩
        · rw [if_neg hl'] at h; simp at h
      | exited c s' io' =>
        rw [hd] at h hchain
        simp only [Except.ok.injEq] at h
        subst h
        exact ⟨hchain, by intro _ _ h; simp at h⟩
      | undef w =>
        rw [hd] at h hchain
        simp only [Except.ok.injEq] at h
        subst h
        exact ⟨hchain, by intro _ _ h; simp at h⟩

/-! ### Whole runs -/

theorem run_of_stepN_running : ∀ (n m : Nat) (s : St) (io : IOSt) (j : Nat) (s' : St) (io' : IOSt),
    stepN n s io = .running s' io' → Isa.run (n + m) s io j = Isa.run m s' io' (j + n) := by
  intro n
  induction n with
  | zero => intro m s io j s' io' h; simp [stepN] at h; obtain ⟨h1, h2⟩ := h; subst h1; subst h2; simp
  | succ k ih =>
    intro m s io j s' io' h
    unfold stepN at h
    have : k + 1 + m = (k + m) + 1 := by omega
    rw [this]
    conv => lhs; unfold Isa.run
    cases hs : Isa.step s io with
    | running s1 io1 =>
      rw [hs] at h
      simp only at h ⊢
      rw [ih m s1 io1 (j + 1) s' io' h]
      have : j + 1 + k = j + (k + 1) := by omega
      rw [this]
    | exited c s1 io1 => rw [hs] at h; simp at h
    | undef w => rw [hs] at h; simp at h

theorem run_of_stepN_exited : ∀ (n m : Nat) (s : St) (io : IOSt) (j : Nat) (c : Word) (s' : St) (io' : IOSt),
    stepN n s io = .exited c s' io' → ∃ j', Isa.run (n + m) s io j = .exited c j' s' io' := by
  intro n
  induction n with
  | zero => intro m s io j c s' io' h; simp [stepN] at h
  | succ k ih =>
    intro m s io j c s' io' h
    unfold stepN at h
    have : k + 1 + m = (k + m) + 1 := by omega
    rw [this]
    unfold Isa.run
    cases hs : Isa.step s io with
    | running s1 io1 =>
      rw [hs] at h
      simp only at h ⊢
      exact ih m s1 io1 (j + 1) c s' io' h
    | exited c1 s1 io1 =>
      rw [hs] at h
      simp only [Outcome.exited.injEq] at h
      obtain ⟨h1, h2, h3⟩ := h
      subst h1; subst h2; subst h3
      exact ⟨_, rfl⟩
    | undef w => rw [hs] at h; simp at h

theorem run_of_stepN_undef : ∀ (n m : Nat) (s : St) (io : IOSt) (j : Nat) (w : Undef),
    stepN n s io = .undef w → ∃ j', Isa.run (n + m) s io j = .undef w j' := by
  intro n
  induction n with
  | zero => intro m s io j w h; simp [stepN] at h
  | succ k ih =>
    intro m s io j w h
    unfold stepN at h
    have : k + 1 + m = (k + m) + 1 := by omega
    rw [this]
    unfold Isa.run
    cases hs : Isa.step s io with
    | running s1 io1 =>
      rw [hs] at h
      simp only at h ⊢
      exact ih m s1 io1 (j + 1) w h
    | exited c1 s1 io1 => rw [hs] at h; simp at h
    | undef w1 =>
      rw [hs] at h
      simp only [Outcome.undef.injEq] at h
      subst h
      exact ⟨_, rfl⟩

/-- What an `Am` run result says about the ISA run from the same state. -/
def Simulates (r : RunResult) (s : St) (io : IOSt) : Prop :=
  match r with
  | .exited c _ s' io' => ∃ m j', Isa.run m s io 0 = .exited c j' s' io'
  | .undef w _ => ∃ m j', Isa.run m s io 0 = .undef w j'
  | .outOfFuel s' io' => ∃ m, Isa.run m s io 0 = .outOfFuel s' io'
  | .fault _ _ => True

theorem run_refines_aux (P : Prog) : ∀ (fuel : Nat) (s : St) (io : IOSt) (k j : Nat),
    loaded P s.mem = true → s.o = 0 →
    match run P fuel s io k with
    | .exited c _ s' io' => ∃ m j', Isa.run m s io j = .exited c j' s' io'
    | .undef w _ => ∃ m j', Isa.run m s io j = .undef w j'
    | .outOfFuel s' io' => ∃ m j', Isa.run m s io j = Isa.run 0 s' io' j'
    | .fault _ _ => True := by
  intro fuel
  induction fuel with
  | zero => intro s io k j _ _; unfold run; exact ⟨0, j, rfl⟩
  | succ f ih =>
    intro s io k j hl ho
    unfold run
    cases hst : step P s io with
    | error e => simp
    | ok out =>
      obtain ⟨n, _, hn, hinv⟩ := step_refines P s io out hl ho hst
      cases out with
      | running s1 io1 =>
        simp only
        obtain ⟨hl1, ho1⟩ := hinv s1 io1 rfl
        have := ih s1 io1 (k + 1) (j + n) hl1 ho1
        cases hr : run P f s1 io1 (k + 1) with
        | exited c k' s' io' =>
          rw [hr] at this; simp only at this ⊢
          obtain ⟨m, j', hm⟩ := this
          exact ⟨n + m, j', by rw [run_of_stepN_running n m s io j s1 io1 hn]; exact hm⟩
        | undef w k' =>
          rw [hr] at this; simp only at this ⊢
          obtain ⟨m, j', hm⟩ := this
          exact ⟨n + m, j', by rw [run_of_stepN_running n m s io j s1 io1 hn]; exact hm⟩
        | outOfFuel s' io' =>
          rw [hr] at this; simp only at this ⊢
          obtain ⟨m, j', hm⟩ := this
          exact ⟨n + m, j', by rw [run_of_stepN_running n m s io j s1 io1 hn]; exact hm⟩
        | fault _ _ => simp
      | exited c s1 io1 =>
        simp only
        obtain ⟨j', hj⟩ := run_of_stepN_exited n 0 s io j c s1 io1 hn
        exact ⟨n + 0, j', hj⟩
      | undef w =>
        simp only
        obtain ⟨j', hj⟩ := run_of_stepN_undef n 0 s io j w hn
        exact ⟨n + 0, j', hj⟩

/-- **`Am` runs are ISA runs**: from a state with the program intact in memory and a clear
    operand register, whatever a (non-faulting) `Am` run of any length exhibits - exit code, final
    state, I/O log; an undefined instruction; or the state it has reached so far - the ISA run
    from the same state exhibits too. -/
theorem run_refines (P : Prog) (fuel : Nat) (s : St) (io : IOSt)
    (hl : loaded P s.mem = true) (ho : s.o = 0) : Simulates (run P fuel s io) s io := by
  have := run_refines_aux P fuel s io 0 0 hl ho
  unfold Simulates
  cases hr : run P fuel s io 0 with
  | exited c k s' io' => rw [hr] at this; exact this
  | undef w k => rw [hr] at this; exact this
  | outOfFuel s' io' =>
    rw [hr] at this
    simp only at this ⊢
    obtain ⟨m, j', hm⟩ := this
    -- the ISA run with fuel m stops, out of fuel, in the same state
    refine ⟨m, ?_⟩
    rw [hm]; rfl
  | fault _ _ => trivial

end Hex.Am
