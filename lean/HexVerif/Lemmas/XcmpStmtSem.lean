import HexVerif.Lemmas.XcmpAnnot
/-!
  Inversion of `X.exec` on the statement forms of stage (3), and the effect of `writeName` on
  what names denote.
-/
namespace Hex.C01s
open Hex Hex.X

/-- Outcome of a statement as far as stage (3) distinguishes it. -/
theorem exec_tick (fuel : Nat) (xc : X.Ctx) (s : X.Stmt) (σ : X.St) (r : Res Flow) (hr : ∀ w, r ≠ .undef w)
    (h : X.exec (fuel + 1) xc s σ = r) : ∃ st, X.tick xc σ = some st := by
  unfold X.exec at h
  cases ht : X.tick xc σ with
  | none => rw [ht] at h; exact absurd h.symm (hr _)
  | some st => exact ⟨st, rfl⟩

theorem exec_skip (fuel : Nat) (xc : X.Ctx) (σ st : X.St) (ht : X.tick xc σ = some st) :
    X.exec (fuel + 1) xc .skip σ = .ok .normal st := by
  unfold X.exec; rw [ht]

theorem exec_stop (fuel : Nat) (xc : X.Ctx) (σ st : X.St) (ht : X.tick xc σ = some st) :
    X.exec (fuel + 1) xc .stop σ = .exit 0 st := by
  unfold X.exec; rw [ht]

theorem exec_ret (fuel : Nat) (xc : X.Ctx) (e : X.Expr) (σ st : X.St) (ht : X.tick xc σ = some st) :
    X.exec (fuel + 1) xc (.ret e) σ =
      (asInt "returned value" (X.eval fuel xc e st)).bind fun w s => .ok (.ret w) s := by
  unfold X.exec; rw [ht]

theorem exec_ite (fuel : Nat) (xc : X.Ctx) (c : X.Expr) (t e : X.Stmt) (σ st : X.St) (ht : X.tick xc σ = some st) :
    X.exec (fuel + 1) xc (.ite c t e) σ =
      (asBool "condition of if" (X.eval fuel xc c st)).bind fun w s =>
        if w == 1 then X.exec fuel xc t s else X.exec fuel xc e s := by
  conv => lhs; unfold X.exec
  rw [ht]

theorem exec_while (fuel : Nat) (xc : X.Ctx) (c : X.Expr) (b : X.Stmt) (σ st : X.St) (ht : X.tick xc σ = some st) :
    X.exec (fuel + 1) xc (.while c b) σ =
      match asBool "condition of while" (X.eval fuel xc c st) with
      | .undef w => .undef w
      | .exit code s => .exit code s
      | .ok w s =>
        if w == 0 then .ok .normal s
        else
          match X.exec fuel xc b s with
          | .undef w => .undef w
          | .exit code s' => .exit code s'
          | .ok (.ret _) _ => .undef "return inside a loop is not the final process of its function"
          | .ok .normal s' => X.exec fuel xc (.while c b) s' := by
  conv => lhs; unfold X.exec
  rw [ht]
  simp only
  rfl

theorem exec_seq (fuel : Nat) (xc : X.Ctx) (ss : List X.Stmt) (σ st : X.St) (ht : X.tick xc σ = some st) :
    X.exec (fuel + 1) xc (.seq ss) σ = X.execSeq fuel xc ss st := by
  unfold X.exec; rw [ht]

theorem exec_assign (fuel : Nat) (xc : X.Ctx) (n : String) (e : X.Expr) (σ st : X.St) (ht : X.tick xc σ = some st)
    (fl : Flow) (σ' : X.St) (h : X.exec (fuel + 1) xc (.assign n e) σ = .ok fl σ') :
    ∃ w s, X.eval fuel xc e st = .ok (.int w) s ∧ X.writeName xc s n w = .ok σ' ∧ fl = .normal := by
  unfold X.exec at h
  rw [ht] at h
  simp only at h
  obtain ⟨w, s, h1, h2⟩ := bind_ok_inv _ _ _ _ h
  obtain ⟨p, s2, h3, h4⟩ := bind_ok_inv _ _ _ _ h2
  simp only [Res.ok.injEq] at h4
  obtain ⟨h5, h6⟩ := liftE_ok _ _ _ _ h3
  cases hw : X.writeName xc s n w with
  | error e => rw [hw] at h5; simp [Except.map] at h5
  | ok s3 =>
    rw [hw] at h5
    simp only [Except.map, Except.ok.injEq] at h5
    refine ⟨w, s, asInt_ok _ _ _ _ h1, ?_, ?_⟩
    · rw [← h4.2, ← h5]; exact hw
    · rw [← h4.1, ← h5]

theorem exec_assign_exit (fuel : Nat) (xc : X.Ctx) (n : String) (e : X.Expr) (σ st : X.St) (ht : X.tick xc σ = some st)
    (code : Word) (σ' : X.St) (h : X.exec (fuel + 1) xc (.assign n e) σ = .exit code σ') :
    ∃ c s, asInt "assigned value" (X.eval fuel xc e st) = .exit c s := by
  unfold X.exec at h
  rw [ht] at h
  simp only at h
  unfold Res.bind at h
  cases hr : asInt "assigned value" (X.eval fuel xc e st) with
  | ok w s =>
    rw [hr] at h
    simp only at h
    cases hw : X.writeName xc s n w with
    | error e => rw [hw] at h; simp [liftE, Except.map] at h
    | ok s3 => rw [hw] at h; simp [liftE, Except.map] at h
  | exit c s => exact ⟨c, s, rfl⟩
  | undef w => rw [hr] at h; simp at h

theorem exec_assignSub (fuel : Nat) (xc : X.Ctx) (n : String) (i e : X.Expr) (σ st : X.St) (ht : X.tick xc σ = some st)
    (fl : Flow) (σ' : X.St) (h : X.exec (fuel + 1) xc (.assignSub n i e) σ = .ok fl σ') :
    ∃ iv s w s' r, X.eval fuel xc i st = .ok (.int iv) s ∧ X.eval fuel xc e s = .ok (.int w) s' ∧
      X.arrayOf xc s' n = .ok r ∧ X.arrSet s' r iv w = .ok σ' ∧ fl = .normal := by
  unfold X.exec at h
  rw [ht] at h
  simp only at h
  split at h
  · simp at h
  obtain ⟨iv, s, h1, h2⟩ := bind_ok_inv _ _ _ _ h
  obtain ⟨w, s', h3, h4⟩ := bind_ok_inv _ _ _ _ h2
  cases ha : X.arrayOf xc s' n with
  | error why => rw [ha] at h4; simp [bind, Except.bind] at h4
  | ok r =>
    rw [ha] at h4
    simp only [bind, Except.bind] at h4
    cases hs : X.arrSet s' r iv w with
    | error why => rw [hs] at h4; simp at h4
    | ok s'' =>
      rw [hs] at h4
      simp only [Res.ok.injEq] at h4
      exact ⟨iv, s, w, s', r, asInt_ok _ _ _ _ h1, asInt_ok _ _ _ _ h3, ha, by rw [← h4.2]; exact hs, h4.1.symm⟩

theorem exec_assignSub_exit (fuel : Nat) (xc : X.Ctx) (n : String) (i e : X.Expr) (σ st : X.St) (ht : X.tick xc σ = some st)
    (code : Word) (σ' : X.St) (h : X.exec (fuel + 1) xc (.assignSub n i e) σ = .exit code σ') :
    (∃ c s, asInt "subscript" (X.eval fuel xc i st) = .exit c s) ∨
    (∃ iv s c s', asInt "subscript" (X.eval fuel xc i st) = .ok iv s ∧
      asInt "assigned value" (X.eval fuel xc e s) = .exit c s') := by
  unfold X.exec at h
  rw [ht] at h
  simp only at h
  split at h
  · simp at h
  unfold Res.bind at h
  cases hr : asInt "subscript" (X.eval fuel xc i st) with
  | ok iv s =>
    rw [hr] at h
    simp only at h
    cases hr2 : asInt "assigned value" (X.eval fuel xc e s) with
    | ok w s' =>
      rw [hr2] at h
      simp only at h
      split at h <;> simp at h
    | exit c s' => exact Or.inr ⟨iv, s, c, s', rfl, hr2⟩
    | undef w => rw [hr2] at h; simp at h
  | exit c s => exact Or.inl ⟨c, s, rfl⟩
  | undef w => rw [hr] at h; simp at h

/-- A pure expression never terminates the program. -/
theorem eval_pure_no_exit (xc : X.Ctx) : ∀ (fuel : Nat) (e : X.Expr) (σ : X.St) (code : Word) (σ' : X.St),
    pureE e = true → X.eval fuel xc e σ ≠ .exit code σ' := by
  intro fuel
  induction fuel with
  | zero => intro e σ code σ' _ h; unfold X.eval at h; simp at h
  | succ fuel ih =>
    intro e σ code σ' hp h
    unfold X.eval at h
    cases ht : X.tick xc σ with
    | none => rw [ht] at h; simp at h
    | some st =>
      rw [ht] at h
      have hA : ∀ (what : String) (x : X.Expr) (s : X.St) (c : Word) (s' : X.St), pureE x = true →
          asInt what (X.eval fuel xc x s) ≠ .exit c s' := by
        intro what x s c s' hx hh
        unfold asInt Res.bind at hh
        cases hr : X.eval fuel xc x s with
        | ok v s1 => rw [hr] at hh; cases v <;> simp at hh
        | exit c1 s1 => exact ih x s c1 s1 hx hr
        | undef w => rw [hr] at hh; simp at hh
      have hB : ∀ (what : String) (x : X.Expr) (s : X.St) (c : Word) (s' : X.St), pureE x = true →
          asBool what (X.eval fuel xc x s) ≠ .exit c s' := by
        intro what x s c s' hx hh
        unfold asBool Res.bind at hh
        cases hr : asInt what (X.eval fuel xc x s) with
        | ok v s1 => rw [hr] at hh; simp only at hh; split at hh <;> simp at hh
        | exit c1 s1 => exact hA what x s c1 s1 hx hr
        | undef w => rw [hr] at hh; simp at hh
      cases e with
      | num x => simp at h
      | bool b => simp at h
      | name n => simp only at h; unfold liftE at h; split at h <;> simp at h
      | str bs => simp only at h; unfold liftE Res.bind at h; cases hpk : X.packString bs <;> rw [hpk] at h <;> simp at h
      | sub n i =>
        simp only [pureE] at hp
        simp only at h
        unfold Res.bind at h
        cases hr : asInt "subscript" (X.eval fuel xc i st) with
        | ok w s => rw [hr] at h; simp only at h; unfold liftE at h; split at h <;> simp at h
        | exit c s => exact hA _ i st c s hp hr
        | undef w => rw [hr] at h; simp at h
      | call f args => simp [pureE] at hp
      | syscall id args => simp [pureE] at hp
      | un op a =>
        simp only [pureE] at hp
        cases op with
        | neg =>
          simp only at h
          unfold Res.bind at h
          cases hr : asInt "operand of -" (X.eval fuel xc a st) with
          | ok w s => rw [hr] at h; simp only at h; unfold liftE at h; split at h <;> simp at h
          | exit c s => exact hA _ a st c s hp hr
          | undef w => rw [hr] at h; simp at h
        | not =>
          simp only at h
          unfold Res.bind at h
          cases hr : asBool "operand of ~" (X.eval fuel xc a st) with
          | ok w s => rw [hr] at h; simp at h
          | exit c s => exact hB _ a st c s hp hr
          | undef w => rw [hr] at h; simp at h
      | bin op l r =>
        simp only [pureE, Bool.and_eq_true] at hp
        cases op <;> simp only at h
        case and =>
          unfold Res.bind at h
          cases hr : asBool "operand of and" (X.eval fuel xc l st) with
          | ok a s =>
            rw [hr] at h; simp only at h
            split at h
            · simp at h
            · cases hr2 : asBool "operand of and" (X.eval fuel xc r s) with
              | ok b s2 => rw [hr2] at h; simp at h
              | exit c s2 => exact hB _ r s c s2 hp.2 hr2
              | undef w => rw [hr2] at h; simp at h
          | exit c s => exact hB _ l st c s hp.1 hr
          | undef w => rw [hr] at h; simp at h
        case or =>
          unfold Res.bind at h
          cases hr : asBool "operand of or" (X.eval fuel xc l st) with
          | ok a s =>
            rw [hr] at h; simp only at h
            split at h
            · simp at h
            · cases hr2 : asBool "operand of or" (X.eval fuel xc r s) with
              | ok b s2 => rw [hr2] at h; simp at h
              | exit c s2 => exact hB _ r s c s2 hp.2 hr2
              | undef w => rw [hr2] at h; simp at h
          | exit c s => exact hB _ l st c s hp.1 hr
          | undef w => rw [hr] at h; simp at h
        all_goals
          ( split at h
            · simp at h
            · unfold Res.bind at h
              cases hr : asInt "operand" (X.eval fuel xc l st) with
              | ok a s =>
                rw [hr] at h; simp only at h
                cases hr2 : asInt "operand" (X.eval fuel xc r s) with
                | ok b s2 => rw [hr2] at h; simp only at h; unfold liftE at h; split at h <;> simp at h
                | exit c s2 => exact hA _ r s c s2 hp.2 hr2
                | undef w => rw [hr2] at h; simp at h
              | exit c s => exact hA _ l st c s hp.1 hr
              | undef w => rw [hr] at h; simp at h )

theorem asInt_pure_no_exit (xc : X.Ctx) (what : String) (fuel : Nat) (e : X.Expr) (σ : X.St) (c : Word) (σ' : X.St)
    (hp : pureE e = true) : asInt what (X.eval fuel xc e σ) ≠ .exit c σ' := by
  intro hh
  unfold asInt Res.bind at hh
  cases hr : X.eval fuel xc e σ with
  | ok v s1 => rw [hr] at hh; cases v <;> simp at hh
  | exit c1 s1 => exact eval_pure_no_exit xc fuel e σ c1 s1 hp hr
  | undef w => rw [hr] at hh; simp at hh

theorem asBool_pure_no_exit (xc : X.Ctx) (what : String) (fuel : Nat) (e : X.Expr) (σ : X.St) (c : Word) (σ' : X.St)
    (hp : pureE e = true) : asBool what (X.eval fuel xc e σ) ≠ .exit c σ' := by
  intro hh
  unfold asBool Res.bind at hh
  cases hr : asInt what (X.eval fuel xc e σ) with
  | ok v s1 => rw [hr] at hh; simp only at hh; split at hh <;> simp at hh
  | exit c1 s1 => exact asInt_pure_no_exit xc what fuel e σ c1 s1 hp hr
  | undef w => rw [hr] at hh; simp at hh

/-! ### `writeName` -/

theorem lookup_setAssoc {β} : ∀ (l : List (String × β)) (n m : String) (v : β),
    (X.setAssoc l n v).lookup m = if m = n then (l.lookup n).map (fun _ => v) else l.lookup m := by
  intro l
  induction l with
  | nil => intro n m v; simp [X.setAssoc]
  | cons kv t ih =>
    intro n m v
    obtain ⟨k, x⟩ := kv
    unfold X.setAssoc
    by_cases hk : k = n
    · subst hk
      simp only [BEq.rfl, if_true, List.lookup_cons]
      by_cases hm : m = k
      · subst hm; simp
      · have : (m == k) = false := by simpa using hm
        simp [this, hm]
    · have hkn : (k == n) = false := by simpa using hk
      simp only [hkn, Bool.false_eq_true, if_false, List.lookup_cons]
      by_cases hm : m = k
      · subst hm
        have : ¬ m = n := hk
        have hnm : (n == m) = false := by simpa using (fun h => hk h.symm)
        simp [this, hnm]
      · have hmk : (m == k) = false := by simpa using hm
        rw [hmk]
        simp only
        rw [ih n m v]
        by_cases hmn : m = n
        · subst hmn
          have : (m == k) = false := hmk
          simp [this]
        · simp [hmn]

/-- What an assignment to a variable changes. -/
theorem writeName_cases (xc : X.Ctx) (σ σ' : X.St) (n : String) (w : Word) (h : X.writeName xc σ n w = .ok σ') :
    (∃ o, σ.locals.lookup n = some (.var o) ∧ σ' = { σ with locals := X.setAssoc σ.locals n (.var (some w)) }) ∨
    (σ.locals.lookup n = none ∧ xc.genv.lookup n = some .var ∧
      σ' = { σ with gvars := X.setAssoc σ.gvars n (some w) }) := by
  unfold X.writeName at h
  cases hl : σ.locals.lookup n with
  | some b =>
    rw [hl] at h
    cases b <;> simp at h
    rename_i o
    exact Or.inl ⟨o, rfl, h.symm⟩
  | none =>
    rw [hl] at h
    simp only at h
    cases hg : xc.genv.lookup n with
    | none => rw [hg] at h; simp at h
    | some g =>
      rw [hg] at h
      cases g <;> simp at h
      exact Or.inr ⟨rfl, rfl, h.symm⟩

theorem readName_write_same (xc : X.Ctx) (σ σ' : X.St) (n : String) (w w' : Word)
    (h : X.writeName xc σ n w = .ok σ') (hr : X.readName xc σ' n = .ok (.int w')) : w' = w := by
  rcases writeName_cases xc σ σ' n w h with ⟨o, hl, rfl⟩ | ⟨hl, hg, rfl⟩
  · unfold X.readName at hr
    simp only [lookup_setAssoc, if_true, hl, Option.map_some] at hr
    simpa using hr.symm
  · unfold X.readName at hr
    simp only [hl, hg, lookup_setAssoc, if_true] at hr
    cases hgv : σ.gvars.lookup n with
    | none => rw [hgv] at hr; simp at hr
    | some x => rw [hgv] at hr; simp at hr; exact hr.symm

theorem readName_write_other (xc : X.Ctx) (σ σ' : X.St) (n m : String) (w : Word)
    (h : X.writeName xc σ n w = .ok σ') (hne : m ≠ n) : X.readName xc σ' m = X.readName xc σ m := by
  rcases writeName_cases xc σ σ' n w h with ⟨o, hl, rfl⟩ | ⟨hl, hg, rfl⟩
  · unfold X.readName
    simp only [lookup_setAssoc, if_neg hne]
  · unfold X.readName
    simp only [lookup_setAssoc, if_neg hne]

theorem readName_write_noarr (xc : X.Ctx) (σ σ' : X.St) (n : String) (w : Word) (r : ArrRef)
    (h : X.writeName xc σ n w = .ok σ') : X.readName xc σ' n ≠ .ok (.arr r) := by
  intro hr
  rcases writeName_cases xc σ σ' n w h with ⟨o, hl, rfl⟩ | ⟨hl, hg, rfl⟩
  · unfold X.readName at hr
    simp only [lookup_setAssoc, if_true, hl, Option.map_some] at hr
    simp at hr
  · unfold X.readName at hr
    simp only [hl, hg, lookup_setAssoc, if_true] at hr
    cases hgv : σ.gvars.lookup n with
    | none => rw [hgv] at hr; simp at hr
    | some x => rw [hgv] at hr; simp at hr

theorem writeName_arrays (xc : X.Ctx) (σ σ' : X.St) (n : String) (w : Word) (h : X.writeName xc σ n w = .ok σ') :
    σ'.arrays = σ.arrays := by
  rcases writeName_cases xc σ σ' n w h with ⟨o, hl, rfl⟩ | ⟨hl, hg, rfl⟩ <;> rfl

theorem writeName_io (xc : X.Ctx) (σ σ' : X.St) (n : String) (w : Word) (h : X.writeName xc σ n w = .ok σ') :
    σ'.io = σ.io := by
  rcases writeName_cases xc σ σ' n w h with ⟨o, hl, rfl⟩ | ⟨hl, hg, rfl⟩ <;> rfl

end Hex.C01s
