import HexVerif.Asm.Lexer
/-
  Decimal literals: the lexer's strtoul on the decimal spelling of n yields n (C04, literal clause).
-/
namespace Hex.Asm
open Hex

def byteOfChar (c : Char) : Byte := BitVec.ofNat 8 c.toNat

/-- The bytes of the decimal spelling of `n`. -/
def decimalBytes (n : Nat) : List Byte := (Nat.toDigits 10 n).map byteOfChar

theorem digitChar_small (m : Nat) (hm : m < 10) : m.digitChar.toNat < 256 := by
  have : m = 0 ∨ m = 1 ∨ m = 2 ∨ m = 3 ∨ m = 4 ∨ m = 5 ∨ m = 6 ∨ m = 7 ∨ m = 8 ∨ m = 9 := by omega
  rcases this with rfl | rfl | rfl | rfl | rfl | rfl | rfl | rfl | rfl | rfl <;> decide

theorem digits_small (n : Nat) : ∀ c ∈ Nat.toDigits 10 n, c.toNat < 256 := by
  induction n using Nat.base_induction 10 (by decide) with
  | single m hm =>
    rw [Nat.toDigits_of_lt_base hm]
    intro c hc
    simp at hc
    subst hc
    exact digitChar_small m hm
  | digit m k hk hm ih =>
    rw [← Nat.toDigits_append_toDigits (by decide) hm hk]
    intro c hc
    simp only [List.mem_append] at hc
    rcases hc with h | h
    · exact ih c h
    · rw [Nat.toDigits_of_lt_base hk] at h
      simp at h
      subst h
      exact digitChar_small k hk

theorem foldl_bytes (l : List Char) (h : ∀ c ∈ l, c.toNat < 256) (init : Nat) :
    (l.map byteOfChar).foldl (fun acc d => acc * 10 + (d.toNat - 48)) init = Nat.ofDigitChars 10 l init := by
  induction l generalizing init with
  | nil => simp
  | cons c cs ih =>
    simp only [List.map_cons, List.foldl_cons, Nat.ofDigitChars_cons]
    have hc : (byteOfChar c).toNat = c.toNat := by
      simp only [byteOfChar, BitVec.toNat_ofNat]
      have := h c (by simp)
      omega
    rw [hc, ih (fun c' hc' => h c' (by simp [hc']))]
    congr 1
    have : '0'.toNat = 48 := rfl
    rw [this]; omega

/-- **Literals.** The lexer's `(unsigned) strtoul(...)` on the decimal spelling of any `n < 2^32`
    is `n` (larger values wrap modulo 2^32 unless they saturate 2^64). -/
theorem strtoul32_decimal (n : Nat) (h : n < 2 ^ 32) : strtoul32 (decimalBytes n) = n := by
  unfold strtoul32 decimalBytes
  rw [foldl_bytes _ (digits_small n) 0, Nat.ofDigitChars_toDigits (by decide) (by decide)]
  have : ¬ n ≥ 2 ^ 64 := by omega
  simp only [this, if_false]
  omega
end Hex.Asm
