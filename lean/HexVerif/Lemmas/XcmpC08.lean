import HexVerif.Lemmas.XcmpFrame
import HexVerif.Lemmas.XcmpCall
/-!
  C08, auxiliary lemmas: lowering of a temporary access, the initial stack pointer, and the store
  discipline built into `IAm` (every step writes at most one word, inside the memory and outside
  the code).
-/
namespace Hex.C01s
open Hex Hex.X Hex.Xcmp Hex.IAm Hex.Asm

/-- A temporary of the own frame is lowered to an offset inside `[0, size)`. -/
theorem lower_temp (out : CGOut) (k : FbKind) (frame : Nat) (off : Int)
    (h1 : off ≤ 0) (h2 : (-off).toNat < (frameOf out frame).size) :
    ∃ o : Int, lowerOne out (.fb k frame off) = [.imm (fbOpc k) o] ∧ 0 ≤ o ∧ o < (frameOf out frame).size := by
  refine ⟨((frameOf out frame).size : Int) - 1 + off, rfl, ?_, ?_⟩ <;> omega

/-- The slot of a symbol is lowered to `size - 1 + stackOffset`: inside the frame for the offsets
    `LocalDeclLocations` assigns (`-k`, `k < size`), the caller's outgoing slot `size + po + k` for
    those of `FormalLocations` (`1 + po + k`). -/
theorem lower_slot (out : CGOut) (k : FbKind) (frame : Nat) (off : Int) :
    lowerOne out (.fb k frame off) = [.imm (fbOpc k) (((frameOf out frame).size : Int) - 1 + off)] := rfl

/-- The initial stack pointer leaves the two words above it (exit stub, `stop`) inside the memory
    and below the global arrays. -/
theorem spValue_bounds (go : Int) (h0 : 0 ≤ go) (h1 : go ≤ 199997) :
    spValue go = 199997 - go ∧ 0 ≤ spValue go ∧ spValue go + 2 < MAX_ADDRESS - go := by
  have : spValue go = 199997 - go := by
    unfold spValue Asm.wrap32 MAX_ADDRESS FB_PARAM_OFFSET_FUNC
    omega
  refine ⟨this, by omega, ?_⟩
  rw [this]; unfold MAX_ADDRESS; omega

/-- **Store discipline of `IAm`**: a step leaves the memory as it is or writes one word that lies
    inside the memory and holds no instruction byte. -/
theorem step_store (env : Env) (c c' : Cfg) (io io' : Isa.IOSt) (h : Step env c io c' io') :
    c'.mem = c.mem ∨ ∃ w v, c'.mem = c.mem.write w v ∧ w < memWords ∧ env.isCode w = false := by
  have key : ∀ (a v : Word) (m' : Mem), IAm.store env c.mem a v = some m' →
      ∃ w v, m' = c.mem.write w v ∧ w < memWords ∧ env.isCode w = false := by
    intro a v m' hs
    unfold IAm.store at hs
    split at hs
    · rename_i hc
      simp only [Option.some.injEq] at hs
      exact ⟨a.toNat, v, hs.symm, hc.1, hc.2⟩
    · simp at hs
  cases h with
  | stam v m' hd hst => exact Or.inr (key _ _ _ hst)
  | stai v m' hd hst hne => exact Or.inr (key _ _ _ hst)
  | stamL l j m' hd hl h4 hst => exact Or.inr (key _ _ _ hst)
  | svcGet s m' hd ha hs hst => exact Or.inr (key _ _ _ hst)
  | _ => exact Or.inl rfl

/-- Along any run of `IAm`, a word whose content has changed lies inside the memory and holds no
    instruction byte. -/
theorem steps_changed (env : Env) (c c' : Cfg) (io io' : Isa.IOSt) (h : Steps env c io c' io') :
    ∀ w, c'.mem.read w ≠ c.mem.read w → w < memWords ∧ env.isCode w = false := by
  induction h with
  | refl c io => intro w hw; exact absurd rfl hw
  | step c io c1 io1 c2 io2 hs _ ih =>
    intro w hw
    by_cases h1 : c2.mem.read w = c1.mem.read w
    · rcases step_store env c c1 io io1 hs with hm | ⟨w0, v, hm, hlt, hc⟩
      · rw [h1, hm] at hw; exact absurd rfl hw
      · rw [h1, hm] at hw
        by_cases hw0 : w0 = w
        · subst hw0; exact ⟨hlt, hc⟩
        · rw [Mem.read_write_other _ _ _ _ hw0] at hw; exact absurd rfl hw
    · exact ih w h1

end Hex.C01s
