import HexVerif.Lemmas.XcmpAnnot
import HexVerif.Lemmas.XcmpFold
/-!
  Stage (2) of C01: code generated for call-free expressions computes the value the reference
  semantics gives.  Hoare-style, relative to a procedure context `PCtx` (layout, symbol table,
  stack pointer, locations of the variables in scope) that satisfies `PCtx.WF`.
-/
namespace Hex.C01s
open Hex Hex.X Hex.Xcmp Hex.IAm Hex.Asm

/-- What is fixed while the body of one procedure instance runs. -/
structure PCtx where
  env : IAm.Env                     -- the laid-out (lowered) program
  out : CGOut                       -- code generator output (final frame sizes)
  ctx : Xcmp.Ctx                    -- symbol table, scope, frame of the procedure
  xc : X.Ctx                        -- context of the reference semantics
  ρ : String → Option Word          -- names the annotation treats as constants
  sp : Nat                          -- stack pointer of this activation
  loc : String → Option Nat         -- word address of each variable in scope
  consts : List (Int × String)      -- the final constant pool
  nlocals : Nat                     -- frame offsets below this hold local variables
  hi : Nat → Word                   -- the memory at and above the link slot `sp + S` (caller frames; never written)
  gnames : List String              -- global names that no local of this instance may hide
  dep : Nat                         -- nesting depth of this instance
  abase : Nat → Nat := fun _ => 0   -- word address of the global array with the given id
  asize : Nat → Nat := fun _ => 0   -- its length (0: no such array)
  strs : List (String × List Byte) := []   -- the string literals of the program, with their labels

def PCtx.S (K : PCtx) : Nat := (frameOf K.out K.ctx.frame).size
/-- Address of the frame slot with (non-negative) frame offset `k`. -/
def PCtx.slot (K : PCtx) (k : Nat) : Nat := K.sp + K.S - 1 - k
def PCtx.low (K : PCtx) (c : Code) : List Dir := lowerCode K.out c
/-- The return address stored in the link slot `sp + S`. -/
def PCtx.link (K : PCtx) : Word := K.hi (K.sp + K.S)
/-- The word `a` is an element of a global array. -/
def PCtx.inArr (K : PCtx) (a : Nat) : Prop := ∃ id, K.abase id ≤ a ∧ a < K.abase id + K.asize id

/-- The word that stands for an array value: the base address of a global array, or the word address of
    (the label of) a string literal of the pool with that content. -/
def ARepOf (env : IAm.Env) (abase : Nat → Nat) (strs : List (String × List Byte)) : ArrRef → Word → Prop
  | .glob id, w => w = BitVec.ofNat 32 (abase id)
  | .lit ws, w => ∃ l bs j k, (l, bs) ∈ strs ∧ X.packString bs = .ok ws ∧ env.ds[j]? = some (.label k l) ∧
      w = BitVec.ofNat 32 (env.addr j / 4)

/-- The word that stands for a value: an integer is itself. -/
def VRepOf (env : IAm.Env) (abase : Nat → Nat) (strs : List (String × List Byte)) : Val → Word → Prop
  | .int x, w => w = x
  | .arr r, w => ARepOf env abase strs r w

abbrev PCtx.ARep (K : PCtx) : ArrRef → Word → Prop := ARepOf K.env K.abase K.strs
abbrev PCtx.VRep (K : PCtx) : Val → Word → Prop := VRepOf K.env K.abase K.strs

/-- The string literals of the program: each one's label is followed by its packed words, in the
    data area below the stack, apart from every variable. -/
structure PCtx.StrOK (K : PCtx) : Prop where
  lbl : ∀ l bs ws, (l, bs) ∈ K.strs → X.packString bs = .ok ws →
    ∃ j k, K.env.ds[j]? = some (.label k l) ∧ K.env.addr j % 4 = 0 ∧ 2 ≤ K.env.addr j / 4 ∧
      K.env.addr j / 4 + ws.length ≤ K.sp
  sep : ∀ l bs ws j k n a idx, (l, bs) ∈ K.strs → X.packString bs = .ok ws → K.env.ds[j]? = some (.label k l) →
    K.loc n = some a → idx < ws.length → K.env.addr j / 4 + idx ≠ a

theorem PCtx.strOK_of_none (K : PCtx) (h : K.strs = []) : K.StrOK :=
  ⟨fun l bs ws hm => by rw [h] at hm; simp at hm, fun l bs ws j k n a idx hm => by rw [h] at hm; simp at hm⟩

structure PCtx.WF (K : PCtx) : Prop where
  nodup : (labelNames K.env.ds).Nodup
  var_global : ∀ n sym a, K.ctx.tbl.lookup K.ctx.scope n = .ok sym → sym.scope = "" → K.loc n = some a →
    ∃ j k, K.env.ds[j]? = some (.label k sym.globalLabel) ∧ K.env.addr j % 4 = 0 ∧ a = K.env.addr j / 4
  var_local : ∀ n sym (a : Nat), K.ctx.tbl.lookup K.ctx.scope n = .ok sym → sym.scope ≠ "" → K.loc n = some a →
    sym.frame = K.ctx.frame ∧ (a : Int) = (K.sp : Int) + (K.S : Int) - 1 + sym.stackOffset
  const_lbl : ∀ v l, (v, l) ∈ K.consts →
    ∃ j k, K.env.ds[j]? = some (.label k l) ∧ K.env.addr j % 4 = 0 ∧ K.env.addr j / 4 < K.sp
  slot_ok : ∀ k, k < K.S → K.slot k < memWords ∧ K.env.isCode (K.slot k) = false
  sp_ge : 2 ≤ K.sp
  sp_le : K.sp + K.S ≤ memWords
  loc_sep : ∀ n a, K.loc n = some a → a < K.sp ∨ K.sp + K.S ≤ a + K.nlocals
  arr_hi : ∀ id, K.asize id ≠ 0 → K.sp + K.S < K.abase id ∧ K.abase id + K.asize id ≤ memWords
  arr_disj : ∀ id1 id2, id1 ≠ id2 → K.asize id1 ≠ 0 → K.asize id2 ≠ 0 →
    K.abase id1 + K.asize id1 ≤ K.abase id2 ∨ K.abase id2 + K.asize id2 ≤ K.abase id1
  arr_code : ∀ id k, k < K.asize id → K.env.isCode (K.abase id + k) = false
  loc_na : ∀ n a, K.loc n = some a → ¬ K.inArr a
  str : K.StrOK

/-- The name `n` is bound to the `val` `w` (locally, or globally and not hidden). -/
def ValBound (xc : X.Ctx) (σ : X.St) (n : String) (w : Word) : Prop :=
  σ.locals.lookup n = some (.val w) ∨ (σ.locals.lookup n = none ∧ xc.genv.lookup n = some (.val w))

theorem ValBound.read {xc : X.Ctx} {σ : X.St} {n : String} {w : Word} (h : ValBound xc σ n w) :
    X.readName xc σ n = .ok (.int w) := by
  unfold X.readName
  rcases h with h | ⟨h1, h2⟩
  · rw [h]
  · rw [h1, h2]

/-- The name `n` denotes a variable (a local one, or a global one that is not hidden). -/
def IsVar (xc : X.Ctx) (σ : X.St) (n : String) : Prop :=
  (∃ o, σ.locals.lookup n = some (.var o)) ∨ (σ.locals.lookup n = none ∧ xc.genv.lookup n = some .var)

/-- The machine memory represents the source state. -/
structure Rep (K : PCtx) (σ : X.St) (mem : Mem) : Prop where
  sp : mem.read 1 = BitVec.ofNat 32 K.sp
  vals : ∀ n w, K.ρ n = some w → ValBound K.xc σ n w
  vars : ∀ n w, K.ρ n = none → X.readName K.xc σ n = .ok (.int w) →
    ∃ a, K.loc n = some a ∧ a < memWords ∧ mem.read a = w
  consts : ∀ v l j k, (v, l) ∈ K.consts → K.env.ds[j]? = some (.label k l) →
    mem.read (K.env.addr j / 4) = IAm.W v
  locs : ∀ n, IsVar K.xc σ n → ∃ a, K.loc n = some a ∧ a < K.sp + K.S
  above : ∀ a, K.sp + K.S ≤ a → ¬ K.inArr a → mem.read a = K.hi a
  gvis : ∀ n, n ∈ K.gnames → σ.locals.lookup n = none
  depth : σ.depth = K.dep
  aptr : ∀ n r, X.readName K.xc σ n = .ok (.arr r) →
    ∃ a, K.loc n = some a ∧ a < memWords ∧ K.ARep r (mem.read a)
  acells : ∀ id cells, σ.arrays[id]? = some cells → cells.size = K.asize id ∧
    ∀ idx w, cells[idx]? = some (some w) → mem.read (K.abase id + idx) = w
  strs : ∀ l bs ws j k, (l, bs) ∈ K.strs → X.packString bs = .ok ws → K.env.ds[j]? = some (.label k l) →
    ∀ idx (h : idx < ws.length), mem.read (K.env.addr j / 4 + idx) = ws[idx]

/-- The array part of `PCtx.WF`. -/
structure PCtx.ArrOK (K : PCtx) : Prop where
  arr_hi : ∀ id, K.asize id ≠ 0 → K.sp + K.S < K.abase id ∧ K.abase id + K.asize id ≤ memWords
  arr_disj : ∀ id1 id2, id1 ≠ id2 → K.asize id1 ≠ 0 → K.asize id2 ≠ 0 →
    K.abase id1 + K.asize id1 ≤ K.abase id2 ∨ K.abase id2 + K.asize id2 ≤ K.abase id1
  arr_code : ∀ id k, k < K.asize id → K.env.isCode (K.abase id + k) = false
  loc_na : ∀ n a, K.loc n = some a → ¬ K.inArr a

/-- A context without arrays. -/
theorem PCtx.not_inArr_of_none (K : PCtx) (h : ∀ id, K.asize id = 0) (a : Nat) : ¬ K.inArr a := by
  intro ⟨id, h1, h2⟩
  rw [h id] at h2
  omega

theorem PCtx.arrOK_of_none (K : PCtx) (h : ∀ id, K.asize id = 0) : K.ArrOK :=
  ⟨fun id hz => absurd (h id) hz, fun id1 _ _ hz _ => absurd (h id1) hz, fun id k hk => by rw [h id] at hk; omega,
   fun _ a _ => K.not_inArr_of_none h a⟩

theorem PCtx.WF.not_inArr {K : PCtx} (wf : K.WF) (a : Nat) (h : a ≤ K.sp + K.S) : ¬ K.inArr a := by
  intro ⟨id, h1, h2⟩
  have hz : K.asize id ≠ 0 := by omega
  have := (wf.arr_hi id hz).1
  omega

theorem Rep.link {K : PCtx} (wf : K.WF) {σ : X.St} {mem : Mem} (h : Rep K σ mem) : mem.read (K.sp + K.S) = K.link :=
  h.above _ (Nat.le_refl _) (wf.not_inArr _ (Nat.le_refl _))

theorem Rep.valsOk {K : PCtx} {σ : X.St} {mem : Mem} (h : Rep K σ mem) : ValsOk K.ρ K.xc σ :=
  fun n w hn => (h.vals n w hn).read

theorem Rep.same {K : PCtx} {σ σ' : X.St} {mem : Mem} (h : Rep K σ mem) (hs : SameVars σ σ') : Rep K σ' mem :=
  ⟨h.sp, fun n w hn => by have := h.vals n w hn; unfold ValBound at this ⊢; rw [hs.2.1]; exact this,
   fun n w hn hr => h.vars n w hn (by rw [← readName_same K.xc σ σ' n hs]; exact hr), h.consts,
   fun n hv => h.locs n (by unfold IsVar at hv ⊢; rw [← hs.2.1]; exact hv), h.above,
   fun n hn => by rw [hs.2.1]; exact h.gvis n hn, by rw [hs.2.2.2.2.2]; exact h.depth,
   fun n r hr => h.aptr n r (by rw [← readName_same K.xc σ σ' n hs]; exact hr),
   fun id cells hc => h.acells id cells (by rw [← hs.2.2.1]; exact hc), h.strs⟩

/-- Memory changed at most in the frame slots with offsets in `[lo, hi)`. -/
def Frm (K : PCtx) (lo hi : Nat) (mem mem' : Mem) : Prop :=
  ∀ a, (∀ k, lo ≤ k → k < hi → a ≠ K.slot k) → mem'.read a = mem.read a

theorem Frm.refl (K : PCtx) (lo hi : Nat) (mem : Mem) : Frm K lo hi mem mem := fun _ _ => rfl

theorem Frm.trans {K : PCtx} {lo hi : Nat} {m1 m2 m3 : Mem} (h1 : Frm K lo hi m1 m2) (h2 : Frm K lo hi m2 m3) :
    Frm K lo hi m1 m3 := fun a ha => by rw [h2 a ha, h1 a ha]

theorem Frm.mono {K : PCtx} {lo hi lo' hi' : Nat} {m1 m2 : Mem} (h : Frm K lo hi m1 m2) (hl : lo' ≤ lo) (hh : hi ≤ hi') :
    Frm K lo' hi' m1 m2 := fun a ha => h a (fun k h1 h2 => ha k (by omega) (by omega))

/-- The same, for the addresses at and above the stack pointer only: what lies below (frames of
    callees) is not constrained. -/
def FrmC (K : PCtx) (lo hi : Nat) (mem mem' : Mem) : Prop :=
  ∀ a, K.sp ≤ a → ¬ K.inArr a → (∀ k, lo ≤ k → k < hi → a ≠ K.slot k) → mem'.read a = mem.read a

theorem Frm.toC {K : PCtx} {lo hi : Nat} {m1 m2 : Mem} (h : Frm K lo hi m1 m2) : FrmC K lo hi m1 m2 :=
  fun a _ _ ha => h a ha

theorem FrmC.refl (K : PCtx) (lo hi : Nat) (mem : Mem) : FrmC K lo hi mem mem := fun _ _ _ _ => rfl

theorem FrmC.trans {K : PCtx} {lo hi : Nat} {m1 m2 m3 : Mem} (h1 : FrmC K lo hi m1 m2) (h2 : FrmC K lo hi m2 m3) :
    FrmC K lo hi m1 m3 := fun a hs hn ha => by rw [h2 a hs hn ha, h1 a hs hn ha]

theorem FrmC.mono {K : PCtx} {lo hi lo' hi' : Nat} {m1 m2 : Mem} (h : FrmC K lo hi m1 m2) (hl : lo' ≤ lo) (hh : hi ≤ hi') :
    FrmC K lo' hi' m1 m2 := fun a hs hn ha => h a hs hn (fun k h1 h2 => ha k (by omega) (by omega))

theorem slot_ge (K : PCtx) (k : Nat) (h : k < K.S) : K.sp ≤ K.slot k := by unfold PCtx.slot; omega

theorem Rep.frame {K : PCtx} (wf : K.WF) {σ : X.St} {mem mem' : Mem} {lo hi : Nat} (h : Rep K σ mem)
    (hf : Frm K lo hi mem mem') (hlo : K.nlocals ≤ lo) (hhi : hi ≤ K.S) : Rep K σ mem' := by
  have key : ∀ a, (a < K.sp ∨ K.sp + K.S ≤ a + K.nlocals) → mem'.read a = mem.read a := by
    intro a ha
    apply hf
    intro k h1 h2
    unfold PCtx.slot
    omega
  refine ⟨?_, h.vals, ?_, ?_, h.locs, ?_, h.gvis, h.depth, ?_, ?_, ?_⟩
  rotate_left 3
  · intro a ha hna; rw [key a (Or.inr (by omega))]; exact h.above a ha hna
  · intro n r hr
    obtain ⟨a, ha, hlt, hv⟩ := h.aptr n r hr
    exact ⟨a, ha, hlt, by rw [key a (wf.loc_sep n a ha)]; exact hv⟩
  · intro id cells hc
    obtain ⟨hsz, hv⟩ := h.acells id cells hc
    refine ⟨hsz, fun idx w hi => ?_⟩
    have hlt : idx < cells.size := by
      by_cases hlt : idx < cells.size
      · exact hlt
      · rw [Array.getElem?_eq_none (by omega)] at hi; simp at hi
    have := (wf.arr_hi id (by omega)).1
    rw [key _ (Or.inr (by omega))]
    exact hv idx w hi
  · intro l bs ws j k hm hp hd idx hidx
    obtain ⟨j', k', hd', _, _, hlt⟩ := wf.str.lbl l bs ws hm hp
    have hj : j = j' := by
      have e1 := labelIdx_of_nodup _ _ _ _ wf.nodup hd
      have e2 := labelIdx_of_nodup _ _ _ _ wf.nodup hd'
      rw [e1] at e2; simpa using e2
    subst hj
    rw [key _ (Or.inl (by omega))]
    exact h.strs l bs ws j k hm hp hd idx hidx
  · rw [key 1 (Or.inl (by have := wf.sp_ge; omega))]; exact h.sp
  · intro n w hn hr
    obtain ⟨a, ha, hlt, hv⟩ := h.vars n w hn hr
    exact ⟨a, ha, hlt, by rw [key a (wf.loc_sep n a ha)]; exact hv⟩
  · intro v l j k hm hd
    obtain ⟨j', k', hd', _, hlt⟩ := wf.const_lbl v l hm
    have hj : j = j' := by
      have e1 := labelIdx_of_nodup _ _ _ _ wf.nodup hd
      have e2 := labelIdx_of_nodup _ _ _ _ wf.nodup hd'
      rw [e1] at e2; simpa using e2
    subst hj
    rw [key _ (Or.inl hlt)]
    exact h.consts v l j k hm hd

/-! ### Single instructions -/

abbrev cfg (i : Nat) (a b : Word) (mem : Mem) : Cfg := { i := i, a := a, b := b, mem := mem }

theorem ld_ofNat (mem : Mem) (n : Nat) (h : n < memWords) : Isa.ld mem (BitVec.ofNat 32 n) = some (mem.read n) := by
  unfold Isa.ld
  have : (BitVec.ofNat 32 n).toNat = n := by
    simp only [BitVec.toNat_ofNat]; unfold memWords at h; omega
  rw [this, if_pos h]

theorem ld_one (mem : Mem) : Isa.ld mem (IAm.W 1) = some (mem.read 1) := by
  have : IAm.W 1 = BitVec.ofNat 32 1 := by decide
  rw [this]
  exact ld_ofNat mem 1 (by unfold memWords; omega)

theorem ofNat_toNat_ne_one (n : Nat) (h2 : 2 ≤ n) (hlt : n < memWords) : (BitVec.ofNat 32 n).toNat ≠ 1 := by
  simp only [BitVec.toNat_ofNat]
  unfold memWords at hlt
  omega

theorem store_ofNat (env : Env) (mem : Mem) (n : Nat) (v : Word) (h : n < memWords) (hc : env.isCode n = false) :
    IAm.store env mem (BitVec.ofNat 32 n) v = some (mem.write n v) := by
  unfold IAm.store
  have : (BitVec.ofNat 32 n).toNat = n := by
    simp only [BitVec.toNat_ofNat]; unfold memWords at h; omega
  rw [this, if_pos ⟨h, hc⟩]

/-- The pool of the whole program. -/
def PCtx.items (K : PCtx) : List PoolItem :=
  (K.consts.map fun e => PoolItem.const e.1 e.2) ++ (K.strs.map fun e => PoolItem.str e.1 e.2)

/-- Everything generated so far is in the program's pool. -/
def ConstsIn (K : PCtx) (gs : GS) : Prop := ∀ x ∈ gs.items, x ∈ K.items

theorem ConstsIn.const {K : PCtx} {gs : GS} (h : ConstsIn K gs) {v : Int} {l : String} (hm : (v, l) ∈ gs.constMap) :
    (v, l) ∈ K.consts := by
  have := h _ ((const_mem_items gs v l).mpr hm)
  simpa [PCtx.items] using this

theorem ConstsIn.str {K : PCtx} {gs : GS} (h : ConstsIn K gs) {l : String} {bs : List Byte} (hm : (l, bs) ∈ gs.strs) :
    (l, bs) ∈ K.strs := by
  have := h _ ((str_mem_items gs l bs).mpr hm)
  simpa [PCtx.items] using this

/-- `genConst`'s code loads the constant. -/
theorem exec_genConst (K : PCtx) (wf : K.WF) (reg : Reg) (c : CInt) (gs gs' : GS) (code : Code) (σ : X.St)
    (i : Nat) (a b : Word) (mem : Mem) (io : Isa.IOSt)
    (hg : genConst reg c gs = .ok (code, gs')) (hat : At K.env.ds i (K.low code)) (hr : Rep K σ mem)
    (hc : ConstsIn K gs') :
    Steps K.env (cfg i a b mem) io
      (cfg (i + (K.low code).length) (match reg with | .A => c | .B => a) (match reg with | .A => b | .B => c) mem) io := by
  obtain ⟨_, _, _, h⟩ := genConst_inv reg c gs gs' code hg
  rcases h with ⟨_, _, _, hcode⟩ | ⟨_, label, hmem, hcode⟩
  · subst hcode
    cases reg with
    | A =>
      simp only [constCode, PCtx.low, lowerCode_cons, lowerOne_dir, lowerCode_nil, iLDAC, List.append_nil] at hat ⊢
      apply Steps.one
      have := Step.ldac (env := K.env) (cfg i a b mem) io c.toInt hat.head
      simpa [W_toInt] using this
    | B =>
      simp only [constCode, PCtx.low, lowerCode_cons, lowerOne_dir, lowerCode_nil, iLDBC, List.append_nil] at hat ⊢
      apply Steps.one
      have := Step.ldbc (env := K.env) (cfg i a b mem) io c.toInt hat.head
      simpa [W_toInt] using this
  · subst hcode
    obtain ⟨j, k, hd, hal, hlt⟩ := wf.const_lbl _ _ (hc.const hmem)
    have hli := labelIdx_of_nodup _ _ _ _ wf.nodup hd
    have hval := hr.consts _ _ j k (hc.const hmem) hd
    rw [W_toInt] at hval
    have hld : Isa.ld mem (BitVec.ofNat 32 (K.env.addr j / 4)) = some c := by
      rw [ld_ofNat _ _ (by have := wf.sp_le; omega), hval]
    cases reg with
    | A =>
      simp only [poolCode, PCtx.low, lowerCode_cons, lowerOne_dir, lowerCode_nil, lLDAM, List.append_nil] at hat ⊢
      apply Steps.one
      have := Step.ldamL (env := K.env) (cfg i a b mem) io label j c hat.head hli hal hld
      simpa using this
    | B =>
      simp only [poolCode, PCtx.low, lowerCode_cons, lowerOne_dir, lowerCode_nil, lLDBM, List.append_nil] at hat ⊢
      apply Steps.one
      have := Step.ldbmL (env := K.env) (cfg i a b mem) io label j c hat.head hli hal hld
      simpa using this

/-- `genVar`'s code loads the variable's word. -/
theorem exec_genVar (K : PCtx) (wf : K.WF) (reg : Reg) (n : String) (sym : Symbol) (σ : X.St)
    (i : Nat) (a b : Word) (mem : Mem) (io : Isa.IOSt) (ad : Nat)
    (hl : K.ctx.tbl.lookup K.ctx.scope n = .ok sym) (hat : At K.env.ds i (K.low (genVar reg sym)))
    (hr : Rep K σ mem) (hloc : K.loc n = some ad) (hlt : ad < memWords) :
    Steps K.env (cfg i a b mem) io
      (cfg (i + (K.low (genVar reg sym)).length) (match reg with | .A => mem.read ad | .B => a)
        (match reg with | .A => b | .B => mem.read ad) mem) io := by
  by_cases hs : sym.scope = ""
  · obtain ⟨j, k, hd, hal, hloc'⟩ := wf.var_global n sym ad hl hs hloc
    have hli := labelIdx_of_nodup _ _ _ _ wf.nodup hd
    have hld : Isa.ld mem (BitVec.ofNat 32 (K.env.addr j / 4)) = some (mem.read ad) := by
      rw [← hloc', ld_ofNat _ _ hlt]
    cases reg with
    | A =>
      simp only [genVar, hs, if_true, PCtx.low, lowerCode_cons, lowerOne_dir, lowerCode_nil, lLDAM, List.append_nil] at hat ⊢
      apply Steps.one
      have := Step.ldamL (env := K.env) (cfg i a b mem) io _ j _ hat.head hli hal hld
      simpa using this
    | B =>
      simp only [genVar, hs, if_true, PCtx.low, lowerCode_cons, lowerOne_dir, lowerCode_nil, lLDBM, List.append_nil] at hat ⊢
      apply Steps.one
      have := Step.ldbmL (env := K.env) (cfg i a b mem) io _ j _ hat.head hli hal hld
      simpa using this
  · obtain ⟨hfr, hadr⟩ := wf.var_local n sym ad hl hs hloc
    have hS : (frameOf K.out sym.frame).size = K.S := by rw [hfr]; rfl
    have hsl := slot_addr K.sp K.S sym.stackOffset ad hadr
    cases reg with
    | A =>
      simp only [genVar, hs, if_false, PCtx.low, lowerCode_cons, lowerOne_dir, lowerOne_fb, lowerCode_nil, iLDAM,
        List.append_nil, List.cons_append, List.nil_append, fbOpc, hS, SP_OFFSET] at hat ⊢
      have s1 := Step.ldam (env := K.env) (cfg i a b mem) io 1 _ hat.head (ld_one mem)
      have hat2 := hat.tail
      have hld : Isa.ld mem (mem.read 1 + IAm.W ((K.S : Int) - 1 + sym.stackOffset)) = some (mem.read ad) := by
        rw [hr.sp, hsl, ld_ofNat _ _ hlt]
      have s2 := Step.ldai (env := K.env) (cfg (i + 1) (mem.read 1) b mem) io _ _ hat2.head hld
      refine Steps.step _ _ _ _ _ _ s1 (Steps.step _ _ _ _ _ _ s2 ?_)
      simp only [List.length_cons, List.length_nil]
      exact Steps.refl _ _
    | B =>
      simp only [genVar, hs, if_false, PCtx.low, lowerCode_cons, lowerOne_dir, lowerOne_fb, lowerCode_nil, iLDBM,
        List.append_nil, List.cons_append, List.nil_append, fbOpc, hS, SP_OFFSET] at hat ⊢
      have s1 := Step.ldbm (env := K.env) (cfg i a b mem) io 1 _ hat.head (ld_one mem)
      have hat2 := hat.tail
      have hld : Isa.ld mem (mem.read 1 + IAm.W ((K.S : Int) - 1 + sym.stackOffset)) = some (mem.read ad) := by
        rw [hr.sp, hsl, ld_ofNat _ _ hlt]
      have s2 := Step.ldbi (env := K.env) (cfg (i + 1) a (mem.read 1) mem) io _ _ hat2.head hld
      refine Steps.step _ _ _ _ _ _ s1 (Steps.step _ _ _ _ _ _ s2 ?_)
      simp only [List.length_cons, List.length_nil]
      exact Steps.refl _ _

/-- The `LDAC 0 / LDAC 1` selection after `BRZ`: 1 if the tested value is zero, else 0. -/
theorem exec_select_brz (K : PCtx) (wf : K.WF) (t e : String) (i : Nat) (x b : Word) (mem : Mem) (io : Isa.IOSt)
    (hat : At K.env.ds i (K.low (selectTail lBRZ t e))) :
    Steps K.env (cfg i x b mem) io (cfg (i + 6) (if x = 0 then 1 else 0) b mem) io := by
  simp only [selectTail, PCtx.low, lowerCode_cons, lowerOne_dir, lowerCode_nil, List.cons_append, List.nil_append,
    lBRZ, iLDAC, lBR, iLabel] at hat
  have h0 := hat.get 0 _ rfl
  have h1 := hat.get 1 _ rfl
  have h2 := hat.get 2 _ rfl
  have h3 := hat.get 3 _ rfl
  have h4 := hat.get 4 _ rfl
  have h5 := hat.get 5 _ rfl
  have lt := labelIdx_of_nodup _ _ _ _ wf.nodup h3
  have le := labelIdx_of_nodup _ _ _ _ wf.nodup h5
  have s0 := Step.brz (env := K.env) (cfg i x b mem) io t (i + 3) h0 lt
  by_cases hx : x = 0
  · simp only [hx, if_true] at s0 ⊢
    have s3 := Step.label (env := K.env) (cfg (i + 3) 0 b mem) io _ _ h3
    have s4 := Step.ldac (env := K.env) (cfg (i + 3 + 1) 0 b mem) io 1 h4
    have s5 := Step.label (env := K.env) (cfg (i + 3 + 1 + 1) (IAm.W 1) b mem) io _ _ h5
    exact Steps.step _ _ _ _ _ _ s0 (Steps.step _ _ _ _ _ _ s3 (Steps.step _ _ _ _ _ _ s4 (Steps.one s5)))
  · simp only [hx, if_false] at s0 ⊢
    have s1 := Step.ldac (env := K.env) (cfg (i + 1) x b mem) io 0 h1
    have s2 := Step.br (env := K.env) (cfg (i + 1 + 1) (IAm.W 0) b mem) io e (i + 5) h2 le
    have s5 := Step.label (env := K.env) (cfg (i + 5) (IAm.W 0) b mem) io _ _ h5
    exact Steps.step _ _ _ _ _ _ s0 (Steps.step _ _ _ _ _ _ s1 (Steps.step _ _ _ _ _ _ s2 (Steps.one s5)))

/-- The selection after `BRN`: 1 if the tested value is negative, else 0. -/
theorem exec_select_brn (K : PCtx) (wf : K.WF) (t e : String) (i : Nat) (x b : Word) (mem : Mem) (io : Isa.IOSt)
    (hat : At K.env.ds i (K.low (selectTail lBRN t e))) :
    Steps K.env (cfg i x b mem) io (cfg (i + 6) (if x.toInt < 0 then 1 else 0) b mem) io := by
  simp only [selectTail, PCtx.low, lowerCode_cons, lowerOne_dir, lowerCode_nil, List.cons_append, List.nil_append,
    lBRN, iLDAC, lBR, iLabel] at hat
  have h0 := hat.get 0 _ rfl
  have h1 := hat.get 1 _ rfl
  have h2 := hat.get 2 _ rfl
  have h3 := hat.get 3 _ rfl
  have h4 := hat.get 4 _ rfl
  have h5 := hat.get 5 _ rfl
  have lt := labelIdx_of_nodup _ _ _ _ wf.nodup h3
  have le := labelIdx_of_nodup _ _ _ _ wf.nodup h5
  have s0 := Step.brn (env := K.env) (cfg i x b mem) io t (i + 3) h0 lt
  by_cases hx : x.toInt < 0
  · simp only [hx, if_true] at s0 ⊢
    have s3 := Step.label (env := K.env) (cfg (i + 3) x b mem) io _ _ h3
    have s4 := Step.ldac (env := K.env) (cfg (i + 3 + 1) x b mem) io 1 h4
    have s5 := Step.label (env := K.env) (cfg (i + 3 + 1 + 1) (IAm.W 1) b mem) io _ _ h5
    exact Steps.step _ _ _ _ _ _ s0 (Steps.step _ _ _ _ _ _ s3 (Steps.step _ _ _ _ _ _ s4 (Steps.one s5)))
  · simp only [hx, if_false] at s0 ⊢
    have s1 := Step.ldac (env := K.env) (cfg (i + 1) x b mem) io 0 h1
    have s2 := Step.br (env := K.env) (cfg (i + 1 + 1) (IAm.W 0) b mem) io e (i + 5) h2 le
    have s5 := Step.label (env := K.env) (cfg (i + 5) (IAm.W 0) b mem) io _ _ h5
    exact Steps.step _ _ _ _ _ _ s0 (Steps.step _ _ _ _ _ _ s1 (Steps.step _ _ _ _ _ _ s2 (Steps.one s5)))

/-! ### The Hoare triples of expression code -/


/-- Upper end of the slots an expression may write: its own temporaries (`t = true`, call-free
    code), or the whole frame (code with calls, which also writes outgoing parameters). -/
def hiB (t : Bool) (K : PCtx) (gs : GS) : Nat := if t then gs.size else K.S

theorem hiB_true (K : PCtx) (gs : GS) : hiB true K gs = gs.size := rfl
theorem hiB_false (K : PCtx) (gs : GS) : hiB false K gs = K.S := rfl

theorem hiB_mono (t : Bool) (K : PCtx) {g1 g2 : GS} (h : g1.size ≤ g2.size) : hiB t K g1 ≤ hiB t K g2 := by
  cases t
  · exact Nat.le_refl _
  · exact h

theorem hiB_le (t : Bool) (K : PCtx) {g : GS} (h : g.size ≤ K.S) : hiB t K g ≤ K.S := by
  cases t
  · exact Nat.le_refl _
  · exact h

theorem hiB_ge (t : Bool) (K : PCtx) {g : GS} (h : g.size ≤ K.S) : g.size ≤ hiB t K g := by
  cases t
  · exact h
  · exact Nat.le_refl _

/-- Code generated for `e'` into areg: leaves `v` there; preserves what the memory represents;
    touches only frame slots from the current frame offset up to the frame size it asked for. -/
def ExecT (t : Bool) (K : PCtx) (e' : AExpr) (v : Word) (σ σ' : X.St) : Prop :=
  ∀ (gs : GS) (code : Code) (gs' : GS) (i : Nat) (a b : Word) (mem : Mem),
    genExpr K.ctx e' .A gs = .ok (code, gs') → At K.env.ds i (K.low code) → Rep K σ mem →
    gs'.size ≤ K.S → K.nlocals ≤ gs.offset → ConstsIn K gs' →
    ∃ b' mem', Steps K.env (cfg i a b mem) σ.io (cfg (i + (K.low code).length) v b' mem') σ'.io ∧
      Rep K σ' mem' ∧ FrmC K gs.offset (hiB t K gs') mem mem'

/-- The triple of code whose evaluation does not change the source state (`ExecT` is the general
    form: the evaluation of a call of an impure function leads from `σ` to another state). -/
def ExecAt (t : Bool) (K : PCtx) (e' : AExpr) (v : Word) (σ : X.St) : Prop := ExecT t K e' v σ σ

/-- The same with a predicate on the word left in areg (the address of a string literal depends on the
    state of the generator). -/
def ExecP (t : Bool) (K : PCtx) (e' : AExpr) (P : Word → Prop) (σ : X.St) : Prop :=
  ∀ (gs : GS) (code : Code) (gs' : GS) (i : Nat) (a b : Word) (mem : Mem),
    genExpr K.ctx e' .A gs = .ok (code, gs') → At K.env.ds i (K.low code) → Rep K σ mem →
    gs'.size ≤ K.S → K.nlocals ≤ gs.offset → ConstsIn K gs' →
    ∃ v b' mem', P v ∧ Steps K.env (cfg i a b mem) σ.io (cfg (i + (K.low code).length) v b' mem') σ.io ∧
      Rep K σ mem' ∧ FrmC K gs.offset (hiB t K gs') mem mem'

theorem ExecAt.toP {t : Bool} {K : PCtx} {e' : AExpr} {v : Word} {σ : X.St} (h : ExecAt t K e' v σ)
    {P : Word → Prop} (hP : P v) : ExecP t K e' P σ := by
  intro gs code gs' i a b mem hg hat hr hsz hnl hci
  obtain ⟨b', mem', st, rep, frm⟩ := h gs code gs' i a b mem hg hat hr hsz hnl hci
  exact ⟨v, b', mem', hP, st, rep, frm⟩

/-- The triple for call-free code. -/
abbrev ExecA (K : PCtx) (e' : AExpr) (v : Word) (σ : X.St) : Prop := ExecAt true K e' v σ

/-- Code generated for a simple operand into breg: leaves `v` there, nothing else changes. -/
def ExecB (K : PCtx) (e' : AExpr) (v : Word) (σ : X.St) : Prop :=
  ∀ (gs : GS) (code : Code) (gs' : GS) (i : Nat) (a b : Word) (mem : Mem) (io : Isa.IOSt),
    genExpr K.ctx e' .B gs = .ok (code, gs') → At K.env.ds i (K.low code) → Rep K σ mem → ConstsIn K gs' →
    Steps K.env (cfg i a b mem) io (cfg (i + (K.low code).length) a v mem) io

theorem low_append (K : PCtx) (c1 c2 : Code) : K.low (c1 ++ c2) = K.low c1 ++ K.low c2 := lowerCode_append _ _ _

theorem slot_inj (K : PCtx) (k1 k2 : Nat) (h1 : k1 < K.S) (h2 : k2 < K.S) (h : K.slot k1 = K.slot k2) : k1 = k2 := by
  unfold PCtx.slot at h; omega

theorem ConstsIn.of_eff {K : PCtx} {gs gs' : GS} (h : ConstsIn K gs') (e : Eff gs gs') : ConstsIn K gs :=
  fun x hx => h x (e.2.2.2 x hx)

/-- The triples of the two operands of a diadic operator, in the order the code evaluates them: the
    right one first when it needs areg (its value is parked in a temporary), else the left one first
    and the right one straight into breg.  `σ0` is the source state before, `σ2` the one after. -/
def Opnds2 (t : Bool) (K : PCtx) (L R : AExpr) (vl vr : Word) (σ0 σ2 : X.St) : Prop :=
  (needsAReg R = true → ∃ σ1, ExecT t K R vr σ0 σ1 ∧ ExecT t K L vl σ1 σ2) ∧
  (needsAReg R = false → ExecT t K L vl σ0 σ2 ∧ ExecB K R vr σ2)

theorem Opnds2.same {t : Bool} {K : PCtx} {L R : AExpr} {vl vr : Word} {σ : X.St}
    (hL : ExecAt t K L vl σ) (hRA : needsAReg R = true → ExecAt t K R vr σ)
    (hRB : needsAReg R = false → ExecB K R vr σ) : Opnds2 t K L R vl vr σ σ :=
  ⟨fun h => ⟨σ, hRA h, hL⟩, fun h => ⟨hL, hRB h⟩⟩

/-- `genBinopOperands`: LHS ends up in areg, RHS in breg. -/
theorem exec_operandsT {t : Bool} (K : PCtx) (wf : K.WF) (l' r' : AExpr) (vl vr : Word) (σ0 σ2 : X.St)
    (hO : Opnds2 t K l' r' vl vr σ0 σ2)
    (gs : GS) (c : Code) (gs' : GS) (i : Nat) (a b : Word) (mem : Mem)
    (hg : genOperands K.ctx l' r' gs = .ok (c, gs')) (hat : At K.env.ds i (K.low c)) (hr : Rep K σ0 mem)
    (hsz : gs'.size ≤ K.S) (hnl : K.nlocals ≤ gs.offset) (hci : ConstsIn K gs') :
    ∃ mem', Steps K.env (cfg i a b mem) σ0.io (cfg (i + (K.low c).length) vl vr mem') σ2.io ∧
      Rep K σ2 mem' ∧ FrmC K gs.offset (hiB t K gs') mem mem' := by
  unfold genOperands at hg
  obtain ⟨hA, hB⟩ := binopOperands_inv _ _ _ _ _ _ _ _ hg
  cases hn : needsAReg r' with
  | true =>
    obtain ⟨cr, gs1, cl, gs2, h1, h2, hcode, hgs'⟩ := hA hn
    have e1 := genExpr_eff _ _ _ _ _ _ h1
    have e2 := genExpr_eff _ _ _ _ _ _ h2
    obtain ⟨e1o, e1s, _, _⟩ := e1
    obtain ⟨e2o, e2s, _, e2c⟩ := e2
    simp only at e2o e2s e2c
    subst hgs'
    simp only at hsz hci
    subst hcode
    simp only [low_append, List.append_assoc] at hat ⊢
    -- the temporary's frame offset
    have hoff : gs1.offset < K.S := by omega
    have hhi : hiB t K { gs2 with offset := gs.offset } = hiB t K gs2 := rfl
    rw [hhi]
    have hb1 : hiB t K gs1 ≤ hiB t K gs2 := hiB_mono t K (by omega)
    have hb2 : hiB t K gs2 ≤ K.S := hiB_le t K hsz
    have hb3 : gs2.size ≤ hiB t K gs2 := hiB_ge t K hsz
    have hci2 : ConstsIn K gs2 := hci
    have hci1 : ConstsIn K gs1 := fun x hx => hci2 x (e2c x hx)
    -- RHS into areg
    obtain ⟨σ1, hR1, hL1⟩ := hO.1 hn
    obtain ⟨b1, mem1, st1, rep1, frm1⟩ := hR1 gs cr gs1 i a b mem h1 hat.left hr (by omega) hnl hci1
    -- save it
    have hat' := hat.right
    simp only [PCtx.low, lowerCode_cons, lowerOne_dir, lowerOne_fb, lowerCode_nil, iLDBM, List.cons_append,
      List.nil_append, List.append_nil, fbOpc, SP_OFFSET] at hat'
    have hS : (frameOf K.out K.ctx.frame).size = K.S := rfl
    rw [hS] at hat'
    have sA := Step.ldbm (env := K.env) (cfg (i + (K.low cr).length) vr b1 mem1) σ1.io 1 _ hat'.head (ld_one mem1)
    have hslot : (K.slot gs1.offset : Int) = (K.sp : Int) + (K.S : Int) - 1 + (-(gs1.offset : Int)) := by
      unfold PCtx.slot; omega
    have hadr := slot_addr K.sp K.S (-(gs1.offset : Int)) (K.slot gs1.offset) hslot
    obtain ⟨hsl1, hsl2⟩ := wf.slot_ok gs1.offset hoff
    have hst : IAm.store K.env mem1 (mem1.read 1 + IAm.W ((K.S : Int) - 1 + -(gs1.offset : Int))) vr
        = some (mem1.write (K.slot gs1.offset) vr) := by
      rw [rep1.sp, hadr]; exact store_ofNat _ _ _ _ hsl1 hsl2
    have hne1 : (mem1.read 1 + IAm.W ((K.S : Int) - 1 + -(gs1.offset : Int))).toNat ≠ 1 := by
      rw [rep1.sp, hadr]
      exact ofNat_toNat_ne_one _ (by have := wf.sp_ge; unfold PCtx.slot; omega) hsl1
    have sB := Step.stai (env := K.env) (cfg (i + (K.low cr).length + 1) vr (mem1.read 1) mem1) σ1.io _ _
      hat'.tail.head hst hne1
    -- memory after the save still represents σ1
    have frm2 : Frm K gs1.offset (gs1.offset + 1) mem1 (mem1.write (K.slot gs1.offset) vr) := by
      intro ad had
      rw [Mem.read_write_other]
      exact fun e => had gs1.offset (Nat.le_refl _) (by omega) e.symm
    have rep2 := rep1.frame wf frm2 (by omega) (by omega)
    -- LHS into areg
    have hat'' := hat'.tail.tail
    obtain ⟨b3, mem3, st3, rep3, frm3⟩ := hL1 _ cl gs2 (i + (K.low cr).length + 1 + 1) vr (mem1.read 1)
      (mem1.write (K.slot gs1.offset) vr) h2 hat''.left rep2 (by omega) (by simp only; omega) hci2
    simp only at frm3
    -- restore RHS into breg
    have hat3 := hat''.right
    have sC := Step.ldbm (env := K.env) (cfg (i + (K.low cr).length + 1 + 1 + (K.low cl).length) vl b3 mem3) σ2.io 1 _
      hat3.head (ld_one mem3)
    have hkeep : mem3.read (K.slot gs1.offset) = vr := by
      rw [frm3 _ (slot_ge K gs1.offset hoff) (wf.not_inArr _ (by unfold PCtx.slot; omega)) (fun k h1 h2 e => by
        have := slot_inj K gs1.offset k hoff (by omega) e; omega)]
      exact Mem.read_write_same _ _ _ hsl1
    have hld : Isa.ld mem3 (mem3.read 1 + IAm.W ((K.S : Int) - 1 + -(gs1.offset : Int))) = some vr := by
      rw [rep3.sp, hadr, ld_ofNat _ _ hsl1, hkeep]
    have sD := Step.ldbi (env := K.env) (cfg (i + (K.low cr).length + 1 + 1 + (K.low cl).length + 1) vl (mem3.read 1) mem3)
      σ2.io _ _ hat3.tail.head hld
    refine ⟨mem3, ?_, rep3, ?_⟩
    · have hlen : i + ((K.low cr).length + ((K.low [iLDBM SP_OFFSET, IDir.fb FbKind.stai K.ctx.frame (-(gs1.offset : Int))]).length +
          ((K.low cl).length + (K.low [iLDBM SP_OFFSET, IDir.fb FbKind.ldbi K.ctx.frame (-(gs1.offset : Int))]).length)))
          = i + (K.low cr).length + 1 + 1 + (K.low cl).length + 1 + 1 := by
        have l1 : (K.low [iLDBM SP_OFFSET, IDir.fb FbKind.stai K.ctx.frame (-(gs1.offset : Int))]).length = 2 := rfl
        have l2 : (K.low [iLDBM SP_OFFSET, IDir.fb FbKind.ldbi K.ctx.frame (-(gs1.offset : Int))]).length = 2 := rfl
        rw [l1, l2]; omega
      simp only [List.length_append]
      rw [hlen]
      exact st1.trans (Steps.step _ _ _ _ _ _ sA (Steps.step _ _ _ _ _ _ sB
        (st3.trans (Steps.step _ _ _ _ _ _ sC (Steps.one sD)))))
    · -- frame condition
      intro ad hsp hna had
      rw [frm3 ad hsp hna (fun k h1 h2 => had k (by omega) (by omega))]
      rw [Mem.read_write_other _ _ _ _ (fun e => had gs1.offset (by omega) (by omega) e.symm)]
      exact frm1 ad hsp hna (fun k h1 h2 => had k h1 (by omega))
  | false =>
    obtain ⟨cl, gs1, cr, h1, h2, hcode⟩ := hB hn
    have e2 := genExpr_eff _ _ _ _ _ _ h2
    obtain ⟨e2o, e2s, _, e2c⟩ := e2
    subst hcode
    simp only [low_append] at hat ⊢
    have hci1 : ConstsIn K gs1 := fun x hx => hci x (e2c x hx)
    obtain ⟨hL1, hRB1⟩ := hO.2 hn
    obtain ⟨b1, mem1, st1, rep1, frm1⟩ := hL1 gs cl gs1 i a b mem h1 hat.left hr (by omega) hnl hci1
    have st2 := hRB1 gs1 cr gs' (i + (K.low cl).length) vl b1 mem1 σ2.io h2 hat.right rep1 hci
    refine ⟨mem1, ?_, rep1, frm1.mono (Nat.le_refl _) (hiB_mono t K e2s)⟩
    simp only [List.length_append]
    rw [← Nat.add_assoc]
    exact st1.trans st2

theorem exec_operands {t : Bool} (K : PCtx) (wf : K.WF) (l' r' : AExpr) (vl vr : Word) (σ : X.St)
    (hL : ExecAt t K l' vl σ) (hRA : needsAReg r' = true → ExecAt t K r' vr σ)
    (hRB : needsAReg r' = false → ExecB K r' vr σ)
    (gs : GS) (c : Code) (gs' : GS) (i : Nat) (a b : Word) (mem : Mem)
    (hg : genOperands K.ctx l' r' gs = .ok (c, gs')) (hat : At K.env.ds i (K.low c)) (hr : Rep K σ mem)
    (hsz : gs'.size ≤ K.S) (hnl : K.nlocals ≤ gs.offset) (hci : ConstsIn K gs') :
    ∃ mem', Steps K.env (cfg i a b mem) σ.io (cfg (i + (K.low c).length) vl vr mem') σ.io ∧
      Rep K σ mem' ∧ FrmC K gs.offset (hiB t K gs') mem mem' :=
  exec_operandsT K wf l' r' vl vr σ σ (Opnds2.same hL hRA hRB) gs c gs' i a b mem hg hat hr hsz hnl hci

/-! ### Operator shapes -/

theorem ExecAt.same {t : Bool} {K : PCtx} {e' : AExpr} {v : Word} {σ σ' : X.St} (h : ExecAt t K e' v σ) (hs : SameVars σ σ') :
    ExecAt t K e' v σ' := by
  intro gs code gs' i a b mem hg hat hr hsz hnl hci
  obtain ⟨b', mem', st, rep, frm⟩ := h gs code gs' i a b mem hg hat (hr.same hs.symm) hsz hnl hci
  exact ⟨b', mem', by rw [hs.2.2.2.1]; exact st, rep.same hs, frm⟩

theorem ExecAt.weaken {t : Bool} {K : PCtx} {e' : AExpr} {v : Word} {σ : X.St} (h : ExecAt true K e' v σ) :
    ExecAt t K e' v σ := by
  intro gs code gs' i a b mem hg hat hr hsz hnl hci
  obtain ⟨b', mem', st, rep, frm⟩ := h gs code gs' i a b mem hg hat hr hsz hnl hci
  exact ⟨b', mem', st, rep, frm.mono (Nat.le_refl _) (hiB_ge t K hsz)⟩

theorem ExecT.same_left {t : Bool} {K : PCtx} {e' : AExpr} {v : Word} {σ0 σ σ' : X.St} (h : ExecT t K e' v σ σ')
    (hs : SameVars σ0 σ) : ExecT t K e' v σ0 σ' := by
  intro gs code gs' i a b mem hg hat hr hsz hnl hci
  obtain ⟨b', mem', st, rep, frm⟩ := h gs code gs' i a b mem hg hat (hr.same hs) hsz hnl hci
  exact ⟨b', mem', by rw [← hs.2.2.2.1]; exact st, rep, frm⟩

theorem ExecT.same_right {t : Bool} {K : PCtx} {e' : AExpr} {v : Word} {σ σ' σ2 : X.St} (h : ExecT t K e' v σ σ')
    (hs : SameVars σ' σ2) : ExecT t K e' v σ σ2 := by
  intro gs code gs' i a b mem hg hat hr hsz hnl hci
  obtain ⟨b', mem', st, rep, frm⟩ := h gs code gs' i a b mem hg hat hr hsz hnl hci
  exact ⟨b', mem', by rw [hs.2.2.2.1]; exact st, rep.same hs, frm⟩

theorem ExecP.same {t : Bool} {K : PCtx} {e' : AExpr} {P : Word → Prop} {σ σ' : X.St} (h : ExecP t K e' P σ)
    (hs : SameVars σ σ') : ExecP t K e' P σ' := by
  intro gs code gs' i a b mem hg hat hr hsz hnl hci
  obtain ⟨v, b', mem', hP, st, rep, frm⟩ := h gs code gs' i a b mem hg hat (hr.same hs.symm) hsz hnl hci
  exact ⟨v, b', mem', hP, by rw [hs.2.2.2.1]; exact st, rep.same hs, frm⟩

theorem ExecP.weaken {t : Bool} {K : PCtx} {e' : AExpr} {P : Word → Prop} {σ : X.St} (h : ExecP true K e' P σ) :
    ExecP t K e' P σ := by
  intro gs code gs' i a b mem hg hat hr hsz hnl hci
  obtain ⟨v, b', mem', hP, st, rep, frm⟩ := h gs code gs' i a b mem hg hat hr hsz hnl hci
  exact ⟨v, b', mem', hP, st, rep, frm.mono (Nat.le_refl _) (hiB_ge t K hsz)⟩

theorem ExecB.same {K : PCtx} {e' : AExpr} {v : Word} {σ σ' : X.St} (h : ExecB K e' v σ) (hs : SameVars σ σ') :
    ExecB K e' v σ' := by
  intro gs code gs' i a b mem io hg hat hr hci
  exact h gs code gs' i a b mem io hg hat (hr.same hs.symm) hci

theorem low_single_dir (K : PCtx) (d : Dir) : K.low [.dir d] = [d] := rfl

theorem shape_plusT {t : Bool} (K : PCtx) (wf : K.WF) (L R : AExpr) (vl vr : Word) (σ0 σ2 : X.St)
    (hO : Opnds2 t K L R vl vr σ0 σ2) : ExecT t K (.bin .plus L R none) (vl + vr) σ0 σ2 := by
  intro gs code gs' i a b mem hg hat hr hsz hnl hci
  obtain ⟨c, h1, hcode⟩ := genExpr_plus_inv _ _ _ _ _ _ _ hg
  subst hcode
  simp only [low_append] at hat ⊢
  obtain ⟨mem', st, rep, frm⟩ := exec_operandsT K wf L R vl vr σ0 σ2 hO gs c gs' i a b mem h1 hat.left hr hsz hnl hci
  have hat2 := hat.right
  simp only [iADD, low_single_dir] at hat2 ⊢
  have s := Step.add (env := K.env) (cfg (i + (K.low c).length) vl vr mem') σ2.io hat2.head
  refine ⟨vr, mem', ?_, rep, frm⟩
  simp only [List.length_append, List.length_cons, List.length_nil, ← Nat.add_assoc]
  exact st.trans (Steps.one s)

theorem shape_plus {t : Bool} (K : PCtx) (wf : K.WF) (L R : AExpr) (vl vr : Word) (σ : X.St)
    (hL : ExecAt t K L vl σ) (hRA : needsAReg R = true → ExecAt t K R vr σ) (hRB : needsAReg R = false → ExecB K R vr σ) :
    ExecAt t K (.bin .plus L R none) (vl + vr) σ :=
  shape_plusT K wf L R vl vr σ σ (Opnds2.same hL hRA hRB)

theorem shape_minusT {t : Bool} (K : PCtx) (wf : K.WF) (L R : AExpr) (vl vr : Word) (σ0 σ2 : X.St)
    (hO : Opnds2 t K L R vl vr σ0 σ2) : ExecT t K (.bin .minus L R none) (vl - vr) σ0 σ2 := by
  intro gs code gs' i a b mem hg hat hr hsz hnl hci
  obtain ⟨c, h1, hcode⟩ := genExpr_minus_inv _ _ _ _ _ _ _ hg
  subst hcode
  simp only [low_append] at hat ⊢
  obtain ⟨mem', st, rep, frm⟩ := exec_operandsT K wf L R vl vr σ0 σ2 hO gs c gs' i a b mem h1 hat.left hr hsz hnl hci
  have hat2 := hat.right
  simp only [iSUB, low_single_dir] at hat2 ⊢
  have s := Step.sub (env := K.env) (cfg (i + (K.low c).length) vl vr mem') σ2.io hat2.head
  refine ⟨vr, mem', ?_, rep, frm⟩
  simp only [List.length_append, List.length_cons, List.length_nil, ← Nat.add_assoc]
  exact st.trans (Steps.one s)

theorem shape_minus {t : Bool} (K : PCtx) (wf : K.WF) (L R : AExpr) (vl vr : Word) (σ : X.St)
    (hL : ExecAt t K L vl σ) (hRA : needsAReg R = true → ExecAt t K R vr σ) (hRB : needsAReg R = false → ExecB K R vr σ) :
    ExecAt t K (.bin .minus L R none) (vl - vr) σ :=
  shape_minusT K wf L R vl vr σ σ (Opnds2.same hL hRA hRB)

theorem low_selectTail_length (K : PCtx) (br : String → IDir) (hbr : ∀ l, ∃ d, br l = .dir d) (t e : String) :
    (K.low (selectTail br t e)).length = 6 := by
  obtain ⟨d, hd⟩ := hbr t
  simp [selectTail, PCtx.low, lowerCode_cons, lowerCode_nil, hd, iLDAC, lBR, iLabel]

/-- The operand of the zero test of `=` / `<`: the word `vl - vr`, or `vr` itself when the left
    operand is the constant zero (only `=` uses that shortcut). -/
theorem exec_eqOperandT {t : Bool} (K : PCtx) (wf : K.WF) (L R : AExpr) (vl vr : Word) (σ0 σ2 : X.St) (lz rz : Bool)
    (hO : Opnds2 t K L R vl vr σ0 σ2)
    (hRo : lz = true → ExecT t K R vr σ0 σ2) (hLo : rz = true → ExecT t K L vl σ0 σ2)
    (hlz : lz = true → ∀ m, Rep K σ0 m → vl = 0) (hrz : rz = true → ∀ m, Rep K σ0 m → vr = 0)
    (gs : GS) (c : Code) (gs' : GS) (i : Nat) (a b : Word) (mem : Mem)
    (hg : eqOperand lz rz (genExpr K.ctx L .A) (genExpr K.ctx R .A) (genOperands K.ctx L R) gs = .ok (c, gs'))
    (hat : At K.env.ds i (K.low c)) (hr : Rep K σ0 mem)
    (hsz : gs'.size ≤ K.S) (hnl : K.nlocals ≤ gs.offset) (hci : ConstsIn K gs') :
    ∃ x b' mem', (x = vl - vr ∨ (lz = true ∧ vl = 0 ∧ x = vr)) ∧
      Steps K.env (cfg i a b mem) σ0.io (cfg (i + (K.low c).length) x b' mem') σ2.io ∧
      Rep K σ2 mem' ∧ FrmC K gs.offset (hiB t K gs') mem mem' := by
  rcases eqOperand_inv _ _ _ _ _ _ _ _ hg with ⟨h0, h1⟩ | ⟨_, h0, h1⟩ | ⟨_, _, c', h1, hcode⟩
  · obtain ⟨b', mem', st, rep, frm⟩ := hRo h0 gs c gs' i a b mem h1 hat hr hsz hnl hci
    exact ⟨vr, b', mem', Or.inr ⟨h0, hlz h0 mem hr, rfl⟩, st, rep, frm⟩
  · have := hrz h0 mem hr
    subst this
    obtain ⟨b', mem', st, rep, frm⟩ := hLo h0 gs c gs' i a b mem h1 hat hr hsz hnl hci
    exact ⟨vl, b', mem', Or.inl (by simp), st, rep, frm⟩
  · subst hcode
    simp only [low_append] at hat ⊢
    obtain ⟨mem', st, rep, frm⟩ := exec_operandsT K wf L R vl vr σ0 σ2 hO gs c' gs' i a b mem h1
      hat.left hr hsz hnl hci
    have hat2 := hat.right
    simp only [iSUB, low_single_dir] at hat2 ⊢
    have s := Step.sub (env := K.env) (cfg (i + (K.low c').length) vl vr mem') σ2.io hat2.head
    refine ⟨vl - vr, vr, mem', Or.inl rfl, ?_, rep, frm⟩
    simp only [List.length_append, List.length_cons, List.length_nil, ← Nat.add_assoc]
    exact st.trans (Steps.one s)

theorem shape_eqT {t : Bool} (K : PCtx) (wf : K.WF) (L R : AExpr) (vl vr : Word) (σ0 σ2 : X.St)
    (hO : Opnds2 t K L R vl vr σ0 σ2)
    (hRo : L.isConstZero = true → ExecT t K R vr σ0 σ2) (hLo : R.isConstZero = true → ExecT t K L vl σ0 σ2)
    (hlz : L.isConstZero = true → ∀ m, Rep K σ0 m → vl = 0) (hrz : R.isConstZero = true → ∀ m, Rep K σ0 m → vr = 0) :
    ExecT t K (.bin .eq L R none) (rtEq vl vr) σ0 σ2 := by
  intro gs code gs' i a b mem hg hat hr hsz hnl hci
  obtain ⟨c, gs1, h1, hgs', hcode⟩ := genExpr_eq_inv _ _ _ _ _ _ _ hg
  subst hgs'; subst hcode
  simp only [low_append] at hat ⊢
  obtain ⟨x, b', mem', hx, st, rep, frm⟩ := exec_eqOperandT K wf L R vl vr σ0 σ2 _ _ hO hRo hLo hlz hrz gs c gs1 i a b mem h1
    hat.left hr hsz hnl hci
  have st2 := exec_select_brz K wf _ _ (i + (K.low c).length) x b' mem' σ2.io hat.right
  refine ⟨b', mem', ?_, rep, frm⟩
  have hlen : (K.low (selectTail lBRZ (lab gs1.labelCount) (lab (gs1.labelCount + 1)))).length = 6 :=
    low_selectTail_length K lBRZ (fun l => ⟨_, rfl⟩) _ _
  simp only [List.length_append, hlen, ← Nat.add_assoc]
  have hval : (if x = 0 then (1 : Word) else 0) = rtEq vl vr := by
    rcases hx with hx | ⟨_, h0, hx⟩
    · subst hx; rfl
    · subst hx; subst h0; rw [rtEq_zero_left]; rfl
  rw [← hval]
  exact st.trans st2

theorem shape_eq {t : Bool} (K : PCtx) (wf : K.WF) (L R : AExpr) (vl vr : Word) (σ : X.St)
    (hL : ExecAt t K L vl σ) (hR : ExecAt t K R vr σ) (hRB : needsAReg R = false → ExecB K R vr σ)
    (hlz : L.isConstZero = true → ∀ m, Rep K σ m → vl = 0) (hrz : R.isConstZero = true → ∀ m, Rep K σ m → vr = 0) :
    ExecAt t K (.bin .eq L R none) (rtEq vl vr) σ :=
  shape_eqT K wf L R vl vr σ σ (Opnds2.same hL (fun _ => hR) hRB) (fun _ => hR) (fun _ => hL) hlz hrz

theorem shape_lsT {t : Bool} (K : PCtx) (wf : K.WF) (L R : AExpr) (vl vr : Word) (σ0 σ2 : X.St)
    (hO : Opnds2 t K L R vl vr σ0 σ2) (hLo : R.isConstZero = true → ExecT t K L vl σ0 σ2)
    (hrz : R.isConstZero = true → ∀ m, Rep K σ0 m → vr = 0) :
    ExecT t K (.bin .ls L R none) (rtLs vl vr) σ0 σ2 := by
  intro gs code gs' i a b mem hg hat hr hsz hnl hci
  obtain ⟨c, gs1, h1, hgs', hcode⟩ := genExpr_ls_inv _ _ _ _ _ _ _ hg
  subst hgs'; subst hcode
  simp only [low_append] at hat ⊢
  obtain ⟨x, b', mem', hx, st, rep, frm⟩ := exec_eqOperandT K wf L R vl vr σ0 σ2 false _ hO (by simp) hLo (by simp) hrz
    gs c gs1 i a b mem h1 hat.left hr hsz hnl hci
  have st2 := exec_select_brn K wf _ _ (i + (K.low c).length) x b' mem' σ2.io hat.right
  refine ⟨b', mem', ?_, rep, frm⟩
  have hlen : (K.low (selectTail lBRN (lab gs1.labelCount) (lab (gs1.labelCount + 1)))).length = 6 :=
    low_selectTail_length K lBRN (fun l => ⟨_, rfl⟩) _ _
  simp only [List.length_append, hlen, ← Nat.add_assoc]
  have hval : (if x.toInt < 0 then (1 : Word) else 0) = rtLs vl vr := by
    rcases hx with hx | ⟨h0, _, _⟩
    · subst hx
      unfold rtLs rtIsNeg
      rw [BitVec.msb_eq_toInt]
      by_cases h : (vl - vr).toInt < 0 <;> simp [h]
    · simp at h0
  rw [← hval]
  exact st.trans st2

theorem shape_ls {t : Bool} (K : PCtx) (wf : K.WF) (L R : AExpr) (vl vr : Word) (σ : X.St)
    (hL : ExecAt t K L vl σ) (hR : ExecAt t K R vr σ) (hRB : needsAReg R = false → ExecB K R vr σ)
    (hrz : R.isConstZero = true → ∀ m, Rep K σ m → vr = 0) :
    ExecAt t K (.bin .ls L R none) (rtLs vl vr) σ :=
  shape_lsT K wf L R vl vr σ σ (Opnds2.same hL (fun _ => hR) hRB) (fun _ => hL) hrz

theorem shape_notT {t : Bool} (K : PCtx) (wf : K.WF) (E : AExpr) (x : Word) (σ0 σ1 : X.St) (hE : ExecT t K E x σ0 σ1) :
    ExecT t K (.un .not E none) (rtIsZero x) σ0 σ1 := by
  intro gs code gs' i a b mem hg hat hr hsz hnl hci
  obtain ⟨ce, h1, hcode⟩ := genExpr_not_inv _ _ _ _ _ _ hg
  subst hcode
  simp only [low_append] at hat ⊢
  obtain ⟨b', mem', st, rep, frm⟩ := hE _ ce gs' i a b mem h1 hat.left hr hsz hnl hci
  have st2 := exec_select_brz K wf _ _ (i + (K.low ce).length) x b' mem' σ1.io hat.right
  refine ⟨b', mem', ?_, rep, frm⟩
  have hlen : (K.low (selectTail lBRZ (lab gs.labelCount) (lab (gs.labelCount + 1)))).length = 6 :=
    low_selectTail_length K lBRZ (fun l => ⟨_, rfl⟩) _ _
  simp only [List.length_append, hlen, ← Nat.add_assoc]
  exact st.trans st2

theorem shape_not {t : Bool} (K : PCtx) (wf : K.WF) (E : AExpr) (x : Word) (σ : X.St) (hE : ExecAt t K E x σ) :
    ExecAt t K (.un .not E none) (rtIsZero x) σ :=
  shape_notT K wf E x σ σ hE

theorem shape_and {t : Bool} (K : PCtx) (wf : K.WF) (L R : AExpr) (vl vr : Word) (σ : X.St)
    (hL : ExecAt t K L vl σ) (hR : vl ≠ 0 → ExecAt t K R vr σ) :
    ExecAt t K (.bin .and L R none) (if vl = 0 then vl else vr) σ := by
  intro gs code gs' i a b mem hg hat hr hsz hnl hci
  obtain ⟨cl, gs1, cr, h1, h2, hcode⟩ := genExpr_and_inv _ _ _ _ _ _ _ hg
  subst hcode
  have e2 := genExpr_eff _ _ _ _ _ _ h2
  obtain ⟨e2o, e2s, _, e2c⟩ := e2
  have e1 := genExpr_eff _ _ _ _ _ _ h1
  obtain ⟨e1o, e1s, _, _⟩ := e1
  simp only at e1o e1s
  simp only [low_append, List.append_assoc] at hat ⊢
  obtain ⟨b1, mem1, st1, rep1, frm1⟩ := hL _ cl gs1 i a b mem h1 hat.left hr (by omega) hnl
    (fun x hx => hci x (e2c x hx))
  simp only at frm1
  have hat2 := hat.right
  have hbrz : K.low [lBRZ (lab gs.labelCount)] = [.ref 0xA (lab gs.labelCount) true] := rfl
  have hlbl : K.low [iLabel (lab gs.labelCount)] = [.label .plain (lab gs.labelCount)] := rfl
  rw [hbrz, hlbl] at hat2
  rw [hbrz, hlbl]
  have hend := hat2.right.right.head
  simp only [List.length_cons, List.length_nil] at hend
  have lend := labelIdx_of_nodup _ _ _ _ wf.nodup hend
  have s0 := Step.brz (env := K.env) (cfg (i + (K.low cl).length) vl b1 mem1) σ.io _ _ hat2.head lend
  simp only [List.length_append, List.length_cons, List.length_nil]
  by_cases hz : vl = 0
  · simp only [hz, if_true] at s0 ⊢
    have s1 := Step.label (env := K.env) (cfg (i + (K.low cl).length + (0 + 1) + (K.low cr).length) 0 b1 mem1) σ.io _ _
      (by simpa using hend)
    refine ⟨b1, mem1, ?_, rep1, frm1.mono (Nat.le_refl _) (hiB_mono t K e2s)⟩
    have : i + ((K.low cl).length + (0 + 1 + ((K.low cr).length + (0 + 1))))
        = i + (K.low cl).length + (0 + 1) + (K.low cr).length + 1 := by omega
    rw [this]
    rw [hz] at st1
    exact st1.trans (Steps.step _ _ _ _ _ _ s0 (Steps.one s1))
  · simp only [hz, if_false] at s0 ⊢
    obtain ⟨b2, mem2, st2, rep2, frm2⟩ := hR hz gs1 cr gs' (i + (K.low cl).length + 1) vl b1 mem1 h2
      hat2.right.left rep1 hsz (by omega) hci
    have s1 := Step.label (env := K.env) (cfg (i + (K.low cl).length + 1 + (K.low cr).length) vr b2 mem2) σ.io _ _
      (by simpa using hend)
    refine ⟨b2, mem2, ?_, rep2, ?_⟩
    · have : i + ((K.low cl).length + (0 + 1 + ((K.low cr).length + (0 + 1))))
          = i + (K.low cl).length + 1 + (K.low cr).length + 1 := by omega
      rw [this]
      exact st1.trans (Steps.step _ _ _ _ _ _ s0 (st2.trans (Steps.one s1)))
    · exact (frm1.mono (Nat.le_refl _) (hiB_mono t K e2s)).trans (frm2.mono (by omega) (Nat.le_refl _))

theorem shape_or {t : Bool} (K : PCtx) (wf : K.WF) (L R : AExpr) (vl vr : Word) (σ : X.St)
    (hL : ExecAt t K L vl σ) (hR : vl = 0 → ExecAt t K R vr σ) :
    ExecAt t K (.bin .or L R none) (if vl = 0 then vr else vl) σ := by
  intro gs code gs' i a b mem hg hat hr hsz hnl hci
  obtain ⟨cl, gs1, cr, h1, h2, hcode⟩ := genExpr_or_inv _ _ _ _ _ _ _ hg
  subst hcode
  have e2 := genExpr_eff _ _ _ _ _ _ h2
  obtain ⟨e2o, e2s, _, e2c⟩ := e2
  have e1 := genExpr_eff _ _ _ _ _ _ h1
  obtain ⟨e1o, e1s, _, _⟩ := e1
  simp only at e1o e1s
  simp only [low_append, List.append_assoc] at hat ⊢
  obtain ⟨b1, mem1, st1, rep1, frm1⟩ := hL _ cl gs1 i a b mem h1 hat.left hr (by omega) hnl
    (fun x hx => hci x (e2c x hx))
  simp only at frm1
  have hat2 := hat.right
  have hmid : K.low [lBRZ (lab gs.labelCount), lBR (lab (gs.labelCount + 1)), iLabel (lab gs.labelCount)]
      = [.ref 0xA (lab gs.labelCount) true, .ref 0x9 (lab (gs.labelCount + 1)) true, .label .plain (lab gs.labelCount)] := rfl
  have hlbl : K.low [iLabel (lab (gs.labelCount + 1))] = [.label .plain (lab (gs.labelCount + 1))] := rfl
  rw [hmid, hlbl] at hat2
  rw [hmid, hlbl]
  have hfalse := hat2.left.get 2 _ rfl
  have hend := hat2.right.right.head
  simp only [List.length_cons, List.length_nil] at hend
  have lfalse := labelIdx_of_nodup _ _ _ _ wf.nodup hfalse
  have lend := labelIdx_of_nodup _ _ _ _ wf.nodup hend
  have s0 := Step.brz (env := K.env) (cfg (i + (K.low cl).length) vl b1 mem1) σ.io _ _ hat2.head lfalse
  simp only [List.length_append, List.length_cons, List.length_nil]
  by_cases hz : vl = 0
  · simp only [hz, if_true] at s0 ⊢
    have s1 := Step.label (env := K.env) (cfg (i + (K.low cl).length + 2) 0 b1 mem1) σ.io _ _ hfalse
    obtain ⟨b2, mem2, st2, rep2, frm2⟩ := hR hz gs1 cr gs' (i + (K.low cl).length + 2 + 1) 0 b1 mem1 h2
      (by have := hat2.right.left; simpa [Nat.add_assoc] using this) rep1 hsz (by omega) hci
    have s2 := Step.label (env := K.env) (cfg (i + (K.low cl).length + 2 + 1 + (K.low cr).length) vr b2 mem2) σ.io _ _
      (by simpa [Nat.add_assoc] using hend)
    refine ⟨b2, mem2, ?_, rep2, ?_⟩
    · have : i + ((K.low cl).length + (0 + 1 + 1 + 1 + ((K.low cr).length + (0 + 1))))
          = i + (K.low cl).length + 2 + 1 + (K.low cr).length + 1 := by omega
      rw [this]
      rw [hz] at st1
      exact st1.trans (Steps.step _ _ _ _ _ _ s0 (Steps.step _ _ _ _ _ _ s1 (st2.trans (Steps.one s2))))
    · exact (frm1.mono (Nat.le_refl _) (hiB_mono t K e2s)).trans (frm2.mono (by omega) (Nat.le_refl _))
  · simp only [hz, if_false] at s0 ⊢
    have s1 := Step.br (env := K.env) (cfg (i + (K.low cl).length + 1) vl b1 mem1) σ.io _ _
      (hat2.left.get 1 _ rfl) lend
    have s2 := Step.label (env := K.env) (cfg (i + (K.low cl).length + (0 + 1 + 1 + 1) + (K.low cr).length) vl b1 mem1) σ.io _ _
      (by simpa using hend)
    refine ⟨b1, mem1, ?_, rep1, frm1.mono (Nat.le_refl _) (hiB_mono t K e2s)⟩
    have : i + ((K.low cl).length + (0 + 1 + 1 + 1 + ((K.low cr).length + (0 + 1))))
        = i + (K.low cl).length + (0 + 1 + 1 + 1) + (K.low cr).length + 1 := by omega
    rw [this]
    exact st1.trans (Steps.step _ _ _ _ _ _ s0 (Steps.step _ _ _ _ _ _ s1 (Steps.one s2)))

/-! ### Constant operands and simple operands -/

/-- The tree `OptimiseExpr` builds for a diadic node from its (possibly rewritten) operands. -/
def rewriteBin (op : BinOp) (L R : AExpr) (c : Option CInt) : AExpr :=
  match op with
  | .ne => .un .not (.bin .eq L R none) none
  | .ge => .un .not (.bin .ls L R none) none
  | .gr => .bin .ls R L none
  | .le => .un .not (.bin .ls R L none) none
  | _ => .bin op L R c

theorem optExpr_bin (op : BinOp) (l r : AExpr) (c : Option CInt) :
    optExpr (.bin op l r c) =
      rewriteBin op (if c.isSome then l else optExpr l) (if c.isSome then r else optExpr r) c := by
  conv => lhs; unfold optExpr
  unfold rewriteBin
  cases op <;> rfl

theorem optExpr_sub (n : String) (i : AExpr) : optExpr (.sub n i) = .sub n (optExpr i) := by
  conv => lhs; unfold optExpr

/-! ### Subscripts -/

theorem nonneg_ofNat (iv : Word) (h : 0 ≤ iv.toInt) : iv = BitVec.ofNat 32 iv.toInt.toNat := by
  have h1 : iv.toInt = (iv.toNat : Int) := by
    rw [BitVec.toInt_eq_toNat_cond] at h ⊢
    split at h
    · rename_i hc; rw [if_pos hc]
    · exfalso; have := iv.isLt; omega
  rw [h1]
  simp

theorem arrGet_glob (σ : X.St) (id : Nat) (iv w : Word) (h : X.arrGet σ (.glob id) iv = .ok w) :
    ∃ cells, σ.arrays[id]? = some cells ∧ 0 ≤ iv.toInt ∧ iv.toInt < cells.size ∧
      cells[iv.toInt.toNat]? = some (some w) := by
  unfold X.arrGet at h
  simp only at h
  cases hc : σ.arrays[id]? with
  | none => rw [hc] at h; simp at h
  | some cells =>
    rw [hc] at h
    simp only at h
    split at h
    · rename_i hb
      refine ⟨cells, rfl, hb.1, hb.2, ?_⟩
      split at h
      · rename_i w' hw
        simp only [Except.ok.injEq] at h
        rw [hw, h]
      · simp at h
    · simp at h

theorem arrayOf_ok (xc : X.Ctx) (σ : X.St) (n : String) (ar : ArrRef) (h : X.arrayOf xc σ n = .ok ar) :
    X.readName xc σ n = .ok (.arr ar) := by
  unfold X.arrayOf at h
  split at h
  · rename_i r hr; simp only [Except.ok.injEq] at h; rw [hr, h]
  · simp at h
  · simp at h

theorem arrGet_lit (σ : X.St) (ws : List Word) (iv w : Word) (h : X.arrGet σ (.lit ws) iv = .ok w) :
    0 ≤ iv.toInt ∧ iv.toInt < ws.length ∧ ws[iv.toInt.toNat]? = some w := by
  unfold X.arrGet at h
  simp only at h
  split at h
  · rename_i hb
    refine ⟨hb.1, hb.2, ?_⟩
    split at h
    · rename_i w' hw
      simp only [Except.ok.injEq] at h
      rw [hw, h]
    · simp at h
  · simp at h

/-- The pointer word of the array a name denotes (a global array or a string literal), and the load of one
    of its elements. -/
theorem rep_elem {K : PCtx} (wf : K.WF) {σ : X.St} {mem : Mem} (hr : Rep K σ mem) (n : String) (ar : ArrRef)
    (iv w : Word) (ha : X.arrayOf K.xc σ n = .ok ar) (hg : X.arrGet σ ar iv = .ok w) :
    ∃ ad, K.loc n = some ad ∧ ad < memWords ∧ Isa.ld mem (mem.read ad + iv) = some w := by
  obtain ⟨ad, hloc, hlt, hptr⟩ := hr.aptr n ar (arrayOf_ok _ _ _ _ ha)
  refine ⟨ad, hloc, hlt, ?_⟩
  cases ar with
  | glob id =>
    have hptr' : mem.read ad = BitVec.ofNat 32 (K.abase id) := hptr
    obtain ⟨cells, hc, h0, h1, hcell⟩ := arrGet_glob σ id iv w hg
    obtain ⟨hsz, hv⟩ := hr.acells id cells hc
    have hidx : iv.toInt.toNat < K.asize id := by omega
    have hb := (wf.arr_hi id (by omega)).2
    have e1 : BitVec.ofNat 32 (K.abase id) + iv = BitVec.ofNat 32 (K.abase id + iv.toInt.toNat) := by
      conv => lhs; rw [nonneg_ofNat iv h0]
      rw [BitVec.ofNat_add]
    rw [hptr', e1, ld_ofNat _ _ (by omega), hv _ _ hcell]
  | lit ws =>
    obtain ⟨l, bs, j, k, hm, hp, hd, hptr'⟩ := hptr
    obtain ⟨h0, h1, hcell⟩ := arrGet_lit σ ws iv w hg
    have hidx : iv.toInt.toNat < ws.length := by omega
    obtain ⟨j', k', hd', _, _, hle⟩ := wf.str.lbl l bs ws hm hp
    have hj : j = j' := by
      have e1 := labelIdx_of_nodup _ _ _ _ wf.nodup hd
      have e2 := labelIdx_of_nodup _ _ _ _ wf.nodup hd'
      rw [e1] at e2; simpa using e2
    subst hj
    have hsp := wf.sp_le
    have e1 : BitVec.ofNat 32 (K.env.addr j / 4) + iv = BitVec.ofNat 32 (K.env.addr j / 4 + iv.toInt.toNat) := by
      conv => lhs; rw [nonneg_ofNat iv h0]
      rw [BitVec.ofNat_add]
    rw [hptr', e1, ld_ofNat _ _ (by omega), hr.strs l bs ws j k hm hp hd _ hidx]
    rw [List.getElem?_eq_getElem hidx] at hcell
    exact hcell

theorem optExpr_un (op : UnOp) (e : AExpr) (c : Option CInt) :
    optExpr (.un op e c) =
      if c.isNone ∧ op = .neg then .bin .minus (.num 0 none) (if c.isSome then e else optExpr e) none
      else .un op (if c.isSome then e else optExpr e) c := by
  conv => lhs; unfold optExpr

/-- A constant node that survives `OptimiseExpr` is unchanged by it. -/
theorem opt_const_gen (t : AExpr) (c : CInt) (h : (optExpr t).const = some c) :
    t.const = some c ∧ optExpr t = t := by
  cases t with
  | num v c0 => simp only [optExpr] at h ⊢; exact ⟨h, trivial⟩
  | bool b c0 => simp only [optExpr] at h ⊢; exact ⟨h, trivial⟩
  | name n c0 => simp only [optExpr] at h ⊢; exact ⟨h, trivial⟩
  | str bs => simp [optExpr] at h
  | sub n i => simp [optExpr] at h
  | call s f args => simp [optExpr] at h
  | un op a c0 =>
    rw [optExpr_un] at h ⊢
    cases c0 with
    | none => cases op <;> simp at h
    | some cv =>
      simp only [Option.isNone_some, Bool.false_eq_true, false_and, if_false, Option.isSome_some, if_true,
        AExpr.const_un] at h ⊢
      exact ⟨h, trivial⟩
  | bin op l r c0 =>
    rw [optExpr_bin] at h ⊢
    cases c0 with
    | none => cases op <;> simp [rewriteBin] at h
    | some cv =>
      simp only [Option.isSome_some, if_true] at h ⊢
      cases op <;> simp only [rewriteBin, AExpr.const_un, AExpr.const_bin, reduceCtorEq] at h ⊢ <;> exact ⟨h, trivial⟩

theorem opt_const (ρ : String → Option Word) (e : X.Expr) (c : CInt)
    (h : (optExpr (annotate ρ e)).const = some c) :
    (annotate ρ e).const = some c ∧ optExpr (annotate ρ e) = annotate ρ e := opt_const_gen _ _ h

/-- An operand that does not need areg is a variable, a string or a constant. -/
theorem simple_cases_gen (t : AExpr) (h : needsAReg (optExpr t) = false) :
    (∃ n, t = .name n none) ∨ (∃ bs, t = .str bs) ∨ (∃ c, (optExpr t).const = some c) := by
  cases t with
  | num v c0 =>
    simp only [optExpr, needsAReg, AExpr.isConst, AExpr.const_num, Bool.not_eq_false'] at h ⊢
    exact Or.inr (Or.inr (Option.isSome_iff_exists.mp h))
  | bool b c0 =>
    simp only [optExpr, needsAReg, AExpr.isConst, AExpr.const_bool, Bool.not_eq_false'] at h ⊢
    exact Or.inr (Or.inr (Option.isSome_iff_exists.mp h))
  | name n c0 =>
    cases c0 with
    | none => exact Or.inl ⟨n, rfl⟩
    | some c => exact Or.inr (Or.inr ⟨c, by simp [optExpr]⟩)
  | str bs => exact Or.inr (Or.inl ⟨bs, rfl⟩)
  | sub n i => simp [optExpr, needsAReg, AExpr.isConst] at h
  | call s f args => simp [optExpr, needsAReg, AExpr.isConst] at h
  | un op a c0 =>
    right; right
    rw [optExpr_un] at h ⊢
    split at h <;> rename_i hc
    · simp [needsAReg, AExpr.isConst] at h
    · rw [if_neg hc]
      simp only [needsAReg, AExpr.isConst, AExpr.const_un, Bool.not_eq_false'] at h
      simp only [AExpr.const_un]
      exact Option.isSome_iff_exists.mp h
  | bin op l r c0 =>
    right; right
    rw [optExpr_bin] at h ⊢
    cases op <;> simp only [rewriteBin, needsAReg, AExpr.isConst, AExpr.const_un, AExpr.const_bin, Option.isSome_none,
      Bool.not_false, reduceCtorEq, Bool.not_eq_false'] at h ⊢ <;> exact Option.isSome_iff_exists.mp h

theorem simple_cases (ρ : String → Option Word) (e : X.Expr) (hp : pureE e = true)
    (h : needsAReg (optExpr (annotate ρ e)) = false) :
    (∃ n, e = .name n ∧ ρ n = none) ∨ (∃ c, (optExpr (annotate ρ e)).const = some c) ∨ (∃ bs, e = .str bs) := by
  rcases simple_cases_gen _ h with ⟨n, hn⟩ | ⟨bs, hb⟩ | hc
  · left
    cases e <;> simp [annotate, pureE] at hn hp
    rename_i m
    exact ⟨m, rfl, hn.2⟩
  · right; right
    cases e <;> simp [annotate, pureE] at hb hp
    exact ⟨_, rfl⟩
  · exact Or.inr (Or.inl hc)

/-- A constant-annotated tree as operand in areg. -/
theorem execA_const (K : PCtx) (wf : K.WF) (e : X.Expr) (c : CInt) (fuel : Nat) (σ σ' : X.St) (v : Word)
    (hp : pureE e = true) (hc : (annotate K.ρ e).const = some c)
    (hev : X.eval fuel K.xc e σ = .ok (.int v) σ') : ExecA K (annotate K.ρ e) v σ := by
  intro gs code gs' i a b mem hg hat hr hsz hnl hci
  rw [genExpr_annot_const _ _ _ _ _ hc] at hg
  have hv := annot_sound K.ρ K.xc fuel e σ v σ' c hp hr.valsOk hev hc
  subst hv
  have st := exec_genConst K wf .A v gs gs' code σ i a b mem σ.io hg hat hr hci
  exact ⟨b, mem, st, hr, FrmC.refl _ _ _ _⟩

theorem execB_const (K : PCtx) (wf : K.WF) (e : X.Expr) (c : CInt) (fuel : Nat) (σ σ' : X.St) (v : Word)
    (hp : pureE e = true) (hc : (annotate K.ρ e).const = some c)
    (hev : X.eval fuel K.xc e σ = .ok (.int v) σ') : ExecB K (annotate K.ρ e) v σ := by
  intro gs code gs' i a b mem io hg hat hr hci
  rw [genExpr_annot_const _ _ _ _ _ hc] at hg
  have hv := annot_sound K.ρ K.xc fuel e σ v σ' c hp hr.valsOk hev hc
  subst hv
  exact exec_genConst K wf .B v gs gs' code σ i a b mem io hg hat hr hci

/-- Any simple operand in breg. -/
theorem execB_simple (K : PCtx) (wf : K.WF) (e : X.Expr) (fuel : Nat) (σ σ' : X.St) (v : Word)
    (hp : pureE e = true) (hev : X.eval fuel K.xc e σ = .ok (.int v) σ')
    (hn : needsAReg (optExpr (annotate K.ρ e)) = false) : ExecB K (optExpr (annotate K.ρ e)) v σ := by
  rcases simple_cases K.ρ e hp hn with ⟨n, rfl, hρ⟩ | ⟨c, hc⟩ | ⟨bs, rfl⟩
  rotate_left 2
  · cases fuel with
    | zero => unfold X.eval at hev; simp at hev
    | succ f => obtain ⟨_, _, _, h3⟩ := eval_str _ _ _ _ _ _ hev; simp at h3
  · intro gs code gs' i a b mem io hg hat hr hci
    simp only [annotate, hρ, optExpr] at hg
    obtain ⟨sym, hl, hcode, hgs⟩ := genExpr_name_inv _ _ _ _ _ _ hg
    subst hcode
    cases fuel with
    | zero => unfold X.eval at hev; simp at hev
    | succ f =>
      obtain ⟨ht, hrd⟩ := eval_name _ _ _ _ _ _ hev
      rw [readName_same K.xc σ σ' n (tick_same _ _ _ ht)] at hrd
      obtain ⟨ad, hloc, hlt, hval⟩ := hr.vars n v hρ hrd
      have := exec_genVar K wf .B n sym σ i a b mem io ad hl hat hr hloc hlt
      simpa [hval] using this
  · obtain ⟨hc', heq⟩ := opt_const K.ρ e c hc
    rw [heq]
    exact execB_const K wf e c fuel σ σ' v hp hc' hev

theorem zero_of_constZero (K : PCtx) (e : X.Expr) (fuel : Nat) (σ σ' : X.St) (v : Word) (mem : Mem)
    (hp : pureE e = true) (hr : Rep K σ mem) (hev : X.eval fuel K.xc e σ = .ok (.int v) σ')
    (hz : (optExpr (annotate K.ρ e)).isConstZero = true) : v = 0 := by
  unfold AExpr.isConstZero at hz
  have hc : (optExpr (annotate K.ρ e)).const = some 0 := by simpa using hz
  obtain ⟨hc', _⟩ := opt_const K.ρ e 0 hc
  exact annot_sound K.ρ K.xc fuel e σ v σ' 0 hp hr.valsOk hev hc'

/-! ### The main theorem of stage (2) -/

/-- What the operator shapes need to know about an operand. -/
structure Opnd (t : Bool) (K : PCtx) (E : AExpr) (v : Word) (σ : X.St) : Prop where
  a : ExecAt t K E v σ
  b : needsAReg E = false → ExecB K E v σ
  z : E.isConstZero = true → ∀ m, Rep K σ m → v = 0

theorem Opnd.weaken {t : Bool} {K : PCtx} {E : AExpr} {v : Word} {σ : X.St} (h : Opnd true K E v σ) : Opnd t K E v σ :=
  ⟨h.a.weaken, h.b, h.z⟩

theorem opnd_const (K : PCtx) (wf : K.WF) (e : X.Expr) (c : CInt) (fuel : Nat) (σ0 σ1 σ : X.St) (v : Word)
    (hp : pureE e = true) (hc : (annotate K.ρ e).const = some c)
    (hev : X.eval fuel K.xc e σ0 = .ok (.int v) σ1) (hs : SameVars σ0 σ) : Opnd true K (annotate K.ρ e) v σ := by
  refine ⟨(execA_const K wf e c fuel σ0 σ1 v hp hc hev).same hs,
    fun _ => (execB_const K wf e c fuel σ0 σ1 v hp hc hev).same hs, ?_⟩
  intro hz m hr
  unfold AExpr.isConstZero at hz
  have hc0 : (annotate K.ρ e).const = some 0 := by simpa using hz
  exact annot_sound K.ρ K.xc fuel e σ0 v σ1 0 hp (hr.same hs.symm).valsOk hev hc0

theorem opnd_of_eval (K : PCtx) (wf : K.WF) (e : X.Expr) (fuel : Nat) (σ0 σ1 σ : X.St) (v : Word)
    (hp : pureE e = true) (hev : X.eval fuel K.xc e σ0 = .ok (.int v) σ1) (hs : SameVars σ0 σ)
    (ha : ExecA K (optExpr (annotate K.ρ e)) v σ0) : Opnd true K (optExpr (annotate K.ρ e)) v σ :=
  ⟨ha.same hs, fun hn => (execB_simple K wf e fuel σ0 σ1 v hp hev hn).same hs,
   fun hz m hr => zero_of_constZero K e fuel σ0 σ1 v m hp (hr.same hs.symm) hev hz⟩

theorem execA_zero {t : Bool} (K : PCtx) (wf : K.WF) (σ : X.St) : ExecAt t K (.num 0 none) 0 σ := by
  intro gs code gs' i a b mem hg hat hr hsz hnl hci
  rw [genExpr_num] at hg
  exact ⟨b, mem, exec_genConst K wf .A 0 gs gs' code σ i a b mem σ.io hg hat hr hci, hr, FrmC.refl _ _ _ _⟩

/-- The relational and arithmetic operators after `OptimiseExpr`'s rewriting. -/
theorem shape_arith {t : Bool} (K : PCtx) (wf : K.WF) (op : BinOp) (L R : AExpr) (a b : Word) (σ : X.St)
    (hL : Opnd t K L a σ) (hR : Opnd t K R b σ) (hop : isArith op = true) :
    ExecAt t K (rewriteBin op L R none) (rtBin op a b) σ := by
  cases op <;> simp only [isArith, Bool.false_eq_true] at hop <;> simp only [rewriteBin, rtBin]
  · exact shape_plus K wf L R a b σ hL.a (fun _ => hR.a) hR.b
  · exact shape_minus K wf L R a b σ hL.a (fun _ => hR.a) hR.b
  · exact shape_eq K wf L R a b σ hL.a hR.a hR.b hL.z hR.z
  · exact shape_not K wf _ _ σ (shape_eq K wf L R a b σ hL.a hR.a hR.b hL.z hR.z)
  · exact shape_ls K wf L R a b σ hL.a hR.a hR.b hR.z
  · exact shape_not K wf _ _ σ (shape_ls K wf R L b a σ hR.a hL.a hL.b hL.z)
  · exact shape_ls K wf R L b a σ hR.a hL.a hL.b hL.z
  · exact shape_not K wf _ _ σ (shape_ls K wf L R a b σ hL.a hR.a hR.b hR.z)

/-- The same with one operand whose evaluation changes the source state. -/
theorem shape_arithT {t : Bool} (K : PCtx) (wf : K.WF) (op : BinOp) (L R : AExpr) (a b : Word) (σ0 σ2 : X.St)
    (hO : Opnds2 t K L R a b σ0 σ2) (hOs : Opnds2 t K R L b a σ0 σ2)
    (hRo : L.isConstZero = true → ExecT t K R b σ0 σ2) (hLo : R.isConstZero = true → ExecT t K L a σ0 σ2)
    (hlz : L.isConstZero = true → ∀ m, Rep K σ0 m → a = 0) (hrz : R.isConstZero = true → ∀ m, Rep K σ0 m → b = 0)
    (hop : isArith op = true) :
    ExecT t K (rewriteBin op L R none) (rtBin op a b) σ0 σ2 := by
  cases op <;> simp only [isArith, Bool.false_eq_true] at hop <;> simp only [rewriteBin, rtBin]
  · exact shape_plusT K wf L R a b σ0 σ2 hO
  · exact shape_minusT K wf L R a b σ0 σ2 hO
  · exact shape_eqT K wf L R a b σ0 σ2 hO hRo hLo hlz hrz
  · exact shape_notT K wf _ _ σ0 σ2 (shape_eqT K wf L R a b σ0 σ2 hO hRo hLo hlz hrz)
  · exact shape_lsT K wf L R a b σ0 σ2 hO hLo hrz
  · exact shape_notT K wf _ _ σ0 σ2 (shape_lsT K wf R L b a σ0 σ2 hOs hRo hlz)
  · exact shape_lsT K wf R L b a σ0 σ2 hOs hRo hlz
  · exact shape_notT K wf _ _ σ0 σ2 (shape_lsT K wf L R a b σ0 σ2 hO hLo hrz)

theorem inRange_iff (r : Int) : X.inRange r = true ↔ (-2147483648 ≤ r ∧ r ≤ 2147483647) := by
  unfold X.inRange; simp

/-- The value the generated code computes is the value of the reference semantics. -/
theorem arith_rt (op : BinOp) (a b w : Word) (hop : isArith op = true) (h : X.arith op a b = .ok w) :
    rtBin op a b = w := by
  rw [← arith_fold op a b w h]
  symm
  apply foldBin_eq_rtBin
  · intro hl; cases op <;> simp [logical, isArith] at hl hop
  · intro ho
    unfold X.arith at h
    cases op <;> simp only [ordering, Bool.false_eq_true] at ho <;> simp only at h <;>
    ( split at h
      · rename_i hc
        simp only [Bool.and_eq_true, inRange_iff] at hc
        exact ⟨hc.1, by unfold DiffFits; exact hc.2⟩
      · simp at h )

theorem rewriteBin_some (op : BinOp) (L R : AExpr) (c : CInt) :
    rewriteBin op L R (some c) = rewriteBin op L R none ∨ rewriteBin op L R (some c) = .bin op L R (some c) := by
  cases op <;> simp [rewriteBin]

/-- **Stage (2): code generated for a call-free expression computes its value.**  If the
    reference semantics evaluates the pure expression `e` to the integer `v`, then the code that
    `ConstProp`, `OptimiseExpr` and `ExprCodeGen` produce for it - wherever it sits in the laid-out
    program, from any machine state that represents the source state, within any frame large
    enough - runs to its end with `v` in areg, still representing the source state, having written
    only to the temporaries of its own frame. -/
theorem expr_pure_correct (K : PCtx) (wf : K.WF) : ∀ (fuel : Nat) (e : X.Expr) (σ : X.St) (v : Word) (σ' : X.St),
    pureE e = true → X.eval fuel K.xc e σ = .ok (.int v) σ' → ExecA K (optExpr (annotate K.ρ e)) v σ := by
  intro fuel
  induction fuel with
  | zero => intro e σ v σ' _ h; unfold X.eval at h; simp at h
  | succ fuel ih =>
    intro e σ v σ' hp hev
    -- a constant node: one lemma for all shapes
    have hconst : ∀ c, (annotate K.ρ e).const = some c → optExpr (annotate K.ρ e) = annotate K.ρ e →
        ExecA K (optExpr (annotate K.ρ e)) v σ := by
      intro c hc heq
      rw [heq]
      exact execA_const K wf e c (fuel + 1) σ σ' v hp hc hev
    cases e with
    | num x => exact hconst x rfl rfl
    | bool b => exact hconst _ rfl rfl
    | str bs => obtain ⟨_, _, _, h3⟩ := eval_str _ _ _ _ _ _ hev; simp at h3
    | call f args => simp [pureE] at hp
    | syscall id args => simp [pureE] at hp
    | sub n i =>
      simp only [pureE] at hp
      obtain ⟨st, iv, ar, w, h1, h2, h3, h4, h5⟩ := eval_sub _ _ _ _ _ _ _ hev
      simp only [Val.int.injEq] at h5
      subst h5
      have hs0 := tick_same _ _ _ h1
      have hs1 := eval_pure K.xc _ _ _ _ _ hp h2
      have hs := hs0.trans hs1
      intro gs code gs' i0 a b mem hg hat hr hsz hnl hci
      simp only [annotate] at hg
      rw [optExpr_sub] at hg
      obtain ⟨sym, hl, hcase⟩ := genExpr_sub_inv _ _ _ _ _ _ _ hg
      rcases hcase with ⟨c, hc, hcode, hgs⟩ | ⟨hc, ci, hgi, hcode⟩
      · -- constant index: pointer into areg, `LDAI index`
        subst hcode; subst hgs
        obtain ⟨ad, hloc, hlt, hld⟩ := rep_elem wf (hr.same hs) n ar iv v h3 h4
        have hciv : iv = c := annot_sound K.ρ K.xc fuel i st iv σ' c hp (hr.same hs0).valsOk h2 (opt_const K.ρ i c hc).1
        simp only [low_append] at hat ⊢
        have s1 := exec_genVar K wf .A n sym σ i0 a b mem σ.io ad hl hat.left hr hloc hlt
        simp only at s1
        have hl1 : K.low [iLDAI c.toInt] = [.imm 0x6 c.toInt] := rfl
        rw [hl1] at hat ⊢
        have s2 := Step.ldai (env := K.env) (cfg (i0 + (K.low (genVar .A sym)).length) (mem.read ad) b mem) σ.io c.toInt v
          hat.right.head (by show Isa.ld mem (mem.read ad + IAm.W c.toInt) = some v; rw [W_toInt, ← hciv]; exact hld)
        refine ⟨b, mem, ?_, hr, FrmC.refl _ _ _ _⟩
        simp only [List.length_append, List.length_cons, List.length_nil, ← Nat.add_assoc]
        exact s1.trans (Steps.one s2)
      · -- computed index: index into areg, pointer into breg, `ADD; LDAI 0`
        subst hcode
        have hA := (ih i st iv σ' hp h2).same hs0.symm
        simp only [low_append, List.append_assoc] at hat ⊢
        obtain ⟨b1, mem1, st1, rep1, frm1⟩ := hA gs ci gs' i0 a b mem hgi hat.left hr hsz hnl hci
        obtain ⟨ad, hloc, hlt, hld⟩ := rep_elem wf (rep1.same hs) n ar iv v h3 h4
        have s2 := exec_genVar K wf .B n sym σ (i0 + (K.low ci).length) iv b1 mem1 σ.io ad hl hat.right.left rep1 hloc hlt
        simp only at s2
        have hl1 : K.low [iADD, iLDAI 0] = [.opr 1, .imm 0x6 0] := rfl
        rw [hl1] at hat ⊢
        have hadd := hat.right.right.get 0 _ rfl
        have hldi := hat.right.right.get 1 _ rfl
        simp only [Nat.add_zero] at hadd hldi
        have s3 := Step.add (env := K.env) (cfg (i0 + (K.low ci).length + (K.low (genVar .B sym)).length) iv (mem1.read ad) mem1) σ.io hadd
        have s4 := Step.ldai (env := K.env) (cfg (i0 + (K.low ci).length + (K.low (genVar .B sym)).length + 1) (iv + mem1.read ad) (mem1.read ad) mem1)
          σ.io 0 v hldi (by
            show Isa.ld mem1 (iv + mem1.read ad + IAm.W 0) = some v
            have : IAm.W 0 = (0#32 : Word) := by decide
            rw [this, BitVec.add_zero, BitVec.add_comm]; exact hld)
        refine ⟨mem1.read ad, mem1, ?_, rep1, frm1⟩
        simp only [List.length_append, List.length_cons, List.length_nil, ← Nat.add_assoc]
        exact st1.trans (s2.trans (Steps.step _ _ _ _ _ _ s3 (Steps.one s4)))
    | name n =>
      cases hρ : K.ρ n with
      | some c => exact hconst c (by simp [annotate, hρ]) (by simp [annotate, optExpr])
      | none =>
        intro gs code gs' i a b mem hg hat hr hsz hnl hci
        simp only [annotate, hρ, optExpr] at hg
        obtain ⟨sym, hl, hcode, hgs⟩ := genExpr_name_inv _ _ _ _ _ _ hg
        subst hcode; subst hgs
        obtain ⟨ht, hrd⟩ := eval_name _ _ _ _ _ _ hev
        rw [readName_same K.xc σ σ' n (tick_same _ _ _ ht)] at hrd
        obtain ⟨ad, hloc, hlt, hval⟩ := hr.vars n v hρ hrd
        have := exec_genVar K wf .A n sym σ i a b mem σ.io ad hl hat hr hloc hlt
        exact ⟨b, mem, by simpa [hval] using this, hr, FrmC.refl _ _ _ _⟩
    | un op x =>
      simp only [pureE] at hp
      cases hc : (annotate K.ρ (.un op x)).const with
      | some c =>
        apply hconst c hc
        simp only [annotate] at hc ⊢
        rw [optExpr_un]
        simp only [AExpr.const_un] at hc
        simp [hc]
      | none =>
        simp only [annotate, AExpr.const_un] at hc
        simp only [annotate]
        rw [optExpr_un, hc]
        simp only [Option.isNone_none, true_and, Option.isSome_none, Bool.false_eq_true, if_false]
        cases op with
        | neg =>
          simp only [if_true]
          obtain ⟨st, w, h1, h2, h3⟩ := eval_neg _ _ _ _ _ _ hev
          simp only [Val.int.injEq] at h3
          subst h3
          have hs := (tick_same _ _ _ h1).symm
          have hO := opnd_of_eval K wf x fuel st σ' σ w hp h2 hs (ih x st w σ' hp h2)
          exact shape_minus K wf _ _ 0 w σ (execA_zero K wf σ) (fun _ => hO.a) hO.b
        | not =>
          simp only [reduceCtorEq, if_false]
          obtain ⟨st, w, h1, h2, _, h3⟩ := eval_not _ _ _ _ _ _ hev
          simp only [Val.int.injEq] at h3
          have hs := (tick_same _ _ _ h1).symm
          have hA := (ih x st w σ' hp h2).same hs
          have := shape_not K wf _ w σ hA
          have hv : rtIsZero w = v := by
            rw [h3]; unfold rtIsZero X.b2w
            by_cases hz : w = 0 <;> simp [hz]
          rw [← hv]; exact this
    | bin op l r =>
      simp only [pureE, Bool.and_eq_true] at hp
      by_cases hop : isArith op = true
      · obtain ⟨st, a, s1, b, w, h1, h2, h3, h4, h5⟩ := eval_arith _ _ _ _ _ _ _ _ hop hev
        simp only [Val.int.injEq] at h5
        subst h5
        have hs0 := (tick_same _ _ _ h1).symm
        have hs1 := (eval_pure K.xc _ _ _ _ _ hp.1 h2).symm.trans hs0
        have hrt := arith_rt op a b v hop h4
        cases hc : (annotate K.ρ (.bin op l r)).const with
        | some c =>
          simp only [annotate] at hc ⊢
          simp only [AExpr.const_bin] at hc
          rw [optExpr_bin, hc]
          simp only [Option.isSome_some, if_true]
          rcases rewriteBin_some op (annotate K.ρ l) (annotate K.ρ r) c with hrw | hrw
          · -- a rewritten relational operator over constant operands
            rw [hrw]
            have hcl : ∃ cl, (annotate K.ρ l).const = some cl := by
              cases hl : (annotate K.ρ l).const with
              | none => rw [hl] at hc; simp at hc
              | some cl => exact ⟨cl, rfl⟩
            have hcr : ∃ cr, (annotate K.ρ r).const = some cr := by
              cases hl : (annotate K.ρ l).const with
              | none => rw [hl] at hc; simp at hc
              | some cl =>
                cases hr' : (annotate K.ρ r).const with
                | none => rw [hl, hr'] at hc; simp at hc
                | some cr => exact ⟨cr, rfl⟩
            obtain ⟨cl, hcl⟩ := hcl
            obtain ⟨cr, hcr⟩ := hcr
            have hL := opnd_const K wf l cl fuel st s1 σ a hp.1 hcl h2 hs0
            have hR := opnd_const K wf r cr fuel s1 σ' σ b hp.2 hcr h3 hs1
            rw [← hrt]
            exact shape_arith K wf op _ _ a b σ hL hR hop
          · rw [hrw]
            have := hconst c (by simp only [annotate, AExpr.const_bin]; exact hc)
              (by simp only [annotate]; rw [optExpr_bin, hc]; simp only [Option.isSome_some, if_true]; exact hrw)
            simp only [annotate] at this
            rw [optExpr_bin, hc] at this
            simp only [Option.isSome_some, if_true, hrw] at this
            exact this
        | none =>
          simp only [annotate] at hc ⊢
          simp only [AExpr.const_bin] at hc
          rw [optExpr_bin, hc]
          simp only [Option.isSome_none, Bool.false_eq_true, if_false]
          have hL := opnd_of_eval K wf l fuel st s1 σ a hp.1 h2 hs0 (ih l st a s1 hp.1 h2)
          have hR := opnd_of_eval K wf r fuel s1 σ' σ b hp.2 h3 hs1 (ih r s1 b σ' hp.2 h3)
          rw [← hrt]
          exact shape_arith K wf op _ _ a b σ hL hR hop
      · cases hc : (annotate K.ρ (.bin op l r)).const with
        | some c =>
          apply hconst c hc
          simp only [annotate] at hc ⊢
          simp only [AExpr.const_bin] at hc
          rw [optExpr_bin, hc]
          simp only [Option.isSome_some, if_true]
          cases op <;> simp only [isArith, not_true_eq_false] at hop <;> rfl
        | none =>
          simp only [annotate] at hc ⊢
          simp only [AExpr.const_bin] at hc
          rw [optExpr_bin, hc]
          simp only [Option.isSome_none, Bool.false_eq_true, if_false]
          cases op <;> simp only [isArith, not_true_eq_false] at hop
          · -- and
            simp only [rewriteBin]
            obtain ⟨st, a, s1, h1, h2, hba, h4⟩ := eval_and _ _ _ _ _ _ _ hev
            have hs0 := (tick_same _ _ _ h1).symm
            have hs1 := (eval_pure K.xc _ _ _ _ _ hp.1 h2).symm.trans hs0
            have hA := (ih l st a s1 hp.1 h2).same hs0
            rcases h4 with ⟨ha0, hvv, _⟩ | ⟨ha0, b, h5, _, hvv⟩
            · simp only [Val.int.injEq] at hvv
              have := shape_and K wf _ (optExpr (annotate K.ρ r)) a 0 σ hA (fun h => absurd ha0 h)
              rw [if_pos ha0, ha0] at this
              rw [hvv]; exact this
            · simp only [Val.int.injEq] at hvv
              have hB := (ih r s1 b σ' hp.2 h5).same hs1
              have := shape_and K wf _ _ a b σ hA (fun _ => hB)
              rw [if_neg ha0] at this
              rw [hvv]; exact this
          · -- or
            simp only [rewriteBin]
            obtain ⟨st, a, s1, h1, h2, hba, h4⟩ := eval_or _ _ _ _ _ _ _ hev
            have hs0 := (tick_same _ _ _ h1).symm
            have hs1 := (eval_pure K.xc _ _ _ _ _ hp.1 h2).symm.trans hs0
            have hA := (ih l st a s1 hp.1 h2).same hs0
            rcases h4 with ⟨ha1, hvv, _⟩ | ⟨ha1, b, h5, _, hvv⟩
            · simp only [Val.int.injEq] at hvv
              have hne : a ≠ 0 := by rw [ha1]; decide
              have := shape_or K wf _ (optExpr (annotate K.ρ r)) a 0 σ hA (fun h => absurd h hne)
              rw [if_neg hne, ha1] at this
              rw [hvv]; exact this
            · simp only [Val.int.injEq] at hvv
              have ha0 : a = 0 := by rcases isBool_cases a hba with h0 | h0 <;> simp_all
              have hB := (ih r s1 b σ' hp.2 h5).same hs1
              have := shape_or K wf _ _ a b σ hA (fun _ => hB)
              rw [if_pos ha0] at this
              rw [hvv]; exact this

/-! ### Values as words: integers, the addresses of global arrays and of string literals -/

/-- An array-valued call-free expression is a name or a string literal. -/
theorem eval_pure_arr (xc : X.Ctx) (fuel : Nat) (e : X.Expr) (σ σ' : X.St) (r : ArrRef) (hp : pureE e = true)
    (h : X.eval fuel xc e σ = .ok (.arr r) σ') :
    (∃ n, e = .name n ∧ X.tick xc σ = some σ' ∧ X.readName xc σ' n = .ok (.arr r)) ∨
    (∃ bs ws, e = .str bs ∧ X.tick xc σ = some σ' ∧ X.packString bs = .ok ws ∧ r = .lit ws) := by
  cases fuel with
  | zero => unfold X.eval at h; simp at h
  | succ f =>
    cases e with
    | num x => have := (eval_num _ _ _ _ _ _ h).1; simp at this
    | bool b => have := (eval_bool _ _ _ _ _ _ h).1; simp at this
    | name n => exact Or.inl ⟨n, rfl, eval_name _ _ _ _ _ _ h⟩
    | str bs =>
      obtain ⟨ws, h1, h2, h3⟩ := eval_str _ _ _ _ _ _ h
      simp only [Val.arr.injEq] at h3
      exact Or.inr ⟨bs, ws, rfl, h1, h2, h3⟩
    | call g args => simp [pureE] at hp
    | syscall id args => simp [pureE] at hp
    | sub n i => obtain ⟨_, _, _, _, _, _, _, _, h5⟩ := eval_sub _ _ _ _ _ _ _ h; simp at h5
    | un op x =>
      cases op with
      | neg => obtain ⟨_, _, _, _, h3⟩ := eval_neg _ _ _ _ _ _ h; simp at h3
      | not => obtain ⟨_, _, _, _, _, h3⟩ := eval_not _ _ _ _ _ _ h; simp at h3
    | bin op l r' =>
      by_cases hop : isArith op = true
      · obtain ⟨_, _, _, _, _, _, _, _, _, h5⟩ := eval_arith _ _ _ _ _ _ _ _ hop h; simp at h5
      · cases op <;> simp only [isArith, not_true_eq_false] at hop
        · obtain ⟨_, _, _, _, _, _, h4⟩ := eval_and _ _ _ _ _ _ _ h
          rcases h4 with ⟨_, hv, _⟩ | ⟨_, _, _, _, hv⟩ <;> simp at hv
        · obtain ⟨_, _, _, _, _, _, h4⟩ := eval_or _ _ _ _ _ _ _ h
          rcases h4 with ⟨_, hv, _⟩ | ⟨_, _, _, _, hv⟩ <;> simp at hv

/-- **Actuals**: the code of a call-free expression leaves a word for its value - an integer, the
    address of the array a name denotes, or the address of a string literal - in areg. -/
theorem expr_pure_val (K : PCtx) (wf : K.WF) (fuel : Nat) (e : X.Expr) (σ : X.St) (v : Val) (σ' : X.St)
    (hp : pureE e = true) (hev : X.eval fuel K.xc e σ = .ok v σ') :
    ExecP true K (optExpr (annotate K.ρ e)) (K.VRep v) σ := by
  cases v with
  | int w => exact (expr_pure_correct K wf fuel e σ w σ' hp hev).toP rfl
  | arr r =>
    rcases eval_pure_arr K.xc fuel _ σ σ' r hp hev with ⟨n, rfl, ht, hrd⟩ | ⟨bs, ws, rfl, ht, hpk, rfl⟩
    · intro gs code gs' i a b mem hg hat hr hsz hnl hci
      have hs := tick_same _ _ _ ht
      have hr' := hr.same hs
      obtain ⟨ad, hloc, hlt, hptr⟩ := hr'.aptr n r hrd
      have hρ : K.ρ n = none := by
        cases hρ : K.ρ n with
        | none => rfl
        | some c =>
          have := (hr'.vals n c hρ).read
          rw [hrd] at this
          simp at this
      simp only [annotate, hρ, optExpr] at hg
      obtain ⟨sym, hl, hcode, hgs⟩ := genExpr_name_inv _ _ _ _ _ _ hg
      subst hcode; subst hgs
      have := exec_genVar K wf .A n sym σ i a b mem σ.io ad hl hat hr hloc hlt
      exact ⟨mem.read ad, b, mem, hptr, this, hr, FrmC.refl _ _ _ _⟩
    · intro gs code gs' i a b mem hg hat hr hsz hnl hci
      simp only [annotate, optExpr] at hg
      rw [genExpr_str] at hg
      obtain ⟨_, hmem, hcode⟩ := genString_items _ _ _ _ _ hg
      subst hcode
      have hm : ("_string" ++ toString gs.stringCount, bs) ∈ K.strs := hci.str ((str_mem_items _ _ _).mp hmem)
      obtain ⟨j, k, hd, h4, _, _⟩ := wf.str.lbl _ bs ws hm hpk
      have hl : K.low (strCode .A ("_string" ++ toString gs.stringCount))
          = [.ref 0x3 ("_string" ++ toString gs.stringCount) false] := rfl
      rw [hl] at hat ⊢
      have s := Step.ldacL (env := K.env) (cfg i a b mem) σ.io _ j hat.head (labelIdx_of_nodup _ _ _ _ wf.nodup hd) h4
      exact ⟨_, b, mem, ⟨_, bs, j, k, hm, hpk, hd, rfl⟩, Steps.one s, hr, FrmC.refl _ _ _ _⟩

end Hex.C01s
