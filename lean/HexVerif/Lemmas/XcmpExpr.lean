import HexVerif.Lemmas.XcmpAnnot
/-!
  Stage (2) of C01: code generated for call-free expressions computes the value the reference
  semantics gives.  Hoare-style, relative to a procedure context `PCtx` (layout, symbol table,
  stack pointer, locations of the variables in scope) that satisfies `PCtx.WF`.
-/
namespace Hex.C01s
open Hex Hex.X Hex.Xcmp Hex.IAm Hex.Asm

/-- What is fixed while the body of one procedure instance runs. -/
structure PCtx where
  env : IAm.Env                     -- the laid-out (lowered) program
  out : CGOut                       -- code generator output (final frame sizes)
  ctx : Xcmp.Ctx                    -- symbol table, scope, frame of the procedure
  xc : X.Ctx                        -- context of the reference semantics
  ρ : String → Option Word          -- names the annotation treats as constants
  sp : Nat                          -- stack pointer of this activation
  loc : String → Option Nat         -- word address of each variable in scope
  consts : List (Int × String)      -- the final constant pool
  nlocals : Nat                     -- frame offsets below this hold local variables

def PCtx.S (K : PCtx) : Nat := (frameOf K.out K.ctx.frame).size
/-- Address of the frame slot with (non-negative) frame offset `k`. -/
def PCtx.slot (K : PCtx) (k : Nat) : Nat := K.sp + K.S - 1 - k
def PCtx.low (K : PCtx) (c : Code) : List Dir := lowerCode K.out c

structure PCtx.WF (K : PCtx) : Prop where
  nodup : (labelNames K.env.ds).Nodup
  var_global : ∀ n sym, K.ctx.tbl.lookup K.ctx.scope n = .ok sym → sym.scope = "" →
    ∃ j k, K.env.ds[j]? = some (.label k sym.globalLabel) ∧ K.env.addr j % 4 = 0 ∧
      K.loc n = some (K.env.addr j / 4)
  var_local : ∀ n sym, K.ctx.tbl.lookup K.ctx.scope n = .ok sym → sym.scope ≠ "" →
    sym.frame = K.ctx.frame ∧
    ∃ a : Nat, (a : Int) = (K.sp : Int) + (K.S : Int) - 1 + sym.stackOffset ∧ K.loc n = some a
  const_lbl : ∀ v l, (v, l) ∈ K.consts →
    ∃ j k, K.env.ds[j]? = some (.label k l) ∧ K.env.addr j % 4 = 0 ∧ K.env.addr j / 4 < K.sp
  slot_ok : ∀ k, k < K.S → K.slot k < memWords ∧ K.env.isCode (K.slot k) = false
  sp_ge : 2 ≤ K.sp
  sp_le : K.sp + K.S ≤ memWords
  loc_sep : ∀ n a, K.loc n = some a → a < K.sp ∨ K.sp + K.S ≤ a + K.nlocals

/-- The machine memory represents the source state. -/
structure Rep (K : PCtx) (σ : X.St) (mem : Mem) : Prop where
  sp : mem.read 1 = BitVec.ofNat 32 K.sp
  vals : ValsOk K.ρ K.xc σ
  vars : ∀ n w, K.ρ n = none → X.readName K.xc σ n = .ok (.int w) →
    ∃ a, K.loc n = some a ∧ a < memWords ∧ mem.read a = w
  consts : ∀ v l j k, (v, l) ∈ K.consts → K.env.ds[j]? = some (.label k l) →
    mem.read (K.env.addr j / 4) = IAm.W v

theorem Rep.same {K : PCtx} {σ σ' : X.St} {mem : Mem} (h : Rep K σ mem) (hs : SameVars σ σ') : Rep K σ' mem :=
  ⟨h.sp, h.vals.same hs, fun n w hn hr => h.vars n w hn (by rw [← readName_same K.xc σ σ' n hs]; exact hr), h.consts⟩

/-- Memory changed at most in the frame slots with offsets in `[lo, hi)`. -/
def Frm (K : PCtx) (lo hi : Nat) (mem mem' : Mem) : Prop :=
  ∀ a, (∀ k, lo ≤ k → k < hi → a ≠ K.slot k) → mem'.read a = mem.read a

theorem Frm.refl (K : PCtx) (lo hi : Nat) (mem : Mem) : Frm K lo hi mem mem := fun _ _ => rfl

theorem Frm.trans {K : PCtx} {lo hi : Nat} {m1 m2 m3 : Mem} (h1 : Frm K lo hi m1 m2) (h2 : Frm K lo hi m2 m3) :
    Frm K lo hi m1 m3 := fun a ha => by rw [h2 a ha, h1 a ha]

theorem Frm.mono {K : PCtx} {lo hi lo' hi' : Nat} {m1 m2 : Mem} (h : Frm K lo hi m1 m2) (hl : lo' ≤ lo) (hh : hi ≤ hi') :
    Frm K lo' hi' m1 m2 := fun a ha => h a (fun k h1 h2 => ha k (by omega) (by omega))

theorem Rep.frame {K : PCtx} (wf : K.WF) {σ : X.St} {mem mem' : Mem} {lo hi : Nat} (h : Rep K σ mem)
    (hf : Frm K lo hi mem mem') (hlo : K.nlocals ≤ lo) (hhi : hi ≤ K.S) : Rep K σ mem' := by
  have key : ∀ a, (a < K.sp ∨ K.sp + K.S ≤ a + K.nlocals) → mem'.read a = mem.read a := by
    intro a ha
    apply hf
    intro k h1 h2
    unfold PCtx.slot
    omega
  refine ⟨?_, h.vals, ?_, ?_⟩
  · rw [key 1 (Or.inl (by have := wf.sp_ge; omega))]; exact h.sp
  · intro n w hn hr
    obtain ⟨a, ha, hlt, hv⟩ := h.vars n w hn hr
    exact ⟨a, ha, hlt, by rw [key a (wf.loc_sep n a ha)]; exact hv⟩
  · intro v l j k hm hd
    obtain ⟨j', k', hd', _, hlt⟩ := wf.const_lbl v l hm
    have hj : j = j' := by
      have e1 := labelIdx_of_nodup _ _ _ _ wf.nodup hd
      have e2 := labelIdx_of_nodup _ _ _ _ wf.nodup hd'
      rw [e1] at e2; simpa using e2
    subst hj
    rw [key _ (Or.inl hlt)]
    exact h.consts v l j k hm hd

/-! ### Single instructions -/

abbrev cfg (i : Nat) (a b : Word) (mem : Mem) : Cfg := { i := i, a := a, b := b, mem := mem }

theorem ld_ofNat (mem : Mem) (n : Nat) (h : n < memWords) : Isa.ld mem (BitVec.ofNat 32 n) = some (mem.read n) := by
  unfold Isa.ld
  have : (BitVec.ofNat 32 n).toNat = n := by
    simp only [BitVec.toNat_ofNat]; unfold memWords at h; omega
  rw [this, if_pos h]

theorem ld_one (mem : Mem) : Isa.ld mem (IAm.W 1) = some (mem.read 1) := by
  have : IAm.W 1 = BitVec.ofNat 32 1 := by decide
  rw [this]
  exact ld_ofNat mem 1 (by unfold memWords; omega)

theorem store_ofNat (env : Env) (mem : Mem) (n : Nat) (v : Word) (h : n < memWords) (hc : env.isCode n = false) :
    IAm.store env mem (BitVec.ofNat 32 n) v = some (mem.write n v) := by
  unfold IAm.store
  have : (BitVec.ofNat 32 n).toNat = n := by
    simp only [BitVec.toNat_ofNat]; unfold memWords at h; omega
  rw [this, if_pos ⟨h, hc⟩]

/-- `genConst`'s code loads the constant. -/
theorem exec_genConst (K : PCtx) (wf : K.WF) (reg : Reg) (c : CInt) (gs gs' : GS) (code : Code) (σ : X.St)
    (i : Nat) (a b : Word) (mem : Mem) (io : Isa.IOSt)
    (hg : genConst reg c gs = .ok (code, gs')) (hat : At K.env.ds i (K.low code)) (hr : Rep K σ mem)
    (hc : ∀ e ∈ gs'.constMap, e ∈ K.consts) :
    Steps K.env (cfg i a b mem) io
      (cfg (i + (K.low code).length) (match reg with | .A => c | .B => a) (match reg with | .A => b | .B => c) mem) io := by
  obtain ⟨_, _, _, h⟩ := genConst_inv reg c gs gs' code hg
  rcases h with ⟨_, _, _, hcode⟩ | ⟨_, label, hmem, hcode⟩
  · subst hcode
    cases reg with
    | A =>
      simp only [constCode, PCtx.low, lowerCode_cons, lowerOne_dir, lowerCode_nil, iLDAC, List.append_nil] at hat ⊢
      apply Steps.one
      have := Step.ldac (env := K.env) (cfg i a b mem) io c.toInt hat.head
      simpa [W_toInt] using this
    | B =>
      simp only [constCode, PCtx.low, lowerCode_cons, lowerOne_dir, lowerCode_nil, iLDBC, List.append_nil] at hat ⊢
      apply Steps.one
      have := Step.ldbc (env := K.env) (cfg i a b mem) io c.toInt hat.head
      simpa [W_toInt] using this
  · subst hcode
    obtain ⟨j, k, hd, hal, hlt⟩ := wf.const_lbl _ _ (hc _ hmem)
    have hli := labelIdx_of_nodup _ _ _ _ wf.nodup hd
    have hval := hr.consts _ _ j k (hc _ hmem) hd
    rw [W_toInt] at hval
    have hld : Isa.ld mem (BitVec.ofNat 32 (K.env.addr j / 4)) = some c := by
      rw [ld_ofNat _ _ (by have := wf.sp_le; omega), hval]
    cases reg with
    | A =>
      simp only [poolCode, PCtx.low, lowerCode_cons, lowerOne_dir, lowerCode_nil, lLDAM, List.append_nil] at hat ⊢
      apply Steps.one
      have := Step.ldamL (env := K.env) (cfg i a b mem) io label j c hat.head hli hal hld
      simpa using this
    | B =>
      simp only [poolCode, PCtx.low, lowerCode_cons, lowerOne_dir, lowerCode_nil, lLDBM, List.append_nil] at hat ⊢
      apply Steps.one
      have := Step.ldbmL (env := K.env) (cfg i a b mem) io label j c hat.head hli hal hld
      simpa using this

/-- `genVar`'s code loads the variable's word. -/
theorem exec_genVar (K : PCtx) (wf : K.WF) (reg : Reg) (n : String) (sym : Symbol) (σ : X.St)
    (i : Nat) (a b : Word) (mem : Mem) (io : Isa.IOSt) (ad : Nat)
    (hl : K.ctx.tbl.lookup K.ctx.scope n = .ok sym) (hat : At K.env.ds i (K.low (genVar reg sym)))
    (hr : Rep K σ mem) (hloc : K.loc n = some ad) (hlt : ad < memWords) :
    Steps K.env (cfg i a b mem) io
      (cfg (i + (K.low (genVar reg sym)).length) (match reg with | .A => mem.read ad | .B => a)
        (match reg with | .A => b | .B => mem.read ad) mem) io := by
  by_cases hs : sym.scope = ""
  · obtain ⟨j, k, hd, hal, hloc'⟩ := wf.var_global n sym hl hs
    rw [hloc] at hloc'
    simp only [Option.some.injEq] at hloc'
    have hli := labelIdx_of_nodup _ _ _ _ wf.nodup hd
    have hld : Isa.ld mem (BitVec.ofNat 32 (K.env.addr j / 4)) = some (mem.read ad) := by
      rw [← hloc', ld_ofNat _ _ hlt]
    cases reg with
    | A =>
      simp only [genVar, hs, if_true, PCtx.low, lowerCode_cons, lowerOne_dir, lowerCode_nil, lLDAM, List.append_nil] at hat ⊢
      apply Steps.one
      have := Step.ldamL (env := K.env) (cfg i a b mem) io _ j _ hat.head hli hal hld
      simpa using this
    | B =>
      simp only [genVar, hs, if_true, PCtx.low, lowerCode_cons, lowerOne_dir, lowerCode_nil, lLDBM, List.append_nil] at hat ⊢
      apply Steps.one
      have := Step.ldbmL (env := K.env) (cfg i a b mem) io _ j _ hat.head hli hal hld
      simpa using this
  · obtain ⟨hfr, ad', hadr, hloc'⟩ := wf.var_local n sym hl hs
    rw [hloc] at hloc'
    simp only [Option.some.injEq] at hloc'
    subst hloc'
    have hS : (frameOf K.out sym.frame).size = K.S := by rw [hfr]; rfl
    have hsl := slot_addr K.sp K.S sym.stackOffset ad hadr
    cases reg with
    | A =>
      simp only [genVar, hs, if_false, PCtx.low, lowerCode_cons, lowerOne_dir, lowerOne_fb, lowerCode_nil, iLDAM,
        List.append_nil, List.cons_append, List.nil_append, fbOpc, hS, SP_OFFSET] at hat ⊢
      have s1 := Step.ldam (env := K.env) (cfg i a b mem) io 1 _ hat.head (ld_one mem)
      have hat2 := hat.tail
      have hld : Isa.ld mem (mem.read 1 + IAm.W ((K.S : Int) - 1 + sym.stackOffset)) = some (mem.read ad) := by
        rw [hr.sp, hsl, ld_ofNat _ _ hlt]
      have s2 := Step.ldai (env := K.env) (cfg (i + 1) (mem.read 1) b mem) io _ _ hat2.head hld
      refine Steps.step _ _ _ _ _ _ s1 (Steps.step _ _ _ _ _ _ s2 ?_)
      simp only [List.length_cons, List.length_nil]
      exact Steps.refl _ _
    | B =>
      simp only [genVar, hs, if_false, PCtx.low, lowerCode_cons, lowerOne_dir, lowerOne_fb, lowerCode_nil, iLDBM,
        List.append_nil, List.cons_append, List.nil_append, fbOpc, hS, SP_OFFSET] at hat ⊢
      have s1 := Step.ldbm (env := K.env) (cfg i a b mem) io 1 _ hat.head (ld_one mem)
      have hat2 := hat.tail
      have hld : Isa.ld mem (mem.read 1 + IAm.W ((K.S : Int) - 1 + sym.stackOffset)) = some (mem.read ad) := by
        rw [hr.sp, hsl, ld_ofNat _ _ hlt]
      have s2 := Step.ldbi (env := K.env) (cfg (i + 1) a (mem.read 1) mem) io _ _ hat2.head hld
      refine Steps.step _ _ _ _ _ _ s1 (Steps.step _ _ _ _ _ _ s2 ?_)
      simp only [List.length_cons, List.length_nil]
      exact Steps.refl _ _

/-- The `LDAC 0 / LDAC 1` selection after `BRZ`: 1 if the tested value is zero, else 0. -/
theorem exec_select_brz (K : PCtx) (wf : K.WF) (t e : String) (i : Nat) (x b : Word) (mem : Mem) (io : Isa.IOSt)
    (hat : At K.env.ds i (K.low (selectTail lBRZ t e))) :
    Steps K.env (cfg i x b mem) io (cfg (i + 6) (if x = 0 then 1 else 0) b mem) io := by
  simp only [selectTail, PCtx.low, lowerCode_cons, lowerOne_dir, lowerCode_nil, List.cons_append, List.nil_append,
    lBRZ, iLDAC, lBR, iLabel] at hat
  have h0 := hat.get 0 _ rfl
  have h1 := hat.get 1 _ rfl
  have h2 := hat.get 2 _ rfl
  have h3 := hat.get 3 _ rfl
  have h4 := hat.get 4 _ rfl
  have h5 := hat.get 5 _ rfl
  have lt := labelIdx_of_nodup _ _ _ _ wf.nodup h3
  have le := labelIdx_of_nodup _ _ _ _ wf.nodup h5
  have s0 := Step.brz (env := K.env) (cfg i x b mem) io t (i + 3) h0 lt
  by_cases hx : x = 0
  · simp only [hx, if_true] at s0 ⊢
    have s3 := Step.label (env := K.env) (cfg (i + 3) 0 b mem) io _ _ h3
    have s4 := Step.ldac (env := K.env) (cfg (i + 3 + 1) 0 b mem) io 1 h4
    have s5 := Step.label (env := K.env) (cfg (i + 3 + 1 + 1) (IAm.W 1) b mem) io _ _ h5
    exact Steps.step _ _ _ _ _ _ s0 (Steps.step _ _ _ _ _ _ s3 (Steps.step _ _ _ _ _ _ s4 (Steps.one s5)))
  · simp only [hx, if_false] at s0 ⊢
    have s1 := Step.ldac (env := K.env) (cfg (i + 1) x b mem) io 0 h1
    have s2 := Step.br (env := K.env) (cfg (i + 1 + 1) (IAm.W 0) b mem) io e (i + 5) h2 le
    have s5 := Step.label (env := K.env) (cfg (i + 5) (IAm.W 0) b mem) io _ _ h5
    exact Steps.step _ _ _ _ _ _ s0 (Steps.step _ _ _ _ _ _ s1 (Steps.step _ _ _ _ _ _ s2 (Steps.one s5)))

/-- The selection after `BRN`: 1 if the tested value is negative, else 0. -/
theorem exec_select_brn (K : PCtx) (wf : K.WF) (t e : String) (i : Nat) (x b : Word) (mem : Mem) (io : Isa.IOSt)
    (hat : At K.env.ds i (K.low (selectTail lBRN t e))) :
    Steps K.env (cfg i x b mem) io (cfg (i + 6) (if x.toInt < 0 then 1 else 0) b mem) io := by
  simp only [selectTail, PCtx.low, lowerCode_cons, lowerOne_dir, lowerCode_nil, List.cons_append, List.nil_append,
    lBRN, iLDAC, lBR, iLabel] at hat
  have h0 := hat.get 0 _ rfl
  have h1 := hat.get 1 _ rfl
  have h2 := hat.get 2 _ rfl
  have h3 := hat.get 3 _ rfl
  have h4 := hat.get 4 _ rfl
  have h5 := hat.get 5 _ rfl
  have lt := labelIdx_of_nodup _ _ _ _ wf.nodup h3
  have le := labelIdx_of_nodup _ _ _ _ wf.nodup h5
  have s0 := Step.brn (env := K.env) (cfg i x b mem) io t (i + 3) h0 lt
  by_cases hx : x.toInt < 0
  · simp only [hx, if_true] at s0 ⊢
    have s3 := Step.label (env := K.env) (cfg (i + 3) x b mem) io _ _ h3
    have s4 := Step.ldac (env := K.env) (cfg (i + 3 + 1) x b mem) io 1 h4
    have s5 := Step.label (env := K.env) (cfg (i + 3 + 1 + 1) (IAm.W 1) b mem) io _ _ h5
    exact Steps.step _ _ _ _ _ _ s0 (Steps.step _ _ _ _ _ _ s3 (Steps.step _ _ _ _ _ _ s4 (Steps.one s5)))
  · simp only [hx, if_false] at s0 ⊢
    have s1 := Step.ldac (env := K.env) (cfg (i + 1) x b mem) io 0 h1
    have s2 := Step.br (env := K.env) (cfg (i + 1 + 1) (IAm.W 0) b mem) io e (i + 5) h2 le
    have s5 := Step.label (env := K.env) (cfg (i + 5) (IAm.W 0) b mem) io _ _ h5
    exact Steps.step _ _ _ _ _ _ s0 (Steps.step _ _ _ _ _ _ s1 (Steps.step _ _ _ _ _ _ s2 (Steps.one s5)))

/-! ### The Hoare triples of expression code -/

def ConstsIn (K : PCtx) (gs : GS) : Prop := ∀ e ∈ gs.constMap, e ∈ K.consts

/-- Code generated for `e'` into areg: leaves `v` there; preserves what the memory represents;
    touches only frame slots from the current frame offset up to the frame size it asked for. -/
def ExecA (K : PCtx) (e' : AExpr) (v : Word) (σ : X.St) : Prop :=
  ∀ (gs : GS) (code : Code) (gs' : GS) (i : Nat) (a b : Word) (mem : Mem) (io : Isa.IOSt),
    genExpr K.ctx e' .A gs = .ok (code, gs') → At K.env.ds i (K.low code) → Rep K σ mem →
    gs'.size ≤ K.S → K.nlocals ≤ gs.offset → ConstsIn K gs' →
    ∃ b' mem', Steps K.env (cfg i a b mem) io (cfg (i + (K.low code).length) v b' mem') io ∧
      Rep K σ mem' ∧ Frm K gs.offset gs'.size mem mem'

/-- Code generated for a simple operand into breg: leaves `v` there, nothing else changes. -/
def ExecB (K : PCtx) (e' : AExpr) (v : Word) (σ : X.St) : Prop :=
  ∀ (gs : GS) (code : Code) (gs' : GS) (i : Nat) (a b : Word) (mem : Mem) (io : Isa.IOSt),
    genExpr K.ctx e' .B gs = .ok (code, gs') → At K.env.ds i (K.low code) → Rep K σ mem → ConstsIn K gs' →
    Steps K.env (cfg i a b mem) io (cfg (i + (K.low code).length) a v mem) io

theorem low_append (K : PCtx) (c1 c2 : Code) : K.low (c1 ++ c2) = K.low c1 ++ K.low c2 := lowerCode_append _ _ _

theorem slot_inj (K : PCtx) (k1 k2 : Nat) (h1 : k1 < K.S) (h2 : k2 < K.S) (h : K.slot k1 = K.slot k2) : k1 = k2 := by
  unfold PCtx.slot at h; omega

theorem ConstsIn.of_eff {K : PCtx} {gs gs' : GS} (h : ConstsIn K gs') (e : Eff gs gs') : ConstsIn K gs :=
  fun x hx => h x (e.2.2.2 x hx)

/-- `genBinopOperands`: LHS ends up in areg, RHS in breg. -/
theorem exec_operands (K : PCtx) (wf : K.WF) (l' r' : AExpr) (vl vr : Word) (σ : X.St)
    (hL : ExecA K l' vl σ) (hRA : needsAReg r' = true → ExecA K r' vr σ)
    (hRB : needsAReg r' = false → ExecB K r' vr σ)
    (gs : GS) (c : Code) (gs' : GS) (i : Nat) (a b : Word) (mem : Mem) (io : Isa.IOSt)
    (hg : genOperands K.ctx l' r' gs = .ok (c, gs')) (hat : At K.env.ds i (K.low c)) (hr : Rep K σ mem)
    (hsz : gs'.size ≤ K.S) (hnl : K.nlocals ≤ gs.offset) (hci : ConstsIn K gs') :
    ∃ mem', Steps K.env (cfg i a b mem) io (cfg (i + (K.low c).length) vl vr mem') io ∧
      Rep K σ mem' ∧ Frm K gs.offset gs'.size mem mem' := by
  unfold genOperands at hg
  obtain ⟨hA, hB⟩ := binopOperands_inv _ _ _ _ _ _ _ _ hg
  cases hn : needsAReg r' with
  | true =>
    obtain ⟨cr, gs1, cl, gs2, h1, h2, hcode, hgs'⟩ := hA hn
    have e1 := genExpr_eff _ _ _ _ _ _ h1
    have e2 := genExpr_eff _ _ _ _ _ _ h2
    obtain ⟨e1o, e1s, _, _⟩ := e1
    obtain ⟨e2o, e2s, _, e2c⟩ := e2
    simp only at e2o e2s e2c
    subst hgs'
    simp only at hsz hci
    subst hcode
    simp only [low_append, List.append_assoc] at hat ⊢
    -- the temporary's frame offset
    have hoff : gs1.offset < K.S := by omega
    have hci2 : ConstsIn K gs2 := hci
    have hci1 : ConstsIn K gs1 := fun x hx => hci2 x (e2c x hx)
    -- RHS into areg
    obtain ⟨b1, mem1, st1, rep1, frm1⟩ := hRA hn gs cr gs1 i a b mem io h1 hat.left hr (by omega) hnl hci1
    -- save it
    have hat' := hat.right
    simp only [PCtx.low, lowerCode_cons, lowerOne_dir, lowerOne_fb, lowerCode_nil, iLDBM, List.cons_append,
      List.nil_append, List.append_nil, fbOpc, SP_OFFSET] at hat'
    have hS : (frameOf K.out K.ctx.frame).size = K.S := rfl
    rw [hS] at hat'
    have sA := Step.ldbm (env := K.env) (cfg (i + (K.low cr).length) vr b1 mem1) io 1 _ hat'.head (ld_one mem1)
    have hslot : (K.slot gs1.offset : Int) = (K.sp : Int) + (K.S : Int) - 1 + (-(gs1.offset : Int)) := by
      unfold PCtx.slot; omega
    have hadr := slot_addr K.sp K.S (-(gs1.offset : Int)) (K.slot gs1.offset) hslot
    obtain ⟨hsl1, hsl2⟩ := wf.slot_ok gs1.offset hoff
    have hst : IAm.store K.env mem1 (mem1.read 1 + IAm.W ((K.S : Int) - 1 + -(gs1.offset : Int))) vr
        = some (mem1.write (K.slot gs1.offset) vr) := by
      rw [rep1.sp, hadr]; exact store_ofNat _ _ _ _ hsl1 hsl2
    have sB := Step.stai (env := K.env) (cfg (i + (K.low cr).length + 1) vr (mem1.read 1) mem1) io _ _
      hat'.tail.head hst
    -- memory after the save still represents σ
    have frm2 : Frm K gs1.offset (gs1.offset + 1) mem1 (mem1.write (K.slot gs1.offset) vr) := by
      intro ad had
      rw [Mem.read_write_other]
      exact fun e => had gs1.offset (Nat.le_refl _) (by omega) e.symm
    have rep2 := rep1.frame wf frm2 (by omega) (by omega)
    -- LHS into areg
    have hat'' := hat'.tail.tail
    obtain ⟨b3, mem3, st3, rep3, frm3⟩ := hL _ cl gs2 (i + (K.low cr).length + 1 + 1) vr (mem1.read 1)
      (mem1.write (K.slot gs1.offset) vr) io h2 hat''.left rep2 (by omega) (by simp only; omega) hci2
    simp only at frm3
    -- restore RHS into breg
    have hat3 := hat''.right
    have sC := Step.ldbm (env := K.env) (cfg (i + (K.low cr).length + 1 + 1 + (K.low cl).length) vl b3 mem3) io 1 _
      hat3.head (ld_one mem3)
    have hkeep : mem3.read (K.slot gs1.offset) = vr := by
      rw [frm3 _ (fun k h1 h2 e => by
        have := slot_inj K gs1.offset k hoff (by omega) e; omega)]
      exact Mem.read_write_same _ _ _ hsl1
    have hld : Isa.ld mem3 (mem3.read 1 + IAm.W ((K.S : Int) - 1 + -(gs1.offset : Int))) = some vr := by
      rw [rep3.sp, hadr, ld_ofNat _ _ hsl1, hkeep]
    have sD := Step.ldbi (env := K.env) (cfg (i + (K.low cr).length + 1 + 1 + (K.low cl).length + 1) vl (mem3.read 1) mem3)
      io _ _ hat3.tail.head hld
    refine ⟨mem3, ?_, rep3, ?_⟩
    · have hlen : i + ((K.low cr).length + ((K.low [iLDBM SP_OFFSET, IDir.fb FbKind.stai K.ctx.frame (-(gs1.offset : Int))]).length +
          ((K.low cl).length + (K.low [iLDBM SP_OFFSET, IDir.fb FbKind.ldbi K.ctx.frame (-(gs1.offset : Int))]).length)))
          = i + (K.low cr).length + 1 + 1 + (K.low cl).length + 1 + 1 := by
        have l1 : (K.low [iLDBM SP_OFFSET, IDir.fb FbKind.stai K.ctx.frame (-(gs1.offset : Int))]).length = 2 := rfl
        have l2 : (K.low [iLDBM SP_OFFSET, IDir.fb FbKind.ldbi K.ctx.frame (-(gs1.offset : Int))]).length = 2 := rfl
        rw [l1, l2]; omega
      simp only [List.length_append]
      rw [hlen]
      exact st1.trans (Steps.step _ _ _ _ _ _ sA (Steps.step _ _ _ _ _ _ sB
        (st3.trans (Steps.step _ _ _ _ _ _ sC (Steps.one sD)))))
    · -- frame condition
      intro ad had
      rw [frm3 ad (fun k h1 h2 => had k (by omega) (by omega))]
      rw [Mem.read_write_other _ _ _ _ (fun e => had gs1.offset (by omega) (by omega) e.symm)]
      exact frm1 ad (fun k h1 h2 => had k h1 (by omega))
  | false =>
    obtain ⟨cl, gs1, cr, h1, h2, hcode⟩ := hB hn
    have e2 := genExpr_eff _ _ _ _ _ _ h2
    obtain ⟨e2o, e2s, _, e2c⟩ := e2
    subst hcode
    simp only [low_append] at hat ⊢
    have hci1 : ConstsIn K gs1 := fun x hx => hci x (e2c x hx)
    obtain ⟨b1, mem1, st1, rep1, frm1⟩ := hL gs cl gs1 i a b mem io h1 hat.left hr (by omega) hnl hci1
    have st2 := hRB hn gs1 cr gs' (i + (K.low cl).length) vl b1 mem1 io h2 hat.right rep1 hci
    refine ⟨mem1, ?_, rep1, frm1.mono (Nat.le_refl _) e2s⟩
    simp only [List.length_append]
    rw [← Nat.add_assoc]
    exact st1.trans st2

/-! ### Operator shapes -/

theorem ExecA.same {K : PCtx} {e' : AExpr} {v : Word} {σ σ' : X.St} (h : ExecA K e' v σ) (hs : SameVars σ σ') :
    ExecA K e' v σ' := by
  intro gs code gs' i a b mem io hg hat hr hsz hnl hci
  obtain ⟨b', mem', st, rep, frm⟩ := h gs code gs' i a b mem io hg hat (hr.same hs.symm) hsz hnl hci
  exact ⟨b', mem', st, rep.same hs, frm⟩

theorem ExecB.same {K : PCtx} {e' : AExpr} {v : Word} {σ σ' : X.St} (h : ExecB K e' v σ) (hs : SameVars σ σ') :
    ExecB K e' v σ' := by
  intro gs code gs' i a b mem io hg hat hr hci
  exact h gs code gs' i a b mem io hg hat (hr.same hs.symm) hci

theorem low_single_dir (K : PCtx) (d : Dir) : K.low [.dir d] = [d] := rfl

theorem shape_plus (K : PCtx) (wf : K.WF) (L R : AExpr) (vl vr : Word) (σ : X.St)
    (hL : ExecA K L vl σ) (hRA : needsAReg R = true → ExecA K R vr σ) (hRB : needsAReg R = false → ExecB K R vr σ) :
    ExecA K (.bin .plus L R none) (vl + vr) σ := by
  intro gs code gs' i a b mem io hg hat hr hsz hnl hci
  obtain ⟨c, h1, hcode⟩ := genExpr_plus_inv _ _ _ _ _ _ _ hg
  subst hcode
  simp only [low_append] at hat ⊢
  obtain ⟨mem', st, rep, frm⟩ := exec_operands K wf L R vl vr σ hL hRA hRB gs c gs' i a b mem io h1 hat.left hr hsz hnl hci
  have hat2 := hat.right
  simp only [iADD, low_single_dir] at hat2 ⊢
  have s := Step.add (env := K.env) (cfg (i + (K.low c).length) vl vr mem') io hat2.head
  refine ⟨vr, mem', ?_, rep, frm⟩
  simp only [List.length_append, List.length_cons, List.length_nil, ← Nat.add_assoc]
  exact st.trans (Steps.one s)

theorem shape_minus (K : PCtx) (wf : K.WF) (L R : AExpr) (vl vr : Word) (σ : X.St)
    (hL : ExecA K L vl σ) (hRA : needsAReg R = true → ExecA K R vr σ) (hRB : needsAReg R = false → ExecB K R vr σ) :
    ExecA K (.bin .minus L R none) (vl - vr) σ := by
  intro gs code gs' i a b mem io hg hat hr hsz hnl hci
  obtain ⟨c, h1, hcode⟩ := genExpr_minus_inv _ _ _ _ _ _ _ hg
  subst hcode
  simp only [low_append] at hat ⊢
  obtain ⟨mem', st, rep, frm⟩ := exec_operands K wf L R vl vr σ hL hRA hRB gs c gs' i a b mem io h1 hat.left hr hsz hnl hci
  have hat2 := hat.right
  simp only [iSUB, low_single_dir] at hat2 ⊢
  have s := Step.sub (env := K.env) (cfg (i + (K.low c).length) vl vr mem') io hat2.head
  refine ⟨vr, mem', ?_, rep, frm⟩
  simp only [List.length_append, List.length_cons, List.length_nil, ← Nat.add_assoc]
  exact st.trans (Steps.one s)

theorem low_selectTail_length (K : PCtx) (br : String → IDir) (hbr : ∀ l, ∃ d, br l = .dir d) (t e : String) :
    (K.low (selectTail br t e)).length = 6 := by
  obtain ⟨d, hd⟩ := hbr t
  simp [selectTail, PCtx.low, lowerCode_cons, lowerCode_nil, hd, iLDAC, lBR, iLabel]

/-- The operand of the zero test of `=` / `<`: the word `vl - vr`, or `vr` itself when the left
    operand is the constant zero (only `=` uses that shortcut). -/
theorem exec_eqOperand (K : PCtx) (wf : K.WF) (L R : AExpr) (vl vr : Word) (σ : X.St) (lz rz : Bool)
    (hL : ExecA K L vl σ) (hR : ExecA K R vr σ) (hRB : needsAReg R = false → ExecB K R vr σ)
    (hlz : lz = true → vl = 0) (hrz : rz = true → vr = 0)
    (gs : GS) (c : Code) (gs' : GS) (i : Nat) (a b : Word) (mem : Mem) (io : Isa.IOSt)
    (hg : eqOperand lz rz (genExpr K.ctx L .A) (genExpr K.ctx R .A) (genOperands K.ctx L R) gs = .ok (c, gs'))
    (hat : At K.env.ds i (K.low c)) (hr : Rep K σ mem)
    (hsz : gs'.size ≤ K.S) (hnl : K.nlocals ≤ gs.offset) (hci : ConstsIn K gs') :
    ∃ x b' mem', (x = vl - vr ∨ (lz = true ∧ vl = 0 ∧ x = vr)) ∧
      Steps K.env (cfg i a b mem) io (cfg (i + (K.low c).length) x b' mem') io ∧
      Rep K σ mem' ∧ Frm K gs.offset gs'.size mem mem' := by
  rcases eqOperand_inv _ _ _ _ _ _ _ _ hg with ⟨h0, h1⟩ | ⟨_, h0, h1⟩ | ⟨_, _, c', h1, hcode⟩
  · obtain ⟨b', mem', st, rep, frm⟩ := hR gs c gs' i a b mem io h1 hat hr hsz hnl hci
    exact ⟨vr, b', mem', Or.inr ⟨h0, hlz h0, rfl⟩, st, rep, frm⟩
  · have := hrz h0
    subst this
    obtain ⟨b', mem', st, rep, frm⟩ := hL gs c gs' i a b mem io h1 hat hr hsz hnl hci
    exact ⟨vl, b', mem', Or.inl (by simp), st, rep, frm⟩
  · subst hcode
    simp only [low_append] at hat ⊢
    obtain ⟨mem', st, rep, frm⟩ := exec_operands K wf L R vl vr σ hL (fun _ => hR) hRB gs c' gs' i a b mem io h1
      hat.left hr hsz hnl hci
    have hat2 := hat.right
    simp only [iSUB, low_single_dir] at hat2 ⊢
    have s := Step.sub (env := K.env) (cfg (i + (K.low c').length) vl vr mem') io hat2.head
    refine ⟨vl - vr, vr, mem', Or.inl rfl, ?_, rep, frm⟩
    simp only [List.length_append, List.length_cons, List.length_nil, ← Nat.add_assoc]
    exact st.trans (Steps.one s)

theorem shape_eq (K : PCtx) (wf : K.WF) (L R : AExpr) (vl vr : Word) (σ : X.St)
    (hL : ExecA K L vl σ) (hR : ExecA K R vr σ) (hRB : needsAReg R = false → ExecB K R vr σ)
    (hlz : L.isConstZero = true → vl = 0) (hrz : R.isConstZero = true → vr = 0) :
    ExecA K (.bin .eq L R none) (rtEq vl vr) σ := by
  intro gs code gs' i a b mem io hg hat hr hsz hnl hci
  obtain ⟨c, gs1, h1, hgs', hcode⟩ := genExpr_eq_inv _ _ _ _ _ _ _ hg
  subst hgs'; subst hcode
  simp only [low_append] at hat ⊢
  obtain ⟨x, b', mem', hx, st, rep, frm⟩ := exec_eqOperand K wf L R vl vr σ _ _ hL hR hRB hlz hrz gs c gs1 i a b mem io h1
    hat.left hr hsz hnl hci
  have st2 := exec_select_brz K wf _ _ (i + (K.low c).length) x b' mem' io hat.right
  refine ⟨b', mem', ?_, rep, frm⟩
  have hlen : (K.low (selectTail lBRZ (lab gs1.labelCount) (lab (gs1.labelCount + 1)))).length = 6 :=
    low_selectTail_length K lBRZ (fun l => ⟨_, rfl⟩) _ _
  simp only [List.length_append, hlen, ← Nat.add_assoc]
  have hval : (if x = 0 then (1 : Word) else 0) = rtEq vl vr := by
    rcases hx with hx | ⟨_, h0, hx⟩
    · subst hx; rfl
    · subst hx; subst h0; rw [rtEq_zero_left]; rfl
  rw [← hval]
  exact st.trans st2

theorem shape_ls (K : PCtx) (wf : K.WF) (L R : AExpr) (vl vr : Word) (σ : X.St)
    (hL : ExecA K L vl σ) (hR : ExecA K R vr σ) (hRB : needsAReg R = false → ExecB K R vr σ)
    (hrz : R.isConstZero = true → vr = 0) :
    ExecA K (.bin .ls L R none) (rtLs vl vr) σ := by
  intro gs code gs' i a b mem io hg hat hr hsz hnl hci
  obtain ⟨c, gs1, h1, hgs', hcode⟩ := genExpr_ls_inv _ _ _ _ _ _ _ hg
  subst hgs'; subst hcode
  simp only [low_append] at hat ⊢
  obtain ⟨x, b', mem', hx, st, rep, frm⟩ := exec_eqOperand K wf L R vl vr σ false _ hL hR hRB (by simp) hrz gs c gs1 i a b mem io h1
    hat.left hr hsz hnl hci
  have st2 := exec_select_brn K wf _ _ (i + (K.low c).length) x b' mem' io hat.right
  refine ⟨b', mem', ?_, rep, frm⟩
  have hlen : (K.low (selectTail lBRN (lab gs1.labelCount) (lab (gs1.labelCount + 1)))).length = 6 :=
    low_selectTail_length K lBRN (fun l => ⟨_, rfl⟩) _ _
  simp only [List.length_append, hlen, ← Nat.add_assoc]
  have hval : (if x.toInt < 0 then (1 : Word) else 0) = rtLs vl vr := by
    rcases hx with hx | ⟨h0, _, _⟩
    · subst hx
      unfold rtLs rtIsNeg
      rw [BitVec.msb_eq_toInt]
      by_cases h : (vl - vr).toInt < 0 <;> simp [h]
    · simp at h0
  rw [← hval]
  exact st.trans st2

theorem shape_not (K : PCtx) (wf : K.WF) (E : AExpr) (x : Word) (σ : X.St) (hE : ExecA K E x σ) :
    ExecA K (.un .not E none) (rtIsZero x) σ := by
  intro gs code gs' i a b mem io hg hat hr hsz hnl hci
  obtain ⟨ce, h1, hcode⟩ := genExpr_not_inv _ _ _ _ _ _ hg
  subst hcode
  simp only [low_append] at hat ⊢
  obtain ⟨b', mem', st, rep, frm⟩ := hE _ ce gs' i a b mem io h1 hat.left hr hsz hnl hci
  have st2 := exec_select_brz K wf _ _ (i + (K.low ce).length) x b' mem' io hat.right
  refine ⟨b', mem', ?_, rep, frm⟩
  have hlen : (K.low (selectTail lBRZ (lab gs.labelCount) (lab (gs.labelCount + 1)))).length = 6 :=
    low_selectTail_length K lBRZ (fun l => ⟨_, rfl⟩) _ _
  simp only [List.length_append, hlen, ← Nat.add_assoc]
  exact st.trans st2

theorem shape_and (K : PCtx) (wf : K.WF) (L R : AExpr) (vl vr : Word) (σ : X.St)
    (hL : ExecA K L vl σ) (hR : vl ≠ 0 → ExecA K R vr σ) :
    ExecA K (.bin .and L R none) (if vl = 0 then vl else vr) σ := by
  intro gs code gs' i a b mem io hg hat hr hsz hnl hci
  obtain ⟨cl, gs1, cr, h1, h2, hcode⟩ := genExpr_and_inv _ _ _ _ _ _ _ hg
  subst hcode
  have e2 := genExpr_eff _ _ _ _ _ _ h2
  obtain ⟨e2o, e2s, _, e2c⟩ := e2
  have e1 := genExpr_eff _ _ _ _ _ _ h1
  obtain ⟨e1o, e1s, _, _⟩ := e1
  simp only at e1o e1s
  simp only [low_append, List.append_assoc] at hat ⊢
  obtain ⟨b1, mem1, st1, rep1, frm1⟩ := hL _ cl gs1 i a b mem io h1 hat.left hr (by omega) hnl
    (fun x hx => hci x (e2c x hx))
  simp only at frm1
  have hat2 := hat.right
  have hbrz : K.low [lBRZ (lab gs.labelCount)] = [.ref 0xA (lab gs.labelCount) true] := rfl
  have hlbl : K.low [iLabel (lab gs.labelCount)] = [.label .plain (lab gs.labelCount)] := rfl
  rw [hbrz, hlbl] at hat2
  rw [hbrz, hlbl]
  have hend := hat2.right.right.head
  simp only [List.length_cons, List.length_nil] at hend
  have lend := labelIdx_of_nodup _ _ _ _ wf.nodup hend
  have s0 := Step.brz (env := K.env) (cfg (i + (K.low cl).length) vl b1 mem1) io _ _ hat2.head lend
  simp only [List.length_append, List.length_cons, List.length_nil]
  by_cases hz : vl = 0
  · simp only [hz, if_true] at s0 ⊢
    have s1 := Step.label (env := K.env) (cfg (i + (K.low cl).length + (0 + 1) + (K.low cr).length) 0 b1 mem1) io _ _
      (by simpa using hend)
    refine ⟨b1, mem1, ?_, rep1, frm1.mono (Nat.le_refl _) (by omega)⟩
    have : i + ((K.low cl).length + (0 + 1 + ((K.low cr).length + (0 + 1))))
        = i + (K.low cl).length + (0 + 1) + (K.low cr).length + 1 := by omega
    rw [this]
    rw [hz] at st1
    exact st1.trans (Steps.step _ _ _ _ _ _ s0 (Steps.one s1))
  · simp only [hz, if_false] at s0 ⊢
    obtain ⟨b2, mem2, st2, rep2, frm2⟩ := hR hz gs1 cr gs' (i + (K.low cl).length + 1) vl b1 mem1 io h2
      hat2.right.left rep1 hsz (by omega) hci
    have s1 := Step.label (env := K.env) (cfg (i + (K.low cl).length + 1 + (K.low cr).length) vr b2 mem2) io _ _
      (by simpa using hend)
    refine ⟨b2, mem2, ?_, rep2, ?_⟩
    · have : i + ((K.low cl).length + (0 + 1 + ((K.low cr).length + (0 + 1))))
          = i + (K.low cl).length + 1 + (K.low cr).length + 1 := by omega
      rw [this]
      exact st1.trans (Steps.step _ _ _ _ _ _ s0 (st2.trans (Steps.one s1)))
    · exact (frm1.mono (Nat.le_refl _) (by omega)).trans (frm2.mono (by omega) (Nat.le_refl _))

theorem shape_or (K : PCtx) (wf : K.WF) (L R : AExpr) (vl vr : Word) (σ : X.St)
    (hL : ExecA K L vl σ) (hR : vl = 0 → ExecA K R vr σ) :
    ExecA K (.bin .or L R none) (if vl = 0 then vr else vl) σ := by
  intro gs code gs' i a b mem io hg hat hr hsz hnl hci
  obtain ⟨cl, gs1, cr, h1, h2, hcode⟩ := genExpr_or_inv _ _ _ _ _ _ _ hg
  subst hcode
  have e2 := genExpr_eff _ _ _ _ _ _ h2
  obtain ⟨e2o, e2s, _, e2c⟩ := e2
  have e1 := genExpr_eff _ _ _ _ _ _ h1
  obtain ⟨e1o, e1s, _, _⟩ := e1
  simp only at e1o e1s
  simp only [low_append, List.append_assoc] at hat ⊢
  obtain ⟨b1, mem1, st1, rep1, frm1⟩ := hL _ cl gs1 i a b mem io h1 hat.left hr (by omega) hnl
    (fun x hx => hci x (e2c x hx))
  simp only at frm1
  have hat2 := hat.right
  have hmid : K.low [lBRZ (lab gs.labelCount), lBR (lab (gs.labelCount + 1)), iLabel (lab gs.labelCount)]
      = [.ref 0xA (lab gs.labelCount) true, .ref 0x9 (lab (gs.labelCount + 1)) true, .label .plain (lab gs.labelCount)] := rfl
  have hlbl : K.low [iLabel (lab (gs.labelCount + 1))] = [.label .plain (lab (gs.labelCount + 1))] := rfl
  rw [hmid, hlbl] at hat2
  rw [hmid, hlbl]
  have hfalse := hat2.left.get 2 _ rfl
  have hend := hat2.right.right.head
  simp only [List.length_cons, List.length_nil] at hend
  have lfalse := labelIdx_of_nodup _ _ _ _ wf.nodup hfalse
  have lend := labelIdx_of_nodup _ _ _ _ wf.nodup hend
  have s0 := Step.brz (env := K.env) (cfg (i + (K.low cl).length) vl b1 mem1) io _ _ hat2.head lfalse
  simp only [List.length_append, List.length_cons, List.length_nil]
  by_cases hz : vl = 0
  · simp only [hz, if_true] at s0 ⊢
    have s1 := Step.label (env := K.env) (cfg (i + (K.low cl).length + 2) 0 b1 mem1) io _ _ hfalse
    obtain ⟨b2, mem2, st2, rep2, frm2⟩ := hR hz gs1 cr gs' (i + (K.low cl).length + 2 + 1) 0 b1 mem1 io h2
      (by have := hat2.right.left; simpa [Nat.add_assoc] using this) rep1 hsz (by omega) hci
    have s2 := Step.label (env := K.env) (cfg (i + (K.low cl).length + 2 + 1 + (K.low cr).length) vr b2 mem2) io _ _
      (by simpa [Nat.add_assoc] using hend)
    refine ⟨b2, mem2, ?_, rep2, ?_⟩
    · have : i + ((K.low cl).length + (0 + 1 + 1 + 1 + ((K.low cr).length + (0 + 1))))
          = i + (K.low cl).length + 2 + 1 + (K.low cr).length + 1 := by omega
      rw [this]
      rw [hz] at st1
      exact st1.trans (Steps.step _ _ _ _ _ _ s0 (Steps.step _ _ _ _ _ _ s1 (st2.trans (Steps.one s2))))
    · exact (frm1.mono (Nat.le_refl _) (by omega)).trans (frm2.mono (by omega) (Nat.le_refl _))
  · simp only [hz, if_false] at s0 ⊢
    have s1 := Step.br (env := K.env) (cfg (i + (K.low cl).length + 1) vl b1 mem1) io _ _
      (hat2.left.get 1 _ rfl) lend
    have s2 := Step.label (env := K.env) (cfg (i + (K.low cl).length + (0 + 1 + 1 + 1) + (K.low cr).length) vl b1 mem1) io _ _
      (by simpa using hend)
    refine ⟨b1, mem1, ?_, rep1, frm1.mono (Nat.le_refl _) (by omega)⟩
    have : i + ((K.low cl).length + (0 + 1 + 1 + 1 + ((K.low cr).length + (0 + 1))))
        = i + (K.low cl).length + (0 + 1 + 1 + 1) + (K.low cr).length + 1 := by omega
    rw [this]
    exact st1.trans (Steps.step _ _ _ _ _ _ s0 (Steps.step _ _ _ _ _ _ s1 (Steps.one s2)))

end Hex.C01s
