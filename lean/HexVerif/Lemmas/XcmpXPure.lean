import HexVerif.Lemmas.XcmpXSim
/-!
  Purity in the reference semantics: an expression that contains no call of an impure callee
  (`X.impE`) is evaluated without effect on variables, arrays, bindings, I/O and depth, and does
  not terminate the program; given that the set `ctx.impure` is closed under `X.impureStep`
  (`PureOk`, checked by the whole-program check).
-/
namespace Hex.C01s
open Hex Hex.X

def keys (l : List (String × LBind)) : List String := l.map (·.1)

/-- The global part of the state and the set of local names are as before. -/
def SimG (a b : X.St) : Prop :=
  a.gvars = b.gvars ∧ a.arrays = b.arrays ∧ a.io = b.io ∧ a.depth = b.depth ∧ keys a.locals = keys b.locals

theorem SimG.refl (a : X.St) : SimG a a := ⟨rfl, rfl, rfl, rfl, rfl⟩
theorem SimG.trans {a b c : X.St} (h1 : SimG a b) (h2 : SimG b c) : SimG a c :=
  ⟨h1.1.trans h2.1, h1.2.1.trans h2.2.1, h1.2.2.1.trans h2.2.2.1, h1.2.2.2.1.trans h2.2.2.2.1, h1.2.2.2.2.trans h2.2.2.2.2⟩
theorem Sim.toG {a b : X.St} (h : Sim a b) : SimG a b := ⟨h.1, h.2.1, h.2.2.2.1, h.2.2.2.2, by rw [h.2.2.1]⟩

/-- From a state whose local names are `L`: `F` succeeds only into a `Sim` state and never exits. -/
def KE {α : Type} (L : List String) (F : X.St → Res α) : Prop :=
  ∀ σ, keys σ.locals = L → (∀ a s, F σ = .ok a s → Sim σ s) ∧ (∀ c s, F σ ≠ .exit c s)

/-- The same up to the values of local variables. -/
def KS {α : Type} (L : List String) (F : X.St → Res α) : Prop :=
  ∀ σ, keys σ.locals = L → (∀ a s, F σ = .ok a s → SimG σ s) ∧ (∀ c s, F σ ≠ .exit c s)

theorem KE.toS {α : Type} {L : List String} {F : X.St → Res α} (h : KE L F) : KS L F :=
  fun σ hk => ⟨fun a s he => ((h σ hk).1 a s he).toG, (h σ hk).2⟩

theorem KE.undef {α : Type} (L : List String) (w : String) : KE L (fun _ => (Res.undef w : Res α)) :=
  fun _ _ => ⟨fun _ _ h => by simp at h, fun _ _ h => by simp at h⟩

theorem KE.ok {α : Type} (L : List String) (a : α) : KE L (fun s => Res.ok a s) := by
  intro σ _
  refine ⟨fun a' s h => ?_, fun _ _ h => by simp at h⟩
  simp only [Res.ok.injEq] at h
  rw [← h.2]; exact Sim.refl _

theorem KE.bind {α β : Type} {L : List String} {F : X.St → Res α} {f : α → X.St → Res β}
    (hF : KE L F) (hf : ∀ a, KE L (f a)) : KE L (fun s => (F s).bind f) := by
  intro σ hk
  obtain ⟨h1, h2⟩ := hF σ hk
  constructor
  · intro b t h
    dsimp only at h
    cases hr : F σ with
    | undef w => rw [hr] at h; simp [Res.bind] at h
    | exit c s => exact absurd hr (h2 c s)
    | ok a s =>
      rw [hr] at h
      simp only [Res.bind] at h
      have hs := h1 a s hr
      exact hs.trans (((hf a) s (by rw [← hs.2.2.1]; exact hk)).1 b t h)
  · intro c t h
    dsimp only at h
    cases hr : F σ with
    | undef w => rw [hr] at h; simp [Res.bind] at h
    | exit c' s => exact absurd hr (h2 c' s)
    | ok a s =>
      rw [hr] at h
      simp only [Res.bind] at h
      have hs := h1 a s hr
      exact ((hf a) s (by rw [← hs.2.2.1]; exact hk)).2 c t h

theorem KS.bind {α β : Type} {L : List String} {F : X.St → Res α} {f : α → X.St → Res β}
    (hF : KS L F) (hf : ∀ a, KS L (f a)) : KS L (fun s => (F s).bind f) := by
  intro σ hk
  obtain ⟨h1, h2⟩ := hF σ hk
  constructor
  · intro b t h
    dsimp only at h
    cases hr : F σ with
    | undef w => rw [hr] at h; simp [Res.bind] at h
    | exit c s => exact absurd hr (h2 c s)
    | ok a s =>
      rw [hr] at h
      simp only [Res.bind] at h
      have hs := h1 a s hr
      exact hs.trans (((hf a) s (by rw [← hs.2.2.2.2]; exact hk)).1 b t h)
  · intro c t h
    dsimp only at h
    cases hr : F σ with
    | undef w => rw [hr] at h; simp [Res.bind] at h
    | exit c' s => exact absurd hr (h2 c' s)
    | ok a s =>
      rw [hr] at h
      simp only [Res.bind] at h
      have hs := h1 a s hr
      exact ((hf a) s (by rw [← hs.2.2.2.2]; exact hk)).2 c t h

theorem KE.liftE {α : Type} (L : List String) (g : X.St → Except String α) : KE L (fun s => X.liftE (g s) s) := by
  intro σ _
  constructor
  · intro a s h
    dsimp only at h
    unfold X.liftE at h
    cases hg : g σ with
    | error w => rw [hg] at h; simp at h
    | ok a' => rw [hg] at h; simp only [Res.ok.injEq] at h; rw [← h.2]; exact Sim.refl _
  · intro c s h
    dsimp only at h
    unfold X.liftE at h
    cases hg : g σ <;> rw [hg] at h <;> simp at h

theorem KE.tick {α : Type} {L : List String} {xc : X.Ctx} {F : X.St → Res α} (w : String) (hF : KE L F) :
    KE L (fun s0 => match X.tick xc s0 with | none => Res.undef w | some st => F st) := by
  intro σ hk
  cases ht : X.tick xc σ with
  | none => exact ⟨fun _ _ h => by dsimp only at h; rw [ht] at h; simp at h, fun _ _ h => by dsimp only at h; rw [ht] at h; simp at h⟩
  | some st =>
    have hst : Sim σ st := by
      unfold X.tick at ht
      split at ht
      · simp at ht
      · simp only [Option.some.injEq] at ht; subst ht; exact ⟨rfl, rfl, rfl, rfl, rfl⟩
    obtain ⟨h1, h2⟩ := hF st (by rw [← hst.2.2.1]; exact hk)
    exact ⟨fun a s h => by dsimp only at h; rw [ht] at h; exact hst.trans (h1 a s h),
      fun c s h => by dsimp only at h; rw [ht] at h; exact h2 c s h⟩

theorem KS.tick {α : Type} {L : List String} {xc : X.Ctx} {F : X.St → Res α} (w : String) (hF : KS L F) :
    KS L (fun s0 => match X.tick xc s0 with | none => Res.undef w | some st => F st) := by
  intro σ hk
  cases ht : X.tick xc σ with
  | none => exact ⟨fun _ _ h => by dsimp only at h; rw [ht] at h; simp at h, fun _ _ h => by dsimp only at h; rw [ht] at h; simp at h⟩
  | some st =>
    have hst : Sim σ st := by
      unfold X.tick at ht
      split at ht
      · simp at ht
      · simp only [Option.some.injEq] at ht; subst ht; exact ⟨rfl, rfl, rfl, rfl, rfl⟩
    obtain ⟨h1, h2⟩ := hF st (by rw [← hst.2.2.1]; exact hk)
    exact ⟨fun a s h => by dsimp only at h; rw [ht] at h; exact hst.toG.trans (h1 a s h),
      fun c s h => by dsimp only at h; rw [ht] at h; exact h2 c s h⟩

theorem KE.ite {α : Type} {L : List String} {c : X.St → Bool} {A B : X.St → Res α} (hA : KE L A) (hB : KE L B) :
    KE L (fun s => if c s then A s else B s) := by
  intro σ hk
  dsimp only
  cases c σ
  · simpa using hB σ hk
  · simpa using hA σ hk

theorem KE.asInt {L : List String} {F : X.St → Res Val} (what : String) (hF : KE L F) : KE L (fun s => X.asInt what (F s)) := by
  unfold X.asInt
  refine hF.bind (fun v => ?_)
  cases v with
  | int w => exact KE.ok L w
  | arr r => exact KE.undef L _

theorem KE.asBool {L : List String} {F : X.St → Res Val} (what : String) (hF : KE L F) : KE L (fun s => X.asBool what (F s)) := by
  unfold X.asBool
  refine (KE.asInt what hF).bind (fun w => ?_)
  by_cases hb : X.isBool w = true
  · simp only [hb, if_true]; exact KE.ok L w
  · simp only [hb]; exact KE.undef L _

/-! ### The impurity analysis, in terms of the set of local names -/

/-- `X.isImpureCallee` as a function of the local names. -/
def imp0 (xc : X.Ctx) (L : List String) (g : String) : Bool :=
  L.contains g || (match xc.genv.lookup g with | some (.proc _) => xc.impure.contains g | _ => true)

theorem lookup_isSome_keys (l : List (String × LBind)) (g : String) : (l.lookup g).isSome = (keys l).contains g := by
  induction l with
  | nil => rfl
  | cons e rest ih =>
    obtain ⟨k, v⟩ := e
    simp only [List.lookup_cons, keys, List.map_cons, List.contains_cons]
    by_cases h : g == k
    · simp [h]
    · simp only [h, Bool.false_or]
      exact ih

theorem isImpureCallee_eq (xc : X.Ctx) (st : X.St) : X.isImpureCallee xc st = imp0 xc (keys st.locals) := by
  funext g
  unfold X.isImpureCallee imp0
  have := lookup_isSome_keys st.locals g
  cases hl : st.locals.lookup g with
  | some b => rw [hl] at this; simp only [Option.isSome_some] at this; rw [← this]; rfl
  | none =>
    rw [hl] at this
    simp only [Option.isSome_none] at this
    rw [← this]
    simp only [Bool.false_or]
    cases xc.genv.lookup g with
    | none => rfl
    | some b => cases b <;> rfl

/-- The impure set is closed: the body of every procedure outside it has no effect beyond its own
    local variables. -/
structure PureOk (xc : X.Ctx) : Prop where
  body : ∀ f p, xc.genv.lookup f = some (.proc p) → xc.impure.contains f = false →
    X.impS (imp0 xc p.localNames) p.isLocalVar p.body = false

theorem bindFormals_keys : ∀ (fs : List X.Formal) (vs : List Val) (fb : List (String × LBind)),
    X.bindFormals fs vs = .ok fb → keys fb = fs.map X.Formal.name := by
  intro fs
  induction fs with
  | nil =>
    intro vs fb h
    cases vs with
    | nil => simp only [X.bindFormals, Except.ok.injEq] at h; subst h; rfl
    | cons v vs => simp [X.bindFormals] at h
  | cons f fs ih =>
    intro vs fb h
    cases vs with
    | nil => cases f <;> simp [X.bindFormals] at h
    | cons v vs =>
      cases f with
      | val n =>
        cases v with
        | int w =>
          simp only [X.bindFormals, bind, Except.bind] at h
          cases hr : X.bindFormals fs vs with
          | error e => rw [hr] at h; simp at h
          | ok r =>
            rw [hr] at h
            simp only [Except.ok.injEq] at h
            subst h
            simp only [keys, List.map_cons, X.Formal.name]
            have := ih vs r hr
            simp only [keys] at this
            rw [this]
        | arr a => simp [X.bindFormals] at h
      | array n =>
        cases v with
        | arr a =>
          simp only [X.bindFormals, bind, Except.bind] at h
          cases hr : X.bindFormals fs vs with
          | error e => rw [hr] at h; simp at h
          | ok r =>
            rw [hr] at h
            simp only [Except.ok.injEq] at h
            subst h
            simp only [keys, List.map_cons, X.Formal.name]
            have := ih vs r hr
            simp only [keys] at this
            rw [this]
        | int w => simp [X.bindFormals] at h
      | proc n => simp [X.bindFormals] at h
      | func n => simp [X.bindFormals] at h

theorem bindLocals_keys : ∀ (ds : List X.Decl) (vals : List (String × Word)) (lb : List (String × LBind)),
    X.bindLocals vals ds = .ok lb → keys lb = ds.map X.Decl.name := by
  intro ds
  induction ds with
  | nil => intro vals lb h; simp only [X.bindLocals, Except.ok.injEq] at h; subst h; rfl
  | cons d ds ih =>
    intro vals lb h
    cases d with
    | val n e =>
      simp only [X.bindLocals, bind, Except.bind] at h
      cases hc : X.constEval vals e with
      | error er => rw [hc] at h; simp at h
      | ok w =>
        rw [hc] at h
        simp only at h
        cases hr : X.bindLocals ((n, w) :: vals) ds with
        | error er => rw [hr] at h; simp at h
        | ok r =>
          rw [hr] at h
          simp only [Except.ok.injEq] at h
          subst h
          simp only [keys, List.map_cons, X.Decl.name]
          have := ih _ r hr
          simp only [keys] at this
          rw [this]
    | var n =>
      simp only [X.bindLocals, bind, Except.bind] at h
      cases hr : X.bindLocals (vals.filter (·.1 != n)) ds with
      | error er => rw [hr] at h; simp at h
      | ok r =>
        rw [hr] at h
        simp only [Except.ok.injEq] at h
        subst h
        simp only [keys, List.map_cons, X.Decl.name]
        have := ih _ r hr
        simp only [keys] at this
        rw [this]
    | array n e => simp [X.bindLocals] at h

/-! ### The interpreter on pure phrases -/

theorem KE.doSyscall_never {α : Type} : True := trivial

section
variable (xc : X.Ctx) (ok : PureOk xc) (f : Nat)
variable (ihE : ∀ L e, X.impE (imp0 xc L) e = false → KE L (X.eval f xc e))
variable (ihA : ∀ L es, X.impL (imp0 xc L) es = false → KE L (X.evalArgs f xc es))
variable (ihC : ∀ L g p vs, xc.genv.lookup g = some (.proc p) → xc.impure.contains g = false → KE L (X.callUser f xc p vs))
variable (ihS : ∀ L isLV s, X.impS (imp0 xc L) isLV s = false → (∀ n, isLV n = true → L.contains n = true) →
    KS L (X.exec f xc s))
variable (ihL : ∀ L isLV ss, X.impSL (imp0 xc L) isLV ss = false → (∀ n, isLV n = true → L.contains n = true) →
    KS L (X.execSeq f xc ss))

include ihE ihA in
theorem pure_evalArgs_succ : ∀ L es, X.impL (imp0 xc L) es = false → KE L (X.evalArgs (f + 1) xc es) := by
  intro L es h
  cases es with
  | nil =>
    have : X.evalArgs (f + 1) xc [] = fun st => Res.ok [] st := by
      funext st; conv => lhs; unfold X.evalArgs
    rw [this]; exact KE.ok _ _
  | cons e es =>
    simp only [X.impL, Bool.or_eq_false_iff] at h
    have : X.evalArgs (f + 1) xc (e :: es) = fun st =>
        (X.eval f xc e st).bind fun v s => (X.evalArgs f xc es s).bind fun vs s' => .ok (v :: vs) s' := by
      funext st; conv => lhs; unfold X.evalArgs
    rw [this]
    exact (ihE L e h.1).bind (fun v => (ihA L es h.2).bind (fun vs => KE.ok _ _))

include ihE ihA ihC in
theorem pure_eval_succ : ∀ L e, X.impE (imp0 xc L) e = false → KE L (X.eval (f + 1) xc e) := by
  intro L e h
  cases e with
  | num v =>
    have : X.eval (f + 1) xc (.num v) = fun st0 => match X.tick xc st0 with
        | none => .undef "out of fuel (run length)" | some st => Res.ok (.int v) st := by
      funext st0; (conv => lhs; unfold X.eval); cases X.tick xc st0 <;> rfl
    rw [this]; exact KE.tick _ (KE.ok _ _)
  | bool b =>
    have : X.eval (f + 1) xc (.bool b) = fun st0 => match X.tick xc st0 with
        | none => .undef "out of fuel (run length)" | some st => Res.ok (.int (X.b2w b)) st := by
      funext st0; (conv => lhs; unfold X.eval); cases X.tick xc st0 <;> rfl
    rw [this]; exact KE.tick _ (KE.ok _ _)
  | str bs =>
    have : X.eval (f + 1) xc (.str bs) = fun st0 => match X.tick xc st0 with
        | none => .undef "out of fuel (run length)"
        | some st => (X.liftE (X.packString bs) st).bind fun ws s => .ok (.arr (.lit ws)) s := by
      funext st0; (conv => lhs; unfold X.eval); cases X.tick xc st0 <;> rfl
    rw [this]
    exact KE.tick _ ((KE.liftE L (fun _ => X.packString bs)).bind (fun ws => KE.ok _ _))
  | name n =>
    have : X.eval (f + 1) xc (.name n) = fun st0 => match X.tick xc st0 with
        | none => .undef "out of fuel (run length)" | some st => X.liftE (X.readName xc st n) st := by
      funext st0; (conv => lhs; unfold X.eval); cases X.tick xc st0 <;> rfl
    rw [this]
    exact KE.tick _ (KE.liftE L (fun st => X.readName xc st n))
  | sub n i =>
    simp only [X.impE] at h
    have : X.eval (f + 1) xc (.sub n i) = fun st0 => match X.tick xc st0 with
        | none => .undef "out of fuel (run length)"
        | some st => (X.asInt "subscript" (X.eval f xc i st)).bind fun iv s =>
            X.liftE (do let r ← X.arrayOf xc s n; let w ← X.arrGet s r iv; pure (Val.int w)) s := by
      funext st0; (conv => lhs; unfold X.eval); cases X.tick xc st0 <;> rfl
    rw [this]
    exact KE.tick _ ((KE.asInt _ (ihE L i h)).bind (fun iv =>
      KE.liftE L (fun s => do let r ← X.arrayOf xc s n; let w ← X.arrGet s r iv; pure (Val.int w))))
  | un op a =>
    simp only [X.impE] at h
    cases op with
    | neg =>
      have : X.eval (f + 1) xc (.un .neg a) = fun st0 => match X.tick xc st0 with
          | none => .undef "out of fuel (run length)"
          | some st => (X.asInt "operand of -" (X.eval f xc a st)).bind fun w s => X.liftE ((X.neg w).map Val.int) s := by
        funext st0; (conv => lhs; unfold X.eval); cases X.tick xc st0 <;> rfl
      rw [this]
      exact KE.tick _ ((KE.asInt _ (ihE L a h)).bind (fun w => KE.liftE L (fun _ => (X.neg w).map Val.int)))
    | not =>
      have : X.eval (f + 1) xc (.un .not a) = fun st0 => match X.tick xc st0 with
          | none => .undef "out of fuel (run length)"
          | some st => (X.asBool "operand of ~" (X.eval f xc a st)).bind fun w s => .ok (.int (X.b2w (w == 0))) s := by
        funext st0; (conv => lhs; unfold X.eval); cases X.tick xc st0 <;> rfl
      rw [this]
      exact KE.tick _ ((KE.asBool _ (ihE L a h)).bind (fun w => KE.ok _ _))
  | bin op l r =>
    simp only [X.impE, Bool.or_eq_false_iff] at h
    have hgen : ∀ op, KE L (fun st =>
        if !X.orderOk xc st [l, r] then (Res.undef "evaluation order of operands matters (impure call)" : Res Val)
        else (X.asInt "operand" (X.eval f xc l st)).bind fun a s =>
          (X.asInt "operand" (X.eval f xc r s)).bind fun b s' => X.liftE ((X.arith op a b).map Val.int) s') := by
      intro op
      exact KE.ite (c := fun st => !X.orderOk xc st [l, r]) (KE.undef _ _)
        ((KE.asInt _ (ihE L l h.1)).bind (fun a => (KE.asInt _ (ihE L r h.2)).bind (fun b =>
          KE.liftE L (fun _ => (X.arith op a b).map Val.int))))
    have hop : ∀ op, op ≠ BinOp.and → op ≠ BinOp.or → X.eval (f + 1) xc (.bin op l r) = fun st0 => match X.tick xc st0 with
        | none => .undef "out of fuel (run length)"
        | some st =>
          if !X.orderOk xc st [l, r] then (Res.undef "evaluation order of operands matters (impure call)" : Res Val)
          else (X.asInt "operand" (X.eval f xc l st)).bind fun a s =>
            (X.asInt "operand" (X.eval f xc r s)).bind fun b s' => X.liftE ((X.arith op a b).map Val.int) s' := by
      intro op h1 h2
      funext st0
      conv => lhs; unfold X.eval
      cases X.tick xc st0 <;> cases op <;> first | rfl | exact absurd rfl h1 | exact absurd rfl h2
    cases op with
    | and =>
      have : X.eval (f + 1) xc (.bin .and l r) = fun st0 => match X.tick xc st0 with
          | none => .undef "out of fuel (run length)"
          | some st => (X.asBool "operand of and" (X.eval f xc l st)).bind fun a s =>
              if a == 0 then .ok (.int 0) s
              else (X.asBool "operand of and" (X.eval f xc r s)).bind fun b s' => .ok (.int b) s' := by
        funext st0; (conv => lhs; unfold X.eval); cases X.tick xc st0 <;> rfl
      rw [this]
      refine KE.tick _ ((KE.asBool _ (ihE L l h.1)).bind (fun a => ?_))
      by_cases ha : (a == 0) = true
      · simp only [ha, if_true]; exact KE.ok _ _
      · simp only [ha]; exact (KE.asBool _ (ihE L r h.2)).bind (fun b => KE.ok _ _)
    | or =>
      have : X.eval (f + 1) xc (.bin .or l r) = fun st0 => match X.tick xc st0 with
          | none => .undef "out of fuel (run length)"
          | some st => (X.asBool "operand of or" (X.eval f xc l st)).bind fun a s =>
              if a == 1 then .ok (.int 1) s
              else (X.asBool "operand of or" (X.eval f xc r s)).bind fun b s' => .ok (.int b) s' := by
        funext st0; (conv => lhs; unfold X.eval); cases X.tick xc st0 <;> rfl
      rw [this]
      refine KE.tick _ ((KE.asBool _ (ihE L l h.1)).bind (fun a => ?_))
      by_cases ha : (a == 1) = true
      · simp only [ha, if_true]; exact KE.ok _ _
      · simp only [ha]; exact (KE.asBool _ (ihE L r h.2)).bind (fun b => KE.ok _ _)
    | plus => rw [hop .plus (by intro h; cases h) (by intro h; cases h)]; exact KE.tick _ (hgen .plus)
    | minus => rw [hop .minus (by intro h; cases h) (by intro h; cases h)]; exact KE.tick _ (hgen .minus)
    | eq => rw [hop .eq (by intro h; cases h) (by intro h; cases h)]; exact KE.tick _ (hgen .eq)
    | ne => rw [hop .ne (by intro h; cases h) (by intro h; cases h)]; exact KE.tick _ (hgen .ne)
    | ls => rw [hop .ls (by intro h; cases h) (by intro h; cases h)]; exact KE.tick _ (hgen .ls)
    | le => rw [hop .le (by intro h; cases h) (by intro h; cases h)]; exact KE.tick _ (hgen .le)
    | gr => rw [hop .gr (by intro h; cases h) (by intro h; cases h)]; exact KE.tick _ (hgen .gr)
    | ge => rw [hop .ge (by intro h; cases h) (by intro h; cases h)]; exact KE.tick _ (hgen .ge)
  | syscall id args => simp [X.impE] at h
  | call g args =>
    simp only [X.impE, Bool.or_eq_false_iff] at h
    obtain ⟨hg, hargs⟩ := h
    have : X.eval (f + 1) xc (.call g args) = fun st0 => match X.tick xc st0 with
        | none => .undef "out of fuel (run length)"
        | some st =>
          if !X.orderOk xc st args then .undef "evaluation order of actuals matters (impure call)"
          else
            match X.resolveCallee xc st g with
            | .bad why => .undef why
            | .sys id =>
              if id != 2 then .undef "value of system call 0/1 (or invalid system call) used as an operand"
              else
                (X.evalArgs f xc args st).bind fun vs s =>
                  (X.doSyscall 2 vs s).bind fun r s' =>
                    match r with
                    | some w => .ok (.int w) s'
                    | none => .undef "system call has no value"
            | .user p =>
              if !p.isFunc then .undef s!"value of procedure {g} used as an operand"
              else
                (X.evalArgs f xc args st).bind fun vs s =>
                  (X.callUser f xc p vs s).bind fun r s' =>
                    match r with
                    | some w => .ok (.int w) s'
                    | none => .undef "function produced no value" := by
      funext st0; (conv => lhs; unfold X.eval); cases X.tick xc st0 <;> rfl
    rw [this]
    refine KE.tick _ (KE.ite (c := fun st => !X.orderOk xc st args) (KE.undef _ _) ?_)
    intro σ hk
    -- the callee is a pure user procedure
    unfold imp0 at hg
    simp only [Bool.or_eq_false_iff] at hg
    obtain ⟨hnl, hpr⟩ := hg
    have hl : σ.locals.lookup g = none := by
      have := lookup_isSome_keys σ.locals g
      rw [hk, hnl] at this
      cases hq : σ.locals.lookup g with
      | none => rfl
      | some b => rw [hq] at this; simp at this
    cases hgl : xc.genv.lookup g with
    | none => rw [hgl] at hpr; simp at hpr
    | some b =>
      rw [hgl] at hpr
      cases b with
      | val w => simp at hpr
      | var => simp at hpr
      | array id => simp at hpr
      | proc p =>
        simp only at hpr
        have hres : X.resolveCallee xc σ g = .user p := by
          unfold X.resolveCallee; rw [hl, hgl]
        dsimp only
        rw [hres]
        simp only
        by_cases hf : (!p.isFunc) = true
        · simp only [hf, if_true]; exact KE.undef _ _ σ hk
        · simp only [hf]
          refine ((ihA L args hargs).bind (fun vs => (ihC L g p vs hgl hpr).bind (fun r => ?_))) σ hk
          cases r with
          | some w => exact KE.ok _ _
          | none => exact KE.undef _ _

end

theorem keys_setAssoc (l : List (String × LBind)) (n : String) (v : LBind) : keys (X.setAssoc l n v) = keys l := by
  induction l with
  | nil => rfl
  | cons e rest ih =>
    obtain ⟨k, x⟩ := e
    unfold X.setAssoc
    by_cases h : (k == n) = true
    · simp only [h, if_true, keys, List.map_cons]
    · simp only [h, Bool.false_eq_true, if_false, keys, List.map_cons]
      simp only [keys] at ih
      rw [ih]

theorem isLocalVar_mem (p : X.Proc) (n : String) (h : p.isLocalVar n = true) : p.localNames.contains n = true := by
  unfold X.Proc.isLocalVar at h
  simp only [List.any_eq_true] at h
  obtain ⟨d, hd, hm⟩ := h
  cases d with
  | var m =>
    simp only [beq_iff_eq] at hm
    subst hm
    simp only [X.Proc.localNames, List.contains_iff_mem, List.mem_append, List.mem_map]
    exact Or.inr ⟨_, hd, rfl⟩
  | val m e => simp at hm
  | array m e => simp at hm

section
variable (xc : X.Ctx) (ok : PureOk xc) (f : Nat)
variable (ihE : ∀ L e, X.impE (imp0 xc L) e = false → KE L (X.eval f xc e))
variable (ihA : ∀ L es, X.impL (imp0 xc L) es = false → KE L (X.evalArgs f xc es))
variable (ihC : ∀ L g p vs, xc.genv.lookup g = some (.proc p) → xc.impure.contains g = false → KE L (X.callUser f xc p vs))
variable (ihS : ∀ L isLV s, X.impS (imp0 xc L) isLV s = false → (∀ n, isLV n = true → L.contains n = true) →
    KS L (X.exec f xc s))
variable (ihL : ∀ L isLV ss, X.impSL (imp0 xc L) isLV ss = false → (∀ n, isLV n = true → L.contains n = true) →
    KS L (X.execSeq f xc ss))

include ok ihS in
theorem pure_callUser_succ : ∀ L g p vs, xc.genv.lookup g = some (.proc p) → xc.impure.contains g = false →
    KE L (X.callUser (f + 1) xc p vs) := by
  intro L g p vs hgl himp σ _
  have hcu : X.callUser (f + 1) xc p vs σ =
      if σ.depth ≥ X.maxDepth then .undef "stack budget exceeded (call depth)"
      else
        match X.bindFormals p.formals vs with
        | .error w => .undef w
        | .ok fb =>
          match X.bindLocals ((X.globalVals xc.genv).filter fun kv => !(fb.map (·.1)).contains kv.1) p.locals with
          | .error w => .undef w
          | .ok lb =>
            (X.exec f xc p.body { σ with locals := fb ++ lb, depth := σ.depth + 1, calls := p.name :: σ.calls }).bind fun fl s =>
              match fl, p.isFunc with
              | .normal, false => .ok none { s with locals := σ.locals, depth := σ.depth }
              | .ret w, true => .ok (some w) { s with locals := σ.locals, depth := σ.depth }
              | .normal, true => .undef s!"function {p.name} finished without return"
              | .ret _, false => .undef s!"return in procedure {p.name}" := by
    conv => lhs; unfold X.callUser
    rfl
  rw [hcu]
  by_cases hdep : σ.depth ≥ X.maxDepth
  · simp only [hdep, if_true]; exact ⟨fun _ _ h => by simp at h, fun _ _ h => by simp at h⟩
  simp only [hdep, if_false]
  cases hfb : X.bindFormals p.formals vs with
  | error w => exact ⟨fun _ _ h => by simp at h, fun _ _ h => by simp at h⟩
  | ok fb =>
    simp only
    cases hlb : X.bindLocals ((X.globalVals xc.genv).filter fun kv => !(fb.map (·.1)).contains kv.1) p.locals with
    | error w => exact ⟨fun _ _ h => by simp at h, fun _ _ h => by simp at h⟩
    | ok lb =>
      simp only
      have hkeys : keys (fb ++ lb) = p.localNames := by
        simp only [keys, List.map_append]
        have h1 := bindFormals_keys _ _ _ hfb
        have h2 := bindLocals_keys _ _ _ hlb
        simp only [keys] at h1 h2
        rw [h1, h2]; rfl
      obtain ⟨hbo, hbe⟩ := ihS p.localNames p.isLocalVar p.body (ok.body g p hgl himp) (isLocalVar_mem p)
        { σ with locals := fb ++ lb, depth := σ.depth + 1, calls := p.name :: σ.calls } hkeys
      constructor
      · intro r t h
        cases hx : X.exec f xc p.body { σ with locals := fb ++ lb, depth := σ.depth + 1, calls := p.name :: σ.calls } with
        | undef w => rw [hx] at h; simp [Res.bind] at h
        | exit c s => exact absurd hx (hbe c s)
        | ok fl s =>
          rw [hx] at h
          simp only [Res.bind] at h
          have hg := hbo fl s hx
          cases fl <;> cases hf : p.isFunc <;> rw [hf] at h <;> simp at h
          · rw [← h.2]; exact ⟨hg.1, hg.2.1, rfl, hg.2.2.1, rfl⟩
          · rw [← h.2]; exact ⟨hg.1, hg.2.1, rfl, hg.2.2.1, rfl⟩
      · intro c t h
        cases hx : X.exec f xc p.body { σ with locals := fb ++ lb, depth := σ.depth + 1, calls := p.name :: σ.calls } with
        | undef w => rw [hx] at h; simp [Res.bind] at h
        | exit c' s => exact absurd hx (hbe c' s)
        | ok fl s =>
          rw [hx] at h
          simp only [Res.bind] at h
          cases fl <;> cases hf : p.isFunc <;> rw [hf] at h <;> simp at h

include ihS ihL in
theorem pure_execSeq_succ : ∀ L isLV ss, X.impSL (imp0 xc L) isLV ss = false → (∀ n, isLV n = true → L.contains n = true) →
    KS L (X.execSeq (f + 1) xc ss) := by
  intro L isLV ss h hlv
  cases ss with
  | nil =>
    have : X.execSeq (f + 1) xc [] = fun st => Res.ok .normal st := by
      funext st; conv => lhs; unfold X.execSeq
    rw [this]; exact (KE.ok _ _).toS
  | cons s ss =>
    simp only [X.impSL, Bool.or_eq_false_iff] at h
    have : X.execSeq (f + 1) xc (s :: ss) = fun st =>
        (X.exec f xc s st).bind fun fl s' =>
          match fl with
          | .ret w => if ss.isEmpty then .ok (.ret w) s' else .undef "return is not the final process of its function"
          | .normal => X.execSeq f xc ss s' := by
      funext st; conv => lhs; unfold X.execSeq
      cases X.exec f xc s st with
      | undef w => rfl
      | exit c s' => rfl
      | ok fl s' => cases fl <;> rfl
    rw [this]
    refine (ihS L isLV s h.1 hlv).bind (fun fl => ?_)
    cases fl with
    | normal => exact ihL L isLV ss h.2 hlv
    | ret w =>
      simp only
      by_cases he : ss.isEmpty = true
      · simp only [he, if_true]; exact (KE.ok _ _).toS
      · simp only [he]; exact (KE.undef _ _).toS

include ihE ihA ihC ihS ihL in
theorem pure_exec_succ : ∀ L isLV s, X.impS (imp0 xc L) isLV s = false → (∀ n, isLV n = true → L.contains n = true) →
    KS L (X.exec (f + 1) xc s) := by
  intro L isLV s h hlv
  cases s with
  | skip =>
    have : X.exec (f + 1) xc .skip = fun st0 => match X.tick xc st0 with
        | none => .undef "out of fuel (run length)" | some st => Res.ok .normal st := by
      funext st0; (conv => lhs; unfold X.exec); cases X.tick xc st0 <;> rfl
    rw [this]; exact (KE.tick _ (KE.ok _ _)).toS
  | stop => simp [X.impS] at h
  | ret e =>
    simp only [X.impS] at h
    have : X.exec (f + 1) xc (.ret e) = fun st0 => match X.tick xc st0 with
        | none => .undef "out of fuel (run length)"
        | some st => (X.asInt "returned value" (X.eval f xc e st)).bind fun w s => .ok (.ret w) s := by
      funext st0; (conv => lhs; unfold X.exec); cases X.tick xc st0 <;> rfl
    rw [this]; exact (KE.tick _ ((KE.asInt _ (ihE L e h)).bind (fun w => KE.ok _ _))).toS
  | ite c t e =>
    simp only [X.impS, Bool.or_eq_false_iff] at h
    have : X.exec (f + 1) xc (.ite c t e) = fun st0 => match X.tick xc st0 with
        | none => .undef "out of fuel (run length)"
        | some st => (X.asBool "condition of if" (X.eval f xc c st)).bind fun w s =>
            if w == 1 then X.exec f xc t s else X.exec f xc e s := by
      funext st0; (conv => lhs; unfold X.exec); cases X.tick xc st0 <;> rfl
    rw [this]
    refine KS.tick _ ((KE.asBool _ (ihE L c h.1.1)).toS.bind (fun w => ?_))
    by_cases hw : (w == 1) = true
    · simp only [hw, if_true]; exact ihS L isLV t h.1.2 hlv
    · simp only [hw]; exact ihS L isLV e h.2 hlv
  | «while» c b =>
    have h0 := h
    simp only [X.impS, Bool.or_eq_false_iff] at h
    have : X.exec (f + 1) xc (.while c b) = fun st0 => match X.tick xc st0 with
        | none => .undef "out of fuel (run length)"
        | some st => (X.asBool "condition of while" (X.eval f xc c st)).bind fun w s =>
            if w == 0 then .ok .normal s
            else (X.exec f xc b s).bind fun fl s' =>
              match fl with
              | .ret _ => .undef "return inside a loop is not the final process of its function"
              | .normal => X.exec f xc (.while c b) s' := by
      funext st0; (conv => lhs; unfold X.exec)
      cases X.tick xc st0 with
      | none => rfl
      | some st =>
        simp only
        cases X.asBool "condition of while" (X.eval f xc c st) with
        | undef w => rfl
        | exit cd s => rfl
        | ok w s =>
          simp only [Res.bind]
          by_cases hw : (w == 0) = true
          · simp only [hw, if_true]
          · simp only [hw]
            cases X.exec f xc b s with
            | undef w => rfl
            | exit cd s' => rfl
            | ok fl s' => cases fl <;> rfl
    rw [this]
    refine KS.tick _ ((KE.asBool _ (ihE L c h.1)).toS.bind (fun w => ?_))
    by_cases hw : (w == 0) = true
    · simp only [hw, if_true]; exact (KE.ok _ _).toS
    · simp only [hw]
      refine (ihS L isLV b h.2 hlv).bind (fun fl => ?_)
      cases fl with
      | normal => exact ihS L isLV (.while c b) h0 hlv
      | ret w => exact (KE.undef _ _).toS
  | seq ss =>
    simp only [X.impS] at h
    have : X.exec (f + 1) xc (.seq ss) = fun st0 => match X.tick xc st0 with
        | none => .undef "out of fuel (run length)" | some st => X.execSeq f xc ss st := by
      funext st0; (conv => lhs; unfold X.exec); cases X.tick xc st0 <;> rfl
    rw [this]; exact KS.tick _ (ihL L isLV ss h hlv)
  | assign n e =>
    simp only [X.impS, Bool.or_eq_false_iff, Bool.not_eq_false'] at h
    have : X.exec (f + 1) xc (.assign n e) = fun st0 => match X.tick xc st0 with
        | none => .undef "out of fuel (run length)"
        | some st => (X.asInt "assigned value" (X.eval f xc e st)).bind fun w s =>
            match X.writeName xc s n w with
            | .ok t => Res.ok .normal t
            | .error er => Res.undef er := by
      funext st0; (conv => lhs; unfold X.exec)
      cases X.tick xc st0 with
      | none => rfl
      | some st =>
        simp only
        congr
        funext w s
        cases X.writeName xc s n w <;> rfl
    rw [this]
    refine KS.tick _ ((KE.asInt _ (ihE L e h.2)).toS.bind (fun w => ?_))
    intro σ hk
    have hin : (σ.locals.lookup n).isSome = true := by
      rw [lookup_isSome_keys, hk]; exact hlv n h.1
    unfold X.writeName
    cases hl : σ.locals.lookup n with
    | none => rw [hl] at hin; simp at hin
    | some b =>
      cases b with
      | var o =>
        refine ⟨fun a s he => ?_, fun c s he => by dsimp only at he; rw [hl] at he; simp at he⟩
        dsimp only at he
        rw [hl] at he
        simp only [Res.ok.injEq] at he
        rw [← he.2]
        exact ⟨rfl, rfl, rfl, rfl, by simp only; rw [keys_setAssoc]⟩
      | val v => exact ⟨fun _ _ he => by dsimp only at he; rw [hl] at he; simp at he, fun _ _ he => by dsimp only at he; rw [hl] at he; simp at he⟩
      | valF v => exact ⟨fun _ _ he => by dsimp only at he; rw [hl] at he; simp at he, fun _ _ he => by dsimp only at he; rw [hl] at he; simp at he⟩
      | arrF r => exact ⟨fun _ _ he => by dsimp only at he; rw [hl] at he; simp at he, fun _ _ he => by dsimp only at he; rw [hl] at he; simp at he⟩
  | assignSub n i e => simp [X.impS] at h
  | syscall id args => simp [X.impS] at h
  | call g args =>
    simp only [X.impS, Bool.or_eq_false_iff] at h
    obtain ⟨hg, hargs⟩ := h
    have : X.exec (f + 1) xc (.call g args) = fun st0 => match X.tick xc st0 with
        | none => .undef "out of fuel (run length)"
        | some st =>
          if !X.orderOk xc st args then .undef "evaluation order of actuals matters (impure call)"
          else
            match X.resolveCallee xc st g with
            | .bad why => .undef why
            | .sys id =>
              (X.evalArgs f xc args st).bind fun vs s =>
                (X.doSyscall id vs s).bind fun _ s' => .ok .normal s'
            | .user p =>
              if p.isFunc then .undef s!"function {g} used as a statement"
              else
                (X.evalArgs f xc args st).bind fun vs s =>
                  (X.callUser f xc p vs s).bind fun _ s' => .ok .normal s' := by
      funext st0; (conv => lhs; unfold X.exec); cases X.tick xc st0 <;> rfl
    rw [this]
    refine KS.tick _ ?_
    intro σ hk
    dsimp only
    by_cases ho : (!X.orderOk xc σ args) = true
    · simp only [ho, if_true]; exact ⟨fun _ _ he => by simp at he, fun _ _ he => by simp at he⟩
    simp only [ho]
    unfold imp0 at hg
    simp only [Bool.or_eq_false_iff] at hg
    obtain ⟨hnl, hpr⟩ := hg
    have hl : σ.locals.lookup g = none := by
      have := lookup_isSome_keys σ.locals g
      rw [hk, hnl] at this
      cases hq : σ.locals.lookup g with
      | none => rfl
      | some b => rw [hq] at this; simp at this
    cases hgl : xc.genv.lookup g with
    | none => rw [hgl] at hpr; simp at hpr
    | some b =>
      rw [hgl] at hpr
      cases b with
      | val w => simp at hpr
      | var => simp at hpr
      | array id => simp at hpr
      | proc p =>
        simp only at hpr
        have hres : X.resolveCallee xc σ g = .user p := by
          unfold X.resolveCallee; rw [hl, hgl]
        rw [hres]
        simp only
        by_cases hf : p.isFunc = true
        · simp only [hf, if_true]; exact ⟨fun _ _ he => by simp at he, fun _ _ he => by simp at he⟩
        · simp only [hf]
          exact ((ihA L args hargs).bind (fun vs => (ihC L g p vs hgl hpr).bind (fun _ => KE.ok _ _))).toS σ hk

end

/-- **Purity.**  Without a call of an impure callee, nothing but the step counter, the call log
    (and, for statements, the values of local variables) changes, and the program does not stop. -/
theorem pure_all (xc : X.Ctx) (ok : PureOk xc) : ∀ fuel,
    (∀ L e, X.impE (imp0 xc L) e = false → KE L (X.eval fuel xc e)) ∧
    (∀ L es, X.impL (imp0 xc L) es = false → KE L (X.evalArgs fuel xc es)) ∧
    (∀ L g p vs, xc.genv.lookup g = some (.proc p) → xc.impure.contains g = false → KE L (X.callUser fuel xc p vs)) ∧
    (∀ L isLV s, X.impS (imp0 xc L) isLV s = false → (∀ n, isLV n = true → L.contains n = true) → KS L (X.exec fuel xc s)) ∧
    (∀ L isLV ss, X.impSL (imp0 xc L) isLV ss = false → (∀ n, isLV n = true → L.contains n = true) →
      KS L (X.execSeq fuel xc ss)) := by
  intro fuel
  induction fuel with
  | zero =>
    refine ⟨fun L e _ => ?_, fun L es _ => ?_, fun L g p vs _ _ => ?_, fun L isLV s _ _ => ?_, fun L isLV ss _ _ => ?_⟩
    · have : X.eval 0 xc e = fun _ => Res.undef "out of fuel" := by funext st; unfold X.eval; rfl
      rw [this]; exact KE.undef _ _
    · have : X.evalArgs 0 xc es = fun _ => Res.undef "out of fuel" := by funext st; unfold X.evalArgs; rfl
      rw [this]; exact KE.undef _ _
    · have : X.callUser 0 xc p vs = fun _ => Res.undef "out of fuel" := by funext st; unfold X.callUser; rfl
      rw [this]; exact KE.undef _ _
    · have : X.exec 0 xc s = fun _ => Res.undef "out of fuel" := by funext st; unfold X.exec; rfl
      rw [this]; exact (KE.undef _ _).toS
    · have : X.execSeq 0 xc ss = fun _ => Res.undef "out of fuel" := by funext st; unfold X.execSeq; rfl
      rw [this]; exact (KE.undef _ _).toS
  | succ f ih =>
    obtain ⟨ihE, ihA, ihC, ihS, ihL⟩ := ih
    exact ⟨pure_eval_succ xc f ihE ihA ihC, pure_evalArgs_succ xc f ihE ihA, pure_callUser_succ xc ok f ihS,
      pure_exec_succ xc f ihE ihA ihC ihS ihL, pure_execSeq_succ xc f ihS ihL⟩

end Hex.C01s
