import HexVerif.Lemmas.XcmpStage3
/-!
  A decidable check of `PCtx.WFS` for a concrete procedure context whose variable locations are
  given for finitely many names, with its soundness theorem.  The whole-program theorem evaluates
  this check on the context built from the compiler's output.
-/
namespace Hex.C01s
open Hex Hex.X Hex.Xcmp Hex.IAm Hex.Asm

theorem labelIdxFrom_some : ∀ (ds : List Dir) (k : Nat) (name : String) (j : Nat),
    labelIdxFrom ds k name = some j → k ≤ j ∧ ∃ kind, ds[j - k]? = some (.label kind name) := by
  intro ds
  induction ds with
  | nil => intro k name j h; simp [labelIdxFrom] at h
  | cons d rest ih =>
    intro k name j h
    unfold labelIdxFrom at h
    cases hr : labelIdxFrom rest (k + 1) name with
    | some j' =>
      rw [hr] at h
      simp only [Option.some.injEq] at h
      subst h
      obtain ⟨hk, kind, hd⟩ := ih (k + 1) name j' hr
      refine ⟨by omega, kind, ?_⟩
      have : j' - k = (j' - (k + 1)) + 1 := by omega
      rw [this]; simpa using hd
    | none =>
      rw [hr] at h
      cases d with
      | label kind n =>
        simp only at h
        by_cases hn : n = name
        · rw [if_pos hn] at h
          simp only [Option.some.injEq] at h
          subst h; subst hn
          exact ⟨Nat.le_refl _, kind, by simp⟩
        · rw [if_neg hn] at h; simp at h
      | data v => simp at h
      | imm o v => simp at h
      | ref o n r => simp at h
      | opr o => simp at h

theorem labelIdx_some (ds : List Dir) (name : String) (j : Nat) (h : labelIdx ds name = some j) :
    ∃ kind, ds[j]? = some (.label kind name) := by
  obtain ⟨_, kind, hd⟩ := labelIdxFrom_some ds 0 name j h
  exact ⟨kind, by simpa using hd⟩

/-- The per-name part of the check. -/
def nameOk (K : PCtx) (n : String) : Bool :=
  match K.loc n with
  | none => true
  | some a =>
    decide (2 ≤ a) && decide (a < memWords) && !K.env.isCode a &&
    (decide (a < K.sp) || decide (K.sp + K.S ≤ a + K.nlocals)) && decide (a ≠ K.sp + K.S) &&
    (match K.ctx.tbl.lookup K.ctx.scope n with
     | .ok sym =>
       if sym.scope = "" then
         match labelIdx K.env.ds sym.globalLabel with
         | some j => decide (K.env.addr j % 4 = 0) && decide (a = K.env.addr j / 4)
         | none => false
       else decide (sym.frame = K.ctx.frame) &&
            decide ((a : Int) = (K.sp : Int) + (K.S : Int) - 1 + sym.stackOffset)
     | .error _ => true)

def constOk (K : PCtx) (names : List String) (vl : Int × String) : Bool :=
  match labelIdx K.env.ds vl.2 with
  | some j => decide (K.env.addr j % 4 = 0) && decide (K.env.addr j / 4 < K.sp) &&
      names.all fun n => decide (K.loc n ≠ some (K.env.addr j / 4))
  | none => false

def injOk (K : PCtx) (names : List String) : Bool :=
  names.all fun n => names.all fun m =>
    match K.loc n, K.loc m with
    | some a, some b => decide (a = b → n = m)
    | _, _ => true

/-- **The check.** -/
def wfsCheck (K : PCtx) (exitJ : Nat) (names : List String) : Bool :=
  decide ((labelNames K.env.ds).Nodup) &&
  names.all (nameOk K) && K.consts.all (constOk K names) && injOk K names &&
  (List.range K.S).all (fun k => decide (K.slot k < memWords) && !K.env.isCode (K.slot k)) &&
  decide (2 ≤ K.sp) && decide (K.sp + K.S ≤ memWords) &&
  (match K.env.ds[exitJ]? with
   | some (.label _ l) => decide (l = K.ctx.exitLabel)
   | _ => false) &&
  decide (K.sp + 2 < memWords) && !K.env.isCode (K.sp + 2)

theorem wfsCheck_sound (K : PCtx) (exitJ : Nat) (names : List String)
    (hnames : ∀ n a, K.loc n = some a → n ∈ names) (harr : K.ArrOK) (hstr : K.StrOK)
    (h : wfsCheck K exitJ names = true) : K.WFS exitJ := by
  unfold wfsCheck at h
  simp only [Bool.and_eq_true, decide_eq_true_eq, List.all_eq_true, Bool.not_eq_true'] at h
  obtain ⟨⟨⟨⟨⟨⟨⟨⟨⟨hnd, hnm⟩, hco⟩, hinj⟩, hsl⟩, hsp2⟩, hspS⟩, hex⟩, hst1⟩, hst2⟩ := h
  -- facts about one located name
  have hname : ∀ n a, K.loc n = some a →
      2 ≤ a ∧ a < memWords ∧ K.env.isCode a = false ∧ (a < K.sp ∨ K.sp + K.S ≤ a + K.nlocals) ∧ a ≠ K.sp + K.S ∧
      (match K.ctx.tbl.lookup K.ctx.scope n with
       | .ok sym =>
         if sym.scope = "" then
           match labelIdx K.env.ds sym.globalLabel with
           | some j => decide (K.env.addr j % 4 = 0) && decide (a = K.env.addr j / 4)
           | none => false
         else decide (sym.frame = K.ctx.frame) &&
              decide ((a : Int) = (K.sp : Int) + (K.S : Int) - 1 + sym.stackOffset)
       | .error _ => true) = true := by
    intro n a hl
    have := hnm n (hnames n a hl)
    unfold nameOk at this
    rw [hl] at this
    simp only [Bool.and_eq_true, decide_eq_true_eq, Bool.not_eq_true', Bool.or_eq_true] at this
    obtain ⟨⟨⟨⟨⟨h1, h2⟩, h3⟩, h4⟩, h5⟩, h6⟩ := this
    exact ⟨h1, h2, h3, h4, h5, h6⟩
  have hconst : ∀ v l, (v, l) ∈ K.consts → ∃ j, labelIdx K.env.ds l = some j ∧ K.env.addr j % 4 = 0 ∧
      K.env.addr j / 4 < K.sp ∧ ∀ n ∈ names, K.loc n ≠ some (K.env.addr j / 4) := by
    intro v l hm
    have := hco (v, l) hm
    unfold constOk at this
    simp only at this
    cases hj : labelIdx K.env.ds l with
    | none => rw [hj] at this; simp at this
    | some j =>
      rw [hj] at this
      simp only [Bool.and_eq_true, decide_eq_true_eq, List.all_eq_true] at this
      exact ⟨j, rfl, this.1.1, this.1.2, fun n hn => by simpa using this.2 n hn⟩
  refine { nodup := hnd, var_global := ?_, var_local := ?_, const_lbl := ?_, slot_ok := ?_, sp_ge := hsp2, sp_le := hspS,
           loc_sep := ?_, loc_ok := ?_, loc_inj := ?_, const_sep := ?_, loc_ne_link := ?_, exit_lbl := ?_,
           stop_ok := ⟨hst1, hst2⟩, arr_hi := harr.arr_hi, arr_disj := harr.arr_disj, arr_code := harr.arr_code, loc_na := harr.loc_na, str := hstr }
  · intro n sym a hl hs hloc
    obtain ⟨_, _, _, _, _, h6⟩ := hname n a hloc
    rw [hl] at h6
    simp only [hs, if_true] at h6
    cases hj : labelIdx K.env.ds sym.globalLabel with
    | none => rw [hj] at h6; simp at h6
    | some j =>
      rw [hj] at h6
      simp only [Bool.and_eq_true, decide_eq_true_eq] at h6
      obtain ⟨kind, hd⟩ := labelIdx_some _ _ _ hj
      exact ⟨j, kind, hd, h6.1, h6.2⟩
  · intro n sym a hl hs hloc
    obtain ⟨_, _, _, _, _, h6⟩ := hname n a hloc
    rw [hl] at h6
    simp only [hs, if_false, Bool.and_eq_true, decide_eq_true_eq] at h6
    exact h6
  · intro v l hm
    obtain ⟨j, hj, h1, h2, _⟩ := hconst v l hm
    obtain ⟨kind, hd⟩ := labelIdx_some _ _ _ hj
    exact ⟨j, kind, hd, h1, h2⟩
  · intro k hk
    have := hsl k (by simpa using hk)
    exact this
  · intro n a hl
    exact (hname n a hl).2.2.2.1
  · intro n a hl
    obtain ⟨h1, h2, h3, _⟩ := hname n a hl
    exact ⟨h1, h2, h3⟩
  · intro n m a h1 h2
    unfold injOk at hinj
    simp only [List.all_eq_true] at hinj
    have := hinj n (hnames n a h1) m (hnames m a h2)
    rw [h1, h2] at this
    simpa using this
  · intro v l j k n a hm hd hloc
    obtain ⟨j', hj', _, _, hne⟩ := hconst v l hm
    have : labelIdx K.env.ds l = some j := labelIdx_of_nodup _ _ _ _ hnd hd
    rw [this] at hj'
    simp only [Option.some.injEq] at hj'
    subst hj'
    intro e
    exact hne n (hnames n a hloc) (by rw [hloc, e])
  · intro n a hl
    exact (hname n a hl).2.2.2.2.1
  · cases hd : K.env.ds[exitJ]? with
    | none => rw [hd] at hex; simp at hex
    | some d =>
      rw [hd] at hex
      cases d with
      | label kind l => simp only [decide_eq_true_eq] at hex; exact ⟨kind, by rw [hex]⟩
      | data v => simp at hex
      | imm o v => simp at hex
      | ref o n r => simp at hex
      | opr o => simp at hex

end Hex.C01s
