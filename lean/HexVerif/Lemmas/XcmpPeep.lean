import HexVerif.Xcmp.Peephole
import HexVerif.Lemmas.XcmpCheck
/-!
  The peephole pass (`OptimiseDirectives`) as a simulation of `IAm`.

  `Peep ds ds' sts` relates a directive list, the list after the pass, and one status per
  directive of `ds` (kept, or deleted and why).  `peephole_peep` shows the pass to satisfy it.
  `peep_sim`: every `IAm` run on `ds` - laid out "as if" (`fakeEnv`: the address of a directive
  is the address its image has in the layout of `ds'`) - is a run on `ds'`; a deleted
  instruction is a stutter step, because in the state it is reached in it changes nothing
  (window 2: reload of the word just stored; window 3: reload of the stack pointer and of the
  slot just stored, which restore areg).  Needs unique label names (window 1) and the two
  restrictions built into `IAm`: `BRB` returns to labels only, `STAI` never writes word 1.
-/
namespace Hex.C01s
open Hex Hex.Xcmp Hex.IAm Hex.Asm

inductive PSt where
  | keep | brDel | w2a | w2d | w3a | w3b | w3c | w3d
  deriving DecidableEq, Repr

def PSt.kept : PSt → Bool
  | .brDel | .w2d | .w3c | .w3d => false
  | _ => true

def PSt.fresh : PSt → Bool
  | .keep | .brDel | .w2a | .w3a => true
  | _ => false

inductive Peep : List Dir → List Dir → List PSt → Prop
  | nil : Peep [] [] []
  | br (l r rest out sts) : Peep rest out sts →
      Peep (.ref 0x9 l r :: .label .plain l :: rest) (.label .plain l :: out) (.brDel :: .keep :: sts)
  | w2 (x rest out sts) : Peep rest out sts →
      Peep (.imm 2 x :: .imm 0 x :: rest) (.imm 2 x :: out) (.w2a :: .w2d :: sts)
  | w3 (x rest out sts) : Peep rest out sts →
      Peep (.imm 1 1 :: .imm 8 x :: .imm 0 1 :: .imm 6 x :: rest) (.imm 1 1 :: .imm 8 x :: out)
        (.w3a :: .w3b :: .w3c :: .w3d :: sts)
  | keep (d rest out sts) : Peep rest out sts → Peep (d :: rest) (d :: out) (.keep :: sts)

/-! ### The pass satisfies the relation -/

theorem matchBranchZero_inv (ds : List Dir) (h : matchBranchZero ds = true) :
    ∃ l r rest, ds = .ref 0x9 l r :: .label .plain l :: rest := by
  unfold matchBranchZero at h
  split at h
  · rename_i l r l' rest
    simp only [decide_eq_true_eq] at h
    subst h
    exact ⟨_, _, _, rfl⟩
  · simp at h

theorem matchStoreThenLoad_inv (ds : List Dir) (h : matchStoreThenLoad ds = true) :
    ∃ x rest, ds = .imm 2 x :: .imm 0 x :: rest := by
  unfold matchStoreThenLoad at h
  split at h
  · rename_i d0 d1 rest
    cases d0 <;> cases d1 <;> simp [dirOpc, dirIsLabelOperand, dirValue] at h
    rename_i o0 v0 o1 v1
    obtain ⟨h0, h1, hv⟩ := h
    subst h0; subst h1; subst hv
    exact ⟨_, _, rfl⟩
  · simp at h

theorem matchIndexStoreThenLoad_inv (ds : List Dir) (h : matchIndexStoreThenLoad ds = true) :
    ∃ x rest, ds = .imm 1 1 :: .imm 8 x :: .imm 0 1 :: .imm 6 x :: rest := by
  unfold matchIndexStoreThenLoad at h
  split at h
  · rename_i d0 d1 d2 d3 rest
    cases d0 <;> cases d1 <;> cases d2 <;> cases d3 <;> simp [dirOpc, dirIsLabelOperand, dirValue] at h
    rename_i o0 v0 o1 v1 o2 v2 o3 v3
    obtain ⟨h0, h1, h2, h3, hv0, hv2, hv⟩ := h
    subst h0; subst h1; subst h2; subst h3; subst hv0; subst hv2; subst hv
    exact ⟨_, _, rfl⟩
  · simp at h

/-- The statuses the pass assigns (mirrors `peepholeGo`). -/
def peepStGo : Nat → List Dir → List PSt
  | 0, _ => []
  | _, [] => []
  | fuel + 1, d :: rest =>
    if matchBranchZero (d :: rest) then
      match rest with
      | _ :: rest' => .brDel :: .keep :: peepStGo fuel rest'
      | [] => [.keep]
    else if matchStoreThenLoad (d :: rest) then .w2a :: .w2d :: peepStGo fuel (rest.drop 1)
    else if matchIndexStoreThenLoad (d :: rest) then .w3a :: .w3b :: .w3c :: .w3d :: peepStGo fuel (rest.drop 3)
    else .keep :: peepStGo fuel rest

def peepSt (ds : List Dir) : List PSt := peepStGo ds.length ds

theorem peep_of_go : ∀ (fuel : Nat) (ds : List Dir), ds.length ≤ fuel → Peep ds (peepholeGo fuel ds) (peepStGo fuel ds) := by
  intro fuel
  induction fuel using Nat.strongRecOn with
  | _ fuel ih =>
    intro ds hlen
    cases ds with
    | nil => cases fuel <;> (unfold peepholeGo peepStGo; exact Peep.nil)
    | cons d rest =>
      cases fuel with
      | zero => simp at hlen
      | succ fuel =>
        unfold peepholeGo peepStGo
        simp only [List.length_cons] at hlen
        by_cases h1 : matchBranchZero (d :: rest) = true
        · rw [if_pos h1, if_pos h1]
          obtain ⟨l, r, rest', he⟩ := matchBranchZero_inv _ h1
          simp only [List.cons.injEq] at he
          obtain ⟨hd, hr⟩ := he
          subst hd; subst hr
          have hp := ih fuel (Nat.lt_succ_self _) rest' (by simp only [List.length_cons] at hlen; omega)
          exact Peep.br l r rest' _ _ hp
        · rw [if_neg h1, if_neg h1]
          by_cases h2 : matchStoreThenLoad (d :: rest) = true
          · rw [if_pos h2, if_pos h2]
            obtain ⟨x, rest', he⟩ := matchStoreThenLoad_inv _ h2
            simp only [List.cons.injEq] at he
            obtain ⟨hd, hr⟩ := he
            subst hd; subst hr
            have hp := ih fuel (Nat.lt_succ_self _) rest' (by simp only [List.length_cons] at hlen; omega)
            simpa using Peep.w2 x rest' _ _ hp
          · rw [if_neg h2, if_neg h2]
            by_cases h3 : matchIndexStoreThenLoad (d :: rest) = true
            · rw [if_pos h3, if_pos h3]
              obtain ⟨x, rest', he⟩ := matchIndexStoreThenLoad_inv _ h3
              simp only [List.cons.injEq] at he
              obtain ⟨hd, hr⟩ := he
              subst hd; subst hr
              have hp := ih fuel (Nat.lt_succ_self _) rest' (by simp only [List.length_cons] at hlen; omega)
              simpa using Peep.w3 x rest' _ _ hp
            · rw [if_neg h3, if_neg h3]
              have hp := ih fuel (Nat.lt_succ_self _) rest (by omega)
              exact Peep.keep d rest _ _ hp

/-- **The pass is an instance of `Peep`.** -/
theorem peephole_peep (ds : List Dir) : Peep ds (peephole ds) (peepSt ds) :=
  peep_of_go ds.length ds (Nat.le_refl _)

/-! ### Index map and local structure -/

/-- Index in the output of the image of (the first kept directive at or after) index `i`. -/
def phi : List PSt → Nat → Nat
  | _, 0 => 0
  | [], _ + 1 => 0
  | s :: r, i + 1 => phi r i + (if s.kept then 1 else 0)

theorem phi_zero (sts : List PSt) : phi sts 0 = 0 := by cases sts <;> rfl

theorem phi_cons (s : PSt) (r : List PSt) (i : Nat) : phi (s :: r) (i + 1) = phi r i + (if s.kept then 1 else 0) := rfl

theorem phi_succ : ∀ (sts : List PSt) (i : Nat) (s : PSt), sts[i]? = some s →
    phi sts (i + 1) = phi sts i + (if s.kept then 1 else 0) := by
  intro sts
  induction sts with
  | nil => intro i s h; simp at h
  | cons a r ih =>
    intro i s h
    cases i with
    | zero =>
      simp only [List.getElem?_cons_zero, Option.some.injEq] at h
      subst h
      simp [phi_cons, phi_zero]
    | succ i =>
      simp only [List.getElem?_cons_succ] at h
      rw [phi_cons, phi_cons, ih i s h]
      omega

theorem Peep.length {ds out : List Dir} {sts : List PSt} (h : Peep ds out sts) : sts.length = ds.length := by
  induction h with
  | nil => rfl
  | br l r rest out sts _ ih => simp [ih]
  | w2 x rest out sts _ ih => simp [ih]
  | w3 x rest out sts _ ih => simp [ih]
  | keep d rest out sts _ ih => simp [ih]

/-- A kept directive is found at its image. -/
theorem Peep.kept_get {ds out : List Dir} {sts : List PSt} (h : Peep ds out sts) :
    ∀ (i : Nat) (s : PSt), sts[i]? = some s → s.kept = true → out[phi sts i]? = ds[i]? := by
  induction h with
  | nil => intro i s h; simp at h
  | br l r rest out sts _ ih =>
    intro i s hs hk
    match i with
    | 0 => simp at hs; subst hs; simp [PSt.kept] at hk
    | 1 => simp [phi_cons, phi_zero, PSt.kept]
    | i + 2 =>
      simp only [List.getElem?_cons_succ] at hs ⊢
      simp only [phi_cons, PSt.kept]
      have := ih i s hs hk
      simpa using this
  | w2 x rest out sts _ ih =>
    intro i s hs hk
    match i with
    | 0 => simp [phi_zero]
    | 1 => simp at hs; subst hs; simp [PSt.kept] at hk
    | i + 2 =>
      simp only [List.getElem?_cons_succ] at hs ⊢
      simp only [phi_cons, PSt.kept]
      have := ih i s hs hk
      simpa using this
  | w3 x rest out sts _ ih =>
    intro i s hs hk
    match i with
    | 0 => simp [phi_zero]
    | 1 => simp [phi_cons, phi_zero, PSt.kept]
    | 2 => simp at hs; subst hs; simp [PSt.kept] at hk
    | 3 => simp at hs; subst hs; simp [PSt.kept] at hk
    | i + 4 =>
      simp only [List.getElem?_cons_succ] at hs ⊢
      simp only [phi_cons, PSt.kept]
      have := ih i s hs hk
      simpa using this
  | keep d rest out sts _ ih =>
    intro i s hs hk
    match i with
    | 0 => simp [phi_zero]
    | i + 1 =>
      simp only [List.getElem?_cons_succ] at hs ⊢
      simp only [phi_cons, PSt.kept]
      have := ih i s hs hk
      simpa using this

theorem Peep.labelNames {ds out : List Dir} {sts : List PSt} (h : Peep ds out sts) : labelNames out = labelNames ds := by
  induction h with
  | nil => rfl
  | br l r rest out sts _ ih => simp [C01s.labelNames, ih]
  | w2 x rest out sts _ ih => simp [C01s.labelNames, ih]
  | w3 x rest out sts _ ih => simp [C01s.labelNames, ih]
  | keep d rest out sts _ ih => cases d <;> simp [C01s.labelNames, ih]

/-- The status at `j` (if any) starts a window or is a plain kept directive. -/
def NextFresh (sts : List PSt) (j : Nat) : Prop :=
  match sts[j]? with
  | none => True
  | some s => s.fresh = true

/-- What a status says about the directives from its position on. -/
def Fwd (ds : List Dir) (sts : List PSt) (i : Nat) : Prop :=
  match sts[i]? with
  | none => True
  | some .keep => NextFresh sts (i + 1)
  | some .brDel => ∃ l r, ds[i]? = some (.ref 0x9 l r) ∧ ds[i + 1]? = some (.label .plain l) ∧ sts[i + 1]? = some .keep
  | some .w2a => ∃ x, ds[i]? = some (.imm 2 x) ∧ ds[i + 1]? = some (.imm 0 x) ∧ sts[i + 1]? = some .w2d
  | some .w2d => ∃ x, ds[i]? = some (.imm 0 x) ∧ NextFresh sts (i + 1)
  | some .w3a => ∃ x, ds[i]? = some (.imm 1 1) ∧ ds[i + 1]? = some (.imm 8 x) ∧ ds[i + 2]? = some (.imm 0 1) ∧
      ds[i + 3]? = some (.imm 6 x) ∧ sts[i + 1]? = some .w3b ∧ sts[i + 2]? = some .w3c ∧ sts[i + 3]? = some .w3d
  | some .w3b => ∃ x, ds[i]? = some (.imm 8 x) ∧ ds[i + 1]? = some (.imm 0 1) ∧ ds[i + 2]? = some (.imm 6 x) ∧
      sts[i + 1]? = some .w3c ∧ sts[i + 2]? = some .w3d
  | some .w3c => ∃ x, ds[i]? = some (.imm 0 1) ∧ ds[i + 1]? = some (.imm 6 x) ∧ sts[i + 1]? = some .w3d
  | some .w3d => ∃ x, ds[i]? = some (.imm 6 x) ∧ NextFresh sts (i + 1)

theorem Fwd_cons (d : Dir) (s : PSt) (ds : List Dir) (sts : List PSt) (i : Nat) :
    Fwd (d :: ds) (s :: sts) (i + 1) = Fwd ds sts i := by
  simp only [Fwd, NextFresh, List.getElem?_cons_succ]

theorem Peep.head_fresh {ds out : List Dir} {sts : List PSt} (h : Peep ds out sts) : NextFresh sts 0 := by
  cases h <;> simp [NextFresh, PSt.fresh]

theorem Peep.fwd {ds out : List Dir} {sts : List PSt} (h : Peep ds out sts) : ∀ i, Fwd ds sts i := by
  induction h with
  | nil => intro i; simp [Fwd]
  | br l r rest out sts hp ih =>
    intro i
    match i with
    | 0 => simp [Fwd]
    | 1 => have := hp.head_fresh; simpa [Fwd, NextFresh] using this
    | i + 2 => rw [Fwd_cons, Fwd_cons]; exact ih i
  | w2 x rest out sts hp ih =>
    intro i
    match i with
    | 0 => simp [Fwd]
    | 1 => have := hp.head_fresh; simpa [Fwd, NextFresh] using this
    | i + 2 => rw [Fwd_cons, Fwd_cons]; exact ih i
  | w3 x rest out sts hp ih =>
    intro i
    match i with
    | 0 => simp [Fwd]
    | 1 => simp [Fwd]
    | 2 => simp [Fwd]
    | 3 => have := hp.head_fresh; simpa [Fwd, NextFresh] using this
    | i + 4 => rw [Fwd_cons, Fwd_cons, Fwd_cons, Fwd_cons]; exact ih i
  | keep d rest out sts hp ih =>
    intro i
    match i with
    | 0 => have := hp.head_fresh; simpa [Fwd, NextFresh] using this
    | i + 1 => rw [Fwd_cons]; exact ih i

/-! ### Inversion of steps by the directive at the program counter -/

theorem step_imm0 {env : Env} {c c1 : Cfg} {io io1 : Isa.IOSt} {v : Int} (hd : env.ds[c.i]? = some (.imm 0 v))
    (h : Step env c io c1 io1) : ∃ x, Isa.ld c.mem (IAm.W v) = some x ∧ c1 = { c with i := c.i + 1, a := x } ∧ io1 = io := by
  cases h with
  | ldam v' x hd' hld =>
    rw [hd] at hd'; cases hd'
    exact ⟨x, hld, rfl, rfl⟩
  | _ => simp_all

theorem step_imm1 {env : Env} {c c1 : Cfg} {io io1 : Isa.IOSt} {v : Int} (hd : env.ds[c.i]? = some (.imm 1 v))
    (h : Step env c io c1 io1) : ∃ x, Isa.ld c.mem (IAm.W v) = some x ∧ c1 = { c with i := c.i + 1, b := x } ∧ io1 = io := by
  cases h with
  | ldbm v' x hd' hld =>
    rw [hd] at hd'; cases hd'
    exact ⟨x, hld, rfl, rfl⟩
  | _ => simp_all

theorem step_imm2 {env : Env} {c c1 : Cfg} {io io1 : Isa.IOSt} {v : Int} (hd : env.ds[c.i]? = some (.imm 2 v))
    (h : Step env c io c1 io1) : ∃ m', IAm.store env c.mem (IAm.W v) c.a = some m' ∧ c1 = { c with i := c.i + 1, mem := m' } ∧ io1 = io := by
  cases h with
  | stam v' m' hd' hst =>
    rw [hd] at hd'; cases hd'
    exact ⟨m', hst, rfl, rfl⟩
  | _ => simp_all

theorem step_imm6 {env : Env} {c c1 : Cfg} {io io1 : Isa.IOSt} {v : Int} (hd : env.ds[c.i]? = some (.imm 6 v))
    (h : Step env c io c1 io1) : ∃ x, Isa.ld c.mem (c.a + IAm.W v) = some x ∧ c1 = { c with i := c.i + 1, a := x } ∧ io1 = io := by
  cases h with
  | ldai v' x hd' hld =>
    rw [hd] at hd'; cases hd'
    exact ⟨x, hld, rfl, rfl⟩
  | _ => simp_all

theorem step_imm8 {env : Env} {c c1 : Cfg} {io io1 : Isa.IOSt} {v : Int} (hd : env.ds[c.i]? = some (.imm 8 v))
    (h : Step env c io c1 io1) : ∃ m', IAm.store env c.mem (c.b + IAm.W v) c.a = some m' ∧ (c.b + IAm.W v).toNat ≠ 1 ∧
      c1 = { c with i := c.i + 1, mem := m' } ∧ io1 = io := by
  cases h with
  | stai v' m' hd' hst hne =>
    rw [hd] at hd'; cases hd'
    exact ⟨m', hst, hne, rfl, rfl⟩
  | _ => simp_all

theorem step_ref9 {env : Env} {c c1 : Cfg} {io io1 : Isa.IOSt} {l : String} {r : Bool} (hd : env.ds[c.i]? = some (.ref 9 l r))
    (h : Step env c io c1 io1) : ∃ j, labelIdx env.ds l = some j ∧ c1 = { c with i := j } ∧ io1 = io := by
  cases h with
  | br l' j hd' hl =>
    rw [hd] at hd'; cases hd'
    exact ⟨j, hl, rfl, rfl⟩
  | _ => simp_all

theorem step_at {env : Env} {c c1 : Cfg} {io io1 : Isa.IOSt} (h : Step env c io c1 io1) : ∃ d, env.ds[c.i]? = some d := by
  cases h <;> exact ⟨_, by assumption⟩

theorem store_inv {env : Env} {mem m' : Mem} {w v : Word} (h : IAm.store env mem w v = some m') :
    w.toNat < memWords ∧ m' = mem.write w.toNat v := by
  unfold IAm.store at h
  split at h
  · rename_i hc
    simp only [Option.some.injEq] at h
    exact ⟨hc.1, h.symm⟩
  · simp at h

theorem ld_after_store {env : Env} {mem m' : Mem} {w v : Word} (h : IAm.store env mem w v = some m') :
    Isa.ld m' w = some v := by
  obtain ⟨hlt, rfl⟩ := store_inv h
  unfold Isa.ld
  rw [if_pos hlt, Mem.read_write_same _ _ _ hlt]

/-! ### The simulation -/

/-- What is known of the state at a directive inside a window. -/
def Inv (ds : List Dir) (sts : List PSt) (c c' : Cfg) : Prop :=
  match sts[c.i]? with
  | some .w2d => c'.a = c.a ∧ ∀ x, ds[c.i]? = some (.imm 0 x) → Isa.ld c.mem (IAm.W x) = some c.a
  | some .w3b => c'.a = c.a ∧ c.mem.read 1 = c.b
  | some .w3c => c'.a = c.a ∧ c.mem.read 1 = c.b ∧
      ∀ x, ds[c.i + 1]? = some (.imm 6 x) → Isa.ld c.mem (c.b + IAm.W x) = some c.a
  | some .w3d => c.a = c.b ∧ ∀ x, ds[c.i]? = some (.imm 6 x) → Isa.ld c.mem (c.b + IAm.W x) = some c'.a
  | _ => c'.a = c.a

/-- `c` on the list before the pass corresponds to `c'` on the list after it. -/
def Rel (ds : List Dir) (sts : List PSt) (c c' : Cfg) : Prop :=
  c'.i = phi sts c.i ∧ c'.mem = c.mem ∧ c'.b = c.b ∧ Inv ds sts c c'

theorem Inv_of_fresh {ds : List Dir} {sts : List PSt} {c c' : Cfg} (h : NextFresh sts c.i) (ha : c'.a = c.a) :
    Inv ds sts c c' := by
  unfold Inv
  unfold NextFresh at h
  cases hs : sts[c.i]? with
  | none => exact ha
  | some s =>
    rw [hs] at h
    cases s <;> simp [PSt.fresh] at h <;> exact ha

section
variable {ds ds' : List Dir} {sts : List PSt} (hp : Peep ds ds' sts) (hnd : (labelNames ds).Nodup)
variable {env env' : Env} (hds : env.ds = ds) (hds' : env'.ds = ds')
variable (haddr : ∀ i, env.addr i = env'.addr (phi sts i)) (hcode : env.isCode = env'.isCode)

include hp in
theorem label_keep (j : Nat) (k : LabelKind) (n : String) (h : ds[j]? = some (.label k n)) : sts[j]? = some .keep := by
  have hlt : j < sts.length := by rw [hp.length]; exact (List.getElem?_eq_some_iff.mp h).1
  have hf := hp.fwd j
  unfold Fwd at hf
  rw [List.getElem?_eq_getElem hlt] at hf ⊢
  generalize sts[j] = s at hf
  cases s <;> simp only at hf
  · rfl
  all_goals (rw [h] at hf; simp at hf)

include hp hnd hds hds' in
theorem labelIdx_phi (l : String) (j : Nat) (h : labelIdx env.ds l = some j) : labelIdx env'.ds l = some (phi sts j) := by
  rw [hds] at h
  obtain ⟨k, hd⟩ := labelIdx_some ds l j h
  have hk := label_keep hp j k l hd
  have hg := hp.kept_get j _ hk rfl
  rw [hd] at hg
  rw [hds']
  exact labelIdx_of_nodup ds' _ k l (by rw [hp.labelNames]; exact hnd) hg

include hp in
theorem rel_label (j : Nat) (k : LabelKind) (n : String) (h : ds[j]? = some (.label k n)) (a b : Word) (mem : Mem) :
    Rel ds sts ⟨j, a, b, mem⟩ ⟨phi sts j, a, b, mem⟩ := by
  refine ⟨rfl, rfl, rfl, ?_⟩
  unfold Inv
  rw [label_keep hp j k n h]

include hp in
theorem rel_next (i : Nat) (s : PSt) (hs : sts[i]? = some s) (hk : s.kept = true) (hf : NextFresh sts (i + 1))
    (a b : Word) (mem : Mem) : Rel ds sts ⟨i + 1, a, b, mem⟩ ⟨phi sts i + 1, a, b, mem⟩ := by
  refine ⟨?_, rfl, rfl, Inv_of_fresh hf rfl⟩
  simp only [phi_succ sts i s hs, hk, if_true]

include hcode in
theorem store_env (mem : Mem) (w v : Word) : IAm.store env mem w v = IAm.store env' mem w v := by
  unfold IAm.store
  rw [hcode]


include hp hnd hds hds' haddr hcode in
/-- **One step before the pass is at most one step after it.** -/
theorem step_peep (c c1 : Cfg) (io io1 : Isa.IOSt) (hstep : Step env c io c1 io1) (c' : Cfg) (hr : Rel ds sts c c') :
    ∃ c1', Steps env' c' io c1' io1 ∧ Rel ds sts c1 c1' := by
  obtain ⟨hi, hmem, hb, hinv⟩ := hr
  obtain ⟨i', a', b', m'⟩ := c'
  simp only at hi hmem hb
  subst hi; subst hmem; subst hb
  obtain ⟨d, hd⟩ := step_at hstep
  have hlt : c.i < sts.length := by rw [hp.length, ← hds]; exact (List.getElem?_eq_some_iff.mp hd).1
  have hf := hp.fwd c.i
  unfold Fwd at hf
  unfold Inv at hinv
  have hs : sts[c.i]? = some sts[c.i] := List.getElem?_eq_getElem hlt
  rw [hs] at hf hinv
  generalize sts[c.i] = s at hs hf hinv
  cases s with
  | brDel =>
    simp only at hf hinv
    obtain ⟨l, r, h0, h1, hk1⟩ := hf
    subst hinv
    obtain ⟨j, hl, rfl, rfl⟩ := step_ref9 (by rw [hds]; exact h0) hstep
    rw [hds, labelIdx_of_nodup ds (c.i + 1) .plain l hnd h1] at hl
    simp only [Option.some.injEq] at hl
    subst hl
    refine ⟨_, Steps.refl _ _, ?_, rfl, rfl, ?_⟩
    · simp [phi_succ sts c.i _ hs, PSt.kept]
    · unfold Inv
      simp only [hk1]
  | w2a =>
    simp only at hf hinv
    obtain ⟨x, h0, h1, hk1⟩ := hf
    subst hinv
    obtain ⟨m1, hst, rfl, rfl⟩ := step_imm2 (by rw [hds]; exact h0) hstep
    have hg := hp.kept_get c.i _ hs rfl
    refine ⟨⟨phi sts c.i + 1, c.a, c.b, m1⟩,
      Steps.one (Step.stam ⟨phi sts c.i, c.a, c.b, c.mem⟩ _ x m1 (by rw [hds', hg]; exact h0)
        (by rw [← store_env hcode]; exact hst)), ?_, rfl, rfl, ?_⟩
    · simp [phi_succ sts c.i _ hs, PSt.kept]
    · unfold Inv
      simp only [hk1]
      refine ⟨trivial, fun x' hx' => ?_⟩
      rw [h1] at hx'
      cases hx'
      exact ld_after_store hst
  | w2d =>
    simp only at hf hinv
    obtain ⟨x, h0, hfr⟩ := hf
    obtain ⟨ha, hld0⟩ := hinv
    subst ha
    obtain ⟨v, hld, rfl, rfl⟩ := step_imm0 (by rw [hds]; exact h0) hstep
    rw [hld0 x h0] at hld
    simp only [Option.some.injEq] at hld
    subst hld
    refine ⟨_, Steps.refl _ _, ?_, rfl, rfl, Inv_of_fresh hfr rfl⟩
    simp [phi_succ sts c.i _ hs, PSt.kept]
  | w3a =>
    simp only at hf hinv
    obtain ⟨x, h0, h1, h2, h3, hk1, hk2, hk3⟩ := hf
    subst hinv
    obtain ⟨v, hld, rfl, rfl⟩ := step_imm1 (by rw [hds]; exact h0) hstep
    have hg := hp.kept_get c.i _ hs rfl
    have hv : v = c.mem.read 1 := by
      rw [ld_one] at hld
      exact (Option.some.inj hld).symm
    refine ⟨⟨phi sts c.i + 1, c.a, v, c.mem⟩,
      Steps.one (Step.ldbm ⟨phi sts c.i, c.a, c.b, c.mem⟩ _ 1 v (by rw [hds', hg]; exact h0) hld), ?_, rfl, rfl, ?_⟩
    · simp [phi_succ sts c.i _ hs, PSt.kept]
    · unfold Inv
      simp only [hk1]
      exact ⟨trivial, hv.symm⟩
  | w3b =>
    simp only at hf hinv
    obtain ⟨x, h0, h1, h2, hk1, hk2⟩ := hf
    obtain ⟨ha, hsp⟩ := hinv
    subst ha
    obtain ⟨m1, hst, hne, rfl, rfl⟩ := step_imm8 (by rw [hds]; exact h0) hstep
    have hg := hp.kept_get c.i _ hs rfl
    refine ⟨⟨phi sts c.i + 1, c.a, c.b, m1⟩,
      Steps.one (Step.stai ⟨phi sts c.i, c.a, c.b, c.mem⟩ _ x m1 (by rw [hds', hg]; exact h0)
        (by rw [← store_env hcode]; exact hst) hne), ?_, rfl, rfl, ?_⟩
    · simp [phi_succ sts c.i _ hs, PSt.kept]
    · unfold Inv
      simp only [hk1]
      refine ⟨trivial, ?_, fun x' hx' => ?_⟩
      · obtain ⟨_, rfl⟩ := store_inv hst
        rw [Mem.read_write_other _ _ _ _ hne]
        exact hsp
      · rw [show c.i + 1 + 1 = c.i + 2 from rfl, h2] at hx'
        cases hx'
        exact ld_after_store hst
  | w3c =>
    simp only at hf hinv
    obtain ⟨x, h0, h1, hk1⟩ := hf
    obtain ⟨ha, hsp, hslot⟩ := hinv
    subst ha
    obtain ⟨v, hld, rfl, rfl⟩ := step_imm0 (by rw [hds]; exact h0) hstep
    rw [ld_one] at hld
    simp only [Option.some.injEq] at hld
    subst hld
    refine ⟨_, Steps.refl _ _, ?_, rfl, rfl, ?_⟩
    · simp [phi_succ sts c.i _ hs, PSt.kept]
    · unfold Inv
      simp only [hk1]
      exact ⟨hsp, fun x' hx' => hslot x' hx'⟩
  | w3d =>
    simp only at hf hinv
    obtain ⟨x, h0, hfr⟩ := hf
    obtain ⟨hab, hslot⟩ := hinv
    obtain ⟨v, hld, rfl, rfl⟩ := step_imm6 (by rw [hds]; exact h0) hstep
    rw [hab, hslot x h0] at hld
    simp only [Option.some.injEq] at hld
    subst hld
    refine ⟨_, Steps.refl _ _, ?_, rfl, rfl, Inv_of_fresh hfr rfl⟩
    simp [phi_succ sts c.i _ hs, PSt.kept]
  | keep =>
    simp only at hf hinv
    subst hinv
    have hget : env'.ds[phi sts c.i]? = env.ds[c.i]? := by rw [hds', hds]; exact hp.kept_get c.i _ hs rfl
    have nxt := rel_next hp c.i .keep hs rfl hf
    have lab : ∀ l j, labelIdx env.ds l = some j → ∀ a b mem, Rel ds sts ⟨j, a, b, mem⟩ ⟨phi sts j, a, b, mem⟩ := by
      intro l j hl
      rw [hds] at hl
      obtain ⟨k, hk⟩ := labelIdx_some ds l j hl
      exact rel_label hp j k l hk
    have lphi := labelIdx_phi hp hnd hds hds'
    cases hstep with
    | label k n hd => exact ⟨_, Steps.one (Step.label ⟨phi sts c.i, c.a, c.b, c.mem⟩ io k n (hget.trans hd)), nxt _ _ _⟩
    | ldam v x hd hld => exact ⟨_, Steps.one (Step.ldam ⟨phi sts c.i, c.a, c.b, c.mem⟩ io v x (hget.trans hd) hld), nxt _ _ _⟩
    | ldbm v x hd hld => exact ⟨_, Steps.one (Step.ldbm ⟨phi sts c.i, c.a, c.b, c.mem⟩ io v x (hget.trans hd) hld), nxt _ _ _⟩
    | stam v m1 hd hst =>
      exact ⟨_, Steps.one (Step.stam ⟨phi sts c.i, c.a, c.b, c.mem⟩ io v m1 (hget.trans hd)
        (by rw [← store_env hcode]; exact hst)), nxt _ _ _⟩
    | ldac v hd => exact ⟨_, Steps.one (Step.ldac ⟨phi sts c.i, c.a, c.b, c.mem⟩ io v (hget.trans hd)), nxt _ _ _⟩
    | ldbc v hd => exact ⟨_, Steps.one (Step.ldbc ⟨phi sts c.i, c.a, c.b, c.mem⟩ io v (hget.trans hd)), nxt _ _ _⟩
    | ldai v x hd hld => exact ⟨_, Steps.one (Step.ldai ⟨phi sts c.i, c.a, c.b, c.mem⟩ io v x (hget.trans hd) hld), nxt _ _ _⟩
    | ldbi v x hd hld => exact ⟨_, Steps.one (Step.ldbi ⟨phi sts c.i, c.a, c.b, c.mem⟩ io v x (hget.trans hd) hld), nxt _ _ _⟩
    | stai v m1 hd hst hne =>
      exact ⟨_, Steps.one (Step.stai ⟨phi sts c.i, c.a, c.b, c.mem⟩ io v m1 (hget.trans hd)
        (by rw [← store_env hcode]; exact hst) hne), nxt _ _ _⟩
    | ldamL l j x hd hl h4 hld =>
      exact ⟨_, Steps.one (Step.ldamL ⟨phi sts c.i, c.a, c.b, c.mem⟩ io l (phi sts j) x (hget.trans hd) (lphi l j hl)
        (by rw [← haddr]; exact h4) (by rw [← haddr]; exact hld)), nxt _ _ _⟩
    | ldbmL l j x hd hl h4 hld =>
      exact ⟨_, Steps.one (Step.ldbmL ⟨phi sts c.i, c.a, c.b, c.mem⟩ io l (phi sts j) x (hget.trans hd) (lphi l j hl)
        (by rw [← haddr]; exact h4) (by rw [← haddr]; exact hld)), nxt _ _ _⟩
    | stamL l j m1 hd hl h4 hst =>
      exact ⟨_, Steps.one (Step.stamL ⟨phi sts c.i, c.a, c.b, c.mem⟩ io l (phi sts j) m1 (hget.trans hd) (lphi l j hl)
        (by rw [← haddr]; exact h4) (by rw [← haddr, ← store_env hcode]; exact hst)), nxt _ _ _⟩
    | ldacL l j hd hl h4 =>
      refine ⟨_, Steps.one (Step.ldacL ⟨phi sts c.i, c.a, c.b, c.mem⟩ io l (phi sts j) (hget.trans hd) (lphi l j hl)
        (by rw [← haddr]; exact h4)), ?_⟩
      rw [← haddr]
      exact nxt _ _ _
    | ldapL l j hd hl =>
      refine ⟨_, Steps.one (Step.ldapL ⟨phi sts c.i, c.a, c.b, c.mem⟩ io l (phi sts j) (hget.trans hd) (lphi l j hl)), ?_⟩
      rw [← haddr]
      exact nxt _ _ _
    | br l j hd hl =>
      exact ⟨_, Steps.one (Step.br ⟨phi sts c.i, c.a, c.b, c.mem⟩ io l (phi sts j) (hget.trans hd) (lphi l j hl)), lab l j hl _ _ _⟩
    | brz l j hd hl =>
      refine ⟨_, Steps.one (Step.brz ⟨phi sts c.i, c.a, c.b, c.mem⟩ io l (phi sts j) (hget.trans hd) (lphi l j hl)), ?_⟩
      by_cases hz : c.a = 0
      · simp only [hz, if_true]; exact lab l j hl _ _ _
      · simp only [hz, if_false]; exact nxt _ _ _
    | brn l j hd hl =>
      refine ⟨_, Steps.one (Step.brn ⟨phi sts c.i, c.a, c.b, c.mem⟩ io l (phi sts j) (hget.trans hd) (lphi l j hl)), ?_⟩
      by_cases hz : c.a.toInt < 0
      · simp only [hz, if_true]; exact lab l j hl _ _ _
      · simp only [hz, if_false]; exact nxt _ _ _
    | brb k kind n hd hk hak =>
      rw [hds] at hk
      have hk' : env'.ds[phi sts k]? = some (.label kind n) := by
        rw [hds', hp.kept_get k _ (label_keep hp k kind n hk) rfl]; exact hk
      exact ⟨_, Steps.one (Step.brb ⟨phi sts c.i, c.a, c.b, c.mem⟩ io (phi sts k) kind n (hget.trans hd) hk'
        (by rw [← haddr]; exact hak)), rel_label hp k kind n hk _ _ _⟩
    | add hd => exact ⟨_, Steps.one (Step.add ⟨phi sts c.i, c.a, c.b, c.mem⟩ io (hget.trans hd)), nxt _ _ _⟩
    | sub hd => exact ⟨_, Steps.one (Step.sub ⟨phi sts c.i, c.a, c.b, c.mem⟩ io (hget.trans hd)), nxt _ _ _⟩
    | svcPut v s hd ha hv hs' =>
      exact ⟨_, Steps.one (Step.svcPut ⟨phi sts c.i, c.a, c.b, c.mem⟩ io v s (hget.trans hd) ha hv hs'), nxt _ _ _⟩
    | svcGet s m1 hd ha hs' hst =>
      exact ⟨_, Steps.one (Step.svcGet ⟨phi sts c.i, c.a, c.b, c.mem⟩ io s m1 (hget.trans hd) ha hs'
        (by rw [← store_env hcode]; exact hst)), nxt _ _ _⟩

include hp hnd hds hds' haddr hcode in
theorem steps_peep (c c1 : Cfg) (io io1 : Isa.IOSt) (h : Steps env c io c1 io1) :
    ∀ c', Rel ds sts c c' → ∃ c1', Steps env' c' io c1' io1 ∧ Rel ds sts c1 c1' := by
  induction h with
  | refl c io => intro c' hr; exact ⟨c', Steps.refl _ _, hr⟩
  | step c io ca ioa cb iob hs _ ih =>
    intro c' hr
    obtain ⟨ca', h1, hr1⟩ := step_peep hp hnd hds hds' haddr hcode c ca io ioa hs c' hr
    obtain ⟨cb', h2, hr2⟩ := ih ca' hr1
    exact ⟨cb', h1.trans h2, hr2⟩

include hp in
theorem opr_keep (j k : Nat) (h : ds[j]? = some (.opr k)) : sts[j]? = some .keep := by
  have hlt : j < sts.length := by rw [hp.length]; exact (List.getElem?_eq_some_iff.mp h).1
  have hf := hp.fwd j
  unfold Fwd at hf
  rw [List.getElem?_eq_getElem hlt] at hf ⊢
  generalize sts[j] = s at hf
  cases s <;> simp only at hf
  · rfl
  all_goals (rw [h] at hf; simp at hf)

include hp in
theorem data_keep (j : Nat) (v : Int) (h : ds[j]? = some (.data v)) : sts[j]? = some .keep := by
  have hlt : j < sts.length := by rw [hp.length]; exact (List.getElem?_eq_some_iff.mp h).1
  have hf := hp.fwd j
  unfold Fwd at hf
  rw [List.getElem?_eq_getElem hlt] at hf ⊢
  generalize sts[j] = s at hf
  cases s <;> simp only at hf
  · rfl
  all_goals (rw [h] at hf; simp at hf)

include hp in
/-- A DATA word is kept, at the image of its index. -/
theorem data_get (j : Nat) (v : Int) (h : ds[j]? = some (.data v)) : ds'[phi sts j]? = some (.data v) := by
  rw [hp.kept_get j _ (data_keep hp j v h) rfl]; exact h

include hp in
/-- A label is kept, and the next index maps to the index after its image. -/
theorem label_get (j : Nat) (k : LabelKind) (n : String) (h : ds[j]? = some (.label k n)) :
    ds'[phi sts j]? = some (.label k n) ∧ phi sts (j + 1) = phi sts j + 1 := by
  have hk := label_keep hp j k n h
  refine ⟨by rw [hp.kept_get j _ hk rfl]; exact h, ?_⟩
  rw [phi_succ sts j _ hk]
  rfl

include hp hds hds' in
theorem exit_peep (c c' : Cfg) (io : Isa.IOSt) (code : Word) (h : Exit env c io code) (hr : Rel ds sts c c') :
    Exit env' c' io code := by
  obtain ⟨hi, hmem, hb, hinv⟩ := hr
  cases h with
  | svcExit hd ha hld =>
    rw [hds] at hd
    have hk := opr_keep hp c.i 3 hd
    unfold Inv at hinv
    rw [hk] at hinv
    simp only at hinv
    refine Exit.svcExit c' io code ?_ (by rw [hinv]; exact ha) (by rw [hmem]; exact hld)
    rw [hi, hds', hp.kept_get c.i _ hk rfl]
    exact hd

end

/-- The list before the pass, laid out through the list after it: a directive has the address
    of its image. -/
def fakeEnv (env' : Env) (ds : List Dir) (sts : List PSt) : Env :=
  { ds := ds, addr := fun i => env'.addr (phi sts i), isCode := env'.isCode }

/-- **The peephole pass preserves terminating runs.** -/
theorem peep_run {ds : List Dir} {sts : List PSt} {env' : Env} (hp : Peep ds env'.ds sts) (hnd : (labelNames ds).Nodup)
    (mem : Mem) (io0 : Isa.IOSt) (c : Cfg) (io : Isa.IOSt) (code : Word)
    (hsteps : Steps (fakeEnv env' ds sts) ⟨0, 0, 0, mem⟩ io0 c io) (hexit : Exit (fakeEnv env' ds sts) c io code) :
    ∃ c', Steps env' ⟨0, 0, 0, mem⟩ io0 c' io ∧ Exit env' c' io code := by
  have hr0 : Rel ds sts ⟨0, 0, 0, mem⟩ ⟨0, 0, 0, mem⟩ :=
    ⟨(phi_zero sts).symm, rfl, rfl, Inv_of_fresh hp.head_fresh rfl⟩
  obtain ⟨c', hs', hr'⟩ := steps_peep hp hnd (env := fakeEnv env' ds sts) (env' := env') rfl rfl (fun _ => rfl) rfl
    _ _ _ _ hsteps _ hr0
  exact ⟨c', hs', exit_peep hp (env := fakeEnv env' ds sts) rfl rfl c c' io code hexit hr'⟩

end Hex.C01s
