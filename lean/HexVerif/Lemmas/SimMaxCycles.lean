import HexVerif.Lemmas.SimIsa
/-!
  The cycle limit of hexsim only cuts a run: as long as the limit is not reached, `run()` with
  `--max-cycles m` performs exactly the iterations of the unlimited `run()`; the two final
  processors differ in the `maxCycles` member only.
-/
namespace Hex.Sim
open Hex

/-- Overwrite the cycle limit. -/
def setMax (p : Proc) (m : Nat) : Proc := { p with maxCycles := m }

theorem syscall_setMax (p : Proc) (m : Nat) :
    syscall (setMax p m) = (syscall p).map (fun q => setMax q m) := by
  rcases p with ⟨pc, areg, breg, oreg, instr, memory, io, truncateInputs, running, tracing,
    exitCode, lastPC, cycles, maxCycles, instrEnum, debugInfo, traceLog⟩
  unfold syscall setMax
  simp only [BitVec.ofNat_eq_ofNat]
  split
  · cases rd memory (memory.read 1 + 2#32) <;> simp [Res.map]
  split
  · cases rd memory (memory.read 1 + 2#32) <;> cases rd memory (memory.read 1 + 3#32) <;> simp [Res.map]
  split
  · cases rd memory (memory.read 1 + 2#32) with
    | none => simp [Res.map]
    | some s =>
      cases truncateInputs <;> simp only [Bool.false_eq_true, if_true, if_false]
      · cases wr memory (memory.read 1 + 1#32) (charToInt (ioInput io s).fst) <;> simp [Res.map]
      · cases wr memory (memory.read 1 + 1#32) (charToInt (ioInput io s).fst &&& 255#32) <;> simp [Res.map]
  · simp [Res.map]

theorem exec_setMax (p : Proc) (m : Nat) :
    exec (setMax p m) = (exec p).map (fun q => setMax q m) := by
  have hsys := syscall_setMax p m
  rcases p with ⟨pc, areg, breg, oreg, instr, memory, io, truncateInputs, running, tracing,
    exitCode, lastPC, cycles, maxCycles, instrEnum, debugInfo, traceLog⟩
  unfold exec
  unfold setMax at hsys ⊢
  simp only [BitVec.ofNat_eq_ofNat] at hsys ⊢
  split
  case h_1 => cases rd memory oreg <;> simp [Res.map]
  case h_2 => cases rd memory oreg <;> simp [Res.map]
  case h_3 => cases wr memory oreg areg <;> simp [Res.map]
  case h_7 => cases rd memory (areg + oreg) <;> simp [Res.map]
  case h_8 => cases rd memory (breg + oreg) <;> simp [Res.map]
  case h_9 => cases wr memory (breg + oreg) areg <;> simp [Res.map]
  case h_15 =>
    split
    · simp [Res.map]
    split
    · simp [Res.map]
    split
    · simp [Res.map]
    split
    · rw [hsys]
      generalize syscall _ = r
      cases r <;> simp [Res.map]
    · simp [Res.map]
  all_goals simp [Res.map]

theorem traceHook_setMax (p : Proc) (m : Nat) : traceHook (setMax p m) = setMax (traceHook p) m := by
  unfold traceHook setMax
  cases h : p.tracing <;> simp [traceLine, h]

theorem stepBody_setMax (p : Proc) (m : Nat) :
    stepBody (setMax p m) = (stepBody p).map (fun q => setMax q m) := by
  unfold stepBody
  have hm : (setMax p m).memory = p.memory := rfl
  have hpc : (setMax p m).pc = p.pc := rfl
  rw [hm, hpc]
  cases rd p.memory (p.pc >>> 2) with
  | none => rfl
  | some w =>
    simp only []
    have h1 : fetchDecode (setMax p m) w = setMax (fetchDecode p w) m := rfl
    rw [h1, traceHook_setMax, exec_setMax]

/-- The result of a run with every processor in it given the limit `m`. -/
def RunRes.setMax (m : Nat) : RunRes → RunRes
  | .returned c p => .returned c (Sim.setMax p m)
  | .threw s p => .threw s (Sim.setMax p m)
  | .faulted f p => .faulted f (Sim.setMax p m)
  | .outOfFuel p => .outOfFuel (Sim.setMax p m)

/-- **The limit only cuts.**  From a processor without a limit, a limit `m` that the run cannot
    reach within `fuel` iterations changes nothing but the `maxCycles` member. -/
theorem run_setMax (fuel : Nat) : ∀ (p : Proc) (m : Nat), p.maxCycles = 0 → p.cycles + fuel ≤ m →
    run fuel (setMax p m) = (run fuel p).setMax m := by
  induction fuel with
  | zero =>
    intro p m h0 hc
    have hl : loopCond (setMax p m) = loopCond p := by
      have hle : p.cycles ≤ m := by omega
      simp [loopCond, setMax, h0, hle]
    unfold run
    rw [hl]
    split <;> rfl
  | succ n ih =>
    intro p m h0 hc
    have hl : loopCond (setMax p m) = loopCond p := by
      have hle : p.cycles ≤ m := by omega
      simp [loopCond, setMax, h0, hle]
    unfold run
    rw [hl, stepBody_setMax]
    split
    · have hfr := stepBody_frame p
      cases hs : stepBody p with
      | ok q =>
        rw [hs] at hfr
        simp only [Res.All] at hfr
        simp only [Res.map]
        exact ih q m (by rw [hfr.2.1, h0]) (by rw [hfr.2.2.2.2.1]; omega)
      | throw s => rfl
      | fault f => rfl
    · rfl
/-- The processor a run ends with. -/
def RunRes.proc : RunRes → Proc
  | .returned _ p => p
  | .threw _ p => p
  | .faulted _ p => p
  | .outOfFuel p => p

/-- The cycle counter never passes the limit by more than one, however the run ends. -/
theorem run_cycles_bound (fuel : Nat) : ∀ (p : Proc), 0 < p.maxCycles →
    (run fuel p).proc.cycles ≤ max p.cycles (p.maxCycles + 1) ∧
    (run fuel p).proc.maxCycles = p.maxCycles := by
  induction fuel with
  | zero =>
    intro p hm
    unfold run
    split <;> simp [RunRes.proc] <;> omega
  | succ n ih =>
    intro p hm
    unfold run
    split
    · rename_i hl
      have hfr := stepBody_frame p
      cases hs : stepBody p with
      | ok q =>
        rw [hs] at hfr
        simp only [Res.All] at hfr
        simp only []
        have := ih q (by rw [hfr.2.1]; exact hm)
        rw [hfr.2.1, hfr.2.2.2.2.1] at this
        have hc : p.cycles ≤ p.maxCycles := by
          simp [loopCond, hm] at hl; exact hl.2
        refine ⟨?_, this.2⟩
        have := this.1
        omega
      | throw s => simp [RunRes.proc]; omega
      | fault f => simp [RunRes.proc]; omega
    · simp [RunRes.proc]; omega
end Hex.Sim
