import HexVerif.Lemmas.XcmpStage4
import HexVerif.Lemmas.XcmpXFrame
/-!
  Expressions with ONE call whose callee may have any effect (class `ipE`): the call is an operand
  of monadic operators and of arithmetic / relational operators whose other operand is a constant
  (a literal or the name of a constant) - the only expressions with an impure call in an operand
  whose value X defines (`X.orderOk`).  The code evaluates the operand with the call first in every
  shape (the constant goes straight into breg, or is loaded after the call's value was parked), so
  the triple of the whole expression leads from the state before the call to the state after it
  (`ExecT`), or the program terminates inside the call (`ExitsM`).
-/
namespace Hex.C01s
open Hex Hex.X Hex.Xcmp Hex.IAm Hex.Asm

/-! ### Triples with an outcome -/

/-- What the machine does for an expression whose evaluation has the result `r` (with the frame
    condition of `ExecT` when there is a value). -/
def OutX (t : Bool) (K : PCtx) (gs gs' : GS) (i : Nat) (a b : Word) (mem : Mem) (io0 : Isa.IOSt) (len : Nat) :
    Res Val → Prop
  | .ok (.int w) σ' => ∃ b' mem', Steps K.env (cfg i a b mem) io0 (cfg (i + len) w b' mem') σ'.io ∧ Rep K σ' mem' ∧
      FrmC K gs.offset (hiB t K gs') mem mem'
  | .ok (.arr _) _ => True
  | .exit cd σ' => ∃ c, Steps K.env (cfg i a b mem) io0 c σ'.io ∧ Exit K.env c σ'.io cd
  | .undef _ => True

/-- The triple of expression code for any outcome of the evaluation, with the frame condition. -/
def ExecX (t : Bool) (K : PCtx) (e' : AExpr) (σ : X.St) (r : Res Val) : Prop :=
  ∀ (gs : GS) (code : Code) (gs' : GS) (i : Nat) (a b : Word) (mem : Mem),
    genExpr K.ctx e' .A gs = .ok (code, gs') → At K.env.ds i (K.low code) → Rep K σ mem →
    gs'.size ≤ K.S → K.nlocals ≤ gs.offset → ConstsIn K gs' →
    OutX t K gs gs' i a b mem σ.io (K.low code).length r

theorem ExecX.toE {t : Bool} {K : PCtx} {e' : AExpr} {σ : X.St} {r : Res Val} (h : ExecX t K e' σ r) : ExecE K e' σ r := by
  intro gs code gs' i a b mem hg hat hr hsz hnl hci
  have := h gs code gs' i a b mem hg hat hr hsz hnl hci
  unfold OutE
  cases r with
  | undef w => trivial
  | exit cd s => exact this
  | ok v s =>
    cases v with
    | arr r => trivial
    | int w => obtain ⟨b', mem', h1, h2, _⟩ := this; exact ⟨b', mem', h1, h2⟩

theorem ExecX.toT {t : Bool} {K : PCtx} {e' : AExpr} {σ σ' : X.St} {w : Word} (h : ExecX t K e' σ (.ok (.int w) σ')) :
    ExecT t K e' w σ σ' := h

theorem ExecT.toX {t : Bool} {K : PCtx} {e' : AExpr} {σ σ' : X.St} {w : Word} (h : ExecT t K e' w σ σ') :
    ExecX t K e' σ (.ok (.int w) σ') := h

theorem ExecX.toExits {t : Bool} {K : PCtx} {e' : AExpr} {σ σ' : X.St} {cd : Word} (h : ExecX t K e' σ (.exit cd σ')) :
    ExitsM K (genExpr K.ctx e' .A) σ cd σ' := h

theorem ExitsM.toX {t : Bool} {K : PCtx} {e' : AExpr} {σ σ' : X.St} {cd : Word}
    (h : ExitsM K (genExpr K.ctx e' .A) σ cd σ') : ExecX t K e' σ (.exit cd σ') := h

theorem ExitsM.same_left {K : PCtx} {gen : M Code} {cd : Word} {σ0 σ σ' : X.St} (h : ExitsM K gen σ cd σ')
    (hs : SameVars σ0 σ) : ExitsM K gen σ0 cd σ' := by
  intro gs code gs' i a b mem hg hat hr hsz hnl hci
  obtain ⟨c, st, he⟩ := h gs code gs' i a b mem hg hat (hr.same hs) hsz hnl hci
  exact ⟨c, by rw [← hs.2.2.2.1]; exact st, he⟩

/-! ### Termination inside the operand that is evaluated first -/

/-- The operands of a diadic operator: the program terminates inside the one evaluated first. -/
theorem exits_operands (K : PCtx) (L R : AExpr) (σ : X.St) (cd : Word) (σ' : X.St)
    (hA : needsAReg R = true → ExitsM K (genExpr K.ctx R .A) σ cd σ')
    (hB : needsAReg R = false → ExitsM K (genExpr K.ctx L .A) σ cd σ') :
    ExitsM K (genOperands K.ctx L R) σ cd σ' := by
  intro gs code gs' i a b mem hg hat hr hsz hnl hci
  unfold genOperands at hg
  obtain ⟨h1, h2⟩ := binopOperands_inv _ _ _ _ _ _ _ _ hg
  cases hn : needsAReg R with
  | true =>
    obtain ⟨cr, gs1, cl, gs2, g1, g2, hcode, hgs'⟩ := h1 hn
    obtain ⟨_, e2s, _, e2c⟩ := genExpr_eff _ _ _ _ _ _ g2
    simp only at e2s e2c
    subst hgs'; subst hcode
    simp only at hsz hci
    simp only [low_append, List.append_assoc] at hat
    exact hA hn gs cr gs1 i a b mem g1 hat.left hr (by omega) hnl (fun x hx => hci x (e2c x hx))
  | false =>
    obtain ⟨cl, gs1, cr, g1, g2, hcode⟩ := h2 hn
    obtain ⟨_, e2s, _, e2c⟩ := genExpr_eff _ _ _ _ _ _ g2
    subst hcode
    simp only [low_append] at hat
    exact hB hn gs cl gs1 i a b mem g1 hat.left hr (by omega) hnl (fun x hx => hci x (e2c x hx))

theorem exits_plus (K : PCtx) (L R : AExpr) (σ : X.St) (cd : Word) (σ' : X.St)
    (h : ExitsM K (genOperands K.ctx L R) σ cd σ') : ExitsM K (genExpr K.ctx (.bin .plus L R none) .A) σ cd σ' := by
  intro gs code gs' i a b mem hg hat hr hsz hnl hci
  obtain ⟨c, h1, hcode⟩ := genExpr_plus_inv _ _ _ _ _ _ _ hg
  subst hcode
  simp only [low_append] at hat
  exact h gs c gs' i a b mem h1 hat.left hr hsz hnl hci

theorem exits_minus (K : PCtx) (L R : AExpr) (σ : X.St) (cd : Word) (σ' : X.St)
    (h : ExitsM K (genOperands K.ctx L R) σ cd σ') : ExitsM K (genExpr K.ctx (.bin .minus L R none) .A) σ cd σ' := by
  intro gs code gs' i a b mem hg hat hr hsz hnl hci
  obtain ⟨c, h1, hcode⟩ := genExpr_minus_inv _ _ _ _ _ _ _ hg
  subst hcode
  simp only [low_append] at hat
  exact h gs c gs' i a b mem h1 hat.left hr hsz hnl hci

theorem exits_eqOperand (K : PCtx) (lz rz : Bool) (genL genR genOps : M Code) (σ : X.St) (cd : Word) (σ' : X.St)
    (hR : lz = true → ExitsM K genR σ cd σ') (hL : lz = false → rz = true → ExitsM K genL σ cd σ')
    (hO : lz = false → rz = false → ExitsM K genOps σ cd σ') :
    ExitsM K (eqOperand lz rz genL genR genOps) σ cd σ' := by
  intro gs code gs' i a b mem hg hat hr hsz hnl hci
  rcases eqOperand_inv _ _ _ _ _ _ _ _ hg with ⟨h0, h1⟩ | ⟨h0, h0', h1⟩ | ⟨h0, h0', c', h1, hcode⟩
  · exact hR h0 gs code gs' i a b mem h1 hat hr hsz hnl hci
  · exact hL h0 h0' gs code gs' i a b mem h1 hat hr hsz hnl hci
  · subst hcode
    simp only [low_append] at hat
    exact hO h0 h0' gs c' gs' i a b mem h1 hat.left hr hsz hnl hci

theorem exits_eq (K : PCtx) (L R : AExpr) (σ : X.St) (cd : Word) (σ' : X.St)
    (h : ExitsM K (eqOperand L.isConstZero R.isConstZero (genExpr K.ctx L .A) (genExpr K.ctx R .A) (genOperands K.ctx L R)) σ cd σ') :
    ExitsM K (genExpr K.ctx (.bin .eq L R none) .A) σ cd σ' := by
  intro gs code gs' i a b mem hg hat hr hsz hnl hci
  obtain ⟨c, gs1, h1, hgs', hcode⟩ := genExpr_eq_inv _ _ _ _ _ _ _ hg
  subst hgs'; subst hcode
  simp only [low_append] at hat
  exact h gs c gs1 i a b mem h1 hat.left hr hsz hnl (fun x hx => hci x hx)

theorem exits_ls (K : PCtx) (L R : AExpr) (σ : X.St) (cd : Word) (σ' : X.St)
    (h : ExitsM K (eqOperand false R.isConstZero (genExpr K.ctx L .A) (genExpr K.ctx R .A) (genOperands K.ctx L R)) σ cd σ') :
    ExitsM K (genExpr K.ctx (.bin .ls L R none) .A) σ cd σ' := by
  intro gs code gs' i a b mem hg hat hr hsz hnl hci
  obtain ⟨c, gs1, h1, hgs', hcode⟩ := genExpr_ls_inv _ _ _ _ _ _ _ hg
  subst hgs'; subst hcode
  simp only [low_append] at hat
  exact h gs c gs1 i a b mem h1 hat.left hr hsz hnl (fun x hx => hci x hx)

theorem exits_not (K : PCtx) (E : AExpr) (σ : X.St) (cd : Word) (σ' : X.St)
    (h : ExitsM K (genExpr K.ctx E .A) σ cd σ') : ExitsM K (genExpr K.ctx (.un .not E none) .A) σ cd σ' := by
  intro gs code gs' i a b mem hg hat hr hsz hnl hci
  obtain ⟨ce, h1, hcode⟩ := genExpr_not_inv _ _ _ _ _ _ hg
  subst hcode
  simp only [low_append] at hat
  exact h _ ce gs' i a b mem h1 hat.left hr hsz hnl hci

/-- The relational and arithmetic operators after `OptimiseExpr`'s rewriting: termination inside
    the operand that is evaluated first, whichever way round the operands end up. -/
theorem exits_arith (K : PCtx) (op : BinOp) (L R : AExpr) (σ : X.St) (cd : Word) (σ' : X.St)
    (hLR : ExitsM K (genOperands K.ctx L R) σ cd σ') (hRL : ExitsM K (genOperands K.ctx R L) σ cd σ')
    (hLo : R.isConstZero = true → ExitsM K (genExpr K.ctx L .A) σ cd σ')
    (hRo : L.isConstZero = true → ExitsM K (genExpr K.ctx R .A) σ cd σ')
    (hop : isArith op = true) :
    ExitsM K (genExpr K.ctx (rewriteBin op L R none) .A) σ cd σ' := by
  have hEq : ExitsM K (genExpr K.ctx (.bin .eq L R none) .A) σ cd σ' :=
    exits_eq K L R σ cd σ' (exits_eqOperand K _ _ _ _ _ σ cd σ' hRo (fun _ h => hLo h) (fun _ _ => hLR))
  have hLs : ExitsM K (genExpr K.ctx (.bin .ls L R none) .A) σ cd σ' :=
    exits_ls K L R σ cd σ' (exits_eqOperand K _ _ _ _ _ σ cd σ' (by simp) (fun _ h => hLo h) (fun _ _ => hLR))
  have hLs' : ExitsM K (genExpr K.ctx (.bin .ls R L none) .A) σ cd σ' :=
    exits_ls K R L σ cd σ' (exits_eqOperand K _ _ _ _ _ σ cd σ' (by simp) (fun _ h => hRo h) (fun _ _ => hRL))
  cases op <;> simp only [isArith, Bool.false_eq_true] at hop <;> simp only [rewriteBin]
  · exact exits_plus K L R σ cd σ' hLR
  · exact exits_minus K L R σ cd σ' hLR
  · exact hEq
  · exact exits_not K _ σ cd σ' hEq
  · exact hLs
  · exact exits_not K _ σ cd σ' hLs'
  · exact hLs'
  · exact exits_not K _ σ cd σ' hLs

/-! ### Termination during the evaluation of an operator expression -/

theorem asInt_exit (what : String) (r : Res Val) (c : Word) (s : X.St) (h : asInt what r = .exit c s) : r = .exit c s := by
  unfold asInt Res.bind at h
  cases r with
  | ok v s1 => cases v <;> simp at h
  | exit c1 s1 => simpa using h
  | undef w => simp at h

theorem asBool_exit (what : String) (r : Res Val) (c : Word) (s : X.St) (h : asBool what r = .exit c s) : r = .exit c s := by
  unfold asBool Res.bind at h
  cases ha : asInt what r with
  | ok w s1 => rw [ha] at h; simp only at h; split at h <;> simp at h
  | exit c1 s1 => rw [ha] at h; simp only [Res.exit.injEq] at h; rw [← h.1, ← h.2]; exact asInt_exit _ _ _ _ ha
  | undef w => rw [ha] at h; simp at h

theorem eval_neg_exit (fuel : Nat) (xc : X.Ctx) (a : X.Expr) (σ : X.St) (cd : Word) (σ' : X.St)
    (h : X.eval (fuel + 1) xc (.un .neg a) σ = .exit cd σ') :
    ∃ st, X.tick xc σ = some st ∧ X.eval fuel xc a st = .exit cd σ' := by
  unfold X.eval at h
  cases ht : X.tick xc σ with
  | none => rw [ht] at h; simp at h
  | some st =>
    rw [ht] at h
    simp only at h
    refine ⟨st, rfl, ?_⟩
    unfold Res.bind at h
    cases ha : asInt "operand of -" (X.eval fuel xc a st) with
    | ok w s1 => rw [ha] at h; simp only at h; unfold liftE at h; split at h <;> simp at h
    | exit c1 s1 => rw [ha] at h; simp only [Res.exit.injEq] at h; rw [← h.1, ← h.2]; exact asInt_exit _ _ _ _ ha
    | undef w => rw [ha] at h; simp at h

theorem eval_not_exit (fuel : Nat) (xc : X.Ctx) (a : X.Expr) (σ : X.St) (cd : Word) (σ' : X.St)
    (h : X.eval (fuel + 1) xc (.un .not a) σ = .exit cd σ') :
    ∃ st, X.tick xc σ = some st ∧ X.eval fuel xc a st = .exit cd σ' := by
  unfold X.eval at h
  cases ht : X.tick xc σ with
  | none => rw [ht] at h; simp at h
  | some st =>
    rw [ht] at h
    simp only at h
    refine ⟨st, rfl, ?_⟩
    unfold Res.bind at h
    cases ha : asBool "operand of ~" (X.eval fuel xc a st) with
    | ok w s1 => rw [ha] at h; simp at h
    | exit c1 s1 => rw [ha] at h; simp only [Res.exit.injEq] at h; rw [← h.1, ← h.2]; exact asBool_exit _ _ _ _ ha
    | undef w => rw [ha] at h; simp at h

theorem eval_arith_exit (fuel : Nat) (xc : X.Ctx) (op : BinOp) (l r : X.Expr) (σ : X.St) (cd : Word) (σ' : X.St)
    (hop : isArith op = true) (h : X.eval (fuel + 1) xc (.bin op l r) σ = .exit cd σ') :
    ∃ st, X.tick xc σ = some st ∧
      (X.eval fuel xc l st = .exit cd σ' ∨
       ∃ a s1, X.eval fuel xc l st = .ok (.int a) s1 ∧ X.eval fuel xc r s1 = .exit cd σ') := by
  unfold X.eval at h
  cases ht : X.tick xc σ with
  | none => rw [ht] at h; simp at h
  | some st =>
    rw [ht] at h
    refine ⟨st, rfl, ?_⟩
    cases op <;> simp only [isArith, Bool.false_eq_true] at hop <;> simp only at h <;>
    ( split at h
      · simp at h
      · unfold Res.bind at h
        cases hl : asInt "operand" (X.eval fuel xc l st) with
        | ok a s =>
          rw [hl] at h; simp only at h
          cases hr : asInt "operand" (X.eval fuel xc r s) with
          | ok b s2 => rw [hr] at h; simp only at h; unfold liftE at h; split at h <;> simp at h
          | exit c s2 =>
            rw [hr] at h; simp only [Res.exit.injEq] at h
            rw [← h.1, ← h.2]
            exact Or.inr ⟨a, s, asInt_ok _ _ _ _ hl, asInt_exit _ _ _ _ hr⟩
          | undef w => rw [hr] at h; simp at h
        | exit c s =>
          rw [hl] at h; simp only [Res.exit.injEq] at h
          rw [← h.1, ← h.2]
          exact Or.inl (asInt_exit _ _ _ _ hl)
        | undef w => rw [hl] at h; simp at h )

/-! ### A constant operand: its code does not look at the state -/

/-- Everything the operator shapes need of a constant operand, relative to ANY source state. -/
theorem constL_opnd (K : PCtx) (wf : K.WF) (e : X.Expr) (hc : isConstL K.ρ e = true) (fuel : Nat) (σ0 σ1 : X.St) (v : Val)
    (hv : ValsOk K.ρ K.xc σ0) (hev : X.eval fuel K.xc e σ0 = .ok v σ1) :
    ∃ w, v = .int w ∧ SameVars σ0 σ1 ∧ needsAReg (optExpr (annotate K.ρ e)) = false ∧
      (∀ σ, ExecAt true K (optExpr (annotate K.ρ e)) w σ) ∧ (∀ σ, ExecB K (optExpr (annotate K.ρ e)) w σ) ∧
      ((optExpr (annotate K.ρ e)).isConstZero = true → w = 0) := by
  have hp := constL_pure K.ρ e hc
  obtain ⟨⟨c, hcc⟩, hopt⟩ := constL_const K.ρ e hc
  obtain ⟨w, hw, _⟩ := execA_constL K wf e hc fuel σ0 σ1 v hv hev σ0
  subst hw
  have hcw := annot_sound K.ρ K.xc fuel e σ0 w σ1 c hp hv hev hcc
  subst hcw
  refine ⟨w, rfl, eval_pure K.xc _ _ _ _ _ hp hev, ?_, ?_, ?_, ?_⟩
  · rw [hopt]
    cases e <;> simp [isConstL] at hc <;> simp [annotate, needsAReg, AExpr.isConst, AExpr.const] at hcc ⊢
  · intro σ
    obtain ⟨w', hw', hA⟩ := execA_constL K wf e hc fuel σ0 σ1 (.int w) hv hev σ
    simp only [Val.int.injEq] at hw'
    rw [hw']; exact hA
  · intro σ gs code gs' i a b mem io hg hat hr hci
    rw [hopt, genExpr_annot_const _ _ _ _ _ hcc] at hg
    exact exec_genConst K wf .B w gs gs' code σ i a b mem io hg hat hr hci
  · intro hz
    rw [hopt] at hz
    unfold AExpr.isConstZero at hz
    have : (annotate K.ρ e).const = some 0 := by simpa using hz
    rw [hcc] at this
    exact (Option.some.inj this)

/-! ### The class -/

theorem ip_const_none (ρ : String → Option Word) (callOk : X.Expr → Bool) :
    (e : X.Expr) → ipE ρ callOk e = true → (annotate ρ e).const = none
  | .un _ x, h => by
    simp only [ipE] at h
    simp only [annotate, AExpr.const_un, ip_const_none ρ callOk x h, Option.map_none]
  | .bin _ l r, h => by
    simp only [ipE, Bool.and_eq_true, Bool.or_eq_true] at h
    simp only [annotate, AExpr.const_bin]
    rcases h.2 with ⟨_, hr⟩ | ⟨hl, _⟩
    · rw [ip_const_none ρ callOk r hr]; cases (annotate ρ l).const <;> rfl
    · rw [ip_const_none ρ callOk l hl]
  | .call _ _, _ => by simp [annotate]
  | .num _, h => by simp [ipE] at h
  | .bool _, h => by simp [ipE] at h
  | .name _, h => by simp [ipE] at h
  | .str _, h => by simp [ipE] at h
  | .sub _ _, h => by simp [ipE] at h
  | .syscall _ _, h => by simp [ipE] at h

/-- The optimised tree of an expression of the class needs areg and is not a constant. -/
theorem ip_opt_facts (ρ : String → Option Word) (callOk : X.Expr → Bool) (e : X.Expr) (h : ipE ρ callOk e = true) :
    needsAReg (optExpr (annotate ρ e)) = true ∧ (optExpr (annotate ρ e)).isConstZero = false := by
  have hcn := ip_const_none ρ callOk e h
  cases e with
  | un op x =>
    simp only [annotate, AExpr.const_un] at hcn ⊢
    rw [optExpr_un, hcn]
    cases op <;> simp [needsAReg, AExpr.isConst, AExpr.isConstZero]
  | bin op l r =>
    simp only [annotate, AExpr.const_bin] at hcn ⊢
    rw [optExpr_bin, hcn]
    cases op <;> simp [rewriteBin, needsAReg, AExpr.isConst, AExpr.isConstZero]
  | call g args =>
    rw [annot_call]
    simp [needsAReg, AExpr.isConst, AExpr.isConstZero]
  | num _ => simp [ipE] at h
  | bool _ => simp [ipE] at h
  | name _ => simp [ipE] at h
  | str _ => simp [ipE] at h
  | sub _ _ => simp [ipE] at h
  | syscall _ _ => simp [ipE] at h

theorem ip_containsCall (ρ : String → Option Word) (callOk : X.Expr → Bool) :
    (e : X.Expr) → ipE ρ callOk e = true → containsCall (optExpr (annotate ρ e)) = true
  | .call g args, _ => by rw [annot_call]; rfl
  | .un op x, h => by
    simp only [ipE] at h
    have hcn := ip_const_none ρ callOk x h
    have ih := ip_containsCall ρ callOk x h
    simp only [annotate, hcn, Option.map_none]
    rw [optExpr_un]
    cases op <;> simp [containsCall, ih]
  | .bin op l r, h => by
    have hcn := ip_const_none ρ callOk (.bin op l r) h
    simp only [ipE, Bool.and_eq_true, Bool.or_eq_true] at h
    simp only [annotate, AExpr.const_bin] at hcn ⊢
    rw [optExpr_bin, hcn]
    simp only [Option.isSome_none, Bool.false_eq_true, if_false]
    rw [containsCall_rewriteBin]
    rcases h.2 with ⟨_, hr⟩ | ⟨hl, _⟩
    · rw [ip_containsCall ρ callOk r hr]; simp
    · rw [ip_containsCall ρ callOk l hl]; simp
  | .num _, h => by simp [ipE] at h
  | .bool _, h => by simp [ipE] at h
  | .name _, h => by simp [ipE] at h
  | .str _, h => by simp [ipE] at h
  | .sub _ _, h => by simp [ipE] at h
  | .syscall _ _, h => by simp [ipE] at h

theorem ExecX.undef {t : Bool} {K : PCtx} {e' : AExpr} {σ : X.St} (w : String) : ExecX t K e' σ (.undef w) :=
  fun _ _ _ _ _ _ _ _ _ _ _ _ _ => trivial

theorem ExecX.arr {t : Bool} {K : PCtx} {e' : AExpr} {σ : X.St} (r : ArrRef) (s : X.St) : ExecX t K e' σ (.ok (.arr r) s) :=
  fun _ _ _ _ _ _ _ _ _ _ _ _ _ => trivial

theorem constL_needsA (ρ : String → Option Word) (e : X.Expr) (hc : isConstL ρ e = true) :
    needsAReg (optExpr (annotate ρ e)) = false := by
  obtain ⟨⟨c, hcc⟩, hopt⟩ := constL_const ρ e hc
  rw [hopt]
  cases e <;> simp [isConstL] at hc <;> simp [annotate, needsAReg, AExpr.isConst, AExpr.const] at hcc ⊢

theorem eval_zero_undef (xc : X.Ctx) (e : X.Expr) (σ : X.St) : ∃ w, X.eval 0 xc e σ = .undef w := by
  unfold X.eval; exact ⟨_, rfl⟩

/-! ### The main theorem -/

section
variable {G : GCtx} (ok : G.OK) {pi : PInfo} (hpi : pi ∈ G.procs) (sp dep : Nat) (hi : Nat → Word)
    (hlo : G.lo ≤ sp) (hspv : sp + G.S pi + pi.po + pi.p.formals.length ≤ G.spv + 1)
    (hstack : G.spv ≤ sp + dep * G.smax) (F : Nat) (hcs : ∀ k, k < F → CallSpec G k)
include ok hpi hlo hspv hstack hcs

/-- **Expressions with one call of any callee**: whatever the evaluation gives - a value (in a new
    state), termination, or nothing - the code does the same. -/
theorem expr_ip_correct : (e : X.Expr) → (fuel : Nat) → fuel ≤ F → (σ : X.St) →
    ipE G.rho (callE5 G.pk G.pnames G.xc.impure G.rho) e = true →
    ExecX false (KOf G pi sp dep hi) (optExpr (annotate G.rho e)) σ (X.eval fuel G.xc e σ)
  | .call g args, fuel, hF, σ, h => by
    simp only [ipE] at h
    obtain ⟨g', args', he, hg, hargs⟩ := callE5_inv _ _ _ _ _ h
    cases he
    intro gs code gs' i a b mem hgen hat hr hsz hnl hci
    have := exec_callExprF ok fuel (fun k hk => hcs k (by omega)) hpi sp dep hi hlo hspv hstack g args hg
      (fun f hf => argsOK_5 ok hpi sp dep hi hlo hspv hstack F hcs args hargs f (by omega)) σ gs code gs' i a b mem
      hgen hat hr hsz hnl hci
    cases hev : X.eval fuel G.xc (.call g args) σ with
    | undef w => trivial
    | exit cd s => rw [hev] at this; exact this
    | ok v s =>
      rw [hev] at this
      cases v with
      | arr r => trivial
      | int w => exact this
  | .un op x, fuel, hF, σ, h => by
    simp only [ipE] at h
    cases fuel with
    | zero => obtain ⟨w, hw⟩ := eval_zero_undef G.xc (.un op x) σ; rw [hw]; exact ExecX.undef w
    | succ f =>
      have ih := expr_ip_correct x f (by omega)
      have hcn := ip_const_none _ _ x h
      obtain ⟨hnA, hnz⟩ := ip_opt_facts _ _ x h
      have wf := (ok.wfs pi hpi sp dep hi hlo hspv).toWF
      cases op with
      | neg =>
        have htree : optExpr (annotate G.rho (.un .neg x)) = .bin .minus (.num 0 none) (optExpr (annotate G.rho x)) none := by
          simp only [annotate, hcn, Option.map_none]; rw [optExpr_un]; simp
        rw [htree]
        cases hev : X.eval (f + 1) G.xc (.un .neg x) σ with
        | undef w => exact ExecX.undef w
        | exit cd s =>
          obtain ⟨st, ht, hx⟩ := eval_neg_exit _ _ _ _ _ _ hev
          have hX := ih st h
          rw [hx] at hX
          have hXe := hX.toExits.same_left (tick_same _ _ _ ht)
          exact (exits_minus _ _ _ _ _ _ (exits_operands _ _ _ _ _ _ (fun _ => hXe)
            (fun hn => by rw [hnA] at hn; simp at hn))).toX
        | ok v s =>
          obtain ⟨st, w, ht, hx, hv⟩ := eval_neg _ _ _ _ _ _ hev
          subst hv
          have hX := ih st h
          rw [hx] at hX
          have hXT := hX.toT.same_left (tick_same _ _ _ ht)
          exact (shape_minusT _ wf _ _ 0 w σ s
            ⟨fun _ => ⟨s, hXT, execA_zero _ wf s⟩, fun hn => by rw [hnA] at hn; simp at hn⟩).toX
      | not =>
        have htree : optExpr (annotate G.rho (.un .not x)) = .un .not (optExpr (annotate G.rho x)) none := by
          simp only [annotate, hcn, Option.map_none]; rw [optExpr_un]; simp
        rw [htree]
        cases hev : X.eval (f + 1) G.xc (.un .not x) σ with
        | undef w => exact ExecX.undef w
        | exit cd s =>
          obtain ⟨st, ht, hx⟩ := eval_not_exit _ _ _ _ _ _ hev
          have hX := ih st h
          rw [hx] at hX
          exact (exits_not _ _ _ _ _ (hX.toExits.same_left (tick_same _ _ _ ht))).toX
        | ok v s =>
          obtain ⟨st, w, ht, hx, _, hv⟩ := eval_not _ _ _ _ _ _ hev
          have hX := ih st h
          rw [hx] at hX
          have hXT := hX.toT.same_left (tick_same _ _ _ ht)
          have := shape_notT _ wf _ w σ s hXT
          have hval : rtIsZero w = X.b2w (w == 0) := by
            unfold rtIsZero X.b2w
            by_cases hz : w = 0 <;> simp [hz]
          rw [hval] at this
          rw [hv]
          exact this.toX
  | .bin op l r, fuel, hF, σ, h => by
    simp only [ipE, Bool.and_eq_true, Bool.or_eq_true] at h
    obtain ⟨hop, hcase⟩ := h
    cases fuel with
    | zero => obtain ⟨w, hw⟩ := eval_zero_undef G.xc (.bin op l r) σ; rw [hw]; exact ExecX.undef w
    | succ f =>
      have wf := (ok.wfs pi hpi sp dep hi hlo hspv).toWF
      have htree : optExpr (annotate G.rho (.bin op l r))
          = rewriteBin op (optExpr (annotate G.rho l)) (optExpr (annotate G.rho r)) none := by
        have hcn := ip_const_none G.rho (callE5 G.pk G.pnames G.xc.impure G.rho) (.bin op l r)
          (by simp only [ipE, Bool.and_eq_true, Bool.or_eq_true]; exact ⟨hop, hcase⟩)
        simp only [annotate, AExpr.const_bin] at hcn ⊢
        rw [optExpr_bin, hcn]
        simp
      rw [htree]
      intro gs code gs' i a b mem hgen hat hr hsz hnl hci
      have hVO : ∀ s, FrameEq σ s → ValsOk G.rho G.xc s := fun s hf => ValsOk.frame hr.vals hf
      suffices hX : ExecX false (KOf G pi sp dep hi)
          (rewriteBin op (optExpr (annotate G.rho l)) (optExpr (annotate G.rho r)) none) σ
          (X.eval (f + 1) G.xc (.bin op l r) σ) from hX gs code gs' i a b mem hgen hat hr hsz hnl hci
      rcases hcase with ⟨hcl, hir⟩ | ⟨hil, hcr⟩
      · -- the left operand is a constant, the right one has the call
        obtain ⟨hnA, hnz⟩ := ip_opt_facts _ _ r hir
        have hnL := constL_needsA G.rho l hcl
        have hpl := constL_pure G.rho l hcl
        cases hev : X.eval (f + 1) G.xc (.bin op l r) σ with
        | undef w => exact ExecX.undef w
        | exit cd s =>
          obtain ⟨st, ht, hx⟩ := eval_arith_exit _ _ _ _ _ _ _ _ hop hev
          rcases hx with hx | ⟨a0, s1, hl, hx⟩
          · exact absurd hx (eval_pure_no_exit G.xc f l st cd s hpl)
          · have hsσ := (tick_same _ _ _ ht).trans (eval_pure G.xc _ _ _ _ _ hpl hl)
            have hR := expr_ip_correct r f (by omega) s1 hir
            rw [hx] at hR
            have hRe := hR.toExits.same_left hsσ
            exact (exits_arith _ op _ _ σ cd s
              (exits_operands _ _ _ σ cd s (fun _ => hRe) (fun hn => by rw [hnA] at hn; simp at hn))
              (exits_operands _ _ _ σ cd s (fun hn => by rw [hnL] at hn; simp at hn) (fun _ => hRe))
              (fun hz => by rw [hnz] at hz; simp at hz) (fun _ => hRe) hop).toX
        | ok v s =>
          obtain ⟨st, a0, s1, b0, w, ht, hl, hrr, har, hv⟩ := eval_arith _ _ _ _ _ _ _ _ hop hev
          subst hv
          obtain ⟨a', ha', hs1, _, hLA, hLB, hLz⟩ := constL_opnd (KOf G pi sp dep hi) wf l hcl f st s1 _
            (hVO st (FrameEq.ofSame (tick_same _ _ _ ht))) hl
          simp only [Val.int.injEq] at ha'
          subst ha'
          have hsσ := (tick_same _ _ _ ht).trans hs1
          have hR := expr_ip_correct r f (by omega) s1 hir
          rw [hrr] at hR
          have hRT := hR.toT.same_left hsσ
          have := shape_arithT (KOf G pi sp dep hi) wf op _ _ a0 b0 σ s
            ⟨fun _ => ⟨s, hRT, (hLA s).weaken⟩, fun hn => by rw [hnA] at hn; simp at hn⟩
            ⟨fun hn => by have := hnL.symm.trans hn; simp at this, fun _ => ⟨hRT, hLB s⟩⟩
            (fun _ => hRT) (fun hz => by rw [hnz] at hz; simp at hz)
            (fun hz _ _ => hLz hz) (fun hz => by rw [hnz] at hz; simp at hz) hop
          rw [arith_rt op a0 b0 w hop har] at this
          exact this.toX
      · -- the left operand has the call, the right one is a constant
        obtain ⟨hnA, hnz⟩ := ip_opt_facts _ _ l hil
        have hnR := constL_needsA G.rho r hcr
        have hpr := constL_pure G.rho r hcr
        cases hev : X.eval (f + 1) G.xc (.bin op l r) σ with
        | undef w => exact ExecX.undef w
        | exit cd s =>
          obtain ⟨st, ht, hx⟩ := eval_arith_exit _ _ _ _ _ _ _ _ hop hev
          rcases hx with hx | ⟨a0, s1, hl, hx⟩
          · have hL := expr_ip_correct l f (by omega) st hil
            rw [hx] at hL
            have hLe := hL.toExits.same_left (tick_same _ _ _ ht)
            exact (exits_arith _ op _ _ σ cd s
              (exits_operands _ _ _ σ cd s (fun hn => by rw [hnR] at hn; simp at hn) (fun _ => hLe))
              (exits_operands _ _ _ σ cd s (fun _ => hLe) (fun hn => by rw [hnA] at hn; simp at hn))
              (fun _ => hLe) (fun hz => by rw [hnz] at hz; simp at hz) hop).toX
          · exact absurd hx (eval_pure_no_exit G.xc f r s1 cd s hpr)
        | ok v s =>
          obtain ⟨st, a0, s1, b0, w, ht, hl, hrr, har, hv⟩ := eval_arith _ _ _ _ _ _ _ _ hop hev
          subst hv
          have hf1 : FrameEq σ s1 := (FrameEq.ofSame (tick_same _ _ _ ht)).trans (eval_frame _ _ _ _ _ _ hl)
          obtain ⟨b', hb', hs2, _, hRA, hRB, hRz⟩ := constL_opnd (KOf G pi sp dep hi) wf r hcr f s1 s _ (hVO s1 hf1) hrr
          simp only [Val.int.injEq] at hb'
          subst hb'
          have hL := expr_ip_correct l f (by omega) st hil
          rw [hl] at hL
          have hLT := (hL.toT.same_left (tick_same _ _ _ ht)).same_right hs2
          have := shape_arithT (KOf G pi sp dep hi) wf op _ _ a0 b0 σ s
            ⟨fun hn => by have := hnR.symm.trans hn; simp at this, fun _ => ⟨hLT, hRB s⟩⟩
            ⟨fun _ => ⟨s, hLT, (hRA s).weaken⟩, fun hn => by rw [hnA] at hn; simp at hn⟩
            (fun hz => by rw [hnz] at hz; simp at hz) (fun _ => hLT)
            (fun hz => by rw [hnz] at hz; simp at hz) (fun hz _ _ => hRz hz) hop
          rw [arith_rt op a0 b0 w hop har] at this
          exact this.toX
  | .num _, _, _, _, h => by simp [ipE] at h
  | .bool _, _, _, _, h => by simp [ipE] at h
  | .name _, _, _, _, h => by simp [ipE] at h
  | .str _, _, _, _, h => by simp [ipE] at h
  | .sub _ _, _, _, _, h => by simp [ipE] at h
  | .syscall _ _, _, _, _, h => by simp [ipE] at h

/-- A condition with one call of any callee. -/
theorem condOK_ip (c : X.Expr) (hip : ipE G.rho (callE5 G.pk G.pnames G.xc.impure G.rho) c = true) :
    CondOK (KOf G pi sp dep hi) F c := by
  have hX := expr_ip_correct ok hpi sp dep hi hlo hspv hstack F hcs c F (Nat.le_refl _)
  have hcc := ip_containsCall G.rho _ c hip
  refine ⟨?_, ?_, ?_, ?_⟩
  · intro st mem w s _ hev
    have hev' : X.eval F G.xc c st = .ok (.int w) s := hev
    have := hX st hip
    rw [hev'] at this
    exact this.toT
  · intro st mem cd s _ hev
    have hev' : X.eval F G.xc c st = .exit cd s := hev
    have := hX st hip
    rw [hev'] at this
    exact this.toExits
  · intro hn
    have : containsCall (optExpr (annotate G.rho c)) = false := hn
    rw [hcc] at this; simp at this
  · intro hn
    have : containsCall (optExpr (annotate G.rho c)) = false := hn
    rw [hcc] at this; simp at this

theorem condOK_5 (c : X.Expr) (h : cond5 G.pk G.pnames G.xc.impure G.rho c = true) : CondOK (KOf G pi sp dep hi) F c := by
  simp only [cond5, Bool.or_eq_true, Bool.and_eq_true] at h
  rcases h with (hp | ⟨hpk, hpp⟩) | hip
  · exact condOK_pure _ (ok.wfs pi hpi sp dep hi hlo hspv).toWF F c hp
  · exact condOK_pp ok (ok.pure_ok hpk) hpi sp dep hi hlo hspv hstack F hcs c hpp
  · exact condOK_ip ok hpi sp dep hi hlo hspv hstack F hcs c hip

end

end Hex.C01s
