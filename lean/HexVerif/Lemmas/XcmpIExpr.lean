import HexVerif.Lemmas.XcmpStage4
import HexVerif.Lemmas.XcmpXFrame
/-!
  Expressions with ONE call whose callee may have any effect (class `ipE`): the call is an operand
  of monadic operators and of arithmetic / relational operators whose other operand is a constant
  (a literal or the name of a constant) - the only expressions with an impure call in an operand
  whose value X defines (`X.orderOk`).  The code evaluates the operand with the call first in every
  shape (the constant goes straight into breg, or is loaded after the call's value was parked), so
  the triple of the whole expression leads from the state before the call to the state after it
  (`ExecT`), or the program terminates inside the call (`ExitsM`).
-/
namespace Hex.C01s
open Hex Hex.X Hex.Xcmp Hex.IAm Hex.Asm

/-! ### Triples with an outcome -/

/-- What the machine does for an expression whose evaluation has the result `r` (with the frame
    condition of `ExecT` when there is a value). -/
def OutX (t : Bool) (K : PCtx) (gs gs' : GS) (i : Nat) (a b : Word) (mem : Mem) (io0 : Isa.IOSt) (len : Nat) :
    Res Val → Prop
  | .ok (.int w) σ' => ∃ b' mem', Steps K.env (cfg i a b mem) io0 (cfg (i + len) w b' mem') σ'.io ∧ Rep K σ' mem' ∧
      FrmC K gs.offset (hiB t K gs') mem mem'
  | .ok (.arr _) _ => True
  | .exit cd σ' => ∃ c, Steps K.env (cfg i a b mem) io0 c σ'.io ∧ Exit K.env c σ'.io cd
  | .undef _ => True

/-- The triple of expression code for any outcome of the evaluation, with the frame condition. -/
def ExecX (t : Bool) (K : PCtx) (e' : AExpr) (σ : X.St) (r : Res Val) : Prop :=
  ∀ (gs : GS) (code : Code) (gs' : GS) (i : Nat) (a b : Word) (mem : Mem),
    genExpr K.ctx e' .A gs = .ok (code, gs') → At K.env.ds i (K.low code) → Rep K σ mem →
    gs'.size ≤ K.S → K.nlocals ≤ gs.offset → ConstsIn K gs' →
    OutX t K gs gs' i a b mem σ.io (K.low code).length r

theorem ExecX.toE {t : Bool} {K : PCtx} {e' : AExpr} {σ : X.St} {r : Res Val} (h : ExecX t K e' σ r) : ExecE K e' σ r := by
  intro gs code gs' i a b mem hg hat hr hsz hnl hci
  have := h gs code gs' i a b mem hg hat hr hsz hnl hci
  unfold OutE
  cases r with
  | undef w => trivial
  | exit cd s => exact this
  | ok v s =>
    cases v with
    | arr r => trivial
    | int w => obtain ⟨b', mem', h1, h2, _⟩ := this; exact ⟨b', mem', h1, h2⟩

theorem ExecX.toT {t : Bool} {K : PCtx} {e' : AExpr} {σ σ' : X.St} {w : Word} (h : ExecX t K e' σ (.ok (.int w) σ')) :
    ExecT t K e' w σ σ' := h

theorem ExecT.toX {t : Bool} {K : PCtx} {e' : AExpr} {σ σ' : X.St} {w : Word} (h : ExecT t K e' w σ σ') :
    ExecX t K e' σ (.ok (.int w) σ') := h

theorem ExecX.toExits {t : Bool} {K : PCtx} {e' : AExpr} {σ σ' : X.St} {cd : Word} (h : ExecX t K e' σ (.exit cd σ')) :
    ExitsM K (genExpr K.ctx e' .A) σ cd σ' := h

theorem ExitsM.toX {t : Bool} {K : PCtx} {e' : AExpr} {σ σ' : X.St} {cd : Word}
    (h : ExitsM K (genExpr K.ctx e' .A) σ cd σ') : ExecX t K e' σ (.exit cd σ') := h

theorem ExitsM.same_left {K : PCtx} {gen : M Code} {cd : Word} {σ0 σ σ' : X.St} (h : ExitsM K gen σ cd σ')
    (hs : SameVars σ0 σ) : ExitsM K gen σ0 cd σ' := by
  intro gs code gs' i a b mem hg hat hr hsz hnl hci
  obtain ⟨c, st, he⟩ := h gs code gs' i a b mem hg hat (hr.same hs) hsz hnl hci
  exact ⟨c, by rw [← hs.2.2.2.1]; exact st, he⟩

/-! ### Termination inside the operand that is evaluated first -/

/-- The operands of a diadic operator: the program terminates inside the one evaluated first. -/
theorem exits_operands (K : PCtx) (L R : AExpr) (σ : X.St) (cd : Word) (σ' : X.St)
    (hA : needsAReg R = true → ExitsM K (genExpr K.ctx R .A) σ cd σ')
    (hB : needsAReg R = false → ExitsM K (genExpr K.ctx L .A) σ cd σ') :
    ExitsM K (genOperands K.ctx L R) σ cd σ' := by
  intro gs code gs' i a b mem hg hat hr hsz hnl hci
  unfold genOperands at hg
  obtain ⟨h1, h2⟩ := binopOperands_inv _ _ _ _ _ _ _ _ hg
  cases hn : needsAReg R with
  | true =>
    obtain ⟨cr, gs1, cl, gs2, g1, g2, hcode, hgs'⟩ := h1 hn
    obtain ⟨_, e2s, _, e2c⟩ := genExpr_eff _ _ _ _ _ _ g2
    simp only at e2s e2c
    subst hgs'; subst hcode
    simp only at hsz hci
    simp only [low_append, List.append_assoc] at hat
    exact hA hn gs cr gs1 i a b mem g1 hat.left hr (by omega) hnl (fun x hx => hci x (e2c x hx))
  | false =>
    obtain ⟨cl, gs1, cr, g1, g2, hcode⟩ := h2 hn
    obtain ⟨_, e2s, _, e2c⟩ := genExpr_eff _ _ _ _ _ _ g2
    subst hcode
    simp only [low_append] at hat
    exact hB hn gs cl gs1 i a b mem g1 hat.left hr (by omega) hnl (fun x hx => hci x (e2c x hx))

theorem exits_plus (K : PCtx) (L R : AExpr) (σ : X.St) (cd : Word) (σ' : X.St)
    (h : ExitsM K (genOperands K.ctx L R) σ cd σ') : ExitsM K (genExpr K.ctx (.bin .plus L R none) .A) σ cd σ' := by
  intro gs code gs' i a b mem hg hat hr hsz hnl hci
  obtain ⟨c, h1, hcode⟩ := genExpr_plus_inv _ _ _ _ _ _ _ hg
  subst hcode
  simp only [low_append] at hat
  exact h gs c gs' i a b mem h1 hat.left hr hsz hnl hci

theorem exits_minus (K : PCtx) (L R : AExpr) (σ : X.St) (cd : Word) (σ' : X.St)
    (h : ExitsM K (genOperands K.ctx L R) σ cd σ') : ExitsM K (genExpr K.ctx (.bin .minus L R none) .A) σ cd σ' := by
  intro gs code gs' i a b mem hg hat hr hsz hnl hci
  obtain ⟨c, h1, hcode⟩ := genExpr_minus_inv _ _ _ _ _ _ _ hg
  subst hcode
  simp only [low_append] at hat
  exact h gs c gs' i a b mem h1 hat.left hr hsz hnl hci

theorem exits_eqOperand (K : PCtx) (lz rz : Bool) (genL genR genOps : M Code) (σ : X.St) (cd : Word) (σ' : X.St)
    (hR : lz = true → ExitsM K genR σ cd σ') (hL : lz = false → rz = true → ExitsM K genL σ cd σ')
    (hO : lz = false → rz = false → ExitsM K genOps σ cd σ') :
    ExitsM K (eqOperand lz rz genL genR genOps) σ cd σ' := by
  intro gs code gs' i a b mem hg hat hr hsz hnl hci
  rcases eqOperand_inv _ _ _ _ _ _ _ _ hg with ⟨h0, h1⟩ | ⟨h0, h0', h1⟩ | ⟨h0, h0', c', h1, hcode⟩
  · exact hR h0 gs code gs' i a b mem h1 hat hr hsz hnl hci
  · exact hL h0 h0' gs code gs' i a b mem h1 hat hr hsz hnl hci
  · subst hcode
    simp only [low_append] at hat
    exact hO h0 h0' gs c' gs' i a b mem h1 hat.left hr hsz hnl hci

theorem exits_eq (K : PCtx) (L R : AExpr) (σ : X.St) (cd : Word) (σ' : X.St)
    (h : ExitsM K (eqOperand L.isConstZero R.isConstZero (genExpr K.ctx L .A) (genExpr K.ctx R .A) (genOperands K.ctx L R)) σ cd σ') :
    ExitsM K (genExpr K.ctx (.bin .eq L R none) .A) σ cd σ' := by
  intro gs code gs' i a b mem hg hat hr hsz hnl hci
  obtain ⟨c, gs1, h1, hgs', hcode⟩ := genExpr_eq_inv _ _ _ _ _ _ _ hg
  subst hgs'; subst hcode
  simp only [low_append] at hat
  exact h gs c gs1 i a b mem h1 hat.left hr hsz hnl (fun x hx => hci x hx)

theorem exits_ls (K : PCtx) (L R : AExpr) (σ : X.St) (cd : Word) (σ' : X.St)
    (h : ExitsM K (eqOperand false R.isConstZero (genExpr K.ctx L .A) (genExpr K.ctx R .A) (genOperands K.ctx L R)) σ cd σ') :
    ExitsM K (genExpr K.ctx (.bin .ls L R none) .A) σ cd σ' := by
  intro gs code gs' i a b mem hg hat hr hsz hnl hci
  obtain ⟨c, gs1, h1, hgs', hcode⟩ := genExpr_ls_inv _ _ _ _ _ _ _ hg
  subst hgs'; subst hcode
  simp only [low_append] at hat
  exact h gs c gs1 i a b mem h1 hat.left hr hsz hnl (fun x hx => hci x hx)

theorem exits_not (K : PCtx) (E : AExpr) (σ : X.St) (cd : Word) (σ' : X.St)
    (h : ExitsM K (genExpr K.ctx E .A) σ cd σ') : ExitsM K (genExpr K.ctx (.un .not E none) .A) σ cd σ' := by
  intro gs code gs' i a b mem hg hat hr hsz hnl hci
  obtain ⟨ce, h1, hcode⟩ := genExpr_not_inv _ _ _ _ _ _ hg
  subst hcode
  simp only [low_append] at hat
  exact h _ ce gs' i a b mem h1 hat.left hr hsz hnl hci

/-- The relational and arithmetic operators after `OptimiseExpr`'s rewriting: termination inside
    the operand that is evaluated first, whichever way round the operands end up. -/
theorem exits_arith (K : PCtx) (op : BinOp) (L R : AExpr) (σ : X.St) (cd : Word) (σ' : X.St)
    (hLR : ExitsM K (genOperands K.ctx L R) σ cd σ') (hRL : ExitsM K (genOperands K.ctx R L) σ cd σ')
    (hLo : R.isConstZero = true → ExitsM K (genExpr K.ctx L .A) σ cd σ')
    (hRo : L.isConstZero = true → ExitsM K (genExpr K.ctx R .A) σ cd σ')
    (hop : isArith op = true) :
    ExitsM K (genExpr K.ctx (rewriteBin op L R none) .A) σ cd σ' := by
  have hEq : ExitsM K (genExpr K.ctx (.bin .eq L R none) .A) σ cd σ' :=
    exits_eq K L R σ cd σ' (exits_eqOperand K _ _ _ _ _ σ cd σ' hRo (fun _ h => hLo h) (fun _ _ => hLR))
  have hLs : ExitsM K (genExpr K.ctx (.bin .ls L R none) .A) σ cd σ' :=
    exits_ls K L R σ cd σ' (exits_eqOperand K _ _ _ _ _ σ cd σ' (by simp) (fun _ h => hLo h) (fun _ _ => hLR))
  have hLs' : ExitsM K (genExpr K.ctx (.bin .ls R L none) .A) σ cd σ' :=
    exits_ls K R L σ cd σ' (exits_eqOperand K _ _ _ _ _ σ cd σ' (by simp) (fun _ h => hRo h) (fun _ _ => hRL))
  cases op <;> simp only [isArith, Bool.false_eq_true] at hop <;> simp only [rewriteBin]
  · exact exits_plus K L R σ cd σ' hLR
  · exact exits_minus K L R σ cd σ' hLR
  · exact hEq
  · exact exits_not K _ σ cd σ' hEq
  · exact hLs
  · exact exits_not K _ σ cd σ' hLs'
  · exact hLs'
  · exact exits_not K _ σ cd σ' hLs

/-! ### Termination during the evaluation of an operator expression -/

theorem asInt_exit (what : String) (r : Res Val) (c : Word) (s : X.St) (h : asInt what r = .exit c s) : r = .exit c s := by
  unfold asInt Res.bind at h
  cases r with
  | ok v s1 => cases v <;> simp at h
  | exit c1 s1 => simpa using h
  | undef w => simp at h

theorem asBool_exit (what : String) (r : Res Val) (c : Word) (s : X.St) (h : asBool what r = .exit c s) : r = .exit c s := by
  unfold asBool Res.bind at h
  cases ha : asInt what r with
  | ok w s1 => rw [ha] at h; simp only at h; split at h <;> simp at h
  | exit c1 s1 => rw [ha] at h; simp only [Res.exit.injEq] at h; rw [← h.1, ← h.2]; exact asInt_exit _ _ _ _ ha
  | undef w => rw [ha] at h; simp at h

theorem eval_neg_exit (fuel : Nat) (xc : X.Ctx) (a : X.Expr) (σ : X.St) (cd : Word) (σ' : X.St)
    (h : X.eval (fuel + 1) xc (.un .neg a) σ = .exit cd σ') :
    ∃ st, X.tick xc σ = some st ∧ X.eval fuel xc a st = .exit cd σ' := by
  unfold X.eval at h
  cases ht : X.tick xc σ with
  | none => rw [ht] at h; simp at h
  | some st =>
    rw [ht] at h
    simp only at h
    refine ⟨st, rfl, ?_⟩
    unfold Res.bind at h
    cases ha : asInt "operand of -" (X.eval fuel xc a st) with
    | ok w s1 => rw [ha] at h; simp only at h; unfold liftE at h; split at h <;> simp at h
    | exit c1 s1 => rw [ha] at h; simp only [Res.exit.injEq] at h; rw [← h.1, ← h.2]; exact asInt_exit _ _ _ _ ha
    | undef w => rw [ha] at h; simp at h

theorem eval_not_exit (fuel : Nat) (xc : X.Ctx) (a : X.Expr) (σ : X.St) (cd : Word) (σ' : X.St)
    (h : X.eval (fuel + 1) xc (.un .not a) σ = .exit cd σ') :
    ∃ st, X.tick xc σ = some st ∧ X.eval fuel xc a st = .exit cd σ' := by
  unfold X.eval at h
  cases ht : X.tick xc σ with
  | none => rw [ht] at h; simp at h
  | some st =>
    rw [ht] at h
    simp only at h
    refine ⟨st, rfl, ?_⟩
    unfold Res.bind at h
    cases ha : asBool "operand of ~" (X.eval fuel xc a st) with
    | ok w s1 => rw [ha] at h; simp at h
    | exit c1 s1 => rw [ha] at h; simp only [Res.exit.injEq] at h; rw [← h.1, ← h.2]; exact asBool_exit _ _ _ _ ha
    | undef w => rw [ha] at h; simp at h

theorem eval_arith_exit (fuel : Nat) (xc : X.Ctx) (op : BinOp) (l r : X.Expr) (σ : X.St) (cd : Word) (σ' : X.St)
    (hop : isArith op = true) (h : X.eval (fuel + 1) xc (.bin op l r) σ = .exit cd σ') :
    ∃ st, X.tick xc σ = some st ∧
      (X.eval fuel xc l st = .exit cd σ' ∨
       ∃ a s1, X.eval fuel xc l st = .ok (.int a) s1 ∧ X.eval fuel xc r s1 = .exit cd σ') := by
  unfold X.eval at h
  cases ht : X.tick xc σ with
  | none => rw [ht] at h; simp at h
  | some st =>
    rw [ht] at h
    refine ⟨st, rfl, ?_⟩
    cases op <;> simp only [isArith, Bool.false_eq_true] at hop <;> simp only at h <;>
    ( split at h
      · simp at h
      · unfold Res.bind at h
        cases hl : asInt "operand" (X.eval fuel xc l st) with
        | ok a s =>
          rw [hl] at h; simp only at h
          cases hr : asInt "operand" (X.eval fuel xc r s) with
          | ok b s2 => rw [hr] at h; simp only at h; unfold liftE at h; split at h <;> simp at h
          | exit c s2 =>
            rw [hr] at h; simp only [Res.exit.injEq] at h
            rw [← h.1, ← h.2]
            exact Or.inr ⟨a, s, asInt_ok _ _ _ _ hl, asInt_exit _ _ _ _ hr⟩
          | undef w => rw [hr] at h; simp at h
        | exit c s =>
          rw [hl] at h; simp only [Res.exit.injEq] at h
          rw [← h.1, ← h.2]
          exact Or.inl (asInt_exit _ _ _ _ hl)
        | undef w => rw [hl] at h; simp at h )

/-! ### A constant operand: its code does not look at the state -/

theorem needsA_of_const (t : AExpr) (c : CInt) (h : t.const = some c) : needsAReg t = false := by
  cases t <;> simp_all [needsAReg, AExpr.isConst]

/-- Everything the operator shapes need of a constant operand, relative to ANY source state. -/
theorem constL_opnd (K : PCtx) (wf : K.WF) (e : X.Expr) (hc : isConstL K.ρ e = true) (fuel : Nat) (σ0 σ1 : X.St) (v : Val)
    (hv : ValsOk K.ρ K.xc σ0) (hev : X.eval fuel K.xc e σ0 = .ok v σ1) :
    ∃ w, v = .int w ∧ SameVars σ0 σ1 ∧ needsAReg (optExpr (annotate K.ρ e)) = false ∧
      (∀ σ, ExecAt true K (optExpr (annotate K.ρ e)) w σ) ∧ (∀ σ, ExecB K (optExpr (annotate K.ρ e)) w σ) ∧
      ((optExpr (annotate K.ρ e)).isConstZero = true → w = 0) := by
  have hp := constL_pure K.ρ e hc
  obtain ⟨⟨c, hcc⟩, hopt⟩ := constL_const K.ρ e hc
  obtain ⟨w, hw, _⟩ := execA_constL K wf e hc fuel σ0 σ1 v hv hev σ0
  subst hw
  have hcw := annot_sound K.ρ K.xc fuel e σ0 w σ1 c hp hv hev hcc
  subst hcw
  refine ⟨w, rfl, eval_pure K.xc _ _ _ _ _ hp hev, ?_, ?_, ?_, ?_⟩
  · rw [hopt]
    exact needsA_of_const _ _ hcc
  · intro σ
    obtain ⟨w', hw', hA⟩ := execA_constL K wf e hc fuel σ0 σ1 (.int w) hv hev σ
    simp only [Val.int.injEq] at hw'
    rw [hw']; exact hA
  · intro σ gs code gs' i a b mem io hg hat hr hci
    rw [hopt, genExpr_annot_const _ _ _ _ _ hcc] at hg
    exact exec_genConst K wf .B w gs gs' code σ i a b mem io hg hat hr hci
  · intro hz
    rw [hopt] at hz
    unfold AExpr.isConstZero at hz
    have : (annotate K.ρ e).const = some 0 := by simpa using hz
    rw [hcc] at this
    exact (Option.some.inj this)

/-! ### System call 2 (input) as an expression -/

theorem execX_syscall2 (K : PCtx) (wf : K.WF) (nm : String) (args : List X.Expr) (hp : ∀ e ∈ args, pureE e = true)
    (fuel : Nat) (σ : X.St) :
    ExecX false K (.call 2 nm (optArgsOf K.ρ args)) σ (X.eval fuel K.xc (.syscall 2 args) σ) := by
  intro gs code gs' i a b mem hg hat hr hsz hnl hci
  obtain ⟨kind, hk, hseq⟩ := genExpr_call_inv _ _ _ _ _ _ _ _ hg
  obtain ⟨_, hk'⟩ := exprCallKind_inv _ _ _ _ _ _ hk
  rcases hk' with ⟨_, hkind⟩ | ⟨h1, _⟩
  rotate_left
  · exact absurd h1 (by decide)
  subst hkind
  cases fuel with
  | zero => unfold X.eval; trivial
  | succ f =>
    cases ht : X.tick K.xc σ with
    | none => unfold X.eval; rw [ht]; trivial
    | some st =>
      have hs := tick_same _ _ _ ht
      unfold X.eval
      rw [ht]
      simp only
      split
      · trivial
      · split
        · trivial
        · cases hev : X.evalArgs f K.xc args st with
          | undef w => simp only [Res.bind]; trivial
          | exit c s => exact absurd hev (evalArgs_pure_no_exit K.xc args f st c s hp)
          | ok vs s =>
            simp only [Res.bind]
            have hs2 := evalArgs_pure K.xc args f st s vs hp hev
            have hio : s.io = σ.io := by rw [hs2.2.2.2.1, hs.2.2.2.1]
            cases hd : X.doSyscall 2 vs s with
            | undef w => trivial
            | exit cd s' =>
              simp only
              obtain ⟨ws, hws⟩ := doSyscall_ints _ vs s (by rw [hd]; intro w h; simp at h)
              subst hws
              have := exec_syscall K wf 2 (by omega) args f st s ws hp hev gs code gs' i a b mem σ.io hio hseq hat
                (hr.same hs) hsz hnl hci
              have h2 : (BitVec.ofNat 32 2 : Word) = 2 := rfl
              rw [h2, hd] at this
              obtain ⟨c, st1, ex⟩ := this
              have hs' := doSyscall_exit_state _ _ _ _ _ hd
              refine ⟨c, ?_, ?_⟩
              · rw [hs', hio]; exact st1
              · rw [hs', hio]; exact ex
            | ok r s' =>
              simp only
              obtain ⟨ws, hws⟩ := doSyscall_ints _ vs s (by rw [hd]; intro w h; simp at h)
              subst hws
              have := exec_syscall K wf 2 (by omega) args f st s ws hp hev gs code gs' i a b mem σ.io hio hseq hat
                (hr.same hs) hsz hnl hci
              have h2 : (BitVec.ofNat 32 2 : Word) = 2 := rfl
              rw [h2, hd] at this
              obtain ⟨a', b', mem', st1, rep1, hres, frm⟩ := this
              cases r with
              | none => trivial
              | some w =>
                have := hres w rfl
                subst this
                refine ⟨b', mem', st1, ?_, frm⟩
                have hst := doSyscall_state _ _ _ _ _ hd
                rw [hst]
                exact (rep1.same hs2).setIo _

/-- A call through a constant whose value is 2 evaluates like `2(args)`. -/
theorem eval_valcall2 (K : PCtx) (g : String) (args : List X.Expr) (hρ : K.ρ g = some 2) (fuel : Nat) (σ : X.St) (mem : Mem)
    (hr : Rep K σ mem) : X.eval fuel K.xc (.call g args) σ = X.eval fuel K.xc (.syscall 2 args) σ := by
  cases fuel with
  | zero => unfold X.eval; rfl
  | succ f =>
    cases ht : X.tick K.xc σ with
    | none => unfold X.eval; rw [ht]
    | some st =>
      have hres := resolve_val K.xc st g 2 ((hr.same (tick_same _ _ _ ht)).vals g 2 hρ)
      conv => lhs; unfold X.eval
      conv => rhs; unfold X.eval
      rw [ht]
      simp only [hres]
      rfl

theorem execX_sys (K : PCtx) (wf : K.WF) (e : X.Expr) (h : sysE K.ρ e = true) (fuel : Nat) (σ : X.St) :
    ExecX false K (optExpr (annotate K.ρ e)) σ (X.eval fuel K.xc e σ) := by
  cases e with
  | syscall id args =>
    simp only [sysE, Bool.and_eq_true, decide_eq_true_eq, List.all_eq_true] at h
    obtain ⟨hid, hp⟩ := h
    subst hid
    have hopt : optExpr (annotate K.ρ (.syscall 2 args)) = .call 2 "" (optArgsOf K.ρ args) := by
      simp only [annotate, optExpr_call, annotateL_map, optArgs_map, sysId_small 2 (by omega)]
      rfl
    rw [hopt]
    exact execX_syscall2 K wf "" args hp fuel σ
  | call g args =>
    simp only [sysE, Bool.and_eq_true, decide_eq_true_eq, List.all_eq_true] at h
    obtain ⟨hρ, hp⟩ := h
    have hopt : optExpr (annotate K.ρ (.call g args)) = .call 2 g (optArgsOf K.ρ args) := by
      rw [annot_call]
      unfold sysOf
      rw [hρ]
      rfl
    rw [hopt]
    intro gs code gs' i a b mem hg hat hr hsz hnl hci
    rw [eval_valcall2 K g args hρ fuel σ mem hr]
    exact execX_syscall2 K wf g args hp fuel σ gs code gs' i a b mem hg hat hr hsz hnl hci
  | num _ => simp [sysE] at h
  | bool _ => simp [sysE] at h
  | name _ => simp [sysE] at h
  | str _ => simp [sysE] at h
  | sub _ _ => simp [sysE] at h
  | un _ _ => simp [sysE] at h
  | bin _ _ _ => simp [sysE] at h

/-! ### The class -/

theorem ip_const_none (ρ : String → Option Word) (callOk : X.Expr → Bool) :
    (e : X.Expr) → ipE ρ callOk e = true → (annotate ρ e).const = none
  | .un _ x, h => by
    simp only [ipE] at h
    simp only [annotate, AExpr.const_un, ip_const_none ρ callOk x h, Option.map_none]
  | .bin _ l r, h => by
    simp only [ipE, Bool.and_eq_true, Bool.or_eq_true] at h
    simp only [annotate, AExpr.const_bin]
    rcases h.2 with ⟨_, hr⟩ | ⟨hl, _⟩
    · rw [ip_const_none ρ callOk r hr]; cases (annotate ρ l).const <;> rfl
    · rw [ip_const_none ρ callOk l hl]
  | .call _ _, _ => by simp [annotate]
  | .syscall _ _, _ => by simp [annotate]
  | .num _, h => by simp [ipE] at h
  | .bool _, h => by simp [ipE] at h
  | .name _, h => by simp [ipE] at h
  | .str _, h => by simp [ipE] at h
  | .sub _ _, h => by simp [ipE] at h

/-- The optimised tree of an expression of the class needs areg and is not a constant. -/
theorem ip_opt_facts (ρ : String → Option Word) (callOk : X.Expr → Bool) (e : X.Expr) (h : ipE ρ callOk e = true) :
    needsAReg (optExpr (annotate ρ e)) = true ∧ (optExpr (annotate ρ e)).isConstZero = false := by
  have hcn := ip_const_none ρ callOk e h
  cases e with
  | un op x =>
    simp only [annotate, AExpr.const_un] at hcn ⊢
    rw [optExpr_un, hcn]
    cases op <;> simp [needsAReg, AExpr.isConst, AExpr.isConstZero]
  | bin op l r =>
    simp only [annotate, AExpr.const_bin] at hcn ⊢
    rw [optExpr_bin, hcn]
    cases op <;> simp [rewriteBin, needsAReg, AExpr.isConst, AExpr.isConstZero]
  | call g args =>
    rw [annot_call]
    simp [needsAReg, AExpr.isConst, AExpr.isConstZero]
  | syscall id args =>
    simp only [annotate, optExpr_call]
    simp [needsAReg, AExpr.isConst, AExpr.isConstZero]
  | num _ => simp [ipE] at h
  | bool _ => simp [ipE] at h
  | name _ => simp [ipE] at h
  | str _ => simp [ipE] at h
  | sub _ _ => simp [ipE] at h

theorem ip_containsCall (ρ : String → Option Word) (callOk : X.Expr → Bool) :
    (e : X.Expr) → ipE ρ callOk e = true → containsCall (optExpr (annotate ρ e)) = true
  | .call g args, _ => by rw [annot_call]; rfl
  | .syscall id args, _ => by simp only [annotate, optExpr_call]; rfl
  | .un op x, h => by
    simp only [ipE] at h
    have hcn := ip_const_none ρ callOk x h
    have ih := ip_containsCall ρ callOk x h
    simp only [annotate, hcn, Option.map_none]
    rw [optExpr_un]
    cases op <;> simp [containsCall, ih]
  | .bin op l r, h => by
    have hcn := ip_const_none ρ callOk (.bin op l r) h
    simp only [ipE, Bool.and_eq_true, Bool.or_eq_true] at h
    simp only [annotate, AExpr.const_bin] at hcn ⊢
    rw [optExpr_bin, hcn]
    simp only [Option.isSome_none, Bool.false_eq_true, if_false]
    rw [containsCall_rewriteBin]
    rcases h.2 with ⟨_, hr⟩ | ⟨hl, _⟩
    · rw [ip_containsCall ρ callOk r hr]; simp
    · rw [ip_containsCall ρ callOk l hl]; simp
  | .num _, h => by simp [ipE] at h
  | .bool _, h => by simp [ipE] at h
  | .name _, h => by simp [ipE] at h
  | .str _, h => by simp [ipE] at h
  | .sub _ _, h => by simp [ipE] at h

theorem ExecX.undef {t : Bool} {K : PCtx} {e' : AExpr} {σ : X.St} (w : String) : ExecX t K e' σ (.undef w) :=
  fun _ _ _ _ _ _ _ _ _ _ _ _ _ => trivial

theorem ExecX.arr {t : Bool} {K : PCtx} {e' : AExpr} {σ : X.St} (r : ArrRef) (s : X.St) : ExecX t K e' σ (.ok (.arr r) s) :=
  fun _ _ _ _ _ _ _ _ _ _ _ _ _ => trivial

theorem constL_needsA (ρ : String → Option Word) (e : X.Expr) (hc : isConstL ρ e = true) :
    needsAReg (optExpr (annotate ρ e)) = false := by
  obtain ⟨⟨c, hcc⟩, hopt⟩ := constL_const ρ e hc
  rw [hopt]
  exact needsA_of_const _ _ hcc

theorem eval_zero_undef (xc : X.Ctx) (e : X.Expr) (σ : X.St) : ∃ w, X.eval 0 xc e σ = .undef w := by
  unfold X.eval; exact ⟨_, rfl⟩

/-! ### One actual with a call, all the others constants -/

theorem genCallActuals_skip (ctx : Xcmp.Ctx) : ∀ (pre rest : List AExpr) (gs gs' : GS) (code : Code),
    (∀ x ∈ pre, containsCall x = false) → genCallActuals ctx (pre ++ rest) gs = .ok (code, gs') →
    genCallActuals ctx rest gs = .ok (code, gs') := by
  intro pre
  induction pre with
  | nil => intro rest gs gs' code _ h; simpa using h
  | cons x pre' ih =>
    intro rest gs gs' code hn h
    rcases genCallActuals_cons_inv _ _ _ _ _ _ h with ⟨hc, _⟩ | ⟨_, h2⟩
    · rw [hn x (by simp)] at hc; simp at hc
    · exact ih rest gs gs' code (fun y hy => hn y (by simp [hy])) h2

theorem countCalls_append (l1 l2 : List AExpr) : countCalls (l1 ++ l2) = countCalls l1 + countCalls l2 := by
  induction l1 with
  | nil => simp [countCalls]
  | cons a rest ih => simp only [List.cons_append, countCalls, ih]; omega

theorem savedOk_skip (K : PCtx) (mem : Mem) : ∀ (pre : List AExpr) (P1 : List (Word → Prop)) (rest : List AExpr)
    (P2 : List (Word → Prop)) (sv : Nat), pre.length = P1.length → (∀ x ∈ pre, containsCall x = false) →
    SavedOk K mem rest P2 sv → SavedOk K mem (pre ++ rest) (P1 ++ P2) sv := by
  intro pre
  induction pre with
  | nil => intro P1 rest P2 sv hl _ h; cases P1 with | nil => simpa using h | cons _ _ => simp at hl
  | cons x pre' ih =>
    intro P1 rest P2 sv hl hn h
    cases P1 with
    | nil => simp at hl
    | cons p P1' =>
      simp only [List.cons_append]
      unfold SavedOk
      rw [if_neg (by rw [hn x (by simp)]; simp)]
      exact ih P1' rest P2 sv (by simpa using hl) (fun y hy => hn y (by simp [hy])) h

theorem loadSpec_append (K : PCtx) (σ : X.St) : ∀ (l1 : List AExpr) (P1 : List (Word → Prop)) (l2 : List AExpr)
    (P2 : List (Word → Prop)), l1.length = P1.length → LoadSpec K σ l1 P1 → LoadSpec K σ l2 P2 →
    LoadSpec K σ (l1 ++ l2) (P1 ++ P2) := by
  intro l1
  induction l1 with
  | nil => intro P1 l2 P2 hl _ h; cases P1 with | nil => simpa using h | cons _ _ => simp at hl
  | cons x l1' ih =>
    intro P1 l2 P2 hl h1 h2
    cases P1 with
    | nil => simp at hl
    | cons p P1' =>
      simp only [List.cons_append, LoadSpec] at h1 ⊢
      exact ⟨h1.1, ih P1' l2 P2 (by simpa using hl) h1.2 h2⟩

theorem Res.bind_ok_id {α : Type} (r : Res α) : (r.bind fun a s => .ok a s) = r := by
  cases r <;> rfl

/-- The constants in front of the actual with the call: evaluating them changes nothing. -/
theorem evalArgs_constPrefix (K : PCtx) (wf : K.WF) : ∀ (pre rest : List X.Expr) (f : Nat) (st : X.St),
    (∀ c ∈ pre, isConstL K.ρ c = true) → ValsOk K.ρ K.xc st →
    (∃ w, X.evalArgs f K.xc (pre ++ rest) st = .undef w) ∨
    ∃ vs1 s1, pre.length ≤ f ∧ vs1.length = pre.length ∧ SameVars st s1 ∧
      (∀ σ, LoadSpec K σ (optArgsOf K.ρ pre) (vs1.map K.VRep)) ∧
      X.evalArgs f K.xc (pre ++ rest) st
        = (X.evalArgs (f - pre.length) K.xc rest s1).bind (fun vs2 s => .ok (vs1 ++ vs2) s) := by
  intro pre
  induction pre with
  | nil =>
    intro rest f st _ _
    refine Or.inr ⟨[], st, Nat.zero_le _, rfl, SameVars.refl _, fun _ => trivial, ?_⟩
    simp only [List.nil_append, List.length_nil, Nat.sub_zero]
    exact (Res.bind_ok_id _).symm
  | cons c pre' ih =>
    intro rest f st hc hv
    cases f with
    | zero => exact Or.inl ⟨_, by rw [evalArgs_zero]⟩
    | succ f' =>
      simp only [List.cons_append]
      rw [evalArgs_cons_eq]
      have hcc := hc c (by simp)
      have hpc := constL_pure K.ρ c hcc
      cases he : X.eval f' K.xc c st with
      | undef w => exact Or.inl ⟨w, rfl⟩
      | exit cd s0 => exact absurd he (eval_pure_no_exit K.xc f' c st cd s0 hpc)
      | ok v s0 =>
        have hs0 := eval_pure K.xc _ _ _ _ _ hpc he
        rcases ih rest f' s0 (fun x hx => hc x (by simp [hx])) (hv.same hs0) with ⟨w, hw⟩ | ⟨vs1, s1, hle, hlen, hs1, hspec, heq⟩
        · exact Or.inl ⟨w, by simp only [Res.bind]; rw [hw]⟩
        · refine Or.inr ⟨v :: vs1, s1, by simp only [List.length_cons]; omega, by simp [hlen], hs0.trans hs1, fun σ => ?_, ?_⟩
          · obtain ⟨w, hw, hA⟩ := execA_constL K wf c hcc f' st s0 v hv he σ
            simp only [optArgsOf, List.map_cons, LoadSpec]
            exact ⟨fun _ => by rw [hw]; exact hA.toP rfl, hspec σ⟩
          · simp only [Res.bind]
            rw [heq]
            simp only [List.length_cons, Nat.succ_sub_succ_eq_sub]
            cases X.evalArgs (f' - pre'.length) K.xc rest s1 <;> rfl

/-- The two passes over the actuals of a call (`genCallActuals`, `loadActuals`) do what evaluating
    the actuals does: every value ends up in its parameter slot. -/
structure ActPhase (K : PCtx) (po : Nat) (f : Nat) (args : List X.Expr) : Prop where
  run : ∀ (st : X.St) (gs : GS) (c1 : Code) (gs1 : GS) (c2 : Code) (gs2 : GS) (i : Nat) (a b : Word) (mem : Mem),
    genCallActuals K.ctx (optArgsOf K.ρ args) { gs with size := gs.offset } = .ok (c1, gs1) →
    loadActuals K.ctx (optArgsOf K.ρ args) po gs.offset
      (bumpN (countCalls (optArgsOf K.ρ args)) { gs1 with offset := gs.offset }) = .ok (c2, gs2) →
    At K.env.ds i (K.low c1 ++ K.low c2) → Rep K st mem →
    gs2.size + (args.length + po) ≤ K.S → K.nlocals ≤ gs.offset → ConstsIn K gs2 →
    match X.evalArgs f K.xc args st with
    | .ok vs s => ∃ a' b' mem', Steps K.env (cfg i a b mem) st.io (cfg (i + (K.low c1).length + (K.low c2).length) a' b' mem') s.io ∧
        Rep K s mem' ∧ (∀ k (hk : k < vs.length), K.VRep vs[k] (mem'.read (K.sp + po + k))) ∧
        FrmC K gs.offset K.S mem mem'
    | .exit cd s => ∃ c, Steps K.env (cfg i a b mem) st.io c s.io ∧ Exit K.env c s.io cd
    | .undef _ => True

/-- A system call as a statement whose actuals are handled by `ActPhase`. -/
theorem execS_syscall_phase (K : PCtx) (exitJ : Nat) (wf : K.WFS exitJ) (fuel : Nat) (id : Nat) (args : List X.Expr) (σ : X.St)
    (hid : id < 3) (hP : ∀ f, f < fuel → ActPhase K 2 f args) :
    ExecS K exitJ (optStmt (annotS K.ρ (.syscall id args))) σ (X.exec fuel K.xc (.syscall id args) σ) := by
  intro gs code gs' i a b mem hg hat hr hsz hnl hci
  have hopt : optStmt (annotS K.ρ (.syscall id args)) = .call (id : Int) "" (optArgsOf K.ρ args) := by
    simp only [annotS, optStmt, optArgs_map, sysId_small id hid]
  rw [hopt, genStmt_call_eq] at hg
  have hne : ((id : Int) ≠ -1) := by omega
  rw [if_pos hne] at hg
  cases fuel with
  | zero => unfold X.exec; trivial
  | succ f =>
    cases ht : X.tick K.xc σ with
    | none => unfold X.exec; rw [ht]; trivial
    | some st =>
      have hs := tick_same _ _ _ ht
      unfold X.exec
      rw [ht]
      simp only
      split
      · trivial
      · obtain ⟨c1, gs1, c2, gs2, h1, h2, hcode, hgs'⟩ := callSeq_inv _ _ _ _ _ _ _ _ hg
        simp only [CallKind.paramOffset, FB_PARAM_OFFSET_FUNC] at h2
        have hlen : (optArgsOf K.ρ args).length = args.length := by simp [optArgsOf]
        obtain ⟨f1o, f1s, f1c, f1os⟩ := genCallActuals_facts _ _ _ _ _ h1
        simp only at f1o f1s f1c f1os
        obtain ⟨b1o, b1s, _, b1p, b1c⟩ := bumpN_facts (countCalls (optArgsOf K.ρ args)) { gs1 with offset := gs.offset }
        simp only at b1o b1s b1p b1c
        obtain ⟨e2o, e2s, _, e2c⟩ := loadActuals_eff _ _ _ _ _ _ _ h2
        subst hgs'
        simp only [CallKind.paramOffset, FB_PARAM_OFFSET_FUNC, hlen] at hsz hci
        subst hcode
        simp only [low_append, List.append_assoc] at hat ⊢
        have hb : gs2.size + (args.length + 2) ≤ K.S := Nat.le_trans (Nat.le_max_right _ _) hsz
        have hrun := (hP f (Nat.lt_succ_self _)).run st gs c1 gs1 c2 gs2 i a b mem h1 h2
          (by have h := hat; rw [← List.append_assoc] at h; exact h.left) (hr.same hs) hb hnl hci
        have hio0 : st.io = σ.io := hs.2.2.2.1
        cases hev : X.evalArgs f K.xc args st with
        | undef w => simp only [Res.bind]; trivial
        | exit c s =>
          rw [hev] at hrun
          simp only [Res.bind]
          obtain ⟨c', st', he⟩ := hrun
          rw [hio0] at st'
          exact ⟨c', st', he⟩
        | ok vs s =>
          rw [hev] at hrun
          simp only [Res.bind]
          obtain ⟨a1, b1, mem1, st1, rep1, hvals, frm1⟩ := hrun
          rw [hio0] at st1
          have hwl : vs.length = args.length := evalArgs_length K.xc args f st s vs hev
          cases hd : X.doSyscall (BitVec.ofNat 32 id) vs s with
          | undef w => trivial
          | exit cd s' =>
            simp only
            obtain ⟨ws, hws⟩ := doSyscall_ints _ vs s (by rw [hd]; intro w h; simp at h)
            subst hws
            have htl := exec_systail K wf.toWF id hid ws s s gs2.labelCount gs.offset
              (i + (K.low c1).length + (K.low c2).length) a1 b1 mem1 s.io rfl
              (by have := hat.right.right; simpa [Nat.add_assoc] using this) rep1
              (fun k hk => by have := hvals k (by simpa using hk); simp only [List.getElem_map] at this; exact this)
              hnl (by simp only [List.length_map] at hwl; omega)
            rw [hd] at htl
            obtain ⟨c, st2, ex⟩ := htl
            have hs' := doSyscall_exit_state _ _ _ _ _ hd
            refine ⟨c, ?_, ?_⟩
            · rw [hs']; exact st1.trans st2
            · rw [hs']; exact ex
          | ok r s' =>
            simp only
            obtain ⟨ws, hws⟩ := doSyscall_ints _ vs s (by rw [hd]; intro w h; simp at h)
            subst hws
            have htl := exec_systail K wf.toWF id hid ws s s gs2.labelCount gs.offset
              (i + (K.low c1).length + (K.low c2).length) a1 b1 mem1 s.io rfl
              (by have := hat.right.right; simpa [Nat.add_assoc] using this) rep1
              (fun k hk => by have := hvals k (by simpa using hk); simp only [List.getElem_map] at this; exact this)
              hnl (by simp only [List.length_map] at hwl; omega)
            rw [hd] at htl
            obtain ⟨a', b', mem', st2, rep2, _, _⟩ := htl
            refine ⟨a', b', mem', ?_, ?_⟩
            · simp only [List.length_append, ← Nat.add_assoc]
              exact st1.trans st2
            · have hst := doSyscall_state _ _ _ _ _ hd
              rw [hst]
              exact rep2.setIo _

/-- The value of an expression of the class is an integer. -/
theorem eval_ip_int (ρ : String → Option Word) (callOk : X.Expr → Bool) (xc : X.Ctx) (fuel : Nat) (e : X.Expr) (σ σ' : X.St)
    (r : ArrRef) (hip : ipE ρ callOk e = true) (h : X.eval fuel xc e σ = .ok (.arr r) σ') : False := by
  cases fuel with
  | zero => unfold X.eval at h; simp at h
  | succ f =>
    cases e with
    | call g args => exact eval_call_int xc (f + 1) g args σ σ' r h
    | syscall id args =>
      unfold X.eval at h
      cases ht : X.tick xc σ with
      | none => rw [ht] at h; simp at h
      | some st =>
        rw [ht] at h
        simp only at h
        split at h
        · simp at h
        · split at h
          · simp at h
          · obtain ⟨vs, s1, _, h2⟩ := bind_ok_inv _ _ _ _ h
            obtain ⟨r', s2, _, h4⟩ := bind_ok_inv _ _ _ _ h2
            split at h4 <;> simp at h4
    | un op x =>
      cases op with
      | neg => obtain ⟨_, _, _, _, h3⟩ := eval_neg _ _ _ _ _ _ h; simp at h3
      | not => obtain ⟨_, _, _, _, _, h3⟩ := eval_not _ _ _ _ _ _ h; simp at h3
    | bin op l r' =>
      simp only [ipE, Bool.and_eq_true] at hip
      obtain ⟨_, _, _, _, _, _, _, _, _, h5⟩ := eval_arith _ _ _ _ _ _ _ _ hip.1 h
      simp at h5
    | num _ => simp [ipE] at hip
    | bool _ => simp [ipE] at hip
    | name _ => simp [ipE] at hip
    | str _ => simp [ipE] at hip
    | sub _ _ => simp [ipE] at hip

/-- **One actual with a call (of any callee), all others constants**: the call's value is parked,
    then every actual is stored into its parameter slot; the constants do not look at the state. -/
theorem actPhase_one (K : PCtx) (wf : K.WF) (po : Nat) (F : Nat) (callOk : X.Expr → Bool)
    (pre : List X.Expr) (e : X.Expr) (post : List X.Expr)
    (hpre : ∀ c ∈ pre, isConstL K.ρ c = true) (hpost : ∀ c ∈ post, isConstL K.ρ c = true)
    (hip : ipE K.ρ callOk e = true)
    (hE : ∀ fuel, fuel ≤ F → ∀ σ, ExecX false K (optExpr (annotate K.ρ e)) σ (X.eval fuel K.xc e σ))
    (f : Nat) (hf : f ≤ F) : ActPhase K po f (pre ++ e :: post) := by
  refine ⟨fun st gs c1 gs1 c2 gs2 i a b mem h1 h2 hat hr hb hnl hci => ?_⟩
  have hargs : optArgsOf K.ρ (pre ++ e :: post) = optArgsOf K.ρ pre ++ optExpr (annotate K.ρ e) :: optArgsOf K.ρ post := by
    simp [optArgsOf]
  have hcc : containsCall (optExpr (annotate K.ρ e)) = true := ip_containsCall K.ρ callOk e hip
  have hprenc : ∀ x ∈ optArgsOf K.ρ pre, containsCall x = false :=
    optArgsOf_noCall K.ρ pre (fun c hc => constL_pure K.ρ c (hpre c hc))
  have hpostnc : ∀ x ∈ optArgsOf K.ρ post, containsCall x = false :=
    optArgsOf_noCall K.ρ post (fun c hc => constL_pure K.ρ c (hpost c hc))
  have hcnt : countCalls (optArgsOf K.ρ (pre ++ e :: post)) = 1 := by
    rw [hargs, countCalls_append, (genCallActuals_noCall K.ctx _ gs hprenc).2]
    simp only [countCalls, hcc, if_true]
    rw [(genCallActuals_noCall K.ctx _ gs hpostnc).2]
  have hlen : (pre ++ e :: post).length = pre.length + (post.length + 1) := by simp
  rw [hcnt] at h2
  rw [hargs] at h1 h2
  have h1' := genCallActuals_skip K.ctx _ _ _ _ _ hprenc h1
  obtain ⟨cc, g1, cs, hgc, hgrest, hc1⟩ : ∃ cc g1 cs,
      genExpr K.ctx (optExpr (annotate K.ρ e)) .A { gs with size := gs.offset } = .ok (cc, g1) ∧
      genCallActuals K.ctx (optArgsOf K.ρ post)
        { g1 with offset := g1.offset + 1, size := max g1.size (g1.offset + 1) } = .ok (cs, gs1) ∧
      c1 = cc ++ [iLDBM SP_OFFSET, IDir.fb FbKind.stai K.ctx.frame (-(g1.offset : Int))] ++ cs := by
    rcases genCallActuals_cons_inv _ _ _ _ _ _ h1' with ⟨_, cc, g1, cs, h⟩ | ⟨hn, _⟩
    · exact ⟨cc, g1, cs, h⟩
    · rw [hcc] at hn; simp at hn
  obtain ⟨hcs0, _⟩ := genCallActuals_noCall K.ctx (optArgsOf K.ρ post)
    { g1 with offset := g1.offset + 1, size := max g1.size (g1.offset + 1) } hpostnc
  rw [hcs0] at hgrest
  simp only [Except.ok.injEq, Prod.mk.injEq] at hgrest
  obtain ⟨hcse, hgs1⟩ := hgrest
  subst hcse
  obtain ⟨e1o, e1s, _, e1c⟩ := genExpr_eff _ _ _ _ _ _ hgc
  simp only at e1o e1s e1c
  simp only [bumpN] at h2
  obtain ⟨e2o, e2s, _, e2c⟩ := loadActuals_eff _ _ _ _ _ _ _ h2
  rw [← hgs1] at e2o e2s e2c h2
  simp only at e2o e2s e2c h2
  subst hc1
  simp only [low_append, List.append_assoc, List.append_nil] at hat ⊢
  have hcig1 : ConstsIn K g1 := fun x hx => hci x (e2c x hx)
  have hl2 : K.low [iLDBM SP_OFFSET, IDir.fb FbKind.stai K.ctx.frame (-(g1.offset : Int))]
      = [.imm 0x1 1, .imm 0x8 ((K.S : Int) - 1 + -(g1.offset : Int))] := rfl
  rw [hl2] at hat ⊢
  -- the constants in front
  rcases evalArgs_constPrefix K wf pre (e :: post) f st hpre hr.valsOk with ⟨w, hw⟩ | ⟨vs1, s1, hle, hlen1, hs1, hspec1, heq⟩
  · rw [hw]; trivial
  rw [heq]
  cases hfn : f - pre.length with
  | zero => rw [evalArgs_zero]; trivial
  | succ f0 =>
  rw [evalArgs_cons_eq]
  have hr1 : Rep K s1 mem := hr.same hs1
  have hio1 : s1.io = st.io := hs1.2.2.2.1
  -- the actual with the call
  have hXr := hE f0 (by omega) s1 { gs with size := gs.offset } cc g1 i a b mem hgc hat.left hr1 (by omega) hnl hcig1
  cases heval : X.eval f0 K.xc e s1 with
  | undef w => simp only [Res.bind]
  | exit cd s2 =>
    rw [heval] at hXr
    simp only [Res.bind]
    obtain ⟨c, st', he⟩ := hXr
    rw [hio1] at st'
    exact ⟨c, st', he⟩
  | ok v s2 =>
    rw [heval] at hXr
    simp only [Res.bind]
    cases v with
    | arr r => exact (eval_ip_int K.ρ callOk K.xc f0 e s1 s2 r hip heval).elim
    | int w =>
    obtain ⟨b1, mem1, st1, rep1, frmE⟩ := hXr
    rw [hio1] at st1
    -- park the value
    have hoff : g1.offset < K.S := by omega
    have hld := hat.right.left.get 0 _ rfl
    have hst := hat.right.left.get 1 _ rfl
    simp only [Nat.add_zero] at hld hst
    have sA := Step.ldbm (env := K.env) (cfg (i + (K.low cc).length) w b1 mem1) s2.io 1 _ hld (ld_one mem1)
    have hslot : (K.slot g1.offset : Int) = (K.sp : Int) + (K.S : Int) - 1 + (-(g1.offset : Int)) := by
      unfold PCtx.slot; omega
    have hadr := slot_addr K.sp K.S (-(g1.offset : Int)) (K.slot g1.offset) hslot
    obtain ⟨hsl1, hsl2⟩ := wf.slot_ok g1.offset hoff
    have hsto : IAm.store K.env mem1 (mem1.read 1 + IAm.W ((K.S : Int) - 1 + -(g1.offset : Int))) w
        = some (mem1.write (K.slot g1.offset) w) := by
      rw [rep1.sp, hadr]; exact store_ofNat _ _ _ _ hsl1 hsl2
    have hne1 : (mem1.read 1 + IAm.W ((K.S : Int) - 1 + -(g1.offset : Int))).toNat ≠ 1 := by
      rw [rep1.sp, hadr]
      exact ofNat_toNat_ne_one _ (by have := wf.sp_ge; unfold PCtx.slot; omega) hsl1
    have sB := Step.stai (env := K.env) (cfg (i + (K.low cc).length + 1) w (mem1.read 1) mem1) s2.io _ _ hst hsto hne1
    have frm2 : Frm K g1.offset (g1.offset + 1) mem1 (mem1.write (K.slot g1.offset) w) := by
      intro ad had
      rw [Mem.read_write_other]
      exact fun e => had g1.offset (Nat.le_refl _) (by omega) e.symm
    have rep2 := rep1.frame wf frm2 (by omega) (by omega)
    -- the constants behind
    cases hpe : X.evalArgs f0 K.xc post s2 with
    | undef w' => simp only [Res.bind]
    | exit c s => exact absurd hpe (evalArgs_pure_no_exit K.xc post f0 s2 c s (fun x hx => constL_pure K.ρ x (hpost x hx)))
    | ok vs3 s =>
      simp only [Res.bind]
      obtain ⟨hss, hlv, hspec3⟩ := constLs_specs K wf post f0 s2 s vs3 hpost rep2.valsOk hpe
      have hlp : (optArgsOf K.ρ pre).length = (vs1.map K.VRep).length := by simp [optArgsOf, hlen1]
      have hload : LoadSpec K s2 (optArgsOf K.ρ pre ++ optExpr (annotate K.ρ e) :: optArgsOf K.ρ post)
          ((vs1 ++ Val.int w :: vs3).map K.VRep) := by
        rw [List.map_append]
        apply loadSpec_append K s2 _ _ _ _ hlp (hspec1 s2)
        simp only [List.map_cons, LoadSpec]
        exact ⟨fun h => by rw [hcc] at h; simp at h, hspec3 s2⟩
      have hsv : SavedOk K (mem1.write (K.slot g1.offset) w)
          (optArgsOf K.ρ pre ++ optExpr (annotate K.ρ e) :: optArgsOf K.ρ post)
          ((vs1 ++ Val.int w :: vs3).map K.VRep) gs.offset := by
        rw [List.map_append]
        apply savedOk_skip K _ _ _ _ _ _ hlp hprenc
        simp only [List.map_cons]
        unfold SavedOk
        rw [if_pos hcc]
        refine ⟨?_, savedOk_noCall _ _ _ _ _ hpostnc⟩
        rw [← e1o]
        exact (Mem.read_write_same _ _ _ hsl1 : _ = w)
      have hlenW : (optArgsOf K.ρ pre ++ optExpr (annotate K.ρ e) :: optArgsOf K.ρ post).length
          = ((vs1 ++ Val.int w :: vs3).map K.VRep).length := by
        simp [optArgsOf, hlv, hlen1]
      have hlenA : (optArgsOf K.ρ pre ++ optExpr (annotate K.ρ e) :: optArgsOf K.ρ post).length
          = pre.length + (post.length + 1) := by simp [optArgsOf]
      obtain ⟨a3, b3, mem3, st3, rep3, hvals, _, frm3⟩ := exec_loadItems K wf s2 _ _ hlenW hload
        po gs.offset _ c2 gs2 (i + (K.low cc).length + 1 + 1) w (mem1.read 1)
        (mem1.write (K.slot g1.offset) w) h2
        (by have := hat.right.right; simpa [Nat.add_assoc] using this) rep2 hsv
        (by simp only [countCalls_append, (genCallActuals_noCall K.ctx _ gs hprenc).2, countCalls, hcc, if_true,
              (genCallActuals_noCall K.ctx _ gs hpostnc).2]; omega)
        (by rw [hlenA]; rw [hlen] at hb; omega)
        (by simp only; omega)
        (by simp only; omega) hci
      have hio : s.io = s2.io := hss.2.2.2.1
      refine ⟨a3, b3, mem3, ?_, rep3.same hss, ?_, ?_⟩
      · have : i + ((K.low cc).length + [Dir.imm 1 1, Dir.imm 8 ((K.S : Int) - 1 + -(g1.offset : Int))].length) + (K.low c2).length
            = i + (K.low cc).length + 1 + 1 + (K.low c2).length := by
          simp only [List.length_cons, List.length_nil]; omega
        simp only [List.length_append]
        rw [this, hio]
        exact st1.trans (Steps.step _ _ _ _ _ _ sA (Steps.step _ _ _ _ _ _ sB st3))
      · intro k hk
        have := hvals k (by simpa using hk)
        simp only [List.getElem_map] at this
        exact this
      · have f1 : FrmC K gs.offset K.S mem mem1 := frmE
        have f2 : FrmC K gs.offset K.S mem1 (mem1.write (K.slot g1.offset) w) :=
          frm2.toC.mono (by rw [e1o]; exact Nat.le_refl _) hoff
        have f3 : FrmC K gs.offset K.S (mem1.write (K.slot g1.offset) w) mem3 :=
          frm3.mono (by simp only; omega) (Nat.le_refl _)
        exact (f1.trans f2).trans f3

/-- **Actuals with calls of pure functions**: the actuals with calls are evaluated first and parked
    (their callees change nothing the representation looks at), then all are stored. -/
theorem actPhase_pp (K : PCtx) (wf : K.WF) (ps : List String) (pk : PureOk K.xc)
    (hps : ∀ g, ps.contains g = true → ∃ p, K.xc.genv.lookup g = some (.proc p))
    (hnoloc : ∀ st mem, Rep K st mem → NoLoc ps st) (po f : Nat) (hleaf : ∀ k, k ≤ f → CallLeaf K ps k)
    (es : List X.Expr) (hp : ∀ e ∈ es, ppE ps K.xc.impure e = true) : ActPhase K po f es := by
  refine ⟨fun st gs c1 gs1 c2 gs2 i a b mem h1 h2 hat hr hb hnl hci => ?_⟩
  cases hev : X.evalArgs f K.xc es st with
  | undef w => trivial
  | exit c s => exact absurd hev ((evalArgs_pp K.xc ps hps pk f es st hp (hnoloc st mem hr)).2 c s)
  | ok ws s =>
    simp only
    obtain ⟨hsim, hlenv, hsave, hload⟩ := ppArgs_specs K wf ps pk hps es f hleaf st st s ws
      hp (Sim.refl _) (hnoloc st mem hr) hev
    have hlen : (optArgsOf K.ρ es).length = es.length := by simp [optArgsOf]
    have hlenW : (optArgsOf K.ρ es).length = (ws.map K.VRep).length := by simp [optArgsOf, hlenv]
    obtain ⟨f1o, f1s, f1c, f1os⟩ := genCallActuals_facts _ _ _ _ _ h1
    simp only at f1o f1s f1c f1os
    obtain ⟨b1o, b1s, _, b1p, b1c⟩ := bumpN_facts (countCalls (optArgsOf K.ρ es)) { gs1 with offset := gs.offset }
    simp only at b1o b1s b1p b1c
    obtain ⟨e2o, e2s, _, e2c⟩ := loadActuals_eff _ _ _ _ _ _ _ h2
    have hcib : ConstsIn K (bumpN (countCalls (optArgsOf K.ρ es)) { gs1 with offset := gs.offset }) :=
      fun x hx => hci x (e2c x hx)
    have hci1 : ConstsIn K gs1 := fun x hx => hcib x (by rw [b1c]; exact hx)
    obtain ⟨a1, b1, mem1, st1, rep1, hsv, _, _, _, frm1⟩ := exec_saveItems K wf st _ _ hlenW hsave
      { gs with size := gs.offset } c1 gs1 i a b mem h1 hat.left hr (by omega) hnl
      (f1os (Nat.le_refl _)) hci1
    obtain ⟨a2, b2, mem2, st2, rep2, hvals, _, frm2⟩ := exec_loadItems K wf st _ _ hlenW hload
      po gs.offset _ c2 gs2 (i + (K.low c1).length) a1 b1 mem1 h2 hat.right rep1 hsv
      (by rw [b1o]; exact Nat.le_refl _) (by rw [hlen]; omega)
      (by rw [b1o]; omega)
      (by rw [b1o]; by_cases hn : 0 < countCalls (optArgsOf K.ρ es)
          · exact b1p hn
          · omega) hci
    have hio : s.io = st.io := hsim.2.2.2.1.symm
    refine ⟨a2, b2, mem2, ?_, rep2.sim hsim, ?_, frm1.trans (frm2.mono (by rw [b1o]; omega) (Nat.le_refl _))⟩
    · rw [hio]; exact st1.trans st2
    · intro k hk
      have := hvals k (by simpa using hk)
      simp only [List.getElem_map] at this
      exact this

/-- A user call whose actuals are handled by `ActPhase`. -/
theorem argsOK_of_phase {G : GCtx} (ok : G.OK) {pi : PInfo} (hpi : pi ∈ G.procs) (sp dep : Nat) (hi : Nat → Word)
    (hlo : G.lo ≤ sp) (hspv : sp + G.S pi + pi.po + pi.p.formals.length ≤ G.spv + 1) (hstack : G.spv ≤ sp + dep * G.smax)
    (f : Nat) (args : List X.Expr) (hP : ∀ po, ActPhase (KOf G pi sp dep hi) po f args) : ArgsOK G pi sp dep hi f args := by
  refine ⟨fun hcs pj hpj st gs code gs' i a b mem hgen hat hr hsz hnl hci => ?_⟩
  obtain ⟨c1, gs1, c2, gs2, h1, h2, hcode, hgs'⟩ := callSeq_inv _ _ _ _ _ _ _ _ hgen
  rw [callKind_po] at h2
  have hlen : (optArgsOf G.rho args).length = args.length := by simp [optArgsOf]
  obtain ⟨f1o, f1s, f1c, f1os⟩ := genCallActuals_facts _ _ _ _ _ h1
  simp only at f1o f1s f1c f1os
  obtain ⟨b1o, b1s, _, b1p, b1c⟩ := bumpN_facts (countCalls (optArgsOf G.rho args)) { gs1 with offset := gs.offset }
  simp only at b1o b1s b1p b1c
  obtain ⟨e2o, e2s, _, e2c⟩ := loadActuals_eff _ _ _ _ _ _ _ h2
  subst hgs'
  simp only [callKind_po, hlen] at hsz hci
  subst hcode
  simp only [lowerCode_append, List.append_assoc] at hat ⊢
  have hpo := po_pos pj
  have hb : gs2.size + (args.length + pj.po) ≤ G.S pi := Nat.le_trans (Nat.le_max_right _ _) hsz
  have hrun := (hP pj.po).run st gs c1 gs1 c2 gs2 i a b mem h1 h2
    (by have h := hat; rw [← List.append_assoc] at h; exact h.left) hr hb hnl hci
  cases hev : X.evalArgs f G.xc args st with
  | undef w => trivial
  | exit c s =>
    have hev' : X.evalArgs f (KOf G pi sp dep hi).xc args st = .exit c s := hev
    rw [hev'] at hrun
    exact hrun
  | ok vs s =>
    have hev' : X.evalArgs f (KOf G pi sp dep hi).xc args st = .ok vs s := hev
    rw [hev'] at hrun
    simp only
    obtain ⟨a1, b1, mem1, st1, rep1, hvals, frm1⟩ := hrun
    have hwl : vs.length = args.length := evalArgs_length G.xc args f st s vs hev
    have hct := exec_calltail ok f (hcs f (Nat.le_refl _)) hpi hpj sp dep hi hlo hspv hstack s vs gs2.labelCount gs.offset
      (i + (lowerCode G.cg c1).length + (lowerCode G.cg c2).length) a1 b1 mem1
      (by have := hat.right.right; simpa [Nat.add_assoc] using this) rep1 (fun k hk => hvals k hk)
      (by omega) (by omega) (by omega)
    cases hx : X.callUser f G.xc pj.p vs s with
    | undef w => trivial
    | exit cd s' =>
      rw [hx] at hct
      obtain ⟨c, hs, he⟩ := hct
      exact ⟨c, st1.trans hs, he⟩
    | ok res s' =>
      rw [hx] at hct
      obtain ⟨a', b', mem', hs, rep', hres, frm3⟩ := hct
      refine ⟨a', b', mem', ?_, rep', hres, frm1.trans frm3⟩
      simp only [List.length_append, ← Nat.add_assoc]
      exact st1.trans hs

theorem ipE5_ipE (pk : Bool) (ps imp : List String) (ρ : String → Option Word) :
    (e : X.Expr) → ipE5 pk ps imp ρ e = true → ipE ρ (fun _ => true) e = true
  | .un _ x, h => by simp only [ipE5] at h; simp only [ipE]; exact ipE5_ipE pk ps imp ρ x h
  | .bin op l r, h => by
    simp only [ipE5, Bool.and_eq_true, Bool.or_eq_true] at h
    simp only [ipE, Bool.and_eq_true, Bool.or_eq_true]
    exact ⟨h.1, h.2.imp (fun hh => ⟨hh.1, ipE5_ipE pk ps imp ρ r hh.2⟩) (fun hh => ⟨ipE5_ipE pk ps imp ρ l hh.1, hh.2⟩)⟩
  | .call _ _, _ => rfl
  | .syscall _ _, _ => rfl
  | .num _, h => by simp [ipE5] at h
  | .bool _, h => by simp [ipE5] at h
  | .name _, h => by simp [ipE5] at h
  | .str _, h => by simp [ipE5] at h
  | .sub _ _, h => by simp [ipE5] at h

/-! ### The main theorem -/

section
variable {G : GCtx} (ok : G.OK) {pi : PInfo} (hpi : pi ∈ G.procs) (sp dep : Nat) (hi : Nat → Word)
    (hlo : G.lo ≤ sp) (hspv : sp + G.S pi + pi.po + pi.p.formals.length ≤ G.spv + 1)
    (hstack : G.spv ≤ sp + dep * G.smax) (F : Nat) (hcs : ∀ k, k < F → CallSpec G k)
include ok hpi hlo hspv hstack hcs

mutual
/-- **Expressions with one path of calls of any callee**: whatever the evaluation gives - a value
    (in a new state), termination, or nothing - the code does the same. -/
theorem expr_ip_correct : (e : X.Expr) → (fuel : Nat) → fuel ≤ F → (σ : X.St) →
    ipE5 G.pk G.pnames G.xc.impure G.rho e = true →
    ExecX false (KOf G pi sp dep hi) (optExpr (annotate G.rho e)) σ (X.eval fuel G.xc e σ)
  | .syscall id args, fuel, hF, σ, h => by
    have hs : sysE G.rho (.syscall id args) = true := by simp only [ipE5] at h; simp only [sysE]; exact h
    exact execX_sys (KOf G pi sp dep hi) (ok.wfs pi hpi sp dep hi hlo hspv).toWF _ hs fuel σ
  | .call g args, fuel, hF, σ, h => by
    simp only [ipE5, Bool.or_eq_true] at h
    rcases h with h | h
    rotate_left
    · have hs : sysE G.rho (.call g args) = true := by simp only [sysE]; exact h
      exact execX_sys (KOf G pi sp dep hi) (ok.wfs pi hpi sp dep hi hlo hspv).toWF _ hs fuel σ
    simp only [Bool.and_eq_true, Bool.or_eq_true, List.contains_iff_mem] at h
    obtain ⟨hg, hargs⟩ := h
    have hA : ∀ f, f < fuel → ArgsOK G pi sp dep hi f args := by
      intro f hf
      rcases hargs with (hp | ⟨hpk, hpp⟩) | hone
      · exact argsOK_pure ok hpi sp dep hi hlo hspv hstack f args (by simpa using hp)
      · exact argsOK_pp ok hpi sp dep hi hlo hspv hstack (ok.pure_ok hpk) f
          (fun k hk => callLeaf_of_spec ok (ok.pure_ok hpk) hpi sp dep hi hlo hspv hstack k (fun j hj => hcs j (by omega)))
          args (by simpa using hpp)
      · obtain ⟨pre, e, post, he, hpre, hpost, hipe, hE⟩ := args_one_correct args hone
        apply argsOK_of_phase ok hpi sp dep hi hlo hspv hstack f args
        intro po
        rw [he]
        exact actPhase_one (KOf G pi sp dep hi) (ok.wfs pi hpi sp dep hi hlo hspv).toWF po F (fun _ => true) pre e post
          hpre hpost (ipE5_ipE _ _ _ _ e hipe) hE f (by omega)
    intro gs code gs' i a b mem hgen hat hr hsz hnl hci
    have := exec_callExprF ok fuel (fun k hk => hcs k (by omega)) hpi sp dep hi hlo hspv hstack g args hg
      hA σ gs code gs' i a b mem
      hgen hat hr hsz hnl hci
    cases hev : X.eval fuel G.xc (.call g args) σ with
    | undef w => trivial
    | exit cd s => rw [hev] at this; exact this
    | ok v s =>
      rw [hev] at this
      cases v with
      | arr r => trivial
      | int w => exact this
  | .un op x, fuel, hF, σ, h => by
    simp only [ipE5] at h
    cases fuel with
    | zero => obtain ⟨w, hw⟩ := eval_zero_undef G.xc (.un op x) σ; rw [hw]; exact ExecX.undef w
    | succ f =>
      have ih := expr_ip_correct x f (by omega)
      have hcn := ip_const_none G.rho (fun _ => true) x (ipE5_ipE _ _ _ _ x h)
      obtain ⟨hnA, hnz⟩ := ip_opt_facts G.rho (fun _ => true) x (ipE5_ipE _ _ _ _ x h)
      have wf := (ok.wfs pi hpi sp dep hi hlo hspv).toWF
      cases op with
      | neg =>
        have htree : optExpr (annotate G.rho (.un .neg x)) = .bin .minus (.num 0 none) (optExpr (annotate G.rho x)) none := by
          simp only [annotate, hcn, Option.map_none]; rw [optExpr_un]; simp
        rw [htree]
        cases hev : X.eval (f + 1) G.xc (.un .neg x) σ with
        | undef w => exact ExecX.undef w
        | exit cd s =>
          obtain ⟨st, ht, hx⟩ := eval_neg_exit _ _ _ _ _ _ hev
          have hX := ih st h
          rw [hx] at hX
          have hXe := hX.toExits.same_left (tick_same _ _ _ ht)
          exact (exits_minus _ _ _ _ _ _ (exits_operands _ _ _ _ _ _ (fun _ => hXe)
            (fun hn => by rw [hnA] at hn; simp at hn))).toX
        | ok v s =>
          obtain ⟨st, w, ht, hx, hv⟩ := eval_neg _ _ _ _ _ _ hev
          subst hv
          have hX := ih st h
          rw [hx] at hX
          have hXT := hX.toT.same_left (tick_same _ _ _ ht)
          exact (shape_minusT _ wf _ _ 0 w σ s
            ⟨fun _ => ⟨s, hXT, execA_zero _ wf s⟩, fun hn => by rw [hnA] at hn; simp at hn⟩).toX
      | not =>
        have htree : optExpr (annotate G.rho (.un .not x)) = .un .not (optExpr (annotate G.rho x)) none := by
          simp only [annotate, hcn, Option.map_none]; rw [optExpr_un]; simp
        rw [htree]
        cases hev : X.eval (f + 1) G.xc (.un .not x) σ with
        | undef w => exact ExecX.undef w
        | exit cd s =>
          obtain ⟨st, ht, hx⟩ := eval_not_exit _ _ _ _ _ _ hev
          have hX := ih st h
          rw [hx] at hX
          exact (exits_not _ _ _ _ _ (hX.toExits.same_left (tick_same _ _ _ ht))).toX
        | ok v s =>
          obtain ⟨st, w, ht, hx, _, hv⟩ := eval_not _ _ _ _ _ _ hev
          have hX := ih st h
          rw [hx] at hX
          have hXT := hX.toT.same_left (tick_same _ _ _ ht)
          have := shape_notT _ wf _ w σ s hXT
          have hval : rtIsZero w = X.b2w (w == 0) := by
            unfold rtIsZero X.b2w
            by_cases hz : w = 0 <;> simp [hz]
          rw [hval] at this
          rw [hv]
          exact this.toX
  | .bin op l r, fuel, hF, σ, h => by
    have hwhole := ipE5_ipE _ _ _ _ (.bin op l r) h
    simp only [ipE5, Bool.and_eq_true, Bool.or_eq_true] at h
    obtain ⟨hop, hcase⟩ := h
    cases fuel with
    | zero => obtain ⟨w, hw⟩ := eval_zero_undef G.xc (.bin op l r) σ; rw [hw]; exact ExecX.undef w
    | succ f =>
      have wf := (ok.wfs pi hpi sp dep hi hlo hspv).toWF
      have htree : optExpr (annotate G.rho (.bin op l r))
          = rewriteBin op (optExpr (annotate G.rho l)) (optExpr (annotate G.rho r)) none := by
        have hcn := ip_const_none G.rho (fun _ => true) (.bin op l r) hwhole
        simp only [annotate, AExpr.const_bin] at hcn ⊢
        rw [optExpr_bin, hcn]
        simp
      rw [htree]
      intro gs code gs' i a b mem hgen hat hr hsz hnl hci
      have hVO : ∀ s, FrameEq σ s → ValsOk G.rho G.xc s := fun s hf => ValsOk.frame hr.vals hf
      suffices hX : ExecX false (KOf G pi sp dep hi)
          (rewriteBin op (optExpr (annotate G.rho l)) (optExpr (annotate G.rho r)) none) σ
          (X.eval (f + 1) G.xc (.bin op l r) σ) from hX gs code gs' i a b mem hgen hat hr hsz hnl hci
      rcases hcase with ⟨hcl, hir⟩ | ⟨hil, hcr⟩
      · -- the left operand is a constant, the right one has the call
        obtain ⟨hnA, hnz⟩ := ip_opt_facts G.rho (fun _ => true) r (ipE5_ipE _ _ _ _ r hir)
        have hnL := constL_needsA G.rho l hcl
        have hpl := constL_pure G.rho l hcl
        cases hev : X.eval (f + 1) G.xc (.bin op l r) σ with
        | undef w => exact ExecX.undef w
        | exit cd s =>
          obtain ⟨st, ht, hx⟩ := eval_arith_exit _ _ _ _ _ _ _ _ hop hev
          rcases hx with hx | ⟨a0, s1, hl, hx⟩
          · exact absurd hx (eval_pure_no_exit G.xc f l st cd s hpl)
          · have hsσ := (tick_same _ _ _ ht).trans (eval_pure G.xc _ _ _ _ _ hpl hl)
            have hR := expr_ip_correct r f (by omega) s1 hir
            rw [hx] at hR
            have hRe := hR.toExits.same_left hsσ
            exact (exits_arith _ op _ _ σ cd s
              (exits_operands _ _ _ σ cd s (fun _ => hRe) (fun hn => by rw [hnA] at hn; simp at hn))
              (exits_operands _ _ _ σ cd s (fun hn => by rw [hnL] at hn; simp at hn) (fun _ => hRe))
              (fun hz => by rw [hnz] at hz; simp at hz) (fun _ => hRe) hop).toX
        | ok v s =>
          obtain ⟨st, a0, s1, b0, w, ht, hl, hrr, har, hv⟩ := eval_arith _ _ _ _ _ _ _ _ hop hev
          subst hv
          obtain ⟨a', ha', hs1, _, hLA, hLB, hLz⟩ := constL_opnd (KOf G pi sp dep hi) wf l hcl f st s1 _
            (hVO st (FrameEq.ofSame (tick_same _ _ _ ht))) hl
          simp only [Val.int.injEq] at ha'
          subst ha'
          have hsσ := (tick_same _ _ _ ht).trans hs1
          have hR := expr_ip_correct r f (by omega) s1 hir
          rw [hrr] at hR
          have hRT := hR.toT.same_left hsσ
          have := shape_arithT (KOf G pi sp dep hi) wf op _ _ a0 b0 σ s
            ⟨fun _ => ⟨s, hRT, (hLA s).weaken⟩, fun hn => by rw [hnA] at hn; simp at hn⟩
            ⟨fun hn => by have := hnL.symm.trans hn; simp at this, fun _ => ⟨hRT, hLB s⟩⟩
            (fun _ => hRT) (fun hz => by rw [hnz] at hz; simp at hz)
            (fun hz _ _ => hLz hz) (fun hz => by rw [hnz] at hz; simp at hz) hop
          rw [arith_rt op a0 b0 w hop har] at this
          exact this.toX
      · -- the left operand has the call, the right one is a constant
        obtain ⟨hnA, hnz⟩ := ip_opt_facts G.rho (fun _ => true) l (ipE5_ipE _ _ _ _ l hil)
        have hnR := constL_needsA G.rho r hcr
        have hpr := constL_pure G.rho r hcr
        cases hev : X.eval (f + 1) G.xc (.bin op l r) σ with
        | undef w => exact ExecX.undef w
        | exit cd s =>
          obtain ⟨st, ht, hx⟩ := eval_arith_exit _ _ _ _ _ _ _ _ hop hev
          rcases hx with hx | ⟨a0, s1, hl, hx⟩
          · have hL := expr_ip_correct l f (by omega) st hil
            rw [hx] at hL
            have hLe := hL.toExits.same_left (tick_same _ _ _ ht)
            exact (exits_arith _ op _ _ σ cd s
              (exits_operands _ _ _ σ cd s (fun hn => by rw [hnR] at hn; simp at hn) (fun _ => hLe))
              (exits_operands _ _ _ σ cd s (fun _ => hLe) (fun hn => by rw [hnA] at hn; simp at hn))
              (fun _ => hLe) (fun hz => by rw [hnz] at hz; simp at hz) hop).toX
          · exact absurd hx (eval_pure_no_exit G.xc f r s1 cd s hpr)
        | ok v s =>
          obtain ⟨st, a0, s1, b0, w, ht, hl, hrr, har, hv⟩ := eval_arith _ _ _ _ _ _ _ _ hop hev
          subst hv
          have hf1 : FrameEq σ s1 := (FrameEq.ofSame (tick_same _ _ _ ht)).trans (eval_frame _ _ _ _ _ _ hl)
          obtain ⟨b', hb', hs2, _, hRA, hRB, hRz⟩ := constL_opnd (KOf G pi sp dep hi) wf r hcr f s1 s _ (hVO s1 hf1) hrr
          simp only [Val.int.injEq] at hb'
          subst hb'
          have hL := expr_ip_correct l f (by omega) st hil
          rw [hl] at hL
          have hLT := (hL.toT.same_left (tick_same _ _ _ ht)).same_right hs2
          have := shape_arithT (KOf G pi sp dep hi) wf op _ _ a0 b0 σ s
            ⟨fun hn => by have := hnR.symm.trans hn; simp at this, fun _ => ⟨hLT, hRB s⟩⟩
            ⟨fun _ => ⟨s, hLT, (hRA s).weaken⟩, fun hn => by rw [hnA] at hn; simp at hn⟩
            (fun hz => by rw [hnz] at hz; simp at hz) (fun _ => hLT)
            (fun hz => by rw [hnz] at hz; simp at hz) (fun hz _ _ => hRz hz) hop
          rw [arith_rt op a0 b0 w hop har] at this
          exact this.toX
  | .num _, _, _, _, h => by simp [ipE5] at h
  | .bool _, _, _, _, h => by simp [ipE5] at h
  | .name _, _, _, _, h => by simp [ipE5] at h
  | .str _, _, _, _, h => by simp [ipE5] at h
  | .sub _ _, _, _, _, h => by simp [ipE5] at h
/-- Actuals that are constants except one of the class: where it is, and its triple. -/
theorem args_one_correct : (args : List X.Expr) → oneImp5 G.pk G.pnames G.xc.impure G.rho args = true →
    ∃ pre e post, args = pre ++ e :: post ∧ (∀ c ∈ pre, isConstL G.rho c = true) ∧ (∀ c ∈ post, isConstL G.rho c = true) ∧
      ipE5 G.pk G.pnames G.xc.impure G.rho e = true ∧
      (∀ fuel, fuel ≤ F → ∀ σ, ExecX false (KOf G pi sp dep hi) (optExpr (annotate G.rho e)) σ (X.eval fuel G.xc e σ))
  | [], h => by simp [oneImp5] at h
  | a :: as, h => by
    simp only [oneImp5, Bool.or_eq_true, Bool.and_eq_true, List.all_eq_true] at h
    rcases h with ⟨ha, has⟩ | ⟨hca, has⟩
    · exact ⟨[], a, as, rfl, fun c hc => by simp at hc, has, ha, fun fuel hf σ => expr_ip_correct a fuel hf σ ha⟩
    · obtain ⟨pre, e, post, he, hpre, hpost, hipe, hE⟩ := args_one_correct as has
      refine ⟨a :: pre, e, post, by simp [he], ?_, hpost, hipe, hE⟩
      intro c hc
      rcases List.mem_cons.mp hc with rfl | hc
      · exact hca
      · exact hpre c hc
end

/-- The actuals of a call of the class, at every fuel below `F`. -/
theorem argsOK_5 (args : List X.Expr) (h : argsOk5 G.pk G.pnames G.xc.impure G.rho args = true) :
    ∀ f, f < F → ArgsOK G pi sp dep hi f args := by
  intro f hf
  simp only [argsOk5, Bool.or_eq_true, Bool.and_eq_true, List.all_eq_true] at h
  rcases h with (hp | ⟨hpk, hpp⟩) | hone
  · exact argsOK_pure ok hpi sp dep hi hlo hspv hstack f args hp
  · exact argsOK_pp ok hpi sp dep hi hlo hspv hstack (ok.pure_ok hpk) f
      (fun k hk => callLeaf_of_spec ok (ok.pure_ok hpk) hpi sp dep hi hlo hspv hstack k (fun j hj => hcs j (by omega)))
      args hpp
  · obtain ⟨pre, e, post, he, hpre, hpost, hipe, hE⟩ := args_one_correct ok hpi sp dep hi hlo hspv hstack F hcs args hone
    apply argsOK_of_phase ok hpi sp dep hi hlo hspv hstack f args
    intro po
    rw [he]
    exact actPhase_one (KOf G pi sp dep hi) (ok.wfs pi hpi sp dep hi hlo hspv).toWF po F (fun _ => true) pre e post
      hpre hpost (ipE5_ipE _ _ _ _ e hipe) hE f (by omega)

/-- The actuals of a system call that are constants except one of the class. -/
theorem sysPhase_5 (args : List X.Expr) (h : oneImp5 G.pk G.pnames G.xc.impure G.rho args = true) :
    ∀ f, f ≤ F → ActPhase (KOf G pi sp dep hi) 2 f args := by
  intro f hf
  obtain ⟨pre, e, post, he, hpre, hpost, hipe, hE⟩ := args_one_correct ok hpi sp dep hi hlo hspv hstack F hcs args h
  rw [he]
  exact actPhase_one (KOf G pi sp dep hi) (ok.wfs pi hpi sp dep hi hlo hspv).toWF 2 F (fun _ => true) pre e post
    hpre hpost (ipE5_ipE _ _ _ _ e hipe) hE f hf

/-- A condition with one call of any callee. -/
theorem condOK_ip (c : X.Expr) (hip : ipE5 G.pk G.pnames G.xc.impure G.rho c = true) :
    CondOK (KOf G pi sp dep hi) F c := by
  have hX := expr_ip_correct ok hpi sp dep hi hlo hspv hstack F hcs c F (Nat.le_refl _)
  have hcc := ip_containsCall G.rho (fun _ => true) c (ipE5_ipE _ _ _ _ c hip)
  refine ⟨?_, ?_, ?_, ?_⟩
  · intro st mem w s _ hev
    have hev' : X.eval F G.xc c st = .ok (.int w) s := hev
    have := hX st hip
    rw [hev'] at this
    exact this.toT
  · intro st mem cd s _ hev
    have hev' : X.eval F G.xc c st = .exit cd s := hev
    have := hX st hip
    rw [hev'] at this
    exact this.toExits
  · intro hn
    have : containsCall (optExpr (annotate G.rho c)) = false := hn
    rw [hcc] at this; simp at this
  · intro hn
    have : containsCall (optExpr (annotate G.rho c)) = false := hn
    rw [hcc] at this; simp at this

theorem condOK_5 (c : X.Expr) (h : cond5 G.pk G.pnames G.xc.impure G.rho c = true) : CondOK (KOf G pi sp dep hi) F c := by
  simp only [cond5, Bool.or_eq_true, Bool.and_eq_true] at h
  rcases h with (hp | ⟨hpk, hpp⟩) | hip
  · exact condOK_pure _ (ok.wfs pi hpi sp dep hi hlo hspv).toWF F c hp
  · exact condOK_pp ok (ok.pure_ok hpk) hpi sp dep hi hlo hspv hstack F hcs c hpp
  · exact condOK_ip ok hpi sp dep hi hlo hspv hstack F hcs c hip

end

/-! ### `a[i] := e` with a subscript and a value that may contain calls -/

theorem exec_assignSub_exit' (fuel : Nat) (xc : X.Ctx) (n : String) (i e : X.Expr) (σ st : X.St) (ht : X.tick xc σ = some st)
    (code : Word) (σ' : X.St) (h : X.exec (fuel + 1) xc (.assignSub n i e) σ = .exit code σ') :
    X.eval fuel xc i st = .exit code σ' ∨
    (∃ iv s, X.eval fuel xc i st = .ok (.int iv) s ∧ X.eval fuel xc e s = .exit code σ') := by
  unfold X.exec at h
  rw [ht] at h
  simp only at h
  split at h
  · simp at h
  unfold Res.bind at h
  cases hr : asInt "subscript" (X.eval fuel xc i st) with
  | ok iv s =>
    rw [hr] at h
    simp only at h
    cases hr2 : asInt "assigned value" (X.eval fuel xc e s) with
    | ok w s' =>
      rw [hr2] at h
      simp only at h
      split at h <;> simp at h
    | exit c s' =>
      rw [hr2] at h
      simp only [Res.exit.injEq] at h
      rw [← h.1, ← h.2]
      exact Or.inr ⟨iv, s, asInt_ok _ _ _ _ hr, asInt_exit _ _ _ _ hr2⟩
    | undef w => rw [hr2] at h; simp at h
  | exit c s =>
    rw [hr] at h
    simp only [Res.exit.injEq] at h
    rw [← h.1, ← h.2]
    exact Or.inl (asInt_exit _ _ _ _ hr)
  | undef w => rw [hr] at h; simp at h

/-- The array a name denotes does not depend on anything a call can change. -/
theorem readName_arr_frame (xc : X.Ctx) (s s' : X.St) (n : String) (r : ArrRef) (hf : FrameEq s s')
    (h : X.readName xc s' n = .ok (.arr r)) : X.readName xc s n = .ok (.arr r) := by
  unfold X.readName at h ⊢
  rw [hf.1] at h
  cases hl : s.locals.lookup n with
  | some b =>
    rw [hl] at h
    cases b with
    | var o => cases o <;> simp at h
    | _ => exact h
  | none =>
    rw [hl] at h
    simp only at h ⊢
    cases hg : xc.genv.lookup n with
    | none => rw [hg] at h; simp at h
    | some g =>
      rw [hg] at h
      cases g with
      | var =>
        simp only at h
        cases hgl : s'.gvars.lookup n with
        | none => rw [hgl] at h; simp at h
        | some o => rw [hgl] at h; cases o <;> simp at h
      | _ => exact h

/-- `a[i] := e`: the subscript and the value have their triples (`CondOK`: call-free, with calls
    of pure functions, or with one call of any callee next to constants). -/
theorem execS_assignSubG (K : PCtx) (exitJ : Nat) (wf : K.WFS exitJ) (f : Nat) (n : String) (ix e : X.Expr) (σ : X.St)
    (hI : CondOK K f ix) (hV : CondOK K f e)
    (hlocx : ∀ st mem cd s, Rep K st mem → X.eval f K.xc e st = .exit cd s → ∃ ad, K.loc n = some ad) :
    ExecS K exitJ (.assignSub n (optExpr (annotate K.ρ ix)) (optExpr (annotate K.ρ e))) σ
      (X.exec (f + 1) K.xc (.assignSub n ix e) σ) := by
  intro gs code gs' i a b mem hg hat hr hsz hnl hci
  cases ht : X.tick K.xc σ with
  | none => unfold X.exec; rw [ht]; trivial
  | some st =>
    have hs := tick_same _ _ _ ht
    have hrst : Rep K st mem := hr.same hs
    have hio0 : st.io = σ.io := hs.2.2.2.1
    obtain ⟨ci, gs1, sym, ce, gs2, h1, hl, h3, hgs', hcode⟩ := genStmt_assignSub_inv _ _ _ _ _ _ _ hg
    subst hcode; subst hgs'
    obtain ⟨e1o, e1s, _, e1c⟩ := genExpr_eff _ _ _ _ _ _ h1
    obtain ⟨e3o, e3s, _, e3c⟩ := genExpr_eff _ _ _ _ _ _ h3
    simp only at e3o e3s e3c hsz
    have hci2 : ConstsIn K gs2 := hci
    have hci1 : ConstsIn K gs1 := fun x hx => hci2 x (e3c x hx)
    have hoff : gs1.offset < K.S := by omega
    simp only [low_append, List.append_assoc] at hat ⊢
    have hl3 : K.low [iADD, iLDBM SP_OFFSET, IDir.fb FbKind.stai K.ctx.frame (-(gs1.offset : Int))]
        = [.opr 1, .imm 0x1 1, .imm 0x8 ((K.S : Int) - 1 + -(gs1.offset : Int))] := rfl
    have hl5 : K.low [iLDBM SP_OFFSET, IDir.fb FbKind.ldbi K.ctx.frame (-(gs1.offset : Int)), iSTAI 0]
        = [.imm 0x1 1, .imm 0x7 ((K.S : Int) - 1 + -(gs1.offset : Int)), .imm 0x8 0] := rfl
    rw [hl3, hl5] at hat ⊢
    -- what running the subscript's code and parking the element's address gives
    have hpark : ∀ (iv : Word) (s1 : X.St), X.eval f K.xc ix st = .ok (.int iv) s1 →
        ∀ ad, K.loc n = some ad → ad < memWords →
        ∃ (b1 : Word) (mem1 : Mem), Steps K.env (cfg i a b mem) σ.io
            (cfg (i + (K.low ci).length + (K.low (genVar .B sym)).length + 1 + 1 + 1) (iv + mem1.read ad) (mem1.read 1)
              (mem1.write (K.slot gs1.offset) (iv + mem1.read ad))) s1.io ∧
          Rep K s1 mem1 ∧ Rep K s1 (mem1.write (K.slot gs1.offset) (iv + mem1.read ad)) ∧
          (K.slot gs1.offset < memWords) := by
      intro iv s1 hev1 ad hloc hlt
      have hA := hI.exec st mem iv s1 hrst hev1
      obtain ⟨b1, mem1, st1, rep1, _⟩ := hA gs ci gs1 i a b mem h1 hat.left hrst (by omega) hnl hci1
      rw [hio0] at st1
      have s2' := exec_genVar K wf.toWF .B n sym s1 (i + (K.low ci).length) iv b1 mem1 s1.io ad hl hat.right.left rep1 hloc hlt
      simp only at s2'
      have hat3 := hat.right.right.left
      have sA := Step.add (env := K.env) (cfg (i + (K.low ci).length + (K.low (genVar .B sym)).length) iv (mem1.read ad) mem1) s1.io
        (by have := hat3.get 0 _ rfl; simpa [Nat.add_assoc] using this)
      have sB := Step.ldbm (env := K.env) (cfg (i + (K.low ci).length + (K.low (genVar .B sym)).length + 1) (iv + mem1.read ad) (mem1.read ad) mem1)
        s1.io 1 _ (by have := hat3.get 1 _ rfl; simpa [Nat.add_assoc] using this) (ld_one mem1)
      have hslot : (K.slot gs1.offset : Int) = (K.sp : Int) + (K.S : Int) - 1 + (-(gs1.offset : Int)) := by
        unfold PCtx.slot; omega
      have hadr := slot_addr K.sp K.S (-(gs1.offset : Int)) (K.slot gs1.offset) hslot
      obtain ⟨hsl1, hsl2⟩ := wf.slot_ok gs1.offset hoff
      have hst : IAm.store K.env mem1 (mem1.read 1 + IAm.W ((K.S : Int) - 1 + -(gs1.offset : Int))) (iv + mem1.read ad)
          = some (mem1.write (K.slot gs1.offset) (iv + mem1.read ad)) := by
        rw [rep1.sp, hadr]; exact store_ofNat _ _ _ _ hsl1 hsl2
      have hne1 : (mem1.read 1 + IAm.W ((K.S : Int) - 1 + -(gs1.offset : Int))).toNat ≠ 1 := by
        rw [rep1.sp, hadr]
        exact ofNat_toNat_ne_one _ (by have := wf.sp_ge; unfold PCtx.slot; omega) hsl1
      have sC := Step.stai (env := K.env) (cfg (i + (K.low ci).length + (K.low (genVar .B sym)).length + 1 + 1) (iv + mem1.read ad) (mem1.read 1) mem1)
        s1.io _ _ (by have := hat3.get 2 _ rfl; simpa [Nat.add_assoc] using this) hst hne1
      have frm2 : Frm K gs1.offset (gs1.offset + 1) mem1 (mem1.write (K.slot gs1.offset) (iv + mem1.read ad)) := by
        intro x hx
        rw [Mem.read_write_other]
        exact fun e => hx gs1.offset (Nat.le_refl _) (by omega) e.symm
      have rep2 := rep1.frame wf.toWF frm2 (by omega) (by omega)
      exact ⟨b1, mem1, st1.trans (s2'.trans (Steps.step _ _ _ _ _ _ sA (Steps.step _ _ _ _ _ _ sB (Steps.one sC)))),
        rep1, rep2, hsl1⟩
    cases hx : X.exec (f + 1) K.xc (.assignSub n ix e) σ with
    | undef w => trivial
    | exit c s =>
      rcases exec_assignSub_exit' f K.xc n ix e σ st ht c s hx with he | ⟨iv, s1, hev1, he⟩
      · obtain ⟨c', st', hex⟩ := hI.exit st mem c s hrst he gs ci gs1 i a b mem h1 hat.left hrst (by omega) hnl hci1
        rw [hio0] at st'
        exact ⟨c', st', hex⟩
      · -- the subscript is evaluated, the value terminates the program: the name must have a place
        have hA := hI.exec st mem iv s1 hrst hev1
        obtain ⟨b1, mem1, st1, rep1, _⟩ := hA gs ci gs1 i a b mem h1 hat.left hrst (by omega) hnl hci1
        -- the code loads the array's pointer before the value is evaluated: the name must have a place
        obtain ⟨ad, hloc⟩ := hlocx s1 mem1 c s rep1 he
        have hlt := (wf.loc_ok n ad hloc).2.1
        obtain ⟨b1', mem1', stp, _, rep2, _⟩ := hpark iv s1 hev1 ad hloc hlt
        obtain ⟨c', st', hex⟩ := hV.exit s1 _ c s rep2 he _ ce gs2
          (i + (K.low ci).length + (K.low (genVar .B sym)).length + 1 + 1 + 1) (iv + mem1'.read ad) (mem1'.read 1)
          (mem1'.write (K.slot gs1.offset) (iv + mem1'.read ad)) h3
          (by have := hat.right.right.right.left; simpa [Nat.add_assoc] using this) rep2 hsz (by simp only; omega) hci2
        exact ⟨c', stp.trans st', hex⟩
    | ok fl σ'' =>
      obtain ⟨iv, s1, w, s2, r, hev1, hev2, harr, hset, hfl⟩ := exec_assignSub f K.xc n ix e σ st ht fl σ'' hx
      subst hfl
      -- the array: the name denotes the same array before the value is evaluated
      have hf12 : FrameEq s1 s2 := eval_frame K.xc f e s1 _ s2 hev2
      have hrd2 := arrayOf_ok _ _ _ _ harr
      have hrd1 := readName_arr_frame K.xc s1 s2 n r hf12 hrd2
      obtain ⟨id, hid⟩ : ∃ id, r = .glob id := by
        cases r with
        | glob id => exact ⟨id, rfl⟩
        | lit ws => simp [X.arrSet] at hset
      subst hid
      -- the subscript, the pointer, the parked address
      have hA := hI.exec st mem iv s1 hrst hev1
      obtain ⟨b0, mem0, _, rep0, _⟩ := hA gs ci gs1 i a b mem h1 hat.left hrst (by omega) hnl hci1
      obtain ⟨ad, hloc, hlt, _⟩ := rep0.aptr n _ hrd1
      obtain ⟨b1, mem1, stp, rep1, rep2, hsl1⟩ := hpark iv s1 hev1 ad hloc hlt
      obtain ⟨ad', hloc', _, hptr0⟩ := rep1.aptr n _ hrd1
      have had : ad' = ad := by rw [hloc] at hloc'; exact (Option.some.inj hloc').symm
      subst had
      have hptr : mem1.read ad' = BitVec.ofNat 32 (K.abase id) := hptr0
      -- the value
      have hE := hV.exec s1 _ w s2 rep2 hev2
      obtain ⟨b3, mem3, st3, rep3, frm3⟩ := hE _ ce gs2 (i + (K.low ci).length + (K.low (genVar .B sym)).length + 1 + 1 + 1)
        (iv + mem1.read ad') (mem1.read 1) (mem1.write (K.slot gs1.offset) (iv + mem1.read ad')) h3
        (by have := hat.right.right.right.left; simpa [Nat.add_assoc] using this) rep2 hsz (by simp only; omega) hci2
      simp only [hiB_false] at frm3
      obtain ⟨cells, hc, h0, h1', hσ''⟩ := arrSet_glob s2 σ'' id iv w hset
      obtain ⟨hcsz, _⟩ := rep3.acells id cells hc
      have hidx : iv.toInt.toNat < K.asize id := by omega
      obtain ⟨hahi, hamw⟩ := wf.arr_hi id (by omega)
      have hsum : iv + BitVec.ofNat 32 (K.abase id) = BitVec.ofNat 32 (K.abase id + iv.toInt.toNat) := by
        rw [BitVec.add_comm]
        conv => lhs; rw [nonneg_ofNat iv h0]
        rw [BitVec.ofNat_add]
      have hslot : (K.slot gs1.offset : Int) = (K.sp : Int) + (K.S : Int) - 1 + (-(gs1.offset : Int)) := by
        unfold PCtx.slot; omega
      have hadr := slot_addr K.sp K.S (-(gs1.offset : Int)) (K.slot gs1.offset) hslot
      have hkeep : mem3.read (K.slot gs1.offset) = iv + mem1.read ad' := by
        rw [frm3 _ (slot_ge K gs1.offset hoff) (wf.toWF.not_inArr _ (by unfold PCtx.slot; omega)) (fun k h1 h2 e => by
          have := slot_inj K gs1.offset k hoff (by omega) e; omega)]
        exact Mem.read_write_same _ _ _ hsl1
      -- the address back into breg, the store
      have hat5 := hat.right.right.right.right
      simp only [List.length_cons, List.length_nil] at hat5
      have sD := Step.ldbm (env := K.env) (cfg (i + (K.low ci).length + (K.low (genVar .B sym)).length + 1 + 1 + 1 + (K.low ce).length) w b3 mem3)
        s2.io 1 _ (by have := hat5.get 0 _ rfl; simpa [Nat.add_assoc] using this) (ld_one mem3)
      have hld : Isa.ld mem3 (mem3.read 1 + IAm.W ((K.S : Int) - 1 + -(gs1.offset : Int))) = some (iv + mem1.read ad') := by
        rw [rep3.sp, hadr, ld_ofNat _ _ hsl1, hkeep]
      have sE := Step.ldbi (env := K.env) (cfg (i + (K.low ci).length + (K.low (genVar .B sym)).length + 1 + 1 + 1 + (K.low ce).length + 1) w (mem3.read 1) mem3)
        s2.io _ _ (by have := hat5.get 1 _ rfl; simpa [Nat.add_assoc] using this) hld
      have hW0 : IAm.W 0 = (0#32 : Word) := by decide
      have hea : iv + mem1.read ad' + IAm.W 0 = BitVec.ofNat 32 (K.abase id + iv.toInt.toNat) := by
        rw [hW0, BitVec.add_zero, hptr, hsum]
      have hst2 : IAm.store K.env mem3 (iv + mem1.read ad' + IAm.W 0) w
          = some (mem3.write (K.abase id + iv.toInt.toNat) w) := by
        rw [hea]; exact store_ofNat _ _ _ _ (by omega) (wf.arr_code id _ hidx)
      have hne2 : (iv + mem1.read ad' + IAm.W 0).toNat ≠ 1 := by
        rw [hea]; exact ofNat_toNat_ne_one _ (by have := wf.sp_ge; omega) (by omega)
      have sF := Step.stai (env := K.env) (cfg (i + (K.low ci).length + (K.low (genVar .B sym)).length + 1 + 1 + 1 + (K.low ce).length + 1 + 1) w (iv + mem1.read ad') mem3)
        s2.io 0 _ (by have := hat5.get 2 _ rfl; simpa [Nat.add_assoc] using this) hst2 hne2
      refine ⟨w, iv + mem1.read ad', mem3.write (K.abase id + iv.toInt.toNat) w, ?_, ?_⟩
      · have hio : σ''.io = s2.io := by rw [hσ'']
        rw [hio]
        have hlen : i + ((K.low ci).length + ((K.low (genVar .B sym)).length + (3 + ((K.low ce).length + 3))))
            = i + (K.low ci).length + (K.low (genVar .B sym)).length + 1 + 1 + 1 + (K.low ce).length + 1 + 1 + 1 := by omega
        simp only [List.length_append, List.length_cons, List.length_nil]
        rw [hlen]
        exact stp.trans (st3.trans (Steps.step _ _ _ _ _ _ sD (Steps.step _ _ _ _ _ _ sE (Steps.one sF))))
      · rw [hσ'']
        exact Rep.assignSub wf.toWF rep3 hc h0 h1'

end Hex.C01s
