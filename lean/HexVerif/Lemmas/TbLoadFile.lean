import HexVerif.Lemmas.SimLoadFile
import HexVerif.Tb.Model
import HexVerif.Lemmas.XcmpAmImage
/-!
  hextb's `load()` and hexsim's `load()` on the SAME assembler file put the same image words into
  their memories (C06: the hypothesis `himg` of the theorem, discharged for files `hexasm`/`xcmp`
  write).  hextb copies everything after the length word (image AND debug tables) to the bottom of
  `memory_q`; hexsim copies the image words only and leaves the rest zero.
-/
namespace Hex.Tb
open Hex Hex.Asm

theorem wordsOfBytes_append : ∀ (a b : List Byte), a.length % 4 = 0 →
    wordsOfBytes (a ++ b) = wordsOfBytes a ++ wordsOfBytes b
  | [], b, _ => by simp [wordsOfBytes]
  | [_], _, h => by simp at h
  | [_, _], _, h => by simp at h
  | [_, _, _], _, h => by simp at h
  | x1 :: x2 :: x3 :: x4 :: t, b, h => by
    have ht : t.length % 4 = 0 := by simp only [List.length_cons] at h; omega
    simp only [List.cons_append, wordsOfBytes]
    rw [wordsOfBytes_append t b ht]

/-- What hextb's `load()` copies: the file after its length word, as words. -/
def tbWords (file : List Byte) : List Word := wordsOfBytes (file.drop 4)

/-- On the words of the image the two loaders agree. -/
theorem loaders_agree (img : Image) (hsz : img.bytes.length % 4 = 0) (hfit : img.bytes.length ≤ 4 * memWords)
    (m : BitVec 19 → Word) (i : Nat) (hi : i < img.bytes.length / 4) :
    (Mem.zero.loadWords (wordsOfBytes img.bytes)).read i = loadMem m (tbWords (fileBytes img)) (BitVec.ofNat 19 i) := by
  have hlen : (wordsOfBytes img.bytes).length = img.bytes.length / 4 := by
    rw [Hex.Am.wordsOfBytes_length]; omega
  have hmw : memWords = 200000 := rfl
  rw [Hex.Am.loadWords_read _ (by rw [hlen]; omega) i (by rw [hlen]; exact hi)]
  unfold loadMem tbWords fileBytes
  rw [List.append_assoc, Sim.drop4_le32bytes, wordsOfBytes_append _ _ hsz]
  have h19 : (BitVec.ofNat 19 i).toNat = i := by
    simp only [BitVec.toNat_ofNat]; apply Nat.mod_eq_of_lt; omega
  rw [h19, List.getElem?_append_left (by rw [hlen]; exact hi)]
  rw [List.getElem?_eq_getElem (by rw [hlen]; exact hi)]
  simp [List.getD, List.getElem?_eq_getElem (show i < (wordsOfBytes img.bytes).length by rw [hlen]; exact hi)]

end Hex.Tb
