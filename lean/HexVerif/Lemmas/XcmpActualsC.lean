import HexVerif.Lemmas.XcmpActuals
/-!
  Actuals that contain calls, at the level of the machine: `genCallActuals` evaluates them first,
  left to right, and parks each value in a temporary; `loadActuals` then stores every actual into
  its parameter slot - a parked one from its temporary, the others by evaluating them.
  The lemmas here speak of a list of annotated actuals with a predicate on the word each stands for
  (the address of a string literal depends on the state of the generator), relative to ONE source
  state `σ` (calls of pure functions do not change what the memory represents).
-/
namespace Hex.C01s
open Hex Hex.X Hex.Xcmp Hex.IAm Hex.Asm

/-- The temporaries from `sv` on hold the words of the actuals that contain calls. -/
def SavedOk (K : PCtx) (mem : Mem) : List AExpr → List (Word → Prop) → Nat → Prop
  | a :: as, w :: ws, sv =>
    if containsCall a then w (mem.read (K.slot sv)) ∧ SavedOk K mem as ws (sv + 1) else SavedOk K mem as ws sv
  | _, _, _ => True

theorem SavedOk.frame {K : PCtx} {mem mem' : Mem} : ∀ (args : List AExpr) (ws : List (Word → Prop)) (sv : Nat),
    SavedOk K mem args ws sv →
    (∀ k, sv ≤ k → k < sv + countCalls args → mem'.read (K.slot k) = mem.read (K.slot k)) → SavedOk K mem' args ws sv := by
  intro args
  induction args with
  | nil => intro ws sv _ _; cases ws <;> trivial
  | cons a rest ih =>
    intro ws sv h hk
    cases ws with
    | nil => trivial
    | cons w ws' =>
      unfold SavedOk at h ⊢
      by_cases hc : containsCall a = true
      · rw [if_pos hc] at h ⊢
        simp only [countCalls, hc, if_true] at hk
        refine ⟨by rw [hk sv (Nat.le_refl _) (by omega)]; exact h.1, ih ws' (sv + 1) h.2 (fun k h1 h2 => hk k (by omega) (by omega))⟩
      · rw [if_neg hc] at h ⊢
        simp only [countCalls, hc, if_false] at hk
        exact ih ws' sv h (fun k h1 h2 => hk k h1 (by omega))

/-- The actuals without calls have their (tight) code triples. -/
def LoadSpec (K : PCtx) (σ : X.St) : List AExpr → List (Word → Prop) → Prop
  | a :: as, w :: ws => (containsCall a = false → ExecP true K a w σ) ∧ LoadSpec K σ as ws
  | _, _ => True

/-- The actuals with calls have their code triples. -/
def SaveSpec (K : PCtx) (σ : X.St) : List AExpr → List (Word → Prop) → Prop
  | a :: as, w :: ws => (containsCall a = true → ExecP false K a w σ) ∧ SaveSpec K σ as ws
  | _, _ => True

/-- **`loadActuals`**: every word ends up in its parameter slot. -/
theorem exec_loadItems (K : PCtx) (wf : K.WF) (σ : X.St) : ∀ (args : List AExpr) (ws : List (Word → Prop)), args.length = ws.length →
    LoadSpec K σ args ws →
    ∀ (p saved : Nat) (gs : GS) (code : Code) (gs' : GS) (i : Nat) (a b : Word) (mem : Mem),
      loadActuals K.ctx args p saved gs = .ok (code, gs') → At K.env.ds i (K.low code) → Rep K σ mem →
      SavedOk K mem args ws saved → saved + countCalls args ≤ gs.offset →
      gs'.size + (p + args.length) ≤ K.S → K.nlocals ≤ gs.offset → gs.offset ≤ gs.size → ConstsIn K gs' →
      ∃ a' b' mem', Steps K.env (cfg i a b mem) σ.io (cfg (i + (K.low code).length) a' b' mem') σ.io ∧ Rep K σ mem' ∧
        (∀ k (hk : k < ws.length), ws[k] (mem'.read (K.sp + p + k))) ∧
        (∀ q, q < p → mem'.read (K.sp + q) = mem.read (K.sp + q)) ∧
        FrmC K gs.offset K.S mem mem' := by
  intro args
  induction args with
  | nil =>
    intro ws hlen _ p saved gs code gs' i a b mem hg hat hr _ _ hb hnl hos hci
    rw [loadActuals_nil] at hg
    simp only [Except.ok.injEq, Prod.mk.injEq] at hg
    rw [← hg.1]
    have hws : ws = [] := by cases ws with | nil => rfl | cons _ _ => simp at hlen
    subst hws
    exact ⟨a, b, mem, Steps.refl _ _, hr, fun k hk => by simp at hk, fun _ _ => rfl, FrmC.refl _ _ _ _⟩
  | cons e rest ih =>
    intro ws hlen hspec p saved gs code gs' i a b mem hg hat hr hsv hsvb hb hnl hos hci
    cases ws with
    | nil => simp at hlen
    | cons P ws' =>
      simp only [List.length_cons, Nat.add_right_cancel_iff] at hlen
      obtain ⟨hhead, hrest⟩ := hspec
      have e0 := loadActuals_eff _ _ _ _ _ _ _ hg
      simp only [List.length_cons] at hb
      have hpS : p < K.S := by omega
      obtain ⟨hsl1, hsl2⟩ := wf.slot_ok (K.S - 1 - p) (by omega)
      rw [slot_of_out K p hpS] at hsl1 hsl2
      rcases loadActuals_cons_inv _ _ _ _ _ _ _ _ hg with ⟨hcc, cs, hg2, hcode⟩ | ⟨hcc, c, gs1, cs, hg1, hg2, hcode⟩
      · -- a parked value: from its temporary into the parameter slot
        subst hcode
        unfold SavedOk at hsv
        rw [if_pos hcc] at hsv
        obtain ⟨hsv0, hsvr⟩ := hsv
        simp only [countCalls, hcc, if_true] at hsvb
        have e2 := loadActuals_eff _ _ _ _ _ _ _ hg2
        simp only [low_append] at hat ⊢
        have hl4 : K.low [iLDAM SP_OFFSET, IDir.fb FbKind.ldai K.ctx.frame (-(saved : Int)), iLDBM SP_OFFSET, iSTAI (p : Int)]
            = [.imm 0x0 1, .imm 0x6 ((K.S : Int) - 1 + -(saved : Int)), .imm 0x1 1, .imm 0x8 (p : Int)] := rfl
        rw [hl4] at hat ⊢
        have t0 := hat.left.get 0 _ rfl
        have t1 := hat.left.get 1 _ rfl
        have t2 := hat.left.get 2 _ rfl
        have t3 := hat.left.get 3 _ rfl
        simp only [Nat.add_zero] at t0
        have hsvS : saved < K.S := by have := e2.2.1; omega
        have hslot : (K.slot saved : Int) = (K.sp : Int) + (K.S : Int) - 1 + (-(saved : Int)) := by
          unfold PCtx.slot; omega
        have hadrS := slot_addr K.sp K.S (-(saved : Int)) (K.slot saved) hslot
        obtain ⟨hss1, _⟩ := wf.slot_ok saved hsvS
        have s0 := Step.ldam (env := K.env) (cfg i a b mem) σ.io 1 _ t0 (ld_one mem)
        obtain ⟨v, hvdef⟩ : ∃ v, v = mem.read (K.slot saved) := ⟨_, rfl⟩
        rw [← hvdef] at hsv0
        have hld : Isa.ld mem (mem.read 1 + IAm.W ((K.S : Int) - 1 + -(saved : Int))) = some v := by
          rw [hr.sp, hadrS, ld_ofNat _ _ hss1, hvdef]
        have s1 := Step.ldai (env := K.env) (cfg (i + 1) (mem.read 1) b mem) σ.io _ _ t1 hld
        have s2 := Step.ldbm (env := K.env) (cfg (i + 1 + 1) v b mem) σ.io 1 _ t2 (ld_one mem)
        have hadr : mem.read 1 + IAm.W (p : Int) = BitVec.ofNat 32 (K.sp + p) := by
          rw [hr.sp]; exact ofNat_add_W K.sp p
        have hsto : IAm.store K.env mem (mem.read 1 + IAm.W (p : Int)) v = some (mem.write (K.sp + p) v) := by
          rw [hadr]; exact store_ofNat _ _ _ _ hsl1 hsl2
        have hne1 : (mem.read 1 + IAm.W (p : Int)).toNat ≠ 1 := by
          rw [hadr]; exact ofNat_toNat_ne_one _ (by have := wf.sp_ge; omega) hsl1
        have s3 := Step.stai (env := K.env) (cfg (i + 1 + 1 + 1) v (mem.read 1) mem) σ.io _ _ t3 hsto hne1
        have frm2 : Frm K (K.S - 1 - p) (K.S - p) mem (mem.write (K.sp + p) v) := by
          intro ad had
          rw [Mem.read_write_other]
          intro e
          apply had (K.S - 1 - p) (Nat.le_refl _) (by omega)
          rw [slot_of_out K p hpS]; exact e.symm
        have rep2 := hr.frame wf frm2 (by have := e2.2.1; omega) (by omega)
        have hsv2 : SavedOk K (mem.write (K.sp + p) v) rest ws' (saved + 1) := by
          apply SavedOk.frame rest ws' (saved + 1) hsvr
          intro k h1 h2
          rw [Mem.read_write_other]
          intro e
          have hk : k < K.S := by have := e2.2.1; omega
          rw [← slot_of_out K p hpS] at e
          have := slot_inj K (K.S - 1 - p) k (by omega) hk e
          have := e2.2.1
          omega
        obtain ⟨a', b', mem', st3, rep3, hvals, hkeep, frm3⟩ := ih ws' hlen hrest (p + 1) (saved + 1) gs cs gs'
          (i + 1 + 1 + 1 + 1) v (mem.read 1) (mem.write (K.sp + p) v) hg2
          (by simpa [Nat.add_assoc] using hat.right) rep2 hsv2 (by omega) (by omega) hnl hos hci
        refine ⟨a', b', mem', ?_, rep3, ?_, ?_, ?_⟩
        · have : i + ([Dir.imm 0 1, Dir.imm 6 ((K.S : Int) - 1 + -(saved : Int)), Dir.imm 1 1, Dir.imm 8 (p : Int)].length + (K.low cs).length)
              = i + 1 + 1 + 1 + 1 + (K.low cs).length := by
            simp only [List.length_cons, List.length_nil]; omega
          simp only [List.length_append]
          rw [this]
          exact Steps.step _ _ _ _ _ _ s0 (Steps.step _ _ _ _ _ _ s1 (Steps.step _ _ _ _ _ _ s2 (Steps.step _ _ _ _ _ _ s3 st3)))
        · intro k hk
          cases k with
          | zero =>
            simp only [Nat.add_zero, List.getElem_cons_zero]
            rw [hkeep p (by omega), Mem.read_write_same _ _ _ hsl1]
            exact hsv0
          | succ k' =>
            simp only [List.length_cons] at hk
            have := hvals k' (by omega)
            simp only [List.getElem_cons_succ]
            have e : K.sp + p + (k' + 1) = K.sp + (p + 1) + k' := by omega
            rw [e]
            exact this
        · intro q hq
          rw [hkeep q (by omega), Mem.read_write_other _ _ _ _ (by omega)]
        · intro ad hsp hna had
          rw [frm3 ad hsp hna had]
          rw [Mem.read_write_other _ _ _ _ (fun e => had (K.S - 1 - p)
            (by have := e2.2.1; omega) (by omega) (by rw [slot_of_out K p hpS]; exact e.symm))]
      · -- an actual without calls: evaluated into the parameter slot
        subst hcode
        unfold SavedOk at hsv
        rw [if_neg (by rw [hcc]; simp)] at hsv
        simp only [countCalls, hcc, Bool.false_eq_true, if_false, Nat.zero_add] at hsvb
        have e1 := genExpr_eff _ _ _ _ _ _ hg1
        have e2 := loadActuals_eff _ _ _ _ _ _ _ hg2
        simp only [low_append, List.append_assoc] at hat ⊢
        have hA := hhead hcc
        obtain ⟨v, b1, mem1, hPv, st1, rep1, frm1⟩ := hA gs c gs1 i a b mem hg1 hat.left hr
          (by have := e2.2.1; omega) hnl (hci.of_eff e2)
        rw [hiB_true] at frm1
        have hmid : K.low [iLDBM SP_OFFSET, iSTAI (p : Int)] = [.imm 0x1 1, .imm 0x8 (p : Int)] := rfl
        rw [hmid] at hat ⊢
        have hld := hat.right.left.get 0 _ rfl
        have hst := hat.right.left.get 1 _ rfl
        simp only [Nat.add_zero] at hld hst
        have sA := Step.ldbm (env := K.env) (cfg (i + (K.low c).length) v b1 mem1) σ.io 1 _ hld (ld_one mem1)
        have hadr : mem1.read 1 + IAm.W (p : Int) = BitVec.ofNat 32 (K.sp + p) := by
          rw [rep1.sp]; exact ofNat_add_W K.sp p
        have hsto : IAm.store K.env mem1 (mem1.read 1 + IAm.W (p : Int)) v = some (mem1.write (K.sp + p) v) := by
          rw [hadr]; exact store_ofNat _ _ _ _ hsl1 hsl2
        have hne1 : (mem1.read 1 + IAm.W (p : Int)).toNat ≠ 1 := by
          rw [hadr]; exact ofNat_toNat_ne_one _ (by have := wf.sp_ge; omega) hsl1
        have sB := Step.stai (env := K.env) (cfg (i + (K.low c).length + 1) v (mem1.read 1) mem1) σ.io _ _ hst hsto hne1
        have frm2 : Frm K (K.S - 1 - p) (K.S - p) mem1 (mem1.write (K.sp + p) v) := by
          intro ad had
          rw [Mem.read_write_other]
          intro e
          apply had (K.S - 1 - p) (Nat.le_refl _) (by omega)
          rw [slot_of_out K p hpS]; exact e.symm
        have rep2 := rep1.frame wf frm2 (by have := e1.2.1; have := e2.2.1; omega) (by omega)
        have hsv2 : SavedOk K (mem1.write (K.sp + p) v) rest ws' saved := by
          apply SavedOk.frame rest ws' saved hsv
          intro k h1 h2
          have hk : k < K.S := by have := e1.2.1; have := e2.2.1; omega
          rw [Mem.read_write_other]
          · exact frm1 _ (slot_ge K k hk) (wf.not_inArr _ (by unfold PCtx.slot; omega))
              (fun k' h1' h2' e => by have := slot_inj K k k' hk (by have := e2.2.1; omega) e; omega)
          · intro e
            rw [← slot_of_out K p hpS] at e
            have := slot_inj K (K.S - 1 - p) k (by omega) hk e
            have := e1.2.1
            have := e2.2.1
            omega
        obtain ⟨a', b', mem', st3, rep3, hvals, hkeep, frm3⟩ := ih ws' hlen hrest (p + 1) saved gs1 cs gs'
          (i + (K.low c).length + 1 + 1) v (mem1.read 1) (mem1.write (K.sp + p) v) hg2
          (by simpa [Nat.add_assoc] using hat.right.right) rep2 hsv2
          (by have := e1.1; omega) (by omega) (by have := e1.1; omega) (by have := e1.1; have := e1.2.1; omega) hci
        refine ⟨a', b', mem', ?_, rep3, ?_, ?_, ?_⟩
        · have : i + ((K.low c).length + ([Dir.imm 1 1, Dir.imm 8 (p : Int)].length + (K.low cs).length))
              = i + (K.low c).length + 1 + 1 + (K.low cs).length := by
            simp only [List.length_cons, List.length_nil]; omega
          simp only [List.length_append]
          rw [this]
          exact st1.trans (Steps.step _ _ _ _ _ _ sA (Steps.step _ _ _ _ _ _ sB st3))
        · intro k hk
          cases k with
          | zero =>
            simp only [Nat.add_zero, List.getElem_cons_zero]
            rw [hkeep p (by omega), Mem.read_write_same _ _ _ hsl1]
            exact hPv
          | succ k' =>
            simp only [List.length_cons] at hk
            have := hvals k' (by omega)
            simp only [List.getElem_cons_succ]
            have e : K.sp + p + (k' + 1) = K.sp + (p + 1) + k' := by omega
            rw [e]
            exact this
        · intro q hq
          rw [hkeep q (by omega), Mem.read_write_other _ _ _ _ (by omega)]
          apply frm1 _ (by omega) (wf.not_inArr _ (by omega))
          intro k h1' h2' e
          have hq' : q < K.S := by omega
          rw [← slot_of_out K q hq'] at e
          have := slot_inj K (K.S - 1 - q) k (by omega) (by have := e2.2.1; omega) e
          have := e2.2.1
          omega
        · intro ad hsp hna had
          rw [frm3 ad hsp hna (fun k h1' h2' => had k (by have := e1.1; omega) h2')]
          rw [Mem.read_write_other _ _ _ _ (fun e => had (K.S - 1 - p)
            (by have := e1.2.1; have := e2.2.1; omega) (by omega) (by rw [slot_of_out K p hpS]; exact e.symm))]
          exact frm1 ad hsp hna (fun k h1' h2' => had k h1' (by have := e2.2.1; omega))

theorem genCallActuals_facts (ctx : Xcmp.Ctx) : ∀ (args : List AExpr) (gs : GS) (code : Code) (gs' : GS),
    genCallActuals ctx args gs = .ok (code, gs') →
    gs'.offset = gs.offset + countCalls args ∧ gs.size ≤ gs'.size ∧ (∀ e ∈ gs.items, e ∈ gs'.items) ∧
    (gs.offset ≤ gs.size → gs'.offset ≤ gs'.size) := by
  intro args
  induction args with
  | nil =>
    intro gs code gs' h
    rw [genCallActuals_nil] at h
    simp only [Except.ok.injEq, Prod.mk.injEq] at h
    rw [← h.2]
    exact ⟨by simp [countCalls], Nat.le_refl _, fun _ h => h, fun h => h⟩
  | cons a rest ih =>
    intro gs code gs' h
    rcases genCallActuals_cons_inv _ _ _ _ _ _ h with ⟨hcc, c, gs1, cs, hg1, hg2, _⟩ | ⟨hcc, hg2⟩
    · obtain ⟨e1o, e1s, _, e1c⟩ := genExpr_eff _ _ _ _ _ _ hg1
      obtain ⟨h1, h2, h3, h4⟩ := ih _ _ _ hg2
      simp only at h1 h2 h3 h4
      refine ⟨by simp only [countCalls, hcc, if_true]; omega, by omega, fun x hx => h3 x (e1c x hx), fun _ => h4 (by omega)⟩
    · obtain ⟨h1, h2, h3, h4⟩ := ih _ _ _ hg2
      exact ⟨by simp only [countCalls, hcc, Bool.false_eq_true, if_false, Nat.zero_add]; exact h1, h2, h3, h4⟩

/-- **`genCallActuals`**: the actuals with calls are evaluated in order, each value is parked in a
    temporary. -/
theorem exec_saveItems (K : PCtx) (wf : K.WF) (σ : X.St) : ∀ (args : List AExpr) (ws : List (Word → Prop)), args.length = ws.length →
    SaveSpec K σ args ws →
    ∀ (gs : GS) (code : Code) (gs' : GS) (i : Nat) (a b : Word) (mem : Mem),
      genCallActuals K.ctx args gs = .ok (code, gs') → At K.env.ds i (K.low code) → Rep K σ mem →
      gs'.size ≤ K.S → K.nlocals ≤ gs.offset → gs'.offset ≤ gs'.size → ConstsIn K gs' →
      ∃ a' b' mem', Steps K.env (cfg i a b mem) σ.io (cfg (i + (K.low code).length) a' b' mem') σ.io ∧ Rep K σ mem' ∧
        SavedOk K mem' args ws gs.offset ∧ gs'.offset = gs.offset + countCalls args ∧ gs.size ≤ gs'.size ∧
        (∀ e ∈ gs.items, e ∈ gs'.items) ∧ FrmC K gs.offset K.S mem mem' := by
  intro args
  induction args with
  | nil =>
    intro ws hlen _ gs code gs' i a b mem hg hat hr _ _ _ _
    rw [genCallActuals_nil] at hg
    simp only [Except.ok.injEq, Prod.mk.injEq] at hg
    rw [← hg.1, ← hg.2]
    exact ⟨a, b, mem, Steps.refl _ _, hr, by cases ws <;> trivial, by simp [countCalls], Nat.le_refl _, fun _ h => h,
      FrmC.refl _ _ _ _⟩
  | cons e rest ih =>
    intro ws hlen hspec gs code gs' i a b mem hg hat hr hsz hnl hos hci
    cases ws with
    | nil => simp at hlen
    | cons P ws' =>
      simp only [List.length_cons, Nat.add_right_cancel_iff] at hlen
      obtain ⟨hhead, hrest⟩ := hspec
      rcases genCallActuals_cons_inv _ _ _ _ _ _ hg with ⟨hcc, c, gs1, cs, hg1, hg2, hcode⟩ | ⟨hcc, hg2⟩
      · subst hcode
        obtain ⟨e1o, e1s, _, e1c⟩ := genExpr_eff _ _ _ _ _ _ hg1
        simp only [low_append, List.append_assoc] at hat ⊢
        have hl2 : K.low [iLDBM SP_OFFSET, IDir.fb FbKind.stai K.ctx.frame (-(gs1.offset : Int))]
            = [.imm 0x1 1, .imm 0x8 ((K.S : Int) - 1 + -(gs1.offset : Int))] := rfl
        rw [hl2] at hat ⊢
        -- the rest first (for its frame facts)
        obtain ⟨gs2, hgs2⟩ : ∃ g : GS, g = { gs1 with offset := gs1.offset + 1, size := max gs1.size (gs1.offset + 1) } := ⟨_, rfl⟩
        rw [← hgs2] at hg2
        have hA := hhead hcc
        -- frame arithmetic needs the effect of the rest: obtained from the induction hypothesis below
        obtain ⟨_, f2s, f2c, _⟩ := genCallActuals_facts K.ctx rest gs2 cs gs' hg2
        have hoffS : gs1.offset + 1 ≤ K.S ∧ gs1.size ≤ K.S := by
          rw [hgs2] at f2s
          simp only at f2s
          omega
        obtain ⟨v, b1, mem1, hPv, st1, rep1, frm1⟩ := hA gs c gs1 i a b mem hg1 hat.left hr (by omega) hnl
          (fun x hx => hci x (f2c x (by rw [hgs2]; exact hx)))
        rw [hiB_false] at frm1
        have hoff : gs1.offset < K.S := by omega
        have hld := hat.right.left.get 0 _ rfl
        have hst := hat.right.left.get 1 _ rfl
        simp only [Nat.add_zero] at hld hst
        have sA := Step.ldbm (env := K.env) (cfg (i + (K.low c).length) v b1 mem1) σ.io 1 _ hld (ld_one mem1)
        have hslot : (K.slot gs1.offset : Int) = (K.sp : Int) + (K.S : Int) - 1 + (-(gs1.offset : Int)) := by
          unfold PCtx.slot; omega
        have hadr := slot_addr K.sp K.S (-(gs1.offset : Int)) (K.slot gs1.offset) hslot
        obtain ⟨hsl1, hsl2⟩ := wf.slot_ok gs1.offset hoff
        have hsto : IAm.store K.env mem1 (mem1.read 1 + IAm.W ((K.S : Int) - 1 + -(gs1.offset : Int))) v
            = some (mem1.write (K.slot gs1.offset) v) := by
          rw [rep1.sp, hadr]; exact store_ofNat _ _ _ _ hsl1 hsl2
        have hne1 : (mem1.read 1 + IAm.W ((K.S : Int) - 1 + -(gs1.offset : Int))).toNat ≠ 1 := by
          rw [rep1.sp, hadr]
          exact ofNat_toNat_ne_one _ (by have := wf.sp_ge; unfold PCtx.slot; omega) hsl1
        have sB := Step.stai (env := K.env) (cfg (i + (K.low c).length + 1) v (mem1.read 1) mem1) σ.io _ _ hst hsto hne1
        have frm2 : Frm K gs1.offset (gs1.offset + 1) mem1 (mem1.write (K.slot gs1.offset) v) := by
          intro ad had
          rw [Mem.read_write_other]
          exact fun e => had gs1.offset (Nat.le_refl _) (by omega) e.symm
        have rep2 := rep1.frame wf frm2 (by omega) (by omega)
        obtain ⟨a', b', mem', st3, rep3, hsv3, ho3, hs3, hc3, frm3⟩ := ih ws' hlen hrest gs2 cs gs'
          (i + (K.low c).length + 1 + 1) v (mem1.read 1) (mem1.write (K.slot gs1.offset) v) hg2
          (by simpa [Nat.add_assoc] using hat.right.right) rep2 hsz (by rw [hgs2]; simp only; omega) hos hci
        rw [hgs2] at hsv3 ho3 hs3 hc3 frm3
        simp only at hsv3 ho3 hs3 hc3 frm3
        refine ⟨a', b', mem', ?_, rep3, ?_, ?_, by omega, fun x hx => hc3 x (e1c x hx), ?_⟩
        · have : i + ((K.low c).length + ([Dir.imm 1 1, Dir.imm 8 ((K.S : Int) - 1 + -(gs1.offset : Int))].length + (K.low cs).length))
              = i + (K.low c).length + 1 + 1 + (K.low cs).length := by
            simp only [List.length_cons, List.length_nil]; omega
          simp only [List.length_append]
          rw [this]
          exact st1.trans (Steps.step _ _ _ _ _ _ sA (Steps.step _ _ _ _ _ _ sB st3))
        · unfold SavedOk
          rw [if_pos hcc]
          refine ⟨?_, by rw [← e1o]; exact hsv3⟩
          rw [← e1o]
          rw [frm3 _ (slot_ge K gs1.offset hoff) (wf.not_inArr _ (by unfold PCtx.slot; omega))
            (fun k h1 h2 e => by have := slot_inj K gs1.offset k hoff (by omega) e; omega)]
          rw [Mem.read_write_same _ _ _ hsl1]
          exact hPv
        · simp only [countCalls, hcc, if_true]
          omega
        · intro ad hsp hna had
          rw [frm3 ad hsp hna (fun k h1 h2 => had k (by omega) h2)]
          rw [Mem.read_write_other _ _ _ _ (fun e => had gs1.offset (by omega) (by omega) e.symm)]
          exact frm1 ad hsp hna had
      · obtain ⟨a', b', mem', st3, rep3, hsv3, ho3, hs3, hc3, frm3⟩ := ih ws' hlen hrest gs code gs' i a b mem hg2 hat hr hsz hnl hos hci
        refine ⟨a', b', mem', st3, rep3, ?_, ?_, hs3, hc3, frm3⟩
        · unfold SavedOk
          rw [if_neg (by rw [hcc]; simp)]
          exact hsv3
        · simp only [countCalls, hcc, Bool.false_eq_true, if_false, Nat.zero_add]
          exact ho3

end Hex.C01s
