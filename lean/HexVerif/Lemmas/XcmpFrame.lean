import HexVerif.Lemmas.XcmpGenStmt
/-!
  C08 (static part): frame accounting of the code generator.  Every frame-base relative access
  (`IDir.fb`) the generators emit is either a temporary of the procedure's own frame at an offset
  below the running `Frame::size`, or the slot of a symbol found in the current scope.
-/
namespace Hex.Xcmp
open Hex.Asm (Dir LabelKind)

/-- A frame-relative access of the procedure of `ctx` whose frame has (at least) `S` words. -/
def FbOk (ctx : Ctx) (S : Nat) : IDir → Prop
  | .fb _ frame off =>
    (frame = ctx.frame ∧ off ≤ 0 ∧ (-off).toNat < S) ∨
    (∃ n sym, ctx.tbl.lookup ctx.scope n = .ok sym ∧ sym.scope ≠ "" ∧ (frame = sym.frame ∨ frame = ctx.frame) ∧
      off = sym.stackOffset)
  | _ => True

def CodeOk (ctx : Ctx) (S : Nat) (code : Code) : Prop := ∀ d ∈ code, FbOk ctx S d

theorem FbOk.mono {ctx : Ctx} {S S' : Nat} {d : IDir} (h : FbOk ctx S d) (hs : S ≤ S') : FbOk ctx S' d := by
  cases d with
  | fb k frame off =>
    rcases h with ⟨h1, h2, h3⟩ | h
    · exact Or.inl ⟨h1, h2, by omega⟩
    · exact Or.inr h
  | _ => trivial

theorem CodeOk.mono {ctx : Ctx} {S S' : Nat} {c : Code} (h : CodeOk ctx S c) (hs : S ≤ S') : CodeOk ctx S' c :=
  fun d hd => (h d hd).mono hs

theorem CodeOk.append {ctx : Ctx} {S : Nat} {c1 c2 : Code} (h1 : CodeOk ctx S c1) (h2 : CodeOk ctx S c2) :
    CodeOk ctx S (c1 ++ c2) := by
  intro d hd
  rcases List.mem_append.mp hd with h | h
  · exact h1 d h
  · exact h2 d h

theorem CodeOk.nil (ctx : Ctx) (S : Nat) : CodeOk ctx S [] := fun _ h => by simp at h

/-- Code without frame-relative accesses. -/
def noFb (c : Code) : Prop := ∀ d ∈ c, ∀ k f o, d ≠ .fb k f o

theorem CodeOk.of_noFb {ctx : Ctx} {S : Nat} {c : Code} (h : noFb c) : CodeOk ctx S c := by
  intro d hd
  cases d with
  | fb k f o => exact absurd rfl (h _ hd k f o)
  | _ => trivial

theorem noFb_dirs (ds : List Dir) : noFb (ds.map IDir.dir) := by
  intro d hd k f o
  obtain ⟨x, _, rfl⟩ := List.mem_map.mp hd
  simp

theorem temp_ok (ctx : Ctx) (S o : Nat) (k : FbKind) (h : o < S) : FbOk ctx S (.fb k ctx.frame (-(o : Int))) := by
  refine Or.inl ⟨rfl, by omega, ?_⟩
  simp only [Int.neg_neg, Int.toNat_natCast]
  exact h

theorem genVar_ok (ctx : Ctx) (S : Nat) (reg : Reg) (n : String) (sym : Symbol) (h : ctx.tbl.lookup ctx.scope n = .ok sym) :
    CodeOk ctx S (genVar reg sym) := by
  unfold genVar
  by_cases hs : sym.scope = ""
  · rw [if_pos hs]
    cases reg <;> (intro d hd; simp at hd; subst hd; trivial)
  · rw [if_neg hs]
    cases reg <;>
      (intro d hd
       simp only [List.mem_cons, List.not_mem_nil, or_false] at hd
       rcases hd with rfl | rfl
       · trivial
       · exact Or.inr ⟨n, sym, h, hs, Or.inl rfl, rfl⟩)

theorem genConst_ok (ctx : Ctx) (S : Nat) (reg : Reg) (v : CInt) (gs gs' : GS) (code : Code)
    (h : genConst reg v gs = .ok (code, gs')) : CodeOk ctx S code := by
  obtain ⟨_, _, _, hc⟩ := genConst_inv reg v gs gs' code h
  rcases hc with ⟨_, _, _, rfl⟩ | ⟨_, label, _, rfl⟩
  · cases reg <;> (intro d hd; simp [constCode] at hd; subst hd; trivial)
  · cases reg <;> (intro d hd; simp [poolCode] at hd; subst hd; trivial)

theorem genString_ok (ctx : Ctx) (S : Nat) (reg : Reg) (bs : List Byte) (gs gs' : GS) (code : Code)
    (h : genString reg bs gs = .ok (code, gs')) : CodeOk ctx S code := by
  unfold genString at h
  msimp at h
  cases reg <;> simp only [StateT.pure, pure, Except.pure, Except.ok.injEq, Prod.mk.injEq] at h <;>
    (rw [← h.1]; intro d hd; simp at hd; subst hd; trivial)

theorem selectTail_ok (ctx : Ctx) (S : Nat) (br : String → IDir) (hbr : ∀ l, ∃ d, br l = .dir d) (t e : String) :
    CodeOk ctx S (selectTail br t e) := by
  intro d hd
  simp only [selectTail, List.mem_cons, List.not_mem_nil, or_false] at hd
  rcases hd with rfl | rfl | rfl | rfl | rfl | rfl
  · obtain ⟨x, hx⟩ := hbr t; rw [hx]; trivial
  all_goals trivial

theorem CodeOk.cons {ctx : Ctx} {S : Nat} {d : IDir} {c : Code} (h1 : FbOk ctx S d) (h2 : CodeOk ctx S c) :
    CodeOk ctx S (d :: c) := by
  intro x hx
  rcases List.mem_cons.mp hx with rfl | h
  · exact h1
  · exact h2 x h

theorem dir_ok (ctx : Ctx) (S : Nat) (d : Dir) : FbOk ctx S (.dir d) := trivial

theorem genOperands_ok (ctx : Ctx) (l r : AExpr)
    (ihl : ∀ gs code gs', genExpr ctx l .A gs = .ok (code, gs') → gs.offset ≤ gs.size → CodeOk ctx gs'.size code)
    (ihra : ∀ gs code gs', genExpr ctx r .A gs = .ok (code, gs') → gs.offset ≤ gs.size → CodeOk ctx gs'.size code)
    (ihrb : ∀ gs code gs', genExpr ctx r .B gs = .ok (code, gs') → gs.offset ≤ gs.size → CodeOk ctx gs'.size code)
    (gs gs' : GS) (code : Code) (h : genOperands ctx l r gs = .ok (code, gs')) (ho : gs.offset ≤ gs.size) :
    CodeOk ctx gs'.size code := by
  unfold genOperands at h
  obtain ⟨hA, hB⟩ := binopOperands_inv _ _ _ _ _ _ _ _ h
  cases hn : needsAReg r with
  | true =>
    obtain ⟨cr, gs1, cl, gs2, h1, h2, h3, h4⟩ := hA hn
    have e1 := genExpr_eff _ _ _ _ _ _ h1
    have e2 := genExpr_eff _ _ _ _ _ _ h2
    have ok1 := ihra _ _ _ h1 ho
    have ok2 := ihl _ _ _ h2 (by simp only; omega)
    subst h4; subst h3
    simp only at e2 ⊢
    have hsz : gs1.offset < gs2.size := by have := e2.2.1; simp only at this; omega
    refine ((((ok1.mono (by have := e2.2.1; simp only at this; omega)).append ?_).append ok2).append ?_)
    · exact CodeOk.cons (dir_ok _ _ _) (CodeOk.cons (temp_ok ctx _ _ _ hsz) (CodeOk.nil _ _))
    · exact CodeOk.cons (dir_ok _ _ _) (CodeOk.cons (temp_ok ctx _ _ _ hsz) (CodeOk.nil _ _))
  | false =>
    obtain ⟨cl, gs1, cr, h1, h2, h3⟩ := hB hn
    have e1 := genExpr_eff _ _ _ _ _ _ h1
    have e2 := genExpr_eff _ _ _ _ _ _ h2
    subst h3
    exact ((ihl _ _ _ h1 ho).mono e2.2.1).append (ihrb _ _ _ h2 (by rw [e1.1]; have := e1.2.1; omega))

theorem eqOperand_ok (ctx : Ctx) (l r : AExpr) (lz rz : Bool)
    (ihl : ∀ gs code gs', genExpr ctx l .A gs = .ok (code, gs') → gs.offset ≤ gs.size → CodeOk ctx gs'.size code)
    (ihra : ∀ gs code gs', genExpr ctx r .A gs = .ok (code, gs') → gs.offset ≤ gs.size → CodeOk ctx gs'.size code)
    (ihrb : ∀ gs code gs', genExpr ctx r .B gs = .ok (code, gs') → gs.offset ≤ gs.size → CodeOk ctx gs'.size code)
    (gs gs' : GS) (code : Code)
    (h : eqOperand lz rz (genExpr ctx l .A) (genExpr ctx r .A) (genOperands ctx l r) gs = .ok (code, gs'))
    (ho : gs.offset ≤ gs.size) : CodeOk ctx gs'.size code := by
  rcases eqOperand_inv _ _ _ _ _ _ _ _ h with ⟨_, h1⟩ | ⟨_, _, h1⟩ | ⟨_, _, c, h1, rfl⟩
  · exact ihra _ _ _ h1 ho
  · exact ihl _ _ _ h1 ho
  · exact (genOperands_ok ctx l r ihl ihra ihrb _ _ _ h1 ho).append (CodeOk.cons (dir_ok _ _ _) (CodeOk.nil _ _))

theorem lBRZ_dir (l : String) : ∃ d, lBRZ l = .dir d := ⟨_, rfl⟩
theorem lBRN_dir (l : String) : ∃ d, lBRN l = .dir d := ⟨_, rfl⟩

theorem callTail_ok (ctx : Ctx) (S : Nat) (kind : CallKind) (lc : Nat) : CodeOk ctx S (callTail kind lc) := by
  intro d hd
  cases kind <;> simp [callTail] at hd <;> (rcases hd with rfl | rfl | rfl | rfl | rfl <;> trivial) <;> trivial

/-- **Frame accounting of expressions** (C08, static): every frame-relative access generated for an
    expression is a temporary below the resulting `Frame::size` or the slot of a symbol in scope. -/
theorem genExpr_ok (ctx : Ctx) (e : AExpr) (reg : Reg) :
    ∀ (gs : GS) (code : Code) (gs' : GS), genExpr ctx e reg gs = .ok (code, gs') → gs.offset ≤ gs.size →
      CodeOk ctx gs'.size code := by
  apply genExpr.induct
    (motive_1 := fun e reg => ∀ (gs : GS) (code : Code) (gs' : GS), genExpr ctx e reg gs = .ok (code, gs') →
        gs.offset ≤ gs.size → CodeOk ctx gs'.size code)
    (motive_2 := fun args p s => ∀ (gs : GS) (code : Code) (gs' : GS), loadActuals ctx args p s gs = .ok (code, gs') →
        gs.offset ≤ gs.size → s + countCalls args ≤ gs.size → CodeOk ctx gs'.size code)
    (motive_3 := fun args => ∀ (gs : GS) (code : Code) (gs' : GS), genCallActuals ctx args gs = .ok (code, gs') →
        gs.offset ≤ gs.size → CodeOk ctx gs'.size code)
  -- num, bool, str, name
  · intro v c reg gs code gs' h _; rw [genExpr_num] at h; exact genConst_ok _ _ _ _ _ _ _ h
  · intro b c reg gs code gs' h _; rw [genExpr_bool] at h; exact genConst_ok _ _ _ _ _ _ _ h
  · intro bs reg gs code gs' h _; rw [genExpr_str] at h; exact genString_ok _ _ _ _ _ _ _ h
  · intro n reg v gs code gs' h _; rw [genExpr_name_const] at h; exact genConst_ok _ _ _ _ _ _ _ h
  · intro n reg gs code gs' h _
    obtain ⟨sym, hl, hc, _⟩ := genExpr_name_inv _ _ _ _ _ _ h
    subst hc
    exact genVar_ok ctx _ reg n sym hl
  -- sub
  · intro n i x ih gs code gs' h ho
    obtain ⟨sym, hl, hc⟩ := genExpr_sub_inv _ _ _ _ _ _ _ h
    rcases hc with ⟨v, _, rfl, _⟩ | ⟨_, ci, h2, rfl⟩
    · exact (genVar_ok ctx _ .A n sym hl).append (CodeOk.cons (dir_ok _ _ _) (CodeOk.nil _ _))
    · exact ((ih _ _ _ h2 ho).append (genVar_ok ctx _ .B n sym hl)).append
        (CodeOk.cons (dir_ok _ _ _) (CodeOk.cons (dir_ok _ _ _) (CodeOk.nil _ _)))
  -- call
  · intro sys f args x ih3 ih2 gs code gs' h ho
    obtain ⟨kind, _, hs⟩ := genExpr_call_inv _ _ _ _ _ _ _ _ h
    obtain ⟨c1, gs1, c2, gs2, h1, h2, hc, h4⟩ := callSeq_inv _ _ _ _ _ _ _ _ hs
    have ok1 := ih3 _ _ _ h1 (by simp)
    have e1 := genCallActuals_eff _ _ _ _ _ h1
    obtain ⟨b1, b2, b3, b4, b5⟩ := bumpN_facts (countCalls args) { gs1 with offset := gs.offset }
    have hsz1 : gs.offset ≤ gs1.size := by have := e1.2.1; simpa using this
    simp only at b1 b2 b4
    have hb : gs.offset + countCalls args ≤ (bumpN (countCalls args) { gs1 with offset := gs.offset }).size := by
      by_cases hz : 0 < countCalls args
      · exact b4 hz
      · have : countCalls args = 0 := by omega
        rw [this] at b2 ⊢
        omega
    have ok2 := ih2 _ _ _ _ _ h2 (by rw [b1]; exact hb) hb
    have e2 := loadActuals_eff _ _ _ _ _ _ _ h2
    subst h4; subst hc
    simp only
    have hs1 : gs1.size ≤ gs2.size := Nat.le_trans b2 e2.2.1
    refine ((ok1.mono ?_).append (ok2.mono ?_)).append (callTail_ok _ _ _ _)
    · omega
    · omega
  -- un const, not, neg
  · intro op e reg v gs code gs' h _; rw [genExpr_un_const] at h; exact genConst_ok _ _ _ _ _ _ _ h
  · intro e reg ih gs code gs' h ho
    obtain ⟨ce, h1, rfl⟩ := genExpr_not_inv _ _ _ _ _ _ h
    exact (ih _ _ _ h1 ho).append (selectTail_ok _ _ _ lBRZ_dir _ _)
  · intro e reg gs code gs' h _
    rw [genExpr_neg] at h
    simp only [Except.ok.injEq, Prod.mk.injEq] at h
    rw [← h.1]; exact CodeOk.nil _ _
  -- bin const
  · intro op l r reg v gs code gs' h _; rw [genExpr_bin_const] at h; exact genConst_ok _ _ _ _ _ _ _ h
  -- plus, minus
  · intro l r reg ihl ihra ihrb gs code gs' h ho
    obtain ⟨c, h1, rfl⟩ := genExpr_plus_inv _ _ _ _ _ _ _ h
    exact (genOperands_ok ctx l r ihl ihra ihrb _ _ _ h1 ho).append (CodeOk.cons (dir_ok _ _ _) (CodeOk.nil _ _))
  · intro l r reg ihl ihra ihrb gs code gs' h ho
    obtain ⟨c, h1, rfl⟩ := genExpr_minus_inv _ _ _ _ _ _ _ h
    exact (genOperands_ok ctx l r ihl ihra ihrb _ _ _ h1 ho).append (CodeOk.cons (dir_ok _ _ _) (CodeOk.nil _ _))
  -- and, or
  · intro l r reg ihl ihr gs code gs' h ho
    obtain ⟨cl, gs1, cr, h1, h2, rfl⟩ := genExpr_and_inv _ _ _ _ _ _ _ h
    have e1 := genExpr_eff _ _ _ _ _ _ h1
    have e2 := genExpr_eff _ _ _ _ _ _ h2
    have ok1 := ihl _ _ _ h1 ho
    have ok2 := ihr _ _ _ h2 (by rw [e1.1]; have := e1.2.1; simp only at this ⊢; omega)
    exact (((ok1.mono e2.2.1).append (CodeOk.cons (dir_ok _ _ _) (CodeOk.nil _ _))).append ok2).append
      (CodeOk.cons (dir_ok _ _ _) (CodeOk.nil _ _))
  · intro l r reg ihl ihr gs code gs' h ho
    obtain ⟨cl, gs1, cr, h1, h2, rfl⟩ := genExpr_or_inv _ _ _ _ _ _ _ h
    have e1 := genExpr_eff _ _ _ _ _ _ h1
    have e2 := genExpr_eff _ _ _ _ _ _ h2
    have ok1 := ihl _ _ _ h1 ho
    have ok2 := ihr _ _ _ h2 (by rw [e1.1]; have := e1.2.1; simp only at this ⊢; omega)
    exact (((ok1.mono e2.2.1).append
      (CodeOk.cons (dir_ok _ _ _) (CodeOk.cons (dir_ok _ _ _) (CodeOk.cons (dir_ok _ _ _) (CodeOk.nil _ _))))).append ok2).append
      (CodeOk.cons (dir_ok _ _ _) (CodeOk.nil _ _))
  -- eq, ls
  · intro l r reg ihl ihra ihrb gs code gs' h ho
    obtain ⟨c, gs1, h1, h2, rfl⟩ := genExpr_eq_inv _ _ _ _ _ _ _ h
    subst h2
    exact (eqOperand_ok ctx l r _ _ ihl ihra ihrb _ _ _ h1 ho).append (selectTail_ok _ _ _ lBRZ_dir _ _)
  · intro l r reg ihl ihra ihrb gs code gs' h ho
    obtain ⟨c, gs1, h1, h2, rfl⟩ := genExpr_ls_inv _ _ _ _ _ _ _ h
    subst h2
    exact (eqOperand_ok ctx l r _ _ ihl ihra ihrb _ _ _ h1 ho).append (selectTail_ok _ _ _ lBRN_dir _ _)
  -- other operators: nothing generated
  · intro op l r reg h1 h2 h3 h4 h5 h6 gs code gs' h _
    unfold genExpr at h
    cases op <;> first | (exact absurd rfl h1) | (exact absurd rfl h2) | (exact absurd rfl h3) | (exact absurd rfl h4)
                       | (exact absurd rfl h5) | (exact absurd rfl h6)
                       | (simp only [pure, StateT.pure, Except.pure, Except.ok.injEq, Prod.mk.injEq] at h
                          rw [← h.1]; exact CodeOk.nil _ _)
  -- loadActuals
  · intro p s gs code gs' h _ _
    rw [loadActuals_nil] at h
    simp only [Except.ok.injEq, Prod.mk.injEq] at h
    rw [← h.1]; exact CodeOk.nil _ _
  · intro arg rest p s hc ih gs code gs' h ho hs
    rcases loadActuals_cons_inv _ _ _ _ _ _ _ _ h with ⟨_, cs, h1, rfl⟩ | ⟨hc', _⟩
    · have e1 := loadActuals_eff _ _ _ _ _ _ _ h1
      simp only [countCalls, hc, if_true] at hs
      have ok := ih _ _ _ h1 ho (by omega)
      refine CodeOk.append ?_ ok
      exact CodeOk.cons (dir_ok _ _ _) (CodeOk.cons (temp_ok ctx _ _ _ (by have := e1.2.1; omega))
        (CodeOk.cons (dir_ok _ _ _) (CodeOk.cons (dir_ok _ _ _) (CodeOk.nil _ _))))
    · rw [hc'] at hc; simp at hc
  · intro arg rest p s hc ih1 ih gs code gs' h ho hs
    rcases loadActuals_cons_inv _ _ _ _ _ _ _ _ h with ⟨hc', _⟩ | ⟨_, c, gs1, cs, h1, h2, rfl⟩
    · exact absurd hc' hc
    · have e1 := genExpr_eff _ _ _ _ _ _ h1
      have e2 := loadActuals_eff _ _ _ _ _ _ _ h2
      simp only [countCalls, hc, Bool.false_eq_true, if_false] at hs
      have ok1 := ih1 _ _ _ h1 ho
      have ok2 := ih _ _ _ h2 (by rw [e1.1]; have := e1.2.1; omega) (by have := e1.2.1; omega)
      exact ((ok1.mono e2.2.1).append (CodeOk.cons (dir_ok _ _ _) (CodeOk.cons (dir_ok _ _ _) (CodeOk.nil _ _)))).append ok2
  -- genCallActuals
  · intro gs code gs' h _
    rw [genCallActuals_nil] at h
    simp only [Except.ok.injEq, Prod.mk.injEq] at h
    rw [← h.1]; exact CodeOk.nil _ _
  · intro a as hc ih1 ih gs code gs' h ho
    rcases genCallActuals_cons_inv _ _ _ _ _ _ h with ⟨_, c, gs1, cs, h1, h2, rfl⟩ | ⟨hc', _⟩
    · have e1 := genExpr_eff _ _ _ _ _ _ h1
      have e2 := genCallActuals_eff _ _ _ _ _ h2
      have ok1 := ih1 _ _ _ h1 ho
      have ok2 := ih _ _ _ h2 (by simp only; omega)
      have hsz : gs1.offset < gs'.size := by have := e2.2.1; simp only at this; omega
      exact ((ok1.mono (by have := e2.2.1; simp only at this; omega)).append
        (CodeOk.cons (dir_ok _ _ _) (CodeOk.cons (temp_ok ctx _ _ _ hsz) (CodeOk.nil _ _)))).append ok2
    · rw [hc'] at hc; simp at hc
  · intro a as hc ih gs code gs' h ho
    rcases genCallActuals_cons_inv _ _ _ _ _ _ h with ⟨hc', _⟩ | ⟨_, h1⟩
    · exact absurd hc' hc
    · exact ih _ _ _ h1 ho

/-! ### Actual lists, calls, statements -/

theorem loadActuals_ok (ctx : Ctx) : ∀ (args : List AExpr) (p s : Nat) (gs : GS) (code : Code) (gs' : GS),
    loadActuals ctx args p s gs = .ok (code, gs') → gs.offset ≤ gs.size → s + countCalls args ≤ gs.size →
    CodeOk ctx gs'.size code := by
  intro args
  induction args with
  | nil =>
    intro p s gs code gs' h _ _
    rw [loadActuals_nil] at h
    simp only [Except.ok.injEq, Prod.mk.injEq] at h
    rw [← h.1]; exact CodeOk.nil _ _
  | cons arg rest ih =>
    intro p s gs code gs' h ho hs
    rcases loadActuals_cons_inv _ _ _ _ _ _ _ _ h with ⟨hc, cs, h1, rfl⟩ | ⟨hc, c, gs1, cs, h1, h2, rfl⟩
    · have e1 := loadActuals_eff _ _ _ _ _ _ _ h1
      simp only [countCalls, hc, if_true] at hs
      have ok := ih _ _ _ _ _ h1 ho (by omega)
      refine CodeOk.append ?_ ok
      exact CodeOk.cons (dir_ok _ _ _) (CodeOk.cons (temp_ok ctx _ _ _ (by have := e1.2.1; omega))
        (CodeOk.cons (dir_ok _ _ _) (CodeOk.cons (dir_ok _ _ _) (CodeOk.nil _ _))))
    · have e1 := genExpr_eff _ _ _ _ _ _ h1
      have e2 := loadActuals_eff _ _ _ _ _ _ _ h2
      simp only [countCalls, hc, Bool.false_eq_true, if_false] at hs
      have ok1 := genExpr_ok ctx arg .A _ _ _ h1 ho
      have ok2 := ih _ _ _ _ _ h2 (by rw [e1.1]; have := e1.2.1; omega) (by have := e1.2.1; omega)
      exact ((ok1.mono e2.2.1).append (CodeOk.cons (dir_ok _ _ _) (CodeOk.cons (dir_ok _ _ _) (CodeOk.nil _ _)))).append ok2

theorem genCallActuals_ok (ctx : Ctx) : ∀ (args : List AExpr) (gs : GS) (code : Code) (gs' : GS),
    genCallActuals ctx args gs = .ok (code, gs') → gs.offset ≤ gs.size → CodeOk ctx gs'.size code := by
  intro args
  induction args with
  | nil =>
    intro gs code gs' h _
    rw [genCallActuals_nil] at h
    simp only [Except.ok.injEq, Prod.mk.injEq] at h
    rw [← h.1]; exact CodeOk.nil _ _
  | cons a as ih =>
    intro gs code gs' h ho
    rcases genCallActuals_cons_inv _ _ _ _ _ _ h with ⟨_, c, gs1, cs, h1, h2, rfl⟩ | ⟨_, h1⟩
    · have e1 := genExpr_eff _ _ _ _ _ _ h1
      have e2 := genCallActuals_eff _ _ _ _ _ h2
      have ok1 := genExpr_ok ctx a .A _ _ _ h1 ho
      have ok2 := ih _ _ _ h2 (by simp only; omega)
      have hsz : gs1.offset < gs'.size := by have := e2.2.1; simp only at this; omega
      exact ((ok1.mono (by have := e2.2.1; simp only at this; omega)).append
        (CodeOk.cons (dir_ok _ _ _) (CodeOk.cons (temp_ok ctx _ _ _ hsz) (CodeOk.nil _ _)))).append ok2
    · exact ih _ _ _ h1 ho

/-- A call sequence: accesses are fine, and the outgoing area (link, result, parameters) fits the
    resulting frame size: `nargs + paramOffset <= size`. -/
theorem callSeq_ok (ctx : Ctx) (kind : CallKind) (args : List AExpr) (gs gs' : GS) (code : Code)
    (h : callSeq kind args.length (countCalls args) (genCallActuals ctx args) (fun p s => loadActuals ctx args p s) gs
          = .ok (code, gs')) (ho : gs.offset ≤ gs.size) :
    CodeOk ctx gs'.size code ∧ args.length + kind.paramOffset ≤ gs'.size := by
  obtain ⟨c1, gs1, c2, gs2, h1, h2, hc, h4⟩ := callSeq_inv _ _ _ _ _ _ _ _ h
  have ok1 := genCallActuals_ok ctx args _ _ _ h1 (by simp)
  have e1 := genCallActuals_eff _ _ _ _ _ h1
  obtain ⟨b1, b2, b3, b4, b5⟩ := bumpN_facts (countCalls args) { gs1 with offset := gs.offset }
  have hsz1 : gs.offset ≤ gs1.size := by have := e1.2.1; simpa using this
  simp only at b1 b2 b4
  have hb : gs.offset + countCalls args ≤ (bumpN (countCalls args) { gs1 with offset := gs.offset }).size := by
    by_cases hz : 0 < countCalls args
    · exact b4 hz
    · have : countCalls args = 0 := by omega
      rw [this] at b2 ⊢
      omega
  have ok2 := loadActuals_ok ctx args _ _ _ _ _ h2 (by rw [b1]; exact hb) hb
  have e2 := loadActuals_eff _ _ _ _ _ _ _ h2
  subst h4; subst hc
  simp only
  have hs1 : gs1.size ≤ gs2.size := Nat.le_trans b2 e2.2.1
  refine ⟨((ok1.mono ?_).append (ok2.mono ?_)).append (callTail_ok _ _ _ _), ?_⟩
  · omega
  · omega
  · omega

theorem exitSeq_ok (ctx : Ctx) (S : Nat) : CodeOk ctx S exitSeq := by
  intro d hd
  simp only [exitSeq, List.mem_cons, List.not_mem_nil, or_false] at hd
  rcases hd with rfl | rfl | rfl | rfl <;> trivial

/-- **Frame accounting of statements** (C08, static). -/
theorem genStmt_ok (ctx : Ctx) (s : AStmt) :
    ∀ (gs : GS) (code : Code) (gs' : GS), genStmt ctx s gs = .ok (code, gs') → gs.offset ≤ gs.size →
      CodeOk ctx gs'.size code := by
  apply genStmt.induct
    (motive_1 := fun s => ∀ (gs : GS) (code : Code) (gs' : GS), genStmt ctx s gs = .ok (code, gs') →
        gs.offset ≤ gs.size → CodeOk ctx gs'.size code)
    (motive_2 := fun ss => ∀ (gs : GS) (code : Code) (gs' : GS), genStmts ctx ss gs = .ok (code, gs') →
        gs.offset ≤ gs.size → CodeOk ctx gs'.size code)
  · intro gs code gs' h _
    rw [genStmt_skip] at h
    simp only [Except.ok.injEq, Prod.mk.injEq] at h
    rw [← h.1]; exact CodeOk.nil _ _
  · intro gs code gs' h _
    rw [genStmt_stop] at h
    simp only [Except.ok.injEq, Prod.mk.injEq] at h
    rw [← h.1]; exact exitSeq_ok _ _
  · intro e gs code gs' h ho
    obtain ⟨c, h1, rfl⟩ := genStmt_ret_inv _ _ _ _ _ h
    exact (genExpr_ok ctx e .A _ _ _ h1 ho).append (CodeOk.cons (dir_ok _ _ _) (CodeOk.nil _ _))
  -- if: both branches skip (two equations of the definition)
  · intro cond t e hs hc gs code gs' h ho
    rcases genStmt_ite_inv _ _ _ _ _ _ _ h with ⟨_, _, h1⟩ | ⟨h1, _⟩ | ⟨_, h1, _⟩ | ⟨h1, _⟩
    · rcases h1 with ⟨_, h2⟩ | ⟨_, h2, _⟩
      · exact genExpr_ok ctx cond .A _ _ _ h2 ho
      · subst h2; exact CodeOk.nil _ _
    · rw [hs.1] at h1; simp at h1
    · rw [hs.2] at h1; simp at h1
    · rw [hs.1] at h1; simp at h1
  · intro cond t e hs hc gs code gs' h ho
    rcases genStmt_ite_inv _ _ _ _ _ _ _ h with ⟨_, _, h1⟩ | ⟨h1, _⟩ | ⟨_, h1, _⟩ | ⟨h1, _⟩
    · rcases h1 with ⟨_, h2⟩ | ⟨_, h2, _⟩
      · exact genExpr_ok ctx cond .A _ _ _ h2 ho
      · subst h2; exact CodeOk.nil _ _
    · rw [hs.1] at h1; simp at h1
    · rw [hs.2] at h1; simp at h1
    · rw [hs.1] at h1; simp at h1
  -- if: else is skip
  · intro cond t e hs hes iht gs code gs' h ho
    rcases genStmt_ite_inv _ _ _ _ _ _ _ h with ⟨h0, h1, _⟩ | ⟨_, _, cc, gs1, ct, h2, h3, rfl⟩ | ⟨_, h1, _⟩ | ⟨_, h1, _⟩
    · exact absurd ⟨h0, h1⟩ hs
    · have e1 := genExpr_eff ctx cond .A _ _ _ h2
      have e2 := genStmt_eff ctx t _ _ _ h3
      have ok1 := genExpr_ok ctx cond .A _ _ _ h2 ho
      have ok2 := iht _ _ _ h3 (by rw [e1.1]; have := e1.2.1; simp only at this ⊢; omega)
      exact (((ok1.mono e2.2.1).append (CodeOk.cons (dir_ok _ _ _) (CodeOk.nil _ _))).append ok2).append
        (CodeOk.cons (dir_ok _ _ _) (CodeOk.nil _ _))
    · rw [hes] at h1; simp at h1
    · rw [hes] at h1; simp at h1
  -- if: then is skip
  · intro cond t e hs hes hts ihe gs code gs' h ho
    rcases genStmt_ite_inv _ _ _ _ _ _ _ h with ⟨_, h1, _⟩ | ⟨_, h1, _⟩ | ⟨_, _, cc, gs1, ce, h2, h3, rfl⟩ | ⟨h1, _⟩
    · exact absurd h1 hes
    · exact absurd h1 hes
    · have e1 := genExpr_eff ctx cond .A _ _ _ h2
      have e2 := genStmt_eff ctx e _ _ _ h3
      have ok1 := genExpr_ok ctx cond .A _ _ _ h2 ho
      have ok2 := ihe _ _ _ h3 (by rw [e1.1]; have := e1.2.1; simp only at this ⊢; omega)
      exact (((ok1.mono e2.2.1).append
        (CodeOk.cons (dir_ok _ _ _) (CodeOk.cons (dir_ok _ _ _) (CodeOk.cons (dir_ok _ _ _) (CodeOk.nil _ _))))).append ok2).append
        (CodeOk.cons (dir_ok _ _ _) (CodeOk.nil _ _))
    · rw [hts] at h1; simp at h1
  -- if: general
  · intro cond t e hs hes hts iht ihe gs code gs' h ho
    rcases genStmt_ite_inv _ _ _ _ _ _ _ h with ⟨h1, _⟩ | ⟨_, h1, _⟩ | ⟨h1, _⟩ | ⟨_, _, cc, gs1, ct, gs2, ce, h2, h3, h4, rfl⟩
    · exact absurd h1 hts
    · exact absurd h1 hes
    · exact absurd h1 hts
    · have e1 := genExpr_eff ctx cond .A _ _ _ h2
      have e2 := genStmt_eff ctx t _ _ _ h3
      have e3 := genStmt_eff ctx e _ _ _ h4
      have ok1 := genExpr_ok ctx cond .A _ _ _ h2 ho
      have ho1 : gs1.offset ≤ gs1.size := by rw [e1.1]; have := e1.2.1; simp only at this ⊢; omega
      have ok2 := iht _ _ _ h3 ho1
      have ok3 := ihe _ _ _ h4 (by rw [e2.1]; have := e2.2.1; omega)
      exact (((((ok1.mono (Nat.le_trans e2.2.1 e3.2.1)).append (CodeOk.cons (dir_ok _ _ _) (CodeOk.nil _ _))).append
        (ok2.mono e3.2.1)).append (CodeOk.cons (dir_ok _ _ _) (CodeOk.cons (dir_ok _ _ _) (CodeOk.nil _ _)))).append ok3).append
        (CodeOk.cons (dir_ok _ _ _) (CodeOk.nil _ _))
  -- while
  · intro cond body ihb gs code gs' h ho
    obtain ⟨cc, gs1, cb, h1, h2, rfl⟩ := genStmt_while_inv _ _ _ _ _ _ h
    have e1 := genExpr_eff ctx cond .A _ _ _ h1
    have e2 := genStmt_eff ctx body _ _ _ h2
    have ok1 := genExpr_ok ctx cond .A _ _ _ h1 ho
    have ok2 := ihb _ _ _ h2 (by rw [e1.1]; have := e1.2.1; simp only at this ⊢; omega)
    exact (((((CodeOk.cons (dir_ok _ _ _) (CodeOk.nil _ _)).append (ok1.mono e2.2.1)).append
      (CodeOk.cons (dir_ok _ _ _) (CodeOk.nil _ _))).append ok2).append
      (CodeOk.cons (dir_ok _ _ _) (CodeOk.cons (dir_ok _ _ _) (CodeOk.nil _ _))))
  -- seq
  · intro ss ih gs code gs' h ho
    rw [genStmt_seq] at h
    exact ih _ _ _ h ho
  -- assign
  · intro n e gs code gs' h ho
    obtain ⟨c, sym, h1, hl, rfl⟩ := genStmt_assign_inv _ _ _ _ _ _ h
    refine (genExpr_ok ctx e .A _ _ _ h1 ho).append ?_
    unfold assignTail
    by_cases hs : sym.scope = ""
    · rw [if_pos hs]; exact CodeOk.cons (dir_ok _ _ _) (CodeOk.nil _ _)
    · rw [if_neg hs]
      exact CodeOk.cons (dir_ok _ _ _) (CodeOk.cons (Or.inr ⟨n, sym, hl, hs, Or.inr rfl, rfl⟩) (CodeOk.nil _ _))
  -- assignSub
  · intro n i e gs code gs' h ho
    obtain ⟨ci, gs1, sym, ce, gs2, h1, hl, h3, h4, rfl⟩ := genStmt_assignSub_inv _ _ _ _ _ _ _ h
    have e1 := genExpr_eff ctx i .A _ _ _ h1
    have e2 := genExpr_eff ctx e .A _ _ _ h3
    have ok1 := genExpr_ok ctx i .A _ _ _ h1 ho
    have ok2 := genExpr_ok ctx e .A _ _ _ h3 (by simp only; omega)
    subst h4
    simp only at e2 ⊢
    have hsz : gs1.offset < gs2.size := by have := e2.2.1; simp only at this; omega
    have hs12 : gs1.size ≤ gs2.size := by have := e2.2.1; simp only at this; omega
    exact (((((ok1.mono hs12).append (genVar_ok ctx _ .B n sym hl)).append
      (CodeOk.cons (dir_ok _ _ _) (CodeOk.cons (dir_ok _ _ _) (CodeOk.cons (temp_ok ctx _ _ _ hsz) (CodeOk.nil _ _))))).append ok2).append
      (CodeOk.cons (dir_ok _ _ _) (CodeOk.cons (temp_ok ctx _ _ _ hsz) (CodeOk.cons (dir_ok _ _ _) (CodeOk.nil _ _)))))
  -- call
  · intro sys f args gs code gs' h ho
    rw [genStmt_call_eq] at h
    exact (callSeq_ok ctx _ args _ _ _ h ho).1
  -- genStmts
  · intro gs code gs' h _
    rw [genStmts_nil] at h
    simp only [Except.ok.injEq, Prod.mk.injEq] at h
    rw [← h.1]; exact CodeOk.nil _ _
  · intro s ss ih1 ih2 gs code gs' h ho
    obtain ⟨c, gs1, cs, h1, h2, rfl⟩ := genStmts_cons_inv _ _ _ _ _ _ h
    have e1 := genStmt_eff ctx s _ _ _ h1
    have e2 : Eff gs1 gs' := genStmt_eff ctx (.seq ss) gs1 cs gs' (by rw [genStmt_seq]; exact h2)
    exact ((ih1 _ _ _ h1 ho).mono e2.2.1).append (ih2 _ _ _ h2 (by rw [e1.1]; have := e1.2.1; omega))

/-! ### Procedures and the whole program -/

/-- `frameOf` of `Lower.lean`, stated here on the generator output. -/
def frameOf' (out : CGOut) (i : Nat) : FrameInfo := out.frames.getD i { size := 0, exitLabel := "" }


/-- The intermediate code of one procedure. -/
def segCode (c : Ctx) (b : Code) : Code := [.prologue c.scope] ++ b ++ [.epilogue c.scope]

theorem cgProc_spec (i : Nat) (p : AProc) (st st' : CGState) (h : cgProc i p st = .ok st') :
    ∃ ctx body S, ctx.frame = i ∧ ctx.scope = p.name ∧ st'.instrs = st.instrs ++ segCode ctx body ∧
      st'.frames = st.frames ++ [{ size := S, exitLabel := ctx.exitLabel }] ∧ CodeOk ctx S body ∧
      st'.globalsOffset = st.globalsOffset := by
  unfold cgProc at h
  simp only [bind, Except.bind] at h
  split at h
  · simp at h
  · split at h
    · simp at h
    · rename_i v2 hloc
      obtain ⟨tbl2, nlocals⟩ := v2
      simp only at h
      split at h
      · simp at h
      · rename_i v3 hgen
        obtain ⟨body, gs2⟩ := v3
        simp only [pure, Except.pure, Except.ok.injEq] at h
        subst h
        refine ⟨{ tbl := tbl2, scope := p.name, frame := i, exitLabel := (takeLabel st.gs).1 }, body, gs2.size, rfl, rfl, ?_, rfl, ?_, rfl⟩
        · simp [segCode, List.append_assoc]
        · have hg : genStmt { tbl := tbl2, scope := p.name, frame := i, exitLabel := (takeLabel st.gs).1 } p.body
              { (takeLabel st.gs).2 with offset := nlocals, size := nlocals } = .ok (body, gs2) := hgen
          exact genStmt_ok _ _ _ _ _ hg (Nat.le_refl _)

theorem cgProcs_spec : ∀ (ps : List AProc) (i : Nat) (st st' : CGState), cgProcs ps i st = .ok st' →
    st.frames.length = i →
    ∃ segs : List (Ctx × Code), st'.instrs = st.instrs ++ segs.flatMap (fun s => segCode s.1 s.2) ∧
      (∃ fs, st'.frames = st.frames ++ fs) ∧ st'.globalsOffset = st.globalsOffset ∧
      ∀ s ∈ segs, CodeOk s.1 (st'.frames.getD s.1.frame { size := 0, exitLabel := "" }).size s.2 := by
  intro ps
  induction ps with
  | nil =>
    intro i st st' h _
    simp only [cgProcs, pure, Except.pure, Except.ok.injEq] at h
    subst h
    exact ⟨[], by simp, ⟨[], by simp⟩, rfl, fun s hs => by simp at hs⟩
  | cons p ps ih =>
    intro i st st' h hlen
    unfold cgProcs at h
    simp only [bind, Except.bind] at h
    split at h
    · simp at h
    · rename_i st1 h1
      obtain ⟨ctx, body, S, hfr, hsc, hin, hframes, hok, hgo⟩ := cgProc_spec i p st st1 h1
      obtain ⟨segs, hin2, ⟨fs, hfs⟩, hgo2, hall⟩ := ih (i + 1) st1 st' h (by rw [hframes]; simp [hlen])
      refine ⟨(ctx, body) :: segs, ?_, ⟨{ size := S, exitLabel := ctx.exitLabel } :: fs, by rw [hfs, hframes]; simp⟩, by rw [hgo2, hgo], ?_⟩
      · rw [hin2, hin]; simp [List.append_assoc]
      · intro s hs
        rcases List.mem_cons.mp hs with rfl | hs
        · simp only
          have : st'.frames.getD ctx.frame { size := 0, exitLabel := "" } = { size := S, exitLabel := ctx.exitLabel } := by
            rw [hfs, hframes, hfr]
            simp [List.getD, hlen.symm]
          rw [this]
          exact hok
        · exact hall s hs

theorem cgGlobals_spec : ∀ (ds : List ADecl) (st st' : CGState), cgGlobals ds st = .ok st' →
    st'.instrs = st.instrs ∧ st'.frames = st.frames := by
  intro ds
  induction ds with
  | nil =>
    intro st st' h
    simp only [cgGlobals, pure, Except.pure, Except.ok.injEq] at h
    subst h
    exact ⟨rfl, rfl⟩
  | cons d ds ih =>
    intro st st' h
    unfold cgGlobals at h
    cases d with
    | val n e => exact ih _ _ h
    | var n =>
      simp only [bind, Except.bind] at h
      split at h
      · simp at h
      · obtain ⟨h1, h2⟩ := ih _ _ h
        exact ⟨h1, h2⟩
    | array n e =>
      simp only [bind, Except.bind] at h
      split at h
      · simp at h
      · split at h
        · simp at h
        · obtain ⟨h1, h2⟩ := ih _ _ h
          exact ⟨h1, h2⟩

/-- **`codeGen`**: the intermediate code is the start-up stub followed by one segment per procedure;
    in every segment all frame-relative accesses are temporaries below the final frame size of
    that procedure, or symbol slots. -/
theorem codeGen_ok (tbl : SymTab) (A : AProgram) (cg : CGOut) (h : codeGen tbl A = .ok cg) :
    ∃ segs : List (Ctx × Code), cg.instrs = startStub ++ segs.flatMap (fun s => segCode s.1 s.2) ∧
      ∀ s ∈ segs, CodeOk s.1 (frameOf' cg s.1.frame).size s.2 := by
  unfold codeGen at h
  simp only [bind, Except.bind] at h
  split at h
  · simp at h
  · rename_i st1 h1
    split at h
    · simp at h
    · rename_i st2 h2
      simp only [pure, Except.pure, Except.ok.injEq] at h
      subst h
      obtain ⟨hi1, hf1⟩ := cgGlobals_spec _ _ _ h1
      obtain ⟨segs, hin, _, _, hall⟩ := cgProcs_spec _ 0 st1 st2 h2 (by rw [hf1]; rfl)
      refine ⟨segs, ?_, hall⟩
      show st2.instrs = _
      rw [hin, hi1]

end Hex.Xcmp
