import HexVerif.Lemmas.TbLoop
import HexVerif.Lemmas.IsaNonInterf
import HexVerif.Lemmas.SimIsa
/-
  Bridging lemmas for C13/C06: non-interference for the in-range ISA run used by C03, and its
  relation to the plain fuelled ISA run.
-/
namespace Hex.Tb
open Hex Hex.Rtl Hex.Isa

theorem fetch_agree (W : Nat → Prop) (s₁ s₂ : St) (hr : SameRegs s₁ s₂) (hm : AgreeOn W s₁.mem s₂.mem)
    (hreads : ∀ i ∈ stepReads s₁, W i) : fetch s₁.mem s₁.pc = fetch s₂.mem s₂.pc := by
  rw [← hr.1]
  unfold stepReads at hreads
  unfold fetch at *
  by_cases hin : (s₁.pc >>> 2).toNat < memWords
  · simp only [hin, if_true] at hreads ⊢
    rw [hm _ (hreads _ (by simp))]
  · simp only [hin, if_false]

theorem inRange_agree (W : Nat → Prop) (s₁ s₂ : St) (hr : SameRegs s₁ s₂) (hm : AgreeOn W s₁.mem s₂.mem)
    (hreads : ∀ i ∈ stepReads s₁, W i) : IsaInRange s₁ ↔ IsaInRange s₂ := by
  have hf := fetch_agree W s₁ s₂ hr hm hreads
  obtain ⟨h1, h2, h3, h4⟩ := hr
  unfold IsaInRange
  rw [← hf]
  have hregs : s₁.regs = s₂.regs := by simp [St.regs, h1, h2, h3, h4]
  rw [hregs, h4]

/-- Non-interference for the in-range run used by C03: two ISA states with equal registers whose
    memories agree on `W`, the first reading only `W` and what it wrote itself, have in-range
    runs with the same observation. -/
theorem isaRun_agree : ∀ (n : Nat) (W : Nat → Prop) (s₁ s₂ : St) (io : IOSt) (out₁ : Outcome),
    SameRegs s₁ s₂ → AgreeOn W s₁.mem s₂.mem → ReadsOnly W n s₁ io → isaRun n s₁ io = some out₁ →
    ∃ out₂, isaRun n s₂ io = some out₂ ∧ obsOutcome out₁ = obsOutcome out₂ := by
  intro n
  induction n with
  | zero =>
    intro W s₁ s₂ io out₁ _ _ _ h
    simp only [isaRun, Option.some.injEq] at h
    subst h
    exact ⟨_, rfl, rfl⟩
  | succ n ih =>
    intro W s₁ s₂ io out₁ hr hm hro h
    obtain ⟨hreads, hrest⟩ := hro
    have hir := inRange_agree W s₁ s₂ hr hm hreads
    have hs := step_agree W s₁ s₂ io hr hm hreads
    unfold isaRun at h ⊢
    by_cases h1 : IsaInRange s₁
    · rw [if_pos h1] at h
      rw [if_pos (hir.1 h1)]
      cases hs1 : step s₁ io with
      | running s₁' io₁' =>
        rw [hs1] at h hs hrest
        cases hs2 : step s₂ io with
        | running s₂' io₂' =>
          rw [hs2] at hs
          obtain ⟨a, b, c⟩ := hs
          subst c
          exact ih _ s₁' s₂' io₁' out₁ a b hrest h
        | exited c s io' => rw [hs2] at hs; exact hs.elim
        | undef w => rw [hs2] at hs; exact hs.elim
      | exited c₁ s₁' io₁' =>
        rw [hs1] at h hs
        simp only [Option.some.injEq] at h
        subst h
        cases hs2 : step s₂ io with
        | running s io' => rw [hs2] at hs; exact hs.elim
        | exited c₂ s₂' io₂' =>
          rw [hs2] at hs
          obtain ⟨e, _, _, c⟩ := hs
          subst e; subst c
          exact ⟨_, rfl, rfl⟩
        | undef w => rw [hs2] at hs; exact hs.elim
      | undef w => rw [hs1] at h; exact absurd h (by simp)
    · rw [if_neg h1] at h; exact absurd h (by simp)


/-- Observation of a fuelled ISA run: exit value (if exited) and I/O history. -/
def obsRun : Isa.RunResult → Option Word × Isa.IOSt
  | .exited c _ _ io => (some c, io)
  | .outOfFuel _ io => (none, io)
  | .undef _ _ => (none, Isa.IOSt.init [])

/-- The in-range run of C03 is the plain ISA run whenever it is defined. -/
theorem isaRun_run : ∀ (n : Nat) (s : St) (io : IOSt) (out : Outcome) (k : Nat),
    isaRun n s io = some out → (∀ w, out ≠ .undef w) → obsRun (Isa.run n s io k) = obsOutcome out := by
  intro n
  induction n with
  | zero =>
    intro s io out k h _
    simp only [isaRun, Option.some.injEq] at h
    subst h; rfl
  | succ n ih =>
    intro s io out k h hu
    unfold isaRun at h
    by_cases h1 : IsaInRange s
    · rw [if_pos h1] at h
      simp only [Isa.run]
      cases hs : step s io with
      | running s' io' => rw [hs] at h; exact ih s' io' out (k + 1) h hu
      | exited c s' io' =>
        rw [hs] at h
        simp only [Option.some.injEq] at h
        subst h; rfl
      | undef w => rw [hs] at h; exact absurd h (by simp)
    · rw [if_neg h1] at h; exact absurd h (by simp)

theorem isaRun_not_undef : ∀ (n : Nat) (s : St) (io : IOSt) (out : Outcome),
    isaRun n s io = some out → ∀ w, out ≠ .undef w := by
  intro n
  induction n with
  | zero => intro s io out h w; simp only [isaRun, Option.some.injEq] at h; subst h; simp
  | succ n ih =>
    intro s io out h w
    unfold isaRun at h
    by_cases h1 : IsaInRange s
    · rw [if_pos h1] at h
      cases hs : step s io with
      | running s' io' => rw [hs] at h; exact ih s' io' out h w
      | exited c s' io' => rw [hs] at h; simp only [Option.some.injEq] at h; subst h; simp
      | undef w' => rw [hs] at h; exact absurd h (by simp)
    · rw [if_neg h1] at h; exact absurd h (by simp)

theorem loadWords_go (ws : List Word) : ∀ (m : Mem) (j : Nat), j + ws.length ≤ memWords → ∀ i,
    ((ws.foldl (fun (acc : Mem × Nat) w => (acc.1.write acc.2 w, acc.2 + 1)) (m, j)).1).read i =
      if j ≤ i ∧ i < j + ws.length then ws[i - j]?.getD 0 else m.read i := by
  induction ws with
  | nil => intro m j _ i; simp; intro h1 h2; omega
  | cons w rest ih =>
    intro m j hj i
    simp only [List.foldl_cons, List.length_cons] at hj ⊢
    rw [ih (m.write j w) (j + 1) (by omega) i]
    by_cases h1 : j + 1 ≤ i ∧ i < j + 1 + rest.length
    · have h2 : j ≤ i ∧ i < j + (rest.length + 1) := by omega
      simp only [h1, h2, and_self, if_true]
      have : i - j = (i - (j + 1)) + 1 := by omega
      rw [this, List.getElem?_cons_succ]
    · simp only [h1, if_false]
      by_cases h3 : i = j
      · subst h3
        have : i ≤ i ∧ i < i + (rest.length + 1) := by omega
        simp [this, Mem.read_write_same _ _ _ (by omega : i < memWords)]
      · have h2 : ¬ (j ≤ i ∧ i < j + (rest.length + 1)) := by omega
        simp only [h2, if_false]
        exact Mem.read_write_other _ _ _ _ (by omega)

/-- Words of a loaded image read back as loaded; everything else keeps its previous content. -/
theorem loadWords_read (m : Mem) (ws : List Word) (h : ws.length ≤ memWords) (i : Nat) :
    (m.loadWords ws).read i = if i < ws.length then ws[i]?.getD 0 else m.read i := by
  unfold Mem.loadWords
  rw [loadWords_go ws m 0 (by omega) i]
  simp

theorem run_agree_obs (a b : RunResult) (h : RunAgree a b) : obsRun a = obsRun b := by
  cases a <;> cases b <;> simp only [RunAgree] at h
  · obtain ⟨rfl, _, _, rfl⟩ := h; rfl
  · rfl
  · obtain ⟨_, rfl⟩ := h; rfl

/-- The pair (exit value if exited, I/O history) of a hexsim run. -/
def obsSimPair : Sim.Obs → Option Word × IOSt
  | .exited c _ io => (some c, io)
  | .undef _ => (none, IOSt.init [])
  | .outOfFuel _ io => (none, io)

theorem obsIsa_pair (x : RunResult) : obsSimPair (Sim.obsIsa x) = obsRun x := by
  cases x <;> rfl

end Hex.Tb
