import HexVerif.Lemmas.XcmpStage4All
import HexVerif.Lemmas.XcmpV1
/-!
  Whole programs with several procedures (class V2): the program context built from the
  compiler's output, the decidable check `v2Check` that establishes `GCtx.OK`, and `v2_correct`.
-/
namespace Hex.C01s
open Hex Hex.X Hex.Xcmp Hex.IAm Hex.Asm

/-! ### Well-formedness of an activation at any stack pointer, from the lowest one -/

theorem wfs_shift (G : GCtx) (pi : PInfo) (dep0 dep : Nat) (hi0 hi : Nat → Word) (exitJ : Nat)
    (wf0 : (KOf G.noArr pi G.lo dep0 hi0).WFS exitJ)
    (E1 : ∀ n sym a, G.cg.tbl.lookup pi.p.name n = .ok sym → sym.scope = "" → G.locOf pi G.lo n = some a → a < G.lo)
    (E2 : ∀ n sym, G.cg.tbl.lookup pi.p.name n = .ok sym → located sym = true → sym.scope ≠ "" →
      sym.stackOffset ≤ (pi.po : Int) + pi.p.formals.length)
    (code_lo : ∀ w, G.lo ≤ w → G.env.isCode w = false) (top : G.spv + 2 < memWords) (lo_ge : 2 ≤ G.lo)
    (arr_hi : ∀ id, G.asize id ≠ 0 → G.spv + 2 < G.abase id ∧ G.abase id + G.asize id ≤ memWords)
    (arr_disj : ∀ id1 id2, id1 ≠ id2 → G.asize id1 ≠ 0 → G.asize id2 ≠ 0 →
      G.abase id1 + G.asize id1 ≤ G.abase id2 ∨ G.abase id2 + G.asize id2 ≤ G.abase id1)
    (lo_spv : G.lo ≤ G.spv)
    (str_ok : ∀ l bs ws, (l, bs) ∈ G.strs → X.packString bs = .ok ws →
      ∃ j k, G.env.ds[j]? = some (.label k l) ∧ G.env.addr j % 4 = 0 ∧ 2 ≤ G.env.addr j / 4 ∧
        G.env.addr j / 4 + ws.length ≤ G.lo)
    (str_sep : ∀ l bs ws j k n sym a idx, (l, bs) ∈ G.strs → X.packString bs = .ok ws → G.env.ds[j]? = some (.label k l) →
      G.cg.tbl.lookup pi.p.name n = .ok sym → sym.scope = "" → G.locOf pi G.lo n = some a → idx < ws.length →
      G.env.addr j / 4 + idx ≠ a)
    (sp : Nat) (hlo : G.lo ≤ sp) (hact : sp + G.S pi + pi.po + pi.p.formals.length ≤ G.spv + 1) :
    (KOf G pi sp dep hi).WFS exitJ := by
  have hpo := po_pos pi
  exact {
    nodup := wf0.nodup
    var_global := by
      intro n sym a hl hs hloc
      have hloc' : G.locOf pi sp n = some a := hloc
      rcases G.locOf_cases pi sp n a hloc' with ⟨sym', hl', _, hall⟩ | ⟨sym', c, hl', hs', _⟩
      · exact wf0.var_global n sym a hl hs (hall G.lo)
      · have h1 : G.cg.tbl.lookup pi.p.name n = .ok sym := hl
        rw [h1] at hl'
        have := Except.ok.inj hl'
        subst this
        exact absurd hs hs'
    var_local := by
      intro n sym a hl hs hloc
      have hloc' : G.locOf pi sp n = some a := hloc
      rcases G.locOf_cases pi sp n a hloc' with ⟨sym', hl', hs', _⟩ | ⟨sym', c, hl', _, hc, ha, hall⟩
      · have h1 : G.cg.tbl.lookup pi.p.name n = .ok sym := hl
        rw [h1] at hl'
        have := Except.ok.inj hl'
        subst this
        exact absurd hs' hs
      · have h0 := wf0.var_local n sym (G.lo + c) hl hs (hall G.lo)
        refine ⟨h0.1, ?_⟩
        have h2 := h0.2
        show (a : Int) = (sp : Int) + ((G.S pi : Nat) : Int) - 1 + sym.stackOffset
        have h3 : ((G.lo + c : Nat) : Int) = (G.lo : Int) + ((G.S pi : Nat) : Int) - 1 + sym.stackOffset := h2
        rw [ha]
        push_cast at h3 ⊢
        omega
    const_lbl := by
      intro v l hm
      obtain ⟨j, k, hd, h4, hlt⟩ := wf0.const_lbl v l hm
      exact ⟨j, k, hd, h4, Nat.lt_of_lt_of_le hlt hlo⟩
    slot_ok := by
      intro k hk
      have hk' : k < G.S pi := hk
      have hs : (KOf G pi sp dep hi).slot k = sp + G.S pi - 1 - k := rfl
      rw [hs]
      exact ⟨by unfold memWords at *; omega, code_lo _ (by omega)⟩
    sp_ge := by show 2 ≤ sp; omega
    sp_le := by show sp + G.S pi ≤ memWords; unfold memWords at *; omega
    loc_sep := by
      intro n a hloc
      have hloc' : G.locOf pi sp n = some a := hloc
      rcases G.locOf_cases pi sp n a hloc' with ⟨sym', hl', hs', hall⟩ | ⟨sym', c, hl', _, hc, ha, hall⟩
      · left
        have := E1 n sym' a hl' hs' (hall G.lo)
        show a < sp
        omega
      · right
        rcases wf0.loc_sep n (G.lo + c) (hall G.lo) with h | h
        · have : G.lo + c < G.lo := h
          omega
        · have h' : G.lo + G.S pi ≤ G.lo + c + pi.p.locals.length := h
          show sp + G.S pi ≤ a + pi.p.locals.length
          omega
    loc_ok := by
      intro n a hloc
      have hloc' : G.locOf pi sp n = some a := hloc
      rcases G.locOf_cases pi sp n a hloc' with ⟨sym', hl', hs', hall⟩ | ⟨sym', c, hl', hs', hc, ha, hall⟩
      · exact wf0.loc_ok n a (hall G.lo)
      · have hlocd : located sym' = true := by
          have := hall sp
          unfold GCtx.locOf at this
          rw [hl'] at this
          simp only at this
          by_cases h : located sym' = true
          · exact h
          · rw [if_neg h] at this; simp at this
        have hb := E2 n sym' hl' hlocd hs'
        have hcb : c ≤ G.S pi - 1 + pi.po + pi.p.formals.length ∨ G.S pi = 0 := by omega
        refine ⟨by omega, ?_, code_lo _ (by omega)⟩
        unfold memWords at *
        omega
    loc_inj := by
      intro n m a hn hm
      have hn' : G.locOf pi sp n = some a := hn
      have hm' : G.locOf pi sp m = some a := hm
      rcases G.locOf_cases pi sp n a hn' with ⟨s1, hl1, hs1, hall1⟩ | ⟨s1, c1, hl1, _, _, ha1, hall1⟩
      · rcases G.locOf_cases pi sp m a hm' with ⟨s2, hl2, hs2, hall2⟩ | ⟨s2, c2, hl2, _, _, ha2, hall2⟩
        · exact wf0.loc_inj n m a (hall1 G.lo) (hall2 G.lo)
        · have := E1 n s1 a hl1 hs1 (hall1 G.lo)
          omega
      · rcases G.locOf_cases pi sp m a hm' with ⟨s2, hl2, hs2, hall2⟩ | ⟨s2, c2, hl2, _, _, ha2, hall2⟩
        · have := E1 m s2 a hl2 hs2 (hall2 G.lo)
          omega
        · have : c1 = c2 := by omega
          subst this
          exact wf0.loc_inj n m (G.lo + c1) (hall1 G.lo) (hall2 G.lo)
    str := by
      constructor
      · intro l bs ws hm hp
        obtain ⟨j, k, hd, h4, h2, hle⟩ := str_ok l bs ws hm hp
        exact ⟨j, k, hd, h4, h2, Nat.le_trans hle hlo⟩
      · intro l bs ws j k n a idx hm hp hd hloc hidx
        have hloc' : G.locOf pi sp n = some a := hloc
        rcases G.locOf_cases pi sp n a hloc' with ⟨sym', hl', hs', hall⟩ | ⟨sym', c, hl', _, hc, ha, hall⟩
        · exact str_sep l bs ws j k n sym' a idx hm hp hd hl' hs' (hall G.lo) hidx
        · obtain ⟨j', k', hd', _, _, hle⟩ := str_ok l bs ws hm hp
          have hj := labelIdx_of_nodup _ j k l wf0.nodup hd
          have hj' := labelIdx_of_nodup _ j' k' l wf0.nodup hd'
          rw [hj] at hj'
          have : j = j' := Option.some.inj hj'
          subst this
          show G.env.addr j / 4 + idx ≠ a
          omega
    const_sep := by
      intro v l j k n a hmem hd hloc
      have hloc' : G.locOf pi sp n = some a := hloc
      rcases G.locOf_cases pi sp n a hloc' with ⟨sym', hl', hs', hall⟩ | ⟨sym', c, hl', _, hc, ha, hall⟩
      · exact wf0.const_sep v l j k n a hmem hd (hall G.lo)
      · obtain ⟨j', k', hd', _, hlt⟩ := wf0.const_lbl v l hmem
        have hj := labelIdx_of_nodup _ j k l wf0.nodup hd
        have hj' := labelIdx_of_nodup _ j' k' l wf0.nodup hd'
        rw [hj] at hj'
        have : j = j' := Option.some.inj hj'
        subst this
        have hlt' : G.env.addr j / 4 < G.lo := hlt
        show G.env.addr j / 4 ≠ a
        omega
    loc_ne_link := by
      intro n a hloc
      have hloc' : G.locOf pi sp n = some a := hloc
      show a ≠ sp + G.S pi
      rcases G.locOf_cases pi sp n a hloc' with ⟨sym', hl', hs', hall⟩ | ⟨sym', c, hl', _, hc, ha, hall⟩
      · have := E1 n sym' a hl' hs' (hall G.lo)
        omega
      · have h0 : G.lo + c ≠ G.lo + G.S pi := wf0.loc_ne_link n (G.lo + c) (hall G.lo)
        omega
    exit_lbl := wf0.exit_lbl
    stop_ok := by
      refine ⟨?_, code_lo _ (by show G.lo ≤ sp + 2; omega)⟩
      show sp + 2 < memWords
      unfold memWords at *
      omega
    arr_hi := by
      intro id hz
      have := arr_hi id hz
      exact ⟨by show sp + G.S pi < G.abase id; omega, this.2⟩
    arr_disj := arr_disj
    arr_code := by
      intro id k hk
      have hk' : k < G.asize id := hk
      have := arr_hi id (by omega)
      exact code_lo _ (by show G.lo ≤ G.abase id + k; omega)
    loc_na := by
      intro n a hloc
      have hloc' : G.locOf pi sp n = some a := hloc
      intro ⟨id, h1, h2⟩
      have h1' : G.abase id ≤ a := h1
      have h2' : a < G.abase id + G.asize id := h2
      have hb := arr_hi id (by omega)
      rcases G.locOf_cases pi sp n a hloc' with ⟨sym', hl', hs', hall⟩ | ⟨sym', c, hl', hs', hc, ha, hall⟩
      · have := E1 n sym' a hl' hs' (hall G.lo)
        omega
      · have hlocd : located sym' = true := by
          have := hall sp
          unfold GCtx.locOf at this
          rw [hl'] at this
          simp only at this
          by_cases h : located sym' = true
          · exact h
          · rw [if_neg h] at this; simp at this
        have hb2 := E2 n sym' hl' hlocd hs'
        omega }

/-! ### The program context of a compilation -/

/-- The global declarations of the class: variables, constants, and arrays whose length is a
    non-negative constant; `vals` are the constants declared so far (most recent first). -/
def isGDecls : List X.Decl → List (String × Word) → Bool
  | [], _ => true
  | .var _ :: ds, vals => isGDecls ds vals
  | .array _ sz :: ds, vals =>
    (match X.constEval vals sz with | .ok w => decide (0 ≤ w.toInt) | .error _ => false) && isGDecls ds vals
  | .val n e :: ds, vals =>
    match X.constEval vals e with
    | .ok w => isGDecls ds ((n, w) :: vals)
    | .error _ => false

/-- What `X.bindGlobals` makes of such declarations: the environment (arrays numbered from `k`), -/
def v2Genv : List X.Decl → Nat → List (String × Word) → List (String × GBind)
  | [], _, _ => []
  | .var n :: ds, k, vals => (n, .var) :: v2Genv ds k vals
  | .array n _ :: ds, k, vals => (n, .array k) :: v2Genv ds (k + 1) vals
  | .val n e :: ds, k, vals =>
    match X.constEval vals e with
    | .ok w => (n, .val w) :: v2Genv ds k ((n, w) :: vals)
    | .error _ => v2Genv ds k vals

/-- the store of the global variables, -/
def v2Gv : List X.Decl → List (String × Option Word)
  | [] => []
  | .var n :: ds => (n, none) :: v2Gv ds
  | _ :: ds => v2Gv ds

/-- the lengths of the arrays, -/
def v2Sizes : List X.Decl → List (String × Word) → List Nat
  | [], _ => []
  | .var _ :: ds, vals => v2Sizes ds vals
  | .array _ sz :: ds, vals => (match X.constEval vals sz with | .ok w => w.toNat | .error _ => 0) :: v2Sizes ds vals
  | .val n e :: ds, vals =>
    match X.constEval vals e with
    | .ok w => v2Sizes ds ((n, w) :: vals)
    | .error _ => v2Sizes ds vals

def v2Arrs (ds : List X.Decl) : Array (Array (Option Word)) :=
  ((v2Sizes ds []).map fun len => Array.replicate len none).toArray

/-- and the names that have a location: variables and arrays. -/
def v2Gnames : List X.Decl → List String
  | [] => []
  | .var n :: ds => n :: v2Gnames ds
  | .array n _ :: ds => n :: v2Gnames ds
  | .val _ _ :: ds => v2Gnames ds

theorem globalVals_cons_val (n : String) (w : Word) (env : List (String × GBind)) :
    X.globalVals ((n, .val w) :: env) = (n, w) :: X.globalVals env := by
  simp [X.globalVals]

theorem globalVals_cons_var (n : String) (env : List (String × GBind)) :
    X.globalVals ((n, .var) :: env) = X.globalVals env := by
  simp [X.globalVals]

theorem globalVals_cons_arr (n : String) (k : Nat) (env : List (String × GBind)) :
    X.globalVals ((n, .array k) :: env) = X.globalVals env := by
  simp [X.globalVals]

theorem bindGlobals_v2 : ∀ (ds : List X.Decl) (env : List (String × GBind)) (gv : List (String × Option Word))
    (arrs : Array (Array (Option Word))) (tot : Nat) r, isGDecls ds (X.globalVals env) = true →
    X.bindGlobals ds env gv arrs tot = .ok r →
    r = (env.reverse ++ v2Genv ds arrs.size (X.globalVals env), gv.reverse ++ v2Gv ds,
         arrs ++ ((v2Sizes ds (X.globalVals env)).map fun len => Array.replicate len none).toArray) := by
  intro ds
  induction ds with
  | nil =>
    intro env gv arrs tot r _ h
    simp only [X.bindGlobals, Except.ok.injEq] at h
    simp [← h, v2Genv, v2Gv, v2Sizes]
  | cons d rest ih =>
    intro env gv arrs tot r hc h
    cases d with
    | var n =>
      simp only [isGDecls] at hc
      unfold X.bindGlobals at h
      have := ih _ _ _ _ r (by rw [globalVals_cons_var]; exact hc) h
      rw [this, globalVals_cons_var]
      simp [v2Genv, v2Gv, v2Sizes]
    | val n e =>
      simp only [isGDecls] at hc
      unfold X.bindGlobals at h
      cases hce : X.constEval (X.globalVals env) e with
      | error w => rw [hce] at hc; simp at hc
      | ok w =>
        rw [hce] at hc
        simp only [hce, bind, Except.bind] at h
        have := ih _ _ _ _ r (by rw [globalVals_cons_val]; exact hc) h
        rw [this, globalVals_cons_val]
        simp [v2Genv, v2Gv, v2Sizes, hce]
    | array n e =>
      simp only [isGDecls, Bool.and_eq_true] at hc
      unfold X.bindGlobals at h
      cases hce : X.constEval (X.globalVals env) e with
      | error w => rw [hce] at hc; simp at hc
      | ok w =>
        rw [hce] at hc
        simp only [decide_eq_true_eq] at hc
        simp only [hce, bind, Except.bind] at h
        rw [if_neg (by omega)] at h
        split at h
        · cases h
        · have := ih _ _ _ _ r (by rw [globalVals_cons_arr]; exact hc.2) h
          rw [this, globalVals_cons_arr]
          simp [v2Genv, v2Gv, v2Sizes, hce]

theorem v2Genv_mem_names : ∀ (ds : List X.Decl) (k : Nat) (vals : List (String × Word)) (n : String) (b : GBind),
    (n, b) ∈ v2Genv ds k vals → n ∈ ds.map X.Decl.name := by
  intro ds
  induction ds with
  | nil => intro k vals n b h; simp [v2Genv] at h
  | cons d rest ih =>
    intro k vals n b h
    cases d with
    | var m =>
      simp only [v2Genv, List.mem_cons, Prod.mk.injEq] at h
      rcases h with ⟨hn, _⟩ | h
      · simp [X.Decl.name, hn]
      · exact List.mem_cons_of_mem _ (ih _ _ n b h)
    | array m e =>
      simp only [v2Genv, List.mem_cons, Prod.mk.injEq] at h
      rcases h with ⟨hn, _⟩ | h
      · simp [X.Decl.name, hn]
      · exact List.mem_cons_of_mem _ (ih _ _ n b h)
    | val m e =>
      simp only [v2Genv] at h
      split at h
      · simp only [List.mem_cons, Prod.mk.injEq] at h
        rcases h with ⟨hn, _⟩ | h
        · simp [X.Decl.name, hn]
        · exact List.mem_cons_of_mem _ (ih _ _ n b h)
      · exact List.mem_cons_of_mem _ (ih _ _ n b h)

theorem v2Genv_sublist : ∀ (ds : List X.Decl) (k : Nat) (vals : List (String × Word)),
    List.Sublist ((v2Genv ds k vals).map (·.1)) (ds.map X.Decl.name) := by
  intro ds
  induction ds with
  | nil => intro k vals; simp [v2Genv]
  | cons d rest ih =>
    intro k vals
    cases d with
    | var m => simp only [v2Genv, List.map_cons, X.Decl.name]; exact (ih _ _).cons_cons _
    | array m e => simp only [v2Genv, List.map_cons, X.Decl.name]; exact (ih _ _).cons_cons _
    | val m e =>
      simp only [v2Genv, List.map_cons, X.Decl.name]
      split
      · simp only [List.map_cons]; exact (ih _ _).cons_cons _
      · exact (ih _ _).cons _

/-- The located entries of the environment are exactly the variables and arrays. -/
theorem v2Genv_loc : ∀ (ds : List X.Decl) (k : Nat) (vals : List (String × Word)) (n : String) (b : GBind),
    (n, b) ∈ v2Genv ds k vals → (b = .var ∨ ∃ id, b = .array id) → n ∈ v2Gnames ds := by
  intro ds
  induction ds with
  | nil => intro k vals n b h; simp [v2Genv] at h
  | cons d rest ih =>
    intro k vals n b h hk
    cases d with
    | var m =>
      simp only [v2Genv, List.mem_cons, Prod.mk.injEq] at h
      rcases h with ⟨hn, _⟩ | h
      · simp [v2Gnames, hn]
      · exact List.mem_cons_of_mem _ (ih _ _ n b h hk)
    | array m e =>
      simp only [v2Genv, List.mem_cons, Prod.mk.injEq] at h
      rcases h with ⟨hn, _⟩ | h
      · simp [v2Gnames, hn]
      · exact List.mem_cons_of_mem _ (ih _ _ n b h hk)
    | val m e =>
      simp only [v2Genv] at h
      simp only [v2Gnames]
      split at h
      · simp only [List.mem_cons, Prod.mk.injEq] at h
        rcases h with ⟨_, hb⟩ | h
        · rcases hk with hk | ⟨id, hk⟩ <;> rw [hk] at hb <;> simp at hb
        · exact ih _ _ n b h hk
      · exact ih _ _ n b h hk

theorem v2Gnames_mem : ∀ (ds : List X.Decl) (k : Nat) (vals : List (String × Word)) (n : String),
    n ∈ v2Gnames ds → ∃ b, (n, b) ∈ v2Genv ds k vals ∧ (b = .var ∨ ∃ id, b = .array id) := by
  intro ds
  induction ds with
  | nil => intro k vals n h; simp [v2Gnames] at h
  | cons d rest ih =>
    intro k vals n h
    cases d with
    | var m =>
      simp only [v2Gnames, List.mem_cons] at h
      rcases h with rfl | h
      · exact ⟨.var, by simp [v2Genv], Or.inl rfl⟩
      · obtain ⟨b, hb, hk⟩ := ih k vals n h
        exact ⟨b, by simp [v2Genv, hb], hk⟩
    | array m e =>
      simp only [v2Gnames, List.mem_cons] at h
      rcases h with rfl | h
      · exact ⟨.array k, by simp [v2Genv], Or.inr ⟨k, rfl⟩⟩
      · obtain ⟨b, hb, hk⟩ := ih (k + 1) vals n h
        exact ⟨b, by simp [v2Genv, hb], hk⟩
    | val m e =>
      simp only [v2Gnames] at h
      simp only [v2Genv]
      split
      · rename_i w _
        obtain ⟨b, hb, hk⟩ := ih k ((m, w) :: vals) n h
        exact ⟨b, List.mem_cons_of_mem _ hb, hk⟩
      · exact ih k vals n h

theorem lookup_of_mem_nodup {β} : ∀ (l : List (String × β)) (n : String) (b : β), (l.map (·.1)).Nodup → (n, b) ∈ l →
    l.lookup n = some b := by
  intro l
  induction l with
  | nil => intro n b _ h; simp at h
  | cons e rest ih =>
    intro n b hnd h
    obtain ⟨k, v⟩ := e
    simp only [List.map_cons, List.nodup_cons] at hnd
    simp only [List.mem_cons, Prod.mk.injEq] at h
    simp only [List.lookup_cons]
    rcases h with ⟨hn, hb⟩ | h
    · simp [hn, hb]
    · have hne : (n == k) = false := by
        have : n ≠ k := by
          intro e
          apply hnd.1
          rw [← e]
          exact List.mem_map.mpr ⟨(n, b), h, rfl⟩
        simpa using this
      rw [hne]
      exact ih n b hnd.2 h

theorem v2Gv_none : ∀ (ds : List X.Decl) (n : String) (o : Option Word), (v2Gv ds).lookup n = some o → o = none := by
  intro ds
  induction ds with
  | nil => intro n o h; simp [v2Gv] at h
  | cons d rest ih =>
    intro n o h
    cases d with
    | var m =>
      simp only [v2Gv, List.lookup_cons] at h
      split at h
      · simpa using h.symm
      · exact ih n o h
    | val m e => exact ih n o h
    | array m e => exact ih n o h

/-- Every cell of every array of the start state is unassigned. -/
theorem v2Arrs_none (ds : List X.Decl) (id : Nat) (cells : Array (Option Word)) (h : (v2Arrs ds)[id]? = some cells)
    (idx : Nat) (w : Word) : cells[idx]? ≠ some (some w) := by
  unfold v2Arrs at h
  simp only [List.getElem?_toArray, List.getElem?_map, Option.map_eq_some_iff] at h
  obtain ⟨len, _, hc⟩ := h
  subst hc
  intro hh
  by_cases hlt : idx < len
  · rw [Array.getElem?_eq_getElem (by simpa using hlt)] at hh
    simp at hh
  · rw [Array.getElem?_eq_none (by simpa using hlt)] at hh
    simp at hh

/-- The global constants, as `ConstProp` sees them. -/
def v2Rho (P : X.Program) (n : String) : Option Word :=
  match (v2Genv P.globals 0 []).lookup n with
  | some (.val w) => some w
  | _ => none

def v2Xc (P : X.Program) (fuel : Nat) : X.Ctx :=
  { genv := v2Genv P.globals 0 [] ++ P.procs.map (fun p => (p.name, GBind.proc p)),
    impure := X.impureProcs P, limit := fuel }

def procLen (cg : CGOut) (p : X.Proc) (i : Nat) (code : Code) : Nat :=
  let S := (frameOf cg i).size
  (proDirs (if p.isFunc then .func else .proc) p.name S).length + (lowerCode cg code).length +
    (if p.isFunc then epiFuncDirs (frameOf cg i).exitLabel S else epiProcDirs (frameOf cg i).exitLabel S).length

/-- The body of every procedure generated again, with the final symbol table, threading the
    generator state as `CodeGen` does (exit label before, one label per local `var` after). -/
def genProcs (cg : CGOut) (ρ : String → Option Word) : List X.Proc → Nat → GS → Nat → Option (List PInfo)
  | [], _, _, _ => some []
  | p :: ps, i, gs, pos =>
    let nl := p.locals.length
    let gs1 : GS := { gs with labelCount := gs.labelCount + 1, offset := nl, size := nl }
    let ctx : Xcmp.Ctx := { tbl := cg.tbl, scope := p.name, frame := i, exitLabel := (frameOf cg i).exitLabel }
    match genStmt ctx (optStmt (annotS ρ p.body)) gs1 with
    | .error _ => none
    | .ok (code, gs2) =>
      match genProcs cg ρ ps (i + 1) { gs2 with labelCount := gs2.labelCount + nl } (pos + procLen cg p i code) with
      | none => none
      | some rest => some ({ p := p, idx := i, iPro := pos, code := code, gs1 := gs1, gs2 := gs2 } :: rest)

def v2Gloc (cg : CGOut) (env : Env) (n : String) : Option Nat :=
  match cg.tbl.find? ("", n) with
  | some sym => if located sym then (labelIdx env.ds sym.globalLabel).map fun j => env.addr j / 4 else none
  | none => none

def smaxOf (cg : CGOut) (procs : List PInfo) : Nat :=
  procs.foldl (fun m pi => max m (frameOf cg pi.idx).size) 0

def mkG (pk : Bool) (P : X.Program) (st : Stages) (img : Image) (fuel : Nat) (procs : List PInfo) : GCtx :=
  { env := v1Env st img, cg := st.cg, xc := v2Xc P fuel,
    consts := (procs.getLast?.map fun pi => pi.gs2.constMap).getD [],
    strs := (procs.getLast?.map fun pi => pi.gs2.strs).getD [],
    procs := procs, gnames := v2Gnames P.globals, pnames := P.procs.map (·.name),
    gloc := v2Gloc st.cg (v1Env st img),
    spv := (spValue st.cg.globalsOffset).toNat, smax := smaxOf st.cg procs,
    lo := (spValue st.cg.globalsOffset).toNat - X.maxDepth * smaxOf st.cg procs,
    pk := pk,
    asize := fun id => ((v2Sizes P.globals [])[id]?).getD 0,
    abase := fun id => 200000 - ((v2Sizes P.globals []).take (id + 1)).sum,
    rho := v2Rho P }

/-! ### The decidable check -/

def GCtx.names (G : GCtx) : List String := G.cg.tbl.map fun e => e.1.2

def scopeGlobal (G : GCtx) (pi : PInfo) (n : String) : Bool :=
  match G.cg.tbl.lookup pi.p.name n with
  | .ok sym => decide (sym.scope = "")
  | .error _ => false

def e1Check (G : GCtx) (pi : PInfo) : Bool :=
  G.names.all fun n =>
    match G.cg.tbl.lookup pi.p.name n with
    | .ok sym =>
      if sym.scope = "" then (match G.locOf pi G.lo n with | some a => decide (a < G.lo) && G.gnames.contains n | none => true) else true
    | .error _ => true

def e2Check (G : GCtx) (pi : PInfo) : Bool :=
  G.names.all fun n =>
    match G.cg.tbl.lookup pi.p.name n with
    | .ok sym =>
      if located sym && decide (sym.scope ≠ "") then decide (sym.stackOffset ≤ (pi.po : Int) + pi.p.formals.length) else true
    | .error _ => true

def atB (ds : List Dir) (i : Nat) (c : List Dir) : Bool :=
  decide (i ≤ ds.length) && decide ((ds.drop i).take c.length = c)

theorem atB_sound (ds : List Dir) (i : Nat) (c : List Dir) (h : atB ds i c = true) : At ds i c := by
  unfold atB at h
  simp only [Bool.and_eq_true, decide_eq_true_eq] at h
  refine ⟨ds.take i, (ds.drop i).drop c.length, ?_, by simp [h.1]⟩
  have h1 : ds = ds.take i ++ ds.drop i := (List.take_append_drop i ds).symm
  have h2 : ds.drop i = (ds.drop i).take c.length ++ (ds.drop i).drop c.length := (List.take_append_drop _ _).symm
  rw [h.2] at h2
  rw [List.append_assoc, ← h2]
  exact h1

def procCheck (G : GCtx) (pi : PInfo) : Bool :=
  wfsCheck (KOf G pi G.lo 0 noHi) (G.iEpi pi) G.names && e1Check G pi && e2Check G pi &&
  atB G.env.ds pi.iPro (proDirs pi.kind pi.p.name (G.S pi)) && atB G.env.ds (G.iBody pi) (lowerCode G.cg pi.code) &&
  atB G.env.ds (G.iEpi pi) (G.epi pi) &&
  decide (pi.gs2.size ≤ G.S pi) && decide (pi.p.locals.length ≤ pi.gs1.offset) &&
  (pi.gs2.constMap.all (fun e => G.consts.contains e) && pi.gs2.strs.all (fun e => G.strs.contains e)) && decide (G.S pi ≤ G.smax) &&
  okS5 G.pk G.pnames G.xc.impure G.rho (G.isLoc pi) pi.p.body && pi.p.formals.all isVAFormal && pi.p.locals.all isVarDecl &&
  G.procs.all (fun pj =>
    match G.cg.tbl.lookup pi.p.name pj.p.name with
    | .ok sym => decide ((sym.type = .func) ↔ (pj.p.isFunc = true))
    | .error _ => false) &&
  G.gnames.all (fun n => decide (G.locOf pi G.lo n = G.gloc n) && scopeGlobal G pi n) &&
  (List.range pi.p.formals.length).all (fun k =>
    match pi.p.formals[k]? with
    | some f => decide (G.locOf pi G.lo f.name = some (G.lo + G.S pi + pi.po + k)) && !scopeGlobal G pi f.name
    | none => true) &&
  (List.range pi.p.locals.length).all (fun k =>
    match pi.p.locals[k]? with
    | some d => decide (k < G.S pi) && decide (G.locOf pi G.lo d.name = some (G.lo + G.S pi - 1 - k)) && !scopeGlobal G pi d.name
    | none => true) &&
  pi.lnames.all (fun n => !G.gnames.contains n && !G.pnames.contains n && (G.rho n).isNone)

def constCheck (G : GCtx) (vl : Int × String) : Bool :=
  match labelIdx G.env.ds vl.2 with
  | some j => decide (G.env.ds[j + 1]? = some (.data vl.1)) && decide (2 ≤ G.env.addr j / 4) && decide (G.env.addr j / 4 < G.lo)
  | none => false

def labelAddrCheck (G : GCtx) : Bool :=
  (List.range G.env.ds.length).all fun j =>
    match G.env.ds[j]? with
    | some (.label _ _) => decide (G.env.addr j < 2 ^ 32)
    | _ => true

/-- A string literal of the pool: its label is in the image, word-aligned and below the stack; the data words
    after the label are the packed string of the reference semantics; no global is stored inside it. -/
def strCheck (G : GCtx) (e : String × List Byte) : Bool :=
  match X.packString e.2 with
  | .error _ => true
  | .ok ws =>
    match labelIdx G.env.ds e.1 with
    | none => false
    | some j =>
      decide (G.env.addr j % 4 = 0) && decide (2 ≤ G.env.addr j / 4) && decide (G.env.addr j / 4 + ws.length ≤ G.lo) &&
      (List.range ws.length).all (fun idx =>
        match G.env.ds[j + 1 + idx]?, ws[idx]? with
        | some (.data v), some w => decide (BitVec.ofInt 32 v = w) && decide (G.env.addr (j + 1 + idx) = G.env.addr j + 4 * idx)
        | _, _ => false) &&
      G.gnames.all (fun n => match G.gloc n with
        | some a => decide (a < G.env.addr j / 4 ∨ G.env.addr j / 4 + ws.length ≤ a)
        | none => false)

theorem strCheck_sound (G : GCtx) (l : String) (bs : List Byte) (ws : List Word)
    (h : strCheck G (l, bs) = true) (hp : X.packString bs = .ok ws) :
    ∃ j, labelIdx G.env.ds l = some j ∧ G.env.addr j % 4 = 0 ∧ 2 ≤ G.env.addr j / 4 ∧
      G.env.addr j / 4 + ws.length ≤ G.lo ∧
      (∀ idx (hi : idx < ws.length), ∃ v, G.env.ds[j + 1 + idx]? = some (.data v) ∧ BitVec.ofInt 32 v = ws[idx] ∧
        G.env.addr (j + 1 + idx) = G.env.addr j + 4 * idx) ∧
      (∀ n ∈ G.gnames, ∀ a, G.gloc n = some a → a < G.env.addr j / 4 ∨ G.env.addr j / 4 + ws.length ≤ a) := by
  unfold strCheck at h
  simp only at h
  rw [hp] at h
  simp only at h
  cases hj : labelIdx G.env.ds l with
  | none => rw [hj] at h; simp at h
  | some j =>
    rw [hj] at h
    simp only [Bool.and_eq_true, decide_eq_true_eq, List.all_eq_true, List.mem_range] at h
    obtain ⟨⟨⟨⟨h1, h2⟩, h3⟩, h4⟩, h5⟩ := h
    refine ⟨j, rfl, h1, h2, h3, ?_, ?_⟩
    · intro idx hi
      have := h4 idx hi
      rw [List.getElem?_eq_getElem hi] at this
      cases hd : G.env.ds[j + 1 + idx]? with
      | none => rw [hd] at this; simp at this
      | some d =>
        rw [hd] at this
        cases d with
        | data v =>
          simp only [Bool.and_eq_true, decide_eq_true_eq] at this
          exact ⟨v, rfl, this.1, this.2⟩
        | _ => simp at this
    · intro n hn a ha
      have := h5 n hn
      rw [ha] at this
      simpa using this

def globalCheck (G : GCtx) (imgWords : Nat) : Bool :=
  decide ((labelNames G.env.ds).Nodup) &&
  G.gnames.all (fun n => match G.gloc n with | some a => decide (2 ≤ a) && decide (a < G.lo) | none => false) &&
  G.consts.all (constCheck G) &&
  decide (G.spv + 2 < memWords) && decide (2 ≤ G.lo) && decide (G.lo + X.maxDepth * G.smax ≤ G.spv) &&
  labelAddrCheck G && decide (imgWords ≤ G.lo) && decide (G.env.addr 1 = 4) &&
  decide ((G.gnames ++ G.pnames).Nodup) && G.strs.all (strCheck G)

/-! ### Soundness of the check -/

theorem locOf_names (G : GCtx) (pi : PInfo) (sp : Nat) (n : String) (a : Nat) (h : G.locOf pi sp n = some a) :
    n ∈ G.names := by
  unfold GCtx.locOf at h
  cases hl : G.cg.tbl.lookup pi.p.name n with
  | ok sym => exact lookup_name_mem _ _ _ _ hl
  | error e => rw [hl] at h; simp at h

theorem scopeGlobal_iff (G : GCtx) (pi : PInfo) (n : String) :
    scopeGlobal G pi n = true ↔ ∃ sym, G.cg.tbl.lookup pi.p.name n = .ok sym ∧ sym.scope = "" := by
  unfold scopeGlobal
  cases hl : G.cg.tbl.lookup pi.p.name n with
  | ok sym => simp
  | error e => simp

/-- Everything `GCtx.OK` asks for, from the two checks and the facts about the environment of the
    reference semantics. -/
theorem ok_of_checks (G : GCtx) (imgWords : Nat)
    (hproc : ∀ pi ∈ G.procs, procCheck G pi = true) (hglob : globalCheck G imgWords = true)
    (hgen : ∀ pi ∈ G.procs,
      genStmt (G.ctxOf pi) (optStmt (annotS G.rho pi.p.body)) pi.gs1 = .ok (pi.code, pi.gs2))
    (hbeyond : ∀ w, imgWords ≤ w → G.env.isCode w = false) (hcode1 : G.env.isCode 1 = false)
    (resolve : ∀ f p, G.xc.genv.lookup f = some (.proc p) → ∃ pi ∈ G.procs, pi.p = p ∧ p.name = f)
    (genv_vars : ∀ n, G.xc.genv.lookup n = some .var → n ∈ G.gnames)
    (genv_arrs : ∀ n id, G.xc.genv.lookup n = some (.array id) → n ∈ G.gnames)
    (gnames_genv : ∀ n ∈ G.gnames, G.xc.genv.lookup n = some .var ∨ ∃ id, G.xc.genv.lookup n = some (.array id))
    (arr_hi : ∀ id, G.asize id ≠ 0 → G.spv + 2 < G.abase id ∧ G.abase id + G.asize id ≤ memWords)
    (arr_disj : ∀ id1 id2, id1 ≠ id2 → G.asize id1 ≠ 0 → G.asize id2 ≠ 0 →
      G.abase id1 + G.asize id1 ≤ G.abase id2 ∨ G.abase id2 + G.asize id2 ≤ G.abase id1)
    (rho_ok : ∀ n w, G.xc.genv.lookup n = some (.val w) ↔ G.rho n = some w)
    (pnames_ok : ∀ f p, G.xc.genv.lookup f = some (.proc p) → f ∈ G.pnames)
    (pnames_mem : ∀ f ∈ G.pnames, ∃ p, G.xc.genv.lookup f = some (.proc p))
    (genv_none : ∀ n, n ∉ G.gnames → n ∉ G.pnames → G.rho n = none → G.xc.genv.lookup n = none)
    (hpure : G.pk = true → PureOk G.xc) : G.OK := by
  unfold globalCheck at hglob
  simp only [Bool.and_eq_true, decide_eq_true_eq, List.all_eq_true] at hglob
  obtain ⟨⟨⟨⟨⟨⟨⟨⟨⟨⟨g1, g2⟩, g3⟩, g4⟩, g5⟩, g6⟩, g7⟩, g8⟩, g9⟩, g10⟩, g11⟩ := hglob
  have code_lo : ∀ w, G.lo ≤ w → G.env.isCode w = false := fun w hw => hbeyond w (by omega)
  have hpc : ∀ pi ∈ G.procs,
      (wfsCheck (KOf G pi G.lo 0 noHi) (G.iEpi pi) G.names = true ∧ e1Check G pi = true ∧ e2Check G pi = true ∧
       atB G.env.ds pi.iPro (proDirs pi.kind pi.p.name (G.S pi)) = true ∧
       atB G.env.ds (G.iBody pi) (lowerCode G.cg pi.code) = true ∧ atB G.env.ds (G.iEpi pi) (G.epi pi) = true ∧
       pi.gs2.size ≤ G.S pi ∧ pi.p.locals.length ≤ pi.gs1.offset ∧
       ((∀ e ∈ pi.gs2.constMap, G.consts.contains e = true) ∧ (∀ e ∈ pi.gs2.strs, G.strs.contains e = true)) ∧ G.S pi ≤ G.smax ∧
       okS5 G.pk G.pnames G.xc.impure G.rho (G.isLoc pi) pi.p.body = true ∧ pi.p.formals.all isVAFormal = true ∧ pi.p.locals.all isVarDecl = true) ∧
      ((∀ pj ∈ G.procs, (match G.cg.tbl.lookup pi.p.name pj.p.name with
          | .ok sym => decide ((sym.type = .func) ↔ (pj.p.isFunc = true))
          | .error _ => false) = true) ∧
       (∀ n ∈ G.gnames, G.locOf pi G.lo n = G.gloc n ∧ scopeGlobal G pi n = true) ∧
       (∀ k ∈ List.range pi.p.formals.length, (match pi.p.formals[k]? with
          | some f => decide (G.locOf pi G.lo f.name = some (G.lo + G.S pi + pi.po + k)) && !scopeGlobal G pi f.name
          | none => true) = true) ∧
       (∀ k ∈ List.range pi.p.locals.length, (match pi.p.locals[k]? with
          | some d => decide (k < G.S pi) && decide (G.locOf pi G.lo d.name = some (G.lo + G.S pi - 1 - k)) && !scopeGlobal G pi d.name
          | none => true) = true) ∧
       (∀ n ∈ pi.lnames, (G.gnames.contains n = false ∧ G.pnames.contains n = false) ∧ (G.rho n).isNone = true)) := by
    intro pi hpi
    have := hproc pi hpi
    unfold procCheck at this
    simp only [Bool.and_eq_true, decide_eq_true_eq, List.all_eq_true, Bool.not_eq_true'] at this
    obtain ⟨⟨⟨⟨⟨⟨⟨⟨⟨⟨⟨⟨⟨⟨⟨⟨⟨p1, p2⟩, p3⟩, p4⟩, p5⟩, p6⟩, p7⟩, p8⟩, p9⟩, p10⟩, p11⟩, p12⟩, p13⟩, p14⟩, p15⟩, p16⟩, p17⟩, p18⟩ := this
    exact ⟨⟨p1, p2, p3, p4, p5, p6, p7, p8, p9, p10, p11, List.all_eq_true.mpr p12, List.all_eq_true.mpr p13⟩, p14, p15,
      fun k hk => by simpa using p16 k hk, fun k hk => by simpa using p17 k hk, p18⟩
  -- the facts E1 / E2 of `wfs_shift`
  have E1 : ∀ pi ∈ G.procs, ∀ n sym a, G.cg.tbl.lookup pi.p.name n = .ok sym → sym.scope = "" →
      G.locOf pi G.lo n = some a → a < G.lo ∧ n ∈ G.gnames := by
    intro pi hpi n sym a hl hs hloc
    have h := (hpc pi hpi).1.2.1
    unfold e1Check at h
    simp only [List.all_eq_true] at h
    have := h n (locOf_names G pi G.lo n a hloc)
    rw [hl] at this
    simp only [hs, if_true, hloc, Bool.and_eq_true, decide_eq_true_eq, List.contains_iff_mem] at this
    exact this
  have E2 : ∀ pi ∈ G.procs, ∀ n sym, G.cg.tbl.lookup pi.p.name n = .ok sym → located sym = true → sym.scope ≠ "" →
      sym.stackOffset ≤ (pi.po : Int) + pi.p.formals.length := by
    intro pi hpi n sym hl hloc hs
    have h := (hpc pi hpi).1.2.2.1
    unfold e2Check at h
    simp only [List.all_eq_true] at h
    have := h n (lookup_name_mem _ _ _ _ hl)
    rw [hl] at this
    simp only [hloc, hs, ne_eq, not_false_eq_true, decide_true, Bool.and_self, if_true, decide_eq_true_eq] at this
    exact this
  have wf0 : ∀ pi ∈ G.procs, (KOf G.noArr pi G.lo 0 noHi).WFS (G.iEpi pi) := by
    intro pi hpi
    have hck : wfsCheck (KOf G.noArr pi G.lo 0 noHi) (G.iEpi pi) G.names = wfsCheck (KOf G pi G.lo 0 noHi) (G.iEpi pi) G.names := rfl
    exact wfsCheck_sound _ _ G.names (fun n a h => locOf_names G pi G.lo n a h) (PCtx.arrOK_of_none _ (fun _ => rfl)) (PCtx.strOK_of_none _ rfl)
      (hck.trans (hpc pi hpi).1.1)
  have hconst : ∀ v l j k, (v, l) ∈ G.consts → G.env.ds[j]? = some (.label k l) →
      G.env.ds[j + 1]? = some (.data v) ∧ 2 ≤ G.env.addr j / 4 ∧ G.env.addr j / 4 < G.lo := by
    intro v l j k hm hd
    have := g3 (v, l) hm
    unfold constCheck at this
    simp only at this
    rw [labelIdx_of_nodup _ j k l g1 hd] at this
    simp only [Bool.and_eq_true, decide_eq_true_eq] at this
    exact ⟨this.1.1, this.1.2, this.2⟩
  have hstr : ∀ l bs ws, (l, bs) ∈ G.strs → X.packString bs = .ok ws →
      ∃ j k, G.env.ds[j]? = some (.label k l) ∧ G.env.addr j % 4 = 0 ∧ 2 ≤ G.env.addr j / 4 ∧
        G.env.addr j / 4 + ws.length ≤ G.lo := by
    intro l bs ws hm hp
    obtain ⟨j, hj, h1, h2, h3, _⟩ := strCheck_sound G l bs ws (g11 _ hm) hp
    obtain ⟨k, hlab⟩ := labelIdx_some _ _ _ hj
    exact ⟨j, k, hlab, h1, h2, h3⟩
  exact {
    wfs := fun pi hpi sp dep hi hlo hact =>
      wfs_shift G pi 0 dep noHi hi (G.iEpi pi) (wf0 pi hpi) (fun n sym a h1 h2 h3 => (E1 pi hpi n sym a h1 h2 h3).1) (E2 pi hpi) code_lo g4 g5 arr_hi arr_disj (by have := g6; omega) hstr
        (by
          intro l bs ws j k n sym a idx hm hp hd hl hs hloc hidx
          obtain ⟨j', hj', _, _, _, _, hsep⟩ := strCheck_sound G l bs ws (g11 _ hm) hp
          rw [labelIdx_of_nodup _ j k l g1 hd] at hj'
          have : j = j' := Option.some.inj hj'
          subst this
          have hn := (E1 pi hpi n sym a hl hs hloc).2
          have hg : G.gloc n = some a := by rw [← ((hpc pi hpi).2.2.1 n hn).1]; exact hloc
          have := hsep n hn a hg
          omega)
        sp hlo hact
    str_ok := hstr
    nodup := g1
    at_pro := fun pi hpi => atB_sound _ _ _ (hpc pi hpi).1.2.2.2.1
    at_body := fun pi hpi => atB_sound _ _ _ (hpc pi hpi).1.2.2.2.2.1
    at_epi := fun pi hpi => atB_sound _ _ _ (hpc pi hpi).1.2.2.2.2.2.1
    gen := hgen
    size_ok := fun pi hpi => (hpc pi hpi).1.2.2.2.2.2.2.1
    nl_ok := fun pi hpi => (hpc pi hpi).1.2.2.2.2.2.2.2.1
    consts_ok := fun pi hpi x hx => by
      obtain ⟨h1, h2⟩ := (hpc pi hpi).1.2.2.2.2.2.2.2.2.1
      cases x with
      | const v l =>
        rw [const_mem_items] at hx
        have := h1 _ hx
        simp only [List.contains_iff_mem] at this
        simp only [GCtx.items, List.mem_append, List.mem_map, PoolItem.const.injEq, Prod.exists, reduceCtorEq, and_false,
          exists_false, or_false]
        exact ⟨v, l, this, rfl, rfl⟩
      | str l bs =>
        rw [str_mem_items] at hx
        have := h2 _ hx
        simp only [List.contains_iff_mem] at this
        simp only [GCtx.items, List.mem_append, List.mem_map, PoolItem.str.injEq, Prod.exists, reduceCtorEq, and_false,
          exists_false, false_or]
        exact ⟨l, bs, this, rfl, rfl⟩
    smax_ok := fun pi hpi => (hpc pi hpi).1.2.2.2.2.2.2.2.2.2.1
    body_ok := fun pi hpi => (hpc pi hpi).1.2.2.2.2.2.2.2.2.2.2.1
    pure_ok := hpure
    formals_ok := fun pi hpi => (hpc pi hpi).1.2.2.2.2.2.2.2.2.2.2.2.1
    locals_var := fun pi hpi => (hpc pi hpi).1.2.2.2.2.2.2.2.2.2.2.2.2
    resolve := resolve
    callee_sym := by
      intro pi hpi pj hpj
      have := (hpc pi hpi).2.1 pj hpj
      cases hl : G.cg.tbl.lookup pi.p.name pj.p.name with
      | error e => rw [hl] at this; simp at this
      | ok sym =>
        rw [hl] at this
        simp only [decide_eq_true_eq] at this
        exact ⟨sym, rfl, this⟩
    genv_vars := genv_vars
    genv_arrs := genv_arrs
    gnames_genv := gnames_genv
    arr_hi := arr_hi
    arr_disj := arr_disj
    rho_ok := rho_ok
    pnames_ok := pnames_ok
    pnames_mem := pnames_mem
    low_global := by
      intro pi hpi sp n a hlo hloc hlt
      rcases G.locOf_cases pi sp n a hloc with ⟨sym, hl, hs, hall⟩ | ⟨sym, c, hl, _, _, ha, _⟩
      · exact (E1 pi hpi n sym a hl hs (hall G.lo)).2
      · omega
    gloc_ok := by
      intro pi hpi sp n hn
      obtain ⟨h1, h2⟩ := (hpc pi hpi).2.2.1 n hn
      obtain ⟨sym, hl, hs⟩ := (scopeGlobal_iff G pi n).mp h2
      cases hg : G.gloc n with
      | none =>
        have := g2 n hn
        rw [hg] at this
        simp at this
      | some a =>
        rw [hg] at h1
        rcases G.locOf_cases pi G.lo n a h1 with ⟨_, _, _, hall⟩ | ⟨sym', c, hl', hs', _⟩
        · exact hall sp
        · rw [hl] at hl'
          have := Except.ok.inj hl'
          subst this
          exact absurd hs hs'
    gloc_lo := by
      intro n hn a h
      have := g2 n hn
      rw [h] at this
      simp only [Bool.and_eq_true, decide_eq_true_eq] at this
      exact this.2
    formal_loc := by
      intro pi hpi sp k f hf
      have hk : k ∈ List.range pi.p.formals.length := by
        simp only [List.mem_range]
        exact (List.getElem?_eq_some_iff.mp hf).1
      have := (hpc pi hpi).2.2.2.1 k hk
      rw [hf] at this
      simp only [Bool.and_eq_true, decide_eq_true_eq, Bool.not_eq_true'] at this
      obtain ⟨h1, h2⟩ := this
      rcases G.locOf_cases pi G.lo f.name _ h1 with ⟨sym, hl, hs, _⟩ | ⟨sym, c, hl, _, _, ha, hall⟩
      · have : scopeGlobal G pi f.name = true := (scopeGlobal_iff G pi f.name).mpr ⟨sym, hl, hs⟩
        rw [h2] at this
        simp at this
      · rw [hall sp]
        congr 1
        omega
    local_loc := by
      intro pi hpi sp k d hd
      have hk : k ∈ List.range pi.p.locals.length := by
        simp only [List.mem_range]
        exact (List.getElem?_eq_some_iff.mp hd).1
      have := (hpc pi hpi).2.2.2.2.1 k hk
      rw [hd] at this
      simp only [Bool.and_eq_true, decide_eq_true_eq, Bool.not_eq_true'] at this
      obtain ⟨⟨h0, h1⟩, h2⟩ := this
      refine ⟨h0, ?_⟩
      rcases G.locOf_cases pi G.lo d.name _ h1 with ⟨sym, hl, hs, _⟩ | ⟨sym, c, hl, _, _, ha, hall⟩
      · have : scopeGlobal G pi d.name = true := (scopeGlobal_iff G pi d.name).mpr ⟨sym, hl, hs⟩
        rw [h2] at this
        simp at this
      · rw [hall sp]
        congr 1
        omega
    noshadow := by
      intro pi hpi n hn
      obtain ⟨⟨h1, h2⟩, h3⟩ := (hpc pi hpi).2.2.2.2.2 n hn
      exact genv_none n (by simpa using h1) (by simpa using h2) (by simpa using h3)
    gloc_ge := by
      intro n hn a h
      have := g2 n hn
      rw [h] at this
      simp only [Bool.and_eq_true, decide_eq_true_eq] at this
      exact this.1
    gloc_some := by
      intro n hn
      have := g2 n hn
      cases hg : G.gloc n with
      | none => rw [hg] at this; simp at this
      | some a => exact ⟨a, rfl⟩
    code_lo := code_lo
    code_1 := hcode1
    top := g4
    lo_ge := g5
    lo_def := g6
    addr_lt := by
      intro j k n hd
      unfold labelAddrCheck at g7
      simp only [List.all_eq_true, List.mem_range] at g7
      have := g7 j (List.getElem?_eq_some_iff.mp hd).1
      rw [hd] at this
      simpa using this
    const_lo := fun v l j k hm hd => (hconst v l j k hm hd).2.2
    const_ge := fun v l j k hm hd => (hconst v l j k hm hd).2.1
    const_data := fun v l j k hm hd => (hconst v l j k hm hd).1 }

/-! ### Facts by construction -/

theorem genProcs_spec (cg : CGOut) (ρ : String → Option Word) : ∀ (ps : List X.Proc) (i : Nat) (gs : GS) (pos : Nat) (procs : List PInfo),
    genProcs cg ρ ps i gs pos = some procs →
    procs.map (·.p) = ps ∧
    ∀ pi ∈ procs, genStmt { tbl := cg.tbl, scope := pi.p.name, frame := pi.idx, exitLabel := (frameOf cg pi.idx).exitLabel }
      (optStmt (annotS ρ pi.p.body)) pi.gs1 = .ok (pi.code, pi.gs2) := by
  intro ps
  induction ps with
  | nil =>
    intro i gs pos procs h
    simp only [genProcs, Option.some.injEq] at h
    subst h
    exact ⟨rfl, fun pi hpi => by simp at hpi⟩
  | cons p ps ih =>
    intro i gs pos procs h
    unfold genProcs at h
    simp only at h
    split at h
    · simp at h
    · rename_i code gs2 hgen
      split at h
      · simp at h
      · rename_i rest hrest
        simp only [Option.some.injEq] at h
        subst h
        obtain ⟨h1, h2⟩ := ih _ _ _ _ hrest
        refine ⟨by simp [h1], ?_⟩
        intro pi hpi
        simp only [List.mem_cons] at hpi
        rcases hpi with rfl | hpi
        · exact hgen
        · exact h2 pi hpi

theorem lookup_map_val {α β} (f : α → String) (g : α → β) : ∀ (l : List α) (n : String) (b : β),
    (l.map fun x => (f x, g x)).lookup n = some b → ∃ x ∈ l, f x = n ∧ g x = b := by
  intro l
  induction l with
  | nil => intro n b h; simp at h
  | cons x rest ih =>
    intro n b h
    simp only [List.map_cons, List.lookup_cons] at h
    split at h
    · rename_i heq
      simp only [Option.some.injEq] at h
      have hn : n = f x := by simpa using heq
      exact ⟨x, by simp, hn.symm, h⟩
    · obtain ⟨y, hy, h1, h2⟩ := ih n b h
      exact ⟨y, List.mem_cons_of_mem _ hy, h1, h2⟩

theorem lookup_map_some {α β} (f : α → String) (g : α → β) : ∀ (l : List α) (n : String),
    n ∈ l.map f → ∃ b, (l.map fun x => (f x, g x)).lookup n = some b := by
  intro l
  induction l with
  | nil => intro n h; simp at h
  | cons x rest ih =>
    intro n h
    simp only [List.map_cons, List.lookup_cons]
    by_cases hx : n = f x
    · subst hx; simp
    · have : (n == f x) = false := by simpa using hx
      rw [this]
      simp only [List.map_cons, List.mem_cons] at h
      rcases h with h | h
      · exact absurd h hx
      · exact ih n h

theorem lookup_mem_pair {β} : ∀ (l : List (String × β)) (n : String) (b : β), l.lookup n = some b → (n, b) ∈ l := by
  intro l
  induction l with
  | nil => intro n b h; simp at h
  | cons e rest ih =>
    intro n b h
    obtain ⟨k, v⟩ := e
    simp only [List.lookup_cons] at h
    by_cases hk : n == k
    · simp only [hk] at h
      have : n = k := by simpa using hk
      simp only [Option.some.injEq] at h
      subst this; subst h
      exact List.mem_cons_self
    · simp only [hk] at h
      exact List.mem_cons_of_mem _ (ih n b h)

section genv
variable (P : X.Program) (fuel : Nat)

theorem v2_genv_lookup (n : String) :
    (v2Xc P fuel).genv.lookup n =
      ((v2Genv P.globals 0 []).lookup n).or ((P.procs.map fun p => (p.name, GBind.proc p)).lookup n) := by
  simp only [v2Xc, List.lookup_append]

/-- A lookup that finds a variable, an array or a constant finds it among the globals. -/
theorem v2_genv_glob (n : String) (b : GBind) (h : (v2Xc P fuel).genv.lookup n = some b) (hb : ∀ p, b ≠ .proc p) :
    (v2Genv P.globals 0 []).lookup n = some b := by
  rw [v2_genv_lookup] at h
  cases hg : (v2Genv P.globals 0 []).lookup n with
  | some b' => rw [hg] at h; simpa using h
  | none =>
    rw [hg] at h
    simp only [Option.none_or] at h
    obtain ⟨x, _, _, h2⟩ := lookup_map_val _ _ _ _ _ h
    exact absurd h2.symm (hb x)

theorem v2_genv_vars (n : String) (h : (v2Xc P fuel).genv.lookup n = some .var) : n ∈ v2Gnames P.globals :=
  v2Genv_loc _ _ _ n _ (lookup_mem_pair _ _ _ (v2_genv_glob P fuel n _ h (by simp))) (Or.inl rfl)

theorem v2_genv_arrs (n : String) (id : Nat) (h : (v2Xc P fuel).genv.lookup n = some (.array id)) :
    n ∈ v2Gnames P.globals :=
  v2Genv_loc _ _ _ n _ (lookup_mem_pair _ _ _ (v2_genv_glob P fuel n _ h (by simp))) (Or.inr ⟨id, rfl⟩)

theorem v2_gnames_genv (hnd : (P.globals.map X.Decl.name).Nodup) (n : String) (h : n ∈ v2Gnames P.globals) :
    (v2Xc P fuel).genv.lookup n = some .var ∨ ∃ id, (v2Xc P fuel).genv.lookup n = some (.array id) := by
  rw [v2_genv_lookup]
  obtain ⟨b, hb, hk⟩ := v2Gnames_mem P.globals 0 [] n h
  have hl := lookup_of_mem_nodup _ n b (List.Nodup.sublist (v2Genv_sublist P.globals 0 []) hnd) hb
  rw [hl]
  simp only [Option.some_or, Option.some.injEq]
  rcases hk with h1 | ⟨id, h1⟩
  · exact Or.inl h1
  · exact Or.inr ⟨id, h1⟩

theorem v2_rho_ok (n : String) (w : Word) : (v2Xc P fuel).genv.lookup n = some (.val w) ↔ v2Rho P n = some w := by
  constructor
  · intro h
    have := v2_genv_glob P fuel n _ h (by simp)
    unfold v2Rho
    rw [this]
  · intro h
    unfold v2Rho at h
    rw [v2_genv_lookup]
    cases hg : (v2Genv P.globals 0 []).lookup n with
    | none => rw [hg] at h; simp at h
    | some b =>
      rw [hg] at h
      cases b <;> simp at h
      subst h
      rfl

theorem v2_proc_lookup (f : String) (p : X.Proc) (h : (v2Xc P fuel).genv.lookup f = some (.proc p)) :
    p ∈ P.procs ∧ p.name = f := by
  rw [v2_genv_lookup] at h
  cases hg : (v2Genv P.globals 0 []).lookup f with
  | some b =>
    exfalso
    rw [hg] at h
    simp only [Option.some_or, Option.some.injEq] at h
    subst h
    have hm := lookup_mem_pair _ _ _ hg
    -- no entry of the global environment is a procedure
    have : ∀ (ds : List X.Decl) (k : Nat) (vals : List (String × Word)), (f, GBind.proc p) ∉ v2Genv ds k vals := by
      intro ds
      induction ds with
      | nil => intro k vals hh; simp [v2Genv] at hh
      | cons d rest ih =>
        intro k vals hh
        cases d with
        | var m => simp only [v2Genv, List.mem_cons, Prod.mk.injEq] at hh; rcases hh with ⟨_, h2⟩ | hh; simp at h2; exact ih _ _ hh
        | array m e => simp only [v2Genv, List.mem_cons, Prod.mk.injEq] at hh; rcases hh with ⟨_, h2⟩ | hh; simp at h2; exact ih _ _ hh
        | val m e =>
          simp only [v2Genv] at hh
          split at hh
          · simp only [List.mem_cons, Prod.mk.injEq] at hh; rcases hh with ⟨_, h2⟩ | hh; simp at h2; exact ih _ _ hh
          · exact ih _ _ hh
    exact this _ _ _ hm
  | none =>
    rw [hg] at h
    simp only [Option.none_or] at h
    obtain ⟨x, hx, h1, h2⟩ := lookup_map_val _ _ _ _ _ h
    simp only [GBind.proc.injEq] at h2
    subst h2
    exact ⟨hx, h1⟩

theorem v2_pnames_mem (hnd : (P.globals.map X.Decl.name ++ P.procs.map (·.name)).Nodup) (f : String)
    (hf : f ∈ P.procs.map (·.name)) : ∃ p, (v2Xc P fuel).genv.lookup f = some (.proc p) := by
  rw [v2_genv_lookup]
  have hng : f ∉ P.globals.map X.Decl.name := by
    intro hg
    exact (List.nodup_append.mp hnd).2.2 f hg f hf rfl
  have h1 : (v2Genv P.globals 0 []).lookup f = none := by
    cases hl : (v2Genv P.globals 0 []).lookup f with
    | none => rfl
    | some b => exact absurd (v2Genv_mem_names _ _ _ f b (lookup_mem_pair _ _ _ hl)) hng
  rw [h1]
  simp only [Option.none_or]
  obtain ⟨b, hb⟩ := lookup_map_some (fun p : X.Proc => p.name) (fun p => GBind.proc p) P.procs f hf
  obtain ⟨x, _, _, h2⟩ := lookup_map_val _ _ _ _ _ hb
  exact ⟨x, by rw [hb, ← h2]⟩

theorem v2_genv_none (n : String) (h1 : n ∉ P.globals.map X.Decl.name) (h2 : n ∉ P.procs.map (·.name)) :
    (v2Xc P fuel).genv.lookup n = none := by
  rw [v2_genv_lookup]
  have e1 : (v2Genv P.globals 0 []).lookup n = none := by
    cases hl : (v2Genv P.globals 0 []).lookup n with
    | none => rfl
    | some b => exact absurd (v2Genv_mem_names _ _ _ n b (lookup_mem_pair _ _ _ hl)) h1
  rw [e1]
  simp only [Option.none_or]
  apply lookup_none_of_not_mem
  simpa [List.map_map] using h2

end genv

/-! ### The run of the reference semantics -/

def v2St0 (P : X.Program) (inp : X.Input) : X.St :=
  { gvars := v2Gv P.globals, arrays := v2Arrs P.globals, locals := [],
    io := Isa.IOSt.init inp.stdin inp.files, calls := [], steps := 0, depth := 0 }

theorem run_v2 (P : X.Program) (inp : X.Input) (fuel : Nat) (β : X.Behaviour)
    (hg : isGDecls P.globals [] = true) (hrun : X.run P inp fuel = .defined β) :
    ∃ m, P.procs.find? (·.name == "main") = some m ∧
      ((∃ r s, X.callUser fuel (v2Xc P fuel) m [] (v2St0 P inp) = .ok r s ∧
          β.exit = 0 ∧ β.events = s.io.log.reverse ∧ β.stdinConsumed = inp.stdin.length - s.io.stdin.length ∧
          β.returned = true) ∨
       (∃ code s, X.callUser fuel (v2Xc P fuel) m [] (v2St0 P inp) = .exit code s ∧
          β.exit = code ∧ β.events = s.io.log.reverse ∧ β.stdinConsumed = inp.stdin.length - s.io.stdin.length ∧
          β.returned = false)) := by
  unfold X.run at hrun
  cases hcp : X.checkProgram P with
  | error w => rw [hcp] at hrun; simp at hrun
  | ok u =>
    rw [hcp] at hrun
    simp only at hrun
    cases hb : X.bindGlobals P.globals [] [] #[] 0 with
    | error w => rw [hb] at hrun; simp at hrun
    | ok r =>
    have hgv0 : X.globalVals [] = [] := rfl
    have hr := bindGlobals_v2 P.globals [] [] #[] 0 r (by rw [hgv0]; exact hg) hb
    rw [hgv0] at hr
    rw [hb, hr] at hrun
    simp only [List.reverse_nil, List.nil_append, List.size_toArray, List.length_nil, Array.empty_append] at hrun
    cases hck : X.checkProcs (v2Genv P.globals 0 [] ++ P.procs.map fun p => (p.name, GBind.proc p)) P.procs with
    | error w => rw [hck] at hrun; simp at hrun
    | ok u2 =>
      rw [hck] at hrun
      simp only at hrun
      cases hfm : P.procs.find? (·.name == "main") with
      | none => rw [hfm] at hrun; simp at hrun
      | some m =>
        rw [hfm] at hrun
        simp only at hrun
        refine ⟨m, rfl, ?_⟩
        have hctx : ({ genv := v2Genv P.globals 0 [] ++ P.procs.map (fun p => (p.name, GBind.proc p)),
                       impure := X.impureProcs P, limit := fuel } : X.Ctx) = v2Xc P fuel := rfl
        have hst : ({ gvars := v2Gv P.globals, arrays := ((v2Sizes P.globals []).map fun len => Array.replicate len none).toArray, locals := [],
                      io := Isa.IOSt.init inp.stdin inp.files, calls := [], steps := 0, depth := 0 } : X.St)
            = v2St0 P inp := rfl
        rw [hctx, hst] at hrun
        cases hx : X.callUser fuel (v2Xc P fuel) m [] (v2St0 P inp) with
        | undef w => rw [hx] at hrun; simp at hrun
        | exit code s =>
          rw [hx] at hrun
          simp only [Result.defined.injEq] at hrun
          right
          refine ⟨code, s, rfl, ?_⟩
          rw [← hrun]
          exact ⟨rfl, rfl, rfl, rfl⟩
        | ok r s =>
          rw [hx] at hrun
          simp only [Result.defined.injEq] at hrun
          left
          refine ⟨r, s, rfl, ?_⟩
          rw [← hrun]
          exact ⟨rfl, rfl, rfl, rfl⟩

/-! ### Start-up and exit stub -/

theorem v2_startup (env : Env) (spvI : Int) (iStub iMain : Nat) (k : LabelKind)
    (hhead : At env.ds 0 [.ref 0x9 "_start" true, .data spvI]) (hstub : At env.ds iStub v1Stub)
    (hmain : env.ds[iMain]? = some (.label k "main")) (hnd : (labelNames env.ds).Nodup) (mem : Mem) (io : Isa.IOSt) :
    Steps env (cfg 0 0 0 mem) io (cfg iMain (BitVec.ofNat 32 (env.addr (iStub + 3))) 0 mem) io := by
  have d0 := hhead.get 0 _ rfl
  have t0 := hstub.get 0 _ rfl
  have t1 := hstub.get 1 _ rfl
  have t2 := hstub.get 2 _ rfl
  have t3 := hstub.get 3 _ rfl
  simp only [Nat.add_zero] at d0 t0
  have lStart := labelIdx_of_nodup _ _ _ _ hnd t0
  have lExit := labelIdx_of_nodup _ _ _ _ hnd t3
  have lMain := labelIdx_of_nodup _ _ _ _ hnd hmain
  have s0 := Step.br (env := env) (cfg 0 0 0 mem) io "_start" iStub (by simpa using d0) lStart
  have s1 := Step.label (env := env) (cfg iStub 0 0 mem) io _ _ t0
  have s2 := Step.ldapL (env := env) (cfg (iStub + 1) 0 0 mem) io "_exit" (iStub + 3) t1 lExit
  have s3 := Step.br (env := env) (cfg (iStub + 1 + 1) (BitVec.ofNat 32 (env.addr (iStub + 3))) 0 mem) io "main" iMain t2 lMain
  exact Steps.step _ _ _ _ _ _ s0 (Steps.step _ _ _ _ _ _ s1 (Steps.step _ _ _ _ _ _ s2 (Steps.one s3)))

theorem v2_finish (env : Env) (iStub : Nat) (hstub : At env.ds iStub v1Stub) (a b : Word) (mem : Mem) (io : Isa.IOSt)
    (spv : Nat) (hm1 : mem.read 1 = BitVec.ofNat 32 spv) (hlt : spv + 2 < memWords)
    (hc : env.isCode (spv + 2) = false) :
    ∃ c, Steps env (cfg (iStub + 3) a b mem) io c io ∧ Exit env c io 0 := by
  have t3 := hstub.get 3 _ rfl
  have t4 := hstub.get 4 _ rfl
  have t5 := hstub.get 5 _ rfl
  have t6 := hstub.get 6 _ rfl
  have t7 := hstub.get 7 _ rfl
  have s5 := Step.label (env := env) (cfg (iStub + 3) a b mem) io _ _ t3
  have s6 := Step.ldbm (env := env) (cfg (iStub + 3 + 1) a b mem) io 1 _ t4 (ld_one mem)
  rw [hm1] at s6
  have s7 := Step.ldac (env := env) (cfg (iStub + 3 + 1 + 1) a (BitVec.ofNat 32 spv) mem) io 0 t5
  have hadr : BitVec.ofNat 32 spv + IAm.W 2 = BitVec.ofNat 32 (spv + 2) := ofNat_add_W spv 2
  have hst : IAm.store env mem (BitVec.ofNat 32 spv + IAm.W 2) (IAm.W 0) = some (mem.write (spv + 2) (IAm.W 0)) := by
    rw [hadr]; exact store_ofNat _ _ _ _ hlt hc
  have hne1 : (BitVec.ofNat 32 spv + IAm.W 2).toNat ≠ 1 := by
    rw [hadr]; exact ofNat_toNat_ne_one _ (by omega) hlt
  have s8 := Step.stai (env := env) (cfg (iStub + 3 + 1 + 1 + 1) (IAm.W 0) (BitVec.ofNat 32 spv) mem) io 2 _ t6 hst hne1
  refine ⟨cfg (iStub + 3 + 1 + 1 + 1 + 1) (IAm.W 0) (BitVec.ofNat 32 spv) (mem.write (spv + 2) (IAm.W 0)), ?_, ?_⟩
  · exact Steps.step _ _ _ _ _ _ s5 (Steps.step _ _ _ _ _ _ s6 (Steps.step _ _ _ _ _ _ s7 (Steps.one s8)))
  · apply Exit.svcExit
    · simpa using t7
    · exact W_zero
    · show Isa.ld _ ((mem.write (spv + 2) (IAm.W 0)).read 1 + 2) = some 0
      rw [Mem.read_write_other _ _ _ _ (by omega), hm1]
      have : (BitVec.ofNat 32 spv + 2 : Word) = BitVec.ofNat 32 (spv + 2) := by
        have := ofNat_add_W spv 2
        rw [← this]; rfl
      rw [this, ld_ofNat _ _ hlt, Mem.read_write_same _ _ _ hlt, W_zero]

/-! ### The whole program -/

/-- From the boot configuration to the exit system call, in the environment of the context. -/
theorem v2_core (G : GCtx) (ok : G.OK) (fuel : Nat) (mem0 : Mem) (st0 : X.St) (hdepth : st0.depth = 0)
    (pm : PInfo) (hpm : pm ∈ G.procs) (hname : pm.p.name = "main") (hproc : pm.p.isFunc = false)
    (spvI : Int) (iStub : Nat) (hhead : At G.env.ds 0 [.ref 0x9 "_start" true, .data spvI]) (hstub : At G.env.ds iStub v1Stub)
    (hg0 : GRep G st0 mem0) (hm1 : mem0.read 1 = BitVec.ofNat 32 G.spv) :
    match X.callUser fuel G.xc pm.p [] st0 with
    | .ok _ s => ∃ c, Steps G.env (cfg 0 0 0 mem0) st0.io c s.io ∧ Exit G.env c s.io 0 ∧
        -- `main` has returned to the exit stub with the stack pointer restored
        ∃ a' b' mem', Steps G.env (cfg 0 0 0 mem0) st0.io (cfg (iStub + 3) a' b' mem') s.io ∧
          mem'.read 1 = BitVec.ofNat 32 G.spv ∧ Steps G.env (cfg (iStub + 3) a' b' mem') s.io c s.io
    | .exit code s => ∃ c, Steps G.env (cfg 0 0 0 mem0) st0.io c s.io ∧ Exit G.env c s.io code
    | .undef _ => True := by
  have hcs := (all_correct ok fuel).2.2
  have hpo : pm.po = 1 := by unfold PInfo.po; rw [hproc]; rfl
  have hmainL : G.env.ds[pm.iPro]? = some (.label pm.kind "main") := by
    have := (ok.at_pro pm hpm).head
    rw [hname] at this
    exact this
  have t3 := hstub.get 3 _ rfl
  have hstart := v2_startup G.env spvI iStub pm.iPro pm.kind hhead hstub hmainL ok.nodup mem0 st0.io
  have haddr := ok.addr_lt _ _ _ t3
  have hlodef := ok.lo_def
  have := hcs pm hpm [] st0 (BitVec.ofNat 32 (G.env.addr (iStub + 3))) 0 mem0 G.spv (iStub + 3) .plain "_exit"
    hg0 hm1 (fun j hj => by simp at hj) (by rw [hdepth]; omega) (by rw [hpo]; simp) (by omega) t3
    (toNat_ofNat_lt _ haddr).symm
  cases hx : X.callUser fuel G.xc pm.p [] st0 with
  | undef w => trivial
  | exit code s =>
    rw [hx] at this
    obtain ⟨c, hs, he⟩ := this
    exact ⟨c, hstart.trans hs, he⟩
  | ok r s =>
    rw [hx] at this
    obtain ⟨a', b', mem', hs, _, h1, _⟩ := this
    have htop := ok.top
    obtain ⟨c, hf, he⟩ := v2_finish G.env iStub hstub a' b' mem' s.io G.spv h1 htop (ok.code_lo _ (by omega))
    exact ⟨c, (hstart.trans hs).trans hf, he, a', b', mem', hstart.trans hs, h1, hf⟩

/-- `PureOk`, decided: the body of every procedure outside `ctx.impure` passes the impurity
    analysis with that set. -/
def pureOkB (xc : X.Ctx) : Bool :=
  xc.genv.all fun e =>
    match e.2 with
    | .proc p => xc.impure.contains e.1 || !(X.impS (imp0 xc p.localNames) p.isLocalVar p.body)
    | _ => true

theorem pureOkB_sound (xc : X.Ctx) (h : pureOkB xc = true) : PureOk xc := by
  refine ⟨fun f p hl hi => ?_⟩
  unfold pureOkB at h
  rw [List.all_eq_true] at h
  have := h (f, .proc p) (lookup_mem_pair _ _ _ hl)
  simp only [hi, Bool.false_or, Bool.not_eq_true'] at this
  exact this

/-- The arrays lie above the initial stack pointer, inside the memory, and do not overlap. -/
def arrLayoutCheck (G : GCtx) (narr : Nat) : Bool :=
  (List.range narr).all (fun id => decide (G.asize id = 0) ||
    (decide (G.spv + 2 < G.abase id) && decide (G.abase id + G.asize id ≤ memWords))) &&
  (List.range narr).all (fun i => (List.range narr).all fun j =>
    decide (i = j) || decide (G.asize i = 0) || decide (G.asize j = 0) ||
    decide (G.abase i + G.asize i ≤ G.abase j) || decide (G.abase j + G.asize j ≤ G.abase i))

/-- The data word behind the label of a global array holds the array's address. -/
def arrPtrCheck (cg : CGOut) (env : Env) (abase : Nat → Nat) (e : String × GBind) : Bool :=
  match e.2 with
  | .array id =>
    match cg.tbl.find? ("", e.1) with
    | some sym =>
      located sym &&
      match labelIdx env.ds sym.globalLabel with
      | some j => decide (env.ds[j + 1]? = some (.data (abase id : Int)))
      | none => false
    | none => false
  | _ => true

open V1Pos in
/-- **The decidable side condition of the whole-program theorem for programs with several
    procedures** (`pk`: with calls of pure functions in operands). -/
def vCheck (pk : Bool) (P : X.Program) (st : Stages) (img : Image) : Bool :=
  isGDecls P.globals [] &&
  decide ((P.globals.map X.Decl.name ++ P.procs.map (·.name)).Nodup) &&
  match genProcs st.cg (v2Rho P) P.procs 0 { labelCount := (v2Gnames P.globals).length } (2 + st.cg.data.length + 8) with
  | none => false
  | some procs =>
    let G := mkG pk P st img 0 procs
    decide (st.optimised = peephole st.lowered) && parsedOkB st.optimised && decide (st.optimised.length < 2 ^ 26) &&
    decide (img.bytes.length ≤ 4 * memWords) && Separated st.optimised &&
    procs.all (procCheck G) && globalCheck G (img.bytes.length / 4) &&
    atB G.env.ds 0 [.ref 0x9 "_start" true, .data (spValue st.cg.globalsOffset)] &&
    atB G.env.ds (2 + st.cg.data.length) v1Stub &&
    decide (0 ≤ spValue st.cg.globalsOffset) &&
    (match procs.find? (fun pi => pi.p.name == "main") with
     | some pm => !pm.p.isFunc
     | none => false) &&
    (!pk || pureOkB (v2Xc P 0)) &&
    arrLayoutCheck G (v2Sizes P.globals []).length && (v2Genv P.globals 0 []).all (arrPtrCheck st.cg G.env G.abase)

/-- The check for the class V2 (calls only as statements and as whole right-hand sides). -/
def v2Check (P : X.Program) (st : Stages) (img : Image) : Bool := vCheck false P st img

/-- The check for the class V3 (also: calls of pure functions in operands). -/
def v3Check (P : X.Program) (st : Stages) (img : Image) : Bool := vCheck true P st img

theorem procCheck_fuel (pk : Bool) (P : X.Program) (st : Stages) (img : Image) (f : Nat) (procs : List PInfo) (pi : PInfo) :
    procCheck (mkG pk P st img f procs) pi = procCheck (mkG pk P st img 0 procs) pi := rfl

theorem globalCheck_fuel (pk : Bool) (P : X.Program) (st : Stages) (img : Image) (f : Nat) (procs : List PInfo) (w : Nat) :
    globalCheck (mkG pk P st img f procs) w = globalCheck (mkG pk P st img 0 procs) w := rfl

/-- Everything the whole-program theorems need of a compilation that passes `v2Check`. -/
theorem v_setup (pk : Bool) (P : X.Program) (st : Stages) (img : Image) (inp : X.Input) (fuel : Nat)
    (hasm : assembleDirs st.optimised = .ok img) (hchk : vCheck pk P st img = true) :
    ∃ (G : GCtx) (pm : PInfo), G.OK ∧ G.env = v1Env st img ∧ G.xc = v2Xc P fuel ∧ Good st.optimised img ∧
      Peep st.lowered st.optimised (peepSt st.lowered) ∧ isGDecls P.globals [] = true ∧
      pm ∈ G.procs ∧ pm.p.name = "main" ∧ pm.p.isFunc = false ∧
      (∀ m, P.procs.find? (·.name == "main") = some m → pm.p = m) ∧
      At G.env.ds 0 [.ref 0x9 "_start" true, .data (spValue st.cg.globalsOffset)] ∧
      At G.env.ds (2 + st.cg.data.length) v1Stub ∧
      GRep G (v2St0 P inp) (Am.boot img).mem ∧ (Am.boot img).mem.read 1 = BitVec.ofNat 32 G.spv ∧
      G.spv = (spValue st.cg.globalsOffset).toNat := by
  unfold vCheck at hchk
  rw [Bool.and_eq_true] at hchk
  obtain ⟨hgv, hchk⟩ := hchk
  rw [Bool.and_eq_true, decide_eq_true_eq] at hgv
  obtain ⟨hgv, hndall⟩ := hgv
  split at hchk
  · simp at hchk
  rename_i procs hprocs
  simp only [Bool.and_eq_true, decide_eq_true_eq, List.all_eq_true] at hchk
  obtain ⟨⟨⟨⟨⟨⟨⟨⟨⟨⟨⟨⟨⟨c1, c3⟩, c4⟩, c5⟩, c6⟩, cproc⟩, cglob⟩, chead⟩, cstub⟩, c0⟩, cmain⟩, cpure⟩, carr⟩, cptr⟩ := hchk
  obtain ⟨hmap, hgen⟩ := genProcs_spec st.cg _ _ _ _ _ _ hprocs
  have g : Good st.optimised img := ⟨parsedOkB_sound _ c3, c4, assembleDirs_ok _ _ hasm, c5, c6⟩
  have F := facts_of_good st.optimised img g
  have hp : Peep st.lowered st.optimised (peepSt st.lowered) := by rw [c1]; exact peephole_peep _
  obtain ⟨G, hG⟩ : ∃ G, G = mkG pk P st img fuel procs := ⟨_, rfl⟩
  have hGpk : G.pk = pk := by rw [hG]; rfl
  have hGenv : G.env = v1Env st img := by rw [hG]; rfl
  have hGprocs : G.procs = procs := by rw [hG]; rfl
  have hGxc : G.xc = v2Xc P fuel := by rw [hG]; rfl
  have hGg : G.gnames = v2Gnames P.globals := by rw [hG]; rfl
  have hGrho : G.rho = v2Rho P := by rw [hG]; rfl
  have hGp : G.pnames = P.procs.map (·.name) := by rw [hG]; rfl
  have hGspv : G.spv = (spValue st.cg.globalsOffset).toNat := by rw [hG]; rfl
  have hglob : globalCheck G (img.bytes.length / 4) = true := by rw [hG, globalCheck_fuel]; exact cglob
  have hproc : ∀ pi ∈ G.procs, procCheck G pi = true := by
    intro pi hpi
    rw [hG, procCheck_fuel]
    exact cproc pi (by rw [hGprocs] at hpi; exact hpi)
  have hbeyond : ∀ w, img.bytes.length / 4 ≤ w → G.env.isCode w = false := by
    intro w hw
    rw [hGenv]
    exact isCode_beyond st.optimised img F F.len4 w hw
  have hdata : ∀ j v, G.env.ds[j]? = some (.data v) → G.env.addr j % 4 = 0 ∧
      (Am.boot img).mem.read (G.env.addr j / 4) = BitVec.ofInt 32 v ∧ G.env.isCode (G.env.addr j / 4) = false := by
    intro j v hd
    rw [hGenv] at hd ⊢
    have := boot_data st.optimised img g F _ v (data_get hp j v hd)
    exact ⟨this.1, this.2.2.1, this.2.2.2⟩
  have hlabel : ∀ j k l, G.env.ds[j]? = some (.label k l) → G.env.addr (j + 1) = G.env.addr j := by
    intro j k l hd
    rw [hGenv] at hd ⊢
    obtain ⟨hd', hphi⟩ := label_get hp j k l hd
    show (envOf st.optimised img).addr (phi (peepSt st.lowered) (j + 1)) = (envOf st.optimised img).addr (phi (peepSt st.lowered) j)
    rw [hphi]
    exact label_facts st.optimised img.resolved.lens img.resolved.vals 0 _ k l hd'
  have hhead : At G.env.ds 0 [.ref 0x9 "_start" true, .data (spValue st.cg.globalsOffset)] := by
    rw [hG]; exact atB_sound _ _ _ chead
  have hstub : At G.env.ds (2 + st.cg.data.length) v1Stub := by
    rw [hG]; exact atB_sound _ _ _ cstub
  -- facts of the global check needed before `GCtx.OK`
  have hglob' := hglob
  unfold globalCheck at hglob'
  simp only [Bool.and_eq_true, decide_eq_true_eq, List.all_eq_true] at hglob'
  obtain ⟨⟨⟨⟨⟨⟨⟨⟨⟨⟨gnd, _⟩, _⟩, _⟩, _⟩, _⟩, _⟩, _⟩, ha1⟩, hnd⟩, gstr⟩ := hglob'
  rw [hGg, hGp] at hnd
  have hd1 := hhead.get 1 _ rfl
  obtain ⟨_, hm1, hc1⟩ := hdata 1 _ hd1
  rw [ha1] at hm1 hc1
  have hm1' : (Am.boot img).mem.read 1 = BitVec.ofNat 32 G.spv := by
    have h41 : 4 / 4 = 1 := rfl
    rw [h41] at hm1
    rw [hm1, hGspv, ← W_ofNat, Int.toNat_of_nonneg c0]
  have hasz : ∀ id, G.asize id = ((v2Sizes P.globals [])[id]?).getD 0 := by intro id; rw [hG]; rfl
  have harrL : ∀ id, G.asize id ≠ 0 → (G.spv + 2 < G.abase id ∧ G.abase id + G.asize id ≤ memWords) ∧
      ∀ id2, id ≠ id2 → G.asize id2 ≠ 0 →
        G.abase id + G.asize id ≤ G.abase id2 ∨ G.abase id2 + G.asize id2 ≤ G.abase id := by
    have hlt : ∀ id, G.asize id ≠ 0 → id < (v2Sizes P.globals []).length := by
      intro id hz
      by_cases h : id < (v2Sizes P.globals []).length
      · exact h
      · exfalso
        apply hz
        rw [hasz, List.getElem?_eq_none (by omega)]
        rfl
    have carr' : arrLayoutCheck G (v2Sizes P.globals []).length = true := by rw [hG]; exact carr
    unfold arrLayoutCheck at carr'
    simp only [Bool.and_eq_true, List.all_eq_true, List.mem_range, Bool.or_eq_true, decide_eq_true_eq] at carr'
    intro id hz
    refine ⟨?_, fun id2 hne hz2 => ?_⟩
    · rcases carr'.1 id (hlt id hz) with h | h
      · exact absurd h hz
      · exact h
    · rcases carr'.2 id (hlt id hz) id2 (hlt id2 hz2) with (((h | h) | h) | h) | h
      · exact absurd h hne
      · exact absurd h hz
      · exact absurd h hz2
      · exact Or.inl h
      · exact Or.inr h
  have ok : G.OK := by
    apply ok_of_checks G (img.bytes.length / 4) hproc hglob
    · intro pi hpi
      rw [hGprocs] at hpi
      have := hgen pi hpi
      rw [hG]
      exact this
    · exact hbeyond
    · exact hc1
    · intro f p h
      rw [hGxc] at h
      obtain ⟨hpm, hn⟩ := v2_proc_lookup P fuel f p h
      rw [← hmap] at hpm
      obtain ⟨pi, hpi, hpp⟩ := List.mem_map.mp hpm
      exact ⟨pi, by rw [hGprocs]; exact hpi, hpp, hn⟩
    · intro n
      rw [hGxc, hGg]
      exact v2_genv_vars P fuel n
    · intro n id h
      rw [hGxc] at h
      rw [hGg]
      exact v2_genv_arrs P fuel n id h
    · intro n hn
      rw [hGg] at hn
      rw [hGxc]
      exact v2_gnames_genv P fuel (List.nodup_append.mp hndall).1 n hn
    · intro id hz
      exact (harrL id hz).1
    · intro id1 id2 hne hz1 hz2
      exact (harrL id1 hz1).2 id2 hne hz2
    · intro n w
      rw [hGxc, hGrho]
      exact v2_rho_ok P fuel n w
    · intro f p h
      rw [hGxc] at h
      obtain ⟨hpm, hn⟩ := v2_proc_lookup P fuel f p h
      rw [hGp, ← hn]
      exact List.mem_map.mpr ⟨p, hpm, rfl⟩
    · intro f hf
      rw [hGp] at hf
      rw [hGxc]
      exact v2_pnames_mem P fuel hndall f hf
    · intro n h1 h2 h3
      rw [hGxc]
      rw [hGg] at h1
      rw [hGp] at h2
      rw [hGrho] at h3
      cases hl : (v2Xc P fuel).genv.lookup n with
      | none => rfl
      | some b =>
        exfalso
        cases b with
        | var => exact h1 (v2_genv_vars P fuel n hl)
        | array id => exact h1 (v2_genv_arrs P fuel n id hl)
        | val w => have := (v2_rho_ok P fuel n w).mp hl; rw [h3] at this; simp at this
        | proc p =>
          obtain ⟨hpm, hn⟩ := v2_proc_lookup P fuel n p hl
          exact h2 (List.mem_map.mpr ⟨p, hpm, hn⟩)
    · intro hpk
      rw [hGpk] at hpk
      rw [hGxc]
      have hb : pureOkB (v2Xc P fuel) = true := by
        have h0 : pureOkB (v2Xc P fuel) = pureOkB (v2Xc P 0) := rfl
        rw [h0]
        simpa [hpk] using cpure
      exact pureOkB_sound _ hb
  cases hfm : procs.find? (fun pi => pi.p.name == "main") with
  | none => rw [hfm] at cmain; simp at cmain
  | some pm =>
    rw [hfm] at cmain
    simp only [Bool.not_eq_true'] at cmain
    have hpm : pm ∈ G.procs := by rw [hGprocs]; exact List.mem_of_find?_eq_some hfm
    have hname : pm.p.name = "main" := by
      have := List.find?_some hfm
      simpa using this
    have hpmm : ∀ m, P.procs.find? (·.name == "main") = some m → pm.p = m := by
      intro m hfind
      have h1 : (procs.map (·.p)).find? (fun p => p.name == "main") = some pm.p := by
        rw [List.find?_map]
        show Option.map (·.p) (procs.find? (fun pi => pi.p.name == "main")) = _
        rw [hfm]; rfl
      rw [hmap, hfind] at h1
      exact (Option.some.inj h1).symm
    have hg0 : GRep G (v2St0 P inp) (Am.boot img).mem := by
      refine ⟨?_, ?_, ?_, ?_, ?_⟩
      · intro n w _ hl
        have := v2Gv_none P.globals n _ hl
        simp at this
      · intro n id h
        rw [hGxc] at h
        have hgl := v2_genv_glob P fuel n _ h (by simp)
        have hck := cptr (n, .array id) (lookup_mem_pair _ _ _ hgl)
        unfold arrPtrCheck at hck
        simp only at hck
        cases hf : st.cg.tbl.find? ("", n) with
        | none => rw [hf] at hck; simp at hck
        | some sym =>
          rw [hf] at hck
          simp only [Bool.and_eq_true] at hck
          obtain ⟨hloc, hck⟩ := hck
          have hGenv0 : (mkG pk P st img 0 procs).env = G.env := by rw [hG]; rfl
          have hGab : (mkG pk P st img 0 procs).abase = G.abase := by rw [hG]; rfl
          rw [hGenv0, hGab] at hck
          cases hj : labelIdx G.env.ds sym.globalLabel with
          | none => rw [hj] at hck; simp at hck
          | some j =>
            rw [hj] at hck
            simp only [decide_eq_true_eq] at hck
            obtain ⟨kind, hlab⟩ := labelIdx_some _ _ _ hj
            obtain ⟨_, hval, _⟩ := hdata (j + 1) _ hck
            rw [hlabel j kind _ hlab] at hval
            refine ⟨G.env.addr j / 4, ?_, ?_⟩
            · rw [hG]
              show v2Gloc st.cg (v1Env st img) n = _
              unfold v2Gloc
              rw [hf]
              simp only [hloc, if_true]
              have : labelIdx (v1Env st img).ds sym.globalLabel = some j := by rw [← hGenv]; exact hj
              rw [this]
              rfl
            · rw [hval]
              exact BitVec.ofInt_natCast 32 _
      · intro id cells h
        have h' : (v2Arrs P.globals)[id]? = some cells := h
        refine ⟨?_, fun idx w hi => absurd hi (v2Arrs_none P.globals id cells h' idx w)⟩
        rw [hasz]
        unfold v2Arrs at h'
        simp only [List.getElem?_toArray, List.getElem?_map, Option.map_eq_some_iff] at h'
        obtain ⟨len, hl, hc⟩ := h'
        rw [hl, ← hc]
        simp
      · intro v l j k hmem hd
        have hdat := ok.const_data v l j k hmem hd
        obtain ⟨_, hval, _⟩ := hdata (j + 1) v hdat
        rw [hlabel j k l hd] at hval
        exact hval
      · intro l bs ws j k hmem hp hd idx hidx
        obtain ⟨j', hj', _, _, _, hdat, _⟩ := strCheck_sound G l bs ws (gstr _ hmem) hp
        rw [labelIdx_of_nodup _ j k l gnd hd] at hj'
        have : j = j' := Option.some.inj hj'
        subst this
        obtain ⟨v, hdv, hv, haddr⟩ := hdat idx hidx
        obtain ⟨_, hval, _⟩ := hdata (j + 1 + idx) v hdv
        rw [haddr, hv] at hval
        have : (G.env.addr j + 4 * idx) / 4 = G.env.addr j / 4 + idx := by omega
        rw [this] at hval
        exact hval
    exact ⟨G, pm, ok, hGenv, hGxc, g, hp, hgv, hpm, hname, cmain, hpmm, hhead, hstub, hg0, hm1', hGspv⟩

theorem v2_setup (P : X.Program) (st : Stages) (img : Image) (inp : X.Input) (fuel : Nat)
    (hasm : assembleDirs st.optimised = .ok img) (hchk : v2Check P st img = true) :
    ∃ (G : GCtx) (pm : PInfo), G.OK ∧ G.env = v1Env st img ∧ G.xc = v2Xc P fuel ∧ Good st.optimised img ∧
      Peep st.lowered st.optimised (peepSt st.lowered) ∧ isGDecls P.globals [] = true ∧
      pm ∈ G.procs ∧ pm.p.name = "main" ∧ pm.p.isFunc = false ∧
      (∀ m, P.procs.find? (·.name == "main") = some m → pm.p = m) ∧
      At G.env.ds 0 [.ref 0x9 "_start" true, .data (spValue st.cg.globalsOffset)] ∧
      At G.env.ds (2 + st.cg.data.length) v1Stub ∧
      GRep G (v2St0 P inp) (Am.boot img).mem ∧ (Am.boot img).mem.read 1 = BitVec.ofNat 32 G.spv ∧
      G.spv = (spValue st.cg.globalsOffset).toNat :=
  v_setup false P st img inp fuel hasm hchk

/-- **Whole programs with several procedures.**  `st` are the stages of the compilation of `P`,
    `img` the assembled image; under the decidable check `v2Check` every defined behaviour of `P`
    is the behaviour of the ISA on `img`. -/
theorem v_correct (pk : Bool) (P : X.Program) (st : Stages) (img : Image) (inp : X.Input) (fuel : Nat) (β : X.Behaviour)
    (hasm : assembleDirs st.optimised = .ok img) (hchk : vCheck pk P st img = true)
    (hrun : X.run P inp fuel = .defined β) :
    ∃ n code j s' io, Isa.run n (Am.boot img) (Isa.IOSt.init inp.stdin inp.files) = .exited code j s' io ∧
      code = β.exit ∧ io.log.reverse = β.events ∧ inp.stdin.length - io.stdin.length = β.stdinConsumed := by
  obtain ⟨G, pm, ok, hGenv, hGxc, g, hp, hgv, hpm, hname, cmain, hpmm, hhead, hstub, hg0, hm1', _⟩ :=
    v_setup pk P st img inp fuel hasm hchk
  obtain ⟨m, hfind, hcases⟩ := run_v2 P inp fuel β hgv hrun
  have hcore := v2_core G ok fuel (Am.boot img).mem (v2St0 P inp) rfl pm hpm hname cmain
    (spValue st.cg.globalsOffset) (2 + st.cg.data.length) hhead hstub hg0 hm1'
  rw [hpmm m hfind, hGxc] at hcore
  have hio : (v2St0 P inp).io = Isa.IOSt.init inp.stdin inp.files := rfl
  rw [hio] at hcore
  have hnd' : (labelNames st.lowered).Nodup := by
    have := ok.nodup
    rw [hGenv] at this
    exact this
  have hboot : bootCfg img = cfg 0 0 0 (Am.boot img).mem := rfl
  rcases hcases with ⟨r, s, hx, e1, e2, e3, _⟩ | ⟨code, s, hx, e1, e2, e3, _⟩
  · rw [hx] at hcore
    obtain ⟨c, hsteps, hexit, _⟩ := hcore
    rw [hGenv] at hsteps hexit
    obtain ⟨c', hsteps', hexit'⟩ := peep_run (env' := envOf st.optimised img) hp hnd' _ _ c s.io 0 hsteps hexit
    obtain ⟨n, j, s', hr⟩ := IAm_refines_Isa g _ c' s.io 0 (by rw [hboot]; exact hsteps') hexit'
    exact ⟨n, 0, j, s', s.io, hr, e1.symm, e2.symm, e3.symm⟩
  · rw [hx] at hcore
    obtain ⟨c, hsteps, hexit⟩ := hcore
    rw [hGenv] at hsteps hexit
    obtain ⟨c', hsteps', hexit'⟩ := peep_run (env' := envOf st.optimised img) hp hnd' _ _ c s.io code hsteps hexit
    obtain ⟨n, j, s', hr⟩ := IAm_refines_Isa g _ c' s.io code (by rw [hboot]; exact hsteps') hexit'
    exact ⟨n, code, j, s', s.io, hr, e1.symm, e2.symm, e3.symm⟩

theorem v2_correct (P : X.Program) (st : Stages) (img : Image) (inp : X.Input) (fuel : Nat) (β : X.Behaviour)
    (hasm : assembleDirs st.optimised = .ok img) (hchk : v2Check P st img = true)
    (hrun : X.run P inp fuel = .defined β) :
    ∃ n code j s' io, Isa.run n (Am.boot img) (Isa.IOSt.init inp.stdin inp.files) = .exited code j s' io ∧
      code = β.exit ∧ io.log.reverse = β.events ∧ inp.stdin.length - io.stdin.length = β.stdinConsumed :=
  v_correct false P st img inp fuel β hasm hchk hrun

/-- **The class V2 with its side conditions, as one decidable predicate of the source program.** -/
def v2Ok (P : X.Program) : Bool :=
  match stages P with
  | .ok st =>
    match assembleDirs st.optimised with
    | .ok img => v2Check P st img
    | .error _ => false
  | .error _ => false

theorem v2_whole (P : X.Program) (inp : X.Input) (fuel : Nat) (β : X.Behaviour) (img : Image)
    (hok : v2Ok P = true) (hcomp : compile P = .ok img) (hrun : X.run P inp fuel = .defined β) :
    ∃ n code j s' io, Isa.run n (Am.boot img) (Isa.IOSt.init inp.stdin inp.files) = .exited code j s' io ∧
      code = β.exit ∧ io.log.reverse = β.events ∧ inp.stdin.length - io.stdin.length = β.stdinConsumed := by
  unfold v2Ok at hok
  split at hok
  · rename_i st hst
    have hc : compile P = assembleDirs st.optimised := by
      unfold compile compileDirs
      rw [hst]
      rfl
    rw [hc] at hcomp
    rw [hcomp] at hok
    exact v2_correct P st img inp fuel β hcomp hok hrun
  · simp at hok

/-- The syntactic part of the class V2 (implied by `v2Ok`; used to report how often the reflective
    part of the check fails on programs of the class). -/
def isV2 (P : X.Program) : Bool :=
  let gn := P.globals.map X.Decl.name
  let pn := P.procs.map (·.name)
  isGDecls P.globals [] &&
  P.procs.all (fun p => p.formals.all isVAFormal && p.locals.all isVarDecl && okS5 false pn [] (v2Rho P) (fun _ => true) p.body &&
    (p.formals.map X.Formal.name ++ p.locals.map X.Decl.name).all (fun n => !gn.contains n && !pn.contains n)) &&
  (match P.procs.find? (·.name == "main") with
   | some m => !m.isFunc && m.formals.isEmpty
   | none => false)

/-! ### The class V3: also calls of pure functions in operand positions -/

theorem v3_correct (P : X.Program) (st : Stages) (img : Image) (inp : X.Input) (fuel : Nat) (β : X.Behaviour)
    (hasm : assembleDirs st.optimised = .ok img) (hchk : v3Check P st img = true)
    (hrun : X.run P inp fuel = .defined β) :
    ∃ n code j s' io, Isa.run n (Am.boot img) (Isa.IOSt.init inp.stdin inp.files) = .exited code j s' io ∧
      code = β.exit ∧ io.log.reverse = β.events ∧ inp.stdin.length - io.stdin.length = β.stdinConsumed :=
  v_correct true P st img inp fuel β hasm hchk hrun

/-- **The class V3 with its side conditions, as one decidable predicate of the source program.** -/
def v3Ok (P : X.Program) : Bool :=
  match stages P with
  | .ok st =>
    match assembleDirs st.optimised with
    | .ok img => v3Check P st img
    | .error _ => false
  | .error _ => false

theorem v3_whole (P : X.Program) (inp : X.Input) (fuel : Nat) (β : X.Behaviour) (img : Image)
    (hok : v3Ok P = true) (hcomp : compile P = .ok img) (hrun : X.run P inp fuel = .defined β) :
    ∃ n code j s' io, Isa.run n (Am.boot img) (Isa.IOSt.init inp.stdin inp.files) = .exited code j s' io ∧
      code = β.exit ∧ io.log.reverse = β.events ∧ inp.stdin.length - io.stdin.length = β.stdinConsumed := by
  unfold v3Ok at hok
  split at hok
  · rename_i st hst
    have hc : compile P = assembleDirs st.optimised := by
      unfold compile compileDirs
      rw [hst]
      rfl
    rw [hc] at hcomp
    rw [hcomp] at hok
    exact v3_correct P st img inp fuel β hcomp hok hrun
  · simp at hok

/-- The syntactic part of the class V3 (implied by `v3Ok`). -/
def isV3 (P : X.Program) : Bool :=
  let gn := P.globals.map X.Decl.name
  let pn := P.procs.map (·.name)
  isGDecls P.globals [] &&
  P.procs.all (fun p => p.formals.all isVAFormal && p.locals.all isVarDecl && okS5 true pn (X.impureProcs P) (v2Rho P) (fun _ => true) p.body &&
    (p.formals.map X.Formal.name ++ p.locals.map X.Decl.name).all (fun n => !gn.contains n && !pn.contains n)) &&
  (match P.procs.find? (·.name == "main") with
   | some m => !m.isFunc && m.formals.isEmpty
   | none => false)

end Hex.C01s
