import HexVerif.Lemmas.XcmpStage4
import HexVerif.Lemmas.XcmpV1
/-!
  Whole programs with several procedures (class V2): the program context built from the
  compiler's output, the decidable check `v2Check` that establishes `GCtx.OK`, and `v2_correct`.
-/
namespace Hex.C01s
open Hex Hex.X Hex.Xcmp Hex.IAm Hex.Asm

/-! ### Well-formedness of an activation at any stack pointer, from the lowest one -/

theorem wfs_shift (G : GCtx) (pi : PInfo) (dep0 dep : Nat) (hi0 hi : Nat → Word) (exitJ : Nat)
    (wf0 : (KOf G pi G.lo dep0 hi0).WFS exitJ)
    (E1 : ∀ n sym a, G.cg.tbl.lookup pi.p.name n = .ok sym → sym.scope = "" → G.locOf pi G.lo n = some a → a < G.lo)
    (E2 : ∀ n sym, G.cg.tbl.lookup pi.p.name n = .ok sym → located sym = true → sym.scope ≠ "" →
      sym.stackOffset ≤ (pi.po : Int) + pi.p.formals.length)
    (code_lo : ∀ w, G.lo ≤ w → G.env.isCode w = false) (top : G.spv + 2 < memWords) (lo_ge : 2 ≤ G.lo)
    (sp : Nat) (hlo : G.lo ≤ sp) (hact : sp + G.S pi + pi.po + pi.p.formals.length ≤ G.spv + 1) :
    (KOf G pi sp dep hi).WFS exitJ := by
  have hpo := po_pos pi
  have loc0 : ∀ n a, (KOf G pi G.lo dep0 hi0).loc n = some a ↔ G.locOf pi G.lo n = some a := fun _ _ => Iff.rfl
  exact {
    nodup := wf0.nodup
    var_global := by
      intro n sym a hl hs hloc
      have hloc' : G.locOf pi sp n = some a := hloc
      rcases G.locOf_cases pi sp n a hloc' with ⟨sym', hl', _, hall⟩ | ⟨sym', c, hl', hs', _⟩
      · exact wf0.var_global n sym a hl hs (hall G.lo)
      · have h1 : G.cg.tbl.lookup pi.p.name n = .ok sym := hl
        rw [h1] at hl'
        have := Except.ok.inj hl'
        subst this
        exact absurd hs hs'
    var_local := by
      intro n sym a hl hs hloc
      have hloc' : G.locOf pi sp n = some a := hloc
      rcases G.locOf_cases pi sp n a hloc' with ⟨sym', hl', hs', _⟩ | ⟨sym', c, hl', _, hc, ha, hall⟩
      · have h1 : G.cg.tbl.lookup pi.p.name n = .ok sym := hl
        rw [h1] at hl'
        have := Except.ok.inj hl'
        subst this
        exact absurd hs' hs
      · have h0 := wf0.var_local n sym (G.lo + c) hl hs (hall G.lo)
        refine ⟨h0.1, ?_⟩
        have h2 := h0.2
        show (a : Int) = (sp : Int) + ((G.S pi : Nat) : Int) - 1 + sym.stackOffset
        have h3 : ((G.lo + c : Nat) : Int) = (G.lo : Int) + ((G.S pi : Nat) : Int) - 1 + sym.stackOffset := h2
        rw [ha]
        push_cast at h3 ⊢
        omega
    const_lbl := by
      intro v l hm
      obtain ⟨j, k, hd, h4, hlt⟩ := wf0.const_lbl v l hm
      exact ⟨j, k, hd, h4, Nat.lt_of_lt_of_le hlt hlo⟩
    slot_ok := by
      intro k hk
      have hk' : k < G.S pi := hk
      have hs : (KOf G pi sp dep hi).slot k = sp + G.S pi - 1 - k := rfl
      rw [hs]
      exact ⟨by unfold memWords at *; omega, code_lo _ (by omega)⟩
    sp_ge := by show 2 ≤ sp; omega
    sp_le := by show sp + G.S pi ≤ memWords; unfold memWords at *; omega
    loc_sep := by
      intro n a hloc
      have hloc' : G.locOf pi sp n = some a := hloc
      rcases G.locOf_cases pi sp n a hloc' with ⟨sym', hl', hs', hall⟩ | ⟨sym', c, hl', _, hc, ha, hall⟩
      · left
        have := E1 n sym' a hl' hs' (hall G.lo)
        show a < sp
        omega
      · right
        rcases wf0.loc_sep n (G.lo + c) (hall G.lo) with h | h
        · have : G.lo + c < G.lo := h
          omega
        · have h' : G.lo + G.S pi ≤ G.lo + c + pi.p.locals.length := h
          show sp + G.S pi ≤ a + pi.p.locals.length
          omega
    loc_ok := by
      intro n a hloc
      have hloc' : G.locOf pi sp n = some a := hloc
      rcases G.locOf_cases pi sp n a hloc' with ⟨sym', hl', hs', hall⟩ | ⟨sym', c, hl', hs', hc, ha, hall⟩
      · exact wf0.loc_ok n a (hall G.lo)
      · have hlocd : located sym' = true := by
          have := hall sp
          unfold GCtx.locOf at this
          rw [hl'] at this
          simp only at this
          by_cases h : located sym' = true
          · exact h
          · rw [if_neg h] at this; simp at this
        have hb := E2 n sym' hl' hlocd hs'
        have hcb : c ≤ G.S pi - 1 + pi.po + pi.p.formals.length ∨ G.S pi = 0 := by omega
        refine ⟨by omega, ?_, code_lo _ (by omega)⟩
        unfold memWords at *
        omega
    loc_inj := by
      intro n m a hn hm
      have hn' : G.locOf pi sp n = some a := hn
      have hm' : G.locOf pi sp m = some a := hm
      rcases G.locOf_cases pi sp n a hn' with ⟨s1, hl1, hs1, hall1⟩ | ⟨s1, c1, hl1, _, _, ha1, hall1⟩
      · rcases G.locOf_cases pi sp m a hm' with ⟨s2, hl2, hs2, hall2⟩ | ⟨s2, c2, hl2, _, _, ha2, hall2⟩
        · exact wf0.loc_inj n m a (hall1 G.lo) (hall2 G.lo)
        · have := E1 n s1 a hl1 hs1 (hall1 G.lo)
          omega
      · rcases G.locOf_cases pi sp m a hm' with ⟨s2, hl2, hs2, hall2⟩ | ⟨s2, c2, hl2, _, _, ha2, hall2⟩
        · have := E1 m s2 a hl2 hs2 (hall2 G.lo)
          omega
        · have : c1 = c2 := by omega
          subst this
          exact wf0.loc_inj n m (G.lo + c1) (hall1 G.lo) (hall2 G.lo)
    const_sep := by
      intro v l j k n a hmem hd hloc
      have hloc' : G.locOf pi sp n = some a := hloc
      rcases G.locOf_cases pi sp n a hloc' with ⟨sym', hl', hs', hall⟩ | ⟨sym', c, hl', _, hc, ha, hall⟩
      · exact wf0.const_sep v l j k n a hmem hd (hall G.lo)
      · obtain ⟨j', k', hd', _, hlt⟩ := wf0.const_lbl v l hmem
        have hj := labelIdx_of_nodup _ j k l wf0.nodup hd
        have hj' := labelIdx_of_nodup _ j' k' l wf0.nodup hd'
        rw [hj] at hj'
        have : j = j' := Option.some.inj hj'
        subst this
        have hlt' : G.env.addr j / 4 < G.lo := hlt
        show G.env.addr j / 4 ≠ a
        omega
    loc_ne_link := by
      intro n a hloc
      have hloc' : G.locOf pi sp n = some a := hloc
      show a ≠ sp + G.S pi
      rcases G.locOf_cases pi sp n a hloc' with ⟨sym', hl', hs', hall⟩ | ⟨sym', c, hl', _, hc, ha, hall⟩
      · have := E1 n sym' a hl' hs' (hall G.lo)
        omega
      · have h0 : G.lo + c ≠ G.lo + G.S pi := wf0.loc_ne_link n (G.lo + c) (hall G.lo)
        omega
    exit_lbl := wf0.exit_lbl
    stop_ok := by
      refine ⟨?_, code_lo _ (by show G.lo ≤ sp + 2; omega)⟩
      show sp + 2 < memWords
      unfold memWords at *
      omega }

/-! ### The program context of a compilation -/

def v2Xc (P : X.Program) (fuel : Nat) : X.Ctx :=
  { genv := P.globals.map (fun d => (d.name, GBind.var)) ++ P.procs.map (fun p => (p.name, GBind.proc p)),
    impure := X.impureProcs P, limit := fuel }

def procLen (cg : CGOut) (p : X.Proc) (i : Nat) (code : Code) : Nat :=
  let S := (frameOf cg i).size
  (proDirs (if p.isFunc then .func else .proc) p.name S).length + (lowerCode cg code).length +
    (if p.isFunc then epiFuncDirs (frameOf cg i).exitLabel S else epiProcDirs (frameOf cg i).exitLabel S).length

/-- The body of every procedure generated again, with the final symbol table, threading the
    generator state as `CodeGen` does (exit label before, one label per local `var` after). -/
def genProcs (cg : CGOut) : List X.Proc → Nat → GS → Nat → Option (List PInfo)
  | [], _, _, _ => some []
  | p :: ps, i, gs, pos =>
    let nl := p.locals.length
    let gs1 : GS := { gs with labelCount := gs.labelCount + 1, offset := nl, size := nl }
    let ctx : Xcmp.Ctx := { tbl := cg.tbl, scope := p.name, frame := i, exitLabel := (frameOf cg i).exitLabel }
    match genStmt ctx (optStmt (annotS (fun _ => none) p.body)) gs1 with
    | .error _ => none
    | .ok (code, gs2) =>
      match genProcs cg ps (i + 1) { gs2 with labelCount := gs2.labelCount + nl } (pos + procLen cg p i code) with
      | none => none
      | some rest => some ({ p := p, idx := i, iPro := pos, code := code, gs1 := gs1, gs2 := gs2 } :: rest)

def v2Gloc (cg : CGOut) (env : Env) (n : String) : Option Nat :=
  match cg.tbl.find? ("", n) with
  | some sym => if located sym then (labelIdx env.ds sym.globalLabel).map fun j => env.addr j / 4 else none
  | none => none

def smaxOf (cg : CGOut) (procs : List PInfo) : Nat :=
  procs.foldl (fun m pi => max m (frameOf cg pi.idx).size) 0

def mkG (P : X.Program) (st : Stages) (img : Image) (fuel : Nat) (procs : List PInfo) : GCtx :=
  { env := v1Env st img, cg := st.cg, xc := v2Xc P fuel,
    consts := (procs.getLast?.map fun pi => pi.gs2.constMap).getD [],
    procs := procs, gnames := P.globals.map X.Decl.name, pnames := P.procs.map (·.name),
    gloc := v2Gloc st.cg (v1Env st img),
    spv := (spValue st.cg.globalsOffset).toNat, smax := smaxOf st.cg procs,
    lo := (spValue st.cg.globalsOffset).toNat - X.maxDepth * smaxOf st.cg procs }

/-! ### The decidable check -/

def GCtx.names (G : GCtx) : List String := G.cg.tbl.map fun e => e.1.2

def scopeGlobal (G : GCtx) (pi : PInfo) (n : String) : Bool :=
  match G.cg.tbl.lookup pi.p.name n with
  | .ok sym => decide (sym.scope = "")
  | .error _ => false

def e1Check (G : GCtx) (pi : PInfo) : Bool :=
  G.names.all fun n =>
    match G.cg.tbl.lookup pi.p.name n with
    | .ok sym =>
      if sym.scope = "" then (match G.locOf pi G.lo n with | some a => decide (a < G.lo) && G.gnames.contains n | none => true) else true
    | .error _ => true

def e2Check (G : GCtx) (pi : PInfo) : Bool :=
  G.names.all fun n =>
    match G.cg.tbl.lookup pi.p.name n with
    | .ok sym =>
      if located sym && decide (sym.scope ≠ "") then decide (sym.stackOffset ≤ (pi.po : Int) + pi.p.formals.length) else true
    | .error _ => true

def atB (ds : List Dir) (i : Nat) (c : List Dir) : Bool :=
  decide (i ≤ ds.length) && decide ((ds.drop i).take c.length = c)

theorem atB_sound (ds : List Dir) (i : Nat) (c : List Dir) (h : atB ds i c = true) : At ds i c := by
  unfold atB at h
  simp only [Bool.and_eq_true, decide_eq_true_eq] at h
  refine ⟨ds.take i, (ds.drop i).drop c.length, ?_, by simp [h.1]⟩
  have h1 : ds = ds.take i ++ ds.drop i := (List.take_append_drop i ds).symm
  have h2 : ds.drop i = (ds.drop i).take c.length ++ (ds.drop i).drop c.length := (List.take_append_drop _ _).symm
  rw [h.2] at h2
  rw [List.append_assoc, ← h2]
  exact h1

def procCheck (G : GCtx) (pi : PInfo) : Bool :=
  wfsCheck (KOf G pi G.lo 0 noHi) (G.iEpi pi) G.names && e1Check G pi && e2Check G pi &&
  atB G.env.ds pi.iPro (proDirs pi.kind pi.p.name (G.S pi)) && atB G.env.ds (G.iBody pi) (lowerCode G.cg pi.code) &&
  atB G.env.ds (G.iEpi pi) (G.epi pi) &&
  decide (pi.gs2.size ≤ G.S pi) && decide (pi.p.locals.length ≤ pi.gs1.offset) &&
  pi.gs2.constMap.all (fun e => G.consts.contains e) && decide (G.S pi ≤ G.smax) &&
  okS4 G.pnames pi.p.body && pi.p.formals.all isValFormal && pi.p.locals.all isVarDecl &&
  G.procs.all (fun pj =>
    match G.cg.tbl.lookup pi.p.name pj.p.name with
    | .ok sym => decide ((sym.type = .func) ↔ (pj.p.isFunc = true))
    | .error _ => false) &&
  G.gnames.all (fun n => decide (G.locOf pi G.lo n = G.gloc n) && scopeGlobal G pi n) &&
  (List.range pi.p.formals.length).all (fun k =>
    match pi.p.formals[k]? with
    | some f => decide (G.locOf pi G.lo f.name = some (G.lo + G.S pi + pi.po + k)) && !scopeGlobal G pi f.name
    | none => true) &&
  (List.range pi.p.locals.length).all (fun k =>
    match pi.p.locals[k]? with
    | some d => decide (k < G.S pi) && decide (G.locOf pi G.lo d.name = some (G.lo + G.S pi - 1 - k)) && !scopeGlobal G pi d.name
    | none => true) &&
  pi.lnames.all (fun n => !G.gnames.contains n && !G.pnames.contains n)

def constCheck (G : GCtx) (vl : Int × String) : Bool :=
  match labelIdx G.env.ds vl.2 with
  | some j => decide (G.env.ds[j + 1]? = some (.data vl.1)) && decide (2 ≤ G.env.addr j / 4) && decide (G.env.addr j / 4 < G.lo)
  | none => false

def labelAddrCheck (G : GCtx) : Bool :=
  (List.range G.env.ds.length).all fun j =>
    match G.env.ds[j]? with
    | some (.label _ _) => decide (G.env.addr j < 2 ^ 32)
    | _ => true

def globalCheck (G : GCtx) (imgWords : Nat) : Bool :=
  decide ((labelNames G.env.ds).Nodup) &&
  G.gnames.all (fun n => match G.gloc n with | some a => decide (2 ≤ a) && decide (a < G.lo) | none => false) &&
  G.consts.all (constCheck G) &&
  decide (G.spv + 2 < memWords) && decide (2 ≤ G.lo) && decide (G.lo + X.maxDepth * G.smax ≤ G.spv) &&
  labelAddrCheck G && decide (imgWords ≤ G.lo) && decide (G.env.addr 1 = 4) &&
  decide ((G.gnames ++ G.pnames).Nodup)

/-! ### Soundness of the check -/

theorem locOf_names (G : GCtx) (pi : PInfo) (sp : Nat) (n : String) (a : Nat) (h : G.locOf pi sp n = some a) :
    n ∈ G.names := by
  unfold GCtx.locOf at h
  cases hl : G.cg.tbl.lookup pi.p.name n with
  | ok sym => exact lookup_name_mem _ _ _ _ hl
  | error e => rw [hl] at h; simp at h

theorem scopeGlobal_iff (G : GCtx) (pi : PInfo) (n : String) :
    scopeGlobal G pi n = true ↔ ∃ sym, G.cg.tbl.lookup pi.p.name n = .ok sym ∧ sym.scope = "" := by
  unfold scopeGlobal
  cases hl : G.cg.tbl.lookup pi.p.name n with
  | ok sym => simp
  | error e => simp

/-- Everything `GCtx.OK` asks for, from the two checks and the facts about the environment of the
    reference semantics. -/
theorem ok_of_checks (G : GCtx) (imgWords : Nat)
    (hproc : ∀ pi ∈ G.procs, procCheck G pi = true) (hglob : globalCheck G imgWords = true)
    (hgen : ∀ pi ∈ G.procs,
      genStmt (G.ctxOf pi) (optStmt (annotS (fun _ => none) pi.p.body)) pi.gs1 = .ok (pi.code, pi.gs2))
    (hbeyond : ∀ w, imgWords ≤ w → G.env.isCode w = false) (hcode1 : G.env.isCode 1 = false)
    (resolve : ∀ f p, G.xc.genv.lookup f = some (.proc p) → ∃ pi ∈ G.procs, pi.p = p ∧ p.name = f)
    (genv_vars : ∀ n, n ∈ G.gnames ↔ G.xc.genv.lookup n = some .var)
    (no_vals : ∀ n w, G.xc.genv.lookup n ≠ some (.val w))
    (pnames_ok : ∀ f p, G.xc.genv.lookup f = some (.proc p) → f ∈ G.pnames)
    (pnames_mem : ∀ f ∈ G.pnames, ∃ p, G.xc.genv.lookup f = some (.proc p))
    (genv_none : ∀ n, n ∉ G.gnames → n ∉ G.pnames → G.xc.genv.lookup n = none) : G.OK := by
  unfold globalCheck at hglob
  simp only [Bool.and_eq_true, decide_eq_true_eq, List.all_eq_true] at hglob
  obtain ⟨⟨⟨⟨⟨⟨⟨⟨⟨g1, g2⟩, g3⟩, g4⟩, g5⟩, g6⟩, g7⟩, g8⟩, g9⟩, g10⟩ := hglob
  have code_lo : ∀ w, G.lo ≤ w → G.env.isCode w = false := fun w hw => hbeyond w (by omega)
  have hpc : ∀ pi ∈ G.procs,
      (wfsCheck (KOf G pi G.lo 0 noHi) (G.iEpi pi) G.names = true ∧ e1Check G pi = true ∧ e2Check G pi = true ∧
       atB G.env.ds pi.iPro (proDirs pi.kind pi.p.name (G.S pi)) = true ∧
       atB G.env.ds (G.iBody pi) (lowerCode G.cg pi.code) = true ∧ atB G.env.ds (G.iEpi pi) (G.epi pi) = true ∧
       pi.gs2.size ≤ G.S pi ∧ pi.p.locals.length ≤ pi.gs1.offset ∧
       (∀ e ∈ pi.gs2.constMap, G.consts.contains e = true) ∧ G.S pi ≤ G.smax ∧
       okS4 G.pnames pi.p.body = true ∧ pi.p.formals.all isValFormal = true ∧ pi.p.locals.all isVarDecl = true) ∧
      ((∀ pj ∈ G.procs, (match G.cg.tbl.lookup pi.p.name pj.p.name with
          | .ok sym => decide ((sym.type = .func) ↔ (pj.p.isFunc = true))
          | .error _ => false) = true) ∧
       (∀ n ∈ G.gnames, G.locOf pi G.lo n = G.gloc n ∧ scopeGlobal G pi n = true) ∧
       (∀ k ∈ List.range pi.p.formals.length, (match pi.p.formals[k]? with
          | some f => decide (G.locOf pi G.lo f.name = some (G.lo + G.S pi + pi.po + k)) && !scopeGlobal G pi f.name
          | none => true) = true) ∧
       (∀ k ∈ List.range pi.p.locals.length, (match pi.p.locals[k]? with
          | some d => decide (k < G.S pi) && decide (G.locOf pi G.lo d.name = some (G.lo + G.S pi - 1 - k)) && !scopeGlobal G pi d.name
          | none => true) = true) ∧
       (∀ n ∈ pi.lnames, G.gnames.contains n = false ∧ G.pnames.contains n = false)) := by
    intro pi hpi
    have := hproc pi hpi
    unfold procCheck at this
    simp only [Bool.and_eq_true, decide_eq_true_eq, List.all_eq_true, Bool.not_eq_true'] at this
    obtain ⟨⟨⟨⟨⟨⟨⟨⟨⟨⟨⟨⟨⟨⟨⟨⟨⟨p1, p2⟩, p3⟩, p4⟩, p5⟩, p6⟩, p7⟩, p8⟩, p9⟩, p10⟩, p11⟩, p12⟩, p13⟩, p14⟩, p15⟩, p16⟩, p17⟩, p18⟩ := this
    exact ⟨⟨p1, p2, p3, p4, p5, p6, p7, p8, p9, p10, p11, List.all_eq_true.mpr p12, List.all_eq_true.mpr p13⟩, p14, p15,
      fun k hk => by simpa using p16 k hk, fun k hk => by simpa using p17 k hk, p18⟩
  -- the facts E1 / E2 of `wfs_shift`
  have E1 : ∀ pi ∈ G.procs, ∀ n sym a, G.cg.tbl.lookup pi.p.name n = .ok sym → sym.scope = "" →
      G.locOf pi G.lo n = some a → a < G.lo ∧ n ∈ G.gnames := by
    intro pi hpi n sym a hl hs hloc
    have h := (hpc pi hpi).1.2.1
    unfold e1Check at h
    simp only [List.all_eq_true] at h
    have := h n (locOf_names G pi G.lo n a hloc)
    rw [hl] at this
    simp only [hs, if_true, hloc, Bool.and_eq_true, decide_eq_true_eq, List.contains_iff_mem] at this
    exact this
  have E2 : ∀ pi ∈ G.procs, ∀ n sym, G.cg.tbl.lookup pi.p.name n = .ok sym → located sym = true → sym.scope ≠ "" →
      sym.stackOffset ≤ (pi.po : Int) + pi.p.formals.length := by
    intro pi hpi n sym hl hloc hs
    have h := (hpc pi hpi).1.2.2.1
    unfold e2Check at h
    simp only [List.all_eq_true] at h
    have := h n (lookup_name_mem _ _ _ _ hl)
    rw [hl] at this
    simp only [hloc, hs, ne_eq, not_false_eq_true, decide_true, Bool.and_self, if_true, decide_eq_true_eq] at this
    exact this
  have wf0 : ∀ pi ∈ G.procs, (KOf G pi G.lo 0 noHi).WFS (G.iEpi pi) := by
    intro pi hpi
    exact wfsCheck_sound _ _ G.names (fun n a h => locOf_names G pi G.lo n a h) (hpc pi hpi).1.1
  have hconst : ∀ v l j k, (v, l) ∈ G.consts → G.env.ds[j]? = some (.label k l) →
      G.env.ds[j + 1]? = some (.data v) ∧ 2 ≤ G.env.addr j / 4 ∧ G.env.addr j / 4 < G.lo := by
    intro v l j k hm hd
    have := g3 (v, l) hm
    unfold constCheck at this
    simp only at this
    rw [labelIdx_of_nodup _ j k l g1 hd] at this
    simp only [Bool.and_eq_true, decide_eq_true_eq] at this
    exact ⟨this.1.1, this.1.2, this.2⟩
  exact {
    wfs := fun pi hpi sp dep hi hlo hact =>
      wfs_shift G pi 0 dep noHi hi (G.iEpi pi) (wf0 pi hpi) (fun n sym a h1 h2 h3 => (E1 pi hpi n sym a h1 h2 h3).1) (E2 pi hpi) code_lo g4 g5 sp hlo hact
    nodup := g1
    at_pro := fun pi hpi => atB_sound _ _ _ (hpc pi hpi).1.2.2.2.1
    at_body := fun pi hpi => atB_sound _ _ _ (hpc pi hpi).1.2.2.2.2.1
    at_epi := fun pi hpi => atB_sound _ _ _ (hpc pi hpi).1.2.2.2.2.2.1
    gen := hgen
    size_ok := fun pi hpi => (hpc pi hpi).1.2.2.2.2.2.2.1
    nl_ok := fun pi hpi => (hpc pi hpi).1.2.2.2.2.2.2.2.1
    consts_ok := fun pi hpi e he => by
      have := (hpc pi hpi).1.2.2.2.2.2.2.2.2.1 e he
      simpa using this
    smax_ok := fun pi hpi => (hpc pi hpi).1.2.2.2.2.2.2.2.2.2.1
    body_ok := fun pi hpi => (hpc pi hpi).1.2.2.2.2.2.2.2.2.2.2.1
    formals_val := fun pi hpi => (hpc pi hpi).1.2.2.2.2.2.2.2.2.2.2.2.1
    locals_var := fun pi hpi => (hpc pi hpi).1.2.2.2.2.2.2.2.2.2.2.2.2
    resolve := resolve
    callee_sym := by
      intro pi hpi pj hpj
      have := (hpc pi hpi).2.1 pj hpj
      cases hl : G.cg.tbl.lookup pi.p.name pj.p.name with
      | error e => rw [hl] at this; simp at this
      | ok sym =>
        rw [hl] at this
        simp only [decide_eq_true_eq] at this
        exact ⟨sym, rfl, this⟩
    genv_vars := genv_vars
    no_vals := no_vals
    pnames_ok := pnames_ok
    pnames_mem := pnames_mem
    low_global := by
      intro pi hpi sp n a hlo hloc hlt
      rcases G.locOf_cases pi sp n a hloc with ⟨sym, hl, hs, hall⟩ | ⟨sym, c, hl, _, _, ha, _⟩
      · exact (E1 pi hpi n sym a hl hs (hall G.lo)).2
      · omega
    gloc_ok := by
      intro pi hpi sp n hn
      obtain ⟨h1, h2⟩ := (hpc pi hpi).2.2.1 n hn
      obtain ⟨sym, hl, hs⟩ := (scopeGlobal_iff G pi n).mp h2
      cases hg : G.gloc n with
      | none =>
        have := g2 n hn
        rw [hg] at this
        simp at this
      | some a =>
        rw [hg] at h1
        rcases G.locOf_cases pi G.lo n a h1 with ⟨_, _, _, hall⟩ | ⟨sym', c, hl', hs', _⟩
        · exact hall sp
        · rw [hl] at hl'
          have := Except.ok.inj hl'
          subst this
          exact absurd hs hs'
    gloc_lo := by
      intro n hn a h
      have := g2 n hn
      rw [h] at this
      simp only [Bool.and_eq_true, decide_eq_true_eq] at this
      exact this.2
    formal_loc := by
      intro pi hpi sp k f hf
      have hk : k ∈ List.range pi.p.formals.length := by
        simp only [List.mem_range]
        exact (List.getElem?_eq_some_iff.mp hf).1
      have := (hpc pi hpi).2.2.2.1 k hk
      rw [hf] at this
      simp only [Bool.and_eq_true, decide_eq_true_eq, Bool.not_eq_true'] at this
      obtain ⟨h1, h2⟩ := this
      rcases G.locOf_cases pi G.lo f.name _ h1 with ⟨sym, hl, hs, _⟩ | ⟨sym, c, hl, _, _, ha, hall⟩
      · have : scopeGlobal G pi f.name = true := (scopeGlobal_iff G pi f.name).mpr ⟨sym, hl, hs⟩
        rw [h2] at this
        simp at this
      · rw [hall sp]
        congr 1
        omega
    local_loc := by
      intro pi hpi sp k d hd
      have hk : k ∈ List.range pi.p.locals.length := by
        simp only [List.mem_range]
        exact (List.getElem?_eq_some_iff.mp hd).1
      have := (hpc pi hpi).2.2.2.2.1 k hk
      rw [hd] at this
      simp only [Bool.and_eq_true, decide_eq_true_eq, Bool.not_eq_true'] at this
      obtain ⟨⟨h0, h1⟩, h2⟩ := this
      refine ⟨h0, ?_⟩
      rcases G.locOf_cases pi G.lo d.name _ h1 with ⟨sym, hl, hs, _⟩ | ⟨sym, c, hl, _, _, ha, hall⟩
      · have : scopeGlobal G pi d.name = true := (scopeGlobal_iff G pi d.name).mpr ⟨sym, hl, hs⟩
        rw [h2] at this
        simp at this
      · rw [hall sp]
        congr 1
        omega
    noshadow := by
      intro pi hpi n hn
      obtain ⟨h1, h2⟩ := (hpc pi hpi).2.2.2.2.2 n hn
      exact genv_none n (by simpa using h1) (by simpa using h2)
    gloc_ge := by
      intro n hn a h
      have := g2 n hn
      rw [h] at this
      simp only [Bool.and_eq_true, decide_eq_true_eq] at this
      exact this.1
    gloc_some := by
      intro n hn
      have := g2 n hn
      cases hg : G.gloc n with
      | none => rw [hg] at this; simp at this
      | some a => exact ⟨a, rfl⟩
    code_lo := code_lo
    code_1 := hcode1
    top := g4
    lo_ge := g5
    lo_def := g6
    addr_lt := by
      intro j k n hd
      unfold labelAddrCheck at g7
      simp only [List.all_eq_true, List.mem_range] at g7
      have := g7 j (List.getElem?_eq_some_iff.mp hd).1
      rw [hd] at this
      simpa using this
    const_lo := fun v l j k hm hd => (hconst v l j k hm hd).2.2
    const_ge := fun v l j k hm hd => (hconst v l j k hm hd).2.1 }

end Hex.C01s
