import HexVerif.Lemmas.XcmpStage3
/-!
  The reference semantics on programs of the class V1 (global variables, a single procedure
  `main` without formals, local variables, a stage-3 body): `X.run` reduces to one execution of
  the body.
-/
namespace Hex.C01s
open Hex Hex.X

def isVarDecl : X.Decl → Bool
  | .var _ => true
  | _ => false

/-- The class V1. -/
def isV1 (P : X.Program) : Bool :=
  match P.procs with
  | [m] => P.globals.all isVarDecl && (m.name == "main") && !m.isFunc && m.formals.isEmpty &&
           m.locals.all isVarDecl && okS m.body
  | _ => false

theorem bindGlobals_vars : ∀ (ds : List X.Decl) (env : List (String × GBind)) (gv : List (String × Option Word))
    (arrs : Array (Array (Option Word))) (tot : Nat), ds.all isVarDecl = true →
    X.bindGlobals ds env gv arrs tot =
      .ok (env.reverse ++ ds.map (fun d => (d.name, GBind.var)), gv.reverse ++ ds.map (fun d => (d.name, none)), arrs) := by
  intro ds
  induction ds with
  | nil => intro env gv arrs tot _; simp [X.bindGlobals]
  | cons d rest ih =>
    intro env gv arrs tot h
    simp only [List.all_cons, Bool.and_eq_true] at h
    cases d with
    | var n =>
      unfold X.bindGlobals
      rw [ih _ _ _ _ h.2]
      simp [X.Decl.name]
    | val n e => simp [isVarDecl] at h
    | array n e => simp [isVarDecl] at h

theorem bindLocals_vars : ∀ (ds : List X.Decl) (vals : List (String × Word)), ds.all isVarDecl = true →
    X.bindLocals vals ds = .ok (ds.map (fun d => (d.name, LBind.var none))) := by
  intro ds
  induction ds with
  | nil => intro vals _; rfl
  | cons d rest ih =>
    intro vals h
    simp only [List.all_cons, Bool.and_eq_true] at h
    cases d with
    | var n =>
      unfold X.bindLocals
      rw [ih _ h.2]
      rfl
    | val n e => simp [isVarDecl] at h
    | array n e => simp [isVarDecl] at h

/-- The context and start state of the body of `main`. -/
def v1Ctx (P : X.Program) (m : X.Proc) (fuel : Nat) : X.Ctx :=
  { genv := P.globals.map (fun d => (d.name, GBind.var)) ++ [(m.name, GBind.proc m)],
    impure := X.impureProcs P, limit := fuel }

def v1Start (P : X.Program) (m : X.Proc) (inp : X.Input) : X.St :=
  { gvars := P.globals.map (fun d => (d.name, none)), arrays := #[],
    locals := m.locals.map (fun d => (d.name, LBind.var none)),
    io := Isa.IOSt.init inp.stdin inp.files, calls := [m.name], steps := 0, depth := 1 }

/-- A defined run of a V1 program is one execution of its body, ending normally (exit value 0)
    or by a terminating system call. -/
theorem run_v1 (P : X.Program) (m : X.Proc) (inp : X.Input) (fuel : Nat) (β : X.Behaviour)
    (hv : isV1 P = true) (hm : P.procs = [m]) (hrun : X.run P inp fuel = .defined β) :
    ∃ f, fuel = f + 1 ∧
      ((∃ s, X.exec f (v1Ctx P m fuel) m.body (v1Start P m inp) = .ok .normal s ∧
          β.exit = 0 ∧ β.events = s.io.log.reverse ∧ β.stdinConsumed = inp.stdin.length - s.io.stdin.length) ∨
       (∃ code s, X.exec f (v1Ctx P m fuel) m.body (v1Start P m inp) = .exit code s ∧
          β.exit = code ∧ β.events = s.io.log.reverse ∧ β.stdinConsumed = inp.stdin.length - s.io.stdin.length)) := by
  unfold isV1 at hv
  rw [hm] at hv
  simp only [Bool.and_eq_true, beq_iff_eq, Bool.not_eq_true', List.isEmpty_iff] at hv
  obtain ⟨⟨⟨⟨⟨hg, hname⟩, hfunc⟩, hform⟩, hloc⟩, hbody⟩ := hv
  unfold X.run at hrun
  cases hcp : X.checkProgram P with
  | error w => rw [hcp] at hrun; simp at hrun
  | ok u =>
    rw [hcp] at hrun
    simp only at hrun
    rw [bindGlobals_vars P.globals [] [] #[] 0 hg] at hrun
    simp only [List.reverse_nil, List.nil_append] at hrun
    cases hck : X.checkProcs (P.globals.map (fun d => (d.name, GBind.var)) ++ P.procs.map fun p => (p.name, GBind.proc p)) P.procs with
    | error w => rw [hck] at hrun; simp at hrun
    | ok u2 =>
      rw [hck] at hrun
      simp only at hrun
      rw [hm] at hrun
      simp only [List.map_cons, List.map_nil, List.find?_cons, hname, BEq.rfl] at hrun
      cases fuel with
      | zero => unfold X.callUser at hrun; simp at hrun
      | succ f =>
        refine ⟨f, rfl, ?_⟩
        unfold X.callUser at hrun
        simp only [X.maxDepth, ge_iff_le, Nat.not_succ_le_zero, Nat.reduceLeDiff, if_false, hform, X.bindFormals,
          List.map_nil, List.nil_append] at hrun
        rw [bindLocals_vars m.locals _ hloc] at hrun
        simp only [hfunc] at hrun
        have hctx : ({ genv := P.globals.map (fun d => (d.name, GBind.var)) ++ [("main", GBind.proc m)],
                       impure := X.impureProcs P, limit := f + 1 } : X.Ctx) = v1Ctx P m (f + 1) := by
          unfold v1Ctx; rw [hname]
        have hst : ({ gvars := P.globals.map (fun d => (d.name, (none : Option Word))), arrays := #[],
                      locals := m.locals.map (fun d => (d.name, LBind.var none)),
                      io := Isa.IOSt.init inp.stdin inp.files, calls := [m.name], steps := 0, depth := 0 + 1 } : X.St)
            = v1Start P m inp := rfl
        rw [hctx, hst] at hrun
        cases hx : X.exec f (v1Ctx P m (f + 1)) m.body (v1Start P m inp) with
        | undef w => rw [hx] at hrun; simp [Res.bind] at hrun
        | exit code s =>
          rw [hx] at hrun
          simp only [Res.bind, Result.defined.injEq] at hrun
          right
          refine ⟨code, s, rfl, ?_⟩
          rw [← hrun]
          exact ⟨rfl, rfl, rfl⟩
        | ok fl s =>
          rw [hx] at hrun
          cases fl with
          | ret w => simp [Res.bind] at hrun
          | normal =>
            simp only [Res.bind, Result.defined.injEq] at hrun
            left
            refine ⟨s, rfl, ?_⟩
            rw [← hrun]
            exact ⟨rfl, rfl, rfl⟩

end Hex.C01s
