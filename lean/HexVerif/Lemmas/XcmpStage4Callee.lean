import HexVerif.Lemmas.XcmpStage4Defs
/-!
  Stage (4), the callee: `CallSpec` at `fuel + 1` from the statement triples at `fuel`.
-/
namespace Hex.C01s
open Hex Hex.X Hex.Xcmp Hex.IAm Hex.Asm

/-! ### The reference semantics of a call -/

theorem callUser_succ (fuel : Nat) (ctx : X.Ctx) (p : X.Proc) (vs : List Val) (st : X.St) :
    X.callUser (fuel + 1) ctx p vs st =
      if st.depth ≥ X.maxDepth then .undef "stack budget exceeded (call depth)"
      else
        match X.bindFormals p.formals vs with
        | .error w => .undef w
        | .ok fb =>
          let fnames := fb.map (·.1)
          match X.bindLocals ((X.globalVals ctx.genv).filter fun kv => !fnames.contains kv.1) p.locals with
          | .error w => .undef w
          | .ok lb =>
            let saved := st.locals
            let d := st.depth
            let st1 := { st with locals := fb ++ lb, depth := d + 1, calls := p.name :: st.calls }
            (X.exec fuel ctx p.body st1).bind fun fl s =>
              let s' := { s with locals := saved, depth := d }
              match fl, p.isFunc with
              | .normal, false => .ok none s'
              | .ret w, true => .ok (some w) s'
              | .normal, true => .undef s!"function {p.name} finished without return"
              | .ret _, false => .undef s!"return in procedure {p.name}" := by
  conv => lhs; unfold X.callUser
  rfl

/-- The binding a formal gets from its actual. -/
def bindB : Val → LBind
  | .int w => .valF w
  | .arr r => .arrF r

def bindF (fs : List X.Formal) (vs : List Val) : List (String × LBind) :=
  List.zipWith (fun f v => (f.name, bindB v)) fs vs

theorem bindFormals_ok : ∀ (fs : List X.Formal) (vs : List Val) (fb : List (String × LBind)),
    X.bindFormals fs vs = .ok fb → fb = bindF fs vs ∧ fs.length = vs.length := by
  intro fs
  induction fs with
  | nil =>
    intro vs fb h
    cases vs with
    | nil => simp only [X.bindFormals, Except.ok.injEq] at h; exact ⟨h.symm, rfl⟩
    | cons v vs => simp [X.bindFormals] at h
  | cons f fs ih =>
    intro vs fb h
    cases vs with
    | nil => cases f <;> simp [X.bindFormals] at h
    | cons v vs =>
      cases f with
      | val n =>
        cases v with
        | int w =>
          simp only [X.bindFormals, bind, Except.bind] at h
          cases hr : X.bindFormals fs vs with
          | error e => rw [hr] at h; simp at h
          | ok r =>
            rw [hr] at h
            simp only [Except.ok.injEq] at h
            obtain ⟨h1, h2⟩ := ih vs r hr
            exact ⟨by rw [← h, h1]; rfl, by simp [h2]⟩
        | arr r => simp [X.bindFormals] at h
      | array n =>
        cases v with
        | int w => simp [X.bindFormals] at h
        | arr a =>
          simp only [X.bindFormals, bind, Except.bind] at h
          cases hr : X.bindFormals fs vs with
          | error e => rw [hr] at h; simp at h
          | ok r =>
            rw [hr] at h
            simp only [Except.ok.injEq] at h
            obtain ⟨h1, h2⟩ := ih vs r hr
            exact ⟨by rw [← h, h1]; rfl, by simp [h2]⟩
      | proc n => simp [X.bindFormals] at h
      | func n => simp [X.bindFormals] at h

theorem bindF_names : ∀ (fs : List X.Formal) (vs : List Val), fs.length = vs.length →
    (bindF fs vs).map (·.1) = fs.map X.Formal.name := by
  intro fs
  induction fs with
  | nil => intro vs _; simp [bindF]
  | cons f fs ih =>
    intro vs hl
    cases vs with
    | nil => simp at hl
    | cons w vs =>
      simp only [List.length_cons, Nat.add_right_cancel_iff] at hl
      have := ih vs hl
      simp only [bindF] at this ⊢
      simp [this]

theorem bindF_lookup : ∀ (fs : List X.Formal) (vs : List Val) (n : String) (b : LBind), fs.length = vs.length →
    (bindF fs vs).lookup n = some b →
    ∃ k f, ∃ hk : k < vs.length, fs[k]? = some f ∧ f.name = n ∧ b = bindB vs[k] := by
  intro fs
  induction fs with
  | nil => intro vs n b _ h; simp [bindF] at h
  | cons f fs ih =>
    intro vs n b hl h
    cases vs with
    | nil => simp at hl
    | cons w vs =>
      simp only [List.length_cons, Nat.add_right_cancel_iff] at hl
      simp only [bindF, List.zipWith_cons_cons, List.lookup_cons] at h
      split at h
      · rename_i heq
        simp only [Option.some.injEq] at h
        have hn : n = f.name := by simpa using heq
        exact ⟨0, f, by simp, rfl, hn.symm, h.symm⟩
      · obtain ⟨k, f', hk, h1, h2, h3⟩ := ih vs n b hl h
        exact ⟨k + 1, f', by simp; omega, by simpa using h1, h2, by simpa using h3⟩

theorem lookup_none_of_not_mem {β} : ∀ (l : List (String × β)) (n : String), n ∉ l.map (·.1) → l.lookup n = none := by
  intro l
  induction l with
  | nil => intro n _; rfl
  | cons e rest ih =>
    intro n h
    obtain ⟨k, v⟩ := e
    simp only [List.map_cons, List.mem_cons, not_or] at h
    simp only [List.lookup_cons]
    have : (n == k) = false := by simpa using h.1
    rw [this]
    exact ih n h.2

theorem lookup_mem_keys {β} : ∀ (l : List (String × β)) (n : String) (b : β), l.lookup n = some b → n ∈ l.map (·.1) := by
  intro l
  induction l with
  | nil => intro n b h; simp at h
  | cons e rest ih =>
    intro n b h
    obtain ⟨k, v⟩ := e
    simp only [List.lookup_cons] at h
    split at h
    · rename_i heq
      have : n = k := by simpa using heq
      simp [this]
    · exact List.mem_cons_of_mem _ (ih n b h)

def bindL (ds : List X.Decl) : List (String × LBind) := ds.map fun (d : X.Decl) => (d.name, LBind.var none)

theorem bindL_lookup : ∀ (ds : List X.Decl) (n : String) (b : LBind), (bindL ds).lookup n = some b →
    b = .var none ∧ ∃ k : Nat, ∃ d : X.Decl, ds[k]? = some d ∧ d.name = n := by
  intro ds
  induction ds with
  | nil => intro n b h; simp [bindL] at h
  | cons d rest ih =>
    intro n b h
    simp only [bindL, List.map_cons, List.lookup_cons] at h
    split at h
    · rename_i heq
      simp only [Option.some.injEq] at h
      have hn : n = d.name := by simpa using heq
      exact ⟨h.symm, 0, d, rfl, hn.symm⟩
    · obtain ⟨h1, k, d', h2, h3⟩ := ih n b h
      exact ⟨h1, k + 1, d', h2, h3⟩

/-! ### Representations -/

def StmtSpec (G : GCtx) (fuel : Nat) : Prop :=
  ∀ pi ∈ G.procs, ∀ sp dep hi, G.lo ≤ sp → sp + G.S pi + pi.po + pi.p.formals.length ≤ G.spv + 1 → G.spv ≤ sp + dep * G.smax →
    ∀ s σ, okS5 G.pk G.pnames G.xc.impure G.rho (G.isLoc pi) s = true →
      ExecS (KOf G pi sp dep hi) (G.iEpi pi) (optStmt (annotS G.rho s)) σ (X.exec fuel G.xc s σ)

theorem GCtx.OK.rho_none {G : GCtx} (ok : G.OK) (n : String) (h : ∀ w, G.xc.genv.lookup n ≠ some (.val w)) : G.rho n = none := by
  cases hr : G.rho n with
  | none => rfl
  | some w => exact absurd ((ok.rho_ok n w).mpr hr) (h w)

/-- What an activation's memory says about the global state. -/
theorem Rep.toG {G : GCtx} (ok : G.OK) {pi : PInfo} (hpi : pi ∈ G.procs) {sp dep : Nat} {hi : Nat → Word}
    {σ : X.St} {mem : Mem} (h : Rep (KOf G pi sp dep hi) σ mem) : GRep G σ mem := by
  refine ⟨?_, ?_, h.acells, h.consts, h.strs⟩
  · intro n w hv hg
    have hn := ok.genv_vars n hv
    have hl : σ.locals.lookup n = none := h.gvis n (List.mem_append_left _ hn)
    have hr : X.readName (KOf G pi sp dep hi).xc σ n = .ok (.int w) := by
      show X.readName G.xc σ n = .ok (.int w)
      unfold X.readName
      rw [hl, hv, hg]
    have hρ : (KOf G pi sp dep hi).ρ n = none := ok.rho_none n (by rw [hv]; simp)
    obtain ⟨a, hloc, _, hm⟩ := h.vars n w hρ hr
    have : G.locOf pi sp n = some a := hloc
    rw [ok.gloc_ok pi hpi sp n hn] at this
    exact ⟨a, this, hm⟩
  · intro n id hgv
    have hn := ok.genv_arrs n id hgv
    have hl : σ.locals.lookup n = none := h.gvis n (List.mem_append_left _ hn)
    have hr : X.readName (KOf G pi sp dep hi).xc σ n = .ok (.arr (.glob id)) := by
      show X.readName G.xc σ n = _
      unfold X.readName
      rw [hl, hgv]
    obtain ⟨a, hloc, _, hm⟩ := h.aptr n _ hr
    have : G.locOf pi sp n = some a := hloc
    rw [ok.gloc_ok pi hpi sp n hn] at this
    exact ⟨a, this, hm⟩

theorem GCtx.OK.not_inArr {G : GCtx} (ok : G.OK) (x : Nat) (h : x ≤ G.spv + 2) : ¬ G.inArr x := by
  intro ⟨id, h1, h2⟩
  have := (ok.arr_hi id (by omega)).1
  omega

/-- The state of the reference semantics at the start of a callee's body. -/
def calleeSt (st : X.St) (pi : PInfo) (ws : List Val) : X.St :=
  { st with locals := bindF pi.p.formals ws ++ bindL pi.p.locals, depth := st.depth + 1, calls := pi.p.name :: st.calls }

theorem po_pos (pi : PInfo) : 1 ≤ pi.po := by
  unfold PInfo.po FB_PARAM_OFFSET_FUNC FB_PARAM_OFFSET_PROC
  split <;> omega

/-- After the prologue, the memory represents the callee's start state. -/
theorem rep_callee {G : GCtx} (ok : G.OK) {pi : PInfo} (hpi : pi ∈ G.procs) (ws : List Val) (st : X.St)
    (mem memP : Mem) (spc : Nat) (hg : GRep G st mem)
    (hargs : ∀ j (hj : j < ws.length), G.VRep ws[j] (mem.read (spc + pi.po + j)))
    (hlen : pi.p.formals.length = ws.length)
    (hS : G.S pi ≤ spc) (hP1 : memP.read 1 = BitVec.ofNat 32 (spc - G.S pi))
    (hrest : ∀ w, w ≠ 1 → w ≠ spc → memP.read w = mem.read w) (hlo : G.lo ≤ spc - G.S pi)
    (hmw : spc + pi.po + ws.length ≤ memWords) (hspv : spc ≤ G.spv) :
    Rep (KOf G pi (spc - G.S pi) (st.depth + 1) memP.read) (calleeSt st pi ws) memP := by
  have hlo2 := ok.lo_ge
  have hnames : (bindF pi.p.formals ws ++ bindL pi.p.locals).map (·.1) = pi.lnames := by
    simp only [List.map_append, bindF_names _ _ hlen, PInfo.lnames, bindL, List.map_map]
    rfl
  have hglob : ∀ n, G.xc.genv.lookup n ≠ none → (bindF pi.p.formals ws ++ bindL pi.p.locals).lookup n = none := by
    intro n hv
    apply lookup_none_of_not_mem
    rw [hnames]
    intro hm
    exact hv (ok.noshadow pi hpi n hm)
  exact {
    sp := hP1
    vals := by
      intro n w h
      have hgv := (ok.rho_ok n w).mpr h
      exact Or.inr ⟨hglob n (by rw [hgv]; simp), hgv⟩
    vars := by
      intro n w hρ hr
      change X.readName G.xc (calleeSt st pi ws) n = .ok (.int w) at hr
      unfold X.readName at hr
      cases hl : (calleeSt st pi ws).locals.lookup n with
      | some b =>
        rw [hl] at hr
        have hl' : (bindF pi.p.formals ws ++ bindL pi.p.locals).lookup n = some b := hl
        rw [List.lookup_append] at hl'
        cases hf : (bindF pi.p.formals ws).lookup n with
        | some b' =>
          rw [hf] at hl'
          simp only [Option.some_or, Option.some.injEq] at hl'
          subst hl'
          obtain ⟨k, f, hk, hfk, hfn, hb⟩ := bindF_lookup _ _ _ _ hlen hf
          subst hb
          have hloc := ok.formal_loc pi hpi (spc - G.S pi) k f hfk
          rw [hfn] at hloc
          cases hvk : ws[k] with
          | arr r => rw [hvk] at hr; simp [bindB] at hr
          | int w0 =>
            have hv := hargs k hk
            rw [hvk] at hr hv
            simp only [bindB, Except.ok.injEq, Val.int.injEq] at hr
            refine ⟨spc + pi.po + k, ?_, by omega, ?_⟩
            · show G.locOf pi (spc - G.S pi) n = _
              rw [hloc]
              congr 1
              omega
            · have hp := po_pos pi
              rw [hrest _ (by omega) (by omega)]
              exact Eq.trans hv hr
        | none =>
          rw [hf] at hl'
          simp only [Option.none_or] at hl'
          obtain ⟨hb, _⟩ := bindL_lookup _ _ _ hl'
          subst hb
          simp at hr
      | none =>
        rw [hl] at hr
        simp only at hr
        cases hgv : G.xc.genv.lookup n with
        | none => rw [hgv] at hr; simp at hr
        | some g =>
          rw [hgv] at hr
          cases g with
          | val w' => have := (ok.rho_ok n w').mp hgv; rw [show G.rho n = none from hρ] at this; simp at this
          | array id => simp at hr
          | proc q => simp at hr
          | var =>
            simp only at hr
            have hn : n ∈ G.gnames := ok.genv_vars n hgv
            cases hgl : (calleeSt st pi ws).gvars.lookup n with
            | none => rw [hgl] at hr; simp at hr
            | some o =>
              rw [hgl] at hr
              cases o with
              | none => simp at hr
              | some w' =>
                simp only [Except.ok.injEq, Val.int.injEq] at hr
                subst hr
                obtain ⟨a, ha, hm⟩ := hg.gvars n w' hgv hgl
                have h2 := ok.gloc_ge n hn a ha
                have hlt := ok.gloc_lo n hn a ha
                have htop := ok.top
                refine ⟨a, ?_, by unfold memWords at *; omega, ?_⟩
                · show G.locOf pi (spc - G.S pi) n = _
                  rw [ok.gloc_ok pi hpi _ n hn]; exact ha
                · rw [hrest _ (by omega) (by omega)]; exact hm
    consts := by
      intro v l j k hm hd
      have h2 := ok.const_ge v l j k hm hd
      have hlt := ok.const_lo v l j k hm hd
      show memP.read (G.env.addr j / 4) = _
      rw [hrest _ (by omega) (by omega)]
      exact hg.consts v l j k hm hd
    locs := by
      intro n hv
      unfold IsVar at hv
      rcases hv with ⟨o, hl⟩ | ⟨hl, hgv⟩
      · have hl' : (bindF pi.p.formals ws ++ bindL pi.p.locals).lookup n = some (.var o) := hl
        rw [List.lookup_append] at hl'
        cases hf : (bindF pi.p.formals ws).lookup n with
        | some b' =>
          rw [hf] at hl'
          simp only [Option.some_or, Option.some.injEq] at hl'
          obtain ⟨k, f, hk, hfk, hfn, hb⟩ := bindF_lookup _ _ _ _ hlen hf
          rw [hb] at hl'
          cases hvk : ws[k] <;> rw [hvk] at hl' <;> simp [bindB] at hl'
        | none =>
          rw [hf] at hl'
          simp only [Option.none_or] at hl'
          obtain ⟨_, k, d, hdk, hdn⟩ := bindL_lookup _ _ _ hl'
          obtain ⟨hkS, hloc⟩ := ok.local_loc pi hpi (spc - G.S pi) k d hdk
          rw [hdn] at hloc
          refine ⟨_, hloc, ?_⟩
          show _ < (spc - G.S pi) + G.S pi
          omega
      · have hgv' : G.xc.genv.lookup n = some .var := hgv
        have hn : n ∈ G.gnames := ok.genv_vars n hgv'
        obtain ⟨a, ha⟩ := ok.gloc_some n hn
        have hlt := ok.gloc_lo n hn a ha
        refine ⟨a, ?_, ?_⟩
        · show G.locOf pi (spc - G.S pi) n = _
          rw [ok.gloc_ok pi hpi _ n hn]; exact ha
        · show a < (spc - G.S pi) + G.S pi
          omega
    above := fun a _ _ => rfl
    gvis := by
      intro n hn
      rcases List.mem_append.mp hn with hn | hn
      · apply hglob n
        rcases ok.gnames_genv n hn with h | ⟨id, h⟩ <;> rw [h] <;> simp
      · apply lookup_none_of_not_mem
        show n ∉ (bindF pi.p.formals ws ++ bindL pi.p.locals).map (·.1)
        rw [hnames]
        intro hm
        have h1 := ok.noshadow pi hpi n hm
        obtain ⟨p, hp⟩ := ok.pnames_mem n hn
        rw [h1] at hp
        simp at hp
    depth := rfl
    aptr := by
      intro n r hr
      change X.readName G.xc (calleeSt st pi ws) n = .ok (.arr r) at hr
      unfold X.readName at hr
      cases hl : (calleeSt st pi ws).locals.lookup n with
      | some b =>
        rw [hl] at hr
        have hl' : (bindF pi.p.formals ws ++ bindL pi.p.locals).lookup n = some b := hl
        rw [List.lookup_append] at hl'
        cases hf : (bindF pi.p.formals ws).lookup n with
        | some b' =>
          rw [hf] at hl'
          simp only [Option.some_or, Option.some.injEq] at hl'
          subst hl'
          obtain ⟨k, f, hk, hfk, hfn, hb⟩ := bindF_lookup _ _ _ _ hlen hf
          subst hb
          have hloc := ok.formal_loc pi hpi (spc - G.S pi) k f hfk
          rw [hfn] at hloc
          have hv := hargs k hk
          cases hvk : ws[k] with
          | int w0 => rw [hvk] at hr; simp [bindB] at hr
          | arr r0 =>
            rw [hvk] at hr hv
            simp only [bindB, Except.ok.injEq, Val.arr.injEq] at hr
            subst hr
            refine ⟨spc + pi.po + k, ?_, by omega, ?_⟩
            · show G.locOf pi (spc - G.S pi) n = _
              rw [hloc]
              congr 1
              omega
            · have hp := po_pos pi
              rw [hrest _ (by omega) (by omega)]
              exact hv
        | none =>
          exfalso
          rw [hf] at hl'
          simp only [Option.none_or] at hl'
          obtain ⟨hb, _⟩ := bindL_lookup _ _ _ hl'
          subst hb
          simp at hr
      | none =>
        rw [hl] at hr
        simp only at hr
        cases hgv : G.xc.genv.lookup n with
        | none => rw [hgv] at hr; simp at hr
        | some g =>
          rw [hgv] at hr
          cases g with
          | val w' => simp at hr
          | proc q => simp at hr
          | var =>
            exfalso
            simp only at hr
            cases hgl : (calleeSt st pi ws).gvars.lookup n with
            | none => rw [hgl] at hr; simp at hr
            | some o => rw [hgl] at hr; cases o <;> simp at hr
          | array id =>
            simp only [Except.ok.injEq, Val.arr.injEq] at hr
            have hn := ok.genv_arrs n id hgv
            obtain ⟨a, ha, hm⟩ := hg.aptr n id hgv
            have h2 := ok.gloc_ge n hn a ha
            have hlt := ok.gloc_lo n hn a ha
            have htop := ok.top
            subst hr
            refine ⟨a, ?_, by unfold memWords at *; omega, ?_⟩
            · show G.locOf pi (spc - G.S pi) n = _
              rw [ok.gloc_ok pi hpi _ n hn]; exact ha
            · rw [hrest _ (by omega) (by omega)]; exact hm
    acells := by
      intro id cells hc
      have hc' : st.arrays[id]? = some cells := hc
      obtain ⟨hsz, hv⟩ := hg.acells id cells hc'
      refine ⟨hsz, fun idx w hi => ?_⟩
      have hlt : idx < cells.size := by
        by_cases hlt : idx < cells.size
        · exact hlt
        · rw [Array.getElem?_eq_none (by omega)] at hi; simp at hi
      have := (ok.arr_hi id (by omega)).1
      show memP.read (G.abase id + idx) = w
      rw [hrest _ (by omega) (by omega)]
      exact hv idx w hi
    strs := by
      intro l bs ws j k hm hp hd idx hidx
      obtain ⟨j', k', hd', _, h2, hlt⟩ := ok.str_ok l bs ws hm hp
      have hj : j = j' := by
        have e1 := labelIdx_of_nodup _ _ _ _ ok.nodup hd
        have e2 := labelIdx_of_nodup _ _ _ _ ok.nodup hd'
        rw [e1] at e2; simpa using e2
      subst hj
      show memP.read (G.env.addr j / 4 + idx) = _
      rw [hrest _ (by omega) (by omega)]
      exact hg.strs l bs ws j k hm hp hd idx hidx }

/-! ### The callee -/

theorem GRep.frame {G : GCtx} (ok : G.OK) {σ σ' : X.St} {mem mem' : Mem} (h : GRep G σ mem) (hg : σ'.gvars = σ.gvars)
    (hga : σ'.arrays = σ.arrays)
    (hm : ∀ a, 2 ≤ a → a < G.lo → mem'.read a = mem.read a)
    (hma : ∀ a, G.inArr a → mem'.read a = mem.read a) : GRep G σ' mem' := by
  refine ⟨?_, ?_, ?_, ?_, ?_⟩
  · intro n w hv hl
    rw [hg] at hl
    have hn := ok.genv_vars n hv
    obtain ⟨a, ha, hv⟩ := h.gvars n w hv hl
    exact ⟨a, ha, by rw [hm a (ok.gloc_ge n hn a ha) (ok.gloc_lo n hn a ha)]; exact hv⟩
  · intro n id hgv
    have hn := ok.genv_arrs n id hgv
    obtain ⟨a, ha, hv⟩ := h.aptr n id hgv
    exact ⟨a, ha, by rw [hm a (ok.gloc_ge n hn a ha) (ok.gloc_lo n hn a ha)]; exact hv⟩
  · intro id cells hc
    rw [hga] at hc
    obtain ⟨hsz, hv⟩ := h.acells id cells hc
    refine ⟨hsz, fun idx w hi => ?_⟩
    have hlt : idx < cells.size := by
      by_cases hlt : idx < cells.size
      · exact hlt
      · rw [Array.getElem?_eq_none (by omega)] at hi; simp at hi
    rw [hma _ ⟨id, Nat.le_add_right _ _, by omega⟩]
    exact hv idx w hi
  · intro v l j k hmem hd
    rw [hm _ (ok.const_ge v l j k hmem hd) (ok.const_lo v l j k hmem hd)]
    exact h.consts v l j k hmem hd
  · intro l bs ws j k hmem hp hd idx hidx
    obtain ⟨j', k', hd', _, h2, hlt⟩ := ok.str_ok l bs ws hmem hp
    have hj : j = j' := by
      have e1 := labelIdx_of_nodup _ _ _ _ ok.nodup hd
      have e2 := labelIdx_of_nodup _ _ _ _ ok.nodup hd'
      rw [e1] at e2; simpa using e2
    subst hj
    rw [hm _ (by omega) (by omega)]
    exact h.strs l bs ws j k hmem hp hd idx hidx

theorem callee_correct {G : GCtx} (ok : G.OK) (fuel : Nat) (ih : StmtSpec G fuel) : CallSpec G (fuel + 1) := by
  intro pi hpi ws st lnk b mem spc k kind n hg hm1 hargs hstack htop hlo hk hlink
  rw [callUser_succ]
  by_cases hd : st.depth ≥ X.maxDepth
  · rw [if_pos hd]; trivial
  rw [if_neg hd]
  cases hbf : X.bindFormals pi.p.formals ws with
  | error e => trivial
  | ok fb =>
  obtain ⟨hfb, hlen⟩ := bindFormals_ok _ _ _ hbf
  subst hfb
  simp only
  rw [bindLocals_vars _ _ (ok.locals_var pi hpi)]
  simp only
  -- stack arithmetic
  have hsm := ok.smax_ok pi hpi
  have hlodef := ok.lo_def
  have hlo2 := ok.lo_ge
  have htopm := ok.top
  have hpo := po_pos pi
  have hdl : st.depth + 1 ≤ X.maxDepth := by omega
  have hmul : (st.depth + 1) * G.smax ≤ X.maxDepth * G.smax := Nat.mul_le_mul_right _ hdl
  have hsucc : (st.depth + 1) * G.smax = st.depth * G.smax + G.smax := Nat.succ_mul _ _
  have hS : G.S pi ≤ spc := by omega
  have hlo' : G.lo ≤ spc - G.S pi := by omega
  have hspc : spc ≤ G.spv := by omega
  -- the prologue
  obtain ⟨a1, memP, stP, hP1, hPl, hPrest⟩ := exec_prologue G.env pi.kind pi.p.name (G.S pi) pi.iPro (ok.at_pro pi hpi)
    lnk b mem spc st.io hm1 (by unfold memWords at *; omega) (ok.code_lo _ hlo) (by omega) ok.code_1 hS
  have rep := rep_callee ok hpi ws st mem memP spc hg hargs hlen hS hP1 hPrest hlo' (by unfold memWords at *; omega) hspc
  have wf := ok.wfs pi hpi (spc - G.S pi) (st.depth + 1) memP.read hlo' (by omega)
  have hbody := ih pi hpi (spc - G.S pi) (st.depth + 1) memP.read hlo' (by omega) (by omega) pi.p.body
    (calleeSt st pi ws) (ok.body_ok pi hpi) pi.gs1 pi.code pi.gs2 (G.iBody pi) a1 (BitVec.ofNat 32 spc) memP
    (ok.gen pi hpi) (ok.at_body pi hpi) rep (ok.size_ok pi hpi) (ok.nl_ok pi hpi) (ok.consts_ok pi hpi)
  have hio : (calleeSt st pi ws).io = st.io := rfl
  rw [hio] at hbody
  have hst1 : ({ st with locals := bindF pi.p.formals ws ++ pi.p.locals.map (fun d => (d.name, LBind.var none)),
                         depth := st.depth + 1, calls := pi.p.name :: st.calls } : X.St) = calleeSt st pi ws := rfl
  rw [hst1]
  have hend : G.iBody pi + ((KOf G pi (spc - G.S pi) (st.depth + 1) memP.read).low pi.code).length = G.iEpi pi := rfl
  rw [hend] at hbody
  have hsp' : spc - G.S pi + G.S pi = spc := by omega
  cases hx : X.exec fuel G.xc pi.p.body (calleeSt st pi ws) with
  | undef w => simp only [Res.bind]
  | exit code s =>
    rw [hx] at hbody
    simp only [Res.bind]
    obtain ⟨c, hs, he⟩ := hbody
    exact ⟨c, stP.trans hs, he⟩
  | ok fl s =>
    rw [hx] at hbody
    simp only [Res.bind]
    cases hf : pi.p.isFunc with
    | false =>
      cases fl with
      | ret w => trivial
      | normal =>
        simp only
        obtain ⟨a2, b2, mem2, hs2, rep2⟩ := hbody
        have hepi : G.epi pi = epiProcDirs (G.xl pi) (G.S pi) := by unfold GCtx.epi; rw [hf]; rfl
        have hat := ok.at_epi pi hpi
        rw [hepi] at hat
        have hl2 : mem2.read (spc - G.S pi + G.S pi) = lnk := by
          have := rep2.above (spc - G.S pi + G.S pi) (Nat.le_refl _) (wf.toWF.not_inArr _ (Nat.le_refl _))
          rw [this]
          show memP.read (spc - G.S pi + G.S pi) = lnk
          rw [hsp']; exact hPl
        obtain ⟨a3, b3, mem3, hs3, h31, h3rest⟩ := exec_epilogue_proc G.env (G.xl pi) (G.S pi) (G.iEpi pi) hat a2 b2 mem2
          (spc - G.S pi) s.io rep2.sp (by omega) (by unfold memWords at *; omega) ok.code_1 k kind n hk
          (by rw [hl2]; exact hlink)
        rw [hsp'] at h31
        have hkeep : ∀ x, spc < x → ¬ G.inArr x → mem3.read x = mem.read x := by
          intro x hx hna
          rw [h3rest x (by omega)]
          have := rep2.above x (by show spc - G.S pi + G.S pi ≤ x; omega) hna
          rw [this]
          show memP.read x = mem.read x
          exact hPrest x (by omega) (by omega)
        refine ⟨a3, b3, mem3, (stP.trans hs2).trans hs3, ?_, h31, fun x hx _ hna => hkeep x hx hna, fun w hw => by simp at hw,
          fun _ => hkeep _ (by omega) (ok.not_inArr _ (by omega))⟩
        exact GRep.frame ok (Rep.toG ok hpi rep2) rfl rfl (fun a ha _ => h3rest a (by omega))
          (fun a ⟨id, h1, h2⟩ => h3rest a (by have := (ok.arr_hi id (by omega)).1; omega))
    | true =>
      cases fl with
      | normal => trivial
      | ret w =>
        simp only
        obtain ⟨b2, mem2, hs2, rep2⟩ := hbody
        have hepi : G.epi pi = epiFuncDirs (G.xl pi) (G.S pi) := by unfold GCtx.epi; rw [hf]; rfl
        have hat := ok.at_epi pi hpi
        rw [hepi] at hat
        have hl2 : mem2.read (spc - G.S pi + G.S pi) = lnk := by
          have := rep2.above (spc - G.S pi + G.S pi) (Nat.le_refl _) (wf.toWF.not_inArr _ (Nat.le_refl _))
          rw [this]
          show memP.read (spc - G.S pi + G.S pi) = lnk
          rw [hsp']; exact hPl
        have hpo2 : pi.po = 2 := by unfold PInfo.po; rw [hf]; rfl
        obtain ⟨a3, b3, mem3, hs3, h31, h3w, h3rest⟩ := exec_epilogue_func G.env (G.xl pi) (G.S pi) (G.iEpi pi) hat w b2 mem2
          (spc - G.S pi) s.io rep2.sp (by omega) (by unfold memWords at *; omega)
          (ok.code_lo _ (by omega)) ok.code_1 k kind n hk (by rw [hl2]; exact hlink)
        rw [hsp'] at h31 h3w h3rest
        refine ⟨a3, b3, mem3, (stP.trans hs2).trans hs3, ?_, h31, ?_, fun w' hw' => by simp at hw'; rw [← hw']; exact h3w,
          fun h => by simp at h⟩
        · exact GRep.frame ok (Rep.toG ok hpi rep2) rfl rfl (fun a ha hal => h3rest a (by omega) (by omega))
            (fun a ⟨id, h1, h2⟩ => by have := (ok.arr_hi id (by omega)).1; exact h3rest a (by omega) (by omega))
        · intro x hx hx1 hna
          rw [h3rest x (by omega) hx1]
          have := rep2.above x (by show spc - G.S pi + G.S pi ≤ x; omega) hna
          rw [this]
          show memP.read x = mem.read x
          exact hPrest x (by omega) (by omega)

end Hex.C01s
