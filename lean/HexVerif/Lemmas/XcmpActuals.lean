import HexVerif.Lemmas.XcmpStmtMain
/-!
  Loading of call-free actuals into the outgoing area (`loadActuals`), used by system calls
  (stage 3) and calls (stage 4).
-/
namespace Hex.C01s
open Hex Hex.X Hex.Xcmp Hex.IAm Hex.Asm

theorem evalArgs_nil (fuel : Nat) (xc : X.Ctx) (st : X.St) : X.evalArgs (fuel + 1) xc [] st = .ok [] st := by
  unfold X.evalArgs; rfl

theorem evalArgs_cons_inv (fuel : Nat) (xc : X.Ctx) (e : X.Expr) (es : List X.Expr) (st s : X.St) (vs : List Val)
    (h : X.evalArgs (fuel + 1) xc (e :: es) st = .ok vs s) :
    ∃ v s1 vs', X.eval fuel xc e st = .ok v s1 ∧ X.evalArgs fuel xc es s1 = .ok vs' s ∧ vs = v :: vs' := by
  unfold X.evalArgs at h
  obtain ⟨v, s1, h1, h2⟩ := bind_ok_inv _ _ _ _ h
  obtain ⟨vs', s2, h3, h4⟩ := bind_ok_inv _ _ _ _ h2
  simp only [Res.ok.injEq] at h4
  rw [← h4.2]
  exact ⟨v, s1, vs', h1, h3, h4.1.symm⟩

theorem evalArgs_zero (xc : X.Ctx) (es : List X.Expr) (st : X.St) : X.evalArgs 0 xc es st = .undef "out of fuel" := by
  unfold X.evalArgs; rfl

theorem evalArgs_pure (xc : X.Ctx) : ∀ (es : List X.Expr) (fuel : Nat) (st s : X.St) (vs : List Val),
    (∀ e ∈ es, pureE e = true) → X.evalArgs fuel xc es st = .ok vs s → SameVars st s := by
  intro es
  induction es with
  | nil =>
    intro fuel st s vs _ h
    cases fuel with
    | zero => rw [evalArgs_zero] at h; simp at h
    | succ f => rw [evalArgs_nil] at h; simp only [Res.ok.injEq] at h; rw [← h.2]; exact SameVars.refl _
  | cons e rest ih =>
    intro fuel st s vs hp h
    cases fuel with
    | zero => rw [evalArgs_zero] at h; simp at h
    | succ f =>
      obtain ⟨v, s1, vs', h1, h2, _⟩ := evalArgs_cons_inv _ _ _ _ _ _ _ h
      exact (eval_pure xc _ _ _ _ _ (hp e (by simp)) h1).trans
        (ih f s1 s vs' (fun x hx => hp x (by simp [hx])) h2)

/-- The annotated, optimised actuals. -/
def optArgsOf (ρ : String → Option Word) (es : List X.Expr) : List AExpr :=
  es.map fun e => optExpr (annotate ρ e)

/-- Address `sp + q` as a frame slot. -/
theorem slot_of_out (K : PCtx) (q : Nat) (h : q < K.S) : K.slot (K.S - 1 - q) = K.sp + q := by
  unfold PCtx.slot; omega

/-- **`loadActuals` on call-free actuals**: every value ends up in its parameter slot; the
    representation is preserved; the slots below the first parameter index are untouched. -/
theorem exec_loadActuals (K : PCtx) (wf : K.WF) : ∀ (es : List X.Expr) (fuel : Nat) (st s : X.St) (ws : List Word),
    (∀ e ∈ es, pureE e = true) → X.evalArgs fuel K.xc es st = .ok (ws.map Val.int) s →
    ∀ (p saved : Nat) (gs : GS) (code : Code) (gs' : GS) (i : Nat) (a b : Word) (mem : Mem) (io : Isa.IOSt),
      loadActuals K.ctx (optArgsOf K.ρ es) p saved gs = .ok (code, gs') → At K.env.ds i (K.low code) → Rep K st mem →
      gs'.size + (p + es.length) ≤ K.S → K.nlocals ≤ gs.offset → gs.offset ≤ gs.size → ConstsIn K gs' →
      ∃ a' b' mem', Steps K.env (cfg i a b mem) io (cfg (i + (K.low code).length) a' b' mem') io ∧ Rep K st mem' ∧
        (∀ k (hk : k < ws.length), mem'.read (K.sp + p + k) = ws[k]) ∧
        (∀ q, q < p → mem'.read (K.sp + q) = mem.read (K.sp + q)) := by
  intro es
  induction es with
  | nil =>
    intro fuel st s ws _ hev p saved gs code gs' i a b mem io hg hat hr hb hnl hos hci
    simp only [optArgsOf, List.map_nil] at hg
    rw [loadActuals_nil] at hg
    simp only [Except.ok.injEq, Prod.mk.injEq] at hg
    rw [← hg.1]
    have hws : ws = [] := by
      cases fuel with
      | zero => rw [evalArgs_zero] at hev; simp at hev
      | succ f => rw [evalArgs_nil] at hev; simp only [Res.ok.injEq] at hev; simpa using hev.1.symm
    subst hws
    exact ⟨a, b, mem, Steps.refl _ _, hr, fun k hk => by simp at hk, fun _ _ => rfl⟩
  | cons e rest ih =>
    intro fuel st s ws hp hev p saved gs code gs' i a b mem io hg hat hr hb hnl hos hci
    cases fuel with
    | zero => rw [evalArgs_zero] at hev; simp at hev
    | succ f =>
      obtain ⟨v0, s1, vs', h1, h2, hvs⟩ := evalArgs_cons_inv _ _ _ _ _ _ _ hev
      cases ws with
      | nil => simp at hvs
      | cons v ws' =>
        simp only [List.map_cons, List.cons.injEq] at hvs
        obtain ⟨hv0, hvs'⟩ := hvs
        subst hv0; subst hvs'
        have hpe := hp e (by simp)
        have hprest : ∀ x ∈ rest, pureE x = true := fun x hx => hp x (by simp [hx])
        simp only [optArgsOf, List.map_cons] at hg
        rcases loadActuals_cons_inv _ _ _ _ _ _ _ _ hg with ⟨hcc, _⟩ | ⟨_, c, gs1, cs, hg1, hg2, hcode⟩
        · rw [pure_noCall K.ρ e hpe] at hcc; simp at hcc
        · subst hcode
          have e1 := genExpr_eff _ _ _ _ _ _ hg1
          have e2 := loadActuals_eff _ _ _ _ _ _ _ hg2
          simp only [List.length_cons] at hb
          simp only [low_append, List.append_assoc] at hat ⊢
          have hA := expr_pure_correct K wf f e st v s1 hpe h1
          obtain ⟨b1, mem1, st1, rep1, frm1⟩ := hA gs c gs1 i a b mem io hg1 hat.left hr
            (by have := e2.2.1; omega) hnl (hci.of_eff e2)
          -- store into the parameter slot
          have hmid : K.low [iLDBM SP_OFFSET, iSTAI (p : Int)] = [.imm 0x1 1, .imm 0x8 (p : Int)] := rfl
          rw [hmid] at hat ⊢
          have hld := hat.right.left.get 0 _ rfl
          have hst := hat.right.left.get 1 _ rfl
          simp only [Nat.add_zero] at hld hst
          have sA := Step.ldbm (env := K.env) (cfg (i + (K.low c).length) v b1 mem1) io 1 _ hld (ld_one mem1)
          have hpS : p < K.S := by omega
          obtain ⟨hsl1, hsl2⟩ := wf.slot_ok (K.S - 1 - p) (by omega)
          rw [slot_of_out K p hpS] at hsl1 hsl2
          have hadr : mem1.read 1 + IAm.W (p : Int) = BitVec.ofNat 32 (K.sp + p) := by
            rw [rep1.sp]; exact ofNat_add_W K.sp p
          have hsto : IAm.store K.env mem1 (mem1.read 1 + IAm.W (p : Int)) v = some (mem1.write (K.sp + p) v) := by
            rw [hadr]; exact store_ofNat _ _ _ _ hsl1 hsl2
          have sB := Step.stai (env := K.env) (cfg (i + (K.low c).length + 1) v (mem1.read 1) mem1) io _ _ hst hsto
          have frm2 : Frm K (K.S - 1 - p) (K.S - p) mem1 (mem1.write (K.sp + p) v) := by
            intro ad had
            rw [Mem.read_write_other]
            intro e
            apply had (K.S - 1 - p) (Nat.le_refl _) (by omega)
            rw [slot_of_out K p hpS]; exact e.symm
          have rep2 := rep1.frame wf frm2 (by have := e1.2.1; have := e2.2.1; omega) (by omega)
          have hs1 := eval_pure K.xc _ _ _ _ _ hpe h1
          obtain ⟨a', b', mem', st3, rep3, hvals, hkeep⟩ := ih f s1 s ws' hprest h2 (p + 1) saved gs1 cs gs'
            (i + (K.low c).length + 1 + 1) v (mem1.read 1) (mem1.write (K.sp + p) v) io hg2
            (by simpa [Nat.add_assoc] using hat.right.right) (rep2.same hs1)
            (by omega) (by have := e1.1; omega) (by have := e1.1; have := e1.2.1; omega) hci
          refine ⟨a', b', mem', ?_, rep3.same hs1.symm, ?_, ?_⟩
          · have : i + ((K.low c).length + ([Dir.imm 1 1, Dir.imm 8 (p : Int)].length + (K.low cs).length))
                = i + (K.low c).length + 1 + 1 + (K.low cs).length := by
              simp only [List.length_cons, List.length_nil]; omega
            simp only [List.length_append]
            rw [this]
            exact st1.trans (Steps.step _ _ _ _ _ _ sA (Steps.step _ _ _ _ _ _ sB st3))
          · intro k hk
            cases k with
            | zero =>
              simp only [Nat.add_zero, List.getElem_cons_zero]
              rw [hkeep p (by omega), Mem.read_write_same _ _ _ hsl1]
            | succ k' =>
              simp only [List.length_cons] at hk
              have := hvals k' (by omega)
              simp only [List.getElem_cons_succ]
              rw [← this]
              congr 1; omega
          · intro q hq
            rw [hkeep q (by omega), Mem.read_write_other _ _ _ _ (by omega)]
            apply frm1
            intro k h1' h2' e
            have hq' : q < K.S := by omega
            rw [← slot_of_out K q hq'] at e
            have := slot_inj K (K.S - 1 - q) k (by omega) (by have := e2.2.1; omega) e
            have := e2.2.1
            omega

end Hex.C01s
